// C02 harness: injects protocol messages with every combination of claimed
// sender token and envelope peer identity into real TreeNodeInstances (through
// Overlay.Process, Overlay.TransmitMsg and real router connections of a
// byzantine member) and reports what the protocol's handlers and channels
// received.  Scenarios run in worker sub-processes (package nodeh) because a
// sender-less message kills the process of the pinned code.
package main

import (
	"encoding/json"
	"fmt"
	"math/rand"
	"os"
	"strings"

	"verifharness/cmd/c02/nodeh"
	"verifharness/lib"
)

// input is one scenario plus what the generator knows about it.
type input struct {
	nodeh.Scenario
	Class  string `json:"class"`
	Detail string `json:"detail,omitempty"` // peer class / position of the receiver / route (statistics only)
}

var pool *nodeh.Pool

// ---------------------------------------------------------------- trees ----

func leaf(s int) nodeh.TreeSpec { return nodeh.TreeSpec{Srv: s} }
func nd(s int, ch ...nodeh.TreeSpec) nodeh.TreeSpec {
	return nodeh.TreeSpec{Srv: s, Ch: ch}
}

// smallTrees: every shape with up to 4 nodes over distinct servers, plus trees
// in which a server hosts two nodes (their node ids coincide).
func smallTrees() []nodeh.TreeSpec {
	return []nodeh.TreeSpec{
		leaf(0),
		nd(0, leaf(1)),
		nd(0, leaf(1), leaf(2)),
		nd(0, nd(1, leaf(2))),
		nd(0, leaf(1), leaf(2), leaf(3)),
		nd(0, nd(1, leaf(2), leaf(3))),
		nd(0, nd(1, nd(2, leaf(3)))),
		nd(0, nd(1, leaf(3)), leaf(2)),
		nd(0, leaf(1), leaf(0)),     // root's server also hosts a child
		nd(0, nd(1, leaf(0))),       // ... a grandchild
		nd(0, leaf(1), leaf(1)),     // both children on one server
		nd(0, nd(1, leaf(2)), leaf(2)),
	}
}

func bigTrees() []nodeh.TreeSpec {
	return []nodeh.TreeSpec{
		nd(0, nd(1, leaf(3), leaf(4)), leaf(2)),
		nd(0, leaf(1), leaf(2), leaf(3), leaf(4)),
		nd(0, nd(1, leaf(3), leaf(4)), nd(2, leaf(5))),
		nd(0, nd(1, leaf(2), leaf(3), leaf(4), leaf(5))),
		nd(0, nd(1, nd(2, nd(3, nd(4, leaf(5)))))),
		nd(0, nd(1, leaf(2), leaf(0)), nd(2, leaf(1))),
		nd(0, nd(1, nd(2, leaf(3), leaf(4)))), // node 2: two children, parent is not the root
	}
}

type flatNode struct{ srv, parent, nch int }

func flatten(t *nodeh.TreeSpec, parent int, out *[]flatNode) {
	me := len(*out)
	*out = append(*out, flatNode{t.Srv, parent, len(t.Ch)})
	for i := range t.Ch {
		flatten(&t.Ch[i], me, out)
	}
}

func children(ns []flatNode, p int) []int {
	var r []int
	for i, n := range ns {
		if n.parent == p {
			r = append(r, i)
		}
	}
	return r
}

func randomTree(rng *rand.Rand, n int, repeat bool) nodeh.TreeSpec {
	// random recursive tree: node k hangs off a random earlier node
	par := make([]int, n)
	srv := make([]int, n)
	for k := 0; k < n; k++ {
		if k > 0 {
			par[k] = rng.Intn(k)
		}
		if repeat {
			srv[k] = rng.Intn(nodeh.Outsider)
		} else {
			srv[k] = k % nodeh.Outsider
		}
	}
	var build func(k int) nodeh.TreeSpec
	build = func(k int) nodeh.TreeSpec {
		t := nodeh.TreeSpec{Srv: srv[k]}
		for c := k + 1; c < n; c++ {
			if par[c] == k {
				t.Ch = append(t.Ch, build(c))
			}
		}
		return t
	}
	return build(0)
}

// ------------------------------------------------------------ generator ----

var kindName = map[int]string{nodeh.TFence: "fence", nodeh.TH1: "handler-single", nodeh.THA: "handler-agg",
	nodeh.TC1: "channel-single", nodeh.TCA: "channel-agg", nodeh.THA2: "handler-agg2", nodeh.TCA2: "channel-agg2",
	nodeh.TNone: "unregistered", nodeh.TCB1: "channel-agg-cap1", nodeh.TCB2: "channel-agg-cap2"}

func senderClass(from int) string {
	switch from {
	case nodeh.FromAbsent:
		return "absent"
	case nodeh.FromRandom:
		return "random"
	case nodeh.FromOtherTree:
		return "othertree"
	case nodeh.FromNonMember:
		return "nonmember"
	}
	return "member"
}

func peerClass(ns []flatNode, from, peer int) string {
	switch {
	case peer == nodeh.PeerNone:
		return "none"
	case peer == nodeh.PeerNoKey:
		return "nokey"
	case peer == nodeh.Outsider:
		return "outsider"
	case peer == nodeh.PeerForger:
		return "forger"
	}
	member := false
	for _, n := range ns {
		if n.srv == peer {
			member = true
		}
	}
	if from >= 0 && from < len(ns) && ns[from].srv == peer {
		return "owner"
	}
	if member {
		return "othermember"
	}
	return "nonmember"
}

// a legitimate in-process fence to instance inst, claimed sender = any node (position 0)
func fence(inst int, payload int64) nodeh.Msg {
	return nodeh.Msg{Inst: inst, From: 0, Peer: nodeh.PeerNone, Wire: -1, Type: nodeh.TFence, Payload: payload, Route: "transmit"}
}

func legit(ns []flatNode, inst, from, typ int, payload int64, route string) nodeh.Msg {
	return nodeh.Msg{Inst: inst, From: from, Peer: ns[from].srv, Wire: -1, Type: typ, Payload: payload, Route: route}
}

func pickRoute(rng *rand.Rand, ns []flatNode, me, peer int) string {
	if peer < 0 {
		if peer == nodeh.PeerNone && rng.Intn(2) == 0 {
			return "transmit"
		}
		return "process"
	}
	if peer != ns[me].srv && rng.Intn(2) == 0 {
		return "conn"
	}
	return "process"
}

// eff is the node an instance addressed to position me really sits on: node
// ids derive from the server key and Tree.Search keeps the last match.
func eff(ns []flatNode, me int) int {
	for i := len(ns) - 1; i > me; i-- {
		if ns[i].srv == ns[me].srv {
			return i
		}
	}
	return me
}

// subject builds the scenario around ONE forged/tested message.
func subject(rng *rand.Rand, tree nodeh.TreeSpec, ns []flatNode, me, typ, from, peer int) input {
	me = eff(ns, me)
	route := pickRoute(rng, ns, me, peer)
	wire := -1
	switch rng.Intn(3) {
	case 0:
		if from >= 0 {
			wire = ns[from].srv // the attacker also forges the identity field of the wire message
		} else {
			wire = ns[0].srv
		}
	case 1:
		wire = rng.Intn(nodeh.NServers)
	}
	// the sender token may name ANOTHER tree the receiver knows (hosted by the outsider and the
	// root's server): the node must still be looked up in the instance's own tree
	other := rng.Intn(4) == 0
	if from == nodeh.FromOtherTree {
		other = rng.Intn(2) == 0
	}
	sub := nodeh.Msg{Inst: 0, From: from, OtherTree: other, Peer: peer, Wire: wire, Type: typ, Payload: 1, Route: route}
	var msgs []nodeh.Msg
	f := int64(100)
	add := func(m nodeh.Msg) {
		msgs = append(msgs, m)
		msgs = append(msgs, fence(0, f))
		f++
	}
	agg := typ == nodeh.THA || typ == nodeh.TCA
	ch := children(ns, me)
	if agg && len(ch) > 1 {
		// the other children answer legitimately; the subject takes the place of one child
		slot := rng.Intn(len(ch))
		pl := int64(2)
		for j, c := range ch {
			if j == slot {
				add(sub)
			} else {
				r := "process"
				if ns[c].srv != ns[me].srv && rng.Intn(3) == 0 {
					r = "conn"
				}
				add(legit(ns, 0, c, typ, pl, r))
				pl++
			}
		}
	} else {
		add(sub)
	}
	where := "inner"
	if ns[me].parent < 0 {
		where = "root"
	} else if ns[me].nch == 0 {
		where = "leaf"
	}
	// the class is what a finding's signature is matched against: keep it to the
	// claimed sender and the registration kind; the rest goes into the detail
	cl := fmt.Sprintf("table/sender-%s/%s", senderClass(from), kindName[typ])
	det := fmt.Sprintf("peer-%s/at-%s/%s", peerClass(ns, from, peer), where, route)
	return input{Scenario: nodeh.Scenario{Tree: tree, Insts: []int{me}, Msgs: msgs}, Class: cl, Detail: det}
}

func exhaustive(rng *rand.Rand, trees []nodeh.TreeSpec, absentBudget *int, sampleAbsent int) []interface{} {
	var ins []interface{}
	var absent []input
	for _, tr := range trees {
		var ns []flatNode
		flatten(&tr, -1, &ns)
		servers := map[int]bool{}
		for _, n := range ns {
			servers[n.srv] = true
		}
		var peers []int
		for s := 0; s < nodeh.Outsider; s++ {
			if servers[s] {
				peers = append(peers, s)
			}
		}
		// one member of the cluster that is not in the tree, the outsider, no identity, key-less identity
		for s := 0; s < nodeh.Outsider; s++ {
			if !servers[s] {
				peers = append(peers, s)
				break
			}
		}
		peers = append(peers, nodeh.Outsider, nodeh.PeerNone, nodeh.PeerNoKey)
		var froms []int
		for p := range ns {
			froms = append(froms, p)
		}
		froms = append(froms, nodeh.FromAbsent, nodeh.FromRandom, nodeh.FromOtherTree)
		if len(servers) < nodeh.Outsider {
			froms = append(froms, nodeh.FromNonMember) // only when some cluster server is not in the tree
		}
		for me := range ns {
			for _, typ := range []int{nodeh.TH1, nodeh.THA, nodeh.TC1, nodeh.TCA} {
				for _, from := range froms {
					for _, peer := range peers {
						in := subject(rng, tr, ns, me, typ, from, peer)
						if from == nodeh.FromAbsent {
							absent = append(absent, in)
						} else {
							ins = append(ins, in)
						}
					}
				}
			}
		}
	}
	// sender-less messages kill the worker of the pinned code: a seeded sample
	rng.Shuffle(len(absent), func(i, j int) { absent[i], absent[j] = absent[j], absent[i] })
	seen := map[string]int{}
	for _, in := range absent {
		if *absentBudget <= 0 {
			break
		}
		key := in.Class + "/" + in.Detail[:strings.LastIndex(in.Detail, "/")]
		if seen[key] >= sampleAbsent {
			continue
		}
		seen[key]++
		*absentBudget--
		ins = append(ins, in)
	}
	return ins
}

// randomScenario: several messages of any kind to one or two instances.
func randomScenario(rng *rand.Rand, allowAbsent bool) input {
	n := 2 + rng.Intn(5)
	tr := randomTree(rng, n, rng.Intn(3) == 0)
	var ns []flatNode
	flatten(&tr, -1, &ns)
	insts := []int{rng.Intn(n)}
	if rng.Intn(3) == 0 {
		insts = append(insts, rng.Intn(n))
	}
	var msgs []nodeh.Msg
	f := int64(100)
	k := 1 + rng.Intn(7)
	classes := map[string]bool{}
	for i := 0; i < k; i++ {
		inst := rng.Intn(len(insts))
		me := eff(ns, insts[inst])
		typ := 1 + rng.Intn(nodeh.NTypes-1)
		var from int
		switch r := rng.Intn(10); {
		case r < 6:
			from = rng.Intn(n)
			if ch := children(ns, me); len(ch) > 0 && rng.Intn(2) == 0 {
				from = ch[rng.Intn(len(ch))]
			}
		case r == 6:
			from = nodeh.FromRandom
		case r == 7:
			from = nodeh.FromOtherTree
		case r == 8:
			from = nodeh.FromNonMember
			used := map[int]bool{}
			for _, x := range ns {
				used[x.srv] = true
			}
			if len(used) >= nodeh.Outsider {
				from = nodeh.FromRandom
			}
		default:
			from = nodeh.FromAbsent
			if !allowAbsent {
				from = nodeh.FromRandom
			}
		}
		var peer int
		switch r := rng.Intn(10); {
		case r < 5 && from >= 0:
			peer = ns[from].srv
		case r < 8:
			peer = rng.Intn(nodeh.NServers)
		case r == 8:
			peer = nodeh.PeerNone
		default:
			peer = nodeh.PeerNoKey
		}
		wire := -1
		if rng.Intn(2) == 0 {
			wire = rng.Intn(nodeh.NServers)
		}
		classes["sender-"+senderClass(from)] = true
		route := pickRoute(rng, ns, me, peer)
		decl := nodeh.DeclConsistent
		if peer != nodeh.PeerNone && rng.Intn(4) == 0 {
			// the envelope identity declares somebody else's ID (or a zero / random one)
			decl = []int{1 + rng.Intn(nodeh.NServers), nodeh.DeclZero, nodeh.DeclRandom}[rng.Intn(3)]
			if from >= 0 && rng.Intn(2) == 0 {
				decl = ns[from].srv + 1
			}
			if peer >= 0 && decl == peer+1 {
				decl = nodeh.DeclZero
			}
			route = "process"
		}
		msgs = append(msgs, nodeh.Msg{Inst: inst, From: from, OtherTree: rng.Intn(8) == 0, Peer: peer, Decl: decl, Wire: wire,
			Type: typ, Payload: int64(i + 1), Route: route})
		msgs = append(msgs, fence(inst, f))
		f++
	}
	cl := "mixed"
	if classes["sender-absent"] {
		cl += "/sender-absent"
	}
	if classes["sender-random"] || classes["sender-othertree"] || classes["sender-nonmember"] {
		cl += "/sender-unknown"
	}
	if cl == "mixed" {
		cl = "mixed/members-only"
	}
	return input{Scenario: nodeh.Scenario{Tree: tr, Insts: insts, Msgs: msgs}, Class: cl}
}

func generate(rng *rand.Rand, tier string) []interface{} {
	var ins []interface{}
	if tier == "quick" {
		budget := 40
		ins = append(ins, exhaustive(rng, smallTrees(), &budget, 1)...)
		// the larger trees: a seeded third of the table
		b2 := 8
		big := exhaustive(rng, bigTrees(), &b2, 1)
		for _, in := range big {
			if rng.Intn(3) == 0 {
				ins = append(ins, in)
			}
		}
		for i := 0; i < 400; i++ {
			ins = append(ins, randomScenario(rng, i%20 == 0))
		}
		ins = append(ins, tcpTable(rng, 4)...)
		ins = append(ins, lateTable(rng, 3)...)
		ins = append(ins, idTable(rng, false)...)
		ins = append(ins, idTable(rng, true)...)
		ins = append(ins, afterGenuine(rng)...)
		ins = append(ins, rosterTable(rng, 4, 2)...)
		return ins
	}
	budget := 400
	ins = append(ins, exhaustive(rng, smallTrees(), &budget, 4)...)
	b2 := 200
	ins = append(ins, exhaustive(rng, bigTrees(), &b2, 2)...)
	for i := 0; i < 15; i++ {
		b3 := 10
		tr := randomTree(rng, 3+rng.Intn(4), true)
		ins = append(ins, exhaustive(rng, []nodeh.TreeSpec{tr}, &b3, 1)...)
	}
	for i := 0; i < 6000; i++ {
		ins = append(ins, randomScenario(rng, i%20 == 0))
	}
	ins = append(ins, tcpTable(rng, 12)...)
	for i := 0; i < 4; i++ {
		ins = append(ins, lateTable(rng, 6)...)
	}
	ins = append(ins, afterGenuine(rng)...)
	ins = append(ins, afterGenuine(rng)...)
	ins = append(ins, idTable(rng, false)...)
	for i := 0; i < 3; i++ {
		ins = append(ins, idTable(rng, true)...)
	}
	ins = append(ins, rosterTable(rng, 40, 1)...)
	return ins
}

// rosterTable: the sender x peer table on trees whose nodes' RosterIndex values disagree with the order
// of the tree's roster (reordered roster / hand-built nodes with another index).  The host of a node is
// TreeNode.ServerIdentity; the position in the roster decides nothing.  One case in `one` is kept.
func rosterTable(rng *rand.Rand, absent, one int) []interface{} {
	var ins []interface{}
	trees := []nodeh.TreeSpec{nd(0, leaf(1), leaf(2)), nd(0, nd(1, leaf(2)), leaf(3))}
	for _, x := range exhaustive(rng, trees, &absent, 1) {
		in := x.(input)
		if rng.Intn(one) != 0 {
			continue
		}
		in.RosterRot = []int{1, 2, -1, -2}[rng.Intn(4)]
		in.Detail += "/roster-order"
		ins = append(ins, in)
	}
	return ins
}

// tcpTable: the sender x peer table on one 3-node tree, every forged message over a real
// TCP connection from the (byzantine) peer's server.
func tcpTable(rng *rand.Rand, absent int) []interface{} {
	var ins []interface{}
	tr := nd(0, leaf(1), leaf(2))
	var ns []flatNode
	flatten(&tr, -1, &ns)
	for me := range ns {
		for _, typ := range []int{nodeh.TH1, nodeh.THA, nodeh.TC1, nodeh.TCA} {
			for _, from := range []int{0, 1, 2, nodeh.FromAbsent, nodeh.FromRandom, nodeh.FromOtherTree, nodeh.FromNonMember} {
				for _, peer := range []int{0, 1, 2, 3, nodeh.Outsider} {
					if peer == ns[me].srv {
						continue // a server does not connect to itself
					}
					if from == nodeh.FromAbsent {
						if absent <= 0 || rng.Intn(6) != 0 {
							continue
						}
						absent--
					}
					in := subject(rng, tr, ns, me, typ, from, peer)
					for i := range in.Msgs {
						if in.Msgs[i].Type != nodeh.TFence && in.Msgs[i].Peer != ns[me].srv && in.Msgs[i].Peer >= 0 {
							in.Msgs[i].Route = "conn"
						}
					}
					in.Net = "tcp"
					in.Detail += "/tcp"
					ins = append(ins, in)
				}
			}
		}
	}
	return ins
}

// idTable: envelope / handshake identities whose deprecated, self-declared ID field is forged
// (the victim's ID, the receiver's ID, zero, random) while the KEY is the peer's own: another
// member's key, the outsider's, a fresh attacker key, no key at all -- and also the legitimate
// owner's key with a wrong ID, which must still be accepted.  In-process through
// Overlay.Process, and over a real TCP connection of a router that presents the forged
// identity in its handshake.
func idTable(rng *rand.Rand, tcp bool) []interface{} {
	var ins []interface{}
	for _, tr := range []nodeh.TreeSpec{nd(0, leaf(1), leaf(2)), nd(0, nd(1, leaf(2)))} {
		var ns []flatNode
		flatten(&tr, -1, &ns)
		for me := range ns {
			for _, typ := range []int{nodeh.TH1, nodeh.THA, nodeh.TC1, nodeh.TCA} {
				for from := range ns {
					victim := ns[from].srv
					for _, peer := range []int{0, 1, 2, 3, nodeh.Outsider, nodeh.PeerForger, nodeh.PeerNoKey} {
						for _, decl := range []int{victim + 1, ns[me].srv + 1, nodeh.DeclZero, nodeh.DeclRandom} {
							if peer >= 0 && peer < nodeh.NServers && decl == peer+1 {
								continue // that is the consistent identity
							}
							if tcp && (peer == nodeh.PeerNoKey || peer == ns[me].srv || rng.Intn(3) != 0) {
								continue
							}
							in := subject(rng, tr, ns, me, typ, from, peer)
							for i := range in.Msgs {
								m := &in.Msgs[i]
								if m.Type == nodeh.TFence || m.Payload != 1 {
									continue // only the subject message carries the forged identity
								}
								m.Decl = decl
								m.Route = "process"
								if tcp {
									m.Route = "conn"
								}
							}
							declName := map[bool]string{true: "victim", false: "other"}[decl == victim+1]
							if decl < 0 {
								declName = map[int]string{nodeh.DeclZero: "zero", nodeh.DeclRandom: "random"}[decl]
							}
							in.Detail = fmt.Sprintf("peer-%s/id-%s", peerClass(ns, from, peer), declName)
							if tcp {
								in.Net = "tcp"
								in.Detail += "/tcp-handshake"
							}
							ins = append(ins, in)
						}
					}
				}
			}
		}
	}
	return ins
}

// afterGenuine: aggregated types at a node with >= 2 children.  A child's GENUINE message is waiting;
// then another server sends a message whose sender token names that same child (forged); then the
// other children answer and the batch completes.  Whatever the node delivers under the child's
// tree node must be a payload that child's server sent.
func afterGenuine(rng *rand.Rand) []interface{} {
	var ins []interface{}
	type tc struct {
		tree nodeh.TreeSpec
		me   int
	}
	for _, t := range []tc{{nd(0, leaf(1), leaf(2)), 0}, {nd(0, leaf(1), leaf(2), leaf(3)), 0}, {nd(0, nd(1, leaf(2), leaf(3))), 1}} {
		var ns []flatNode
		flatten(&t.tree, -1, &ns)
		ch := children(ns, t.me)
		for _, typ := range []int{nodeh.THA, nodeh.TCA, nodeh.TCB2} {
			for _, victim := range ch {
				for _, liar := range []int{-10, nodeh.Outsider, nodeh.PeerForger, nodeh.PeerNoKey} {
					peer, decl := liar, nodeh.DeclConsistent
					if liar == -10 { // a sibling's server
						for _, c := range ch {
							if c != victim {
								peer = ns[c].srv
							}
						}
					}
					if liar == nodeh.PeerForger || liar == nodeh.PeerNoKey {
						decl = ns[victim].srv + 1 // own (or no) key, the victim's declared ID
					}
					var msgs []nodeh.Msg
					pl, f := int64(1), int64(100)
					add := func(m nodeh.Msg) {
						m.Payload = pl
						pl++
						msgs = append(msgs, m, fence(0, f))
						f++
					}
					add(legit(ns, 0, victim, typ, 0, "process"))
					route := "process"
					if decl == nodeh.DeclConsistent && peer >= 0 && peer != ns[t.me].srv && rng.Intn(2) == 0 {
						route = "conn"
					}
					add(nodeh.Msg{Inst: 0, From: victim, Peer: peer, Decl: decl, Wire: ns[victim].srv, Type: typ, Route: route})
					for round := 0; round < 2; round++ {
						rest := append([]int{}, ch...)
						rng.Shuffle(len(rest), func(i, j int) { rest[i], rest[j] = rest[j], rest[i] })
						for _, c := range rest {
							if round == 0 && c == victim {
								continue
							}
							add(legit(ns, 0, c, typ, 0, "process"))
						}
					}
					ins = append(ins, input{Scenario: nodeh.Scenario{Tree: t.tree, Insts: []int{t.me}, Msgs: msgs},
						Class:  fmt.Sprintf("table/sender-member/%s", kindName[typ]),
						Detail: fmt.Sprintf("peer-%s/forged-after-genuine/%s", peerClass(ns, victim, peer), route)})
				}
			}
		}
	}
	return ins
}

// lateTable: the receiving server learns the tree only through the message (it parks the
// message, asks the envelope's peer for the tree, dispatches when the tree has arrived).
func lateTable(rng *rand.Rand, absent int) []interface{} {
	var ins []interface{}
	tr := nd(0, leaf(1), leaf(2))
	var ns []flatNode
	flatten(&tr, -1, &ns)
	for me := range ns {
		for _, typ := range []int{nodeh.TH1, nodeh.THA, nodeh.TC1, nodeh.TCA} {
			for _, from := range []int{0, 1, 2, nodeh.FromAbsent, nodeh.FromRandom, nodeh.FromOtherTree} {
				for _, peer := range []int{0, 1, 2, 3, nodeh.Outsider} {
					if peer == ns[me].srv {
						continue // the tree is requested from the peer: it must be another server
					}
					if from == nodeh.FromAbsent {
						if absent <= 0 || rng.Intn(8) != 0 {
							continue
						}
						absent--
					}
					in := subject(rng, tr, ns, me, typ, from, peer)
					for i := range in.Msgs {
						// no in-process TransmitMsg while the tree is unknown (it needs a message proxy): the
						// fences also enter through Overlay.Process
						if in.Msgs[i].Route == "transmit" {
							in.Msgs[i].Route = "process"
						}
					}
					in.LateTree = true
					in.Detail += "/late-tree"
					ins = append(ins, in)
				}
			}
		}
	}
	return ins
}

func corpus() []interface{} {
	two := nd(0, leaf(1))
	mk := func(from int, typ int, class string) input {
		return input{Scenario: nodeh.Scenario{Tree: two, Insts: []int{0}, Msgs: []nodeh.Msg{
			{Inst: 0, From: from, Peer: 1, Wire: -1, Type: typ, Payload: 42, Route: "conn"}, fence(0, 100)}}, Class: class}
	}
	tcp := mk(0, nodeh.TH1, "table/sender-member/handler-single")
	tcp.Net = "tcp"
	tcp.Msgs[0].Wire = 0 // the wire message's own identity field names the root's server
	// the outsider hosts a node of a second tree the receiver knows and names that tree in its sender token
	foreign := mk(nodeh.FromOtherTree, nodeh.TH1, "table/sender-othertree/handler-single")
	foreign.Msgs[0].Peer, foreign.Msgs[0].OtherTree = nodeh.Outsider, true
	// the root's server is in both trees: its token names the other tree, the node handed over must be this tree's
	both := mk(0, nodeh.TC1, "table/sender-member/channel-single")
	both.Insts, both.Msgs[0].Peer, both.Msgs[0].OtherTree = []int{1}, 0, true
	both.Msgs[1].From = 0
	// genuine answer of child 1 waiting, then child 2's server sends "as child 1", then child 2 answers:
	// nothing child 1's server did not send may be delivered under child 1's node
	three := input{Scenario: nodeh.Scenario{Tree: nd(0, leaf(1), leaf(2)), Insts: []int{0}, Msgs: []nodeh.Msg{
		{Inst: 0, From: 1, Peer: 1, Wire: -1, Type: nodeh.THA, Payload: 1, Route: "process"}, fence(0, 100),
		{Inst: 0, From: 1, Peer: 2, Wire: 1, Type: nodeh.THA, Payload: 2, Route: "conn"}, fence(0, 101),
		{Inst: 0, From: 2, Peer: 2, Wire: -1, Type: nodeh.THA, Payload: 3, Route: "process"}, fence(0, 102)}},
		Class: "table/sender-member/handler-agg", Detail: "peer-othermember/forged-after-genuine/conn"}
	threeCh := three
	threeCh.Msgs = append([]nodeh.Msg{}, three.Msgs...)
	for i := range threeCh.Msgs {
		if threeCh.Msgs[i].Type == nodeh.THA {
			threeCh.Msgs[i].Type = nodeh.TCA
		}
	}
	threeCh.Class = "table/sender-member/channel-agg"
	// the tree's roster lists the servers in another order than the nodes' RosterIndex values say
	// (NewTree with a reordered roster): child 2's server, which stands at child 1's roster position,
	// sends "as child 1"; child 1's own answer is the one that counts
	reord := input{Scenario: nodeh.Scenario{Tree: nd(0, leaf(1), leaf(2)), Insts: []int{0}, RosterRot: 1, Msgs: []nodeh.Msg{
		{Inst: 0, From: 1, Peer: 2, Wire: -1, Type: nodeh.TH1, Payload: 1, Route: "process"}, fence(0, 100),
		{Inst: 0, From: 1, Peer: 1, Wire: -1, Type: nodeh.TC1, Payload: 2, Route: "process"}, fence(0, 101)}},
		Class: "table/sender-member/handler-single", Detail: "peer-othermember/roster-order"}
	return []interface{}{
		three, threeCh, reord,
		foreign, both,
		// a member claiming to be the root over a real TCP connection is refused
		tcp,
		// F02 (Node/VerifyProofs.v placeholder_refuted): member 1 names a node id that is not in the tree
		mk(nodeh.FromRandom, nodeh.TH1, "table/sender-random/handler-single"),
		// F03 (nosender_refuted): no sender token at all
		mk(nodeh.FromAbsent, nodeh.TH1, "table/sender-absent/handler-single"),
		// regression: a member claiming to be the root is refused
		mk(0, nodeh.TH1, "table/sender-member/handler-single"),
	}
}

// ------------------------------------------------------------------ run ----

func run(raw json.RawMessage) lib.Case {
	var in input
	if err := json.Unmarshal(raw, &in); err != nil {
		panic(err)
	}
	for _, m := range in.Msgs {
		if m.Payload < 0 || m.Payload > 4000 {
			return lib.Case{Discard: true}
		}
	}
	res := pool.Run(&in.Scenario)
	// only a malformed scenario (a generator / replay-file error the implementation cannot cause) is dropped
	if res.Status == "error" || len(res.Nodes) == 0 || len(res.FromIDs) != len(in.Msgs) {
		fmt.Fprintln(os.Stderr, "discarded scenario:", res.Status, res.Detail)
		return lib.Case{Discard: true}
	}
	class := in.Class
	if class == "" {
		class = "replay"
	}
	type obsT struct {
		Deliveries []nodeh.Delivery `json:"deliveries"`
		Status     string           `json:"status"`
		Detail     string           `json:"detail,omitempty"`
	}
	return lib.Case{Coq: nodeh.CoqCase(&in.Scenario, &res), Class: class,
		Obs: obsT{res.Deliveries, res.Status, res.Detail}, Nontrivial: true}
}

func main() {
	if len(os.Args) > 1 && os.Args[1] == "-nodeh-child" {
		nodeh.ChildMain()
		return
	}
	pool = nodeh.NewPool(6)
	defer pool.Close()
	lib.Main(lib.Harness{
		Prop:   "C02",
		Import: "Onet.Corr.C02",
		Rule: "every (tree shape <= 4 nodes incl. repeated servers) x receiving node x registration kind (handler/channel x single/aggregated) x " +
			"claimed sender (each node, absent, random id, node of another tree, non-member) x envelope peer (each member, non-member, outsider, none, key-less), " +
			"a seeded part of the same table for 5-6 node trees, seeded multi-message scenarios, the sender x peer table of a 3-node tree on servers with real TCP sockets, " +
			"the table of forged declared-ID fields (envelope identity = own key + the victim's / the receiver's / a zero / a random ID; in-process and in the TCP handshake of an attacker's router), " +
			"the three-step sequence genuine answer waiting / forged message naming the same child / completion, for aggregated handlers and channels; " +
			"the sender x peer table (a seeded half) on a 3-node and a 4-node tree whose nodes' RosterIndex values disagree with the order of the tree's roster " +
			"(roster rotated after the nodes were made / hand-built nodes carrying another index; the host of a node is TreeNode.ServerIdentity, the model's tree has no roster order); " +
			"and the same table with a receiver that learns the tree only through the message (parked, tree requested from the envelope's peer, dispatched on arrival); " +
			"routes: Overlay.Process, Overlay.TransmitMsg, a router connection of the (byzantine) peer's server (in-memory transport or TCP); " +
			"sender-less messages (they kill the pinned code's process) are a seeded sample; distinct = distinct Coq case term",
		Shard:    250,
		Generate: generate,
		Run:      run,
		Corpus:   corpus,
	})
}
