// C14 harness, second part: (1) conversations on a path registered with
// RegisterStreamingHandler, run concurrently with the ordinary requests of a round;
// (2) scenarios that drive the repository's own client API (Client.SendProtobuf,
// SendProtobufParallel, SendProtobufParallelWithDecoder) against 2-4 servers whose
// replies differ (each reply carries the identity of the server and an echo of the
// request), with gated handlers that fix the order in which the servers answer.
package main

import (
	"encoding/hex"
	"errors"
	"fmt"
	"math/rand"
	"runtime"
	"strconv"
	"strings"
	"sync"
	"time"

	"github.com/gorilla/websocket"
	"go.dedis.ch/onet/v3"
	"go.dedis.ch/onet/v3/log"
	"go.dedis.ch/onet/v3/network"
	"go.dedis.ch/protobuf"

	"encoding/json"

	"verifharness/lib"
)

// ---------------------------------------------------------------- streaming path

// MsgT is the argument of the streaming handler.
type MsgT struct {
	S string
	I int64
	B bool
	D []byte
}

// streamT answers a good request with 1 + (I mod 3) echoes (tag 4) and an end marker
// (tag 5), then keeps its channel open until it is told to stop; S = "fail..." is an
// error, S = "panic..." a panic.
func streamT(m *MsgT) (chan *Reply, chan bool, error) {
	if err := byS(m.S); err != nil {
		return nil, nil, err
	}
	out := make(chan *Reply, 8)
	stop := make(chan bool)
	n := 1 + int(((m.I%3)+3)%3)
	go func() {
		for i := 0; i < n; i++ {
			out <- &Reply{4, m.S, m.I, !m.B, m.D}
		}
		out <- &Reply{5, m.S, m.I, !m.B, m.D}
		<-stop
		close(out)
	}()
	return out, stop, nil
}

// MsgU is the argument of the streaming handler whose requests of one session share one
// stop channel (the documented bidirectional use of ProcessClientStreamRequest).
type MsgU struct {
	Sess string
	I    int64
}

var shareMu sync.Mutex
var shareStops = map[string]chan bool{}

func streamU(m *MsgU) (chan *Reply, chan bool, error) {
	shareMu.Lock()
	stop, ok := shareStops[m.Sess]
	if !ok {
		stop = make(chan bool)
		shareStops[m.Sess] = stop
	}
	shareMu.Unlock()
	out := make(chan *Reply, 2)
	go func() {
		out <- &Reply{5, m.Sess, m.I, false, nil}
		<-stop
		close(out)
	}()
	return out, stop, nil
}

// shareHook holds the first stopper that reaches the schedule point stream.stopperClose
// (between "the stop channel is still open" and its close) for a given stop channel until a
// second stopper of that channel reaches the point too, or 4 ms have passed. In the code as
// it is the point lies under the closing lock and no second stopper can get there: the hold
// only delays the close. It shapes the interleaving, it does not change what the code does.
var shareHoldMu sync.Mutex
var shareHold = map[interface{}]chan struct{}{}

func shareHook(point string, args ...interface{}) {
	if point != "stream.stopperClose" || len(args) == 0 {
		return
	}
	ch, ok := args[0].(chan bool)
	if !ok {
		return
	}
	shareHoldMu.Lock()
	w, second := shareHold[ch]
	if second {
		select {
		case <-w:
		default:
			close(w)
		}
		shareHoldMu.Unlock()
		return
	}
	w = make(chan struct{})
	shareHold[ch] = w
	shareHoldMu.Unlock()
	select {
	case <-w:
	case <-time.After(4 * time.Millisecond):
	}
}

// shareRounds: shareRoundsN times, a client of its own sends n requests of one session on
// one stream, reads the n answers and goes away without a close handshake.
const shareRoundsN = 40

func shareRounds(srv *onet.Server, n int) {
	port, _ := strconv.Atoi(srv.ServerIdentity.Address.Port())
	url := fmt.Sprintf("ws://%s:%d/%s/MsgU", srv.ServerIdentity.Address.Host(), port+1, svcName)
	for r := 0; r < shareRoundsN; r++ {
		d := websocket.Dialer{HandshakeTimeout: 5 * time.Second}
		conn, _, err := d.Dial(url, nil)
		if err != nil {
			return
		}
		ok := true
		for k := 0; k < n && ok; k++ {
			buf, _ := protobuf.Encode(&MsgU{fmt.Sprintf("s%d-%d", port, r), int64(k)})
			ok = conn.WriteMessage(websocket.BinaryMessage, buf) == nil
		}
		for k := 0; k < n && ok; k++ {
			conn.SetReadDeadline(time.Now().Add(5 * time.Second))
			_, _, err := conn.ReadMessage()
			ok = err == nil
		}
		conn.Close()
	}
	time.Sleep(150 * time.Millisecond)
}

type streamConv struct {
	Client int     `json:"c"`
	Msgs   []wsReq `json:"msgs"` // Path is ignored
}

type streamObs struct {
	Replies [][]obsReply `json:"replies"`
	Status  string       `json:"status"` // open closed dead
	Raw     string       `json:"raw,omitempty"`
}

// doStream runs one conversation over a websocket connection of its own: send a
// message, read what comes back up to the end marker of that message, send the next.
func doStream(srv *onet.Server, c *streamConv) (o streamObs) {
	defer func() {
		if r := recover(); r != nil {
			o.Status, o.Raw = "dead", "client panic: "+short(fmt.Sprint(r))
		}
	}()
	port, _ := strconv.Atoi(srv.ServerIdentity.Address.Port())
	url := fmt.Sprintf("ws://%s:%d/%s/MsgT", srv.ServerIdentity.Address.Host(), port+1, svcName)
	d := websocket.Dialer{HandshakeTimeout: 5 * time.Second}
	conn, _, err := d.Dial(url, nil)
	if err != nil {
		return streamObs{Status: "dead", Raw: "dial: " + short(err.Error())}
	}
	defer conn.Close()
	o.Status = "open"
	for k := range c.Msgs {
		if err := conn.WriteMessage(websocket.BinaryMessage, wsBytes(&c.Msgs[k])); err != nil {
			o.Status, o.Raw = "dead", "write: "+short(err.Error())
			return o
		}
		var got []obsReply
		for {
			conn.SetReadDeadline(time.Now().Add(20 * time.Second))
			_, buf, err := conn.ReadMessage()
			if err != nil {
				o.Replies = append(o.Replies, got)
				if ce, ok := err.(*websocket.CloseError); ok && ce.Code == websocket.CloseNormalClosure {
					o.Status = "closed"
				} else {
					o.Status = "dead"
				}
				o.Raw = short(err.Error())
				return o
			}
			var r Reply
			if derr := protobuf.Decode(buf, &r); derr != nil {
				got = append(got, obsReply{Class: "EOther", Raw: "undecodable reply " + hex.EncodeToString(buf)})
				continue
			}
			got = append(got, okReply(&r))
			if r.T == 5 {
				break
			}
		}
		o.Replies = append(o.Replies, got)
	}
	conn.WriteMessage(websocket.CloseMessage, websocket.FormatCloseMessage(websocket.CloseNormalClosure, "bye"))
	return o
}

func coqWsBody(w *wsReq) string {
	if w.Garbage != "" {
		return "SGarbage"
	}
	s, i, b, d := "None", "None", "None", "None"
	if w.S != nil {
		s = coqOpt(true, coqStr(*w.S))
	}
	if w.I != nil {
		i = coqOpt(true, lib.Z(*w.I))
	}
	if w.B != nil {
		b = coqOpt(true, lib.Bool(*w.B))
	}
	if w.D != nil {
		d = coqOpt(true, coqStr(*w.D))
	}
	return fmt.Sprintf("(SMsg (PMsg %s %s %s %s))", s, i, b, d)
}

func coqPMsg(w *wsReq) string {
	b := coqWsBody(w)
	return strings.TrimSuffix(strings.TrimPrefix(b, "(SMsg "), ")")
}

func coqConv(c streamConv) string {
	ms := make([]string, len(c.Msgs))
	for i := range c.Msgs {
		ms[i] = coqWsBody(&c.Msgs[i])
	}
	return fmt.Sprintf("(SConv %d %s)", c.Client, lib.List(ms))
}

func coqStreamObs(o streamObs) string {
	rs := make([]string, len(o.Replies))
	for i, l := range o.Replies {
		xs := make([]string, len(l))
		for j := range l {
			xs[j] = coqReply(l[j])
		}
		rs[i] = lib.List(xs)
	}
	st := map[string]string{"open": "SOpen", "closed": "SClosed"}[o.Status]
	if st == "" {
		st = "SDead"
	}
	return fmt.Sprintf("(SObs %s %s)", lib.List(rs), st)
}

// ---------------------------------------------------------------- several servers

// MsgQ is the request of the multi-server scenarios.
type MsgQ struct {
	S string
	I int64
	B bool
	D []byte
}

var nodeIndex sync.Map // network.ServerIdentityID -> int
var nodeBehav []string // per node: ok fail panic bad

// wsQ answers with an echo of the request and, in I, the index of the server that
// handled it; the behaviour of a server is set per scenario. A gate keyed 5000+index
// holds the answer back.
func (s *svc) wsQ(m *MsgQ) (*Reply, error) {
	i := -1
	if v, ok := nodeIndex.Load(s.ServerIdentity().ID); ok {
		i = v.(int)
	}
	if v, ok := gates.Load(int64(5000 + i)); ok {
		gateArrived <- int64(5000 + i)
		<-v.(*gate).release
	}
	b := "ok"
	if i >= 0 && i < len(nodeBehav) {
		b = nodeBehav[i]
	}
	switch b {
	case "fail":
		return nil, errors.New("HE[node-fails]")
	case "panic":
		panic(pStruct{"HP[node-panics]"})
	case "bad":
		return &Reply{66, m.S, int64(i), m.B, m.D}, nil
	}
	return &Reply{6, m.S, int64(i), m.B, m.D}, nil
}

type parOpts struct {
	Nil       bool  `json:"nil"`
	Parallel  int   `json:"parallel"`
	Ask       int   `json:"ask"`
	Start     int   `json:"start"`
	Quit      bool  `json:"quit"`
	Ignore    []int `json:"ignore"`
	NoShuffle bool  `json:"noshuffle"`
}

type parCall struct {
	Node int   `json:"node"`
	Msg  wsReq `json:"msg"`
}

type reuseCall struct {
	Node int   `json:"node"`
	Ack  bool  `json:"ack"` // to the acknowledge-only endpoint MsgN
	Msg  wsReq `json:"msg"`
}

type parStep struct {
	// All: Client.SendToAll over the roster of all nodes (uses Msg)
	All  bool      `json:"all,omitempty"`
	Send []parCall `json:"send,omitempty"`
	// SendProtobuf calls one after the other that reuse ONE reply variable
	Reuse []reuseCall `json:"reuse,omitempty"`
	// a parallel call
	Call    bool    `json:"call,omitempty"`
	Opts    parOpts `json:"opts"`
	Decoder bool    `json:"decoder"`
	WantRet bool    `json:"wantret"`
	Msg     wsReq   `json:"msg"`
	Prio    []int   `json:"prio,omitempty"`
	// Hold: keep the worker that got this node's reply at the schedule point
	// client.parAccept until all other nodes have answered (needs Prio)
	Hold *int `json:"hold,omitempty"`
}

type parInput struct {
	Nodes []string  `json:"nodes"`
	Keep  bool      `json:"keep"`
	Steps []parStep `json:"steps"`
}

type retObs struct {
	Touched bool   `json:"touched"`
	S       string `json:"S,omitempty"`
	I       int64  `json:"I,omitempty"`
	B       bool   `json:"B,omitempty"`
	D       string `json:"D,omitempty"`
}

type stepOut struct {
	// SendToAll: the returned slice slot by slot (nil = empty slot) and whether an error came back
	IsAll  bool        `json:"isall,omitempty"`
	All    []*obsReply `json:"allslots,omitempty"`
	AllErr bool        `json:"allerr,omitempty"`
	Send   []obsReply  `json:"send,omitempty"`
	// per call of a reuse step: the error, or what the shared reply variable holds afterwards
	Reuse []obsReply `json:"reuse,omitempty"`
	// parallel call
	Returned bool     `json:"returned,omitempty"`
	Result   string   `json:"result,omitempty"` // node error crash
	Node     int      `json:"node,omitempty"`
	Err      obsReply `json:"err,omitempty"`
	First    retObs   `json:"first"`
	Final    retObs   `json:"final"`
	Raw      string   `json:"raw,omitempty"`
	// Provisional: written when the call has returned, before the held replies are let
	// through; replaced by the final record of the step unless the process dies first
	Provisional bool `json:"provisional,omitempty"`
	Died        bool `json:"died,omitempty"`
	// Unreached: the worker never came to the schedule point client.parAccept (recorded
	// for the reader; the observation is evaluated as it is)
	Unreached bool `json:"unreached,omitempty"`
}

// the worker held at client.parAccept
var holdMu sync.Mutex
var holdNode *network.ServerIdentity
var holdArrived chan struct{}
var holdRelease chan struct{}

func parHook(point string, args ...interface{}) {
	if point != "client.parAccept" || len(args) == 0 {
		return
	}
	si, ok := args[0].(*network.ServerIdentity)
	if !ok {
		return
	}
	holdMu.Lock()
	match := holdNode != nil && holdNode.ID.Equal(si.ID)
	arr, rel := holdArrived, holdRelease
	if match {
		holdNode = nil // once
	}
	holdMu.Unlock()
	if match {
		close(arr)
		<-rel
	}
}

func msgQ(w *wsReq) *MsgQ {
	m := &MsgQ{}
	if w.S != nil {
		m.S = *w.S
	}
	if w.I != nil {
		m.I = *w.I
	}
	if w.B != nil {
		m.B = *w.B
	}
	if w.D != nil {
		m.D, _ = hex.DecodeString(*w.D)
	}
	return m
}

func snapRet(r *Reply, mu *sync.Mutex) retObs {
	mu.Lock()
	defer mu.Unlock()
	if r.T == -1 {
		return retObs{}
	}
	return retObs{true, r.S, r.I, r.B, hex.EncodeToString(r.D)}
}

// goroutines of the parallel sender (its workers, and Sends started by them)
func parGoroutines() int {
	buf := make([]byte, 1<<20)
	buf = buf[:runtime.Stack(buf, true)]
	n := 0
	for _, g := range strings.Split(string(buf), "\n\n") {
		if strings.Contains(g, "SendProtobufParallelWithDecoder") || strings.Contains(g, "onet/v3.(*Client).Send(") {
			n++
		}
	}
	return n
}

func classifyParErr(err error) obsReply {
	if strings.Contains(err.Error(), "decoder rejected") {
		return obsReply{Class: "EDecode", Raw: short(err.Error())}
	}
	return classifyWS(nil, err)
}

func runPar(in *input, emit func(interface{}), started *bool) (discard bool, hung bool) {
	registerOnce.Do(func() {
		log.SetDebugVisible(0)
		log.OutputToBuf()
		if _, err := onet.RegisterNewService(svcName, newSvc); err != nil {
			panic(err)
		}
	})
	log.OutputToBuf()
	defer func() { log.GetStdOut(); log.GetStdErr() }()
	onet.SetVerifHook(parHook)
	p := in.Par
	l := onet.NewTCPTest(suite)
	l.Check = onet.CheckNone
	servers := l.GenServers(len(p.Nodes))
	defer l.CloseAll()
	nodeBehav = append([]string{}, p.Nodes...)
	sis := make([]*network.ServerIdentity, len(servers))
	for i, s := range servers {
		nodeIndex.Store(s.ServerIdentity.ID, i)
		sis[i] = s.ServerIdentity
	}
	defer func() {
		for _, s := range servers {
			nodeIndex.Delete(s.ServerIdentity.ID)
		}
	}()
	var cl *onet.Client
	if p.Keep {
		cl = onet.NewClientKeep(suite, svcName)
	} else {
		cl = onet.NewClient(suite, svcName)
	}
	cl.ReadTimeout = 45 * time.Second
	defer cl.Close()
	idx := func(si *network.ServerIdentity) int {
		for i, s := range sis {
			if si != nil && s.ID.Equal(si.ID) {
				return i
			}
		}
		return -1
	}

	*started = true
	for _, st := range p.Steps {
		if st.All {
			so := stepOut{IsAll: true}
			fin := make(chan struct{})
			go func() {
				defer close(fin)
				defer func() {
					if r := recover(); r != nil {
						so.Raw = "client panic: " + short(fmt.Sprint(r))
					}
				}()
				buf, err := protobuf.Encode(msgQ(&st.Msg))
				if err != nil {
					panic(err)
				}
				msgs, err := cl.SendToAll(onet.NewRoster(sis), "MsgQ", buf)
				so.AllErr = err != nil
				for _, m := range msgs {
					if len(m) == 0 {
						so.All = append(so.All, nil)
						continue
					}
					o := classifyWS(m, nil)
					so.All = append(so.All, &o)
				}
			}()
			select {
			case <-fin:
			case <-time.After(roundDeadline):
				emit(stepOut{Raw: "sends did not end"})
				return false, true
			}
			emit(so)
			continue
		}
		if len(st.Reuse) > 0 {
			out := make([]obsReply, len(st.Reuse))
			fin := make(chan struct{})
			go func() {
				defer close(fin)
				ret := &Reply{} // one variable for all the calls
				for i, c := range st.Reuse {
					func() {
						defer func() {
							if r := recover(); r != nil {
								out[i] = obsReply{Class: "EOther", Raw: "client panic: " + short(fmt.Sprint(r))}
							}
						}()
						if c.Node < 0 || c.Node >= len(sis) {
							out[i] = obsReply{Class: "EOther", Raw: "no such node"}
							return
						}
						var msg interface{} = msgQ(&c.Msg)
						if c.Ack {
							q := msgQ(&c.Msg)
							msg = &MsgN{q.S, q.I, q.B, q.D}
						}
						if err := cl.SendProtobuf(sis[c.Node], msg, ret); err != nil {
							out[i] = classifyWS(nil, err)
						} else {
							out[i] = okReply(ret)
						}
					}()
				}
			}()
			select {
			case <-fin:
			case <-time.After(roundDeadline):
				emit(stepOut{Raw: "sends did not end"})
				return false, true
			}
			emit(stepOut{Reuse: out})
			continue
		}
		if !st.Call {
			out := make([]obsReply, len(st.Send))
			var wg sync.WaitGroup
			for i := range st.Send {
				wg.Add(1)
				go func(i int) {
					defer wg.Done()
					defer func() {
						if r := recover(); r != nil {
							out[i] = obsReply{Class: "EOther", Raw: "client panic: " + short(fmt.Sprint(r))}
						}
					}()
					c := st.Send[i]
					if c.Node < 0 || c.Node >= len(sis) {
						out[i] = obsReply{Class: "EOther", Raw: "no such node"}
						return
					}
					rep := &Reply{}
					if err := cl.SendProtobuf(sis[c.Node], msgQ(&c.Msg), rep); err != nil {
						out[i] = classifyWS(nil, err)
					} else {
						out[i] = okReply(rep)
					}
				}(i)
			}
			fin := make(chan struct{})
			go func() { wg.Wait(); close(fin) }()
			select {
			case <-fin:
			case <-time.After(roundDeadline):
				emit(stepOut{Raw: "sends did not end"})
				return false, true
			}
			emit(stepOut{Send: out})
			continue
		}

		// ---- a parallel call
		var mu sync.Mutex // the decoder and the snapshots of ret are ours; the library's accesses are not under it
		ret := &Reply{T: -1}
		var retArg interface{}
		if st.WantRet {
			retArg = ret
		}
		decoder := func(buf []byte, r interface{}) error {
			tmp := &Reply{}
			if err := protobuf.Decode(buf, tmp); err != nil {
				return err
			}
			if tmp.T == 66 {
				return errors.New("decoder rejected the reply")
			}
			mu.Lock()
			*(r.(*Reply)) = *tmp
			mu.Unlock()
			return nil
		}
		var opt *onet.ParallelOptions
		if !st.Opts.Nil {
			opt = &onet.ParallelOptions{Parallel: st.Opts.Parallel, AskNodes: st.Opts.Ask, StartNode: st.Opts.Start,
				QuitError: st.Opts.Quit, DontShuffle: st.Opts.NoShuffle}
			for _, k := range st.Opts.Ignore {
				if k >= 0 && k < len(sis) {
					opt.IgnoreNodes = append(opt.IgnoreNodes, sis[k])
				}
			}
		}
		scripted := len(st.Prio) > 0
		ids := map[int64]*gate{}
		if scripted {
			for i := range sis {
				g := &gate{release: make(chan struct{})}
				ids[int64(5000+i)] = g
				gates.Store(int64(5000+i), g)
			}
		}
		for len(gateArrived) > 0 {
			<-gateArrived
		}
		so := stepOut{}
		var hArr, hRel chan struct{}
		if st.Hold != nil && *st.Hold >= 0 && *st.Hold < len(sis) {
			hArr, hRel = make(chan struct{}), make(chan struct{})
			holdMu.Lock()
			holdNode, holdArrived, holdRelease = sis[*st.Hold], hArr, hRel
			holdMu.Unlock()
		}
		releaseHold := func() {
			if hRel != nil {
				holdMu.Lock()
				holdNode = nil
				holdMu.Unlock()
				select {
				case <-hRel:
				default:
					close(hRel)
				}
			}
		}
		holdReached := func() bool {
			if hArr == nil {
				return true
			}
			select {
			case <-hArr:
				return true
			default:
				return false
			}
		}
		returned := make(chan struct{})
		go func() {
			defer close(returned)
			defer func() {
				if r := recover(); r != nil {
					so.Result, so.Raw = "crash", short(fmt.Sprint(r))
				}
			}()
			var node *network.ServerIdentity
			var err error
			if st.Decoder {
				node, err = cl.SendProtobufParallelWithDecoder(sis, msgQ(&st.Msg), retArg, opt, decoder)
			} else {
				node, err = cl.SendProtobufParallel(sis, msgQ(&st.Msg), retArg, opt)
			}
			if err != nil {
				so.Result, so.Err = "error", classifyParErr(err)
			} else {
				so.Result, so.Node = "node", idx(node)
			}
		}()
		isReturned := func() bool {
			select {
			case <-returned:
				return true
			default:
				return false
			}
		}
		if scripted {
			// let the nodes answer one at a time, in the order of the priorities, until the call returns
			pos := func(id int64) int {
				for k, x := range st.Prio {
					if int64(5000+x) == id {
						return k
					}
				}
				return len(st.Prio)
			}
			var waiting []int64
			for step := 0; step < 4*len(sis)+4 && !isReturned(); step++ {
				settlePar(returned)
				for len(gateArrived) > 0 {
					waiting = append(waiting, <-gateArrived)
				}
				if isReturned() || len(waiting) == 0 {
					break
				}
				best := 0
				for k := range waiting {
					if pos(waiting[k]) < pos(waiting[best]) {
						best = k
					}
				}
				ids[waiting[best]].open()
				if hArr != nil && waiting[best] == int64(5000+*st.Hold) {
					// its worker must be at the schedule point before anybody else answers
					select {
					case <-hArr:
					case <-time.After(10 * time.Second):
					}
				}
				waiting = append(waiting[:best], waiting[best+1:]...)
			}
		}
		if hArr != nil {
			reached := holdReached()
			if !isReturned() {
				// everybody else has answered and the call still waits: let the held worker go on
				releaseHold()
			}
			if !reached {
				so.Unreached = true
			}
		}
		select {
		case <-returned:
			so.Returned = true
		case <-time.After(roundDeadline):
		}
		if !so.Returned {
			releaseHold()
			for _, g := range ids {
				g.open()
			}
			emit(stepOut{Raw: "the call did not return"})
			return false, true
		}
		so.First = snapRet(ret, &mu)
		if hArr != nil {
			prov := so
			prov.Provisional = true
			emit(prov)
		}
		releaseHold()
		// now let the held replies through and wait until every worker is gone
		for id, g := range ids {
			g.open()
			gates.Delete(id)
		}
		for t := 0; t < 2500 && parGoroutines() > 0; t++ {
			time.Sleep(2 * time.Millisecond)
		}
		time.Sleep(5 * time.Millisecond)
		so.Final = snapRet(ret, &mu)
		emit(so)
	}
	return false, false
}

// wait until the workers of the parallel call are all blocked (in a handler gate, i.e.
// reading their reply) or the call has returned
func settlePar(returned chan struct{}) {
	stable, last := 0, ""
	for t := 0; t < 1500; t++ {
		time.Sleep(2 * time.Millisecond)
		select {
		case <-returned:
			return
		default:
		}
		n, blocked, fp := sendGoroutines()
		if blocked && fp == last && (fp != "" || (n == 0 && t > 10)) {
			stable++
			if stable >= 3 {
				return
			}
		} else {
			stable = 0
		}
		last = fp
	}
}

// ---------------------------------------------------------------- Coq terms

func coqBehav(b string) string {
	return map[string]string{"ok": "NOk", "fail": "NFail", "panic": "NPanic", "bad": "NBad"}[b]
}

func coqRet(r retObs) string {
	if !r.Touched {
		return "None"
	}
	return fmt.Sprintf("(Some (Msg %s %s %s %s))", coqStr(r.S), lib.Z(r.I), lib.Bool(r.B), coqStr(r.D))
}

func parCase(in *input, lines []json.RawMessage, died string) lib.Case {
	p := in.Par
	var obs []stepOut
	for i, l := range lines {
		var o stepOut
		if err := json.Unmarshal(l, &o); err != nil {
			panic(err)
		}
		if o.Provisional && i+1 < len(lines) {
			continue // the step went on to its end
		}
		obs = append(obs, o)
	}
	crashed := died != ""
	if n := len(obs); n > 0 && obs[n-1].Provisional {
		// the process died (or hung) after the call had returned
		obs[n-1].Died = true
		obs[n-1].Raw = died
	} else if crashed && len(obs) < len(p.Steps) && died != "hung" {
		obs = append(obs, stepOut{Raw: died, Died: true})
	}
	// a hold point that was not reached is part of the observation, not a reason to drop the case
	steps := p.Steps[:len(obs)]
	bs := make([]string, len(p.Nodes))
	for i, b := range p.Nodes {
		bs[i] = coqBehav(b)
	}
	ss := make([]string, len(steps))
	os := make([]string, len(steps))
	scripted, free, sends, quitrace, reuse, toall := false, false, false, false, false, false
	for i, st := range steps {
		o := obs[i]
		if st.All {
			toall = true
			slots := make([]string, len(o.All))
			for j, x := range o.All {
				if x == nil {
					slots[j] = "None"
				} else {
					slots[j] = "(Some " + coqReply(*x) + ")"
				}
			}
			ss[i] = "(StAll " + coqPMsg(&st.Msg) + ")"
			if o.IsAll {
				os[i] = fmt.Sprintf("(OAll %s %s)", lib.List(slots), lib.Bool(o.AllErr))
			} else {
				os[i] = `(OSend [RErr ETransport ""])` // the step did not end
			}
			continue
		}
		if len(st.Reuse) > 0 {
			reuse = true
			cs := make([]string, len(st.Reuse))
			rs := make([]string, len(st.Reuse))
			for j, c := range st.Reuse {
				cs[j] = fmt.Sprintf("(%d, %s, %s)", c.Node, lib.Bool(c.Ack), coqPMsg(&c.Msg))
				if j < len(o.Reuse) {
					rs[j] = coqReply(o.Reuse[j])
				} else {
					rs[j] = `(RErr ETransport "")`
				}
			}
			ss[i] = "(StReuse " + lib.List(cs) + ")"
			os[i] = "(OReuse " + lib.List(rs) + ")"
			continue
		}
		if !st.Call {
			sends = true
			cs := make([]string, len(st.Send))
			rs := make([]string, len(st.Send))
			for j, c := range st.Send {
				cs[j] = fmt.Sprintf("(%d, %s)", c.Node, coqPMsg(&c.Msg))
				if j < len(o.Send) {
					rs[j] = coqReply(o.Send[j])
				} else {
					rs[j] = `(RErr ETransport "")`
				}
			}
			ss[i] = "(StSend " + lib.List(cs) + ")"
			os[i] = "(OSend " + lib.List(rs) + ")"
			continue
		}
		if len(st.Prio) > 0 {
			scripted = true
		} else {
			free = true
		}
		op := st.Opts
		hold := "None"
		if st.Hold != nil {
			hold = fmt.Sprintf("(Some %d)", *st.Hold)
			quitrace = true
		}
		ss[i] = fmt.Sprintf("(StCall (POpts %s %d %d %d %s %s %s) %s %s %s %s %s)", lib.Bool(op.Nil), op.Parallel, op.Ask, op.Start,
			lib.Bool(op.Quit), lib.NatList(op.Ignore), lib.Bool(op.NoShuffle), lib.Bool(st.Decoder), lib.Bool(st.WantRet),
			coqPMsg(&st.Msg), lib.NatList(st.Prio), hold)
		res := "None"
		switch {
		case !o.Returned:
		case o.Result == "node":
			n := o.Node
			if n < 0 {
				n = 99
			}
			res = fmt.Sprintf("(Some (RNode %d))", n)
		case o.Result == "error":
			res = fmt.Sprintf("(Some (RError %s %s))", o.Err.Class, coqStr(o.Err.Tok))
		default:
			res = "(Some RCrash)"
		}
		os[i] = fmt.Sprintf("(OCall %s %s %s %s)", res, coqRet(o.First), coqRet(o.Final), lib.Bool(o.Died))
	}
	class := "par"
	if quitrace {
		class += "-quitrace"
	}
	if toall {
		class += "-toall"
	}
	if reuse {
		class += "-reuse"
	}
	if sends {
		class += "-send"
	}
	if scripted {
		class += "-scripted"
	}
	if free {
		class += "-free"
	}
	class += endSuffix(died)
	coq := fmt.Sprintf("CPar %s %s\n    %s\n    %s", lib.List(bs), lib.Bool(p.Keep), lib.List(ss), lib.List(os))
	return lib.Case{Coq: coq, Class: class, Obs: obs, Nontrivial: len(steps) > 0}
}

// ---------------------------------------------------------------- generators

func genStreamMsg(rng *rand.Rand, kind int) wsReq {
	w := wsReq{S: sp(fmt.Sprintf("t%d", rng.Intn(1000))), I: ip(int64(rng.Intn(6))), B: bp(rng.Intn(2) == 0), D: sp(dPool[rng.Intn(len(dPool))])}
	switch kind {
	case 1:
		w.S = sp("fail-" + *w.S)
	case 2:
		w.S = sp("panic-" + *w.S)
	case 3:
		return wsReq{Garbage: garbage[rng.Intn(len(garbage))]}
	case 4: // partial
		w.I, w.D = nil, nil
	}
	return w
}

// ordinary requests of several clients, and next to them conversations on the streaming
// path: good ones, ones whose handler fails or panics at the first or at a later
// message, undecodable messages
func streamScenario(rng *rand.Rand, n int) input {
	nc := 2 + rng.Intn(3)
	in := input{Kind: "stream", Clients: genClients(rng, nc)}
	for i := range in.Clients {
		in.Clients[i].Svc = true
	}
	rounds := 2 + rng.Intn(3)
	for r := 0; r < rounds; r++ {
		var rd []req
		for k, m := 0, 1+rng.Intn(4); k < m; k++ {
			rd = append(rd, genReq(rng, nc, true, 60, []int{0, 1, 2, 3, 4}))
		}
		in.Rounds = append(in.Rounds, rd)
		var convs []streamConv
		for k, m := 0, 1+rng.Intn(2); k < m; k++ {
			c := streamConv{Client: rng.Intn(nc)}
			nm := 1 + rng.Intn(3)
			bad := -1
			if rng.Intn(3) > 0 {
				bad = rng.Intn(nm) // the first or a later message fails
			}
			for j := 0; j < nm; j++ {
				kind := 0
				if j == bad {
					kind = 1 + rng.Intn(3)
					if rng.Intn(2) == 0 {
						kind = 2 // panics are the point
					}
				} else if rng.Intn(5) == 0 {
					kind = 4
				}
				c.Msgs = append(c.Msgs, genStreamMsg(rng, kind))
			}
			convs = append(convs, c)
		}
		in.Streams = append(in.Streams, convs)
	}
	return in
}

func permOf(rng *rand.Rand, n int) []int { return rng.Perm(n) }

func genParOpts(rng *rand.Rand, n int) parOpts {
	o := parOpts{NoShuffle: true}
	switch rng.Intn(8) {
	case 0:
		return parOpts{Nil: true}
	case 1:
		o.Parallel = 1 + rng.Intn(n)
	case 2:
		o.Ask = 1 + rng.Intn(n)
	case 3:
		o.Start = rng.Intn(n + 1)
	case 4:
		o.Ignore = []int{rng.Intn(n)}
		if rng.Intn(3) == 0 {
			o.Ignore = append(o.Ignore, rng.Intn(n))
		}
	case 5:
		o.Parallel, o.Ask, o.Start = rng.Intn(n+1), rng.Intn(n+1), rng.Intn(n)
	case 6:
		o.NoShuffle = false
	}
	return o
}

// QuitError with one node answering and the others failing, all in flight together: the
// worker of the answering node is held between its check of [done] and its close while
// the others fail, then let go
func quitRaceScenario(rng *rand.Rand, n int) input {
	// GetList never uses more than (nodes+1)/2 workers: three or four nodes give the two
	// in flight that the race needs; the answering node is one of the first two
	k := 3 + rng.Intn(2)
	okAt := rng.Intn(2)
	p := &parInput{Keep: n%2 == 0}
	prio := []int{okAt}
	for i := 0; i < k; i++ {
		b := []string{"fail", "panic"}[rng.Intn(2)]
		if i == okAt {
			b = "ok"
		} else {
			prio = append(prio, i)
		}
		p.Nodes = append(p.Nodes, b)
	}
	msg := wsReq{S: sp(fmt.Sprintf("r%d", n)), I: ip(int64(rng.Intn(100))), B: bp(rng.Intn(2) == 0), D: sp(dPool[rng.Intn(len(dPool))])}
	p.Steps = append(p.Steps, parStep{Call: true, Opts: parOpts{NoShuffle: true, Quit: true}, Decoder: rng.Intn(2) == 0,
		WantRet: rng.Intn(4) > 0, Msg: msg, Prio: prio, Hold: &okAt})
	// afterwards the client is still usable
	p.Steps = append(p.Steps, parStep{Send: []parCall{{okAt, msg}}})
	return input{Kind: "par", Par: p}
}

func parScenario(rng *rand.Rand, n int) input {
	k := 2 + rng.Intn(3)
	p := &parInput{Keep: n%4 != 3}
	allOk := rng.Intn(3) == 0
	for i := 0; i < k; i++ {
		b := "ok"
		if !allOk {
			b = []string{"ok", "ok", "ok", "fail", "panic", "bad"}[rng.Intn(6)]
		}
		p.Nodes = append(p.Nodes, b)
	}
	mixed := false
	for _, b := range p.Nodes {
		if b != p.Nodes[0] {
			mixed = true
		}
	}
	steps := 3 + rng.Intn(4)
	for s := 0; s < steps; s++ {
		msg := wsReq{S: sp(fmt.Sprintf("q%d-%d", n, s)), I: ip(int64(rng.Intn(100))), B: bp(rng.Intn(2) == 0), D: sp(dPool[rng.Intn(len(dPool))])}
		if rng.Intn(6) == 0 {
			p.Steps = append(p.Steps, parStep{All: true, Msg: msg})
			continue
		}
		if rng.Intn(5) == 0 {
			// calls one after the other that reuse one reply variable; some go to the
			// acknowledge-only endpoint, whose reply is encoded to zero bytes
			st := parStep{}
			for c, m := 0, 2+rng.Intn(5); c < m; c++ {
				mm := msg
				mm.S = sp(fmt.Sprintf("%s-u%d", *msg.S, c))
				st.Reuse = append(st.Reuse, reuseCall{Node: rng.Intn(k), Ack: c > 0 && rng.Intn(2) == 0, Msg: mm})
			}
			p.Steps = append(p.Steps, st)
			continue
		}
		if rng.Intn(3) == 0 {
			// single requests, one after the other or together, over the connections the client keeps
			st := parStep{}
			for c, m := 0, 1+rng.Intn(2*k); c < m; c++ {
				mm := msg
				mm.S = sp(fmt.Sprintf("%s-c%d", *msg.S, c))
				st.Send = append(st.Send, parCall{Node: rng.Intn(k), Msg: mm})
			}
			p.Steps = append(p.Steps, st)
			continue
		}
		st := parStep{Call: true, Opts: genParOpts(rng, k), Decoder: rng.Intn(3) > 0, WantRet: rng.Intn(6) > 0, Msg: msg}
		if rng.Intn(4) > 0 {
			st.Prio = permOf(rng, k)
			st.Opts.Quit = rng.Intn(3) == 0
		} else if !mixed {
			// not controlled: QuitError only where it cannot race with an acceptance
			st.Opts.Quit = rng.Intn(3) == 0
		}
		if st.Opts.Nil {
			st.Opts = parOpts{Nil: true}
		}
		p.Steps = append(p.Steps, st)
	}
	return input{Kind: "par", Par: p}
}

// the deterministic form of "a later reply replaces the accepted one": three servers
// answering differently, two workers; node 0 answers first and is accepted, the
// call returns, then the others answer; ret is read at the return and again after
// every worker has finished
// C14-N1: three nodes, two in flight, QuitError; node 1 answers and its worker is held at
// client.parAccept; node 0 fails: the call returns the error; the worker goes on
func quitRaceWitness() input {
	msg := wsReq{S: sp("q"), I: ip(0), B: bp(true), D: sp("")}
	one := 1
	return input{Kind: "witness", Par: &parInput{Nodes: []string{"fail", "ok", "fail"}, Keep: true, Steps: []parStep{
		{Call: true, Opts: parOpts{NoShuffle: true, Quit: true}, Decoder: true, WantRet: true, Msg: msg, Prio: []int{1, 0, 2}, Hold: &one},
		{Send: []parCall{{1, msg}}},
	}}}
}

// SendProtobuf with one reply variable: a reply with content, then a reply of zero bytes
// (acknowledge-only endpoint): the variable must hold the zero reply, not the earlier one
func reuseWitness() input {
	m := func(s string) wsReq { return wsReq{S: sp(s), I: ip(7), B: bp(true), D: sp("0102")} }
	return input{Kind: "witness", Par: &parInput{Nodes: []string{"ok", "ok"}, Keep: true, Steps: []parStep{
		{Reuse: []reuseCall{{0, false, m("alice")}, {1, true, m("bob")}, {1, false, m("carol")}, {0, true, m("dave")}, {0, true, m("eve")}}},
	}}}
}

// a handler that returns (nil, nil) answers with zero bytes, whatever the request carries
func ackWitness() input {
	return input{Kind: "witness", Clients: []client{{Keep: true, Svc: true}, {Keep: false, Svc: true}}, Rounds: [][]req{
		{{Client: 0, Ws: &wsReq{Path: 3, S: sp("request content"), I: ip(7), B: bp(true), D: sp("deadbeef")}}},
		{{Client: 1, Ws: &wsReq{Path: 3, S: sp("x"), I: ip(1)}}, {Client: 0, Ws: &wsReq{Path: 1, S: sp("a"), I: ip(1), B: bp(true), D: sp("")}}},
	}}
}

func parWitness() input {
	msg := wsReq{S: sp("who"), I: ip(7), B: bp(true), D: sp("0102")}
	return input{Kind: "witness", Par: &parInput{Nodes: []string{"ok", "ok", "ok"}, Keep: true, Steps: []parStep{
		{Call: true, Opts: parOpts{NoShuffle: true, Parallel: 2}, Decoder: true, WantRet: true, Msg: msg, Prio: []int{0, 1, 2}},
		{Call: true, Opts: parOpts{NoShuffle: true}, Decoder: false, WantRet: true, Msg: msg, Prio: []int{1, 0, 2}},
		{Send: []parCall{{0, msg}, {1, msg}, {2, msg}, {1, msg}}},
	}}}
}

// a streaming handler that panics at the first message, and one that panics at a later
// message of the conversation, while other clients are served
func streamWitness() input {
	ok := func(s string, i int64) wsReq { return wsReq{S: sp(s), I: ip(i), B: bp(true), D: sp("")} }
	ws := func(c int, s string) req {
		return req{Client: c, Ws: &wsReq{Path: 1, S: sp(s), I: ip(1), B: bp(true), D: sp("00")}}
	}
	return input{Kind: "witness", Clients: []client{{Keep: true, Svc: true}, {Keep: false, Svc: true}},
		Rounds:  [][]req{{ws(0, "before")}, {ws(0, "during"), ws(1, "during")}, {ws(0, "after"), ws(1, "after")}},
		Streams: [][]streamConv{{{Client: 1, Msgs: []wsReq{ok("s1", 2), ok("s2", 0)}}}, {{Client: 1, Msgs: []wsReq{ok("panic-first", 0)}}, {Client: 0, Msgs: []wsReq{ok("s3", 1), ok("panic-later", 1), ok("never", 0)}}}, {{Client: 0, Msgs: []wsReq{ok("s4", 4)}}}}}
}

// SendToAll over three servers, the first of which fails: slot 0 must be empty, slots 1
// and 2 the replies of servers 1 and 2
func sendToAllWitness() input {
	msg := wsReq{S: sp("all"), I: ip(3), B: bp(true), D: sp("0102")}
	return input{Kind: "witness", Par: &parInput{Nodes: []string{"fail", "ok", "ok"}, Keep: true, Steps: []parStep{
		{All: true, Msg: msg},
		{All: true, Msg: msg},
	}}}
}

// ---------------------------------------------------------------- a handler that keeps its argument

// MsgPut / MsgGet: a store. Put keeps the byte slice of its argument (no copy), Get returns it.
type MsgPut struct {
	S string
	D []byte
}
type MsgGet struct{ S string }

func (s *svc) wsPut(m *MsgPut) (*Reply, error) {
	s.mu.Lock()
	s.store[m.S] = m.D
	s.mu.Unlock()
	return &Reply{T: 7, S: m.S}, nil
}

func (s *svc) wsGet(m *MsgGet) (*Reply, error) {
	s.mu.Lock()
	d := s.store[m.S]
	s.mu.Unlock()
	return &Reply{T: 8, S: m.S, D: d}, nil
}

type storeOp struct {
	Client int    `json:"c"`
	Put    bool   `json:"put"`
	Key    string `json:"key"`
	Data   string `json:"data,omitempty"` // hex
}

type storeInput struct {
	Share int       `json:"share,omitempty"` // > 0: first the shared-stop stream rounds with so many requests
	Keeps []bool    `json:"keeps"`
	Ops   []storeOp `json:"ops"`
}

func runStore(in *input, emit func(interface{}), started *bool) (discard bool, hung bool) {
	registerOnce.Do(func() {
		log.SetDebugVisible(0)
		log.OutputToBuf()
		if _, err := onet.RegisterNewService(svcName, newSvc); err != nil {
			panic(err)
		}
	})
	log.OutputToBuf()
	defer func() { log.GetStdOut(); log.GetStdErr() }()
	l := onet.NewTCPTest(suite)
	l.Check = onet.CheckNone
	srv := l.GenServers(1)[0]
	defer l.CloseAll()
	cls := make([]*onet.Client, len(in.Store.Keeps))
	for i, k := range in.Store.Keeps {
		if k {
			cls[i] = onet.NewClientKeep(suite, svcName)
		} else {
			cls[i] = onet.NewClient(suite, svcName)
		}
		cls[i].ReadTimeout = 45 * time.Second
	}
	defer func() {
		for _, c := range cls {
			c.Close()
		}
	}()
	*started = true
	if in.Store.Share > 0 {
		onet.SetVerifHook(shareHook)
		shareRounds(srv, in.Store.Share)
	}
	for _, op := range in.Store.Ops {
		var o obsReply
		fin := make(chan struct{})
		go func() {
			defer close(fin)
			defer func() {
				if r := recover(); r != nil {
					o = obsReply{Class: "EOther", Raw: "client panic: " + short(fmt.Sprint(r))}
				}
			}()
			if op.Client < 0 || op.Client >= len(cls) {
				o = obsReply{Class: "EOther", Raw: "no such client"}
				return
			}
			var buf []byte
			var err error
			path := "MsgGet"
			if op.Put {
				d, _ := hex.DecodeString(op.Data)
				path = "MsgPut"
				buf, err = protobuf.Encode(&MsgPut{op.Key, d})
			} else {
				buf, err = protobuf.Encode(&MsgGet{op.Key})
			}
			if err != nil {
				panic(err)
			}
			rcv, err := cls[op.Client].Send(srv.ServerIdentity, path, buf)
			o = classifyWS(rcv, err)
		}()
		select {
		case <-fin:
		case <-time.After(roundDeadline):
			emit(obsReply{Class: "ETransport", Raw: "no reply and no error within " + roundDeadline.String()})
			return false, true
		}
		emit(o)
	}
	return false, false
}

func storeCase(in *input, lines []json.RawMessage, died string) lib.Case {
	st := in.Store
	obs := make([]obsReply, len(lines))
	for i, l := range lines {
		if err := json.Unmarshal(l, &obs[i]); err != nil {
			panic(err)
		}
	}
	if died != "" && died != "hung" && len(obs) < len(st.Ops) {
		obs = append(obs, obsReply{Class: "ETransport", Raw: died})
	}
	ops := st.Ops[:len(obs)]
	ks := make([]string, len(st.Keeps))
	for i, k := range st.Keeps {
		ks[i] = lib.Bool(k)
	}
	os := make([]string, len(ops))
	rs := make([]string, len(ops))
	kept := false
	for i, op := range ops {
		if op.Put {
			os[i] = fmt.Sprintf("(SOp %d (SPut %s %s))", op.Client, coqStr(op.Key), coqStr(op.Data))
		} else {
			os[i] = fmt.Sprintf("(SOp %d (SGet %s))", op.Client, coqStr(op.Key))
		}
		rs[i] = coqReply(obs[i])
		if op.Client < len(st.Keeps) && st.Keeps[op.Client] {
			kept = true
		}
	}
	class := "store-single"
	if kept {
		class = "store-kept"
	}
	class += endSuffix(died)
	coq := fmt.Sprintf("CStore %s\n    %s\n    %s", lib.List(ks), lib.List(os), lib.List(rs))
	if st.Share > 0 {
		class = "share-" + class
		coq = fmt.Sprintf("CShare %d %s\n    %s\n    %s", st.Share, lib.List(ks), lib.List(os), lib.List(rs))
	}
	return lib.Case{Coq: coq, Class: class, Obs: obs, Nontrivial: len(ops) > 1}
}

func storeData(rng *rand.Rand) string {
	n := 4 + rng.Intn(40)
	b := byte(0x41 + rng.Intn(26))
	return hex.EncodeToString([]byte(strings.Repeat(string([]byte{b}), n)))
}

func storeScenario(rng *rand.Rand, n int) input {
	nc := 1 + rng.Intn(3)
	st := &storeInput{}
	for i := 0; i < nc; i++ {
		st.Keeps = append(st.Keeps, rng.Intn(3) > 0)
	}
	keys := []string{"k1", "k2", "k3", "k4"}
	for k, m := 0, 6+rng.Intn(10); k < m; k++ {
		op := storeOp{Client: rng.Intn(nc), Key: keys[rng.Intn(len(keys))]}
		if k < 2 || rng.Intn(2) == 0 {
			op.Put = true
			op.Data = storeData(rng)
		}
		st.Ops = append(st.Ops, op)
	}
	return input{Kind: "store", Store: st}
}

// 32 x 'A' under k1 and 32 x 'B' under k2 over one kept connection, then both are read back
func storeWitness() input {
	a := hex.EncodeToString([]byte(strings.Repeat("A", 32)))
	b := hex.EncodeToString([]byte(strings.Repeat("B", 32)))
	return input{Kind: "witness", Store: &storeInput{Keeps: []bool{true, false}, Ops: []storeOp{
		{0, true, "k1", a}, {0, true, "k2", b}, {0, false, "k1", ""}, {0, false, "k2", ""}, {1, false, "k1", ""}, {0, false, "nokey", ""},
	}}}
}
