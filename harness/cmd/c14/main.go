// C14 harness: a service registered through onet's public service API
// (RegisterNewService, ServiceProcessor.RegisterHandlers, RegisterRESTHandler) on
// a real server; real websocket clients (onet.NewClient / NewClientKeep) and
// real HTTP requests.  One input is a scenario: clients and rounds of requests;
// the requests of one round are in flight together, a barrier separates
// rounds.  The observation is the reply (class, token / body) each request got.
package main

import (
	"bufio"
	"bytes"
	"encoding/base64"
	"encoding/hex"
	"encoding/json"
	"errors"
	"fmt"
	"io/ioutil"
	"math/rand"
	"net/http"
	"os"
	"os/exec"
	"regexp"
	"runtime"
	"strconv"
	"strings"
	"sync"
	"time"

	"go.dedis.ch/kyber/v3/suites"
	"go.dedis.ch/onet/v3"
	"go.dedis.ch/onet/v3/log"
	"go.dedis.ch/onet/v3/network"
	"go.dedis.ch/protobuf"

	"verifharness/lib"
)

var suite = suites.MustFind("Ed25519")

const svcName = "VerifC14"
const noSvcName = "VerifC14Nope"

// ---------------------------------------------------------------- service

// MsgA is the argument of the strict handler (websocket and REST POST).
type MsgA struct {
	S string
	I int64
	B bool
	D []byte
}

// MsgB is the argument of the lenient handler (websocket and REST PUT).
type MsgB struct {
	S string
	I int64
	B bool
	D []byte
}

// MsgG is the argument of the gated handler (websocket): lenient, but it waits at a
// gate the harness controls, so that requests can be made to overlap.
type MsgG struct {
	S string
	I int64
	B bool
	D []byte
}

// MsgN is the argument of the acknowledge-only handler: it returns (nil, nil), so the reply
// is encoded to zero bytes.
type MsgN struct {
	S string
	I int64
	B bool
	D []byte
}

func wsN(m *MsgN) (network.Message, error) { return nil, nil }

// GetE, GetI, GetD are the arguments of the REST GET handlers.
type GetE struct{}
type GetI struct{ N int }
type GetD struct{ X []byte }

// msgP is MsgA/MsgB with every field optional (for partial websocket requests).
type msgP struct {
	S *string
	I *int64
	B *bool
	D []byte
}

// Reply is what every handler returns; T names the handler.
type Reply struct {
	T int
	S string
	I int64
	B bool
	D []byte
}

type svc struct {
	*onet.ServiceProcessor
	tagA, tagB int
	mu         sync.Mutex
	store      map[string][]byte
}

func byS(s string) error {
	if strings.HasPrefix(s, "fail") {
		return errors.New("HE[" + s + "]")
	}
	if strings.HasPrefix(s, "panic") {
		panic(panicVal("HP[" + s + "]"))
	}
	return nil
}

// The panic-value alphabet. What a handler passes to panic() is any Go value: a string,
// an error, a value of a defined string / struct / pointer type (error codes, fmt.Stringer
// ...). All of the values below print as the same text with %v, so the model's rule
// (a panic is an error reply of class EPanic carrying the handler's token) does not
// depend on which one is used; the kind is a function of the text alone, so that a
// replayed input panics with the same kind of value.
type pStr string
type pStruct struct{ tok string }
type pPtr struct{ tok string }
type pCode int

func (v pStruct) String() string { return v.tok }
func (v *pPtr) String() string   { return v.tok }
func (c pCode) String() string   { return fmt.Sprintf("HP[n%d]", int(c)) }

func panicVal(text string) interface{} {
	k := 0
	for i := 0; i < len(text); i++ {
		k += int(text[i])
	}
	switch k % 5 {
	case 0:
		return text
	case 1:
		return errors.New(text)
	case 2:
		return pStr(text)
	case 3:
		return pStruct{text}
	}
	return &pPtr{text}
}

func strict(tag int, m *MsgA) (*Reply, error) {
	if err := byS(m.S); err != nil {
		return nil, err
	}
	if m.S == "" {
		return nil, errors.New("HE[empty]")
	}
	return &Reply{tag, m.S, m.I, m.B, m.D}, nil
}

func lenient(tag int, m *MsgB) (*Reply, error) {
	if err := byS(m.S); err != nil {
		return nil, err
	}
	return &Reply{tag, m.S, m.I, !m.B, m.D}, nil
}

func wsA(m *MsgA) (*Reply, error) { return strict(1, m) }
func wsB(m *MsgB) (*Reply, error) { return lenient(2, m) }

// a gate: the handler of the request whose I field is the key announces itself on
// arrived and waits for release
type gate struct {
	release chan struct{}
	once    sync.Once
}

var gates sync.Map // int64 -> *gate
var gateArrived = make(chan int64, 256)

func (g *gate) open() { g.once.Do(func() { close(g.release) }) }

func wsG(m *MsgG) (*Reply, error) {
	if v, ok := gates.Load(m.I); ok {
		gateArrived <- m.I
		<-v.(*gate).release
	}
	return lenient(3, &MsgB{m.S, m.I, m.B, m.D})
}
func restA(m *MsgA) (*Reply, error) { return strict(10, m) }
func restB(m *MsgB) (*Reply, error) { return lenient(11, m) }
func getE(m *GetE) (*Reply, error)  { return &Reply{12, "const", 42, true, nil}, nil }
func getI(m *GetI) (*Reply, error) {
	if m.N == 13 {
		return nil, errors.New("HE[n13]")
	}
	if m.N == 666 {
		panic(pCode(m.N))
	}
	return &Reply{T: 13, I: int64(m.N)}, nil
}
func getD(m *GetD) (*Reply, error) {
	h := hex.EncodeToString(m.X)
	if strings.HasPrefix(h, "ff") {
		return nil, errors.New("HE[" + h + "]")
	}
	if strings.HasPrefix(h, "ee") {
		panic(panicVal("HP[" + h + "]"))
	}
	return &Reply{T: 14, I: int64(len(h)), D: m.X}, nil
}

func newSvc(c *onet.Context) (onet.Service, error) {
	s := &svc{ServiceProcessor: onet.NewServiceProcessor(c), store: map[string][]byte{}}
	if err := s.RegisterHandlers(wsA, wsB, wsG, s.wsQ, wsN, s.wsPut, s.wsGet); err != nil {
		return nil, err
	}
	if err := s.RegisterStreamingHandler(streamT); err != nil {
		return nil, err
	}
	if err := s.RegisterStreamingHandler(streamU); err != nil {
		return nil, err
	}
	for _, r := range []struct {
		f        interface{}
		m        string
		min, max int
	}{{restA, "POST", 3, 4}, {restB, "PUT", 3, 3}, {getE, "GET", 3, 3}, {getI, "GET", 3, 4}, {getD, "GET", 3, 3}} {
		if err := s.RegisterRESTHandler(r.f, svcName, r.m, r.min, r.max); err != nil {
			return nil, err
		}
	}
	return s, nil
}

var resNames = []string{"MsgA", "MsgB", "GetE", "GetI", "GetD"}
var resSubtree = []bool{false, false, false, true, true}
var wsNames = []string{"MsgA", "MsgB", "MsgG", "MsgN"}

// ---------------------------------------------------------------- inputs

type jval struct {
	T string `json:"t"`           // str num frac bool null arr obj
	S string `json:"s,omitempty"` // str: the string; num: decimal literal
	B bool   `json:"b,omitempty"`
}

type kv struct {
	K string `json:"k"`
	V jval   `json:"v"`
}

type body struct {
	Kind string `json:"kind"` // obj null other bad
	KVs  []kv   `json:"kvs,omitempty"`
	Raw  string `json:"raw,omitempty"` // text for other / bad
}

type restReq struct {
	Res  int    `json:"res"`
	Ver  int    `json:"ver"`
	Meth string `json:"meth"`
	JSON bool   `json:"json"`
	Seg  string `json:"seg"`
	Body body   `json:"body"`
}

type wsReq struct {
	Path    int     `json:"path"`
	Garbage string  `json:"garbage,omitempty"` // hex of an undecodable message ("" = a message)
	S       *string `json:"S,omitempty"`
	I       *int64  `json:"I,omitempty"`
	B       *bool   `json:"B,omitempty"`
	D       *string `json:"D,omitempty"` // hex
}

type req struct {
	Client int      `json:"c"`
	Ws     *wsReq   `json:"ws,omitempty"`
	Rest   *restReq `json:"rest,omitempty"`
}

type client struct {
	Keep bool `json:"keep"`
	Svc  bool `json:"svc"`
}

type input struct {
	Kind    string   `json:"kind"`
	Clients []client `json:"clients"`
	Rounds  [][]req  `json:"rounds"`
	// Scripts[i], if present and non-empty, drives round i through the gates of the
	// MsgG handler: op k >= 0 starts request k of the round, op -1 releases the
	// oldest request that waits at its gate. Every op is followed by a wait until
	// all outstanding requests are blocked (in a handler, on the client's
	// connection lock, or reading the reply).
	Scripts [][]int `json:"scripts,omitempty"`
	// Streams[i]: conversations on the streaming path that run concurrently with round i
	Streams [][]streamConv `json:"streams,omitempty"`
	// Par, if present, makes this a scenario of the repo's own client API against several servers
	Par *parInput `json:"par,omitempty"`
	// Store, if present: Put / Get on the storing endpoints, one after the other
	Store *storeInput `json:"store,omitempty"`
}

// what one round produced
type roundOut struct {
	Replies []obsReply  `json:"replies"`
	Streams []streamObs `json:"streams,omitempty"`
}

// ---------------------------------------------------------------- observations

type obsReply struct {
	Ok    bool   `json:"ok"`
	Tag   int    `json:"tag,omitempty"`
	S     string `json:"S,omitempty"`
	I     int64  `json:"I,omitempty"`
	B     bool   `json:"B,omitempty"`
	D     string `json:"D,omitempty"`
	Class string `json:"class,omitempty"`
	Tok   string `json:"tok,omitempty"`
	Raw   string `json:"raw,omitempty"`
}

var tokRe = regexp.MustCompile(`H[EP]\[([^\]]*)\]`)

// tokOf returns the handler token of an error text; if the text carries several tokens
// (somebody else's error mixed in) all of them, so that it cannot pass for the expected one
func tokOf(s string) string {
	ms := tokRe.FindAllStringSubmatch(s, -1)
	if len(ms) == 0 {
		return ""
	}
	toks := make([]string, len(ms))
	for i, m := range ms {
		toks[i] = m[1]
	}
	return strings.Join(toks, "|")
}

func okReply(r *Reply) obsReply {
	return obsReply{Ok: true, Tag: r.T, S: r.S, I: r.I, B: r.B, D: hex.EncodeToString(r.D)}
}

func short(s string) string {
	if len(s) > 160 {
		return s[:160] + "..."
	}
	return s
}

func classifyREST(status int, b []byte) obsReply {
	s := string(b)
	raw := fmt.Sprintf("%d %s", status, short(strings.TrimSpace(s)))
	e := func(c, tok string) obsReply { return obsReply{Class: c, Tok: tok, Raw: raw} }
	switch {
	case status == 200:
		// exactly one JSON object with exactly the fields of Reply: nothing else may ride along
		var r Reply
		dec := json.NewDecoder(bytes.NewReader(b))
		dec.DisallowUnknownFields()
		if err := dec.Decode(&r); err != nil || dec.More() {
			return e("EOther", "")
		}
		o := okReply(&r)
		return o
	case status == 405 && strings.Contains(s, "unsupported method"):
		return e("EMethod", "")
	case status == 404 && strings.Contains(s, "invalid path"):
		return e("ENotFound", "")
	case status == 400 && strings.Contains(s, "content type needs to be application/json"):
		return e("ECtype", "")
	case status == 400 && strings.Contains(s, "not a number"):
		return e("ENotNumber", "")
	case status == 400 && strings.Contains(s, "encoding/hex"):
		return e("EHex", "")
	case status == 400 && strings.Contains(s, "decoding error"):
		return e("EDecode", "")
	case status == 400 && strings.Contains(s, "processing error panic:"):
		return e("EPanic", tokOf(s))
	case status == 400 && strings.Contains(s, "processing error processing error:"):
		return e("EHandler", tokOf(s))
	case status == 400 && strings.TrimSpace(s) == "Bad Request":
		return e("ENoRoute", "")
	}
	return e("EOther", "")
}

func classifyWS(rcv []byte, err error) obsReply {
	if err == nil {
		var r Reply
		if derr := protobuf.Decode(rcv, &r); derr != nil {
			return obsReply{Class: "EOther", Raw: "undecodable reply " + hex.EncodeToString(rcv)}
		}
		return okReply(&r)
	}
	s := err.Error()
	e := func(c, tok string) obsReply { return obsReply{Class: c, Tok: tok, Raw: short(s)} }
	switch {
	case strings.Contains(s, "close 1002") && strings.Contains(s, "panic: HP["):
		return e("EPanic", tokOf(s))
	case strings.Contains(s, "close 1002") && strings.Contains(s, "processing error: HE["):
		return e("EHandler", tokOf(s))
	case strings.Contains(s, "close 1002") && strings.Contains(s, "decoding:"):
		return e("EDecode", "")
	case strings.Contains(s, "close 1002") && strings.Contains(s, "hasn't been registered"):
		return e("ENotRegistered", "")
	case strings.Contains(s, "close 4001"):
		return e("ENoService", "")
	case strings.Contains(s, "close 1006"):
		return e("EAbnormal", "")
	case strings.Contains(s, "close sent") || strings.Contains(s, "connection write:"):
		return e("EDeadConn", "")
	case strings.Contains(s, "dial:") || strings.Contains(s, "EOF") || strings.Contains(s, "reset"):
		return e("ETransport", "")
	}
	return e("EOther", "")
}

// ---------------------------------------------------------------- running

func renderJVal(v jval) string {
	switch v.T {
	case "str":
		b, _ := json.Marshal(v.S)
		return string(b)
	case "num":
		return v.S
	case "frac":
		return "1.5"
	case "bool":
		if v.B {
			return "true"
		}
		return "false"
	case "null":
		return "null"
	case "arr":
		return "[]"
	case "obj":
		return "{}"
	}
	panic("bad jval " + v.T)
}

func renderBody(b body) string {
	switch b.Kind {
	case "obj":
		parts := make([]string, len(b.KVs))
		for i, e := range b.KVs {
			k, _ := json.Marshal(e.K)
			parts[i] = string(k) + ":" + renderJVal(e.V)
		}
		return "{" + strings.Join(parts, ",") + "}"
	case "null":
		return "null"
	default:
		return b.Raw
	}
}

type actor struct {
	ws   *onet.Client
	http *http.Client
	tr   *http.Transport
}

func doREST(a *actor, base string, r *restReq) (o obsReply) {
	defer func() {
		if rc := recover(); rc != nil {
			o = obsReply{Class: "EOther", Raw: "client panic: " + short(fmt.Sprint(rc))}
		}
	}()
	name := "Nope"
	sub := false
	if r.Res >= 0 && r.Res < len(resNames) {
		name = resNames[r.Res]
		sub = resSubtree[r.Res]
	}
	url := fmt.Sprintf("%s/v%d/%s/%s", base, r.Ver, svcName, name)
	if sub || r.Seg != "" {
		url += "/" + r.Seg
	}
	var rd *bytes.Reader
	if r.Meth == "POST" || r.Meth == "PUT" {
		rd = bytes.NewReader([]byte(renderBody(r.Body)))
	} else {
		rd = bytes.NewReader(nil)
	}
	hr, err := http.NewRequest(r.Meth, url, rd)
	if err != nil {
		return obsReply{Class: "EOther", Raw: "request: " + err.Error()}
	}
	if r.JSON {
		hr.Header.Set("Content-Type", "application/json")
	} else {
		hr.Header.Set("Content-Type", "text/plain")
	}
	resp, err := a.http.Do(hr)
	if err != nil {
		return obsReply{Class: "ETransport", Raw: short(err.Error())}
	}
	defer resp.Body.Close()
	b, err := ioutil.ReadAll(resp.Body)
	if err != nil {
		return obsReply{Class: "ETransport", Raw: short(err.Error())}
	}
	return classifyREST(resp.StatusCode, b)
}

func wsBytes(w *wsReq) []byte {
	if w.Garbage != "" {
		b, err := hex.DecodeString(w.Garbage)
		if err != nil {
			panic(err)
		}
		return b
	}
	m := &msgP{S: w.S, I: w.I, B: w.B}
	if w.D != nil {
		d, err := hex.DecodeString(*w.D)
		if err != nil {
			panic(err)
		}
		m.D = d
	}
	buf, err := protobuf.Encode(m)
	if err != nil {
		panic(err)
	}
	return buf
}

func doWS(a *actor, srv *onet.Server, w *wsReq) (o obsReply) {
	defer func() {
		if r := recover(); r != nil {
			o = obsReply{Class: "EOther", Raw: "client panic: " + short(fmt.Sprint(r))}
		}
	}()
	name := fmt.Sprintf("Nope%d", w.Path) // not registered; one connection per name
	if w.Path >= 0 && w.Path < len(wsNames) {
		name = wsNames[w.Path]
	}
	rcv, err := a.ws.Send(srv.ServerIdentity, name, wsBytes(w))
	return classifyWS(rcv, err)
}

var registerOnce sync.Once

// the last set-up failed because the server did not answer /ok (not because of a panic)
var lastSetupUnreachable bool

const roundDeadline = 30 * time.Second

// runScenario returns the observations of the rounds that were run; hung = the last of
// them did not end (the process must not be reused: goroutines are stuck).
func runScenario(in *input, emit func(interface{}), started *bool) (discard bool, hung bool) {
	registerOnce.Do(func() {
		log.SetDebugVisible(0)
		log.OutputToBuf()
		if _, err := onet.RegisterNewService(svcName, newSvc); err != nil {
			panic(err)
		}
	})
	log.OutputToBuf() // CloseAll switches the log back to the OS streams
	defer func() { log.GetStdOut(); log.GetStdErr() }()
	l := onet.NewTCPTest(suite)
	l.Check = onet.CheckNone
	srv := l.GenServers(1)[0]
	defer l.CloseAll()
	port, err := strconv.Atoi(srv.ServerIdentity.Address.Port())
	if err != nil {
		return true, false
	}
	base := "http://" + srv.ServerIdentity.Address.Host() + ":" + strconv.Itoa(port+1)
	// the scenario is reached only if the websocket port answers
	okc := &http.Client{Timeout: 5 * time.Second}
	reached := false
	for try := 0; try < 25 && !reached; try++ {
		if resp, err := okc.Get(base + "/ok"); err == nil {
			resp.Body.Close()
			reached = resp.StatusCode == 200
		} else {
			time.Sleep(20 * time.Millisecond)
		}
	}
	okc.CloseIdleConnections()
	if !reached {
		lastSetupUnreachable = true
		return true, false
	}
	actors := make([]*actor, len(in.Clients))
	for i, c := range in.Clients {
		name := svcName
		if !c.Svc {
			name = noSvcName
		}
		a := &actor{}
		if c.Keep {
			a.ws = onet.NewClientKeep(suite, name)
		} else {
			a.ws = onet.NewClient(suite, name)
		}
		a.ws.ReadTimeout = 45 * time.Second
		a.tr = &http.Transport{DisableKeepAlives: !c.Keep, MaxIdleConnsPerHost: 4}
		a.http = &http.Client{Transport: a.tr, Timeout: 45 * time.Second}
		actors[i] = a
	}
	defer func() {
		for _, a := range actors {
			a.ws.Close()
			a.tr.CloseIdleConnections()
		}
	}()
	*started = true // from here on whatever happens is an observation
	for ri, rd := range in.Rounds {
		out := make([]obsReply, len(rd))
		done := make([]chan struct{}, len(rd))
		exec1 := func(i int) {
			defer close(done[i])
			r := rd[i]
			a := actors[r.Client]
			if r.Ws != nil {
				out[i] = doWS(a, srv, r.Ws)
			} else {
				out[i] = doREST(a, base, r.Rest)
			}
		}
		for i := range rd {
			if rd[i].Client < 0 || rd[i].Client >= len(actors) {
				panic("bad client index")
			}
			done[i] = make(chan struct{})
		}
		var convs []streamConv
		if ri < len(in.Streams) {
			convs = in.Streams[ri]
		}
		sout := make([]streamObs, len(convs))
		sdone := make([]chan struct{}, len(convs))
		for i := range convs {
			sdone[i] = make(chan struct{})
			go func(i int) {
				defer close(sdone[i])
				sout[i] = doStream(srv, &convs[i])
			}(i)
		}
		if ri < len(in.Scripts) && len(in.Scripts[ri]) > 0 {
			runScripted(rd, in.Scripts[ri], exec1, done)
		} else if len(rd) == 1 && len(convs) == 0 {
			exec1(0)
		} else {
			for i := range rd {
				go exec1(i)
			}
		}
		// a round that does not end (a lock left held, a lost reply) ends the scenario
		deadline := time.After(roundDeadline)
		hung := false
		for _, d := range append(append([]chan struct{}{}, done...), sdone...) {
			select {
			case <-d:
			case <-deadline:
				hung = true
			}
			if hung {
				break
			}
		}
		if hung {
			for i := range rd {
				select {
				case <-done[i]:
				default:
					out[i] = obsReply{Class: "ETransport", Raw: "no reply and no error within " + roundDeadline.String()}
				}
			}
			for i := range convs {
				select {
				case <-sdone[i]:
				default:
					sout[i] = streamObs{Status: "dead", Raw: "conversation did not end within " + roundDeadline.String()}
				}
			}
			emit(roundOut{out, sout})
			return false, true
		}
		emit(roundOut{out, sout})
	}
	return false, false
}

// ---------------------------------------------------------------- Coq terms

// coqStr renders a string as a Coq string; observed strings that are not
// printable ASCII (a torn read can return arbitrary bytes) go through Api.Rest.unhex.
func coqStr(s string) string {
	for _, c := range []byte(s) {
		if c < 32 || c > 126 {
			return "(unhex " + lib.Hex([]byte(s)) + ")"
		}
	}
	return lib.Str(s)
}

func coqZs(s string) string { return "(" + s + ")%Z" }

func coqMeth(m string) string {
	switch m {
	case "GET":
		return "MGet"
	case "POST":
		return "MPost"
	case "PUT":
		return "MPut"
	}
	return "MDelete"
}

func coqJVal(v jval) string {
	switch v.T {
	case "str":
		b, err := base64.StdEncoding.DecodeString(v.S)
		ann := "None"
		if err == nil {
			ann = "(Some " + coqStr(hex.EncodeToString(b)) + ")"
		}
		return "(JStr " + coqStr(v.S) + " " + ann + ")"
	case "num":
		return "(JNum " + coqZs(v.S) + ")"
	case "frac":
		return "JFrac"
	case "bool":
		return "(JBool " + lib.Bool(v.B) + ")"
	case "null":
		return "JNull"
	case "arr":
		return "JEmptyArr"
	case "obj":
		return "JObjV"
	}
	panic("bad jval")
}

func coqBody(b body) string {
	switch b.Kind {
	case "obj":
		items := make([]string, len(b.KVs))
		for i, e := range b.KVs {
			items[i] = "(" + coqStr(e.K) + ", " + coqJVal(e.V) + ")"
		}
		return "(BObj " + lib.List(items) + ")"
	case "null":
		return "BNull"
	case "other":
		return "BOther"
	}
	return "BBad"
}

func coqOpt(ok bool, v string) string {
	if !ok {
		return "None"
	}
	return "(Some " + v + ")"
}

func coqReq(r req) string {
	var q string
	if r.Ws != nil {
		w := r.Ws
		var b string
		if w.Garbage != "" {
			b = "WGarbage"
		} else {
			var s, i, bb, d string
			s, i, bb, d = "None", "None", "None", "None"
			if w.S != nil {
				s = coqOpt(true, coqStr(*w.S))
			}
			if w.I != nil {
				i = coqOpt(true, lib.Z(*w.I))
			}
			if w.B != nil {
				bb = coqOpt(true, lib.Bool(*w.B))
			}
			if w.D != nil {
				d = coqOpt(true, coqStr(*w.D))
			}
			b = fmt.Sprintf("(WMsg (PMsg %s %s %s %s))", s, i, bb, d)
		}
		p := w.Path
		if p < 0 {
			p = 99
		}
		q = fmt.Sprintf("(QWs %d %s)", p, b)
	} else {
		t := r.Rest
		res := t.Res
		if res < 0 {
			res = 99
		}
		q = fmt.Sprintf("(QRest (RReq %d %d %s %s %s %s))", res, t.Ver, coqMeth(t.Meth), lib.Bool(t.JSON), coqStr(t.Seg), coqBody(t.Body))
	}
	return fmt.Sprintf("(CReq %d %s)", r.Client, q)
}

func coqReply(o obsReply) string {
	if o.Ok {
		tag := o.Tag
		if tag < 0 {
			tag = 9999
		}
		return fmt.Sprintf("(ROk %d (Msg %s %s %s %s))", tag, coqStr(o.S), lib.Z(o.I), lib.Bool(o.B), coqStr(o.D))
	}
	return fmt.Sprintf("(RErr %s %s)", o.Class, coqStr(o.Tok))
}

// ---------------------------------------------------------------- classes

// class of a scenario: kind of schedule plus the features of the history that
// make the two known defects reachable, so that a finding's signature names
// the history it needs.
func classOf(in *input) string {
	conc := false
	carry := false
	keepfail := false
	wrote := map[int]bool{}
	failed := map[[2]int]bool{}
	for _, rd := range in.Rounds {
		if len(rd) > 1 {
			conc = true
		}
		cnt := map[int]int{}
		roundFail := map[[2]int]int{}
		for _, r := range rd {
			if r.Rest != nil && r.Rest.Res >= 0 && r.Rest.Res < len(resNames) {
				cnt[r.Rest.Res]++
			}
			if r.Ws != nil && wsFails(in, r) {
				roundFail[[2]int{r.Client, r.Ws.Path}]++
			}
		}
		for _, r := range rd {
			if r.Rest != nil && r.Rest.Res >= 0 && r.Rest.Res < len(resNames) {
				if wrote[r.Rest.Res] || cnt[r.Rest.Res] > 1 {
					carry = true
				}
			}
			if r.Ws != nil && r.Client < len(in.Clients) && in.Clients[r.Client].Keep {
				k := [2]int{r.Client, r.Ws.Path}
				n := roundFail[k]
				if wsFails(in, r) {
					n--
				}
				if failed[k] || n > 0 {
					keepfail = true
				}
			}
		}
		for _, r := range rd {
			if r.Rest != nil && r.Rest.Res >= 0 && r.Rest.Res < len(resNames) {
				wrote[r.Rest.Res] = true
			}
		}
		for k := range roundFail {
			failed[k] = true
		}
	}
	c := "seq"
	if conc {
		c = "conc"
	}
	if carry {
		c += "-shared"
	}
	if keepfail {
		c += "-keepfail"
	}
	if !carry && !keepfail {
		c += "-plain"
	}
	return c
}

// does this websocket request end in an error (so that the server closes the connection)?
func wsFails(in *input, r req) bool {
	w := r.Ws
	if r.Client >= len(in.Clients) || !in.Clients[r.Client].Svc {
		return true
	}
	if w.Path < 0 || w.Path >= len(wsNames) || w.Garbage != "" {
		return true
	}
	if w.Path == 3 {
		return false
	}
	s := ""
	if w.S != nil {
		s = *w.S
	}
	if strings.HasPrefix(s, "fail") || strings.HasPrefix(s, "panic") {
		return true
	}
	return w.Path == 0 && s == ""
}

// ---------------------------------------------------------------- scripted rounds

// outstandingBlocked reports how many goroutines are inside Client.Send and whether all of
// them are blocked (on the connection lock, in the network, ...), plus a fingerprint
// of where they are, read off the goroutine dump.
func sendGoroutines() (n int, allBlocked bool, fp string) {
	buf := make([]byte, 1<<20)
	buf = buf[:runtime.Stack(buf, true)]
	allBlocked = true
	var fps []string
	for _, g := range strings.Split(string(buf), "\n\n") {
		if !strings.Contains(g, "onet/v3.(*Client).Send(") {
			continue
		}
		n++
		lines := strings.SplitN(g, "\n", 3)
		hdr := lines[0]
		st := ""
		if i := strings.Index(hdr, "["); i >= 0 {
			st = strings.TrimSuffix(strings.TrimSpace(hdr[i+1:]), "]:")
			if j := strings.Index(st, ","); j >= 0 {
				st = st[:j]
			}
		}
		if st == "running" || st == "runnable" || st == "syscall" || st == "sleep" {
			allBlocked = false
		}
		top := ""
		if len(lines) > 1 {
			top = lines[1]
			if j := strings.Index(top, "("); j >= 0 {
				top = top[:j]
			}
		}
		fps = append(fps, st+"@"+top)
	}
	sortStrings(fps)
	return n, allBlocked, strings.Join(fps, ";")
}

func sortStrings(a []string) {
	for i := 1; i < len(a); i++ {
		for j := i; j > 0 && a[j] < a[j-1]; j-- {
			a[j], a[j-1] = a[j-1], a[j]
		}
	}
}

// settle waits until the requests in flight are all blocked and stay where they are.
// It only shapes the interleaving; no verdict depends on it.
func settle(done []chan struct{}, started []bool) {
	stable := 0
	last := ""
	for t := 0; t < 1500; t++ {
		time.Sleep(2 * time.Millisecond)
		out := 0
		for i, st := range started {
			if st {
				select {
				case <-done[i]:
				default:
					out++
				}
			}
		}
		n, blocked, fp := sendGoroutines()
		if n == out && blocked && fp == last {
			stable++
			if stable >= 3 {
				return
			}
		} else {
			stable = 0
		}
		last = fp
	}
}

func runScripted(rd []req, script []int, exec1 func(int), done []chan struct{}) {
	started := make([]bool, len(rd))
	ids := map[int64]*gate{}
	for _, r := range rd {
		if r.Ws != nil && r.Ws.Path == 2 && r.Ws.I != nil {
			g := &gate{release: make(chan struct{})}
			ids[*r.Ws.I] = g
			gates.Store(*r.Ws.I, g)
		}
	}
	defer func() {
		for id, g := range ids {
			g.open()
			gates.Delete(id)
		}
	}()
	for len(gateArrived) > 0 {
		<-gateArrived
	}
	var waiting []int64
	drain := func() {
		for {
			select {
			case id := <-gateArrived:
				waiting = append(waiting, id)
			default:
				return
			}
		}
	}
	for _, op := range script {
		if op >= 0 && op < len(rd) && !started[op] {
			started[op] = true
			go exec1(op)
		} else if op == -1 {
			drain()
			if len(waiting) > 0 {
				if g, ok := ids[waiting[0]]; ok {
					g.open()
				}
				waiting = waiting[1:]
			}
		}
		settle(done, started)
		drain()
	}
	for _, g := range ids {
		g.open()
	}
	for i := range rd {
		if !started[i] {
			started[i] = true
			go exec1(i)
		}
	}
}

// ---------------------------------------------------------------- child process

// Scenarios run in a child process (this binary with -c14child): a panic or a fatal
// runtime error of the code under test in any goroutine, or a hang, ends the child and
// becomes the observation of the scenario that was running, not the end of the harness.
// Protocol: the parent writes one input per line on the child's stdin; the child
// answers on fd 3 with one line "R <json round observations>" per round and then "D",
// "X" (scenario not reached) or "H" (round hung; the child exits).

func childMain() {
	out := bufio.NewWriter(os.NewFile(3, "results"))
	in := bufio.NewReaderSize(os.Stdin, 1<<20)
	say := func(s string) { out.WriteString(s + "\n"); out.Flush() }
	for {
		line, err := in.ReadBytes('\n')
		if len(line) == 0 && err != nil {
			return
		}
		var inp input
		if jerr := json.Unmarshal(line, &inp); jerr != nil {
			say("X")
			continue
		}
		emit := func(x interface{}) {
			b, _ := json.Marshal(x)
			say("R " + string(b))
		}
		// Setting the scenario up (a server on fresh ports that answers /ok) is tried three
		// times. A panic during the set-up, before any request, is the environment (a port
		// taken in the meantime): not reached. A server that does not answer /ok in any of
		// the attempts is an observation ("U"), and so is a panic once the requests have
		// begun ("C"): the rounds seen so far stand and the running one is unanswered.
		discard, hung, unreachable := false, false, false
		for attempt := 0; attempt < 3; attempt++ {
			started := false
			discard, hung = func() (d bool, h bool) {
				defer func() {
					if r := recover(); r != nil {
						if started {
							say("C " + short(fmt.Sprint(r)))
							os.Exit(4)
						}
						fmt.Fprintln(os.Stderr, "setup panic:", r)
						d, h = true, false
					}
				}()
				if inp.Par != nil {
					return runPar(&inp, emit, &started)
				}
				if inp.Store != nil {
					return runStore(&inp, emit, &started)
				}
				return runScenario(&inp, emit, &started)
			}()
			if !discard {
				break
			}
			unreachable = unreachable || lastSetupUnreachable
			lastSetupUnreachable = false
		}
		if discard && unreachable {
			say("U")
			continue
		}
		if discard {
			say("X")
			continue
		}
		if hung {
			say("H")
			os.Exit(3)
		}
		say("D")
	}
}

type child struct {
	cmd    *exec.Cmd
	stdin  *bufio.Writer
	lines  chan string
	stderr *tailBuf
}

type tailBuf struct {
	mu sync.Mutex
	b  []byte
}

func (t *tailBuf) Write(p []byte) (int, error) {
	t.mu.Lock()
	defer t.mu.Unlock()
	t.b = append(t.b, p...)
	if len(t.b) > 1<<16 {
		t.b = t.b[:1<<16] // keep the beginning: the first panic / fatal error line
	}
	return len(p), nil
}

// why the child died: the first "panic:" / "fatal error:" line of its stderr
func (t *tailBuf) reason() string {
	t.mu.Lock()
	defer t.mu.Unlock()
	for _, l := range strings.Split(string(t.b), "\n") {
		if strings.HasPrefix(l, "panic:") || strings.HasPrefix(l, "fatal error:") {
			return short(l)
		}
	}
	return "no panic message"
}

var theChild *child

func startChild() *child {
	cmd := exec.Command(os.Args[0], "-c14child")
	pr, pw, err := os.Pipe()
	if err != nil {
		panic(err)
	}
	cmd.ExtraFiles = []*os.File{pw}
	w, err := cmd.StdinPipe()
	if err != nil {
		panic(err)
	}
	tb := &tailBuf{}
	cmd.Stderr = tb
	cmd.Stdout = tb
	if err := cmd.Start(); err != nil {
		panic(err)
	}
	pw.Close()
	c := &child{cmd: cmd, stdin: bufio.NewWriter(w), lines: make(chan string, 64), stderr: tb}
	go func() {
		sc := bufio.NewScanner(pr)
		sc.Buffer(make([]byte, 1<<20), 1<<26)
		for sc.Scan() {
			c.lines <- sc.Text()
		}
		close(c.lines)
		pr.Close()
	}()
	return c
}

func (c *child) kill() {
	c.cmd.Process.Kill()
	c.cmd.Wait()
}

// runInChild returns the observed rounds, and why the scenario ended early ("" = it did not)
func runInChild(raw []byte) (obs []json.RawMessage, discard bool, died string) {
	if theChild == nil {
		theChild = startChild()
	}
	c := theChild
	c.stdin.Write(bytes.TrimSpace(raw))
	c.stdin.WriteString("\n")
	c.stdin.Flush()
	for {
		select {
		case l, ok := <-c.lines:
			if !ok {
				c.cmd.Wait()
				theChild = nil
				return obs, false, "the process running the scenario died: " + c.stderr.reason()
			}
			switch {
			case l == "D":
				return obs, false, ""
			case l == "X":
				return nil, true, ""
			case l == "U":
				return obs, false, "cut: the server did not answer /ok in three attempts on fresh ports"
			case strings.HasPrefix(l, "C "):
				c.kill()
				theChild = nil
				return obs, false, "the scenario panicked in the harness's goroutine: " + l[2:]
			case l == "H":
				c.kill()
				theChild = nil
				return obs, false, "hung"
			case strings.HasPrefix(l, "R "):
				obs = append(obs, json.RawMessage(l[2:]))
			}
		case <-time.After(150 * time.Second):
			c.kill()
			theChild = nil
			return obs, false, "the process running the scenario did not answer for 150 s"
		}
	}
}

func run(raw json.RawMessage) lib.Case {
	var in input
	if err := json.Unmarshal(raw, &in); err != nil {
		panic(err)
	}
	lines, discard, died := runInChild(raw)
	if discard {
		return lib.Case{Discard: true}
	}
	if in.Par != nil {
		return parCase(&in, lines, died)
	}
	if in.Store != nil {
		return storeCase(&in, lines, died)
	}
	obs := make([]roundOut, len(lines))
	for i, l := range lines {
		if err := json.Unmarshal(l, &obs[i]); err != nil {
			panic(err)
		}
	}
	crashed := died != ""
	if died != "" && died != "hung" && len(obs) < len(in.Rounds) {
		// (a hung round has been reported by the child itself)
		// the round that was running when the process died: nobody was answered
		k := len(obs)
		out := roundOut{Replies: make([]obsReply, len(in.Rounds[k]))}
		for i := range out.Replies {
			out.Replies[i] = obsReply{Class: "ETransport", Raw: died}
		}
		if k < len(in.Streams) {
			for range in.Streams[k] {
				out.Streams = append(out.Streams, streamObs{Status: "dead", Raw: died})
			}
		}
		obs = append(obs, out)
	}
	// rounds after a crash or a hang were not run and are not part of the case
	in.Rounds = in.Rounds[:len(obs)]
	cl := make([]string, len(in.Clients))
	for i, c := range in.Clients {
		cl[i] = fmt.Sprintf("(CKind %s %s)", lib.Bool(c.Keep), lib.Bool(c.Svc))
	}
	rds := make([]string, len(in.Rounds))
	obl := make([]string, len(in.Rounds))
	n := 0
	for i, rd := range in.Rounds {
		rs := make([]string, len(rd))
		os := make([]string, len(rd))
		for j := range rd {
			rs[j] = coqReq(rd[j])
			os[j] = coqReply(obs[i].Replies[j])
			n++
		}
		rds[i] = lib.List(rs)
		obl[i] = lib.List(os)
	}
	class := classOf(&in)
	coq := fmt.Sprintf("Case %s\n    %s\n    %s", lib.List(cl), lib.List(rds), lib.List(obl))
	if len(in.Streams) > 0 {
		ss := make([]string, len(in.Rounds))
		so := make([]string, len(in.Rounds))
		for i := range in.Rounds {
			var cs, os []string
			if i < len(in.Streams) {
				for j, c := range in.Streams[i] {
					cs = append(cs, coqConv(c))
					os = append(os, coqStreamObs(obs[i].Streams[j]))
					n += len(c.Msgs)
				}
			}
			ss[i] = lib.List(cs)
			so[i] = lib.List(os)
		}
		coq = fmt.Sprintf("CMix %s\n    %s\n    %s\n    %s\n    %s", lib.List(cl), lib.List(rds), lib.List(obl), lib.List(ss), lib.List(so))
		class = "stream-" + class
	}
	class += endSuffix(died)
	var inp interface{}
	if crashed {
		inp = json.RawMessage(raw) // replay the whole scenario, not the truncated one
	}
	return lib.Case{Coq: coq, Class: class, Input: inp, Obs: obs, Nontrivial: n > 1}
}

// how a scenario that did not run to its end ended: three different things
func endSuffix(died string) string {
	switch {
	case died == "":
		return ""
	case strings.HasPrefix(died, "cut:"):
		return "-cut"
	case died == "hung" || strings.Contains(died, "did not answer for"):
		return "-hang"
	}
	return "-crash"
}

func sp(s string) *string { return &s }
func ip(i int64) *int64   { return &i }
func bp(b bool) *bool     { return &b }

var sPool = []string{"a", "42", "hello", "x-y_z", "", "fail-1", "fail-two", "panic-1", "panic-zz", "empty", "Fail", "pan"}
var iPool = []int64{0, 1, -1, 5, 13, 666, 1000000, -9223372036854775808, 9223372036854775807}

// go.dedis.ch/protobuf does not round-trip integers of magnitude >= 2^62
// (9223372036854775807 comes back as -1); the library is outside the model, so
// websocket requests stay below that.
var iPoolWS = []int64{0, 1, -1, 5, 13, 666, 1000000, -4611686018427387904, 4611686018427387903, 2147483648}
var dPool = []string{"", "00", "0102", "deadbeef", "ff", "ee01"}

func longTok(prefix string, n int) string {
	return prefix + strings.Repeat("x", n-len(prefix))
}

func genS(rng *rand.Rand) string {
	switch rng.Intn(12) {
	case 0:
		// around the close-frame limit for a handler error: 40 + len <= 123
		return longTok("fail-", 81+rng.Intn(5))
	case 1:
		// around the limit for a panic: 29 + len <= 123
		return longTok("panic-", 92+rng.Intn(5))
	case 2:
		return longTok("ok-", 60+rng.Intn(80))
	}
	return sPool[rng.Intn(len(sPool))]
}

func genWS(rng *rand.Rand, mostlyValid bool) *wsReq {
	w := &wsReq{Path: rng.Intn(2)}
	x := rng.Intn(100)
	switch {
	case x < 4:
		w.Path = 4 + rng.Intn(2) // not registered
	case x < 10:
		w.Garbage = garbage[rng.Intn(len(garbage))]
		return w
	case x < 17:
		w.Path = 3 // acknowledge only: the reply is empty whatever the request carries
	}
	full := rng.Intn(3) > 0
	if full || rng.Intn(2) == 0 {
		if mostlyValid && rng.Intn(4) > 0 {
			w.S = sp(sPool[rng.Intn(4)])
		} else {
			w.S = sp(genS(rng))
		}
	}
	if full || rng.Intn(2) == 0 {
		w.I = ip(iPoolWS[rng.Intn(len(iPoolWS))])
	}
	if full || rng.Intn(2) == 0 {
		w.B = bp(rng.Intn(2) == 0)
	}
	if full || rng.Intn(2) == 0 {
		w.D = sp(dPool[rng.Intn(len(dPool))])
	}
	return w
}

var garbage = []string{"0aff", "0a05", "10", "ffffffffffffffffffff01", "0a0161ff"}

func b64(h string) string {
	b, _ := hex.DecodeString(h)
	return base64.StdEncoding.EncodeToString(b)
}

var keyVariants = map[string][]string{"S": {"S", "S", "S", "s"}, "I": {"I", "I", "i"}, "B": {"B", "B", "b"}, "D": {"D", "D", "d"}}

func genVal(rng *rand.Rand, f string, mostlyValid bool) jval {
	wrong := !mostlyValid && rng.Intn(5) == 0 || mostlyValid && rng.Intn(25) == 0
	if wrong {
		switch rng.Intn(7) {
		case 0:
			return jval{T: "null"}
		case 1:
			return jval{T: "frac"}
		case 2:
			return jval{T: "arr"}
		case 3:
			return jval{T: "obj"}
		case 4:
			if f == "I" {
				return jval{T: "num", S: []string{"9223372036854775808", "-9223372036854775809", "99999999999999999999"}[rng.Intn(3)]}
			}
			return jval{T: "num", S: "7"}
		case 5:
			if f == "S" {
				return jval{T: "bool", B: true}
			}
			return jval{T: "str", S: []string{"!!", "abc", "QQ", "x y"}[rng.Intn(4)]}
		default:
			if f == "B" {
				return jval{T: "str", S: "true"}
			}
			return jval{T: "bool", B: rng.Intn(2) == 0}
		}
	}
	switch f {
	case "S":
		if mostlyValid && rng.Intn(4) > 0 {
			return jval{T: "str", S: sPool[rng.Intn(4)]}
		}
		return jval{T: "str", S: genS(rng)}
	case "I":
		return jval{T: "num", S: strconv.FormatInt(iPool[rng.Intn(len(iPool))], 10)}
	case "B":
		return jval{T: "bool", B: rng.Intn(2) == 0}
	default:
		return jval{T: "str", S: b64(dPool[rng.Intn(len(dPool))])}
	}
}

func genBody(rng *rand.Rand, mostlyValid bool) body {
	x := rng.Intn(100)
	switch {
	case x < 3:
		return body{Kind: "null"}
	case x < 6:
		return body{Kind: "other", Raw: []string{`[1,2]`, `"str"`, `5`, `true`, `[{"S":"zz"}]`}[rng.Intn(5)]}
	case x < 11:
		return body{Kind: "bad", Raw: []string{`{"S":`, `{S:1}`, ``, `{"S":"x"}}`, `{"S":"q","I":}`, `nul`}[rng.Intn(6)]}
	}
	b := body{Kind: "obj", KVs: []kv{}}
	fields := []string{"S", "I", "B", "D"}
	mode := rng.Intn(4) // 0: all fields, 1-2: subset, 3: subset + extras
	for _, f := range fields {
		if mode == 0 || rng.Intn(2) == 0 {
			ks := keyVariants[f]
			b.KVs = append(b.KVs, kv{ks[rng.Intn(len(ks))], genVal(rng, f, mostlyValid)})
		}
	}
	if mode == 3 {
		if rng.Intn(2) == 0 {
			b.KVs = append(b.KVs, kv{"X", jval{T: "str", S: "unknown"}})
		}
		if rng.Intn(2) == 0 && len(b.KVs) > 0 { // duplicate key: the later one wins
			f := fields[rng.Intn(4)]
			b.KVs = append(b.KVs, kv{f, genVal(rng, f, mostlyValid)})
		}
		rng.Shuffle(len(b.KVs), func(i, j int) { b.KVs[i], b.KVs[j] = b.KVs[j], b.KVs[i] })
	}
	return b
}

var intSegs = []string{"0", "7", "007", "13", "666", "42", "123456789", "9223372036854775807", "9223372036854775808", "99999999999999999999", "abc", "12a", "-5", "", "1x"}
var hexSegs = []string{"00", "deadbeef", "0102", "ff00", "ee", "abc", "a", "ABCD", "xyz", "", "ffee", "0a0b0c0d0e0f"}

var methodOf = []string{"POST", "PUT", "GET", "GET", "GET"}

func genREST(rng *rand.Rand, mostlyValid bool, res int) *restReq {
	r := &restReq{Res: res, Ver: 3, Meth: methodOf[res], JSON: true, Body: body{Kind: "obj", KVs: []kv{}}}
	if res == 0 || res == 3 {
		r.Ver = 3 + rng.Intn(2)
	}
	switch res {
	case 0, 1:
		r.Body = genBody(rng, mostlyValid)
	case 3:
		if mostlyValid {
			r.Seg = intSegs[rng.Intn(8)]
		} else {
			r.Seg = intSegs[rng.Intn(len(intSegs))]
		}
	case 4:
		if mostlyValid {
			r.Seg = hexSegs[rng.Intn(5)]
		} else {
			r.Seg = hexSegs[rng.Intn(len(hexSegs))]
		}
	}
	// envelope faults
	x := rng.Intn(100)
	lim := 12
	if mostlyValid {
		lim = 4
	}
	if x < lim {
		switch rng.Intn(5) {
		case 0:
			r.Meth = []string{"GET", "POST", "PUT", "DELETE"}[rng.Intn(4)]
		case 1:
			r.JSON = false
		case 2:
			r.Ver = []int{2, 4, 5}[rng.Intn(3)]
		case 3:
			r.Res = -1
		case 4:
			if res < 3 {
				r.Seg = "extra"
			}
		}
	}
	return r
}

func genClients(rng *rand.Rand, n int) []client {
	cs := make([]client, n)
	for i := range cs {
		cs[i] = client{Keep: rng.Intn(2) == 0, Svc: rng.Intn(12) > 0}
	}
	return cs
}

func genReq(rng *rand.Rand, nclients int, mostlyValid bool, wsShare int, restRes []int) req {
	c := rng.Intn(nclients)
	if rng.Intn(100) < wsShare {
		return req{Client: c, Ws: genWS(rng, mostlyValid)}
	}
	return req{Client: c, Rest: genREST(rng, mostlyValid, restRes[rng.Intn(len(restRes))])}
}

// catalogue of POST bodies for the walk over all ordered pairs (earlier, later)
func pairCatalogue() []body {
	str := func(s string) jval { return jval{T: "str", S: s} }
	num := func(s string) jval { return jval{T: "num", S: s} }
	return []body{
		{Kind: "obj", KVs: []kv{{"S", str("42")}}},
		{Kind: "obj", KVs: []kv{}},
		{Kind: "obj", KVs: []kv{{"S", str("a")}, {"I", num("5")}, {"B", jval{T: "bool", B: true}}, {"D", str(b64("0102"))}}},
		{Kind: "obj", KVs: []kv{{"I", num("7")}}},
		{Kind: "obj", KVs: []kv{{"S", str("fail-1")}}},
		{Kind: "obj", KVs: []kv{{"S", str("panic-1")}, {"I", num("9")}}},
		{Kind: "obj", KVs: []kv{{"I", str("x")}, {"B", jval{T: "bool", B: true}}}},
		{Kind: "null"},
		{Kind: "bad", Raw: `{"S":`},
		{Kind: "obj", KVs: []kv{{"S", jval{T: "null"}}, {"D", jval{T: "null"}}}},
		{Kind: "obj", KVs: []kv{{"s", str("lower")}, {"D", str("!!")}}},
		{Kind: "obj", KVs: []kv{{"S", str("")}, {"I", num("0")}, {"B", jval{T: "bool", B: false}}, {"D", str("")}}},
	}
}

// a closed walk through the complete digraph on n nodes (with loops) that uses every ordered pair once
func allPairsWalk(n int) []int {
	adj := make([][]int, n)
	for i := range adj {
		for j := n - 1; j >= 0; j-- {
			adj[i] = append(adj[i], j)
		}
	}
	var walk []int
	var visit func(v int)
	visit = func(v int) {
		for len(adj[v]) > 0 {
			u := adj[v][len(adj[v])-1]
			adj[v] = adj[v][:len(adj[v])-1]
			visit(u)
		}
		walk = append(walk, v)
	}
	visit(0)
	return walk
}

func generate(rng *rand.Rand, tier string) []interface{} {
	var ins []interface{}
	quick := tier == "quick"
	mul := 1
	if !quick {
		mul = 12
	}
	one := func(r req) []req { return []req{r} }

	// (a) every ordered pair (earlier body, later body) on POST and on PUT, one client
	cat := pairCatalogue()
	for _, res := range []int{0, 1} {
		in := input{Kind: "pairs", Clients: []client{{Keep: true, Svc: true}}}
		for _, k := range allPairsWalk(len(cat)) {
			in.Rounds = append(in.Rounds, one(req{Client: 0, Rest: &restReq{Res: res, Ver: 3, Meth: methodOf[res], JSON: true, Body: cat[k]}}))
		}
		ins = append(ins, in)
	}

	// (a') short scenarios (2-4 requests), so that a violation has a small replay
	for n := 0; n < 60*mul; n++ {
		nc := 1 + rng.Intn(2)
		in := input{Kind: "short", Clients: genClients(rng, nc)}
		for i := range in.Clients {
			in.Clients[i].Svc = true
		}
		mv := rng.Intn(4) > 0
		wsShare := []int{0, 100, 50}[n%3]
		pool := [][]int{{0}, {1}, {3}, {4}, {0, 1, 2, 3, 4}}[rng.Intn(5)]
		m := 2 + rng.Intn(3)
		if n%4 == 3 { // one concurrent round
			var rd []req
			for k := 0; k < m; k++ {
				rd = append(rd, genReq(rng, nc, mv, wsShare, pool))
			}
			in.Rounds = append(in.Rounds, rd)
		} else {
			for k := 0; k < m; k++ {
				in.Rounds = append(in.Rounds, one(genReq(rng, nc, mv, wsShare, pool)))
			}
		}
		ins = append(ins, in)
	}

	// (a'') ONE client shared by 3-6 goroutines on the same destination and path, the overlap
	//      forced through the gates of the MsgG handler: a failing request among succeeding
	//      ones, requests queueing on the client's connection lock while another is in
	//      its handler, new requests starting while a former waiter awaits its reply
	for n := 0; n < 14*mul; n++ {
		ins = append(ins, gatedScenario(rng, n))
	}

	// (a3) conversations on the streaming path next to ordinary requests of other clients
	for n := 0; n < 14*mul; n++ {
		ins = append(ins, streamScenario(rng, n))
	}
	// (a4) the repository's own client API against 2-4 servers that answer differently
	for n := 0; n < 22*mul; n++ {
		ins = append(ins, parScenario(rng, n))
	}
	for n := 0; n < 4*mul; n++ {
		ins = append(ins, quitRaceScenario(rng, n))
	}
	// (a5) a handler that keeps what it received: Put / Get over kept and single-use connections
	for n := 0; n < 8*mul; n++ {
		ins = append(ins, storeScenario(rng, n))
	}
	// (a6) requests of one stream sharing one stop channel, the client goes away, others go on
	for n := 0; n < 2*mul; n++ {
		in := storeScenario(rng, n)
		in.Kind = "share"
		in.Store.Share = 4 + rng.Intn(5)
		ins = append(ins, in)
	}

	// (b) sequential REST histories
	for n := 0; n < 45*mul; n++ {
		nc := 1 + rng.Intn(3)
		in := input{Kind: "rest", Clients: genClients(rng, nc)}
		mv := rng.Intn(3) > 0
		for k, m := 0, 6+rng.Intn(20); k < m; k++ {
			in.Rounds = append(in.Rounds, one(genReq(rng, nc, mv, 0, []int{0, 0, 0, 1, 1, 2, 3, 4})))
		}
		ins = append(ins, in)
	}
	// (c) sequential websocket histories (kept and single-use connections)
	for n := 0; n < 45*mul; n++ {
		nc := 1 + rng.Intn(3)
		in := input{Kind: "ws", Clients: genClients(rng, nc)}
		mv := rng.Intn(3) > 0
		for k, m := 0, 6+rng.Intn(20); k < m; k++ {
			in.Rounds = append(in.Rounds, one(genReq(rng, nc, mv, 100, nil)))
		}
		ins = append(ins, in)
	}
	// (d) sequential mixed histories
	for n := 0; n < 40*mul; n++ {
		nc := 1 + rng.Intn(4)
		in := input{Kind: "mixed", Clients: genClients(rng, nc)}
		mv := rng.Intn(2) > 0
		for k, m := 0, 8+rng.Intn(24); k < m; k++ {
			in.Rounds = append(in.Rounds, one(genReq(rng, nc, mv, 40, []int{0, 0, 1, 2, 3, 4})))
		}
		ins = append(ins, in)
	}
	// (e) concurrent rounds, 2..16 clients
	for n := 0; n < 110*mul; n++ {
		nc := 2 + rng.Intn(15)
		in := input{Kind: "conc", Clients: genClients(rng, nc)}
		mv := rng.Intn(3) > 0
		wsShare := []int{0, 30, 50, 100}[rng.Intn(4)]
		pool := [][]int{{0}, {0, 1}, {3}, {4}, {0, 1, 2, 3, 4}, {3, 4}}[rng.Intn(6)]
		for k, m := 0, 3+rng.Intn(8); k < m; k++ {
			var rd []req
			sz := 1 + rng.Intn(nc)
			if rng.Intn(4) == 0 {
				sz = nc
			}
			perm := rng.Perm(nc)
			for j := 0; j < sz; j++ {
				r := genReq(rng, nc, mv, wsShare, pool)
				if rng.Intn(5) > 0 {
					r.Client = perm[j] // mostly distinct clients; sometimes one client twice in a round
				}
				rd = append(rd, r)
			}
			in.Rounds = append(in.Rounds, rd)
		}
		ins = append(ins, in)
	}
	// (f) concurrent rounds in which every request sets every field (no omission at all):
	//     any cross-talk seen here comes from the sharing alone
	for n := 0; n < 20*mul; n++ {
		nc := 8 + rng.Intn(9)
		in := input{Kind: "concfull", Clients: genClients(rng, nc)}
		for i := range in.Clients {
			in.Clients[i].Svc = true
		}
		for k := 0; k < 6; k++ {
			var rd []req
			for j := 0; j < nc; j++ {
				tok := fmt.Sprintf("c%dr%d", j, k)
				kvs := []kv{{"S", jval{T: "str", S: tok}}, {"I", jval{T: "num", S: strconv.Itoa(j*100 + k)}},
					{"B", jval{T: "bool", B: j%2 == 0}}, {"D", jval{T: "str", S: b64(fmt.Sprintf("%02x%02x", j, k))}}}
				rd = append(rd, req{Client: j, Rest: &restReq{Res: 0, Ver: 3 + j%2, Meth: "POST", JSON: true, Body: body{Kind: "obj", KVs: kvs}}})
			}
			in.Rounds = append(in.Rounds, rd)
		}
		ins = append(ins, in)
	}
	return ins
}

// gatedScenario: 1-3 scripted rounds on the gated websocket path. Client 0 keeps its
// connections (every third scenario: single-use) and is shared by all requests of a
// round; sometimes a second client joins.
func gatedScenario(rng *rand.Rand, n int) input {
	in := input{Kind: "gated", Clients: []client{{Keep: n%3 != 2, Svc: true}, {Keep: true, Svc: true}}}
	rounds := 1 + rng.Intn(3)
	for r := 0; r < rounds; r++ {
		k := 3 + rng.Intn(4)
		var rd []req
		failAt := rng.Intn(k) // at least one failing request per round, often the first
		if rng.Intn(2) == 0 {
			failAt = 0
		}
		for j := 0; j < k; j++ {
			sv := fmt.Sprintf("g%dr%dq%d", n, r, j)
			if j == failAt || rng.Intn(6) == 0 {
				sv = []string{"fail-", "panic-"}[rng.Intn(2)] + sv
			}
			c := 0
			if rng.Intn(8) == 0 {
				c = 1
			}
			id := int64(1000*(r+1) + j + 1)
			rd = append(rd, req{Client: c, Ws: &wsReq{Path: 2, S: sp(sv), I: ip(id), B: bp(j%2 == 0), D: sp(dPool[rng.Intn(len(dPool))])}})
		}
		in.Rounds = append(in.Rounds, rd)
		in.Scripts = append(in.Scripts, gateScript(rng, k))
	}
	return in
}

// a random well-bracketed sequence of k starts (0..k-1, in order) and k releases (-1),
// beginning with two starts so that one request queues behind the first
func gateScript(rng *rand.Rand, k int) []int {
	sc := []int{0, 1}
	started, released := 2, 0
	for started < k || released < k {
		canStart := started < k
		canRelease := released < started
		if canStart && (!canRelease || rng.Intn(2) == 0) {
			sc = append(sc, started)
			started++
		} else {
			sc = append(sc, -1)
			released++
		}
	}
	return sc
}

func tornStress() input {
	in := input{Kind: "witness"}
	for i := 0; i < 16; i++ {
		in.Clients = append(in.Clients, client{Keep: i%2 == 0, Svc: true})
	}
	segs := []string{"00", "0102030405060708090a0b0c0d0e0f10", "deadbeef", "0a0b0c0d0e0f"}
	for k := 0; k < 10; k++ {
		var rd []req
		for j := 0; j < 16; j++ {
			rd = append(rd, req{Client: j, Rest: &restReq{Res: 4, Ver: 3, Meth: "GET", JSON: true, Seg: segs[(j+k)%len(segs)], Body: body{Kind: "obj", KVs: []kv{}}}})
		}
		in.Rounds = append(in.Rounds, rd)
	}
	return in
}

func corpus() []interface{} {
	str := func(s string) jval { return jval{T: "str", S: s} }
	post := func(b body) []req {
		return []req{{Client: 0, Rest: &restReq{Res: 0, Ver: 3, Meth: "POST", JSON: true, Body: b}}}
	}
	ws := func(c int, s string) []req { return []req{{Client: c, Ws: &wsReq{Path: 0, S: sp(s)}}} }
	return []interface{}{
		// F17: POST {"S":"42"} then POST {}  (Api/RestProofs.v rest_carryover_refuted)
		input{Kind: "witness", Clients: []client{{Keep: true, Svc: true}}, Rounds: [][]req{
			post(body{Kind: "obj", KVs: []kv{{"S", str("42")}}}),
			post(body{Kind: "obj", KVs: []kv{}}),
		}},
		// F17, through a request that itself fails: the fields decoded before the type error stay
		input{Kind: "witness", Clients: []client{{Keep: false, Svc: true}}, Rounds: [][]req{
			post(body{Kind: "obj", KVs: []kv{{"S", str("zz")}, {"I", str("x")}}}),
			post(body{Kind: "obj", KVs: []kv{{"I", jval{T: "num", S: "1"}}}}),
		}},
		// F28: keeping client, failing request, then a valid one on the same connection;
		// a second client is not affected
		input{Kind: "witness", Clients: []client{{Keep: true, Svc: true}, {Keep: true, Svc: true}}, Rounds: [][]req{
			ws(0, "a"), ws(0, "fail-1"), ws(0, "a"), ws(1, "a"), ws(0, "hello"),
		}},
		// F17 as a data race: concurrent GET-by-bytes requests of different lengths write the
		// one shared byte slice; a handler may receive a torn slice (not deterministic)
		tornStress(),
		// one keeping client shared by three goroutines: the first request fails while the
		// second waits for the connection; the third starts while the second awaits its reply
		input{Kind: "witness", Clients: []client{{Keep: true, Svc: true}},
			Rounds: [][]req{{
				{Client: 0, Ws: &wsReq{Path: 2, S: sp("fail-first"), I: ip(1001), B: bp(true), D: sp("")}},
				{Client: 0, Ws: &wsReq{Path: 2, S: sp("second"), I: ip(1002), B: bp(false), D: sp("0102")}},
				{Client: 0, Ws: &wsReq{Path: 2, S: sp("third"), I: ip(1003), B: bp(true), D: sp("ff")}},
			}, {
				{Client: 0, Ws: &wsReq{Path: 2, S: sp("after"), I: ip(7), B: bp(true), D: sp("")}},
			}},
			Scripts: [][]int{{0, 1, -1, 2, -1, -1}}},
		parWitness(),
		sendToAllWitness(),
		storeWitness(),
		reuseWitness(),
		ackWitness(),
		quitRaceWitness(),
		streamWitness(),
		// the same history on a single-use client is fine
		input{Kind: "witness", Clients: []client{{Keep: false, Svc: true}}, Rounds: [][]req{
			ws(0, "a"), ws(0, "fail-1"), ws(0, "a"), ws(0, "panic-1"), ws(0, "hello"),
		}},
	}
}

func main() {
	if len(os.Args) > 1 && os.Args[1] == "-c14child" {
		childMain()
		return
	}
	defer func() {
		if theChild != nil {
			theChild.kill()
		}
	}()
	lib.Main(lib.Harness{
		Prop:   "C14",
		Import: "Onet.Corr.C14",
		Rule: "scenarios against a service registered through the public API on a real server: all ordered pairs of a " +
			"12-body catalogue on POST and PUT; seeded sequential REST / websocket / mixed histories; concurrent rounds of " +
			"1-16 clients (kept and single-use connections); one client shared by 3-6 goroutines on one destination with " +
			"the overlap forced through gated handlers (failing request first, waiters on the connection lock, late starters); " +
			"every scenario in a child process whose death or hang is that scenario's observation; requests valid, partial, malformed, failing, panicking, " +
			"mis-routed; non-trivial = more than one request; distinct = distinct Coq case term",
		Shard:    25,
		Generate: generate,
		Run:      run,
		Corpus:   corpus,
	})
}
