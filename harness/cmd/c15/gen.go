package main

import (
	"fmt"
	"math/rand"
)

// scenario builder -----------------------------------------------------------

type bld struct{ sc scenario }

func newB(class string, nstream, nchan int) *bld {
	return &bld{scenario{Class: class, NStream: nstream, NChan: nchan, Cleanup: true}}
}
func (b *bld) add(o op) *bld { b.sc.Ops = append(b.sc.Ops, o); return b }
func (b *bld) open(s, c int) *bld {
	return b.add(op{S: s, K: "open", C: c})
}
func (b *bld) emit(s, c, v int) *bld { return b.add(op{S: s, K: "emit", C: c, V: v}) }
func (b *bld) recv(s int) *bld       { return b.add(op{S: s, K: "recv"}) }
func (b *bld) end(s, c int) *bld     { return b.add(op{S: s, K: "end", C: c}) }

// lock step: the service emits v, the client reads it
func (b *bld) lock(s, c, from, to int) *bld {
	for v := from; v <= to; v++ {
		b.emit(s, c, v).recv(s)
	}
	return b
}
func (b *bld) par() *bld { b.sc.Ops[len(b.sc.Ops)-1].Par = true; return b }
func (b *bld) onet(s int) *bld {
	for len(b.sc.Onet) <= s {
		b.sc.Onet = append(b.sc.Onet, false)
	}
	b.sc.Onet[s] = true
	return b
}

// families --------------------------------------------------------------------

// the service streams ps values and ends the stream; the client reads everything
func plain(ps int, useOnet bool) scenario {
	b := newB("plain", 1, 1).open(0, 0).lock(0, 0, 1, ps).end(0, 0).recv(0)
	if useOnet {
		b.onet(0)
	}
	return b.sc
}

// a stream that has been open for ms milliseconds (p values read) when the service
// ends it: the close frame and its code must not depend on the age of the connection
func plainSlow(p, ms int, useOnet bool) scenario {
	b := newB("plain-slow", 1, 1).open(0, 0).lock(0, 0, 1, p).
		add(op{S: 0, K: "sleep", V: ms}).end(0, 0).recv(0)
	if useOnet {
		b.onet(0)
	}
	return b.sc
}

// burst: n values emitted before the client reads any
func burst(n int) scenario {
	b := newB("burst", 1, 1).open(0, 0)
	for v := 1; v <= n; v++ {
		b.emit(0, 0, v)
	}
	for v := 1; v <= n; v++ {
		b.recv(0)
	}
	return b.end(0, 0).recv(0).sc
}

// the client leaves after p values; the service emits up to 3 more and ends on clean-up
func clientLeaves(kind string, n, p int, useOnet bool) scenario {
	b := newB("client-"+kind, 1, 1).open(0, 0).lock(0, 0, 1, p).add(op{S: 0, K: kind})
	for v := p + 1; v <= n && v <= p+3; v++ {
		b.emit(0, 0, v)
	}
	if useOnet && kind == "close" {
		b.onet(0)
	}
	return b.sc
}

// the client leaves after p values and the service stays silent: it must be told
// to stop although it neither emits nor ends (no clean-up)
func clientLeavesIdle(kind string, p int) scenario {
	b := newB("client-"+kind+"-idle", 1, 1).open(0, 0).lock(0, 0, 1, p).add(op{S: 0, K: kind})
	b.sc.Cleanup = false
	return b.sc
}

// valid follow-up at position p answered on the SAME service channel
func followShared(n, p int, useOnet bool) scenario {
	b := newB("follow-shared", 1, 1).open(0, 0).lock(0, 0, 1, p).
		add(op{S: 0, K: "send", C: 0, Wait: true}).lock(0, 0, p+1, n).end(0, 0).recv(0)
	if useOnet {
		b.onet(0)
	}
	return b.sc
}

// k follow-ups answered on the SAME service channel, then a burst of n values:
// k+1 forwarders take the values off one channel
func followSharedBurst(k, n int) scenario {
	b := newB("follow-shared-burst", 1, 1).open(0, 0)
	for i := 0; i < k; i++ {
		b.add(op{S: 0, K: "send", C: 0, Wait: true})
	}
	for v := 1; v <= n; v++ {
		b.emit(0, 0, v)
	}
	for v := 1; v <= n; v++ {
		b.recv(0)
	}
	return b.end(0, 0).recv(0).sc
}

// valid follow-up at position p answered on a NEW service channel; both channels
// are drained before the service ends them
func followNew(n, p int) scenario {
	b := newB("follow-new", 1, 2).open(0, 0).lock(0, 0, 1, p).add(op{S: 0, K: "send", C: 1, Wait: true})
	for v := p + 1; v <= n; v++ {
		b.emit(0, v%2, v).recv(0)
	}
	return b.end(0, 0).end(0, 1).recv(0).sc
}

// two requests on two service channels; the service ends the first and goes on with the second
func followNewFirstEnd(p, q int) scenario {
	b := newB("follow-new-firstend+emit", 1, 2).open(0, 0).add(op{S: 0, K: "send", C: 1, Wait: true}).
		lock(0, 0, 1, p).lock(0, 1, 1, p).end(0, 0).add(op{S: 0, K: "waitwriter"})
	for v := p + 1; v <= p+q; v++ {
		b.emit(0, 1, v).recv(0)
	}
	return b.sc
}

// follow-up that does not decode (kind "bad") or whose handler fails (kind "herr") at
// position p, then: emit / end / leave / idle
func badFollow(kind string, p int, then string, cleanup bool) scenario {
	b := newB(kind+"-follow+"+then, 1, 1).open(0, 0).lock(0, 0, 1, p).add(op{S: 0, K: kind, C: 0})
	// the pinned code answers with a normal close and leaves the write loop: wait for that (bounded)
	b.add(op{S: 0, K: "waitwriter"})
	switch then {
	case "emit":
		b.emit(0, 0, p+1)
	case "end":
		b.end(0, 0)
	case "leave":
		b.add(op{S: 0, K: "close"})
	}
	b.sc.Cleanup = cleanup
	return b.sc
}

func badFirst() scenario {
	b := newB("bad-first", 1, 1).add(op{S: 0, K: "openbad"}).recv(0)
	return b.sc
}

// client action and service termination issued at once after p values
func race(what string, p, m int) scenario {
	b := newB("race-"+what+"|end", 1, 1).open(0, 0).lock(0, 0, 1, p)
	switch what {
	case "follow":
		// m follow-ups back to back from the client goroutine, the end from the service goroutine
		b.end(0, 0).par()
		b.add(op{S: 0, K: "sendn", C: 0, V: m})
	case "close", "drop":
		b.end(0, 0).par()
		b.add(op{S: 0, K: what})
	case "bad":
		b.sc.Class = "race-bad|emit"
		b.emit(0, 0, p+1).par()
		b.add(op{S: 0, K: "bad"})
	}
	return b.sc
}

// follow-up then close without waiting for anything
func followThenLeave(p int, kind string) scenario {
	return newB("follow-then-"+kind, 1, 1).open(0, 0).lock(0, 0, 1, p).
		add(op{S: 0, K: "send", C: 0}).add(op{S: 0, K: kind}).sc
}

// the handler of the second request is held, clientInputs (capacity 10) fills up,
// the reader goroutine blocks in its send; then the service ends the first stream
func followFull(extra int, then string) scenario {
	b := newB("follow-full+"+then, 1, 2).open(0, 0).lock(0, 0, 1, 2).
		add(op{S: 0, K: "send", C: 1, Block: true, Wait: true}).
		add(op{S: 0, K: "sendn", C: 0, V: 11 + extra}).
		add(op{S: 0, K: "waitblocked"})
	switch then {
	case "end":
		// pinned code: the write loop closes clientInputs under the blocked reader and returns
		b.end(0, 0).add(op{S: 0, K: "waitwriter"})
	case "close":
		b.add(op{S: 0, K: "close"})
	}
	// every follow-up is handled before the scenario goes on to end the channels
	b.add(op{S: 0, K: "release"}).add(op{S: 0, K: "waithandled", V: 2 + 11 + extra})
	return b.sc
}

// The handler of the second request is held, clientInputs fills up and the reader
// parks with the 11th follow-up in its hand; the client drops the connection (the
// reader is not reading, so only a failing write notices), the service emits, the
// write loop leaves and releases the reader. Whichever way the reader leaves it has
// to close clientInputs: the adapter then drains the buffer, ends, and every request
// is told to stop.
func followFullDropEmit(k int) scenario {
	b := newB("follow-full+drop-emit", 1, 2).open(0, 0).lock(0, 0, 1, 2).
		add(op{S: 0, K: "send", C: 1, Block: true, Wait: true}).
		add(op{S: 0, K: "sendn", C: 0, V: 11}).
		add(op{S: 0, K: "waitblocked"}).
		add(op{S: 0, K: "drop"})
	for v := 3; v < 3+k; v++ {
		b.emit(0, 0, v)
	}
	// 1 first + 1 held + the 10 buffered follow-ups (the one in the reader's hand is lost)
	return b.add(op{S: 0, K: "waitwriter", V: 3000}).add(op{S: 0, K: "release"}).
		add(op{S: 0, K: "waithandled", V: 12}).sc
}

// The adapter has ended (a follow-up that does not decode, or whose handler fails),
// nobody takes from clientInputs any more; 11+extra further follow-ups fill its 10
// slots and park the reader with one message in its hand. Then the service ends the
// stream: the write loop sends the normal close and has to release the parked reader
// (close(done)) -- closing the connection does not wake a goroutine in a channel send.
func badFollowFullEnd(kind string, p, extra int) scenario {
	return newB(kind+"-follow-full+end", 1, 1).open(0, 0).lock(0, 0, 1, p).
		add(op{S: 0, K: kind, C: 0}).
		add(op{S: 0, K: "sendn", C: 0, V: 11 + extra}).
		add(op{S: 0, K: "waitblocked"}).
		end(0, 0).recv(0).sc
}

// k requests of one session share ONE stop channel (the documented bidirectional use).
// The stoppers are held at the schedule point stream.stopperClose (right before
// close(stopServiceChan)); with the mutex around test-and-close only one of them can
// be there. The point is part of /repo (verif hooks commit).
func stopShared(k int, kind string) scenario {
	b := newB(fmt.Sprintf("stop-shared-%d", k), 1, 1).add(op{S: 0, K: "open", Share: true})
	for i := 1; i < k; i++ {
		b.add(op{S: 0, K: "send", C: 0, Share: true, Wait: true})
	}
	return b.add(op{S: 0, K: "gate", P: "stream.stopperClose", V: 2}).
		add(op{S: 0, K: kind}).
		add(op{S: 0, K: "waithit"}).
		add(op{S: 0, K: "waithitopt", V: 150}).
		add(op{S: 0, K: "ungate"}).sc
}

// stress (thorough tier): 64 requests share one stop channel, the client leaves
func stopSharedStress(kind string) scenario {
	return newB("stop-shared-stress", 1, 1).add(op{S: 0, K: "open", Share: true}).
		add(op{S: 0, K: "sendn", C: 0, V: 63, Share: true}).
		add(op{S: 0, K: "waithandled", V: 64}).
		add(op{S: 0, K: kind}).sc
}

// F19 with one follow-up, forced at the schedule point ws.readerForward (reader
// goroutine, just before its send on clientInputs). The point is part of /repo (verif hooks commit);
// a goroutine that does not reach it is recorded as an observation (OPointMissed).
func hookReaderForward(p int) scenario {
	return newB("hook-follow|end", 1, 1).open(0, 0).lock(0, 0, 1, p).
		add(op{S: 0, K: "gate", P: "ws.readerForward"}).
		add(op{S: 0, K: "sendn", C: 0, V: 1}).
		add(op{S: 0, K: "waithit"}).
		end(0, 0).add(op{S: 0, K: "waitwriter", V: 3000}).
		add(op{S: 0, K: "ungate"}).sc
}

// follow-up after the stream was ended and the close was read
func followAfterEnd(p int) scenario {
	return newB("follow-after-end", 1, 1).open(0, 0).lock(0, 0, 1, p).end(0, 0).recv(0).
		add(op{S: 0, K: "send", C: 0}).sc
}

// k sessions in parallel, ops interleaved by rng; session scripts are plain / leaving
func parallel(rng *rand.Rand, k int, withBad bool) scenario {
	class := fmt.Sprintf("parallel-%d", k)
	if withBad {
		class = "parallel+bad-follow+emit"
	}
	b := newB(class, k, 1)
	scripts := make([][]op, k)
	for s := 0; s < k; s++ {
		n := rng.Intn(6)
		var sc scenario
		switch {
		case withBad && s == 0:
			sc = badFollow("bad", 1+rng.Intn(3), "emit", true)
		case rng.Intn(3) == 0:
			sc = clientLeaves([]string{"close", "drop"}[rng.Intn(2)], n+2, rng.Intn(n+1), false)
		default:
			sc = plain(n, false)
		}
		for _, o := range sc.Ops {
			o.S = s
			scripts[s] = append(scripts[s], o)
		}
	}
	// the bad session acts last so that the others are mid-stream or done, never unopened
	for {
		var live []int
		for s := range scripts {
			if len(scripts[s]) > 0 {
				live = append(live, s)
			}
		}
		if len(live) == 0 {
			break
		}
		s := live[rng.Intn(len(live))]
		b.add(scripts[s][0])
		scripts[s] = scripts[s][1:]
	}
	return b.sc
}

// the same sessions run against the registration of the service under a long name
// (svcNames[k]): messages, close code and stop signals must not depend on the name
func named(sc scenario, k int) scenario {
	sc.Svc = k
	sc.Class = fmt.Sprintf("%s@name%d", sc.Class, len(svcNames[k]))
	return sc
}

// corpus: refutation witnesses and regression inputs, always run first ----------

func corpus() []interface{} {
	return []interface{}{
		badFollow("bad", 1, "emit", true),  // F18: send on closed outChan
		badFollow("bad", 1, "end", true),   // F18: close of closed outChan
		badFollow("bad", 0, "leave", false), // F18: stop never signalled
		badFollowFullEnd("bad", 1, 0),       // reader parked behind an ended adapter when the service ends the stream
		followFullDropEmit(3),              // reader leaves through done: clientInputs must still be closed
		stopShared(2, "close"),             // two stoppers, one stop channel: test-and-close is one critical section
		followFull(0, "end"),               // F19: reader blocked in its send when clientInputs is closed
		followNewFirstEnd(1, 1),            // F29: first forwarder to finish closes outChan under the second
		followSharedBurst(2, 5),            // C15-N2: forwarders on one service channel overtake each other
		plain(3, true),
		named(plain(3, false), 3),          // service name of 125 characters: the stream still ends with close 1000
		named(plain(2, true), 2),           // 100 characters, onet.Client
		plainSlow(2, 750, false),           // the stream outlives the 500 ms write deadline of the close frame
		clientLeaves("close", 5, 2, true),
		clientLeaves("drop", 5, 2, false),
		clientLeavesIdle("drop", 1),
		followShared(4, 2, true),
	}
}

func genAll(rng *rand.Rand, tier string) []interface{} {
	var out []interface{}
	add := func(s scenario) { out = append(out, s) }
	quick := tier == "quick"
	// stream lengths / positions: exhaustive for small n, sampled up to 50
	lens := []int{0, 1, 2, 3}
	if quick {
		lens = append(lens, 5+rng.Intn(6), 20+rng.Intn(31))
	} else {
		for n := 4; n <= 50; n++ {
			lens = append(lens, n)
		}
	}
	for _, n := range lens {
		add(plain(n, rng.Intn(2) == 0))
		var ps []int
		if n <= 3 || !quick {
			for p := 0; p <= n; p++ {
				ps = append(ps, p)
			}
		} else {
			ps = []int{0, rng.Intn(n + 1), n}
		}
		for _, p := range ps {
			kind := []string{"close", "drop"}[rng.Intn(2)]
			add(clientLeaves(kind, n, p, rng.Intn(2) == 0))
			if !quick || n <= 3 || rng.Intn(2) == 0 {
				add(followShared(n, p, rng.Intn(2) == 0))
			}
			if !quick || n <= 2 || rng.Intn(3) == 0 {
				add(followNew(n, p))
			}
		}
	}
	for n := 0; n <= 6; n++ {
		if !quick || n%2 == 0 {
			add(burst(n))
		}
	}
	add(badFirst())
	// long service names: every length, the service ends the stream / the client leaves
	pick := 1 + rng.Intn(len(svcNames)-1)
	for k := 1; k < len(svcNames); k++ {
		add(named(plain(rng.Intn(6), rng.Intn(2) == 0), k))
		if !quick || k == pick {
			add(named(burst(1+rng.Intn(4)), k))
			add(named(followNew(3, rng.Intn(4)), k))
			add(named(clientLeaves([]string{"close", "drop"}[rng.Intn(2)], 4, rng.Intn(5), false), k))
		}
	}
	add(named(parallel(rng, 2+rng.Intn(3), false), 1+rng.Intn(len(svcNames)-1)))
	if !quick {
		for _, ms := range []int{600, 900, 1500, 2500} {
			add(plainSlow(rng.Intn(4), ms, ms%2 == 0))
			// the client leaves an old stream: the service must still be told
			b := newB("client-close-slow", 1, 1).open(0, 0).lock(0, 0, 1, 1).
				add(op{S: 0, K: "sleep", V: ms}).add(op{S: 0, K: "close"})
			add(b.sc)
		}
	}
	for i, p := range []int{0, 1, 2, 7} {
		if quick && i >= 2 {
			add(clientLeavesIdle([]string{"close", "drop"}[i%2], p))
			continue
		}
		add(clientLeavesIdle("close", p))
		add(clientLeavesIdle("drop", p))
	}
	for i := 0; i < 3 || (!quick && i < 20); i++ {
		add(followSharedBurst(1+rng.Intn(2), 3+rng.Intn(3)))
	}
	// defective territory: a few positions each in the quick tier
	pos := []int{0, 1, 3}
	if !quick {
		pos = []int{0, 1, 2, 3, 5, 10, 25, 50}
	}
	for _, p := range pos {
		for _, kind := range []string{"bad", "herr"} {
			for _, then := range []string{"emit", "end", "leave", "idle"} {
				if quick && kind == "herr" && p != 1 {
					continue
				}
				add(badFollow(kind, p, then, then == "emit" || then == "end"))
			}
		}
		add(followNewFirstEnd(p, 1+rng.Intn(2)))
		add(followAfterEnd(p))
		add(followThenLeave(p, []string{"close", "drop"}[rng.Intn(2)]))
	}
	add(followFull(0, "end"))
	if !quick {
		add(followFullDropEmit(2 + rng.Intn(3)))
	}
	add(badFollowFullEnd([]string{"bad", "herr"}[rng.Intn(2)], rng.Intn(3), rng.Intn(3)))
	add(stopShared(2, "close"))
	add(stopShared(3, "drop"))
	if !quick {
		add(stopShared(2, "drop"))
		add(stopShared(5, "close"))
		for i := 0; i < 300; i++ {
			add(stopSharedStress([]string{"close", "drop"}[i%2]))
		}
	}
	add(hookReaderForward(rng.Intn(3)))
	add(followFull(rng.Intn(3), "close"))
	add(followFull(1+rng.Intn(3), "none"))
	nr := 6
	if !quick {
		nr = 60
	}
	for i := 0; i < nr; i++ {
		p := rng.Intn(4)
		add(race("follow", p, 1+rng.Intn(4)))
		add(race([]string{"close", "drop"}[i%2], p, 0))
		if i%3 == 0 {
			add(race("bad", p, 0))
		}
	}
	np := 5
	if !quick {
		np = 40
	}
	for i := 0; i < np; i++ {
		add(parallel(rng, 2+rng.Intn(7), false))
	}
	add(parallel(rng, 3, true))
	return out
}
