// C15 harness: streaming sessions on a real onet server.
//
// A harness service (registered through the public API: RegisterNewService,
// ServiceProcessor.RegisterStreamingHandler) hands out service channels that the
// scenario driver feeds and closes on command; real websocket clients (onet.Client
// .Stream for well-behaved sessions, gorilla/websocket directly for clients that
// send undecodable frames or drop the TCP connection) talk to it. Every command
// and every observation is stamped with one counter; the per-session event lists
// are validated against the Coq transition system (Api/Stream.v, explain) and
// checked by the property checker (Corr/C15.v, check).
//
// A send on / close of a closed channel happens in a goroutine nobody recovers
// and kills the process, so the server, the service and the clients of a scenario
// all live in a CHILD process (re-exec of this binary with -c15child) that writes
// every event to its stdout as it happens; the parent turns "child died before
// the end marker" into the observation crashed=true and starts a new child.
package main

import (
	"bufio"
	"bytes"
	"encoding/json"
	"fmt"
	"io"
	"math/rand"
	"net"
	"os"
	"os/exec"
	"runtime"
	"strconv"
	"strings"
	"sync"
	"sync/atomic"
	"time"

	"github.com/gorilla/websocket"
	"go.dedis.ch/kyber/v3/suites"
	"go.dedis.ch/onet/v3"
	"go.dedis.ch/onet/v3/log"
	"go.dedis.ch/onet/v3/network"
	"go.dedis.ch/protobuf"
	"golang.org/x/xerrors"

	"verifharness/lib"
)

var suite = suites.MustFind("Ed25519")

const svcName = "VerifC15Stream"

// Further registrations of the same streaming service under long names (onet puts
// no limit on a service name; it is the first segment of the websocket path). How
// a stream ends must not depend on what the service is called: a scenario with
// Svc = k > 0 runs all its sessions against svcNames[k]. Lengths 64, 100, 125, 256.
var svcNames = []string{svcName, longName(64), longName(100), longName(125), longName(256)}

func longName(n int) string {
	s := svcName + "_"
	for i := 0; len(s) < n; i++ {
		s += string(rune('a' + i%26))
	}
	return s
}

// Req is the client's request: Chan names the service channel the handler
// answers on, Fail makes the handler return an error, Block makes it wait for the
// driver before it returns, Share makes it hand out the session-wide stop channel
// (the documented bidirectional use: same channels for every request).
type Req struct {
	Stream int64
	Chan   int64
	Fail   int64
	Block  int64
	Share  int64 // the handler returns the session's one stop channel instead of a fresh one
}

// Resp is one streamed value.
type Resp struct {
	Chan int64
	Val  int64
}

// ------------------------------------------------------------------ scenario

type op struct {
	S     int    `json:"s"`               // session index
	K     string `json:"k"`               // open openbad emit recv send bad herr close drop end release
	C     int    `json:"c,omitempty"`     // service channel
	V     int    `json:"v,omitempty"`     // value
	Block bool   `json:"block,omitempty"` // send: the handler blocks until "release"
	Wait  bool   `json:"wait,omitempty"`  // send: wait until the handler was entered / has returned
	Par   bool   `json:"par,omitempty"`   // run concurrently with the following op(s)
	P     string `json:"p,omitempty"`     // gate: name of the schedule point (proposed_fixes/C15-hooks.diff)
	Share bool   `json:"share,omitempty"` // open/send/sendn: the handler hands out the session-wide stop channel
}

type scenario struct {
	Class   string `json:"class"`
	NStream int    `json:"nstream"`
	NChan   int    `json:"nchan"`
	Onet    []bool `json:"onet,omitempty"` // session uses onet.Client instead of a raw gorilla connection
	Ops     []op   `json:"ops"`
	Cleanup bool   `json:"cleanup"` // at the end the service closes every channel it still has open
	Svc     int    `json:"svc,omitempty"` // index into svcNames: the registration the sessions talk to
}

type event struct {
	Seq int64  `json:"q"`
	S   int    `json:"s"`
	K   string `json:"k"`
	A   int    `json:"a"`
	B   int    `json:"b"`
}

type endInfo struct {
	Leaked   int    `json:"leaked"`
	Timeouts int    `json:"timeouts"`
	Discard  bool   `json:"discard"` // nothing was observed: the scenario could not even be started
	Cut      bool   `json:"cut"`     // the implementation did not do what the next step needs: the prefix is judged
	Opened   []int  `json:"opened"`  // sessions whose first request was sent
	Note     string `json:"note,omitempty"`
}

type line struct {
	Ev  *event   `json:"ev,omitempty"`
	End *endInfo `json:"end,omitempty"`
}

// ------------------------------------------------------------------ child: service side

type sess struct {
	sync.Mutex
	idx      int // index in the scenario
	chans    []chan *Resp
	closed   []bool
	entered  int // handler calls entered
	returned int // handler calls returned successfully (= requests)
	release  chan struct{}
	cond     *sync.Cond
	stop     chan bool // stop channel shared by the requests that ask for it
	stops    []chan bool // stop channel of request k
	stamped  []bool      // the watcher of request k has stamped OStop k
}

type world struct {
	sync.Mutex
	ctr    int64
	outMu  sync.Mutex
	out    *bufio.Writer
	sess   map[int64]*sess // by stream id
	nextID int64
}

var w *world

func (wd *world) stamp(s int, k string, a, b int) {
	q := atomic.AddInt64(&wd.ctr, 1)
	e := event{q, s, k, a, b}
	buf, _ := json.Marshal(line{Ev: &e})
	wd.outMu.Lock()
	wd.out.Write(buf)
	wd.out.WriteByte('\n')
	wd.out.Flush()
	wd.outMu.Unlock()
}

type service struct {
	*onet.ServiceProcessor
}

func (sv *service) handle(m *Req) (chan *Resp, chan bool, error) {
	w.Lock()
	ss := w.sess[m.Stream]
	w.Unlock()
	if ss == nil {
		return nil, nil, xerrors.New("unknown session")
	}
	if m.Fail != 0 {
		return nil, nil, xerrors.New("handler refuses")
	}
	ss.Lock()
	ss.entered++
	ss.cond.Broadcast()
	rel := ss.release
	ss.Unlock()
	if m.Block != 0 {
		<-rel
	}
	ss.Lock()
	k := ss.returned
	ss.returned++
	ch := ss.chans[m.Chan]
	ss.Unlock()
	stop := make(chan bool)
	if m.Share != 0 {
		ss.Lock()
		if ss.stop == nil {
			ss.stop = make(chan bool)
		}
		stop = ss.stop
		ss.Unlock()
	}
	ss.Lock()
	ss.stops = append(ss.stops, stop)
	ss.stamped = append(ss.stamped, false)
	ss.Unlock()
	go func() {
		<-stop
		w.stamp(ss.idx, "OStop", k, 0)
		ss.Lock()
		ss.stamped[k] = true
		ss.cond.Broadcast()
		ss.Unlock()
	}()
	// stamped at the return: the adapter starts the forwarder right after it
	w.stamp(ss.idx, "OHandler", int(m.Chan), 0)
	ss.Lock()
	ss.cond.Broadcast()
	ss.Unlock()
	return ch, stop, nil
}

func newService(c *onet.Context) (onet.Service, error) {
	s := &service{ServiceProcessor: onet.NewServiceProcessor(c)}
	if err := s.RegisterStreamingHandler(s.handle); err != nil {
		return nil, err
	}
	return s, nil
}

// waitCond waits until f() holds (checked under ss.Lock) or the deadline passes.
func (ss *sess) waitCond(d time.Duration, f func() bool) bool {
	deadline := time.Now().Add(d)
	stop := make(chan struct{})
	defer close(stop)
	go func() {
		t := time.NewTicker(2 * time.Millisecond)
		defer t.Stop()
		for {
			select {
			case <-stop:
				return
			case <-t.C:
				ss.Lock()
				ss.cond.Broadcast()
				ss.Unlock()
			}
		}
	}()
	ss.Lock()
	defer ss.Unlock()
	for !f() {
		if time.Now().After(deadline) {
			return false
		}
		ss.cond.Wait()
	}
	return true
}

// ------------------------------------------------------------------ child: client side

type client struct {
	onetc    *onet.Client
	sconn    onet.StreamingConn
	raw      *websocket.Conn
	finished bool // read a close frame or an error
	mu       sync.Mutex
	left     bool      // the client closed / dropped the connection (under mu)
	frames   chan bool // one token per data frame read; closed after a close frame / error
	note     string
}

var garbage = []byte{0x08} // field 1, varint, value missing: does not decode

// census counts the goroutines of onet's streaming code that have not returned:
// write loop (wsHandler.ServeHTTP), reader goroutine, adapter, stoppers, forwarders.
func census() int {
	buf := make([]byte, 1<<20)
	for {
		n := runtime.Stack(buf, true)
		if n < len(buf) {
			buf = buf[:n]
			break
		}
		buf = make([]byte, 2*len(buf))
	}
	n := 0
	for _, g := range strings.Split(string(buf), "\n\n") {
		if strings.Contains(g, "wsHandler.ServeHTTP") || strings.Contains(g, "ProcessClientStreamRequest") {
			n++
		}
	}
	return n
}

// stackHas: some goroutine's stack contains both strings
func stackHas(a, b string) bool {
	buf := make([]byte, 1<<20)
	buf = buf[:runtime.Stack(buf, true)]
	for _, g := range strings.Split(string(buf), "\n\n") {
		if strings.Contains(g, a) && strings.Contains(g, b) {
			return true
		}
	}
	return false
}

// readerBlocked: a reader goroutine of wsHandler.ServeHTTP is parked in a channel send
// (pinned code) or in the select around it (with the F19 repair)
func readerBlocked() bool {
	return stackHas("[chan send", "wsHandler.ServeHTTP.func") || stackHas("[select", "wsHandler.ServeHTTP.func")
}

type child struct {
	srv  *onet.Server
	lt   *onet.LocalTest
	url  string
	hp   string
	base int // census before the scenario
}

func (c *child) start() bool {
	c.lt = onet.NewTCPTest(suite)
	c.lt.Check = onet.CheckNone
	c.srv = c.lt.GenServers(1)[0]
	port, err := strconv.Atoi(c.srv.ServerIdentity.Address.Port())
	if err != nil {
		return false
	}
	hp := c.srv.ServerIdentity.Address.Host() + ":" + strconv.Itoa(port+1)
	c.url = "ws://" + hp + "/" + svcName + "/Req"
	c.hp = hp
	// reached only if the websocket port answers
	for try := 0; try < 100; try++ {
		conn, err := net.DialTimeout("tcp", hp, time.Second)
		if err == nil {
			conn.Close()
			return true
		}
		time.Sleep(10 * time.Millisecond)
	}
	return false
}

func b2i(b bool) int64 {
	if b {
		return 1
	}
	return 0
}

func closeCode(err error) string {
	var ce *websocket.CloseError
	if xerrors.As(err, &ce) {
		switch ce.Code {
		case websocket.CloseNormalClosure:
			return "CNormal"
		case websocket.CloseProtocolError:
			return "CProto"
		}
		return "other:" + strconv.Itoa(ce.Code)
	}
	return "err"
}

func (c *child) runScenario(sc *scenario) endInfo {
	info := endInfo{}
	n := sc.NStream
	ids := make([]int64, n+1)
	ss := make([]*sess, n+1)
	cl := make([]*client, n+1)
	mk := func(i int, nchan int) {
		s := &sess{idx: i, release: make(chan struct{})}
		s.cond = sync.NewCond(&s.Mutex)
		for k := 0; k < nchan; k++ {
			s.chans = append(s.chans, make(chan *Resp, 512))
			s.closed = append(s.closed, false)
		}
		w.Lock()
		w.nextID++
		ids[i] = w.nextID
		w.sess[ids[i]] = s
		w.Unlock()
		ss[i] = s
		cl[i] = &client{}
	}
	for i := 0; i < n; i++ {
		mk(i, sc.NChan)
	}
	isOnet := func(i int) bool { return i < len(sc.Onet) && sc.Onet[i] }
	scName := svcName
	if sc.Svc > 0 && sc.Svc < len(svcNames) {
		scName = svcNames[sc.Svc]
	}

	sendReq := func(i int, r *Req) error {
		if isOnet(i) {
			if cl[i].onetc == nil {
				cl[i].onetc = onet.NewClientKeep(suite, scName)
			}
			conn, err := cl[i].onetc.Stream(c.srv.ServerIdentity, r)
			if err == nil {
				cl[i].sconn = conn
			}
			return err
		}
		buf, err := protobuf.Encode(r)
		if err != nil {
			return err
		}
		return cl[i].raw.WriteMessage(websocket.BinaryMessage, buf)
	}
	dial := func(i int) bool {
		if isOnet(i) {
			return true
		}
		d := &websocket.Dialer{HandshakeTimeout: 5 * time.Second}
		conn, _, err := d.Dial("ws://"+c.hp+"/"+scName+"/Req", nil)
		if err != nil {
			return false
		}
		cl[i].raw = conn
		return true
	}
	// One reading goroutine per client: it stamps every frame when it arrives and
	// hands it to the driver. A driver-side timeout therefore never damages the
	// connection (gorilla connections are unusable after a read deadline).
	startReader := func(i int) {
		k := cl[i]
		k.frames = make(chan bool, 4096)
		go func() {
			for {
				var r Resp
				var err error
				if isOnet(i) {
					err = k.sconn.ReadMessageWithOpts(&r, onet.StreamingReadOpts{Deadline: time.Now().Add(10 * time.Minute)})
				} else {
					var buf []byte
					_, buf, err = k.raw.ReadMessage()
					if err == nil {
						err = protobuf.Decode(buf, &r)
					}
				}
				k.mu.Lock()
				if k.left {
					// the client itself closed the connection: nothing is observed any more
					k.mu.Unlock()
					close(k.frames)
					return
				}
				if err == nil {
					w.stamp(i, "ORecv", int(r.Chan), int(r.Val))
					k.mu.Unlock()
					k.frames <- true
					continue
				}
				switch cc := closeCode(err); cc {
				case "CNormal", "CProto":
					w.stamp(i, "OClosed", map[string]int{"CNormal": 0, "CProto": 1}[cc], 0)
				default:
					w.stamp(i, "OAbnormal", 0, 0)
					k.note += " read:" + cc
				}
				k.mu.Unlock()
				close(k.frames)
				return
			}
		}()
	}
	recv := func(i int, d time.Duration) bool { // true: a data frame was read
		k := cl[i]
		if k.finished || k.left || k.frames == nil {
			return false
		}
		select {
		case ok := <-k.frames:
			if !ok {
				k.finished = true
			}
			return ok
		case <-time.After(d):
			info.Timeouts++
			return false
		}
	}
	leave := func(i int, abrupt bool) {
		k := cl[i]
		if k.left {
			return
		}
		k.mu.Lock()
		k.left = true
		w.stamp(i, "OLeave", 0, 0)
		k.mu.Unlock()
		if isOnet(i) {
			if k.onetc != nil {
				k.onetc.Close()
			}
			return
		}
		if k.raw == nil {
			return
		}
		if abrupt {
			if tc, ok := k.raw.UnderlyingConn().(*net.TCPConn); ok {
				tc.SetLinger(0)
			}
			k.raw.Close()
			return
		}
		k.raw.WriteControl(websocket.CloseMessage,
			websocket.FormatCloseMessage(websocket.CloseNormalClosure, ""), time.Now().Add(time.Second))
		k.raw.Close()
	}
	endChan := func(i, ch int) {
		s := ss[i]
		s.Lock()
		if s.closed[ch] {
			s.Unlock()
			return
		}
		s.closed[ch] = true
		s.Unlock()
		w.stamp(i, "OEnd", ch, 0)
		close(s.chans[ch])
	}

	ctr0 := atomic.LoadInt64(&w.ctr) // stamp counter at the start: "has anything been observed?"
	sched := lib.NewSched()
	onet.SetVerifHook(sched.Hook)
	defer sched.ReleaseAll()
	var gate *lib.Gate
	gatePoint := ""
	doOp := func(o op) {
		i := o.S
		switch o.K {
		case "open", "openbad":
			// Not being able to connect or to send is "scenario not reached" only while
			// nothing has been observed in this scenario; afterwards (later sessions, the
			// probe) it is the server not serving a client: the session counts as opened
			// and the completed prefix is judged.
			notServed := func(what string) {
				if atomic.LoadInt64(&w.ctr) == ctr0 {
					info.Discard = true
					return
				}
				info.Opened = append(info.Opened, i)
				info.Cut = true
				info.Note += " " + what
			}
			if !dial(i) {
				notServed("dial-failed")
				return
			}
			if o.K == "openbad" {
				if err := cl[i].raw.WriteMessage(websocket.BinaryMessage, garbage); err != nil {
					notServed("first-write-failed")
					return
				}
				info.Opened = append(info.Opened, i)
				startReader(i)
				return
			}
			if err := sendReq(i, &Req{Stream: ids[i], Chan: int64(o.C), Share: b2i(o.Share)}); err != nil {
				notServed("first-write-failed")
				return
			}
			info.Opened = append(info.Opened, i)
			startReader(i)
			// the request is on its way: a handler that is not called is an observation (clause 6)
			if !ss[i].waitCond(10*time.Second, func() bool { return ss[i].returned >= 1 }) {
				info.Cut = true
				info.Note += " first-request-not-handled"
			}
		case "emit":
			s := ss[i]
			s.Lock()
			closed := s.closed[o.C]
			s.Unlock()
			if closed {
				return
			}
			w.stamp(i, "OEmit", o.C, o.V)
			select {
			case s.chans[o.C] <- &Resp{int64(o.C), int64(o.V)}:
			case <-time.After(5 * time.Second):
				// 512 free slots and the send still blocks: outside the model's vocabulary
				w.stamp(i, "OEmitBlocked", o.C, o.V)
				info.Note += " emit-blocked"
			}
		case "recv":
			d := 3 * time.Second
			if o.V > 0 {
				d = time.Duration(o.V) * time.Millisecond
			}
			recv(i, d)
		case "sendn":
			// V valid follow-ups back to back, nothing awaited
			for k := 0; k < o.V && !cl[i].left; k++ {
				w.stamp(i, "OSend", 0, o.C)
				if sendReq(i, &Req{Stream: ids[i], Chan: int64(o.C), Share: b2i(o.Share)}) != nil {
					break
				}
			}
		case "waitblocked":
			// until the reader goroutine of some session sits in its channel send (clientInputs full)
			deadline := time.Now().Add(2 * time.Second)
			for time.Now().Before(deadline) && !readerBlocked() {
				time.Sleep(2 * time.Millisecond)
			}
			if readerBlocked() {
				// an observation of its own: the model must be in a state with the reader parked
				w.stamp(i, "OParked", 0, 0)
			}
		case "gate":
			// hold the next goroutine that reaches the schedule point
			max := o.V
			if max <= 0 {
				max = 1
			}
			gate, gatePoint = sched.Block(o.P, max, nil), o.P
		case "waithit":
			// The points are part of /repo and always reached on the unchanged tree: a goroutine
			// that does not get there is an observation outside the model's vocabulary (the case
			// disagrees with the model); the scenario goes on and the property judges the rest.
			if gate == nil || !gate.WaitHit(5*time.Second) {
				w.stamp(i, "OPointMissed", 0, 0)
				info.Note += " point-missed:" + gatePoint
			}
		case "waithitopt":
			// a further goroutine may or may not get to the point (not judged)
			if gate != nil {
				gate.WaitHit(time.Duration(o.V) * time.Millisecond)
			}
		case "ungate":
			if gate != nil {
				gate.Release()
			}
		case "sleep":
			// V ms of real time pass (nothing is judged by time: only the stream gets older)
			time.Sleep(time.Duration(o.V) * time.Millisecond)
		case "waithandled":
			// until V handler calls of the session have returned (bounded)
			ss[i].waitCond(5*time.Second, func() bool { return ss[i].returned >= o.V })
		case "waitwriter":
			// until no write loop is left (bounded: in some scenarios the loop rightly stays;
			// V = bound in ms where the unchanged tree always lets it go)
			wd := 300 * time.Millisecond
			if o.V > 0 {
				wd = time.Duration(o.V) * time.Millisecond
			}
			deadline := time.Now().Add(wd)
			for time.Now().Before(deadline) && stackHas("wsHandler.ServeHTTP(", "") {
				time.Sleep(2 * time.Millisecond)
			}
			if !stackHas("wsHandler.ServeHTTP(", "") {
				w.stamp(i, "OWriterGone", 0, 0)
			}
		case "send":
			if cl[i].left {
				return
			}
			s := ss[i]
			s.Lock()
			e0, r0 := s.entered, s.returned
			s.Unlock()
			w.stamp(i, "OSend", 0, o.C)
			b := int64(0)
			if o.Block {
				b = 1
			}
			sendReq(i, &Req{Stream: ids[i], Chan: int64(o.C), Block: b, Share: b2i(o.Share)})
			if o.Wait {
				s.waitCond(5*time.Second, func() bool {
					if o.Block {
						return s.entered > e0
					}
					return s.returned > r0
				})
			}
		case "bad":
			if cl[i].left || cl[i].raw == nil {
				return
			}
			w.stamp(i, "OSend", 1, 0)
			cl[i].raw.WriteMessage(websocket.BinaryMessage, garbage)
		case "herr":
			if cl[i].left {
				return
			}
			w.stamp(i, "OSend", 1, 0)
			sendReq(i, &Req{Stream: ids[i], Chan: int64(o.C), Fail: 1})
		case "close":
			leave(i, false)
		case "drop":
			leave(i, true)
		case "end":
			endChan(i, o.C)
		case "release":
			s := ss[i]
			s.Lock()
			e0 := s.entered
			rel := s.release
			s.release = make(chan struct{})
			s.Unlock()
			close(rel)
			s.waitCond(5*time.Second, func() bool { return s.returned >= e0 })
		}
	}

	for j := 0; j < len(sc.Ops) && !info.Discard && !info.Cut; {
		k := j
		for k < len(sc.Ops)-1 && sc.Ops[k].Par {
			k++
		}
		if k == j {
			doOp(sc.Ops[j])
		} else {
			var wg sync.WaitGroup
			gate := make(chan struct{})
			for _, o := range sc.Ops[j : k+1] {
				wg.Add(1)
				go func(o op) {
					defer wg.Done()
					<-gate
					doOp(o)
				}(o)
			}
			close(gate)
			wg.Wait()
		}
		j = k + 1
	}
	if info.Discard {
		return info
	}

	// After the clean-up every stream has been ended, so a staying client must get its
	// close: the bound is long and only a wrong tree pays it. Without clean-up a stream
	// may rightly stay open and nothing is pending (the scenarios are in lock step).
	drainWait := 300 * time.Millisecond
	if sc.Cleanup {
		drainWait = 5 * time.Second
	}
	drain := func() {
		for i := 0; i < n; i++ {
			if cl[i].raw == nil && cl[i].onetc == nil {
				continue
			}
			for recv(i, drainWait) {
			}
		}
	}
	// until no goroutine of the sessions is left, or (some scenarios rightly leave
	// goroutines behind) until their number has not changed for 500 ms, at most 6 s
	settle := func() {
		deadline := time.Now().Add(6 * time.Second)
		last, since := -1, time.Now()
		for time.Now().Before(deadline) {
			cur := census() - c.base
			if cur <= 0 {
				return
			}
			if cur != last {
				last, since = cur, time.Now()
			} else if time.Since(since) > 500*time.Millisecond {
				return
			}
			time.Sleep(3 * time.Millisecond)
		}
	}
	if sc.Cleanup {
		for i := 0; i < n; i++ {
			for ch := range ss[i].chans {
				endChan(i, ch)
			}
		}
	}
	drain()
	settle()
	// clients that are done with their stream go away (nothing is stamped: the
	// session is over for them)
	for i := 0; i < n; i++ {
		if cl[i].finished && !cl[i].left {
			if cl[i].raw != nil {
				cl[i].raw.Close()
			} else if cl[i].onetc != nil {
				cl[i].onetc.Close()
			}
		}
	}
	// liveness probe: a fresh, well-behaved client streams one value on the same server
	mk(n, 1)
	sc.Onet = append(append([]bool{}, sc.Onet...), make([]bool, n+1-len(sc.Onet))...)
	sc.Onet[n] = true
	cutBefore := info.Cut
	doOp(op{S: n, K: "open", C: 0})
	if info.Discard || (info.Cut && !cutBefore) {
		// (nothing observed at all before the probe: not reached) / the probe was not served: clause 6
		if info.Discard {
			return info
		}
		info.Note += " probe-not-served"
	} else {
		doOp(op{S: n, K: "emit", C: 0, V: 1})
		doOp(op{S: n, K: "recv"})
		doOp(op{S: n, K: "end", C: 0})
		doOp(op{S: n, K: "recv"})
		if cl[n].onetc != nil {
			cl[n].onetc.Close()
		}
	}
	settle()
	for i := 0; i <= n; i++ {
		cl[i].mu.Lock()
		info.Note += cl[i].note
		cl[i].mu.Unlock()
	}
	info.Leaked = census() - c.base
	if info.Leaked < 0 {
		info.Leaked = 0
	}
	// stops are stamped by watcher goroutines: every stop channel that is closed by now
	// has its OStop in the trace before the scenario ends
	for i := 0; i <= n; i++ {
		s := ss[i]
		s.waitCond(5*time.Second, func() bool {
			for k, st := range s.stops {
				select {
				case <-st:
					if !s.stamped[k] {
						return false
					}
				default:
				}
			}
			return true
		})
	}
	return info
}

func childMain() {
	log.SetDebugVisible(0)
	log.OutputToBuf()
	w = &world{out: bufio.NewWriter(os.Stdout), sess: map[int64]*sess{}}
	for _, name := range svcNames {
		if _, err := onet.RegisterNewService(name, newService); err != nil {
			os.Exit(3)
		}
	}
	c := &child{}
	if !c.start() {
		os.Exit(4)
	}
	in := bufio.NewReaderSize(os.Stdin, 1<<20)
	for {
		raw, err := in.ReadBytes('\n')
		if len(bytes.TrimSpace(raw)) > 0 {
			var sc scenario
			if json.Unmarshal(raw, &sc) != nil {
				os.Exit(5)
			}
			c.base = census()
			info := c.runScenario(&sc)
			log.GetStdOut()
			log.GetStdErr()
			buf, _ := json.Marshal(line{End: &info})
			w.outMu.Lock()
			w.out.Write(buf)
			w.out.WriteByte('\n')
			w.out.Flush()
			w.outMu.Unlock()
		}
		if err != nil {
			break
		}
	}
	os.Exit(0)
}

// ------------------------------------------------------------------ parent

type proc struct {
	cmd    *exec.Cmd
	in     io.WriteCloser
	out    *bufio.Reader
	stderr *bytes.Buffer
}

var cur *proc

func spawn() *proc {
	cmd := exec.Command(os.Args[0], "-c15child")
	in, _ := cmd.StdinPipe()
	out, _ := cmd.StdoutPipe()
	var eb bytes.Buffer
	cmd.Stderr = &eb
	if err := cmd.Start(); err != nil {
		return nil
	}
	return &proc{cmd, in, bufio.NewReaderSize(out, 1<<20), &eb}
}

func (p *proc) kill() {
	p.in.Close()
	p.cmd.Process.Kill()
	p.cmd.Wait()
}

type obs struct {
	Crashed  bool     `json:"crashed"`
	Panic    string   `json:"panic,omitempty"`
	Leaked   int      `json:"leaked"`
	Timeouts int      `json:"read_timeouts"`
	Note     string   `json:"note,omitempty"`
	Streams  []string `json:"events_per_session"`
}

func coqEvent(e event) (string, bool) {
	switch e.K {
	case "OSend":
		if e.A == 1 {
			return "OSend MBad", true
		}
		return fmt.Sprintf("OSend (MReq %d)", e.B), true
	case "OLeave":
		return "OLeave", true
	case "ORecv":
		return fmt.Sprintf("ORecv %d %d", e.A, e.B), true
	case "OClosed":
		if e.A == 0 {
			return "OClosed CNormal", true
		}
		return "OClosed CProto", true
	case "OEmit":
		return fmt.Sprintf("OEmit %d %d", e.A, e.B), true
	case "OEnd":
		return fmt.Sprintf("OEnd %d", e.A), true
	case "OHandler":
		return fmt.Sprintf("OHandler %d", e.A), true
	case "OStop":
		return fmt.Sprintf("OStop %d", e.A), true
	case "OParked":
		return "OParked", true
	case "OWriterGone":
		return "OWriterGone", true
	}
	return "", false
}

func run(raw json.RawMessage) lib.Case {
	var sc scenario
	if err := json.Unmarshal(raw, &sc); err != nil {
		panic(err)
	}
	if cur == nil {
		cur = spawn()
		if cur == nil {
			return lib.Case{Discard: true}
		}
	}
	p := cur
	if _, err := p.in.Write(append(append([]byte{}, raw...), '\n')); err != nil {
		p.kill()
		cur = nil
		return lib.Case{Discard: true}
	}
	var evs []event
	var end *endInfo
	hung := false
	type res struct {
		l   line
		err error
	}
	for end == nil {
		ch := make(chan res, 1)
		go func() {
			b, err := p.out.ReadBytes('\n')
			var l line
			if err == nil {
				err = json.Unmarshal(b, &l)
			}
			ch <- res{l, err}
		}()
		var r res
		select {
		case r = <-ch:
		case <-time.After(120 * time.Second):
			// every wait of the driver is bounded: a scenario that does not end is the
			// implementation holding the driver; the prefix is kept and cannot agree
			p.kill()
			cur = nil
			hung = true
		}
		if hung {
			break
		}
		if r.err != nil {
			break
		}
		if r.l.Ev != nil {
			evs = append(evs, *r.l.Ev)
		}
		if r.l.End != nil {
			end = r.l.End
		}
	}
	o := obs{}
	if hung {
		if len(evs) == 0 {
			return lib.Case{Discard: true}
		}
		o.Note += " scenario-did-not-end"
		evs = append(evs, event{Seq: 1 << 60, S: 0, K: "OHarnessTimeout"})
		sc.Class += "+cut"
	} else if end == nil {
		// the child died inside the scenario
		p.in.Close()
		err := p.cmd.Wait()
		cur = nil
		se := p.stderr.String()
		switch {
		case strings.Contains(se, "send on closed channel"):
			o.Panic = "send on closed channel"
		case strings.Contains(se, "close of closed channel"):
			o.Panic = "close of closed channel"
		case strings.Contains(se, "panic:"):
			i := strings.Index(se, "panic:")
			o.Panic = strings.SplitN(se[i:], "\n", 2)[0]
		case strings.Contains(se, "fatal error:"):
			// runtime aborts (concurrent map access, deadlock, ...) kill the server just the same
			i := strings.Index(se, "fatal error:")
			o.Panic = strings.SplitN(se[i:], "\n", 2)[0]
		default:
			if len(evs) == 0 {
				// died before anything was observed (start-up failure): not reached
				return lib.Case{Discard: true}
			}
			o.Panic = fmt.Sprintf("process ended inside the scenario: %v", err)
		}
		o.Crashed = true
	} else {
		if end.Discard {
			p.kill()
			cur = nil
			return lib.Case{Discard: true}
		}
		if end.Cut {
			sc.Class += "+cut"
		}
		o.Leaked, o.Timeouts, o.Note = end.Leaked, end.Timeouts, end.Note
		if end.Leaked > 0 {
			// goroutines of this scenario stay behind: the next one gets a fresh process
			p.kill()
			cur = nil
		}
	}
	// per-session traces in stamp order
	ns := sc.NStream + 1
	per := make([][]string, ns)
	bad := false
	sortEvents(evs)
	for _, e := range evs {
		t, ok := coqEvent(e)
		if !ok || e.S < 0 || e.S >= ns {
			bad = true
			o.Note += " unexpected-event:" + e.K
			continue
		}
		per[e.S] = append(per[e.S], t)
	}
	var streams []string
	firsts := firstMsgs(&sc)
	for i := 0; i < ns; i++ {
		nchan := sc.NChan
		first := "(MReq 0)"
		opened := len(per[i]) > 0
		if end != nil {
			for _, j := range end.Opened {
				opened = opened || j == i
			}
		}
		if !opened {
			continue // the first request of the session was never sent
		}
		if i < sc.NStream {
			first = firsts[i]
			if first == "" {
				continue
			}
		} else {
			nchan = 1
		}
		streams = append(streams, fmt.Sprintf("mkStream %s %d %s", first, nchan, lib.List(per[i])))
		o.Streams = append(o.Streams, strings.Join(per[i], "; "))
	}
	if bad {
		// an observation outside the model's vocabulary: make the case disagree
		streams = append(streams, "mkStream MBad 0 [OStop 99]")
	}
	coq := fmt.Sprintf("mkCase %s %s %d", lib.List(streams), lib.Bool(o.Crashed), o.Leaked)
	return lib.Case{Coq: coq, Class: sc.Class, Obs: o, Nontrivial: len(evs) > 4, Key: strings.Join(o.Streams, "|") + fmt.Sprint(o.Crashed, o.Leaked)}
}

func sortEvents(evs []event) {
	// insertion sort by stamp (lines of concurrent stampers may interleave out of order)
	for i := 1; i < len(evs); i++ {
		for j := i; j > 0 && evs[j-1].Seq > evs[j].Seq; j-- {
			evs[j-1], evs[j] = evs[j], evs[j-1]
		}
	}
}

func firstMsgs(sc *scenario) []string {
	f := make([]string, sc.NStream)
	for _, o := range sc.Ops {
		if o.S < 0 || o.S >= sc.NStream || f[o.S] != "" {
			continue
		}
		switch o.K {
		case "open":
			f[o.S] = fmt.Sprintf("(MReq %d)", o.C)
		case "openbad":
			f[o.S] = "MBad"
		}
	}
	return f
}

// ------------------------------------------------------------------ generator (filled in below)

func generate(rng *rand.Rand, tier string) []interface{} { return genAll(rng, tier) }

func main() {
	if len(os.Args) > 1 && os.Args[1] == "-c15child" {
		network.RegisterMessages(&Req{}, &Resp{})
		childMain()
		return
	}
	defer func() {
		if cur != nil {
			cur.kill()
		}
	}()
	lib.Main(lib.Harness{
		Prop:   "C15",
		Import: "Onet.Corr.C15",
		Rule: "scenarios on a real server in a child process: stream lengths 0-50 in lock step and in bursts; a client action " +
			"(valid follow-up on a new or a shared service channel, undecodable frame, request whose handler fails, close frame, " +
			"TCP reset) at every position; service termination at every position; client action and service termination issued " +
			"at once; handler held so that clientInputs fills up; 2-8 sessions in parallel; every scenario ends with a probe " +
			"session; non-trivial = more than 4 stamped events; distinct = distinct per-session event lists",
		Shard:    24,
		Generate: generate,
		Run:      run,
		Corpus:   corpus,
	})
	if cur != nil {
		cur.kill()
		cur = nil
	}
}
