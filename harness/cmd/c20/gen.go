package main

import (
	"fmt"
	"math/rand"
	"strings"
	"unicode"
	"unicode/utf8"
)

func pick(rng *rand.Rand, xs []string) string { return xs[rng.Intn(len(xs))] }

var goodTypes = []string{"tcp", "tls", "local"}
var badTypes = []string{"", "wrong", "udp", "TCP", "Tls", "tcp ", " tcp", "tc", "tcpp", "tcp4", "_tls", "local\x00", "tcp:", "tcp/", "t\xc3\xa9"}
var seps = []string{"://", "://", "://", "://", "://", "://", ":/", "//", ":///", "::/", ":// ", "://://", "", ":", "//:"}

func genType(rng *rand.Rand) string {
	if rng.Intn(8) == 0 {
		return pick(rng, badTypes)
	}
	return pick(rng, goodTypes)
}

func genSep(rng *rand.Rand) string { return pick(rng, seps) }

func genOctet(rng *rand.Rand) string {
	switch rng.Intn(14) {
	case 0:
		return "0"
	case 1:
		return "255"
	case 2:
		return "256"
	case 3:
		return fmt.Sprintf("0%d", rng.Intn(100))
	case 4:
		return ""
	case 5:
		return pick(rng, []string{"a", "1a", "-1", "+1", " 1", "1e1", "0x1", "00", "000", "1000", "999"})
	default:
		return fmt.Sprint(rng.Intn(256))
	}
}

var privPrefixes = []string{"127.", "10.", "172.16.", "172.15.", "172.19.", "172.20.", "172.29.", "172.30.", "172.31.", "172.32.", "172.1.", "192.168.", "192.169.", "169.254.", "169.25.", "1270.", "100."}

func genIPv4(rng *rand.Rand) string {
	if rng.Intn(4) == 0 {
		// public/private prefixes of Address.Public
		p := pick(rng, privPrefixes)
		n := 4 - strings.Count(p, ".")
		parts := make([]string, n)
		for i := range parts {
			parts[i] = fmt.Sprint(rng.Intn(256))
		}
		return p + strings.Join(parts, ".")
	}
	n := 4
	switch rng.Intn(12) {
	case 0:
		n = 3
	case 1:
		n = 5
	case 2:
		n = 1 + rng.Intn(6)
	}
	parts := make([]string, n)
	for i := range parts {
		if rng.Intn(3) == 0 {
			parts[i] = genOctet(rng)
		} else {
			parts[i] = fmt.Sprint(rng.Intn(256))
		}
	}
	s := strings.Join(parts, ".")
	switch rng.Intn(20) {
	case 0:
		s += "."
	case 1:
		s = "." + s
	case 2:
		s = strings.Replace(s, ".", "..", 1)
	}
	return s
}

func genHexGroup(rng *rand.Rand) string {
	n := 1 + rng.Intn(4)
	switch rng.Intn(14) {
	case 0:
		n = 0
	case 1:
		n = 5
	case 2:
		n = 4
	}
	const digs = "0123456789abcdefABCDEF"
	b := make([]byte, n)
	for i := range b {
		b[i] = digs[rng.Intn(len(digs))]
	}
	if n > 0 && rng.Intn(25) == 0 {
		b[rng.Intn(n)] = "gG-xz ."[rng.Intn(7)]
	}
	return string(b)
}

var fixedV6 = []string{"::", "::1", "1::", "::1:2", "1:2::", "1::2", "fd00::1", "fd::1", "fda::1", "fda9::1", "FD00::1", "fe80::1", "::ffff:1.2.3.4",
	"1:2:3:4:5:6:7:8", "1:2:3:4:5:6:7::", "::2:3:4:5:6:7:8", "1:2:3:4:5:6:7:8::", "::1:2:3:4:5:6:7:8", "1:2:3:4:5:6:1.2.3.4", "1:2:3:4:5:1.2.3.4",
	"1:2:3:4:5:6:7:1.2.3.4", "::1.2.3.4", "1::1.2.3.4", "1:2:3:4:5::1.2.3.4", "1:2:3:4:5:6::1.2.3.4", "::1.2.3", "::1.2.3.4.5", "::01.2.3.4", "::256.2.3.4",
	"1.2.3.4::", "1.2.3.4::1", ":::", "::::", ":", ":1", "1:", "1:::2", "1::2::3", "12345::", "::12345", "::g", "1:2", "::%eth0", "fe80::1%eth0", "fe80::1%", "%eth0",
	"::1%25eth0", "0:0:0:0:0:0:0:0", "0000:0000:0000:0000:0000:0000:0000:0001", "::0.0.0.0", "::255.255.255.255", "::1a.2.3.4", "::1234.1.1.1", "::1.2.3.4:5", "2001:620:618:10f:1:80b2:f08:1"}

func genIPv6(rng *rand.Rand) string {
	if rng.Intn(4) == 0 {
		return pick(rng, fixedV6)
	}
	n := rng.Intn(10)
	gs := make([]string, n)
	for i := range gs {
		gs[i] = genHexGroup(rng)
	}
	tail4 := rng.Intn(6) == 0
	if tail4 {
		gs = append(gs, genIPv4(rng))
	}
	s := ""
	switch rng.Intn(6) {
	case 0: // no ellipsis
		s = strings.Join(gs, ":")
	case 1: // two ellipses
		k1, k2 := rng.Intn(len(gs)+1), rng.Intn(len(gs)+1)
		if k1 > k2 {
			k1, k2 = k2, k1
		}
		s = strings.Join(gs[:k1], ":") + "::" + strings.Join(gs[k1:k2], ":") + "::" + strings.Join(gs[k2:], ":")
	default:
		k := rng.Intn(len(gs) + 1)
		s = strings.Join(gs[:k], ":") + "::" + strings.Join(gs[k:], ":")
	}
	switch rng.Intn(30) {
	case 0:
		s += "%" + pick(rng, []string{"eth0", "", "1", "%", "lo0:1"})
	case 1:
		s = ":" + s
	case 2:
		s += ":"
	}
	return s
}

const ldh = "abcdefghijklmnopqrstuvwxyz0123456789-"
const alpha = "abcdefghijklmnopqrstuvwxyz"

func randFrom(rng *rand.Rand, alphabet string, n int) string {
	b := make([]byte, n)
	for i := range b {
		b[i] = alphabet[rng.Intn(len(alphabet))]
	}
	return string(b)
}

func genLabel(rng *rand.Rand) string {
	n := 1 + rng.Intn(8)
	switch rng.Intn(30) {
	case 0:
		n = 63
	case 1:
		n = 64
	case 2:
		n = 62
	}
	l := randFrom(rng, ldh, n)
	if rng.Intn(3) != 0 {
		// keep the ends alphanumeric most of the time
		b := []byte(l)
		if b[0] == '-' {
			b[0] = 'a'
		}
		if b[n-1] == '-' {
			b[n-1] = '0'
		}
		l = string(b)
	}
	switch rng.Intn(20) {
	case 0:
		l = strings.ToUpper(l)
	case 1:
		l = strings.Title(l)
	case 2:
		i := rng.Intn(len(l) + 1)
		l = l[:i] + pick(rng, []string{"_", "$", " ", "/", "\x00", "\xff", "é", "K", "İ", "*", "@", "%", "\n"}) + l[i:]
	}
	return l
}

func genTLD(rng *rand.Rand) string {
	switch rng.Intn(10) {
	case 0:
		return randFrom(rng, "0123456789", 1+rng.Intn(3))
	case 1:
		return randFrom(rng, ldh, 1+rng.Intn(4))
	case 2:
		return strings.ToUpper(randFrom(rng, alpha, 1+rng.Intn(4)))
	default:
		return randFrom(rng, alpha, 1+rng.Intn(5))
	}
}

// hostname of exactly n bytes made of full-size labels
func hostOfLen(rng *rand.Rand, n int) string {
	var sb strings.Builder
	for sb.Len() < n {
		rem := n - sb.Len()
		l := 63
		if rem <= 63 {
			l = rem
		} else if rem == 64 {
			l = 62
		}
		sb.WriteString(randFrom(rng, alpha, l))
		if sb.Len() < n {
			sb.WriteByte('.')
		}
	}
	return sb.String()
}

var fixedHosts = []string{"localhost", "conode1", "a.a", "www.asd.lol.xd", "www.asd.lol.x-d", "..a", "a..a", "123213.213", "-23.dwe", "...", ".", "a.", "a..", "epfl.ch.",
	"www.asd.lol.xd-", "randomtext", "EPFL.CH", "a-b.c-d.ef", "a/b", "a b", "x_y", "a.b_c", "xn--bcher-kva.ch", "1.2.3.com", "1.2.3.4.com", "com.1", "a.b.c.d.e.f.g.h",
	"K.com", "K", "İ.com", "a.K", "é.ch", "\xff", "\xff.ch", "K.com", "a\x00b", "a%b", "a%25b.c"}

func genHostname(rng *rand.Rand) string {
	switch rng.Intn(16) {
	case 0, 1:
		return pick(rng, fixedHosts)
	case 2:
		n := []int{252, 253, 254, 255, 256}[rng.Intn(5)]
		h := hostOfLen(rng, n)
		if rng.Intn(2) == 0 {
			h += "."
		}
		return h
	case 3:
		// no-dot escape: anything without a dot
		n := 1 + rng.Intn(12)
		if rng.Intn(4) == 0 {
			n = 62 + rng.Intn(4)
		}
		return randFrom(rng, "ab01-_$ /*\xff\xc3\xa9\xe2\x84\xaa", n)
	case 4:
		// many invalid bytes: ToLower triples each of them
		return strings.Repeat("\xff", 20+rng.Intn(4)) + pick(rng, []string{"", ".", ".ch"})
	}
	n := 1 + rng.Intn(4)
	ls := make([]string, n)
	for i := range ls {
		ls[i] = genLabel(rng)
	}
	if rng.Intn(15) == 0 {
		ls[rng.Intn(n)] = ""
	}
	h := strings.Join(ls, ".")
	if n > 1 || rng.Intn(2) == 0 {
		h += "." + genTLD(rng)
	}
	switch rng.Intn(12) {
	case 0:
		h += "."
	case 1:
		h += ".."
	}
	return h
}

// hosts that contain the separator "://" or pieces of it, also inside square
// brackets (where net.SplitHostPort lets ':' and '/' through), and nested brackets
var sepHosts = []string{"[://]", "[a://b]", "[x://y://z]", "[tcp://1.2.3.4]", "[://", "://]", "[:/]", "[//]", "[/]", "[:]", "[::/]", "[:/:]",
	"[a:/b]", "[a//b]", "[a:b://c]", "[://]]", "[[://]", "[[a]]", "[a[b]c]", "[a]b]", "[[]]", "[][]", "[]://[]", "a://b", "://", ":/", "//", "/", "a:/b", "a//b",
	"tcp://1.2.3.4", "tcp://", "[tcp://]", "[::1://]", "[://::1]", "[1.2.3.4://]", "[epfl.ch://x]"}

var sepPieces = []string{"://", ":/", "//", "/", ":", "[", "]", "[[", "]]", "[://]", "://://", "tcp://"}

var injectBases = []string{"tcp://1.2.3.4:80", "tls://[::1]:2000", "local://epfl.ch:7770", "tcp://[localhost]:65535", "tcp://:0", "tls://[a:b]:1"}

// genInjected puts every separator piece at every position of a few good
// addresses: before the type, inside it, inside the separator, inside the host
// (and its brackets), before and after the port.
func genInjected() []string {
	var out []string
	for _, b := range injectBases {
		for i := 0; i <= len(b); i++ {
			for _, pc := range sepPieces {
				out = append(out, b[:i]+pc+b[i:])
			}
		}
	}
	return out
}

// allStrings enumerates every string over alphabet of length 0..max.
func allStrings(alphabet string, max int) []string {
	out := []string{""}
	level := []string{""}
	for l := 1; l <= max; l++ {
		var next []string
		for _, w := range level {
			for i := 0; i < len(alphabet); i++ {
				next = append(next, w+alphabet[i:i+1])
			}
		}
		out = append(out, next...)
		level = next
	}
	return out
}

// genHost returns the host as written inside a host:port
func genHost(rng *rand.Rand) string {
	switch rng.Intn(16) {
	case 0:
		return ""
	case 1, 2, 3, 4:
		return genIPv4(rng)
	case 5, 6, 7:
		return "[" + genIPv6(rng) + "]"
	case 8:
		return genIPv6(rng)
	case 9:
		return "[" + pick(rng, []string{genIPv4(rng), genHostname(rng), "", "[::1]", "a]b", "a:b", "::1]:[80"}) + "]"
	case 10:
		return pick(rng, []string{"[", "]", "[]", "[::1", "::1]", "[[::1]]", "[::1]]", "[::1]x", "x[::1]", "[a", "a]", "a[b]"})
	case 11:
		// the type/address separator, its pieces and brackets inside the host
		return pick(rng, sepHosts)
	default:
		return genHostname(rng)
	}
}

var fixedPorts = []string{"-1", "0", "1", "79", "80", "443", "2000", "7770", "65534", "65535", "65536", "70000", "99999",
	"+80", "-0", "+0", "0080", "00000000000000000000080", "065535", "", "http", " 80", "80 ", "8_0", "8 0", "0x50", "80a", "+", "-", "--1", "+-1",
	"99999999999999999999", "9223372036854775807", "9223372036854775808", "-9223372036854775808", "-9223372036854775809", "18446744073709551616",
	"٣", "8\xff", "80\n", "80:", "1e3"}

func genPort(rng *rand.Rand) string {
	switch rng.Intn(5) {
	case 0:
		return pick(rng, fixedPorts)
	case 1:
		return fmt.Sprint(65530 + rng.Intn(12))
	default:
		return fmt.Sprint(rng.Intn(70002) - 1)
	}
}

func genNetAddr(rng *rand.Rand) string {
	h := genHost(rng)
	switch rng.Intn(40) {
	case 0:
		return h // no port at all
	case 1:
		return h + "::" + genPort(rng)
	case 2:
		return h + ":" + genPort(rng) + ":" + genPort(rng)
	}
	return h + ":" + genPort(rng)
}

func genAddr(rng *rand.Rand) string {
	a := genType(rng) + genSep(rng) + genNetAddr(rng)
	switch rng.Intn(40) {
	case 0:
		a += "://"
	case 1:
		a = a + "/" + "x"
	case 2:
		a = " " + a
	}
	return a
}

// a mostly valid address (valid type, separator and an in-range port)
func genGoodAddr(rng *rand.Rand) string {
	var h string
	switch rng.Intn(8) {
	case 0:
		h = ""
	case 1, 2, 3:
		h = fmt.Sprintf("%d.%d.%d.%d", rng.Intn(256), rng.Intn(256), rng.Intn(256), rng.Intn(256))
	case 4:
		h = "[" + pick(rng, []string{"::", "::1", "fd00::1", "2001:620:618:10f:1:80b2:f08:1", "::ffff:1.2.3.4", "fe80::1"}) + "]"
	case 5:
		h = pick(rng, []string{"localhost", "conode1", "epfl.ch", "a.b.example.org", "EPFL.CH", "epfl.ch."})
	case 6:
		h = "[" + pick(rng, []string{"localhost", "1.2.3.4", "epfl.ch", "a://b", "://", "a:/b", "::1://", "a[b"}) + "]"
	default:
		h = genIPv4(rng)
	}
	var p string
	switch rng.Intn(4) {
	case 0:
		p = pick(rng, []string{"0", "1", "80", "443", "2000", "7770", "65533", "65534", "65535", "065535", "0065534", "+80", "-0", "65536"})
	default:
		p = fmt.Sprint(rng.Intn(65536))
	}
	return pick(rng, goodTypes) + "://" + h + ":" + p
}

const mutAlphabet = ":/[].%-+ tcplsoa0159_$\x00\xff\xc3\xa9\xe2\x84\xaaK\n"

func mutate(rng *rand.Rand, s string) string {
	b := []byte(s)
	k := 1 + rng.Intn(3)
	for ; k > 0; k-- {
		c := mutAlphabet[rng.Intn(len(mutAlphabet))]
		if rng.Intn(6) == 0 {
			c = byte(rng.Intn(256))
		}
		switch op := rng.Intn(5); {
		case op == 4: // insert a separator piece
			i := rng.Intn(len(b) + 1)
			pc := sepPieces[rng.Intn(len(sepPieces))]
			b = append(b[:i:i], append([]byte(pc), b[i:]...)...)
		case op == 0 && len(b) > 0: // delete
			i := rng.Intn(len(b))
			b = append(b[:i:i], b[i+1:]...)
		case op == 1 && len(b) > 0: // replace
			b[rng.Intn(len(b))] = c
		case op == 2 && len(b) > 1: // duplicate a byte
			i := rng.Intn(len(b))
			b = append(b[:i+1:i+1], b[i:]...)
		default: // insert
			i := rng.Intn(len(b) + 1)
			b = append(b[:i:i], append([]byte{c}, b[i:]...)...)
		}
	}
	return string(b)
}

func genBytes(rng *rand.Rand, max int) string {
	n := rng.Intn(max + 1)
	b := make([]byte, n)
	for i := range b {
		if rng.Intn(3) == 0 {
			b[i] = byte(rng.Intn(256))
		} else {
			b[i] = mutAlphabet[rng.Intn(len(mutAlphabet))]
		}
	}
	return string(b)
}

func genArbitraryAddr(rng *rand.Rand) string {
	switch rng.Intn(6) {
	case 4:
		return pick(rng, goodTypes) + "://" + randFrom(rng, ":/[]a0.", rng.Intn(9)) + ":" + genPort(rng)
	case 5:
		return randFrom(rng, "tcp:/[]0a.", rng.Intn(14))
	case 0:
		return genBytes(rng, 24)
	case 1:
		return pick(rng, goodTypes) + "://" + genBytes(rng, 16)
	case 2:
		return pick(rng, goodTypes) + "://" + genBytes(rng, 10) + ":" + genPort(rng)
	default:
		return genBytes(rng, 6) + "://" + genBytes(rng, 10) + ":" + genBytes(rng, 4)
	}
}

func genListen(rng *rand.Rand) string {
	switch rng.Intn(14) {
	case 0, 1:
		return ""
	case 2, 3:
		return genIPv4(rng)
	case 4:
		return genHostname(rng)
	case 5:
		return pick(rng, []string{"[::1]", "::1", "[::]", "::", "[abc", "abc]", "[abc]", "[", "]", "[]", "a[b", "0.0.0.0", " ", "\x00"})
	case 6:
		return ":" + genPort(rng)
	case 7:
		return genHost(rng) + ":"
	case 8:
		return pick(rng, []string{":", "::", ":::", "a:b:c", "[::1]:", "[::1]:80", "[::1]:http", "[a]:1", "[]:1", "[:1", "]:1"})
	case 9:
		return genBytes(rng, 8)
	default:
		return genNetAddr(rng)
	}
}

var urlSchemes = []string{"http", "https", "http", "https", "HTTP", "Https", "ws", "wss", "ftp", "h2+x", "a.b-c", "1http", "", "+http"}
var urlPorts = []string{"", "", "", ":", ":0", ":1", ":80", ":443", ":8080", ":65534", ":65535", ":65536", ":70000", ":0080", ":99999999999999999999", ":abc", ":-1", ":+80", ":8a"}
var urlPaths = []string{"", "", "/", "/a/b", "/index.html", "/~u/x_y-z", "//", "/a:b", "/a?x=1", "/a#f", "?x", "#f", "/%41", "/a b"}
var urlHosts = []string{"example.com", "EXAMPLE.com", "localhost", "1.2.3.4", "[::1]", "[fe80::1]", "", "a:1", "[::1", "::1", "[a]", "[]", "a[b]", "[a]b", "x.y.z-w", "u@h", "u:p@h", "h%41", "[fe80::1%25en0]", "a b", "\xff", "h\x7f"}

func genURL(rng *rand.Rand) string {
	if rng.Intn(10) == 0 {
		return pick(rng, []string{"*", "http:", "http:/", "http:/a", "http:a", "//h:80", "h:80", "/path", "http//h", "://h", ":", "http://", "http:///p", "http://h:80:90", "http://h::90",
			"http://[::1]:80:90", "http://[::1]x:80", "http://h:80/p:q", " http://h", "http://h\n", genBytes(rng, 12)})
	}
	return pick(rng, urlSchemes) + "://" + pick(rng, urlHosts) + pick(rng, urlPorts) + pick(rng, urlPaths)
}

// cased and other interesting runes for strings.ToLower
var lowerRunes []rune

func init() {
	for r := rune(0x80); r <= unicode.MaxRune; r++ {
		if unicode.ToLower(r) != r {
			lowerRunes = append(lowerRunes, r)
		}
	}
}

func genLowerString(rng *rand.Rand) string {
	var sb strings.Builder
	n := 1 + rng.Intn(8)
	for i := 0; i < n; i++ {
		switch rng.Intn(8) {
		case 0:
			sb.WriteByte(byte(rng.Intn(256)))
		case 1:
			sb.WriteByte("aZ.m-Q0"[rng.Intn(7)])
		case 2:
			sb.WriteRune(rune(rng.Intn(0x110000)))
		case 3:
			// truncated / overlong / surrogate encodings
			sb.WriteString(pick(rng, []string{"\xc3", "\xe2\x84", "\xf0\x9f\x98", "\xc0\x80", "\xc1\xbf", "\xe0\x80\x80", "\xe0\x9f\xbf", "\xed\xa0\x80", "\xed\x9f\xbf",
				"\xf0\x8f\xbf\xbf", "\xf0\x90\x80\x80", "\xf4\x8f\xbf\xbf", "\xf4\x90\x80\x80", "\xf5\x80\x80\x80", "\xef\xbf\xbd", "\xef\xbf\xbe", "\x80", "\xbf", "\xfe", "\xff"}))
		default:
			r := lowerRunes[rng.Intn(len(lowerRunes))]
			sb.WriteRune(r + rune(rng.Intn(3)-1))
		}
	}
	return sb.String()
}

func generate(rng *rand.Rand, tier string) []interface{} {
	scale := 1
	if tier != "quick" {
		scale = 12
	}
	var ins []interface{}
	add := func(in input) { ins = append(ins, in) }

	// ---- Address methods
	for i := 0; i < 1300*scale; i++ {
		add(mk("addr", "grammar", genAddr(rng)))
	}
	for i := 0; i < 500*scale; i++ {
		add(mk("addr", "good", genGoodAddr(rng)))
	}
	for i := 0; i < 500*scale; i++ {
		add(mk("addr", "mutated", mutate(rng, genGoodAddr(rng))))
	}
	for i := 0; i < 300*scale; i++ {
		add(mk("addr", "bytes", genArbitraryAddr(rng)))
	}
	// the separator and its pieces at every position of good addresses
	for _, a := range genInjected() {
		add(mk("addr", "injected", a))
	}
	// exhaustive: every short string over the structural alphabet, bare and as
	// the network address (with and without a good port) behind a good type
	{
		rawLen, naAlpha, naLen := 3, ":/[]a", 5
		if tier != "quick" {
			rawLen, naAlpha, naLen = 4, ":/[]a0.", 5
		}
		for _, w := range allStrings("tcp:/[]0a.", rawLen) {
			add(mk("addr", "exh-raw", w))
		}
		for _, w := range allStrings(naAlpha, naLen) {
			add(mk("addr", "exh-na", "tcp://"+w))
			add(mk("addr", "exh-na", "tls://"+w+":0"))
		}
	}
	// all boundary ports on a fixed host; in the thorough tier every port -1..70000
	if tier == "quick" {
		for _, p := range fixedPorts {
			add(mk("addr", "port", "tcp://1.2.3.4:"+p))
			add(mk2("ws", "port", "tls://h.example.org:"+p, "", false))
		}
	} else {
		for p := -1; p <= 70000; p++ {
			add(mk2("ws", "port", fmt.Sprintf("tcp://1.2.3.4:%d", p), "", p%2 == 0))
			if p%7 == 0 || p > 65500 || p < 50 {
				add(mk("addr", "port", fmt.Sprintf("tcp://1.2.3.4:%d", p)))
			}
		}
	}

	// ---- getListenAddress / GlobalBind
	for i := 0; i < 550*scale; i++ {
		var a string
		switch rng.Intn(5) {
		case 0:
			a = genAddr(rng)
		case 1:
			a = mutate(rng, genGoodAddr(rng))
		default:
			a = genGoodAddr(rng)
		}
		add(mk2("listen", "gen", a, genListen(rng), false))
	}
	for i := 0; i < 150*scale; i++ {
		var s string
		switch rng.Intn(3) {
		case 0:
			s = genBytes(rng, 12)
		case 1:
			s = mutate(rng, genNetAddr(rng))
		default:
			s = genNetAddr(rng)
		}
		add(mk("bind", "gen", s))
	}

	// ---- getWSHostPort
	for i := 0; i < 450*scale; i++ {
		var a string
		switch rng.Intn(6) {
		case 0:
			a = genAddr(rng)
		case 1:
			a = mutate(rng, genGoodAddr(rng))
		default:
			a = genGoodAddr(rng)
		}
		add(mk2("ws", "gen", a, "", rng.Intn(2) == 0))
	}
	for i := 0; i < 450*scale; i++ {
		add(mk2("ws", "gen", genGoodAddr(rng), genURL(rng), rng.Intn(2) == 0))
	}

	// ---- the modelled standard-library functions, directly
	for i := 0; i < 500*scale; i++ {
		add(mk("parseip", "v6", genIPv6(rng)))
	}
	for i := 0; i < 250*scale; i++ {
		add(mk("parseip", "v4", genIPv4(rng)))
	}
	for i := 0; i < 350*scale; i++ {
		var s string
		if rng.Intn(2) == 0 {
			s = mutate(rng, genIPv6(rng))
		} else {
			s = mutate(rng, genIPv4(rng))
		}
		add(mk("parseip", "mutated", s))
	}
	for _, s := range fixedV6 {
		add(mk("parseip", "fixed", s))
	}
	for i := 0; i < 400*scale; i++ {
		var s string
		switch rng.Intn(3) {
		case 0:
			s = genBytes(rng, 10)
		case 1:
			s = mutate(rng, genNetAddr(rng))
		default:
			s = genNetAddr(rng)
		}
		add(mk("splithp", "gen", s))
	}
	for i := 0; i < 80*scale; i++ {
		add(mk2("joinhp", "gen", strings.Trim(genHost(rng), "[]"), genPort(rng), false))
	}
	for _, p := range fixedPorts {
		add(mk("atoi", "fixed", p))
		add(mk("uint16", "fixed", p))
	}
	for i := 0; i < 100*scale; i++ {
		p := genPort(rng)
		if rng.Intn(3) == 0 {
			p = mutate(rng, p)
		}
		add(mk("atoi", "gen", p))
		add(mk("uint16", "gen", p))
	}
	for _, n := range []uint64{0, 1, 9, 10, 99, 100, 65535, 65536, 4294967295, 18446744073709551615} {
		add(input{Kind: "format", N: n, Tag: "fixed"})
	}
	for i := 0; i < 40*scale; i++ {
		add(input{Kind: "format", N: uint64(rng.Intn(65537)), Tag: "gen"})
	}
	for i := 0; i < 450*scale; i++ {
		add(mk("hostname", "gen", genHostname(rng)))
	}
	for _, h := range fixedHosts {
		add(mk("hostname", "fixed", h))
	}
	for i := 0; i < 250*scale; i++ {
		add(mk("lower", "gen", genLowerString(rng)))
	}
	if tier != "quick" {
		// every rune with a lower-case mapping, and its neighbours, 16 per string
		var sb strings.Builder
		k := 0
		for _, r := range lowerRunes {
			for d := rune(-1); d <= 1; d++ {
				if utf8.ValidRune(r + d) {
					sb.WriteRune(r + d)
				}
			}
			k++
			if k%16 == 0 {
				add(mk("lower", "allcased", sb.String()))
				sb.Reset()
			}
		}
		add(mk("lower", "allcased", sb.String()))
	}
	for i := 0; i < 120*scale; i++ {
		s := genAddr(rng)
		sp := pick(rng, []string{"://", "://", ".", ":", "ab", "aa", "//"})
		if rng.Intn(3) == 0 {
			s = mutate(rng, strings.Repeat(sp, 1+rng.Intn(3))+s+sp)
		}
		add(mk2("split", "gen", s, sp, false))
	}
	return ins
}

func corpus() []interface{} {
	long254 := ""
	{
		rng := rand.New(rand.NewSource(7))
		long254 = hostOfLen(rng, 254)
	}
	c := []interface{}{
		// F23: websocket port wraps to 0
		mk2("ws", "corpus", "tcp://127.0.0.1:65535", "", false),
		mk2("ws", "corpus", "tls://[::1]:65535", "", true),
		mk2("ws", "corpus", "tcp://127.0.0.1:65534", "", false),
		// F24: brackets around a host without colon
		mk("addr", "corpus", "tcp://[localhost]:80"),
		mk("addr", "corpus", "tcp://[1.2.3.4]:80"),
		// N1: 254 characters plus a trailing dot
		mk("addr", "corpus", "tcp://"+long254+".:80"),
		mk("addr", "corpus", "tcp://"+long254[1:]+".:80"),
		mk("addr", "corpus", "tcp://"+long254+":80"),
		mk("hostname", "corpus", long254+"."),
		// N2: non-ASCII host names go through Unicode case folding and U+FFFD substitution
		mk("addr", "corpus", "tcp://K.com:80"),
		mk("addr", "corpus", "tcp://\u0130.ch:80"),
		mk("addr", "corpus", "tcp://"+strings.Repeat("\xff", 22)+":80"),
		mk("addr", "corpus", "tcp://"+strings.Repeat("\xff", 21)+":80"),
		// N3: a host-only listen address with a bracket is pasted in front of the port
		mk2("listen", "corpus", "tcp://1.2.3.4:2000", "[abc", false),
		mk2("listen", "corpus", "tcp://1.2.3.4:2000", "abc]", false),
		mk2("listen", "corpus", "tcp://1.2.3.4:2000", "[::1]", false),
	}
	// more than one separator: Valid, ConnType and NetworkAddress each split the
	// address themselves and must split it the same way (seeded change B)
	for _, a := range []string{"tcp://[://]:80", "tls://[a://b]:2000", "tcp://[x://y://z]:65535", "local://[://://]:0",
		"tcp://tcp://1.2.3.4:80", "tcp://1.2.3.4:80://", "tcp://1.2.3.4://80", "://tcp://1.2.3.4:80", "tcp://://:80", "tcp://[//]:80", "tcp://[:/]:80"} {
		c = append(c, mk("addr", "corpus-multisep", a))
		c = append(c, mk2("listen", "corpus-multisep", a, "", false))
		c = append(c, mk2("ws", "corpus-multisep", a, "", false))
	}
	// the table of network/address_test.go and struct/tcp tests as regression inputs
	for _, a := range []string{"tls://10.0.0.4:2000", "tcp://10.0.0.4:2000", "tcp://67.43.129.85:2000", "tls://[::]:1000", "tls4://10.0.0.4:2000",
		"tls://1000.0.0.4:2000", "tls://10.0.0.4:20000000", "tls://10.0.0.4:-10", "tlsx10.0.0.4:2000", "tls:10.0.0.4x2000", "tlsx10.0.0.4x2000",
		"tlxblurdie", "tls://blublublu", "tcp://localhost:80", "tcp://ipv6.localhost:80", "tcp://facebook.com:8080", "tls://google.com:80",
		"tcp://epfl.ch:8080", "tcp://ipv6.epfl.ch:8080", "tcp://ipv6.locala:80", "tcp://ipv6.localb:80", "tcp://ipv6.localc:80", "", "://", "tcp://", "tcp://:0", "local://:65535"} {
		c = append(c, mk("addr", "corpus", a))
	}
	for _, l := range []string{"", "1.2.3.4", "1.2.3.4:5", ":5", "1.2.3.4:", "::1", "[::1]:5"} {
		c = append(c, mk2("listen", "corpus", "tcp://127.0.0.1:2000", l, false))
		c = append(c, mk2("listen", "corpus", "tcp://[::1]:2000", l, false))
		c = append(c, mk2("listen", "corpus", "tcp://127.0.0.1", l, false))
	}
	for _, u := range []string{"http://example.com", "https://example.com", "http://example.com:8080/path", "https://[::1]:65535", "http://h:65536", "ftp://h", "h:80", "http://h:0"} {
		c = append(c, mk2("ws", "corpus", "tcp://127.0.0.1:2000", u, false))
		c = append(c, mk2("ws", "corpus", "tcp://127.0.0.1:2000", u, true))
	}
	return c
}
