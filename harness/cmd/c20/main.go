// C20 harness: runs the Address methods, getListenAddress, GlobalBind and
// getWSHostPort of /repo (and, directly, the standard-library functions the
// Coq model re-implements) on generated strings and writes the observations
// as Coq literals.  Every Go string travels hex-encoded.
package main

import (
	"encoding/hex"
	"encoding/json"
	"errors"
	"fmt"
	"net"
	"strconv"
	"strings"

	"go.dedis.ch/onet/v3"
	"go.dedis.ch/onet/v3/network"

	"verifharness/lib"
)

type input struct {
	Kind string `json:"kind"`        // addr listen bind ws splithp joinhp parseip atoi uint16 format lower hostname split
	A    string `json:"a"`           // hex of the first string
	B    string `json:"b,omitempty"` // hex of the second string (listen address, URL, port, separator)
	G    bool   `json:"g,omitempty"` // global flag of getWSHostPort
	N    uint64 `json:"n,omitempty"` // number for format
	Tag  string `json:"tag,omitempty"`
	Txt  string `json:"txt,omitempty"` // strconv.Quote of the strings, for humans only
}

func mk(kind, tag, a string) input {
	return input{Kind: kind, Tag: tag, A: hex.EncodeToString([]byte(a)), Txt: strconv.Quote(a)}
}

func mk2(kind, tag, a, b string, g bool) input {
	return input{Kind: kind, Tag: tag, A: hex.EncodeToString([]byte(a)), B: hex.EncodeToString([]byte(b)), G: g,
		Txt: strconv.Quote(a) + " " + strconv.Quote(b)}
}

// stubLookup replaces net.LookupHost: a fixed function of the byte sum of the
// host, mirrored by Corr.C20.stub_lookup.
func stubLookup(h string) ([]string, error) {
	sum := 0
	for i := 0; i < len(h); i++ {
		sum += int(h[i])
	}
	switch sum % 8 {
	case 0:
		return nil, errors.New("no such host")
	case 1:
		return []string{"127.0.0.1"}, nil
	case 2:
		return []string{"8.8.4.4", "1.1.1.1"}, nil
	case 3:
		return []string{"fd00::1"}, nil
	case 4:
		return []string{"172.20.1.1"}, nil
	case 5:
		return []string{"fda::1"}, nil
	case 6:
		return []string{"192.168.3.4"}, nil
	default:
		return []string{"::1"}, nil
	}
}

type addrObs struct {
	Valid    bool   `json:"valid"`
	Type     string `json:"type"`
	NA       string `json:"na"`
	Host     string `json:"host"`
	Port     string `json:"port"`
	IsHost   bool   `json:"ishost"`
	Resolve  string `json:"resolve"`
	Resolved string `json:"resolved"`
	Public   bool   `json:"public"`
	Panic    string `json:"panic,omitempty"`
}

func observeAddr(s string) (o addrObs) {
	defer func() {
		if r := recover(); r != nil {
			o = addrObs{Panic: fmt.Sprint(r)}
		}
	}()
	a := network.Address(s)
	o.Valid = a.Valid()
	o.Type = string(a.ConnType())
	o.NA = a.NetworkAddress()
	o.Host = a.Host()
	o.Port = a.Port()
	o.IsHost = a.IsHostname()
	o.Resolve = a.Resolve()
	o.Resolved = a.NetworkAddressResolved()
	o.Public = a.Public()
	return
}

type strObs struct {
	Ok    string `json:"ok,omitempty"`
	Err   string `json:"err,omitempty"`
	Panic string `json:"panic,omitempty"`
	IsOk  bool   `json:"isok"`
}

func observeStr(f func() (string, error)) (o strObs) {
	defer func() {
		if r := recover(); r != nil {
			o = strObs{Panic: fmt.Sprint(r)}
		}
	}()
	s, err := f()
	if err != nil {
		return strObs{Err: "error"}
	}
	return strObs{Ok: s, IsOk: true}
}

func (o strObs) coq() string {
	switch {
	case o.Panic != "":
		return "OPanic"
	case !o.IsOk:
		return "OErr"
	default:
		return "(OOk " + lib.Hex([]byte(o.Ok)) + ")"
	}
}

func q(s string) string { return strconv.Quote(s) }

func unhex(s string) string {
	b, err := hex.DecodeString(s)
	if err != nil {
		panic(err)
	}
	return string(b)
}

// hostPart returns what stands between the first "://" and the last ':'.
func hostPart(a string) (string, bool) {
	i := strings.Index(a, "://")
	if i < 0 {
		return "", false
	}
	na := a[i+3:]
	j := strings.LastIndexByte(na, ':')
	if j < 0 {
		return "", false
	}
	return na[:j], true
}

func nonASCII(s string) bool {
	for i := 0; i < len(s); i++ {
		if s[i] >= 0x80 {
			return true
		}
	}
	return false
}

// addrClass names the syntactic class of an address string; the classes of the
// recorded findings are recognisable from the input alone.
func addrClass(a, tag string) string {
	h, ok := hostPart(a)
	if ok {
		if strings.HasPrefix(h, "[") && strings.HasSuffix(h, "]") && !strings.Contains(h, ":") {
			return "addr-bracket-nocolon"
		}
		if nonASCII(h) {
			return "addr-nonascii-host"
		}
		hh := strings.TrimSuffix(strings.TrimPrefix(h, "["), "]")
		if len(hh) == 255 && hh[254] == '.' {
			return "addr-host254dot"
		}
	}
	return "addr-" + tag
}

func portIs65535(a string) bool {
	j := strings.LastIndexByte(a, ':')
	if j < 0 || j+1 >= len(a) {
		return false
	}
	p := strings.TrimLeft(a[j+1:], "0")
	return p == "65535"
}

func run(raw json.RawMessage) lib.Case {
	var in input
	if err := json.Unmarshal(raw, &in); err != nil {
		panic(err)
	}
	a := unhex(in.A)
	b := unhex(in.B)
	ha, hb := lib.Hex([]byte(a)), lib.Hex([]byte(b))
	switch in.Kind {
	case "addr":
		o := observeAddr(a)
		coq := fmt.Sprintf("CAddr %s (Build_addr_obs %s %s %s %s %s %s %s %s %s %s)", ha,
			lib.Bool(o.Valid), lib.Hex([]byte(o.Type)), lib.Hex([]byte(o.NA)), lib.Hex([]byte(o.Host)),
			lib.Hex([]byte(o.Port)), lib.Bool(o.IsHost), lib.Hex([]byte(o.Resolve)), lib.Hex([]byte(o.Resolved)),
			lib.Bool(o.Public), lib.Bool(o.Panic != ""))
		hum := map[string]interface{}{"address": q(a), "valid": o.Valid, "type": q(o.Type), "networkaddress": q(o.NA),
			"host": q(o.Host), "port": q(o.Port), "ishostname": o.IsHost, "resolve": q(o.Resolve),
			"resolved": q(o.Resolved), "public": o.Public, "panic": o.Panic}
		return lib.Case{Coq: coq, Class: addrClass(a, in.Tag), Obs: hum, Nontrivial: o.Valid || strings.Contains(a, "://")}
	case "listen":
		o := observeStr(func() (string, error) { return network.VerifC20GetListenAddress(network.Address(a), b) })
		class := "listen-" + in.Tag
		if b != "" && !strings.Contains(b, ":") && strings.ContainsAny(b, "[]") {
			class = "listen-hostonly-bracket"
		}
		return lib.Case{Coq: fmt.Sprintf("CListen %s %s %s", ha, hb, o.coq()), Class: class,
			Obs: map[string]interface{}{"address": q(a), "listen": q(b), "result": q(o.Ok), "error": o.Err, "panic": o.Panic},
			Nontrivial: o.IsOk}
	case "bind":
		o := observeStr(func() (string, error) { return network.GlobalBind(a) })
		return lib.Case{Coq: fmt.Sprintf("CBind %s %s", ha, o.coq()), Class: "bind-" + in.Tag,
			Obs: map[string]interface{}{"address": q(a), "result": q(o.Ok), "error": o.Err, "panic": o.Panic}, Nontrivial: o.IsOk}
	case "ws":
		si := &network.ServerIdentity{Address: network.Address(a), URL: b}
		o := observeStr(func() (string, error) { return onet.VerifC20GetWSHostPort(si, in.G) })
		class := "ws-addr-" + in.Tag
		if b != "" {
			class = "ws-url-" + in.Tag
		} else if portIs65535(a) {
			class = "ws-addr-port65535"
		}
		return lib.Case{Coq: fmt.Sprintf("CWS %s %s %s %s", ha, hb, lib.Bool(in.G), o.coq()), Class: class,
			Obs: map[string]interface{}{"address": q(a), "url": q(b), "global": in.G, "result": q(o.Ok), "error": o.Err, "panic": o.Panic},
			Nontrivial: o.IsOk}
	case "splithp":
		var port string
		o := observeStr(func() (string, error) {
			h, p, err := net.SplitHostPort(a)
			port = p
			return h, err
		})
		return lib.Case{Coq: fmt.Sprintf("CSplitHP %s %s %s", ha, o.coq(), lib.Hex([]byte(port))), Class: "std-splithostport",
			Obs: map[string]interface{}{"in": q(a), "host": q(o.Ok), "port": q(port), "error": o.Err}, Nontrivial: o.IsOk}
	case "joinhp":
		r := net.JoinHostPort(a, b)
		return lib.Case{Coq: fmt.Sprintf("CJoinHP %s %s %s", ha, hb, lib.Hex([]byte(r))), Class: "std-joinhostport",
			Obs: map[string]interface{}{"host": q(a), "port": q(b), "out": q(r)}, Nontrivial: true}
	case "parseip":
		ok := net.ParseIP(a) != nil
		return lib.Case{Coq: fmt.Sprintf("CParseIP %s %s", ha, lib.Bool(ok)), Class: "std-parseip-" + in.Tag,
			Obs: map[string]interface{}{"in": q(a), "ok": ok}, Nontrivial: ok}
	case "atoi":
		n, err := strconv.Atoi(a)
		r := "None"
		if err == nil {
			r = "(Some " + lib.Z(int64(n)) + ")"
		}
		return lib.Case{Coq: fmt.Sprintf("CAtoi %s %s", ha, r), Class: "std-atoi",
			Obs: map[string]interface{}{"in": q(a), "n": n, "ok": err == nil}, Nontrivial: err == nil}
	case "uint16":
		n, err := strconv.ParseUint(a, 10, 16)
		r := "None"
		if err == nil {
			r = "(Some " + lib.N(n) + ")"
		}
		return lib.Case{Coq: fmt.Sprintf("CUint16 %s %s", ha, r), Class: "std-parseuint16",
			Obs: map[string]interface{}{"in": q(a), "n": n, "ok": err == nil}, Nontrivial: err == nil}
	case "format":
		r := strconv.FormatUint(in.N, 10)
		return lib.Case{Coq: fmt.Sprintf("CFormat %s %s", lib.N(in.N), lib.Hex([]byte(r))), Class: "std-formatuint",
			Obs: map[string]interface{}{"n": in.N, "out": r}, Nontrivial: true}
	case "lower":
		r := strings.ToLower(a)
		return lib.Case{Coq: fmt.Sprintf("CLower %s %s", ha, lib.Hex([]byte(r))), Class: "std-tolower-" + in.Tag,
			Obs: map[string]interface{}{"in": q(a), "out": q(r)}, Nontrivial: r != a}
	case "hostname":
		ok := network.VerifC20ValidHostname(a)
		return lib.Case{Coq: fmt.Sprintf("CHostname %s %s", ha, lib.Bool(ok)), Class: "hostname-" + in.Tag,
			Obs: map[string]interface{}{"in": q(a), "ok": ok}, Nontrivial: ok}
	case "split":
		parts := strings.Split(a, b)
		hs := make([]string, len(parts))
		for i, p := range parts {
			hs[i] = lib.Hex([]byte(p))
		}
		return lib.Case{Coq: fmt.Sprintf("CSplit %s %s %s", ha, hb, lib.List(hs)), Class: "std-split",
			Obs: map[string]interface{}{"in": q(a), "sep": q(b), "n": len(parts)}, Nontrivial: len(parts) > 1}
	}
	panic("unknown kind " + in.Kind)
}

func main() {
	network.VerifC20SetLookupHost(stubLookup)
	lib.Main(lib.Harness{
		Prop:   "C20",
		Import: "Onet.Corr.C20",
		Rule: "strings from a grammar of near-valid addresses (connection types x separators x IPv4/IPv6/host-name/empty/bracketed hosts x ports -1..70000 " +
			"incl. signs, leading zeros, junk; hosts containing the separator ://, its pieces and nested brackets), the separator and its pieces injected at every position " +
			"of good addresses, every string over {t,c,p,:,/,[,],0,a,.} up to length 3 (4 thorough) and every network address over {:,/,[,],a} up to length 5 behind a good type with and without a port, " +
			"byte-level mutations of those, arbitrary byte strings (incl. invalid UTF-8 and cased non-ASCII runes), " +
			"combined with listen-address overrides and explicit URLs; the same generators feed the modelled standard-library functions directly; " +
			"non-trivial = the call succeeded / the address is valid or at least contains the separator; distinct = distinct Coq case term",
		Shard:    350,
		Generate: generate,
		Run:      run,
		Corpus:   corpus,
	})
}
