package main

// Router-level scenarios: one real network.Router (TCP or in-memory transport)
// surrounded by harness-owned peers (plain listeners / connections built from
// the exported network API, so the harness sees the peer's end of every
// connection). A script forces one interleaving of Router.Stop with sends,
// inbound connections and deliveries by holding goroutines at the verif
// schedule points and inside the message processor.

import (
	"fmt"
	"net"
	"os"
	"reflect"
	"runtime"
	"strings"
	"sync"
	"sync/atomic"
	"time"

	"go.dedis.ch/kyber/v3/util/key"
	"go.dedis.ch/onet/v3/network"

	"verifharness/lib"
)

// Msg is the peer message whose dispatch is observed.
type Msg struct {
	ID int
}

var msgType network.MessageTypeID

type mac struct {
	Op string `json:"op"`
	A  int    `json:"a"`
	B  int    `json:"b,omitempty"`
}

// peerEnd is the harness's end of one connection.
type peerEnd struct {
	conn    network.Conn
	eof     chan struct{} // closed when Receive returned an error
	gotID   chan struct{} // closed when the router's identity message arrived (dialled connections)
	eofSeen int32
	stall   int32         // the peer stops reading (set by the harness)
	parked  int32         // ... and is now waiting to be resumed
	nread   int32         // messages its Receive has returned so far
	resume  chan struct{} // closed to let it read again
}

type connRec struct {
	idx        int
	peer       int
	dialled    bool
	our        network.Conn // the router's Conn object, learnt at a schedule point
	pe         *peerEnd
	peerClosed bool
	heldAcc    bool  // held at router.accepted
	preTest    int32 // its set-up thread is held before its first test of the closed flag
}

type peerHost struct {
	idx      int
	si       *network.ServerIdentity
	tcpL     *network.TCPListener
	locL     *network.LocalListener
	accepted chan network.Conn
	dead     bool
}

type opResult struct {
	done chan struct{}
	err  error
	pan  interface{}
}

type renv struct {
	tcp          bool
	r            *network.Router
	rptr         string
	lm           *network.LocalManager
	peers        []*peerHost
	conns        []*connRec
	sched        *lib.Sched
	stamp        int64
	mu           sync.Mutex
	sends        []*opResult
	stops        []*opResult
	stopRetStamp []int64

	// hook events
	connectedCh chan network.Conn
	identityCh  chan network.Conn
	acceptedCh  chan network.Conn
	closedSetCh chan struct{}

	// dispatch log
	dispStart []dispEv
	dispDone  []dispEv
	dispEnd   map[int]chan struct{}
	holdDisp  map[int]chan struct{} // message id -> release channel

	heldSend map[int]*lib.Gate // sender index -> gate
	heldIn   map[int]*lib.Gate // conn index -> gate
	heldStop map[int]*lib.Gate
	heldMsg  map[int]int // conn index -> held message id
	panicked bool
	sendPeer []int

	connMu       sync.Mutex // e.conns and connRec.our, read by the sampler in the Stop goroutine
	sampleOnce   sync.Once
	openRet      []bool
	lmStuck      int32        // a call that needs the in-memory manager's lock did not come back
	unheldSend   map[int]bool // sends whose hold could not be established (they ran as plain sends)
	lastUnheld   bool         // set by the macro that has just run
	exemptRet    []bool
	heldSendConn map[int]*connRec
}

type dispEv struct {
	stamp int64
	msg   int
}

func (e *renv) addConn(rec *connRec) {
	e.connMu.Lock()
	e.conns = append(e.conns, rec)
	e.connMu.Unlock()
}

func (e *renv) setOur(rec *connRec, c network.Conn) {
	e.connMu.Lock()
	rec.our = c
	e.connMu.Unlock()
}

// sampleAtReturn records, at the instant the first Stop call returns and before anything is
// allowed to settle, whether the router's own endpoint object of every connection made so
// far is closed. Only facts that are synchronous with Stop are read here (the closed flag of
// the router's TCPConn / LocalConn); what the peer sees comes later, after settling, and
// belongs to the final-state observation only.
func (e *renv) sampleAtReturn() {
	e.sampleOnce.Do(func() {
		e.connMu.Lock()
		defer e.connMu.Unlock()
		for _, c := range e.conns {
			open := false // no endpoint object of the router is known: it never accepted this one
			if c.our != nil {
				if closed, known := e.connClosed(c.our); known {
					open = !closed
				}
			}
			e.openRet = append(e.openRet, open)
			e.exemptRet = append(e.exemptRet, atomic.LoadInt32(&c.preTest) == 1)
		}
	})
}

// connClosed reads the closed flag of an endpoint object. For an in-memory connection that takes
// the LocalManager's lock, which a Close that hangs keeps for ever: the call is bounded, and once
// it has not come back the manager is taken for stuck (known = false from then on).
func (e *renv) connClosed(c network.Conn) (closed bool, known bool) {
	if c == nil {
		return false, false
	}
	if e.tcp {
		return network.VerifConnClosed(c)
	}
	if atomic.LoadInt32(&e.lmStuck) == 1 {
		return false, false
	}
	type res struct{ closed, known bool }
	ch := make(chan res, 1)
	go func() {
		a, b := network.VerifConnClosed(c)
		ch <- res{a, b}
	}()
	select {
	case r := <-ch:
		return r.closed, r.known
	case <-time.After(opDeadline):
		noteMiss("in-memory manager's lock")
		atomic.StoreInt32(&e.lmStuck, 1)
		return false, false
	}
}

// negotiatingHas reports whether the router's Listen callback for c has passed its first
// critical section (beginNegotiation) and has not returned yet: c is in Router.negotiating.
// known is false when the router has no such table (or its lock cannot be taken now).
func (e *renv) negotiatingHas(c network.Conn) (in bool, known bool) {
	return negotiatingHas(e.r, c)
}

func negotiatingHas(r *network.Router, c network.Conn) (in bool, known bool) {
	f := reflect.ValueOf(r).Elem().FieldByName("negotiating")
	if !f.IsValid() || f.Kind() != reflect.Map {
		return false, false
	}
	if !r.TryLock() {
		return false, false
	}
	defer r.Unlock()
	defer func() {
		if recover() != nil {
			in, known = false, false
		}
	}()
	return f.MapIndex(reflect.ValueOf(c)).IsValid(), true
}

// routerKnows reports whether c is in one of the router's own tables (registered, or accepted
// and under negotiation): the connections Stop is responsible for closing before it returns.
// Called right after Stop / Close has returned, so the router's lock is free or held only briefly.
func routerKnows(r *network.Router, c network.Conn) bool {
	if r.VerifRegistered(c) {
		return true
	}
	for i := 0; i < 1000; i++ {
		in, known := negotiatingHas(r, c)
		if known {
			return in
		}
		if f := reflect.ValueOf(r).Elem().FieldByName("negotiating"); !f.IsValid() {
			return false
		}
		runtime.Gosched()
	}
	return false
}

// callbackSettled reports whether the Listen callback of the accepted connection c has taken its
// first step: it is recorded as negotiating (and will block reading the identity), or it has been
// refused and closed. Established by observation only; the fall-back for a router without the
// negotiating table is the callback's goroutine sitting in receiveServerIdentity.
func (e *renv) callbackSettled(c network.Conn) bool {
	if closed, known := e.connClosed(c); known && closed {
		return true
	}
	if f := reflect.ValueOf(e.r).Elem().FieldByName("negotiating"); f.IsValid() && f.Kind() == reflect.Map {
		in, known := e.negotiatingHas(c)
		return known && in
	}
	return countStack("network.(*Router).receiveServerIdentity", e.rptr) > 0
}

func (e *renv) tick() int64 { return atomic.AddInt64(&e.stamp, 1) }

var localPort int32 = 3000

func newKeyedIdentity(addr network.Address) *network.ServerIdentity {
	kp := key.NewKeyPair(suite)
	si := network.NewServerIdentity(kp.Public, addr)
	si.SetPrivate(kp.Private)
	return si
}

func newREnv(tcp bool, npeers int) (*renv, error) {
	opDeadline = patience
	e := &renv{tcp: tcp, sched: lib.NewSched(),
		connectedCh: make(chan network.Conn, 64), identityCh: make(chan network.Conn, 64),
		acceptedCh:  make(chan network.Conn, 256),
		closedSetCh: make(chan struct{}, 64),
		dispEnd:     map[int]chan struct{}{}, holdDisp: map[int]chan struct{}{},
		heldSend: map[int]*lib.Gate{}, heldIn: map[int]*lib.Gate{}, heldStop: map[int]*lib.Gate{},
		heldMsg: map[int]int{}, heldSendConn: map[int]*connRec{}, unheldSend: map[int]bool{}}
	if tcp {
		si := newKeyedIdentity(network.NewTCPAddress("127.0.0.1:0"))
		h, err := network.NewTCPHost(si, suite)
		if err != nil {
			return nil, err
		}
		_, port, err := net.SplitHostPort(h.Address().NetworkAddress())
		if err != nil {
			return nil, err
		}
		si.Address = network.NewTCPAddress("127.0.0.1:" + port)
		e.r = network.NewRouter(si, h)
		e.r.UnauthOk = true
	} else {
		e.lm = network.NewLocalManager()
		p := atomic.AddInt32(&localPort, 10)
		si := newKeyedIdentity(network.NewLocalAddress(fmt.Sprintf("127.0.0.1:%d", p)))
		r, err := network.NewLocalRouterWithManager(e.lm, si, suite)
		if err != nil {
			return nil, err
		}
		e.r = r
	}
	e.r.Quiet = true
	e.rptr = fmt.Sprintf("%p", e.r)
	e.r.RegisterProcessorFunc(msgType, e.process)
	e.sched.Record = func(seq int64, point string, args []interface{}) {
		if len(args) == 0 || args[0] != interface{}(e.r) {
			return
		}
		switch point {
		case "router.connected":
			e.connectedCh <- args[2].(network.Conn)
		case "router.accepted":
			select {
			case e.acceptedCh <- args[1].(network.Conn):
			default:
			}
		case "router.identityReceived":
			e.identityCh <- args[2].(network.Conn)
		case "router.closedSet":
			e.closedSetCh <- struct{}{}
		}
	}
	network.SetVerifHook(e.sched.Hook)
	go e.r.Start()
	deadline := time.Now().Add(5 * time.Second)
	for !e.r.Listening() {
		if time.Now().After(deadline) {
			return nil, fmt.Errorf("router does not listen")
		}
		runtime.Gosched()
		time.Sleep(time.Millisecond)
	}
	for i := 0; i < npeers; i++ {
		p, err := e.newPeer(i)
		if err != nil {
			return nil, err
		}
		e.peers = append(e.peers, p)
	}
	return e, nil
}

func (e *renv) newPeer(i int) (*peerHost, error) {
	p := &peerHost{idx: i, accepted: make(chan network.Conn, 64)}
	fn := func(c network.Conn) { p.accepted <- c }
	if e.tcp {
		l, err := network.NewTCPListener(network.NewTCPAddress("127.0.0.1:0"), suite)
		if err != nil {
			return nil, err
		}
		_, port, _ := net.SplitHostPort(l.Address().NetworkAddress())
		p.si = newKeyedIdentity(network.NewTCPAddress("127.0.0.1:" + port))
		p.tcpL = l
		go l.Listen(fn)
		for !l.Listening() {
			time.Sleep(time.Millisecond)
		}
	} else {
		port := atomic.AddInt32(&localPort, 10)
		addr := network.NewLocalAddress(fmt.Sprintf("127.0.0.1:%d", port))
		l, err := network.NewLocalListenerWithManager(e.lm, addr, suite)
		if err != nil {
			return nil, err
		}
		p.si = newKeyedIdentity(addr)
		p.locL = l
		go l.Listen(fn)
		for !l.Listening() {
			time.Sleep(time.Millisecond)
		}
	}
	return p, nil
}

// deadPeer returns an identity nobody listens for.
func (e *renv) deadIdentity() *network.ServerIdentity {
	if e.tcp {
		l, err := net.Listen("tcp", "127.0.0.1:0")
		if err != nil {
			return newKeyedIdentity(network.NewTCPAddress("127.0.0.1:1"))
		}
		addr := l.Addr().String()
		l.Close()
		return newKeyedIdentity(network.NewTCPAddress(addr))
	}
	port := atomic.AddInt32(&localPort, 10)
	return newKeyedIdentity(network.NewLocalAddress(fmt.Sprintf("127.0.0.1:%d", port)))
}

func (e *renv) process(env *network.Envelope) error {
	m, ok := env.Msg.(*Msg)
	if !ok {
		return nil
	}
	e.mu.Lock()
	e.dispStart = append(e.dispStart, dispEv{e.tick(), m.ID})
	hold := e.holdDisp[m.ID]
	end := e.dispEnd[m.ID]
	e.mu.Unlock()
	if hold != nil {
		<-hold
	}
	// the model logs a dispatch when Dispatch returns
	e.mu.Lock()
	e.dispDone = append(e.dispDone, dispEv{e.tick(), m.ID})
	e.mu.Unlock()
	if end != nil {
		close(end)
	}
	return nil
}

// readLoop is the harness's receive loop on its end of a connection.
func (pe *peerEnd) readLoop() {
	first := true
	for {
		if atomic.LoadInt32(&pe.stall) == 1 {
			atomic.StoreInt32(&pe.parked, 1)
			<-pe.resume
			atomic.StoreInt32(&pe.parked, 0)
		}
		env, err := pe.conn.Receive()
		if err != nil {
			atomic.StoreInt32(&pe.eofSeen, 1)
			close(pe.eof)
			return
		}
		atomic.AddInt32(&pe.nread, 1)
		if first && env.MsgType.Equal(network.ServerIdentityType) {
			close(pe.gotID)
		}
		first = false
	}
}

func newPeerEnd(c network.Conn, dialled bool) *peerEnd {
	pe := &peerEnd{conn: c, eof: make(chan struct{}), gotID: make(chan struct{}), resume: make(chan struct{})}
	go pe.readLoop()
	return pe
}

// opDeadline bounds every wait for an operation of the code under test, so that a hang is
// an observation (RPending / not returned), never a stuck harness. Every wait ends as soon
// as the awaited event is observed, so the bound is only ever spent when the event does not
// come at all; it is therefore generous (patience): on the unchanged tree no verdict depends
// on a deadline expiring, however loaded the machine is. After the first wait of the
// process has missed it (an alarm is then certain), later cases use a shorter patience, and
// the remaining waits of the same case are short.
var patience = 30 * time.Second

const patienceAfterMiss = 3 * time.Second
const shortDeadline = 300 * time.Millisecond

var opDeadline = patience
var missCount int32

// noteMiss records that a wait has expired.
func noteMiss(what string) {
	atomic.AddInt32(&missCount, 1)
	if os.Getenv("VERIF_C10_DEBUG") != "" {
		fmt.Fprintln(os.Stderr, "c10: wait expired:", what, "after", opDeadline)
	}
	if path := os.Getenv("VERIF_C10_MISSLOG"); path != "" {
		if f, err := os.OpenFile(path, os.O_APPEND|os.O_CREATE|os.O_WRONLY, 0644); err == nil {
			fmt.Fprintln(f, "wait expired:", what, "after", opDeadline)
			f.Close()
		}
	}
	if patience > patienceAfterMiss {
		patience = patienceAfterMiss
	}
	opDeadline = shortDeadline
}

// pollUntil polls cond until it holds or opDeadline passes (then the later waits are short).
func pollUntil(cond func() bool) bool {
	deadline := time.Now().Add(opDeadline)
	for time.Now().Before(deadline) {
		if cond() {
			return true
		}
		time.Sleep(200 * time.Microsecond)
	}
	if cond() {
		return true
	}
	noteMiss("poll")
	return false
}

func waitCh(ch <-chan struct{}, d time.Duration) bool {
	select {
	case <-ch:
		return true
	case <-time.After(d):
		select {
		case <-ch:
			return true
		default:
		}
		noteMiss("channel")
		return false
	}
}

// hit waits until the gate holds a goroutine.
func hit(g *lib.Gate) bool {
	if g.WaitHit(opDeadline) {
		return true
	}
	noteMiss("gate")
	return false
}

// startSend launches r.Send in its own goroutine.
func (e *renv) startSend(si *network.ServerIdentity, id int) *opResult {
	res := &opResult{done: make(chan struct{})}
	e.sends = append(e.sends, res)
	go func() {
		defer func() {
			if p := recover(); p != nil {
				res.pan = p
				e.mu.Lock()
				e.panicked = true
				e.mu.Unlock()
			}
			close(res.done)
		}()
		_, res.err = e.r.Send(si, &Msg{ID: id})
	}()
	return res
}

// trackDial consumes router.connected events and the matching accept on the
// peer until the send is done or held. It returns when the sender is held (true) or
// has returned (false).
func (e *renv) trackDial(res *opResult, peer int, gate *lib.Gate) bool {
	note := func(c network.Conn) {
		rec := &connRec{idx: len(e.conns), peer: peer, dialled: true, our: c}
		e.addConn(rec)
		if peer >= 0 {
			select {
			case pc := <-e.peers[peer].accepted:
				rec.pe = newPeerEnd(pc, true)
				// the identity message, or the end of a connection that was refused and closed at once
				select {
				case <-rec.pe.gotID:
				case <-rec.pe.eof:
				case <-time.After(opDeadline):
					noteMiss("select")
				}
			case <-time.After(opDeadline):
				noteMiss("select")
			}
		}
	}
	for {
		select {
		case c := <-e.connectedCh:
			note(c)
			if gate != nil {
				// the first arrival is the one the gate holds (the point may also never be
				// reached: registration refused before router.registered)
				deadline := time.Now().Add(opDeadline)
				for time.Now().Before(deadline) {
					if gate.WaitHit(2 * time.Millisecond) {
						return true
					}
					select {
					case <-res.done:
						deadline = time.Now()
					default:
					}
				}
			}
		case <-res.done:
			// the hook precedes the return: whatever it reported is already queued
			for {
				select {
				case c := <-e.connectedCh:
					note(c)
				default:
					return false
				}
			}
		case <-time.After(opDeadline):
			noteMiss("select")
			return false
		}
	}
}

func (e *renv) sameRouter(args []interface{}) bool {
	return len(args) > 0 && args[0] == interface{}(e.r)
}

// dialIn makes peer p connect to the router. It returns the new record or nil.
func (e *renv) dialIn(p int) *connRec {
	var c network.Conn
	var err error
	if e.tcp {
		c, err = network.NewTCPConn(e.r.ServerIdentity.Address, suite)
	} else {
		c, err = network.NewLocalConnWithManager(e.lm, e.peers[p].si.Address, e.r.ServerIdentity.Address, suite)
	}
	if err != nil || c == nil {
		return nil
	}
	if e.tcp {
		// a TCP connect can succeed against a listener that is just being closed; the
		// router then never accepts it: detect by an immediate reset / EOF
		// (only relevant after host.Stop, where the model has no Incoming action)
		if !e.r.Listening() {
			c.Close()
			return nil
		}
	}
	rec := &connRec{idx: len(e.conns), peer: p, pe: newPeerEnd(c, false)}
	e.addConn(rec)
	return rec
}

func (e *renv) runMacro(m mac, seqNo int) error {
	switch m.Op {
	case "send", "senddead", "sendhold", "sendholdreg":
		var si *network.ServerIdentity
		peer := m.A
		if m.Op == "senddead" {
			si = e.deadIdentity()
			peer = -1
		} else {
			si = e.peers[m.A].si
		}
		idx := len(e.sends)
		var gate *lib.Gate
		if m.Op == "sendhold" {
			gate = e.sched.Block("router.connected", 1, e.sameRouter)
			e.heldSend[idx] = gate
		} else if m.Op == "sendholdreg" {
			gate = e.sched.Block("router.registered", 1, e.sameRouter)
			e.heldSend[idx] = gate
		}
		res := e.startSend(si, 1000+seqNo)
		held := e.trackDial(res, peer, gate)
		if held && m.Op == "sendhold" && len(e.conns) > 0 {
			rec := e.conns[len(e.conns)-1]
			atomic.StoreInt32(&rec.preTest, 1)
			e.heldSendConn[idx] = rec
		}
		if !held {
			if gate != nil {
				// The hold could not be established: the Send never came to the schedule point (it
				// found a usable connection in the table and did not dial, or its registration was
				// refused before router.registered). That is what happened: the step is recorded as
				// a plain send, and the release the script has for it later is left out.
				gate.Release()
				delete(e.heldSend, idx)
				e.unheldSend[idx] = true
				e.lastUnheld = true
			}
			if !waitCh(res.done, opDeadline) {
				return nil
			}
		}
	case "sendrelease":
		g := e.heldSend[m.A]
		if g == nil {
			if e.unheldSend[m.A] {
				return errSkip
			}
			return fmt.Errorf("release of a Send that is not held")
		}
		delete(e.heldSend, m.A)
		if rec := e.heldSendConn[m.A]; rec != nil {
			atomic.StoreInt32(&rec.preTest, 0)
		}
		g.Release()
		res := e.sends[m.A]
		// the retry path of Send may dial once more
		e.trackDial(res, e.peerOfSend(m.A), nil)
		waitCh(res.done, opDeadline)
	case "incoming", "incominghold", "incomingsilent", "incomingholdacc":
		before := routerGoroutines(e.rptr)
		for len(e.acceptedCh) > 0 {
			<-e.acceptedCh
		}
		var accGate *lib.Gate
		if m.Op == "incomingholdacc" {
			accGate = e.sched.Block("router.accepted", 1, e.sameRouter)
		}
		rec := e.dialIn(m.A)
		if rec == nil {
			if accGate != nil {
				accGate.Release()
			}
			return nil
		}
		_ = before
		if accGate != nil {
			// the identity is sent at once; the callback is held before its first step
			e.heldIn[rec.idx] = accGate
			rec.heldAcc = true
			atomic.StoreInt32(&rec.preTest, 1)
			rec.pe.conn.Send(e.peers[m.A].si)
		}
		// the schedule point router.accepted tells which Conn of the router this is
		select {
		case c := <-e.acceptedCh:
			e.setOur(rec, c)
		case <-time.After(opDeadline):
			noteMiss("select")
			return fmt.Errorf("inbound connection never accepted")
		}
		if accGate != nil {
			if !hit(accGate) {
				return fmt.Errorf("inbound not held at router.accepted")
			}
			return nil
		}
		if m.Op == "incomingsilent" {
			// the model's macro lets the callback take its first step (beginNegotiation) and then
			// wait for the identity: establish exactly that before the script goes on
			if !pollUntil(func() bool { return e.callbackSettled(rec.our) }) {
				return fmt.Errorf("the callback of the silent connection never took its first step")
			}
			return nil
		}
		var gate *lib.Gate
		if m.Op == "incominghold" {
			gate = e.sched.Block("router.identityReceived", 1, e.sameRouter)
			e.heldIn[rec.idx] = gate
		}
		if _, err := rec.pe.conn.Send(e.peers[m.A].si); err != nil {
			return nil
		}
		select {
		case c := <-e.identityCh:
			e.setOur(rec, c)
		case <-time.After(opDeadline):
			noteMiss("select")
			return fmt.Errorf("identity not received")
		}
		if gate != nil {
			if !hit(gate) {
				return fmt.Errorf("inbound not held")
			}
			return nil
		}
		e.waitRegistered(rec)
	case "incomingrelease":
		g := e.heldIn[m.A]
		if g == nil {
			return fmt.Errorf("release of an inbound connection that is not held")
		}
		delete(e.heldIn, m.A)
		atomic.StoreInt32(&e.conns[m.A].preTest, 0)
		g.Release()
		if rec := e.conns[m.A]; rec.heldAcc {
			// the callback is either refused (the connection is closed) or goes on to read the identity
			pollUntil(func() bool {
				select {
				case c := <-e.identityCh:
					rec.our = c
					return true
				default:
				}
				closed, _ := e.connClosed(rec.our)
				return closed
			})
		}
		e.waitRegistered(e.conns[m.A])
		// the callback's wait-group slot is released: a Stop that was waiting for it returns now
		e.settleStops()
	case "silentclose":
		if m.A >= len(e.conns) || e.conns[m.A].pe == nil {
			return fmt.Errorf("no such connection")
		}
		rec := e.conns[m.A]
		rec.peerClosed = true
		rec.pe.conn.Close()
		waitCh(rec.pe.eof, opDeadline)
	case "deliver", "deliverhold":
		if m.A >= len(e.conns) {
			return fmt.Errorf("no such connection")
		}
		rec := e.conns[m.A]
		id := m.B
		end := make(chan struct{})
		e.mu.Lock()
		e.dispEnd[id] = end
		var hold chan struct{}
		if m.Op == "deliverhold" {
			hold = make(chan struct{})
			e.holdDisp[id] = hold
		}
		e.mu.Unlock()
		live := rec.our != nil && e.r.VerifRegistered(rec.our) && !e.r.Closed()
		if closed, known := e.connClosed(rec.our); rec.our != nil && known && closed {
			live = false
		}
		if rec.pe == nil {
			return nil
		}
		if _, err := rec.pe.conn.Send(&Msg{ID: id}); err != nil {
			return nil
		}
		if !live {
			return nil
		}
		if m.Op == "deliverhold" {
			// wait until the processor has been entered
			deadline := time.Now().Add(opDeadline)
			for time.Now().Before(deadline) {
				e.mu.Lock()
				n := 0
				for _, d := range e.dispStart {
					if d.msg == id {
						n++
					}
				}
				e.mu.Unlock()
				if n > 0 {
					e.heldMsg[m.A] = id
					return nil
				}
				time.Sleep(200 * time.Microsecond)
			}
			return fmt.Errorf("held delivery never dispatched")
		}
		if !waitCh(end, opDeadline) {
			return fmt.Errorf("delivery never dispatched")
		}
	case "deliverrelease":
		id, ok := e.heldMsg[m.A]
		if !ok {
			return fmt.Errorf("release of a delivery that is not held")
		}
		delete(e.heldMsg, m.A)
		e.mu.Lock()
		hold := e.holdDisp[id]
		end := e.dispEnd[id]
		delete(e.holdDisp, id)
		e.mu.Unlock()
		close(hold)
		waitCh(end, opDeadline)
		if rec := e.conns[m.A]; rec.peerClosed && rec.our != nil {
			// the handler now sees the closed connection, ends and unregisters it
			pollUntil(func() bool {
				closed, _ := e.connClosed(rec.our)
				return closed && (!e.r.VerifRegistered(rec.our) || e.r.Closed())
			})
		}
		e.settleStops()
	case "stop", "stophold":
		idx := len(e.stops)
		var gate *lib.Gate
		if m.Op == "stophold" {
			gate = e.sched.Block("router.closedSet", 1, e.sameRouter)
			e.heldStop[idx] = gate
		}
		res := &opResult{done: make(chan struct{})}
		e.stops = append(e.stops, res)
		e.stopRetStamp = append(e.stopRetStamp, 0)
		go func() {
			defer func() {
				if p := recover(); p != nil {
					res.pan = p
					e.mu.Lock()
					e.panicked = true
					e.mu.Unlock()
				}
				close(res.done)
			}()
			res.err = e.r.Stop()
			e.sampleAtReturn()
			e.mu.Lock()
			e.stopRetStamp[idx] = e.tick()
			e.mu.Unlock()
		}()
		select {
		case <-e.closedSetCh:
		case <-res.done:
			// the call ended without reaching the point (it panicked: recorded above): the script goes on
			return nil
		case <-time.After(opDeadline):
			noteMiss("select")
			return fmt.Errorf("stop never reached closedSet")
		}
		if gate != nil {
			if !hit(gate) {
				return fmt.Errorf("stop not held")
			}
			return nil
		}
		if !e.stopMayBlock() {
			waitCh(res.done, opDeadline)
		}
	case "stoprelease":
		g := e.heldStop[m.A]
		if g == nil {
			return fmt.Errorf("release of a Stop that is not held")
		}
		delete(e.heldStop, m.A)
		g.Release()
		if !e.stopMayBlock() {
			waitCh(e.stops[m.A].done, opDeadline)
		}
	case "peerclose":
		if m.A >= len(e.conns) || e.conns[m.A].pe == nil {
			return fmt.Errorf("no such connection")
		}
		rec := e.conns[m.A]
		rec.pe.conn.Close()
		rec.peerClosed = true
		if _, busy := e.heldMsg[m.A]; busy {
			// the handler is blocked inside Dispatch: it will notice after the release
			if !e.tcp && rec.our != nil {
				deadline := time.Now().Add(opDeadline)
				for time.Now().Before(deadline) {
					if closed, _ := e.connClosed(rec.our); closed {
						break
					}
					time.Sleep(200 * time.Microsecond)
				}
			}
			return nil
		}
		// the router's handler sees EOF, closes its end and unregisters
		if rec.our != nil {
			pollUntil(func() bool {
				closed, _ := e.connClosed(rec.our)
				if closed && (!e.r.VerifRegistered(rec.our) || e.r.Closed()) {
					return true
				}
				return !e.r.VerifRegistered(rec.our) && e.isHeldSetup(rec)
			})
		}
	default:
		panic("unknown macro " + m.Op)
	}
	return nil
}

// stopMayBlock: a dispatch in progress or a Listen callback held after beginNegotiation keeps
// a wait-group slot, so a Stop legitimately waits for it: the harness then does not wait for
// that Stop here (its result is taken at the end of the script).
func (e *renv) stopMayBlock() bool {
	if len(e.heldMsg) > 0 {
		return true
	}
	for idx := range e.heldIn {
		if idx < len(e.conns) && !e.conns[idx].heldAcc {
			return true
		}
	}
	return false
}

func (e *renv) isHeldSetup(rec *connRec) bool {
	_, in := e.heldIn[rec.idx]
	return in || len(e.heldSend) > 0
}

func (e *renv) peerOfSend(i int) int {
	if i < len(e.sendPeer) {
		return e.sendPeer[i]
	}
	return -1
}

// settleStops waits for unheld Stop calls that can now return.
func (e *renv) settleStops() {
	for i, s := range e.stops {
		if _, held := e.heldStop[i]; held {
			continue
		}
		if !e.stopMayBlock() {
			waitCh(s.done, opDeadline)
		}
	}
}

// waitRegistered waits until the inbound connection is in the table (when the
// router is not closed the callback registers it at once).
func (e *renv) waitRegistered(rec *connRec) {
	if rec.our == nil {
		return
	}
	pollUntil(func() bool {
		if closed, _ := e.connClosed(rec.our); closed {
			// refused (or already ended): the callback closes the connection right after its test
			return true
		}
		return !e.r.Closed() && e.r.VerifRegistered(rec.our)
	})
}

// routerGoroutines counts the goroutines executing code of this router.
func routerGoroutines(rptr string) int {
	buf := make([]byte, 1<<22)
	n := runtime.Stack(buf, true)
	blocks := strings.Split(string(buf[:n]), "\n\n")
	cnt := 0
	for _, b := range blocks {
		if strings.Contains(b, "network.(*Router)") && strings.Contains(b, rptr) {
			cnt++
		}
	}
	return cnt
}

type robsJSON struct {
	Sends      []string `json:"sends"`
	Stops      []bool   `json:"stops_returned"`
	Open       []bool   `json:"conn_open"`
	OpenRet    []bool   `json:"conn_open_when_stop_returned"`
	ExemptRet  []bool   `json:"setup_held_before_closed_test"`
	PeerEOF    []bool   `json:"peer_saw_close"`
	Disp       [][2]int `json:"dispatched"`
	Late       int      `json:"late"`
	InProgress int      `json:"in_progress_at_stop_return"`
	Panic      bool     `json:"panic"`
	Goroutines int      `json:"router_goroutines_left"`
	Rebind     bool     `json:"rebind"`
	Err        string   `json:"scenario_error,omitempty"`
}

// finish releases every hold, waits for the calls to return and observes.
func (e *renv) finish(msgConn map[int]int) robsJSON {
	e.mu.Lock()
	for id, h := range e.holdDisp {
		close(h)
		delete(e.holdDisp, id)
	}
	e.mu.Unlock()
	e.sched.ReleaseAll()
	var o robsJSON
	for _, s := range e.sends {
		if waitCh(s.done, opDeadline) {
			if s.err == nil {
				o.Sends = append(o.Sends, "ROk")
			} else {
				o.Sends = append(o.Sends, "RErr")
			}
		} else {
			o.Sends = append(o.Sends, "RPending")
		}
	}
	for _, s := range e.stops {
		o.Stops = append(o.Stops, waitCh(s.done, opDeadline))
	}
	// Settling: wait for the consequences that are certain to come - a handler (or callback) whose
	// connection has been closed by Stop or by the peer ends and closes its side, the peer's
	// Receive returns on a connection the router has closed, the goroutines of a stopped router
	// exit. Each is awaited by its own event, never by a fixed pause; an endpoint that is leaked
	// stays open and costs the patience once.
	allRet := true
	for _, b := range o.Stops {
		allRet = allRet && b
	}
	stopped := len(o.Stops) > 0 && allRet && e.r.Closed()
	pollUntil(func() bool {
		for _, c := range e.conns {
			ourOpen := false
			if c.our != nil {
				if closed, known := e.connClosed(c.our); known && !closed {
					ourOpen = true
				}
			}
			if ourOpen && (stopped || c.peerClosed) {
				return false
			}
			if !ourOpen && c.pe != nil && !c.peerClosed && atomic.LoadInt32(&c.pe.stall) == 0 &&
				atomic.LoadInt32(&c.pe.eofSeen) == 0 {
				return false
			}
		}
		if stopped && routerGoroutines(e.rptr) != 0 {
			time.Sleep(time.Millisecond)
			return false
		}
		return true
	})
	for _, c := range e.conns {
		o.Open = append(o.Open, e.connOpen(c))
		o.PeerEOF = append(o.PeerEOF, c.pe != nil && atomic.LoadInt32(&c.pe.eofSeen) == 1)
	}
	o.Goroutines = routerGoroutines(e.rptr)
	e.connMu.Lock()
	o.OpenRet = append([]bool(nil), e.openRet...)
	o.ExemptRet = append([]bool(nil), e.exemptRet...)
	e.connMu.Unlock()
	e.mu.Lock()
	var firstRet int64
	for _, st := range e.stopRetStamp {
		if st != 0 && (firstRet == 0 || st < firstRet) {
			firstRet = st
		}
	}
	for _, d := range e.dispDone {
		c, ok := msgConn[d.msg]
		if !ok {
			c = 999
		}
		o.Disp = append(o.Disp, [2]int{c, d.msg})
	}
	doneAt := map[int]int64{}
	for _, d := range e.dispDone {
		doneAt[d.msg] = d.stamp
	}
	for _, d := range e.dispStart {
		if firstRet != 0 && d.stamp > firstRet {
			o.Late++
		}
		for _, ret := range e.stopRetStamp {
			if end, ok := doneAt[d.msg]; ret != 0 && d.stamp < ret && (!ok || end > ret) {
				o.InProgress++
			}
		}
	}
	o.Panic = e.panicked
	e.mu.Unlock()
	o.Rebind = e.rebind()
	return o
}

// connOpen: the router's endpoint counts as open unless BOTH the router's own bookkeeping says
// closed and the peer has seen the connection end (a Close that only sets a flag is not a close).
func (e *renv) connOpen(c *connRec) bool {
	peerSees := c.pe != nil && !c.peerClosed && atomic.LoadInt32(&c.pe.stall) == 0
	if c.our != nil {
		closed, known := e.connClosed(c.our)
		if known {
			if !closed {
				return true
			}
			return peerSees && atomic.LoadInt32(&c.pe.eofSeen) == 0
		}
	}
	if c.pe != nil {
		return atomic.LoadInt32(&c.pe.eofSeen) == 0
	}
	return false
}

func (e *renv) rebind() bool {
	if e.tcp {
		l, err := net.Listen("tcp", e.r.ServerIdentity.Address.NetworkAddress())
		if err != nil {
			return false
		}
		l.Close()
		return true
	}
	if atomic.LoadInt32(&e.lmStuck) == 1 {
		return false
	}
	ch := make(chan bool, 1)
	go func() { ch <- !e.lm.VerifLocalListening(e.r.ServerIdentity.Address) }()
	select {
	case free := <-ch:
		return free
	case <-time.After(opDeadline):
		noteMiss("in-memory manager's lock")
		atomic.StoreInt32(&e.lmStuck, 1)
		return false
	}
}

// errSkip: the macro releases a hold that was never established; it is left out of the script
// the model is run on.
var errSkip = fmt.Errorf("skip")

// closeBounded closes a connection while cleaning up (nothing is observed any more): a Close of
// the code under test that hangs must not hang the harness.
func closeBounded(c network.Conn) {
	done := make(chan struct{})
	go func() {
		defer close(done)
		defer func() { recover() }()
		c.Close()
	}()
	select {
	case <-done:
	case <-time.After(200 * time.Millisecond):
	}
}

// cleanup closes what the scenario left behind.
func (e *renv) cleanup() {
	e.sched.ReleaseAll()
	for _, c := range e.conns {
		if c.pe != nil {
			closeBounded(c.pe.conn)
		}
		if c.our != nil {
			closeBounded(c.our)
		}
	}
	stopped := make(chan struct{})
	go func() {
		defer close(stopped)
		defer func() { recover() }() // clean-up only: a Stop that panics is observed in the cases that call it
		e.r.Stop()
	}()
	select {
	case <-stopped:
	case <-time.After(2 * time.Second): // clean-up only, nothing is observed here
	}
	for _, p := range e.peers {
		if p.tcpL != nil {
			p.tcpL.Stop()
		}
		if p.locL != nil {
			l := p.locL
			done := make(chan struct{})
			go func() {
				defer close(done)
				l.Stop()
			}()
			select {
			case <-done:
			case <-time.After(200 * time.Millisecond): // clean-up only
			}
		}
	}
}

func coqRobs(o robsJSON) string {
	disp := make([]string, len(o.Disp))
	for i, d := range o.Disp {
		disp[i] = fmt.Sprintf("(%d, %d)", d[0], d[1])
	}
	bools := func(bs []bool) string {
		s := make([]string, len(bs))
		for i, b := range bs {
			s[i] = lib.Bool(b)
		}
		return lib.List(s)
	}
	return fmt.Sprintf("(mkRobs %s %s %s %s %s %s %d %d %s %d %s)", lib.List(o.Sends), bools(o.Stops), bools(o.Open),
		bools(o.OpenRet), bools(o.ExemptRet), lib.List(disp), o.Late, o.InProgress, lib.Bool(o.Panic), o.Goroutines, lib.Bool(o.Rebind))
}

func coqMacro(m mac) string {
	switch m.Op {
	case "send":
		return fmt.Sprintf("MSend %d", m.A)
	case "senddead":
		return fmt.Sprintf("MSendDead %d", m.A)
	case "sendhold":
		return fmt.Sprintf("MSendHold %d", m.A)
	case "sendholdreg":
		return fmt.Sprintf("MSendHoldReg %d", m.A)
	case "sendrelease":
		return fmt.Sprintf("MSendRelease %d", m.A)
	case "incoming":
		return fmt.Sprintf("MIncoming %d", m.A)
	case "incominghold":
		return fmt.Sprintf("MIncomingHold %d", m.A)
	case "incomingsilent":
		return fmt.Sprintf("MIncomingSilent %d", m.A)
	case "incomingholdacc":
		return fmt.Sprintf("MIncomingHoldAcc %d", m.A)
	case "incomingrelease":
		return fmt.Sprintf("MIncomingRelease %d", m.A)
	case "silentclose":
		return fmt.Sprintf("MSilentClose %d", m.A)
	case "deliver":
		return fmt.Sprintf("MDeliver %d %d", m.A, m.B)
	case "deliverhold":
		return fmt.Sprintf("MDeliverHold %d %d", m.A, m.B)
	case "deliverrelease":
		return fmt.Sprintf("MDeliverRelease %d", m.A)
	case "stop":
		return "MStop"
	case "stophold":
		return "MStopHold"
	case "stoprelease":
		return fmt.Sprintf("MStopRelease %d", m.A)
	case "peerclose":
		return fmt.Sprintf("MPeerClose %d", m.A)
	}
	panic("unknown macro " + m.Op)
}

// runScript executes one scripted scenario.
func runScript(in input) lib.Case {
	npeers := 1
	for _, m := range in.Script {
		switch m.Op {
		case "send", "sendhold", "sendholdreg", "incoming", "incominghold", "incomingsilent", "incomingholdacc":
			if m.A+1 > npeers {
				npeers = m.A + 1
			}
		}
	}
	e, err := newREnv(in.TCP, npeers)
	if err != nil {
		return lib.Case{Discard: true}
	}
	defer e.cleanup()
	msgConn := map[int]int{}
	var scenarioErr string
	executed := 0
	skipped := map[int]bool{} // releases of holds that were never established
	unheld := map[int]bool{}  // held sends that ran as plain sends
	for i, m := range in.Script {
		executed = i + 1
		switch m.Op {
		case "send", "sendhold", "sendholdreg":
			e.sendPeer = append(e.sendPeer, m.A)
		case "senddead":
			e.sendPeer = append(e.sendPeer, -1)
		case "deliver", "deliverhold":
			msgConn[m.B] = m.A
		}
		e.lastUnheld = false
		err := e.runMacro(m, i)
		if err == errSkip {
			skipped[i] = true
			continue
		}
		if e.lastUnheld {
			unheld[i] = true
		}
		if err != nil {
			scenarioErr = fmt.Sprintf("macro %d (%s): %v", i, m.Op, err)
			break
		}
	}
	o := e.finish(msgConn)
	o.Err = scenarioErr
	class := scriptClass(in)
	script := in.Script
	if scenarioErr != "" {
		// Something the implementation always does on the unchanged tree (reach a schedule point,
		// dispatch a delivered message, ...) did not happen within the deadline. That is an
		// observation: the prefix executed so far - including the step that did not complete - is
		// evaluated against the model and the property, nothing is discarded.
		class += "+cut"
		script = in.Script[:executed]
	}
	// the script the model is run on is the one that was actually executed
	ms := make([]string, 0, len(script))
	for i, m := range script {
		if skipped[i] {
			continue
		}
		if unheld[i] {
			m.Op = "send"
		}
		ms = append(ms, coqMacro(m))
	}
	if len(unheld) > 0 {
		class += "+unheld"
	}
	coq := fmt.Sprintf("RouterScript %s %s %s", lib.Bool(in.TCP), lib.List(ms), coqRobs(o))
	return lib.Case{Coq: coq, Class: class, Obs: o, Nontrivial: len(e.conns) > 0,
		Key: fmt.Sprint(in.TCP, ms)}
}
