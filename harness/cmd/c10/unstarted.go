package main

// Stop called repeatedly on a router that was never started, or whose Start() is overtaken by the
// first Stop ("close called once or repeatedly ... none panics"): TCP and TLS listeners. Every call
// is made in its own goroutine with a recover, so that a panic is an observation of the case.
// Compared with the model's script [MStop; ...; MStop]: a further Stop is the identity
// (c10_idempotent), whether or not the host was listening.

import (
	"fmt"
	"math/rand"
	"net"
	"strings"

	"go.dedis.ch/onet/v3/network"

	"verifharness/lib"
)

type unstarted struct {
	Stops int  `json:"stops"`      // Stop calls, one after the other
	Race  bool `json:"race_start"` // Start() is launched together with the first Stop
	TLS   bool `json:"tls"`
}

func genUnstarted(rng *rand.Rand) input {
	return input{Kind: "unstarted", TCP: true,
		Unstarted: &unstarted{Stops: 2 + rng.Intn(2), Race: rng.Intn(2) == 0, TLS: rng.Intn(2) == 0}}
}

func runUnstarted(in input) lib.Case {
	u := in.Unstarted
	opDeadline = patience
	addr := network.NewTCPAddress("127.0.0.1:0")
	if u.TLS {
		addr = network.NewTLSAddress("127.0.0.1:0")
	}
	si := newKeyedIdentity(addr)
	h, err := network.NewTCPHost(si, suite)
	if err != nil {
		return lib.Case{Discard: true} // nothing observed yet
	}
	_, port, err := net.SplitHostPort(h.Address().NetworkAddress())
	if err != nil {
		return lib.Case{Discard: true}
	}
	if u.TLS {
		si.Address = network.NewTLSAddress("127.0.0.1:" + port)
	} else {
		si.Address = network.NewTCPAddress("127.0.0.1:" + port)
	}
	r := network.NewRouter(si, h)
	r.UnauthOk = true
	r.Quiet = true
	rptr := fmt.Sprintf("%p", r)
	var o robsJSON
	var panics []string
	guarded := func(f func()) chan struct{} {
		done := make(chan struct{})
		go func() {
			defer func() {
				if p := recover(); p != nil {
					o.Panic = true
					panics = append(panics, fmt.Sprint(p))
				}
				close(done)
			}()
			f()
		}()
		return done
	}
	var started chan struct{}
	for k := 0; k < u.Stops; k++ {
		if k == 0 && u.Race {
			started = guarded(func() { r.Start() })
		}
		done := guarded(func() { r.Stop() })
		o.Stops = append(o.Stops, waitCh(done, opDeadline))
	}
	if started != nil {
		// Start() returns once the router has been stopped (before or after it began to listen)
		if !waitCh(started, opDeadline) {
			// a Start that never returns keeps its goroutine: counted below
		}
	}
	pollUntil(func() bool { return routerGoroutines(rptr) == 0 })
	o.Goroutines = routerGoroutines(rptr)
	o.Rebind = tryListen("127.0.0.1:" + port)
	o.Err = strings.Join(panics, "; ")
	ms := make([]string, u.Stops)
	for i := range ms {
		ms[i] = "MStop"
	}
	tr := "tcp"
	if u.TLS {
		tr = "tls"
	}
	class := "unstarted-" + tr
	if u.Race {
		class = "startrace-" + tr
	}
	coq := fmt.Sprintf("RouterScript true %s %s", lib.List(ms), coqRobs(o))
	return lib.Case{Coq: coq, Class: class, Obs: o, Nontrivial: true, Key: fmt.Sprint(*u)}
}
