package main

// Unconstrained races: sends (first contact and on established connections),
// inbound connections, deliveries and 1-3 Stop calls are started together; no
// goroutine is held anywhere. Only schedule-independent predictions are compared.

import (
	"fmt"
	"math/rand"
	"sync"
	"time"

	"go.dedis.ch/onet/v3/network"

	"verifharness/lib"
)

type race struct {
	Peers   int   `json:"peers"`
	Pre     int   `json:"pre"`     // connections established before the race
	Sends   int   `json:"sends"`   // racing sends
	Inbound int   `json:"inbound"` // racing inbound connections
	Deliver int   `json:"deliver"` // racing deliveries on established connections
	Stops   int   `json:"stops"`   // racing Stop calls
	Spin    []int `json:"spin"`    // busy-loop iterations before each operation acts (schedule perturbation, not an oracle)
}

func genRace(rng *rand.Rand, tcp bool) input {
	r := &race{Peers: 1 + rng.Intn(3), Pre: rng.Intn(3), Sends: 1 + rng.Intn(4), Inbound: rng.Intn(3),
		Deliver: rng.Intn(4), Stops: 1 + rng.Intn(3)}
	n := r.Sends + r.Inbound + r.Deliver + r.Stops
	for i := 0; i < n; i++ {
		r.Spin = append(r.Spin, rng.Intn(40000))
	}
	return input{Kind: "race", TCP: tcp, Race: r}
}

var spinSink int

func spin(n int) {
	x := 0
	for i := 0; i < n; i++ {
		x += i
	}
	spinSink = x
}

func runRace(in input) lib.Case {
	rc := in.Race
	e, err := newREnv(in.TCP, rc.Peers)
	if err != nil {
		return lib.Case{Discard: true}
	}
	defer e.cleanup()
	msgConn := map[int]int{}
	// established connections
	for i := 0; i < rc.Pre; i++ {
		e.sendPeer = append(e.sendPeer, i%rc.Peers)
		// (a failing set-up send shows in the send results; nothing is dropped)
		e.runMacro(m1("send", i%rc.Peers), i)
	}
	npre := len(e.conns)
	preSends := len(e.sends)
	var wg sync.WaitGroup
	start := make(chan struct{})
	k := 0
	next := func() int {
		s := 0
		if k < len(rc.Spin) {
			s = rc.Spin[k]
		}
		k++
		return s
	}
	var mu sync.Mutex
	var inboundEnds []*peerEnd
	for i := 0; i < rc.Sends; i++ {
		p := (i + 1) % rc.Peers
		s := next()
		res := &opResult{done: make(chan struct{})}
		e.sends = append(e.sends, res)
		wg.Add(1)
		go func(i int) {
			defer wg.Done()
			defer func() {
				if pn := recover(); pn != nil {
					res.pan = pn
					e.mu.Lock()
					e.panicked = true
					e.mu.Unlock()
				}
				close(res.done)
			}()
			<-start
			spin(s)
			_, res.err = e.r.Send(e.peers[p].si, &Msg{ID: 2000 + i})
		}(i)
	}
	for i := 0; i < rc.Inbound; i++ {
		p := i % rc.Peers
		s := next()
		wg.Add(1)
		go func() {
			defer wg.Done()
			<-start
			spin(s)
			var c network.Conn
			var err error
			if e.tcp {
				c, err = network.NewTCPConn(e.r.ServerIdentity.Address, suite)
			} else {
				c, err = network.NewLocalConnWithManager(e.lm, e.peers[p].si.Address, e.r.ServerIdentity.Address, suite)
			}
			if err != nil || c == nil {
				return
			}
			pe := newPeerEnd(c, false)
			mu.Lock()
			inboundEnds = append(inboundEnds, pe)
			mu.Unlock()
			c.Send(e.peers[p].si)
		}()
	}
	for i := 0; i < rc.Deliver && npre > 0; i++ {
		c := e.conns[i%npre]
		id := 3000 + i
		msgConn[id] = c.idx
		s := next()
		wg.Add(1)
		go func() {
			defer wg.Done()
			<-start
			spin(s)
			if c.pe != nil {
				c.pe.conn.Send(&Msg{ID: id})
			}
		}()
	}
	for i := 0; i < rc.Stops; i++ {
		s := next()
		idx := len(e.stops)
		res := &opResult{done: make(chan struct{})}
		e.stops = append(e.stops, res)
		e.stopRetStamp = append(e.stopRetStamp, 0)
		wg.Add(1)
		go func() {
			defer wg.Done()
			defer func() {
				if pn := recover(); pn != nil {
					res.pan = pn
					e.mu.Lock()
					e.panicked = true
					e.mu.Unlock()
				}
				close(res.done)
			}()
			<-start
			spin(s)
			res.err = e.r.Stop()
			e.sampleAtReturn()
			e.mu.Lock()
			e.stopRetStamp[idx] = e.tick()
			e.mu.Unlock()
		}()
	}
	close(start)
	done := make(chan struct{})
	go func() {
		wg.Wait()
		close(done)
	}()
	waitCh(done, 2*opDeadline)
	// the router's side of every connection it dialled or identified during the race
	collect := func(ch chan network.Conn, dialled bool) {
		for {
			select {
			case c := <-ch:
				e.addConn(&connRec{idx: len(e.conns), peer: -1, dialled: dialled, our: c})
			default:
				return
			}
		}
	}
	collect(e.connectedCh, true)
	collect(e.identityCh, false)
	o := e.finish(msgConn)
	// clean-up of the harness's own ends
	for _, p := range e.peers {
		for {
			select {
			case c := <-p.accepted:
				closeBounded(c)
				continue
			default:
			}
			break
		}
	}
	mu.Lock()
	for _, pe := range inboundEnds {
		closeBounded(pe.conn)
	}
	mu.Unlock()
	_ = preSends
	tr := "local"
	if in.TCP {
		tr = "tcp"
	}
	coq := fmt.Sprintf("RouterRace %s %d %s", lib.Bool(in.TCP), rc.Inbound, coqRobs(o))
	return lib.Case{Coq: coq, Class: "race-" + tr, Obs: o, Nontrivial: len(e.conns) > 0,
		Key: fmt.Sprint(in.TCP, *rc)}
}

var _ = time.Second
