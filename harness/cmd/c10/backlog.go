package main

// Closing a router whose in-memory peer does not read its backlog: the peer's handler blocks,
// the router under test sends more packets than the reader's queue of the connection holds, so
// that the peer endpoint's forwarding goroutine is parked on its full queue, then Stop is called.
// Stop must return (LocalManager.close waits for the forwarders while holding the manager's
// lock), and another user of the same manager must still get somewhere afterwards.
// Compared with the run of Net/LocalClose.v on the schedule that is OBSERVED (how many packets
// the peer had read before it parked, how many stay unread).

import (
	"fmt"
	"math/rand"
	"sync/atomic"
	"time"

	"go.dedis.ch/onet/v3/network"

	"verifharness/lib"
)

type backlog struct {
	Msgs  int `json:"msgs"`  // packets sent after the peer stopped reading
	Stops int `json:"stops"` // Stop calls
}

const localMaxBuffer = 200 // network.LocalMaxBuffer; Corr/C10.v runs the model with the same number

func genBacklog(rng *rand.Rand) input {
	// mostly above LocalMaxBuffer+1 (the forwarder parks), sometimes below (it does not)
	n := 205 + rng.Intn(150)
	if rng.Intn(4) == 0 {
		n = 1 + rng.Intn(200)
	}
	return input{Kind: "backlog", Backlog: &backlog{Msgs: n, Stops: 1 + rng.Intn(2)}}
}

func runBacklog(in input) lib.Case {
	b := in.Backlog
	e, err := newREnv(false, 2)
	if err != nil {
		return lib.Case{Discard: true} // nothing observed yet
	}
	defer e.cleanup()
	class := "backlog-local"
	e.sendPeer = append(e.sendPeer, 0)
	e.runMacro(m1("send", 0), 0)
	var pe *peerEnd
	if len(e.conns) >= 1 {
		pe = e.conns[0].pe
	}
	cut := false
	sentOK := 0 // the router's identity message is not among e.sends
	if pe == nil || e.sends[0].err != nil {
		cut = true
	} else {
		sentOK = 1
		// the peer's handler blocks: it still takes what its Receive in progress gets, then parks
		atomic.StoreInt32(&pe.stall, 1)
		for i := 0; i < b.Msgs; i++ {
			e.sendPeer = append(e.sendPeer, 0)
			res := e.startSend(e.peers[0].si, 5000+i)
			if !waitCh(res.done, opDeadline) || res.err != nil {
				// a Send that does not return (below 2 x LocalMaxBuffer + 1 unread packets there is
				// always room) or fails although nothing was closed: observed, evaluated
				cut = true
				break
			}
			sentOK++
			if i == 0 && !pollUntil(func() bool { return atomic.LoadInt32(&pe.parked) == 1 }) {
				cut = true
				break
			}
		}
	}
	// what the model is run on: r packets read by the peer, n unread (the identity included)
	r, n := 0, 0
	parkedFwd := false
	if pe != nil {
		r = int(atomic.LoadInt32(&pe.nread))
		n = 1 + sentOK - r
		if n < 0 {
			n = 0
		}
		// the forwarder has moved what fits into the reader's queue and holds the next packet:
		// established by the queue lengths (synchronous facts), not by a pause
		wantOut, wantIn := n, 0
		if n > localMaxBuffer {
			wantOut, wantIn = localMaxBuffer, n-localMaxBuffer-1
		}
		if !cut {
			ok := pollUntil(func() bool {
				in, out := network.VerifLocalQueues(pe.conn)
				return in < 0 || (in == wantIn && out == wantOut)
			})
			if !ok {
				cut = true
			}
			parkedFwd = ok && n > localMaxBuffer
		}
	}
	if cut {
		class += "+cut"
	} else if !parkedFwd {
		class += "+small" // fewer unread packets than the reader's queue holds: nothing is parked
	}
	for k := 0; k < b.Stops; k++ {
		if err := e.runMacro(m0("stop"), 1000+k); err != nil {
			break
		}
	}
	// another user of the same in-memory manager: peer 1 connects to peer 0 and sends
	otherOK := false
	och := make(chan bool, 1)
	go func() {
		defer func() {
			if recover() != nil {
				och <- false
			}
		}()
		c, err := network.NewLocalConnWithManager(e.lm, e.peers[1].si.Address, e.peers[0].si.Address, suite)
		if err == nil {
			_, err = c.Send(&Msg{ID: 9})
			closeBounded(c)
		}
		och <- err == nil
	}()
	select {
	case otherOK = <-och:
	case <-time.After(opDeadline):
		noteMiss("another user of the in-memory manager")
		atomic.StoreInt32(&e.lmStuck, 1)
	}
	o := e.finish(map[int]int{})
	if pe != nil {
		close(pe.resume)
	}
	if len(o.Stops) > 1 {
		// the model has one Stop; further calls are idempotent (c10_idempotent): all must have returned
		all := true
		for _, s := range o.Stops {
			all = all && s
		}
		o.Stops = []bool{all}
	}
	coq := fmt.Sprintf("LocalBacklog %d %d %s %s", r, n, lib.Bool(otherOK), coqRobs(o))
	return lib.Case{Coq: coq, Class: class, Obs: struct {
		robsJSON
		Read    int  `json:"packets_read_by_the_peer"`
		Unread  int  `json:"packets_unread"`
		Parked  bool `json:"forwarder_parked_on_full_queue"`
		OtherOK bool `json:"other_user_of_the_manager_ok"`
	}{o, r, n, parkedFwd, otherOK}, Nontrivial: parkedFwd,
		Key: fmt.Sprint(b.Msgs, b.Stops, r, n)}
}
