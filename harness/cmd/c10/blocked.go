package main

// A Send blocked in the socket write when Stop is called (TCP only): the peer is alive
// but stops reading, the router under test sends big messages until one Send does not
// return any more, then Stop is called. Stop must return and the blocked Send must fail.

import (
	"fmt"
	"math/rand"
	"os"
	"strings"
	"sync/atomic"
	"time"

	"verifharness/lib"
)

// Blob is a big message.
type Blob struct {
	Data []byte
}

type blocked struct {
	Size  int `json:"size_kb"` // size of one message
	Stops int `json:"stops"`   // Stop calls (the further ones after the first returned)
}

func genBlocked(rng *rand.Rand) input {
	return input{Kind: "blocked", TCP: true, Blocked: &blocked{Size: 256 << uint(rng.Intn(3)), Stops: 1 + rng.Intn(2)}}
}

func runBlocked(in input) lib.Case {
	b := in.Blocked
	e, err := newREnv(true, 1)
	if err != nil {
		return lib.Case{Discard: true} // nothing observed yet
	}
	defer e.cleanup()
	class := "blocked-tcp-send"
	e.sendPeer = append(e.sendPeer, 0)
	e.runMacro(m1("send", 0), 0)
	var pe *peerEnd
	if len(e.conns) >= 1 {
		pe = e.conns[0].pe
	}
	// Whether and when a Send blocks depends on the kernel's socket buffers and on scheduling, so
	// the schedule the model is run on is DERIVED FROM WHAT IS OBSERVED:
	//   - a Send is in progress when Stop is called and fails: "blocked" (blocked_schedule);
	//   - every Send had completed, or the one in progress completed before Stop closed the
	//     connection: "unblocked" (unblocked_schedule: all sends Ok, then Stop) - class +unblocked.
	// No time threshold decides anything: the sending goes on (bounded by the total number of
	// bytes, far beyond what the kernel can buffer) until a Send is really parked.
	nok := 1
	blockedSeen := false
	var inFlight *opResult
	if pe == nil || e.sends[0].err != nil {
		// the set-up send did not give a connection: evaluated as it is (the model expects Ok)
		class += "+cut"
		nok = 0
	} else {
		// the peer stops reading (it still takes the message its Receive may be in the middle of)
		atomic.StoreInt32(&pe.stall, 1)
		data := make([]byte, b.Size*1024)
		totalLimit := 192 << 20
		if strings.Contains(os.Getenv("VERIF_C10_FORCE"), "unblocked") {
			totalLimit = 2 * len(data) // self-test of the alternative schedule: stop sending before anything blocks
		}
	sending:
		for total := 0; total < totalLimit; total += len(data) {
			res := &opResult{done: make(chan struct{})}
			e.sends = append(e.sends, res)
			go func() {
				defer func() {
					if p := recover(); p != nil {
						res.pan = p
						e.mu.Lock()
						e.panicked = true
						e.mu.Unlock()
					}
					close(res.done)
				}()
				_, res.err = e.r.Send(e.peers[0].si, &Blob{Data: data})
			}()
			// Blocked = the peer is parked (reads nothing more) and the sending goroutine sits in the
			// socket write waiting for buffer space, twice in a row with the socket's queues unchanged.
			// A slow but progressing Send is never taken for a blocked one.
			deadline := time.Now().Add(opDeadline)
			for {
				select {
				case <-res.done:
					if res.err != nil {
						// a Send failed although nothing was closed: observed, evaluated (the model
						// expects Ok here), not dropped
						class += "+cut"
						break sending
					}
					nok++
					continue sending
				case <-time.After(2 * time.Millisecond):
				}
				if atomic.LoadInt32(&pe.parked) == 1 && countStack("network.(*TCPConn).sendRaw", "waitWrite") > 0 {
					// confirm: the same write is still waiting a moment later
					time.Sleep(20 * time.Millisecond)
					select {
					case <-res.done:
						continue
					default:
					}
					if countStack("network.(*TCPConn).sendRaw", "waitWrite") > 0 {
						blockedSeen = true
						inFlight = res
						break sending
					}
				}
				if time.Now().After(deadline) {
					// neither returned nor recognisably blocked in the write: Stop is called with
					// this Send in flight, whatever it is doing
					noteMiss("send neither returned nor blocked")
					class += "+cut"
					inFlight = res
					break sending
				}
			}
		}
	}
	// Stop while the Send is blocked in the write; a Stop that does not come back is an observation
	for k := 0; k < b.Stops; k++ {
		if err := e.runMacro(m0("stop"), 1000+k); err != nil {
			break
		}
	}
	if inFlight != nil {
		waitCh(inFlight.done, opDeadline)
	}
	// what actually happened to the Send that was in flight when Stop was called
	blockedSched := false
	if inFlight != nil {
		select {
		case <-inFlight.done:
			if inFlight.err == nil {
				// it completed before Stop closed the connection: all sends Ok, then Stop
				nok++
			} else {
				blockedSched = true
			}
		default:
			blockedSched = true // still pending: compared with the model's blocked schedule (Err)
		}
	}
	if !blockedSched && !strings.Contains(class, "+cut") {
		class += "+unblocked"
	}
	_ = blockedSeen
	// connections the retried Send opened
	for {
		select {
		case c := <-e.connectedCh:
			e.addConn(&connRec{idx: len(e.conns), peer: 0, dialled: true, our: c})
			continue
		default:
		}
		break
	}
	o := e.finish(map[int]int{})
	if pe != nil {
		close(pe.resume)
	}
	if len(o.Stops) > 1 {
		// the model has one Stop; further calls are idempotent (c10_idempotent): all must have returned
		all := true
		for _, s := range o.Stops {
			all = all && s
		}
		o.Stops = []bool{all}
	}
	coq := fmt.Sprintf("BlockedSend %d %s %s", nok, lib.Bool(blockedSched), coqRobs(o))
	return lib.Case{Coq: coq, Class: class, Obs: o, Nontrivial: true,
		Key: fmt.Sprint(b.Size, b.Stops, nok)}
}
