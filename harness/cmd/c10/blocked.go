package main

// A Send blocked in the socket write when Stop is called (TCP only): the peer is alive
// but stops reading, the router under test sends big messages until one Send does not
// return any more, then Stop is called. Stop must return and the blocked Send must fail.

import (
	"fmt"
	"math/rand"
	"sync/atomic"
	"time"

	"verifharness/lib"
)

// Blob is a big message.
type Blob struct {
	Data []byte
}

type blocked struct {
	Size  int `json:"size_kb"` // size of one message
	Stops int `json:"stops"`   // Stop calls (the further ones after the first returned)
}

func genBlocked(rng *rand.Rand) input {
	return input{Kind: "blocked", TCP: true, Blocked: &blocked{Size: 256 << uint(rng.Intn(3)), Stops: 1 + rng.Intn(2)}}
}

func runBlocked(in input) lib.Case {
	b := in.Blocked
	e, err := newREnv(true, 1)
	if err != nil {
		return lib.Case{Discard: true}
	}
	defer e.cleanup()
	e.sendPeer = append(e.sendPeer, 0)
	if err := e.runMacro(m1("send", 0), 0); err != nil || len(e.conns) != 1 || e.conns[0].pe == nil {
		return lib.Case{Discard: true}
	}
	pe := e.conns[0].pe
	// the peer stops reading (it may still take the message its Receive is waiting for)
	atomic.StoreInt32(&pe.stall, 1)
	data := make([]byte, b.Size*1024)
	nok := 0
	var blockedRes *opResult
	for i := 0; i < 200; i++ {
		res := &opResult{done: make(chan struct{})}
		e.sends = append(e.sends, res)
		go func() {
			defer func() {
				if p := recover(); p != nil {
					res.pan = p
					e.mu.Lock()
					e.panicked = true
					e.mu.Unlock()
				}
				close(res.done)
			}()
			_, res.err = e.r.Send(e.peers[0].si, &Blob{Data: data})
		}()
		select {
		case <-res.done:
			if res.err != nil {
				// a send failed before anything blocked: not the scenario
				close(pe.resume)
				return lib.Case{Discard: true}
			}
			nok++
			continue
		case <-time.After(300 * time.Millisecond):
			blockedRes = res
		}
		break
	}
	if blockedRes == nil {
		close(pe.resume)
		return lib.Case{Discard: true}
	}
	// Stop while the Send is blocked in the write
	for k := 0; k < b.Stops; k++ {
		if err := e.runMacro(m0("stop"), 1000+k); err != nil {
			break
		}
	}
	waitCh(blockedRes.done, opDeadline)
	// connections the retried Send opened
	for {
		select {
		case c := <-e.connectedCh:
			e.conns = append(e.conns, &connRec{idx: len(e.conns), peer: 0, dialled: true, our: c})
			continue
		default:
		}
		break
	}
	o := e.finish(map[int]int{})
	close(pe.resume)
	if len(o.Stops) > 1 {
		// the model has one Stop; further calls are idempotent (c10_idempotent): all must have returned
		all := true
		for _, s := range o.Stops {
			all = all && s
		}
		o.Stops = []bool{all}
	}
	coq := fmt.Sprintf("BlockedSend %d %s", nok+1, coqRobs(o)) // the set-up send and the nok big ones completed
	return lib.Case{Coq: coq, Class: "blocked-tcp-send", Obs: o, Nontrivial: true,
		Key: fmt.Sprint(b.Size, b.Stops, nok)}
}
