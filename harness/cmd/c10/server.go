package main

// Server-level scenarios: full onet servers (LocalTest, both transports) with
// protocol instances rooted on the server that is closed and messages in flight.

import (
	"fmt"
	"math/rand"
	"net"
	"os"
	"runtime"
	"strconv"
	"strings"
	"sync"
	"sync/atomic"
	"time"

	"go.dedis.ch/onet/v3"
	"go.dedis.ch/onet/v3/network"
	bbolt "go.etcd.io/bbolt"

	"verifharness/lib"
)

const protoName = "VerifC10"

// Ping goes from a child to the root instance on the server under test.
type Ping struct {
	Run int
	ID  int
}

// Go tells a child to send Count pings to its parent.
type Go struct {
	Run   int
	Count int
}

type srv struct {
	Servers    int   `json:"servers"`
	Runs       int   `json:"runs"`       // instances rooted on the target
	PerChild   int   `json:"per_child"`  // pings each child sends per run
	Closes     int   `json:"closes"`     // 1-3 calls of Server.Close
	Concurrent bool  `json:"concurrent"` // the further calls start together with the first
	Traffic    bool  `json:"traffic"`    // children keep sending while the target closes
	RaceSend   bool  `json:"race_send"`  // a root instance on the target sends to its children while closing
	Barrier    int   `json:"barrier"`    // > 1: that many Close() calls released together, forced to overlap when possible
	Script     []mac `json:"script"`     // finish j | timerfire j | timerrelease j | close | newinstance
}

type sproto struct {
	*onet.TreeNodeInstance
	run  int
	root bool
}

// global observation state of the running server case
var sobsState struct {
	sync.Mutex
	stamp      int64
	starts     []int64 // stamps of handler starts on the target's root instances
	dispatches []int64 // stamps of messages handed to the target's root instances
	target     network.ServerIdentityID
	processed  int64
}

// ctorGate, when set, holds the next protocol constructor: it signals entered and waits
// for release (a constructor that takes its time while the server is closed).
var ctorGate atomic.Value // *ctorHold

// self-test of the alternative schedule: the constructor is never held
var forceUnheld = strings.Contains(os.Getenv("VERIF_C10_FORCE"), "unheld")

type ctorHold struct {
	entered chan struct{}
	release chan struct{}
	used    int32
}

func newSProto(n *onet.TreeNodeInstance) (onet.ProtocolInstance, error) {
	// only the start the script makes is held: a root instance on the target (the constructors that
	// run on the other servers for traffic still arriving must not take the hold)
	if g, _ := ctorGate.Load().(*ctorHold); g != nil && !forceUnheld && n.IsRoot() && n.ServerIdentity().ID.Equal(sobsState.target) &&
		atomic.CompareAndSwapInt32(&g.used, 0, 1) {
		close(g.entered)
		<-g.release
	}
	p := &sproto{TreeNodeInstance: n, run: -1}
	if err := p.RegisterHandlers(p.handlePing, p.handleGo); err != nil {
		return nil, err
	}
	return p, nil
}

func (p *sproto) Start() error { return nil }

// ProcessProtocolMsg is called by the overlay inside the router's Dispatch: this is the
// moment a peer message is dispatched to the instance.
func (p *sproto) ProcessProtocolMsg(msg *onet.ProtocolMsg) {
	if _, ok := msg.Msg.(*Ping); ok && p.ServerIdentity().ID.Equal(sobsState.target) {
		s := atomic.AddInt64(&sobsState.stamp, 1)
		sobsState.Lock()
		sobsState.dispatches = append(sobsState.dispatches, s)
		sobsState.Unlock()
	}
	p.TreeNodeInstance.ProcessProtocolMsg(msg)
}

func (p *sproto) handlePing(m struct {
	*onet.TreeNode
	Ping
}) error {
	if p.ServerIdentity().ID.Equal(sobsState.target) {
		s := atomic.AddInt64(&sobsState.stamp, 1)
		sobsState.Lock()
		sobsState.starts = append(sobsState.starts, s)
		sobsState.Unlock()
		atomic.AddInt64(&sobsState.processed, 1)
	}
	return nil
}

func (p *sproto) handleGo(m struct {
	*onet.TreeNode
	Go
}) error {
	g := m.Go
	go func() {
		for j := 0; j < g.Count; j++ {
			if err := p.SendToParent(&Ping{Run: g.Run, ID: j}); err != nil {
				break
			}
			if g.Count > 50 {
				runtime.Gosched()
			}
		}
		p.Done()
	}()
	return nil
}

func registerProtocol() {
	if _, err := onet.GlobalProtocolRegister(protoName, newSProto); err != nil {
		panic(err)
	}
	network.RegisterMessages(&Ping{}, &Go{})
}

// onetGoroutines counts goroutines that execute onet code.
func onetGoroutines() int {
	buf := make([]byte, 1<<23)
	n := runtime.Stack(buf, true)
	cnt := 0
	for _, b := range strings.Split(string(buf[:n]), "\n\n") {
		if strings.Contains(b, "go.dedis.ch/onet/v3") {
			cnt++
		}
	}
	return cnt
}

type sobsJSON struct {
	Returned     bool     `json:"close_returned"`
	CloseErrs    []string `json:"close_results"`
	Instances    int      `json:"instances_left"`
	InstancesObs bool     `json:"instances_observable"`
	Late         int      `json:"dispatched_after_close"`
	LateHandlers int      `json:"handlers_started_after_close"`
	Panic        bool     `json:"panic"`
	OpsPending   int      `json:"ops_pending"`
	ConnsOpen    int      `json:"conns_open"`
	OwnOpenAtRet int      `json:"own_endpoints_open_when_close_returned"`
	OwnOpenEnd   int      `json:"own_endpoints_open_after_settling"`
	PeerConns    int      `json:"connections_peers_still_hold"`
	ConnsSeen    int      `json:"connections_of_the_target_seen"`
	Ops          []string `json:"ops"`
	Goroutines   int      `json:"goroutines_above_baseline"`
	Ports        bool     `json:"ports_rebound"`
	Db           bool     `json:"db_reopened"`
	Processed    int64    `json:"pings_processed"`
	Insts        []int    `json:"instances_by_tree"`
	Err          string   `json:"scenario_error,omitempty"`
}

// countStack counts the goroutines whose stack contains all the given substrings.
func countStack(subs ...string) int {
	buf := make([]byte, 1<<23)
	n := runtime.Stack(buf, true)
	cnt := 0
	for _, b := range strings.Split(string(buf[:n]), "\n\n") {
		ok := true
		for _, s := range subs {
			if !strings.Contains(b, s) {
				ok = false
			}
		}
		if ok {
			cnt++
		}
	}
	return cnt
}

// waitStack polls until more than before goroutines have all the substrings in their stack
// (goroutines stuck since an earlier case of this process must not count).
func waitStack(d time.Duration, before int, subs ...string) bool {
	deadline := time.Now().Add(d)
	for time.Now().Before(deadline) {
		if countStack(subs...) > before {
			return true
		}
		time.Sleep(2 * time.Millisecond)
	}
	if countStack(subs...) > before {
		return true
	}
	noteMiss("stack " + strings.Join(subs, " "))
	return false
}

func tryListen(addr string) bool {
	l, err := net.Listen("tcp", addr)
	if err != nil {
		return false
	}
	l.Close()
	return true
}

func runServer(in input) lib.Case {
	sv := in.Srv
	opDeadline = patience
	// wait is the bound of one wait for an operation of the code under test: generous (it is only
	// ever spent when the awaited event does not come at all), short once a wait of this case has
	// already expired
	wait := func() time.Duration { return opDeadline }
	baseline := onetGoroutines()
	sched := lib.NewSched()
	onet.SetVerifHook(sched.Hook)
	defer sched.ReleaseAll()
	var lt *onet.LocalTest
	if in.TCP {
		lt = onet.NewTCPTest(suite)
	} else {
		lt = onet.NewLocalTest(suite)
	}
	lt.Check = onet.CheckNone
	// overlapping Close() calls: hold the target's Start() goroutine after it has set IsStarted and
	// before it waits for the close signal (schedule point server.started, if the tree has it)
	var startGate *lib.Gate
	startHeld := false
	if sv.Barrier > 1 {
		startGate = sched.Block("server.started", 1, nil)
	}
	servers := lt.GenServers(sv.Servers)
	if startGate != nil {
		startHeld = startGate.WaitHit(wait())
		if !startHeld {
			noteMiss("server.started never reached")
			startGate.Release()
		}
	}
	roster := lt.GenRosterFromHost(servers...)
	tree := roster.GenerateStar()
	target := servers[0]
	sobsState.Lock()
	sobsState.starts = nil
	sobsState.dispatches = nil
	sobsState.target = target.ServerIdentity.ID
	sobsState.Unlock()
	atomic.StoreInt64(&sobsState.processed, 0)
	ov := target.VerifOverlay()
	// every connection the target's router dials or accepts passes one of its schedule points
	var tconnMu sync.Mutex
	var tconns []network.Conn
	network.SetVerifHook(func(point string, args ...interface{}) {
		if len(args) == 0 || args[0] != interface{}(target.Router) {
			return
		}
		var c network.Conn
		switch point {
		case "router.accepted":
			c, _ = args[1].(network.Conn)
		case "router.connected":
			c, _ = args[2].(network.Conn)
		}
		if c != nil {
			tconnMu.Lock()
			tconns = append(tconns, c)
			tconnMu.Unlock()
		}
	})
	defer network.SetVerifHook(func(string, ...interface{}) {})
	var o sobsJSON
	var panicked int32
	guard := func() {
		if p := recover(); p != nil {
			atomic.StoreInt32(&panicked, 1)
		}
	}

	hasTimer := false
	for _, m := range sv.Script {
		if m.Op == "timerfire" {
			hasTimer = true
		}
	}
	var timerGate *lib.Gate
	if hasTimer {
		ov.VerifSetTreeTimeout(time.Millisecond)
		timerGate = sched.Block("treestorage.timerFired", 1, nil)
	}

	// instances rooted on the target
	var roots []*sproto
	for k := 0; k < sv.Runs; k++ {
		pi, err := lt.CreateProtocol(protoName, tree)
		if err != nil {
			lt.CloseAll()
			return lib.Case{Discard: true}
		}
		p := pi.(*sproto)
		p.run = k
		p.root = true
		roots = append(roots, p)
		o.Insts = append(o.Insts, 0)
	}
	count := sv.PerChild
	if sv.Traffic {
		// in-memory connections buffer 2 x 200 messages and LocalManager.send blocks, holding the manager's
		// lock, when they are full (which happens once a connection is abandoned, finding F11): stay below
		count = 400
		if !in.TCP {
			count = 50
		}
	}
	expected := int64(0)
	for k, p := range roots {
		if err := p.SendToChildren(&Go{Run: k, Count: count}); err == nil {
			expected += int64(count * len(tree.Root.Children))
		}
	}
	if !sv.Traffic {
		// every ping delivered before the script starts
		deadline := time.Now().Add(wait())
		for atomic.LoadInt64(&sobsState.processed) < expected && time.Now().Before(deadline) {
			time.Sleep(time.Millisecond)
		}
	} else {
		deadline := time.Now().Add(wait())
		for atomic.LoadInt64(&sobsState.processed) < 5 && time.Now().Before(deadline) {
			time.Sleep(200 * time.Microsecond)
		}
	}

	dbFile := target.VerifDbFile()
	addrPort, _ := strconv.Atoi(target.ServerIdentity.Address.Port())
	host := target.ServerIdentity.Address.Host()

	type op struct {
		name string
		done chan struct{}
		res  string
	}
	var ops []*op
	startOp := func(name string, f func() string) *op {
		x := &op{name: name, done: make(chan struct{})}
		ops = append(ops, x)
		go func() {
			defer close(x.done)
			defer guard()
			x.res = f()
		}()
		return x
	}
	var closeRet int64
	var firstClose *op
	var ownOpen int32 = -1
	doClose := func() string {
		err := target.Close()
		s := atomic.AddInt64(&sobsState.stamp, 1)
		if atomic.CompareAndSwapInt64(&closeRet, 0, s) {
			// at the instant the first Close returns, before anything settles: every connection the
			// target has opened or accepted (seen at the router's schedule points) must be closed
			// (synchronous facts only: the endpoint objects' closed flags and the router's own tables.
			// An endpoint that is in neither table belongs to a set-up thread that has not yet reached
			// its first test of the closed flag - Stop cannot know it; it is counted after settling.)
			tconnMu.Lock()
			n := 0
			for _, c := range tconns {
				if closed, known := network.VerifConnClosed(c); known && !closed && routerKnows(target.Router, c) {
					n++
				}
			}
			tconnMu.Unlock()
			atomic.StoreInt32(&ownOpen, int32(n))
		}
		if err != nil {
			return "err"
		}
		return "ok"
	}
	var hold *ctorHold
	var heldStart *op
	ctorHeldSeen := false
	defer ctorGate.Store((*ctorHold)(nil))
	timerHeld := false
	closeTimedOut := false // the first Close already missed its deadline once
	var scenarioErr string
	for i, m := range sv.Script {
		switch m.Op {
		case "finish":
			if m.A < len(roots) {
				roots[m.A].Done()
				roots = append(roots[:m.A], roots[m.A+1:]...)
			}
		case "timerfire":
			if !timerGate.WaitHit(wait()) {
				noteMiss("removal timer never fired")
				scenarioErr = fmt.Sprintf("macro %d: removal timer never fired", i)
				timerGate.Release()
			} else {
				timerHeld = true
			}
		case "timerrelease":
			timerGate.Release()
			timerHeld = false
			if firstClose != nil {
				closeTimedOut = !waitCh(firstClose.done, wait())
			}
		case "close":
			if firstClose != nil {
				continue
			}
			if sv.RaceSend && len(roots) > 0 {
				r0 := roots[0]
				startOp("send-from-target", func() string {
					if err := r0.SendToChildren(&Go{Run: 99, Count: 1}); err != nil {
						return "err"
					}
					return "ok"
				})
			}
			if sv.Barrier > 1 {
				var flag int32
				inClose := countStack("onet/v3.(*Server).Close(")
				for k := 0; k < sv.Barrier; k++ {
					name := "close-again"
					if k == 0 {
						name = "close"
					}
					x := startOp(name, func() string {
						for atomic.LoadInt32(&flag) == 0 {
						}
						return doClose()
					})
					if k == 0 {
						firstClose = x
					}
				}
				time.Sleep(2 * time.Millisecond) // let the goroutines reach the barrier (not an oracle)
				atomic.StoreInt32(&flag, 1)
				if startHeld {
					// every call is inside Close() before Start() is allowed to pick up the signal
					waitStack(wait(), inClose+sv.Barrier-1, "onet/v3.(*Server).Close(")
					startGate.Release()
				}
				closeTimedOut = !waitCh(firstClose.done, wait())
				continue
			}
			inStore := countStack("(*treeStorage).Close", "sync.(*WaitGroup).Wait")
			firstClose = startOp("close", doClose)
			if sv.Concurrent {
				for k := 1; k < sv.Closes; k++ {
					startOp("close-again", doClose)
				}
			}
			if timerHeld {
				// the forced interleaving: Close must be inside treeStorage.Close, waiting for the timer
				// goroutine, before that goroutine is released
				if !waitStack(wait(), inStore, "(*treeStorage).Close", "sync.(*WaitGroup).Wait") {
					scenarioErr = fmt.Sprintf("macro %d: Close never reached the tree store", i)
				}
			} else {
				ok := waitCh(firstClose.done, wait())
				closeTimedOut = !ok
				if ok && !sv.Concurrent {
					for k := 1; k < sv.Closes; k++ {
						x := startOp("close-again", doClose)
						waitCh(x.done, wait())
					}
				}
			}
		case "startheld":
			// a protocol start whose constructor is still running when Close is called
			hold = &ctorHold{entered: make(chan struct{}), release: make(chan struct{})}
			ctorGate.Store(hold)
			heldStart = startOp("start-held", func() string {
				pi, err := ov.CreateProtocol(protoName, tree, onet.NilServiceID)
				if err != nil || pi == nil {
					return "err"
				}
				return "ok"
			})
			// The hold is established by an observed event: the constructor has been entered (so the
			// instance is registered and its reader runs) and has not returned. If instead the start
			// returns without ever being held, that is what happened: the case is then compared with
			// the model on the schedule "the start completed before Close" (class +unheld).
			select {
			case <-hold.entered:
				ctorHeldSeen = true
			case <-heldStart.done:
				select {
				case <-hold.entered:
					ctorHeldSeen = true // entered and (against the gate) returned: cannot happen
				default:
				}
			case <-time.After(wait()):
				noteMiss("constructor neither entered nor start returned")
				scenarioErr = fmt.Sprintf("macro %d: the constructor was never entered", i)
			}
		case "startrelease":
			if hold != nil {
				close(hold.release)
				waitCh(heldStart.done, wait())
			}
		case "newinstance":
			x := startOp("create-protocol", func() string {
				pi, err := ov.CreateProtocol(protoName, tree, onet.NilServiceID)
				if err != nil || pi == nil {
					return "err"
				}
				return "ok"
			})
			waitCh(x.done, wait())
		}
		// a step the implementation always takes on the unchanged tree that did not happen within its
		// deadline is an observation: the script goes on (class suffix +cut), nothing is discarded
	}
	short := 50 * time.Millisecond
	if firstClose != nil {
		d := wait()
		if closeTimedOut {
			d = short
		}
		o.Returned = waitCh(firstClose.done, d)
	}
	for _, x := range ops {
		d := wait()
		if x == firstClose || !o.Returned {
			// already waited for / blocked behind a Close that does not return
			d = short
		}
		if waitCh(x.done, d) {
			o.Ops = append(o.Ops, x.name+":"+x.res)
			if strings.HasPrefix(x.name, "close") {
				o.CloseErrs = append(o.CloseErrs, x.res)
			}
		} else {
			o.Ops = append(o.Ops, x.name+":pending")
			if x != firstClose {
				o.OpsPending++
			}
		}
	}
	// let handlers that were already running finish, then look for late starts
	time.Sleep(20 * time.Millisecond)
	ret := atomic.LoadInt64(&closeRet)
	sobsState.Lock()
	for _, s := range sobsState.dispatches {
		if ret != 0 && s > ret {
			o.Late++
		}
	}
	for _, s := range sobsState.starts {
		if ret != 0 && s > ret {
			o.LateHandlers++
		}
	}
	sobsState.Unlock()
	o.Processed = atomic.LoadInt64(&sobsState.processed)
	readInstances := func() bool {
		if n, ok := ov.VerifInstancesTry(); ok {
			o.Instances, o.InstancesObs = n, true
			return true
		}
		return false
	}
	if !readInstances() && o.Returned {
		// Close has returned: the table's lock is only ever held for a moment now
		pollUntil(readInstances)
	}
	// connections. At the instant Close returned: the target's own endpoints that its router knew
	// (sampled inside doClose, synchronous facts only). After settling - every consequence awaited
	// by its own event: the target's endpoints that are still open (an endpoint abandoned by a
	// refused set-up stays open for ever) and the connections the other servers still hold to it.
	tconnMu.Lock()
	o.ConnsSeen = len(tconns)
	tconnMu.Unlock()
	if o.Returned {
		o.OwnOpenAtRet = int(atomic.LoadInt32(&ownOpen))
		tid := target.ServerIdentity.GetID()
		pollUntil(func() bool {
			left := 0
			for _, sv2 := range servers[1:] {
				left += sv2.Router.VerifConnections()[tid]
			}
			o.PeerConns = left
			tconnMu.Lock()
			own := 0
			for _, c := range tconns {
				if closed, known := network.VerifConnClosed(c); known && !closed {
					own++
				}
			}
			tconnMu.Unlock()
			o.OwnOpenEnd = own
			if left+own > 0 {
				time.Sleep(time.Millisecond)
			}
			return left+own == 0
		})
		if o.OwnOpenAtRet > 0 {
			o.ConnsOpen += o.OwnOpenAtRet
		}
		o.ConnsOpen += o.PeerConns + o.OwnOpenEnd
	}
	o.Ports = true
	o.Db = true
	if o.Returned {
		if in.TCP {
			// (the in-memory clusters use fixed port numbers shared with every other LocalTest on
			// this machine, so re-binding says nothing there)
			o.Ports = tryListen(net.JoinHostPort(host, strconv.Itoa(addrPort))) &&
				tryListen(net.JoinHostPort(host, strconv.Itoa(addrPort+1)))
		}
		db, err := bbolt.Open(dbFile, 0600, &bbolt.Options{Timeout: 500 * time.Millisecond})
		if err != nil {
			o.Db = false
		} else {
			db.Close()
			os.Remove(dbFile)
		}
	}
	// close the rest of the cluster (never the target again: its Close may be stuck)
	delete(lt.Servers, target.ServerIdentity.ID)
	delete(lt.Overlays, target.ServerIdentity.ID)
	delete(lt.Services, target.ServerIdentity.ID)
	closed := make(chan struct{})
	go func() {
		defer close(closed)
		defer guard()
		lt.CloseAll()
	}()
	waitCh(closed, wait())
	sched.ReleaseAll()
	// goroutines end some time after what they wait for has been closed: awaited, not timed
	left := onetGoroutines() - baseline
	pollUntil(func() bool {
		left = onetGoroutines() - baseline
		if left > 0 {
			time.Sleep(5 * time.Millisecond)
		}
		return left <= 0
	})
	if left < 0 {
		left = 0
	}
	o.Goroutines = left
	if left > 0 && os.Getenv("VERIF_C10_DEBUG") != "" {
		buf := make([]byte, 1<<23)
		n := runtime.Stack(buf, true)
		for _, b := range strings.Split(string(buf[:n]), "\n\n") {
			if strings.Contains(b, "go.dedis.ch/onet/v3") {
				fmt.Fprintln(os.Stderr, "LEFT:", b)
			}
		}
	}
	o.Panic = atomic.LoadInt32(&panicked) == 1
	o.Err = scenarioErr
	if firstClose == nil {
		panic("server script without close")
	}
	ms := make([]string, 0, len(sv.Script))
	for _, m := range sv.Script {
		switch m.Op {
		case "finish":
			ms = append(ms, fmt.Sprintf("SFinish %d", m.A))
		case "timerfire":
			ms = append(ms, fmt.Sprintf("STimerFire %d", m.A))
		case "timerrelease":
			ms = append(ms, fmt.Sprintf("STimerRelease %d", m.A))
		case "close":
			ms = append(ms, "SClose")
		case "newinstance":
			ms = append(ms, fmt.Sprintf("SNewInstance %d", m.A))
		}
	}
	sobs := fmt.Sprintf("(mkSobs %s %d %d %s %d %d %d %s %s)", lib.Bool(o.Returned), o.Instances, o.Late, lib.Bool(o.Panic),
		o.OpsPending, o.ConnsOpen, o.Goroutines, lib.Bool(o.Ports), lib.Bool(o.Db))
	coq := fmt.Sprintf("ServerClose %s %s %s", lib.NatList(o.Insts), lib.List(ms), sobs)
	if heldStart != nil {
		// validated against Net/StartClose.v
		coq = fmt.Sprintf("CtorHeld %s %s %s", lib.Bool(ctorHeldSeen), lib.Bool(heldStart.res == "ok"), sobs)
	}
	if sv.Barrier > 1 {
		// the overlapping calls are validated against the k-caller model (Net/CloseConc.v)
		oks, errs, pending := 0, 0, 0
		for _, x := range ops {
			if !strings.HasPrefix(x.name, "close") {
				continue
			}
			select {
			case <-x.done:
				if x.res == "ok" {
					oks++
				} else {
					errs++
				}
			default:
				pending++
			}
		}
		coq = fmt.Sprintf("ServerCloseRace %d %d %d %d %d %s", sv.Barrier, len(o.Insts), oks, errs, pending, sobs)
	}
	class := serverClass(in)
	if heldStart != nil && !ctorHeldSeen {
		class += "+unheld"
	}
	if scenarioErr != "" {
		class += "+cut"
	}
	return lib.Case{Coq: coq, Class: class, Obs: o, Nontrivial: sv.Runs > 0 || sv.Barrier > 1,
		Key: fmt.Sprint(in.TCP, *sv)}
}

func serverClass(in input) string {
	tr := "local"
	if in.TCP {
		tr = "tcp"
	}
	tags := []string{}
	closed := false
	timer := false
	for _, m := range in.Srv.Script {
		switch m.Op {
		case "timerfire":
			timer = true
		case "close":
			if timer {
				tags = append(tags, "timerheld")
			}
			closed = true
		case "timerrelease":
			timer = false
		case "newinstance":
			if closed {
				tags = append(tags, "startafter")
			}
		case "startheld":
			tags = append(tags, "ctorheld")
		}
	}
	if in.Srv.Barrier > 1 {
		tags = append(tags, "closerace")
	}
	if len(tags) == 0 {
		return "server-" + tr + "-clean"
	}
	return "server-" + tr + "-" + strings.Join(tags, "+")
}

func sv(tcp bool, s srv) input { return input{Kind: "server", TCP: tcp, Srv: &s} }

func serverCorpus() []interface{} {
	var out []interface{}
	for _, tcp := range []bool{false, true} {
		// hang_witness of CloseSeqProofs: the only instance finishes, its removal timer fires and is held
		// before it takes the store's lock, Server.Close runs, the timer goroutine is released
		out = append(out, sv(tcp, srv{Servers: 3, Runs: 1, PerChild: 2, Closes: 1,
			Script: []mac{m1("finish", 0), m1("timerfire", 0), m0("close"), m1("timerrelease", 0)}}))
		// instance_after_close_refuted: a protocol start after the close
		out = append(out, sv(tcp, srv{Servers: 3, Runs: 1, PerChild: 2, Closes: 1,
			Script: []mac{m0("close"), m1("newinstance", 1)}}))
		// a protocol start whose constructor is running when Close is called
		out = append(out, sv(tcp, srv{Servers: 3, Runs: 1, PerChild: 2, Closes: 1,
			Script: []mac{m0("startheld"), m0("close"), m0("startrelease")}}))
		out = append(out, sv(tcp, srv{Servers: 1, Runs: 0, Closes: 1,
			Script: []mac{m0("startheld"), m0("close"), m0("startrelease")}}))
		// overlapping Close() calls
		out = append(out, sv(tcp, srv{Servers: 1, Runs: 0, Closes: 1, Barrier: 2, Script: []mac{m0("close")}}))
		out = append(out, sv(tcp, srv{Servers: 3, Runs: 1, PerChild: 2, Closes: 1, Barrier: 4, Script: []mac{m0("close")}}))
		// clean: running instances, traffic in flight, three closes
		out = append(out, sv(tcp, srv{Servers: 3, Runs: 2, PerChild: 3, Closes: 3, Traffic: true, RaceSend: true,
			Script: []mac{m0("close")}}))
	}
	return out
}

// genCloseRace: 2-4 Close() calls on one running server, released together (and forced to
// overlap through the schedule point server.started when the tree has it).
func genCloseRace(rng *rand.Rand, tcp bool, i int) input {
	s := srv{Servers: 1, Runs: 0, Closes: 1, Barrier: 2 + rng.Intn(3), Script: []mac{m0("close")}}
	if i%4 >= 2 {
		s.Servers, s.Runs, s.PerChild = 3, 1, 1+rng.Intn(3)
	}
	return input{Kind: "server", TCP: tcp, Srv: &s}
}

func genServer(rng *rand.Rand, tcp bool) input {
	s := srv{Servers: 3 + rng.Intn(2), Runs: 1 + rng.Intn(3), PerChild: 1 + rng.Intn(4), Closes: 1 + rng.Intn(3),
		Concurrent: rng.Intn(2) == 0, Traffic: rng.Intn(2) == 0, RaceSend: rng.Intn(2) == 0}
	live := s.Runs
	for live > 0 && rng.Intn(3) == 0 {
		s.Script = append(s.Script, m1("finish", rng.Intn(live)))
		live--
	}
	if rng.Intn(4) == 0 {
		s.Concurrent = false
		s.Script = append(s.Script, m0("startheld"), m0("close"), m0("startrelease"))
		return input{Kind: "server", TCP: tcp, Srv: &s}
	}
	if live == 0 && rng.Intn(2) == 0 {
		s.Script = append(s.Script, m1("timerfire", 0), m0("close"), m1("timerrelease", 0))
	} else {
		s.Script = append(s.Script, m0("close"))
	}
	if rng.Intn(4) == 0 {
		s.Script = append(s.Script, m1("newinstance", 1))
	}
	return input{Kind: "server", TCP: tcp, Srv: &s}
}
