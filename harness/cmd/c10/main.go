// C10 harness: closing a server is clean and safe under concurrent traffic.
//
// Three families of cases (see Corr/C10.v):
//
//	script  one network.Router on TCP or the in-memory transport, harness-owned peers,
//	        one interleaving of Router.Stop with sends / inbound connections / deliveries
//	        forced through the verif schedule points; the same script is run by the Coq
//	        transition system and the observables are compared
//	race    the same operations started together without any hold
//	server  full onet servers (LocalTest on both transports) with running protocol
//	        instances and messages in flight; Server.Close called 1-3 times, racing with
//	        sends, protocol starts and the tree store's removal timer
package main

import (
	"encoding/json"
	"fmt"
	"math/rand"
	"os"
	"sort"
	"strings"
	"time"

	"go.dedis.ch/kyber/v3/suites"
	"go.dedis.ch/onet/v3"
	"go.dedis.ch/onet/v3/log"
	"go.dedis.ch/onet/v3/network"

	"verifharness/lib"
)

var suite = suites.MustFind("Ed25519")

type input struct {
	Kind      string     `json:"kind"` // script | race | server
	TCP       bool       `json:"tcp"`
	Script    []mac      `json:"script,omitempty"`
	Race      *race      `json:"race,omitempty"`
	Srv       *srv       `json:"server,omitempty"`
	Blocked   *blocked   `json:"blocked,omitempty"`
	Backlog   *backlog   `json:"backlog,omitempty"`
	Unstarted *unstarted `json:"unstarted,omitempty"`
}

// scriptClass derives the class from the script alone (never from the outcome): it
// follows which peers have an established connection, exactly as the generator does.
func scriptClass(in input) string {
	tags := map[string]bool{}
	closedSet := false
	heldSend := map[int]bool{}
	nsend := 0
	var connPeer []int           // peer of every connection, in creation order
	established := map[int]int{} // peer -> connection index
	for _, m := range in.Script {
		switch m.Op {
		case "send", "sendhold", "sendholdreg":
			_, have := established[m.A]
			if !have {
				if closedSet {
					tags["sendafter"] = true
				} else if m.Op == "sendhold" {
					heldSend[nsend] = true
				} else if m.Op == "sendholdreg" {
					// registered, launch pending: Stop closes it
				} else {
					established[m.A] = len(connPeer)
				}
				connPeer = append(connPeer, m.A)
			}
			nsend++
		case "senddead":
			nsend++
		case "sendrelease":
			if heldSend[m.A] && closedSet {
				tags["f11out"] = true
			}
			delete(heldSend, m.A)
		case "incoming":
			if !closedSet {
				if _, have := established[m.A]; !have {
					established[m.A] = len(connPeer)
				}
				connPeer = append(connPeer, m.A)
			}
		case "incominghold", "incomingholdacc":
			if !closedSet {
				connPeer = append(connPeer, m.A)
			}
		case "incomingsilent":
			if !closedSet {
				tags["silent"] = true
				connPeer = append(connPeer, m.A)
			}
		case "incomingrelease":
			if closedSet {
				tags["f11in"] = true
			}
		case "peerclose":
			for p, c := range established {
				if c == m.A {
					delete(established, p)
				}
			}
		case "stop", "stophold":
			closedSet = true
			established = map[int]int{}
		}
	}
	var ts []string
	for t := range tags {
		ts = append(ts, t)
	}
	sort.Strings(ts)
	tr := "local"
	if in.TCP {
		tr = "tcp"
	}
	if len(ts) == 0 {
		return "script-" + tr + "-clean"
	}
	return "script-" + tr + "-" + strings.Join(ts, "+")
}

func run(raw json.RawMessage) lib.Case {
	var in input
	if err := json.Unmarshal(raw, &in); err != nil {
		panic(err)
	}
	if os.Getenv("VERIF_C10_DEBUG") != "" {
		t0 := time.Now()
		defer func() {
			fmt.Fprintf(os.Stderr, "TIME %s %v %s\n", in.Kind, time.Since(t0), string(raw)[:min(len(raw), 160)])
		}()
	}
	switch in.Kind {
	case "script":
		return runScript(in)
	case "race":
		return runRace(in)
	case "server":
		return runServer(in)
	case "blocked":
		return runBlocked(in)
	case "backlog":
		return runBacklog(in)
	case "unstarted":
		return runUnstarted(in)
	}
	panic("unknown kind " + in.Kind)
}

func sc(tcp bool, ms ...mac) input { return input{Kind: "script", TCP: tcp, Script: ms} }
func m0(op string) mac             { return mac{Op: op} }
func m1(op string, a int) mac      { return mac{Op: op, A: a} }
func m2(op string, a, b int) mac   { return mac{Op: op, A: a, B: b} }

// corpus: the refutation witnesses of RouterCloseProofs / CloseSeqProofs and regression scripts.
func corpus() []interface{} {
	var out []interface{}
	for _, tcp := range []bool{true, false} {
		// F11 outgoing: Stop between host.Connect and registerConnection (witness_out)
		out = append(out, sc(tcp, m1("sendhold", 0), m0("stop"), m1("sendrelease", 0)))
		// F11 incoming: Stop between receiveServerIdentity and registerConnection (witness_in)
		out = append(out, sc(tcp, m1("incominghold", 0), m0("stop"), m1("incomingrelease", 0)))
		// a Send issued after Stop returned (witness_after)
		out = append(out, sc(tcp, m0("stop"), m1("send", 0)))
		// clean: established connections both ways, a delivery, Stop, Stop again
		out = append(out, sc(tcp, m1("send", 0), m1("incoming", 1), m2("deliver", 0, 7), m2("deliver", 1, 8), m0("stop"), m0("stop")))
		// in-flight delivery: Stop waits for the dispatch in progress
		out = append(out, sc(tcp, m1("incoming", 0), m2("deliverhold", 0, 5), m0("stop"), m1("deliverrelease", 0), m0("stop")))
		// Stop held after the closed flag is set; a racing first-contact send; second Stop
		out = append(out, sc(tcp, m1("send", 0), m0("stophold"), m1("send", 1), m1("stoprelease", 0), m0("stop")))
		// an inbound connection that never identifies itself survives Stop
		out = append(out, sc(tcp, m1("incomingsilent", 0), m0("stop")))
		out = append(out, sc(tcp, m1("incomingsilent", 0), m0("stop"), m1("silentclose", 0)))
		// peer closes first, then a new send re-connects, then stop
		out = append(out, sc(tcp, m1("send", 0), m1("peerclose", 0), m1("send", 0), m0("stop")))
	}
	for _, tcp := range []bool{true, false} {
		// simultaneous open from both sides (two connections to one peer); the OLDER one ends before Stop
		out = append(out, sc(tcp, m1("send", 0), m1("incoming", 0), m1("peerclose", 0), m0("stop")))
		out = append(out, sc(tcp, m1("incoming", 0), m1("send", 0), m1("incoming", 0), m1("peerclose", 0), m1("send", 0), m0("stop"), m0("stop")))
		// three connections, the middle one ends, then the first
		out = append(out, sc(tcp, m1("incoming", 0), m1("incoming", 0), m1("incoming", 0), m1("peerclose", 1), m1("peerclose", 0), m2("deliver", 2, 9), m0("stop")))
		// a second connection from a retried Send: the first connection is dead but still registered
		// (its handler is inside Dispatch), the Send fails on it and re-connects; then the handler ends
		out = append(out, sc(tcp, m1("incoming", 0), m2("deliverhold", 0, 5), m1("peerclose", 0), m1("send", 0), m1("deliverrelease", 0), m0("stop")))
		// two dialled connections to one peer: the first Send is held at router.connected while a second one connects
		out = append(out, sc(tcp, m1("sendhold", 0), m1("send", 0), m1("sendrelease", 0), m1("peerclose", 1), m0("stop")))
		// a connection arriving exactly during Stop: accepted, its callback starts after the closed flag is set
		out = append(out, sc(tcp, m1("incomingholdacc", 0), m0("stop"), m1("incomingrelease", 0)))
		out = append(out, sc(tcp, m1("incoming", 0), m1("incomingholdacc", 0), m0("stophold"), m1("incomingrelease", 1), m1("stoprelease", 0), m0("stop")))
		// ... and one that is released before the stop
		out = append(out, sc(tcp, m1("incomingholdacc", 0), m1("incomingrelease", 0), m2("deliver", 0, 7), m0("stop")))
		// Stop between registerConnection and launchHandleRoutine
		out = append(out, sc(tcp, m1("sendholdreg", 0), m0("stop"), m1("sendrelease", 0)))
		out = append(out, sc(tcp, m1("incoming", 0), m1("sendholdreg", 1), m0("stophold"), m1("sendrelease", 0), m1("stoprelease", 0), m0("stop")))
	}
	// a Send blocked in the socket write when Stop is called
	out = append(out, input{Kind: "blocked", TCP: true, Blocked: &blocked{Size: 512, Stops: 1}})
	out = append(out, input{Kind: "blocked", TCP: true, Blocked: &blocked{Size: 1024, Stops: 2}})
	out = append(out, serverCorpus()...)
	// Stop while an in-memory peer does not read its backlog (forwarder parked on its full queue)
	out = append(out, input{Kind: "backlog", Backlog: &backlog{Msgs: 260, Stops: 1}})
	out = append(out, input{Kind: "backlog", Backlog: &backlog{Msgs: 330, Stops: 2}})
	out = append(out, input{Kind: "backlog", Backlog: &backlog{Msgs: 40, Stops: 1}})
	// Stop repeatedly on a router never started / whose Start is overtaken by the first Stop (TCP, TLS)
	for _, tls := range []bool{false, true} {
		out = append(out, input{Kind: "unstarted", TCP: true, Unstarted: &unstarted{Stops: 2, TLS: tls}})
		out = append(out, input{Kind: "unstarted", TCP: true, Unstarted: &unstarted{Stops: 3, TLS: tls}})
		out = append(out, input{Kind: "unstarted", TCP: true, Unstarted: &unstarted{Stops: 3, Race: true, TLS: tls}})
	}
	// a started router stopped three times
	out = append(out, sc(true, m1("send", 0), m0("stop"), m0("stop"), m0("stop")))
	return out
}

func generate(rng *rand.Rand, tier string) []interface{} {
	nscript, nrace, nserver := 56, 12, 8
	nmulti, ncloserace := 24, 16
	if tier != "quick" {
		nscript, nrace, nserver = 600, 120, 60
		nmulti, ncloserace = 300, 120
	}
	var out []interface{}
	for i := 0; i < nscript; i++ {
		out = append(out, genScript(rng, i%2 == 0))
	}
	for i := 0; i < nmulti; i++ {
		out = append(out, genMulti(rng, i%2 == 0))
	}
	for i := 0; i < nrace; i++ {
		out = append(out, genRace(rng, i%2 == 0))
	}
	nblocked := 2
	if tier != "quick" {
		nblocked = 20
	}
	for i := 0; i < nblocked; i++ {
		out = append(out, genBlocked(rng))
	}
	for i := 0; i < ncloserace; i++ {
		out = append(out, genCloseRace(rng, i%2 == 0, i))
	}
	for i := 0; i < nserver; i++ {
		out = append(out, genServer(rng, i%3 == 0))
	}
	// (last, so that the inputs generated above stay the same for a given seed)
	nbacklog := 2
	if tier != "quick" {
		nbacklog = 16
	}
	for i := 0; i < nbacklog; i++ {
		out = append(out, genBacklog(rng))
	}
	for i := 0; i < nbacklog; i++ {
		out = append(out, genUnstarted(rng))
	}
	return out
}

// genScript builds a random, well-formed script: a prefix that establishes connections
// and delivers messages, then Stop (1-3 calls, possibly held) interleaved with racing
// operations and the releases of what is held.
func genScript(rng *rand.Rand, tcp bool) input {
	npeers := 1 + rng.Intn(3)
	var ms []mac
	nsend, nstop, nconn := 0, 0, 0
	type cinfo struct {
		established bool // registered with a running handler
		peer        int
		heldDisp    bool
		peerClosed  bool
	}
	var conns []cinfo
	// Router.Send uses the first connection to the peer that is in the table (r.connection(id));
	// it dials - and only then can it be held at router.connected - when there is none. A peer may
	// have several connections (repeated incoming): closing one leaves the others usable.
	usable := func(p int) bool {
		for _, c := range conns {
			if c.peer == p && c.established && !c.peerClosed {
				return true
			}
		}
		return false
	}
	closedSet := false
	listening := true
	heldSends := []int{}
	heldIns := []int{}
	heldStops := []int{}
	silents := []int{}
	msg := 10
	anyHeldDisp := func() bool {
		for _, c := range conns {
			if c.heldDisp {
				return true
			}
		}
		return false
	}
	addSend := func(hold bool) {
		p := rng.Intn(npeers)
		have := usable(p)
		if hold && !have {
			ms = append(ms, m1("sendhold", p))
			heldSends = append(heldSends, nsend)
			conns = append(conns, cinfo{peer: p})
			nconn++
		} else {
			ms = append(ms, m1("send", p))
			if !have {
				conns = append(conns, cinfo{established: !closedSet, peer: p})
				nconn++
			}
		}
		nsend++
	}
	addIncoming := func(mode int) {
		if !listening {
			return
		}
		p := rng.Intn(npeers)
		switch mode {
		case 0:
			ms = append(ms, m1("incoming", p))
			conns = append(conns, cinfo{established: !closedSet, peer: p})
		case 1:
			ms = append(ms, m1("incominghold", p))
			heldIns = append(heldIns, nconn)
			conns = append(conns, cinfo{peer: p})
		case 2:
			ms = append(ms, m1("incomingsilent", p))
			silents = append(silents, nconn)
			conns = append(conns, cinfo{peer: -1})
		case 3:
			ms = append(ms, m1("incomingholdacc", p))
			heldIns = append(heldIns, nconn)
			conns = append(conns, cinfo{peer: p})
		}
		nconn++
	}
	addDeliver := func(hold bool) {
		var cand []int
		for i, c := range conns {
			if c.established && !c.heldDisp && !c.peerClosed {
				cand = append(cand, i)
			}
		}
		if len(cand) == 0 || closedSet {
			return
		}
		c := cand[rng.Intn(len(cand))]
		msg++
		if hold {
			ms = append(ms, m2("deliverhold", c, msg))
			conns[c].heldDisp = true
		} else {
			ms = append(ms, m2("deliver", c, msg))
		}
	}
	// prefix
	for i, n := 0, rng.Intn(4); i < n; i++ {
		switch rng.Intn(3) {
		case 0:
			addSend(false)
		case 1:
			addIncoming(0)
		case 2:
			addDeliver(false)
		}
	}
	// things set up before the stop and held across it
	for i, n := 0, rng.Intn(3); i < n; i++ {
		switch rng.Intn(5) {
		case 0:
			addSend(true)
		case 1:
			addIncoming(1 + 2*rng.Intn(2))
		case 2:
			addDeliver(true)
		case 3:
			if rng.Intn(3) == 0 {
				addIncoming(2)
			}
		case 4:
			// the peer closes an established connection
			for i, c := range conns {
				if c.established && !c.peerClosed && !c.heldDisp && rng.Intn(2) == 0 {
					ms = append(ms, m1("peerclose", i))
					conns[i].peerClosed = true
					conns[i].established = false
					break
				}
			}
		}
	}
	// the close, 1-3 calls, with racing operations in between
	total := 1 + rng.Intn(3)
	for nstop < total {
		if rng.Intn(3) == 0 {
			ms = append(ms, m0("stophold"))
			heldStops = append(heldStops, nstop)
		} else {
			ms = append(ms, m0("stop"))
		}
		nstop++
		closedSet = true
		listening = false
		for i := range conns {
			conns[i].established = false
		}
		// racing operations after the closed flag is set
		for i, n := 0, rng.Intn(3); i < n; i++ {
			switch rng.Intn(6) {
			case 0:
				addSend(false)
			case 1:
				if len(heldSends) > 0 {
					t := heldSends[0]
					heldSends = heldSends[1:]
					ms = append(ms, m1("sendrelease", t))
				}
			case 2:
				if len(heldIns) > 0 {
					c := heldIns[0]
					heldIns = heldIns[1:]
					ms = append(ms, m1("incomingrelease", c))
				}
			case 3:
				if anyHeldDisp() {
					for i, c := range conns {
						if c.heldDisp {
							ms = append(ms, m1("deliverrelease", i))
							conns[i].heldDisp = false
							break
						}
					}
				}
			case 4:
				if len(heldStops) > 0 {
					t := heldStops[0]
					heldStops = heldStops[1:]
					ms = append(ms, m1("stoprelease", t))
				}
			case 5:
				if tcp {
					ms = append(ms, m1("senddead", 0))
					nsend++
				} else if rng.Intn(2) == 0 {
					// an inbound attempt after the listener stopped: refused on both sides
					ms = append(ms, m1("incoming", rng.Intn(npeers)))
				}
			}
		}
	}
	// release whatever is still held, in random order of kinds
	for len(heldSends)+len(heldIns)+len(heldStops) > 0 || anyHeldDisp() {
		switch rng.Intn(4) {
		case 0:
			if len(heldSends) > 0 {
				ms = append(ms, m1("sendrelease", heldSends[0]))
				heldSends = heldSends[1:]
			}
		case 1:
			if len(heldIns) > 0 {
				ms = append(ms, m1("incomingrelease", heldIns[0]))
				heldIns = heldIns[1:]
			}
		case 2:
			if len(heldStops) > 0 {
				ms = append(ms, m1("stoprelease", heldStops[0]))
				heldStops = heldStops[1:]
			}
		case 3:
			for i, c := range conns {
				if c.heldDisp {
					ms = append(ms, m1("deliverrelease", i))
					conns[i].heldDisp = false
					break
				}
			}
		}
	}
	if len(silents) > 0 && rng.Intn(2) == 0 {
		ms = append(ms, m1("silentclose", silents[0]))
	}
	if rng.Intn(4) == 0 {
		ms = append(ms, m0("stop"))
	}
	return input{Kind: "script", TCP: tcp, Script: ms}
}

// genMulti: two or three simultaneous connections to ONE peer (simultaneous open from both
// sides, a second dial while the first Send is held, a retried Send), some of which end
// before Stop - so that which connection leaves the table matters - then 1-2 Stop calls.
func genMulti(rng *rand.Rand, tcp bool) input {
	var ms []mac
	nconn, nsend := 0, 0
	type ci struct{ alive, held bool }
	var conns []ci
	haveOut := false // an established connection exists (a plain send would reuse it)
	zeroFirst := true
	msg := 40
	add := func() {
		switch k := rng.Intn(4); {
		case k == 0 && !haveOut:
			ms = append(ms, m1("send", 0))
			nsend++
			haveOut = true
			conns = append(conns, ci{alive: true})
			nconn++
		case k == 1 && !haveOut:
			if len(conns) == 0 {
				zeroFirst = false // the second dial registers first: connection 0 is not the first of the table
			}
			// second dial while the first is held before registration
			ms = append(ms, m1("sendhold", 0), m1("send", 0), m1("sendrelease", nsend))
			nsend += 2
			haveOut = true
			conns = append(conns, ci{alive: true}, ci{alive: true})
			nconn += 2
		case k == 2 && !haveOut:
			ms = append(ms, m1("sendholdreg", 0), m1("incoming", 0), m1("sendrelease", nsend))
			nsend++
			haveOut = true
			conns = append(conns, ci{alive: true}, ci{alive: true})
			nconn += 2
		default:
			ms = append(ms, m1("incoming", 0))
			haveOut = true
			conns = append(conns, ci{alive: true})
			nconn++
		}
	}
	for len(conns) < 2+rng.Intn(2) {
		add()
	}
	if zeroFirst && rng.Intn(3) == 0 {
		// retried send: kill the first registered connection while its handler is busy
		msg++
		ms = append(ms, m2("deliverhold", 0, msg), m1("peerclose", 0), m1("send", 0), m1("deliverrelease", 0))
		nsend++
		conns[0].alive = false
		conns = append(conns, ci{alive: true}) // the Send fails on the dead connection (when it is the first registered one) and re-connects
		nconn++
	}
	// some connections end before the stop; the oldest one most of the time
	ends := 1 + rng.Intn(2)
	for i := 0; i < ends; i++ {
		var cand []int
		for j, c := range conns {
			if c.alive {
				cand = append(cand, j)
			}
		}
		if len(cand) <= 1 {
			break
		}
		j := cand[0]
		if rng.Intn(3) == 0 {
			j = cand[rng.Intn(len(cand)-1)]
		}
		ms = append(ms, m1("peerclose", j))
		conns[j].alive = false
		if rng.Intn(2) == 0 {
			for k, c := range conns {
				if c.alive {
					msg++
					ms = append(ms, m2("deliver", k, msg))
					break
				}
			}
		}
	}
	if rng.Intn(2) == 0 {
		ms = append(ms, m1("send", 0))
	}
	ms = append(ms, m0("stop"))
	if rng.Intn(2) == 0 {
		ms = append(ms, m0("stop"))
	}
	return input{Kind: "script", TCP: tcp, Script: ms}
}

func main() {
	log.SetDebugVisible(0)
	log.OutputToBuf()
	msgType = network.RegisterMessage(&Msg{})
	network.RegisterMessage(&Blob{})
	registerProtocol()
	lib.Main(lib.Harness{
		Prop:   "C10",
		Import: "Onet.Corr.C10",
		Rule: "scripts: one real Router (TCP / in-memory) with harness-owned peers; 0-3 established connections and deliveries, " +
			"then 1-3 Stop calls (possibly held at router.closedSet) interleaved with first-contact sends held at router.connected, " +
			"inbound connections held at router.identityReceived or silent, deliveries blocked inside the processor, peer closes, sends to " +
			"dead peers, and the releases in random order; multi: 2-3 simultaneous connections to ONE peer (simultaneous open, second dial while the first Send is held at router.connected / router.registered, retried Send) of which some end before Stop; races: the same operations started together without holds; servers: LocalTest " +
			"clusters (3-4 servers, both transports) with 1-3 running instances rooted on the closed server and messages in flight, " +
			"Server.Close called 1-3 times (sequentially or concurrently), racing with sends from its instances, protocol starts after " +
			"the close and the tree store's removal timer held at treestorage.timerFired; closerace: 2-4 Close() calls released together on one server; non-trivial = at least one connection / " +
			"instance existed; distinct = distinct script",
		Shard:    12,
		Generate: generate,
		Run:      run,
		Corpus:   corpus,
	})
}

var _ = onet.CheckNone

func min(a, b int) int {
	if a < b {
		return a
	}
	return b
}
