// Running one case against the real implementation: either the real
// peer-certificate verifier called directly (level "unit") or a real TLS
// handshake between an honest onet router and a deviating peer built on
// crypto/tls (level "tls").
package main

import (
	"bytes"
	"crypto/tls"
	"crypto/x509"
	"encoding/binary"
	"encoding/json"
	"errors"
	"fmt"
	"io"
	"net"
	"os"
	"os/exec"
	"strings"
	"sync"
	"time"

	"go.dedis.ch/onet/v3/network"

	"verifharness/lib"
)

type identSpec struct {
	Kind string `json:"kind"` // match (declares the key named by the certificate's CN) | other | wrongtype | badkey | nokey
	Key  int    `json:"key"`
}

type input struct {
	Level    string    `json:"level"`    // unit | tls
	Suite    string    `json:"suite"`    // Ed25519 | bn256.g2
	Role     string    `json:"role"`     // dial: the honest node dials the deviating server; accept: the deviating client dials the honest listener
	Expected int       `json:"expected"` // dial: the key the honest node intends to reach
	Holds    []int     `json:"holds"`    // server keys whose private key the deviating peer holds
	Chain    []rawSpec `json:"chain"`
	HSKey    int       `json:"hskey"`  // TLS key the peer signs the handshake with
	TLSVer   string    `json:"tlsver"` // 1.2 | 1.3
	Ident    identSpec `json:"ident"`
	Msgs     int       `json:"msgs"`
	// Reident = k+1 > 0: after the first application message the peer sends a
	// (second) identity message naming key k, then goes on; 0 = it does not
	Reident int `json:"reident"`
	// UnauthOk is the honest router's UnauthOk field (set by onet's simulation and
	// local test servers; documented as silencing a log message only). The model
	// does not depend on it.
	UnauthOk bool `json:"unauthok,omitempty"`
	// Resume (accept role, tls): the deviating client first completes an HONEST
	// handshake with its own key A (and is served), keeps the TLS session in a
	// ClientSessionCache, and then reconnects offering that session: "same" = to
	// the same router, "restart" = to a new incarnation of the router (same key).
	// Chain is what it presents if the listener insists on a full handshake.
	Resume string `json:"resume,omitempty"`
	// Other (level conc): the key of the second, overlapping dial of the honest host;
	// the deviating peer holds it and answers that dial honestly
	Other int `json:"other,omitempty"`
	// Prior (accept role, tls): honest servers (only key 1 exists as a running
	// server) that connect genuinely to the router and are served BEFORE the
	// connection under observation; PriorStays: they are still connected then
	Prior      []int  `json:"prior,omitempty"`
	PriorStays bool   `json:"prior_stays,omitempty"`
	Class      string `json:"class"`
}

// C08Msg is the application message the peers exchange.
type C08Msg struct {
	Tag int
}

var c08MsgType = network.RegisterMessage(&C08Msg{})

type obs struct {
	Handshake  bool   `json:"handshake_accepted"`
	Dispatched int    `json:"dispatched"`
	Stamped    []int  `json:"stamped_keys"`
	Crash      string `json:"crash,omitempty"`
	Reason     string `json:"reason,omitempty"`
	Attempts   int    `json:"dial_attempts,omitempty"`
	NonceReuse bool   `json:"same_nonce_on_every_attempt,omitempty"`
	Discard    string `json:"discard,omitempty"`
	// HonestProof: the honest side's own certificate as seen by the deviating peer:
	// "ok" | "bad: ..." | "" (the handshake did not get that far)
	HonestProof string `json:"honest_side_proof,omitempty"`
	// Resumed: the connection under observation was a TLS session resumption
	// (tls.ConnectionState.DidResume): no certificate, no proof over the new nonce
	Resumed bool `json:"resumed,omitempty"`
	// OtherUp (level conc): the honest host's second, honestly answered dial came up
	OtherUp bool `json:"other_link_up,omitempty"`
	absCtx
}

func coqSuite(s string) string {
	if s == "Ed25519" {
		return "Ed25519"
	}
	return "Bn256G2"
}

func coqCase(in *input, o *obs) string {
	if in.Level == "conc" {
		return fmt.Sprintf("CaseConc %s %s %d %d (Hello %s %d) %d (Obs %s %d %s %s %s %s) %s", coqSuite(in.Suite),
			lib.NatList(in.Holds), in.Expected, in.Other, coqChain(in.Chain, o.absCtx), in.HSKey, in.Msgs,
			lib.Bool(o.Handshake), o.Dispatched, lib.NatList(o.Stamped), lib.Bool(o.Crash != ""),
			lib.Bool(!strings.HasPrefix(o.HonestProof, "bad")), lib.Bool(o.Resumed), lib.Bool(o.OtherUp))
	}
	role := "RAccept"
	if in.Role == "dial" {
		role = fmt.Sprintf("(RDial %d)", in.Expected)
	}
	lvl := "LUnit"
	if in.Level == "tls" {
		lvl = "LTls"
	}
	ident := "IdWrongType"
	switch in.Ident.Kind {
	case "nokey":
		ident = "IdNoKey"
	case "badkey":
		ident = "IdBadKey"
	case "match":
		ident = "IdMatch"
	case "other":
		ident = fmt.Sprintf("(IdKey %d)", in.Ident.Key)
	}
	ticket := "None"
	if in.Resume != "" {
		// the certificate of the earlier, honest handshake (proof over the earlier nonce = 1)
		c0 := honestSpec(kA, 0)
		c0.Sig.Nonce = "stale"
		ticket = fmt.Sprintf("(Some (%s, %s))", coqCert(c0, absCtx{}), lib.Bool(in.Resume == "same"))
	}
	return fmt.Sprintf("Case %s %s %s %s %s %s (Hello %s %d) %s %d (Obs %s %d %s %s %s %s)", lvl, role, coqSuite(in.Suite),
		lib.NatList(in.Holds), lib.NatList(in.Prior), ticket, coqChain(in.Chain, o.absCtx), in.HSKey, ident, in.Msgs,
		lib.Bool(o.Handshake), o.Dispatched, lib.NatList(o.Stamped), lib.Bool(o.Crash != ""),
		lib.Bool(!strings.HasPrefix(o.HonestProof, "bad")), lib.Bool(o.Resumed))
}

func reasonClass(err error) string {
	if err == nil {
		return "accepted"
	}
	s := err.Error()
	for _, p := range [][2]string{
		{"expected exactly one certificate", "count"},
		{"No onet-pubkey URIs match", "expected-key(uri)"},
		{"not expected", "expected-key(cn)"},
		{"DEDIS signature not found", "no-signature"},
		{"decoding key", "cn-undecodable"},
		{"certificate verification: x509", "x509"},
		{"certificate verification:", "bad-signature"},
		{"x509:", "parse"},
		{"asn1:", "parse"},
	} {
		if strings.Contains(s, p[0]) {
			return p[1]
		}
	}
	return "other:" + s
}

func run(raw json.RawMessage) lib.Case {
	var in input
	if err := json.Unmarshal(raw, &in); err != nil {
		panic(err)
	}
	var o obs
	if needsSubprocess(&in) {
		o = runInSubprocess(raw)
	} else {
		o = runHere(&in)
	}
	class := in.Class
	if tags := defectTags(&in); tags != "" {
		// one class per defect pattern, whatever generator produced the input
		class = in.Role + tags
	}
	if in.UnauthOk {
		class += ":unauthok"
	}
	if o.Discard != "" {
		return lib.Case{Discard: true, Class: class, Obs: o}
	}
	return lib.Case{Coq: coqCase(&in, &o), Class: class, Obs: o, Nontrivial: len(in.Chain) > 0}
}

// defectTags marks, from the INPUT alone, the two input patterns behind the
// recorded defects of the pinned tree, so that a known finding is matched by
// the pattern of the input and not by the name of the generator that produced it:
//
//	+uri-cn-split   dial role, some URI names the dialled key, the CN does not decode to it   (F09)
//	+relayed-proof  the presented signature is an honest holder's own proof for the current nonce
//	+identity-without-key  accept role over TLS, identity message without the public-key field   (F29)
func defectTags(in *input) string {
	if in.Level == "conc" {
		return "" // the class names the scenario
	}
	if len(in.Chain) == 0 || in.Chain[0].Cert == nil {
		return resumeTag(in)
	}
	c := in.Chain[0].Cert
	tags := ""
	if in.Role == "dial" {
		named := false
		for _, u := range c.URIs {
			if u.Raw == nil && u.Scheme == "onet-pubkey" && u.Svc == "" && u.Name.Style == "new" && u.Name.Key == in.Expected {
				named = true
			}
		}
		k, ok := leafCNKey(in)
		if ok && c.CN.Style == "old" && in.Suite != "Ed25519" {
			ok = false
		}
		if named && !(ok && k == in.Expected) {
			tags += "+uri-cn-split"
		}
	}
	if c.Sig.Kind == "sig" && c.Sig.How == "oracle" && c.Sig.Nonce == "cur" {
		tags += "+relayed-proof"
	}
	if in.Level == "tls" && in.Role == "accept" && in.Ident.Kind == "nokey" {
		tags += "+identity-without-key"
	}
	return tags + resumeTag(in)
}

// +resumed-session  accept role over TLS, the peer offers the ticket of an earlier
//
//	honest session to the same router incarnation              (C08-N1)
func resumeTag(in *input) string {
	if in.Level == "tls" && in.Role == "accept" && in.Resume == "same" {
		return "+resumed-session"
	}
	return ""
}

func runHere(in *input) obs {
	switch in.Level {
	case "unit":
		return runUnit(in)
	case "tls":
		return runTLS(in)
	case "conc":
		return runConcLevel(in)
	}
	panic("bad level")
}

// A panic in a goroutine of the honest router kills the whole process, so
// inputs that can reach one (a malformed identity message after an accepted
// handshake) are run in a child process: this binary re-executed with -one.
func needsSubprocess(in *input) bool {
	return in.Level == "tls" && in.Role == "accept" && (in.Ident.Kind == "nokey" || in.Ident.Kind == "badkey")
}

func runInSubprocess(raw json.RawMessage) obs {
	cmd := exec.Command(os.Args[0], "-one")
	cmd.Stdin = bytes.NewReader(raw)
	var stdout, stderr bytes.Buffer
	cmd.Stdout, cmd.Stderr = &stdout, &stderr
	done := make(chan error, 1)
	if err := cmd.Start(); err != nil {
		return obs{Discard: "cannot start child: " + err.Error()}
	}
	go func() { done <- cmd.Wait() }()
	select {
	case err := <-done:
		if err == nil {
			var o obs
			if json.Unmarshal(stdout.Bytes(), &o) != nil {
				return obs{Discard: "child output unreadable"}
			}
			return o
		}
		// the child died: a Go panic prints "panic: ..." and a stack trace
		e := stderr.String()
		i := strings.Index(e, "panic: ")
		if i < 0 {
			// killed by the runtime (fatal error, os.Exit, ...): still the honest node dying
			return obs{Crash: "died: " + clip(e), Handshake: strings.Contains(e, "receiveServerIdentity")}
		}
		line := e[i:]
		if j := strings.Index(line, "\n"); j >= 0 {
			line = line[:j]
		}
		// the handshake had been accepted iff the panic comes from the code after it
		return obs{Crash: clip(line), Handshake: strings.Contains(e, "receiveServerIdentity")}
	case <-time.After(90 * time.Second):
		cmd.Process.Kill()
		return obs{Crash: "hang: the child process running this case did not finish in 90 s"}
	}
}

// childMain is the -one mode: one input on stdin, its observation on stdout.
func childMain() {
	var in input
	if err := json.NewDecoder(os.Stdin).Decode(&in); err != nil {
		panic(err)
	}
	o := runHere(&in)
	json.NewEncoder(os.Stdout).Encode(o)
}

func extractSig(der []byte) ([]byte, error) {
	c, err := x509.ParseCertificate(der)
	if err != nil {
		return nil, err
	}
	for _, x := range c.Extensions {
		if x.Id.Equal(sigOID) {
			return x.Value, nil
		}
	}
	return nil, errors.New("honest certificate without the signature extension")
}

func (w *world) si(k int, addr network.Address, private bool) *network.ServerIdentity {
	si := network.NewServerIdentity(w.keys[k].Public, addr)
	if private {
		si.SetPrivate(w.keys[k].Private)
	}
	return si
}

// ---------------------------------------------------------------- unit level

func runUnit(in *input) (o obs) {
	w := newWorld(in.Suite)
	var them *network.ServerIdentity
	if in.Role == "dial" {
		them = w.si(in.Expected, network.NewTLSAddress("127.0.0.1:1"), false)
	}
	// a previous handshake of the same kind, for the stale nonce
	_, stale := network.VerifC08MakeVerifier(w.suite, them)
	vrf, nonce := network.VerifC08MakeVerifier(w.suite, them)
	w.setCur(nonce)
	w.nonces["stale"] = stale
	w.nonces["foreign"] = network.VerifC08MkNonce(w.suite)
	w.oracle = func(signer int, n []byte) ([]byte, error) {
		// the honest holder's own certificate maker, asked with this nonce
		c, err := network.VerifC08HonestCertificate(w.suite, w.si(signer, network.NewTLSAddress("127.0.0.1:1"), true), n)
		if err != nil {
			return nil, err
		}
		return c.Certificate[0], nil
	}
	chain, err := w.buildChain(in.Chain)
	if err != nil {
		return obs{Discard: "cannot build chain: " + err.Error()}
	}
	o.absCtx = w.abs
	func() {
		defer func() {
			if r := recover(); r != nil {
				o.Crash = fmt.Sprint(r)
			}
		}()
		err := vrf(chain, nil)
		o.Handshake = err == nil
		o.Reason = reasonClass(err)
	}()
	return o
}

// ----------------------------------------------------------------- tls level

type honest struct {
	r    *network.Router
	si   *network.ServerIdentity
	done chan bool
	mu   sync.Mutex
	got  []*network.ServerIdentity
	ch   chan bool
}

func (w *world) newHonest(k int, unauthOk bool) (*honest, error) {
	h := &honest{}
	if err := h.start(w, k, unauthOk); err != nil {
		return nil, err
	}
	return h, nil
}

// restart: a new incarnation of the router (new listener, new TLS state), same key.
func (h *honest) restart(w *world, k int, unauthOk bool) error {
	h.stop()
	return h.start(w, k, unauthOk)
}

func (h *honest) reset() {
	h.mu.Lock()
	h.got = nil
	h.mu.Unlock()
	for {
		select {
		case <-h.ch:
		default:
			return
		}
	}
}

func (h *honest) start(w *world, k int, unauthOk bool) error {
	si := w.si(k, network.NewTLSAddress("127.0.0.1:0"), true)
	r, err := network.NewTCPRouter(si, w.suite)
	if err != nil {
		return err
	}
	si.Address = r.VerifC08Address()
	r.Quiet = true
	r.UnauthOk = unauthOk
	h.mu.Lock()
	h.r, h.si, h.done, h.ch, h.got = r, si, make(chan bool), make(chan bool, 64), nil
	h.mu.Unlock()
	done := h.done
	r.Dispatcher.RegisterProcessorFunc(c08MsgType, func(env *network.Envelope) error {
		h.mu.Lock()
		h.got = append(h.got, env.ServerIdentity)
		h.mu.Unlock()
		select {
		case h.ch <- true:
		default:
		}
		return nil
	})
	go func() {
		r.Start()
		close(done)
	}()
	for i := 0; i < 2000 && !r.Listening(); i++ {
		time.Sleep(time.Millisecond)
	}
	if !r.Listening() {
		return errors.New("honest router does not listen")
	}
	return nil
}

// primeSession: one honest handshake by the peer with its own key A, served,
// with the TLS session (ticket) kept in cache.
func (w *world) primeSession(h *honest, cache tls.ClientSessionCache, min, max uint16) error {
	var berr error
	cfg := &tls.Config{InsecureSkipVerify: true, ServerName: string(w.nonces["foreign"]), MinVersion: min, MaxVersion: max,
		ClientSessionCache: cache,
		GetClientCertificate: func(cri *tls.CertificateRequestInfo) (*tls.Certificate, error) {
			w2 := *w
			w2.nonces = map[string][]byte{"cur": []byte{}}
			if len(cri.AcceptableCAs) > 0 {
				w2.nonces["cur"] = cri.AcceptableCAs[0]
			}
			der, err := w2.buildCert(honestSpec(kA, 0))
			if err != nil {
				berr = err
				return nil, err
			}
			return &tls.Certificate{Certificate: [][]byte{der}, PrivateKey: w.tls[0]}, nil
		}}
	c, err := tls.DialWithDialer(&net.Dialer{Timeout: handshakeDeadline}, "tcp", h.si.Address.NetworkAddress(), cfg)
	if berr != nil {
		return errHarness{berr.Error()}
	}
	if err != nil {
		return fmt.Errorf("the honest first handshake was refused: %v", err)
	}
	defer c.Close()
	closed := make(chan bool)
	go func() {
		// reading also takes in the session tickets TLS 1.3 sends after the handshake
		buf := make([]byte, 4096)
		for {
			c.SetReadDeadline(time.Now().Add(time.Second))
			if _, err := c.Read(buf); err != nil && !isTimeout(err) {
				close(closed)
				return
			}
		}
	}()
	tc := network.VerifC08WrapConn(c, w.suite)
	tc.Send(w.si(kA, network.NewTLSAddress("127.0.0.1:1"), false))
	tc.Send(&C08Msg{Tag: -7})
	if st := h.waitDispatched(1, closed, serveDeadline); st != "served" {
		return fmt.Errorf("the honest first connection was not served (%s)", st)
	}
	time.Sleep(50 * time.Millisecond) // let the ticket (sent right after the handshake) be read
	return nil
}

func (h *honest) stop() {
	h.r.Stop()
	select {
	case <-h.done:
	case <-time.After(2 * time.Second):
	}
}

func (h *honest) count() int {
	h.mu.Lock()
	defer h.mu.Unlock()
	return len(h.got)
}

// waitDispatched waits until n messages were dispatched ("served"), stop is
// closed ("closed": the honest side ended the connection) or the deadline
// passes ("hang": the honest side neither serves nor drops the peer -- an
// observation of its own, never folded into one of the other two).
func (h *honest) waitDispatched(n int, stop <-chan bool, max time.Duration) string {
	deadline := time.After(max)
	for h.count() < n {
		select {
		case <-h.ch:
		case <-stop:
			// the honest side closed the link. Dispatching is synchronous in the
			// router's read loop and precedes its Close, so the count is final.
			return "closed"
		case <-deadline:
			return "hang"
		}
	}
	return "served"
}

func (w *world) stamped(h *honest) []int {
	h.mu.Lock()
	defer h.mu.Unlock()
	var out []int
	for _, si := range h.got {
		k := 99
		if si != nil && si.Public != nil {
			for i := range w.keys {
				if w.keys[i].Public.Equal(si.Public) {
					k = i
				}
			}
		}
		out = append(out, k)
	}
	return out
}

func tlsVersions(v string) (uint16, uint16) {
	if v == "1.2" {
		return tls.VersionTLS12, tls.VersionTLS12
	}
	return tls.VersionTLS13, tls.VersionTLS13
}

func usesNonce(in *input, which string) bool {
	for _, r := range in.Chain {
		if r.Cert != nil && r.Cert.Sig.Kind == "sig" && r.Cert.Sig.Nonce == which {
			return true
		}
	}
	return false
}

func usesOracle(in *input) bool {
	for _, r := range in.Chain {
		if r.Cert != nil && r.Cert.Sig.Kind == "sig" && r.Cert.Sig.How == "oracle" {
			return true
		}
	}
	return false
}

func runTLS(in *input) (o obs) {
	w := newWorld(in.Suite)
	h, err := w.newHonest(kHonest, in.UnauthOk)
	if err != nil {
		return obs{Discard: "honest node: " + err.Error()}
	}
	defer h.stop()
	var e *honest
	if usesOracle(in) {
		// the honest holder of key 1 runs too: the deviating peer relays nonces to it
		e, err = w.newHonest(kE, false)
		if err != nil {
			return obs{Discard: "honest holder: " + err.Error()}
		}
		defer e.stop()
	}
	w.nonces["foreign"] = network.VerifC08MkNonce(w.suite)
	if in.Role == "accept" && len(in.Prior) > 0 {
		// history: the honest server of key 1 connects genuinely and is served first
		for _, k := range in.Prior {
			if k != kE {
				return obs{Discard: "only key 1 runs as an honest server"}
			}
		}
		pe := e
		if pe == nil {
			if pe, err = w.newHonest(kE, false); err != nil {
				return obs{Discard: "honest holder: " + err.Error()}
			}
			if in.PriorStays {
				defer pe.stop()
			}
		}
		if _, err := pe.r.Send(h.si, &C08Msg{Tag: -9}); err != nil {
			return obs{Crash: "hang: the genuine earlier connection failed: " + clip(err.Error())}
		}
		if h.waitDispatched(1, make(chan bool), serveDeadline) != "served" {
			return obs{Crash: "hang: the genuine earlier connection was not served"}
		}
		if !in.PriorStays && e == nil {
			pe.stop()
		}
		h.reset()
	}
	if in.Role == "accept" {
		w.oracle = func(signer int, n []byte) ([]byte, error) { return w.relayFromDialler(e, signer, n) }
		o = runAccept(in, w, h)
		o.absCtx = w.abs
		return o
	}
	w.oracle = func(signer int, n []byte) ([]byte, error) { return w.relayFromListener(e, signer, n) }
	o = runDial(in, w, h)
	o.absCtx = w.abs
	return o
}

// relayFromListener: the deviating peer connects to the honest holder's TLS
// listener, passes the victim's nonce as its own, and reads the signature out
// of the certificate the holder presents.
func (w *world) relayFromListener(e *honest, signer int, nonce []byte) ([]byte, error) {
	if e == nil || signer != kE {
		return nil, errHarness{"no honest holder for this key"}
	}
	var sig []byte
	var serr error
	cfg := &tls.Config{
		InsecureSkipVerify: true,
		ServerName:         string(nonce),
		VerifyPeerCertificate: func(raw [][]byte, _ [][]*x509.Certificate) error {
			if len(raw) > 0 {
				sig = raw[0] // the holder's certificate; the proof is cut out of it by the caller
			}
			return errors.New("got what I wanted")
		},
	}
	c, err := tls.DialWithDialer(&net.Dialer{Timeout: 20 * time.Second}, "tcp", e.si.Address.NetworkAddress(), cfg)
	if err == nil {
		c.Close()
	}
	if sig == nil && serr == nil {
		serr = fmt.Errorf("relay to listener failed: %v", err)
	}
	return sig, serr
}

// relayFromDialler: the deviating peer also runs a TLS server under a key it
// holds (A); the honest holder dials it (as it would for any roster member)
// and is handed the victim's nonce; its client certificate carries the
// signature.
func (w *world) relayFromDialler(e *honest, signer int, nonce []byte) ([]byte, error) {
	if e == nil || signer != kE {
		return nil, errHarness{"no honest holder for this key"}
	}
	type res struct {
		sig []byte
		err error
	}
	out := make(chan res, 8)
	base := &tls.Config{}
	base.GetConfigForClient = func(hello *tls.ClientHelloInfo) (*tls.Config, error) {
		// an honest-looking certificate for key A over the dialler's nonce
		w2 := *w
		w2.nonces = map[string][]byte{"cur": append([]byte{}, hello.ServerName...)}
		der, err := w2.buildCert(honestSpec(kA, 1))
		if err != nil {
			return nil, err
		}
		pool := x509.NewCertPool()
		pool.AddCert(&x509.Certificate{RawSubject: nonce})
		return &tls.Config{
			Certificates: []tls.Certificate{{Certificate: [][]byte{der}, PrivateKey: w.tls[1]}},
			ClientAuth:   tls.RequireAnyClientCert,
			ClientCAs:    pool,
			VerifyPeerCertificate: func(raw [][]byte, _ [][]*x509.Certificate) error {
				out <- res{raw[0], nil}
				return nil
			},
		}, nil
	}
	ln, err := tls.Listen("tcp", "127.0.0.1:0", base)
	if err != nil {
		return nil, err
	}
	defer ln.Close()
	go func() {
		for {
			c, err := ln.Accept()
			if err != nil {
				return
			}
			go func(c net.Conn) {
				c.(*tls.Conn).Handshake()
				time.Sleep(50 * time.Millisecond)
				c.Close()
			}(c)
		}
	}()
	go e.r.Send(w.si(kA, network.NewTLSAddress(ln.Addr().String()), false), &C08Msg{Tag: -1})
	select {
	case r := <-out:
		return r.sig, r.err
	case <-time.After(20 * time.Second):
		return nil, errors.New("honest holder did not dial")
	}
}

// honestSpec is the certificate an honest server holding key k would present.
func honestSpec(k int, tlskey int) *certSpec {
	return &certSpec{
		CN:        nameSpec{Style: "new", Key: k},
		URIs:      []uriSpec{{Scheme: "onet-pubkey", Svc: "", Name: nameSpec{Style: "new", Key: k}}},
		Sig:       sigSpec{Kind: "sig", Signer: k, Nonce: "cur", How: "own"},
		TLSKey:    tlskey,
		Signer:    "self",
		NotBefore: -300,
		NotAfter:  7200,
		EKU:       "both",
	}
}

func leafCNKey(in *input) (int, bool) {
	if len(in.Chain) == 0 || in.Chain[0].Cert == nil {
		return 0, false
	}
	n := in.Chain[0].Cert.CN
	switch n.Style {
	case "new", "upper", "old":
		return n.Key, true
	}
	return 0, false
}

// checkHonestProof: what the honest side presented to the deviating peer must
// itself be a valid proof by the honest key over the nonce the peer sent.
func (w *world) checkHonestProof(raw [][]byte, nonce []byte) string {
	if len(raw) != 1 {
		return fmt.Sprintf("bad: %d certificates", len(raw))
	}
	if _, err := proofFormat(w.suite, w.keys[kHonest].Public, nonce, raw[0]); err != nil {
		return "bad: " + clip(err.Error())
	}
	return "ok"
}

const (
	handshakeDeadline = 30 * time.Second // a handshake that takes longer is a hang, not a refusal
	serveDeadline     = 30 * time.Second
)

func isTimeout(err error) bool {
	ne, ok := err.(net.Error)
	return ok && ne.Timeout()
}

// keepOpen keeps onet's framing code (which closes the connection it is given when
// a write fails) from closing the harness's TLS connection: the listener's verdict
// (alert or close_notify) has to stay readable after a failed write.
type keepOpen struct{ net.Conn }

func (keepOpen) Close() error { return nil }

// runAccept: the deviating client dials the honest listener.  In TLS 1.3 the
// client's handshake returns before the listener has judged the certificate; its
// verdict is an alert (refused), a close_notify (accepted, then dropped) or
// service.  A listener that refuses while data it has not read is in flight
// resets the connection, and the reset can overtake the alert: such a run tells
// nothing ("ambiguous") and is repeated with a longer pause before the first write.
func runAccept(in *input, w *world, h *honest) (o obs) {
	for _, grace := range []time.Duration{20 * time.Millisecond, 300 * time.Millisecond, 3 * time.Second} {
		var ambiguous bool
		o, ambiguous = runAcceptOnce(in, w, h, grace)
		if !ambiguous {
			return o
		}
		h.reset()
	}
	return obs{Discard: "the listener's verdict could not be read in three attempts (reset without alert): " + o.Reason}
}

func runAcceptOnce(in *input, w *world, h *honest, grace time.Duration) (o obs, ambiguous bool) {
	min, max := tlsVersions(in.TLSVer)
	addr := h.si.Address.NetworkAddress()
	if usesNonce(in, "stale") {
		// a real earlier handshake with the same listener, abandoned after its nonce is known
		cfg := &tls.Config{InsecureSkipVerify: true, ServerName: string(w.nonces["foreign"]), MinVersion: min, MaxVersion: max,
			GetClientCertificate: func(cri *tls.CertificateRequestInfo) (*tls.Certificate, error) {
				if len(cri.AcceptableCAs) > 0 {
					w.nonces["stale"] = cri.AcceptableCAs[0]
				}
				return nil, errors.New("abandon")
			}}
		if c, err := tls.DialWithDialer(&net.Dialer{Timeout: handshakeDeadline}, "tcp", addr, cfg); err == nil {
			c.Close()
		}
		if w.nonces["stale"] == nil {
			// the listener gave none: any other 32 bytes are as stale
			w.nonces["stale"] = network.VerifC08MkNonce(w.suite)
		}
	}
	var cache tls.ClientSessionCache
	if in.Resume != "" {
		cache = tls.NewLRUClientSessionCache(8)
		if err := w.primeSession(h, cache, min, max); err != nil {
			if isHarnessErr(err) {
				return obs{Discard: err.Error()}, false
			}
			// the honest first connection must work on any sane tree: an observation
			return obs{Crash: "hang: " + clip(err.Error())}, false
		}
		if in.Resume == "restart" {
			if err := h.restart(w, kHonest, in.UnauthOk); err != nil {
				return obs{Discard: "honest node: " + err.Error()}, false
			}
			addr = h.si.Address.NetworkAddress()
		}
		h.reset()
	}
	var buildErr error
	cfg := &tls.Config{InsecureSkipVerify: true, ServerName: string(w.nonces["foreign"]), MinVersion: min, MaxVersion: max,
		ClientSessionCache: cache,
		VerifyPeerCertificate: func(raw [][]byte, _ [][]*x509.Certificate) error {
			o.HonestProof = w.checkHonestProof(raw, w.nonces["foreign"])
			return nil
		},
		GetClientCertificate: func(cri *tls.CertificateRequestInfo) (*tls.Certificate, error) {
			if len(cri.AcceptableCAs) == 0 {
				w.setCur(nil) // a listener that hands out no nonce: observed, not skipped
			} else {
				w.setCur(cri.AcceptableCAs[0])
			}
			chain, err := w.buildChain(in.Chain)
			if err != nil {
				buildErr = err
				return nil, err
			}
			return &tls.Certificate{Certificate: chain, PrivateKey: w.tls[in.HSKey]}, nil
		}}
	c, err := tls.DialWithDialer(&net.Dialer{Timeout: handshakeDeadline}, "tcp", addr, cfg)
	if buildErr != nil {
		return obs{Discard: "cannot build chain: " + buildErr.Error()}, false
	}
	if err != nil {
		// refused during the handshake (TLS 1.2 reports the listener's verdict here)
		o.Reason = "handshake: " + clip(err.Error())
		if isTimeout(err) {
			o.Crash = "hang: the listener did not finish the handshake in " + handshakeDeadline.String()
		}
		o.Dispatched = h.count()
		o.Stamped = w.stamped(h)
		return o, false
	}
	defer c.Close()
	o.Resumed = c.ConnectionState().DidResume
	// the listener's verdict arrives as an alert (rejected) or not at all (accepted)
	closed := make(chan bool)
	var rerr error
	go func() {
		buf := make([]byte, 4096)
		for {
			c.SetReadDeadline(time.Now().Add(5 * time.Second))
			if _, err := c.Read(buf); err != nil {
				if isTimeout(err) {
					continue // nothing to read yet: the link is simply up
				}
				rerr = err
				close(closed)
				return
			}
		}
	}()
	// give a refusing listener the time to say so before anything is written
	select {
	case <-closed:
	case <-time.After(grace):
	}
	tc := network.VerifC08WrapConn(keepOpen{c}, w.suite)
	sendIdent := func() {
		switch in.Ident.Kind {
		case "match":
			// the key named by the certificate in force: on a resumed session that is
			// the certificate of the original handshake (key A)
			k, ok := leafCNKey(in)
			if !ok || o.Resumed {
				k = kA
			}
			tc.Send(w.si(k, network.NewTLSAddress("127.0.0.1:1"), false))
		case "other":
			tc.Send(w.si(in.Ident.Key, network.NewTLSAddress("127.0.0.1:1"), false))
		case "wrongtype":
			tc.Send(&C08Msg{Tag: 1000})
		case "nokey", "badkey":
			// an identity message whose public-key field is missing / is not a point
			k, ok := leafCNKey(in)
			if !ok {
				k = kA
			}
			b, err := network.Marshal(w.si(k, network.NewTLSAddress("127.0.0.1:1"), false))
			if err != nil || len(b) < 18 || b[16] != 0x0a {
				panic("harness: the identity message is not laid out as expected; cannot cut its key field")
			}
			l, n := binary.Uvarint(b[17:])
			rest := b[17+n+int(l):]
			msg := append([]byte{}, b[:16]...)
			if in.Ident.Kind == "badkey" {
				msg = append(msg, b[16:17+n]...)
				for i := 0; i < int(l); i++ {
					msg = append(msg, 0xff)
				}
			}
			msg = append(msg, rest...)
			var sz [4]byte
			binary.BigEndian.PutUint32(sz[:], uint32(len(msg)))
			c.Write(append(sz[:], msg...))
		default:
			panic("harness: bad identity kind " + in.Ident.Kind)
		}
	}
	sendIdent()
	for i := 0; i < in.Msgs; i++ {
		tc.Send(&C08Msg{Tag: i})
		if i == 0 && in.Reident > 0 {
			tc.Send(w.si(in.Reident-1, network.NewTLSAddress("127.0.0.1:1"), false))
		}
	}
	want := in.Msgs
	if in.Ident.Kind == "wrongtype" {
		want++
	}
	status := ""
	if want == 0 {
		// nothing to be served: a close may still come; its absence is not a hang
		if status = h.waitDispatched(1, closed, 3*time.Second); status == "hang" {
			status = "served"
		}
	} else {
		status = h.waitDispatched(want, closed, serveDeadline)
	}
	switch status {
	case "closed":
		switch {
		case rerr != nil && strings.Contains(rerr.Error(), "remote error: tls:"):
			o.Reason = "alert: " + clip(rerr.Error())
		case rerr == io.EOF:
			// close_notify: only an established connection is closed that way
			o.Handshake = true
			o.Reason = "handshake accepted, then closed by the honest side (close_notify)"
		default:
			// reset: the alert or the close_notify was lost
			o.Reason = "connection reset, verdict unread: " + clip(fmt.Sprint(rerr))
			return o, true
		}
	case "served":
		o.Handshake = true
		o.Reason = "link up"
	case "hang":
		// no alert, no close, not served: the handshake went through, and then nothing
		o.Handshake = true
		o.Crash = "hang: the honest side neither served nor dropped the peer within " + serveDeadline.String()
	}
	o.Dispatched = h.count()
	o.Stamped = w.stamped(h)
	return o, false
}

// runDial: the honest router dials the deviating server.
func runDial(in *input, w *world, h *honest) (o obs) {
	min, max := tlsVersions(in.TLSVer)
	var mu sync.Mutex
	var nonces [][]byte
	var buildErr error
	stalePhase := false
	base := &tls.Config{}
	base.GetConfigForClient = func(hello *tls.ClientHelloInfo) (*tls.Config, error) {
		mu.Lock()
		defer mu.Unlock()
		if stalePhase {
			if hello.ServerName != "" {
				w.nonces["stale"] = []byte(hello.ServerName)
			}
			return nil, errors.New("abandon")
		}
		nonces = append(nonces, []byte(hello.ServerName))
		w.setCur([]byte(hello.ServerName)) // an empty server name = no nonce: observed, not skipped
		chain, err := w.buildChain(in.Chain)
		if err != nil {
			buildErr = err
			return nil, err
		}
		pool := x509.NewCertPool()
		pool.AddCert(&x509.Certificate{RawSubject: w.nonces["foreign"]})
		return &tls.Config{
			Certificates: []tls.Certificate{{Certificate: chain, PrivateKey: w.tls[in.HSKey]}},
			ClientAuth:   tls.RequireAnyClientCert,
			ClientCAs:    pool,
			MinVersion:   min, MaxVersion: max,
			VerifyPeerCertificate: func(raw [][]byte, _ [][]*x509.Certificate) error {
				o.HonestProof = w.checkHonestProof(raw, w.nonces["foreign"])
				return nil
			},
		}, nil
	}
	ln, err := tls.Listen("tcp", "127.0.0.1:0", base)
	if err != nil {
		return obs{Discard: "listen: " + err.Error()}
	}
	defer ln.Close()
	// every accepted connection's handshake is waited for, so that "did the
	// dialler accept our certificate" is read off the completed handshakes and
	// not off the error value of Send alone
	var inflight sync.WaitGroup
	linkUp := make(chan *tls.Conn, 16)
	go func() {
		for {
			c, err := ln.Accept()
			if err != nil {
				return
			}
			inflight.Add(1)
			go func(tc *tls.Conn) {
				defer inflight.Done()
				tc.SetDeadline(time.Now().Add(handshakeDeadline))
				if err := tc.Handshake(); err != nil {
					tc.Close()
					return
				}
				tc.SetDeadline(time.Now().Add(3 * serveDeadline))
				linkUp <- tc
			}(c.(*tls.Conn))
		}
	}()
	target := w.si(in.Expected, network.NewTLSAddress(ln.Addr().String()), false)
	if usesNonce(in, "stale") {
		mu.Lock()
		stalePhase = true
		mu.Unlock()
		h.r.Send(target, &C08Msg{Tag: -2})
		mu.Lock()
		stalePhase = false
		mu.Unlock()
		if w.nonces["stale"] == nil {
			w.nonces["stale"] = network.VerifC08MkNonce(w.suite)
		}
	}
	_, serr := h.r.Send(target, &C08Msg{Tag: -3})
	// Send has returned: the dialler is done with every attempt, so every
	// server-side handshake ends (completed, or failed on the dialler's alert/close)
	waited := make(chan bool)
	go func() { inflight.Wait(); close(waited) }()
	select {
	case <-waited:
	case <-time.After(handshakeDeadline + 5*time.Second):
	}
	mu.Lock()
	o.Attempts = len(nonces)
	o.NonceReuse = len(nonces) > 1
	for _, n := range nonces {
		if string(n) != string(nonces[0]) {
			o.NonceReuse = false
		}
	}
	be := buildErr
	mu.Unlock()
	if be != nil {
		return obs{Discard: "cannot build chain: " + be.Error()}
	}
	var tc *tls.Conn
	select {
	case tc = <-linkUp:
	default:
	}
	// the dialler accepted our certificate iff a handshake completed on our side
	o.Handshake = tc != nil
	switch {
	case tc == nil && serr == nil:
		o.Reason = "Send reported success although no TLS handshake completed"
	case tc == nil:
		o.Reason = clip(serr.Error())
	case serr != nil:
		o.Reason = "the dialler completed the handshake, then failed: " + clip(serr.Error())
	default:
		o.Reason = "link up"
	}
	if tc == nil || serr != nil {
		if tc != nil {
			tc.Close()
		}
		o.Dispatched = h.count()
		o.Stamped = w.stamped(h)
		return o
	}
	defer tc.Close()
	oc := network.VerifC08WrapConn(tc, w.suite)
	// the dialler's identity message and its application message
	oc.Receive()
	oc.Receive()
	for i := 0; i < in.Msgs; i++ {
		oc.Send(&C08Msg{Tag: i})
		if i == 0 && in.Reident > 0 {
			oc.Send(w.si(in.Reident-1, network.NewTLSAddress("127.0.0.1:1"), false))
		}
	}
	if h.waitDispatched(in.Msgs, make(chan bool), serveDeadline) == "hang" {
		o.Crash = "hang: the dialler did not dispatch the replies sent over the link it opened within " + serveDeadline.String()
	}
	o.Dispatched = h.count()
	o.Stamped = w.stamped(h)
	return o
}

// ------------------------------------------------------- two overlapping dials

// runConcLevel: the honest host dials key Expected (the link under observation)
// and key Other at about the same time.  The deviating peer holds Other, runs
// both end points, holds back its answer on the first link until the ClientHello
// of the second dial has arrived (no sleeping: the second Send is started when
// the first ClientHello has arrived), and then presents Chain on the first link;
// in Chain, nonce "cur" is the first dial's nonce and "other" the second dial's.
func runConcLevel(in *input) (o obs) {
	w := newWorld(in.Suite)
	h, err := w.newHonest(kHonest, in.UnauthOk)
	if err != nil {
		return obs{Discard: "honest node: " + err.Error()}
	}
	defer h.stop()
	w.nonces["foreign"] = network.VerifC08MkNonce(w.suite)
	w.oracle = func(int, []byte) ([]byte, error) { return nil, errHarness{"no relay in the two-dials scenario"} }
	min, max := tlsVersions(in.TLSVer)

	var mu sync.Mutex // guards w.nonces / w.abs / buildErr between the two listeners
	var buildErr error
	firstHello := make(chan struct{})
	otherHello := make(chan struct{})
	var firstOnce, otherOnce sync.Once
	pool := x509.NewCertPool()
	pool.AddCert(&x509.Certificate{RawSubject: w.nonces["foreign"]})

	listen := func(getCfg func(hello *tls.ClientHelloInfo) (*tls.Config, error)) (net.Listener, *sync.WaitGroup, chan *tls.Conn, error) {
		ln, err := tls.Listen("tcp", "127.0.0.1:0", &tls.Config{GetConfigForClient: getCfg})
		if err != nil {
			return nil, nil, nil, err
		}
		var inflight sync.WaitGroup
		up := make(chan *tls.Conn, 16)
		go func() {
			for {
				c, err := ln.Accept()
				if err != nil {
					return
				}
				inflight.Add(1)
				go func(tc *tls.Conn) {
					defer inflight.Done()
					tc.SetDeadline(time.Now().Add(handshakeDeadline))
					if err := tc.Handshake(); err != nil {
						tc.Close()
						return
					}
					tc.SetDeadline(time.Now().Add(3 * serveDeadline))
					up <- tc
				}(c.(*tls.Conn))
			}
		}()
		return ln, &inflight, up, nil
	}

	// the peer's own end point for key Other: honest
	lnO, inflightO, upO, err := listen(func(hello *tls.ClientHelloInfo) (*tls.Config, error) {
		mu.Lock()
		defer mu.Unlock()
		otherOnce.Do(func() {
			w.nonces["other"] = append([]byte{}, hello.ServerName...)
			close(otherHello)
		})
		w2 := *w
		w2.nonces = map[string][]byte{"cur": append([]byte{}, hello.ServerName...)}
		der, err := w2.buildCert(honestSpec(in.Other, 1))
		if err != nil {
			buildErr = err
			return nil, err
		}
		return &tls.Config{Certificates: []tls.Certificate{{Certificate: [][]byte{der}, PrivateKey: w.tls[1]}},
			ClientAuth: tls.RequireAnyClientCert, ClientCAs: pool}, nil
	})
	if err != nil {
		return obs{Discard: "listen: " + err.Error()}
	}
	defer lnO.Close()
	// what the honest host reaches when it dials key Expected: the same peer
	lnF, inflightF, upF, err := listen(func(hello *tls.ClientHelloInfo) (*tls.Config, error) {
		firstOnce.Do(func() { close(firstHello) })
		mu.Lock()
		known := w.nonces["other"] != nil
		mu.Unlock()
		if !known {
			// hold the answer back until the second dial's ClientHello is in; the
			// honest dial gives up after 1 s, so a host that never overlaps its
			// dials is answered before that, with a nonce that is merely foreign
			select {
			case <-otherHello:
			case <-time.After(700 * time.Millisecond):
			}
		}
		mu.Lock()
		defer mu.Unlock()
		if w.nonces["other"] == nil {
			w.nonces["other"] = network.VerifC08MkNonce(w.suite)
			w.abs.NotInterleaved = true
		}
		w.setCur([]byte(hello.ServerName))
		chain, err := w.buildChain(in.Chain)
		if err != nil {
			buildErr = err
			return nil, err
		}
		return &tls.Config{Certificates: []tls.Certificate{{Certificate: chain, PrivateKey: w.tls[in.HSKey]}},
			ClientAuth: tls.RequireAnyClientCert, ClientCAs: pool, MinVersion: min, MaxVersion: max,
			VerifyPeerCertificate: func(raw [][]byte, _ [][]*x509.Certificate) error {
				o.HonestProof = w.checkHonestProof(raw, w.nonces["foreign"])
				return nil
			}}, nil
	})
	if err != nil {
		return obs{Discard: "listen: " + err.Error()}
	}
	defer lnF.Close()

	first := w.si(in.Expected, network.NewTLSAddress(lnF.Addr().String()), false)
	other := w.si(in.Other, network.NewTLSAddress(lnO.Addr().String()), false)
	errF := make(chan error, 1)
	errO := make(chan error, 1)
	go func() { _, err := h.r.Send(first, &C08Msg{Tag: -3}); errF <- err }()
	select {
	case <-firstHello:
	case <-time.After(handshakeDeadline):
		return obs{Crash: "hang: the honest host did not start the dial it was asked for"}
	}
	go func() { _, err := h.r.Send(other, &C08Msg{Tag: -4}); errO <- err }()
	var serrF, serrO error
	for i := 0; i < 2; i++ {
		select {
		case serrF = <-errF:
		case serrO = <-errO:
		case <-time.After(2 * handshakeDeadline):
			return obs{Crash: "hang: a Send of the honest host did not return"}
		}
	}
	for _, wg := range []*sync.WaitGroup{inflightF, inflightO} {
		waited := make(chan bool)
		go func(wg *sync.WaitGroup) { wg.Wait(); close(waited) }(wg)
		select {
		case <-waited:
		case <-time.After(handshakeDeadline + 5*time.Second):
		}
	}
	mu.Lock()
	be := buildErr
	o.absCtx = w.abs
	mu.Unlock()
	if be != nil {
		return obs{Discard: "cannot build chain: " + be.Error()}
	}
	// the second, honest link
	select {
	case tc := <-upO:
		defer tc.Close()
		o.OtherUp = serrO == nil
	default:
	}
	// the link under observation
	var tc *tls.Conn
	select {
	case tc = <-upF:
	default:
	}
	o.Handshake = tc != nil
	switch {
	case tc == nil && serrF == nil:
		o.Reason = "Send reported success although no TLS handshake completed"
	case tc == nil:
		o.Reason = clip(serrF.Error())
	case serrF != nil:
		o.Reason = "the dialler completed the handshake, then failed: " + clip(serrF.Error())
	default:
		o.Reason = "link up"
	}
	if tc == nil || serrF != nil {
		if tc != nil {
			tc.Close()
		}
		o.Dispatched = h.count()
		o.Stamped = w.stamped(h)
		return o
	}
	defer tc.Close()
	oc := network.VerifC08WrapConn(keepOpen{tc}, w.suite)
	oc.Receive()
	oc.Receive()
	for i := 0; i < in.Msgs; i++ {
		oc.Send(&C08Msg{Tag: i})
	}
	if h.waitDispatched(in.Msgs, make(chan bool), serveDeadline) == "hang" {
		o.Crash = "hang: the dialler did not dispatch the replies sent over the link it opened within " + serveDeadline.String()
	}
	o.Dispatched = h.count()
	o.Stamped = w.stamped(h)
	return o
}

func clip(s string) string {
	if len(s) > 160 {
		return s[:160]
	}
	return s
}
