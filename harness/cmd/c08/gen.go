// Generator: the honest handshake, every single deviation of the property's
// quantifier, the refutation witnesses, and seeded random combinations.
package main

import (
	"encoding/json"
	"fmt"
	"math/rand"
)

func clone(in input) input {
	b, _ := json.Marshal(in)
	var out input
	json.Unmarshal(b, &out)
	return out
}

// base is the honest handshake by a peer holding key k.
func base(level, suite, role string, k int) input {
	in := input{
		Level: level, Suite: suite, Role: role, Holds: []int{kA, kB},
		Chain:  []rawSpec{{Kind: "one", Cert: honestSpec(k, 0)}},
		HSKey:  0,
		TLSVer: "1.3",
		Ident:  identSpec{Kind: "match"},
		Msgs:   2,
		Class:  "honest",
	}
	if role == "dial" {
		in.Expected = k
	}
	return in
}

type deviation struct {
	name  string
	apply func(in *input, c *certSpec)
	only  string // "" | dial | accept | tls
}

func nm(style string, k int) nameSpec { return nameSpec{Style: style, Key: k} }
func uriOf(k int) uriSpec             { return uriSpec{Scheme: "onet-pubkey", Svc: "", Name: nm("new", k)} }

// Every deviation starts from the honest certificate of key A (the peer holds
// A and B) and, for the dial role, a dialler that expects A.
var deviations = []deviation{
	{"sig-missing", func(in *input, c *certSpec) { c.Sig.Kind = "none" }, ""},
	{"sig-garbled", func(in *input, c *certSpec) { c.Sig.Kind = "garbage" }, ""},
	{"sig-empty", func(in *input, c *certSpec) { c.Sig.Kind = "empty" }, ""},
	{"sig-wrong-key", func(in *input, c *certSpec) { c.Sig.Signer = kB }, ""},
	{"sig-stale-nonce", func(in *input, c *certSpec) { c.Sig.Nonce = "stale" }, ""},
	{"sig-foreign-nonce", func(in *input, c *certSpec) { c.Sig.Nonce = "foreign" }, ""},
	// signed bytes in the other format than the one the code under test uses
	{"sig-other-format", func(in *input, c *certSpec) {
		if boundFormat {
			c.Sig.Bind = "pinned"
		} else {
			c.Sig.Bind = "cert"
		}
	}, ""},
	{"sig-bound-to-other-tls-key", func(in *input, c *certSpec) { c.Sig.Bind = "other" }, ""},
	{"sig-over-other-name", func(in *input, c *certSpec) { o := nm("new", kB); c.Sig.Over = &o }, ""},
	{"sig-over-other-style", func(in *input, c *certSpec) { o := nm("upper", kA); c.Sig.Over = &o }, ""},
	// certificate naming another server's key, proof by the peer's own key
	{"cn-other-server", func(in *input, c *certSpec) { c.CN = nm("new", kE); c.URIs = []uriSpec{uriOf(kE)}; in.Expected = kE }, ""},
	{"cn-other-server-uri-own", func(in *input, c *certSpec) { c.CN = nm("new", kE) }, ""},
	{"cn-other-server-replayed-proof", func(in *input, c *certSpec) {
		c.CN = nm("new", kE)
		c.URIs = []uriSpec{uriOf(kE)}
		c.Sig = sigSpec{Kind: "sig", Signer: kE, Nonce: "stale", How: "oracle"}
		in.Expected = kE
	}, ""},
	{"cn-unheld-key", func(in *input, c *certSpec) {
		c.CN = nm("new", kNobody)
		c.URIs = []uriSpec{uriOf(kNobody)}
		in.Expected = kNobody
	}, ""},
	{"cn-upper", func(in *input, c *certSpec) { c.CN = nm("upper", kA) }, ""},
	{"cn-upper-no-uri", func(in *input, c *certSpec) { c.CN = nm("upper", kA); c.URIs = nil }, ""},
	{"cn-old", func(in *input, c *certSpec) { c.CN = nm("old", kA) }, ""},
	{"cn-old-no-uri", func(in *input, c *certSpec) { c.CN = nm("old", kA); c.URIs = nil }, ""},
	{"cn-junk", func(in *input, c *certSpec) { c.CN = nm("junk", kA) }, ""},
	{"cn-hexjunk", func(in *input, c *certSpec) { c.CN = nm("hexjunk", kA) }, ""},
	{"cn-empty", func(in *input, c *certSpec) { c.CN = nm("empty", kA) }, ""},
	{"uri-none", func(in *input, c *certSpec) { c.URIs = nil }, ""},
	{"uri-other-scheme", func(in *input, c *certSpec) { u0(c).Scheme = "other" }, ""},
	{"uri-service", func(in *input, c *certSpec) { u0(c).Svc = "svc" }, ""},
	{"uri-other-key", func(in *input, c *certSpec) { c.URIs = []uriSpec{uriOf(kB)} }, ""},
	{"uri-upper", func(in *input, c *certSpec) { u0(c).Name = nm("upper", kA) }, ""},
	{"uri-several", func(in *input, c *certSpec) { c.URIs = []uriSpec{uriOf(kB), uriOf(kE), uriOf(kA)} }, ""},
	{"uri-several-none-matching", func(in *input, c *certSpec) { c.URIs = []uriSpec{uriOf(kB), uriOf(kE)} }, ""},
	{"expired", func(in *input, c *certSpec) { c.NotBefore = -7200; c.NotAfter = -60 }, ""},
	{"not-yet-valid", func(in *input, c *certSpec) { c.NotBefore = 600; c.NotAfter = 7200 }, ""},
	{"not-self-signed-other-key", func(in *input, c *certSpec) { c.Signer = "otherkey" }, ""},
	{"not-self-signed-ca", func(in *input, c *certSpec) { c.Signer = "ca" }, ""},
	{"eku-client-only", func(in *input, c *certSpec) { c.EKU = "client" }, ""},
	{"eku-server-only", func(in *input, c *certSpec) { c.EKU = "server" }, ""},
	{"eku-any", func(in *input, c *certSpec) { c.EKU = "any" }, ""},
	{"eku-none", func(in *input, c *certSpec) { c.EKU = "none" }, ""},
	{"critical-extension", func(in *input, c *certSpec) { c.Crit = true }, ""},
	{"chain-empty", func(in *input, c *certSpec) { in.Chain = nil }, ""},
	{"chain-two", func(in *input, c *certSpec) {
		in.Chain = append(in.Chain, rawSpec{Kind: "one", Cert: honestSpec(kB, 1)})
	}, ""},
	{"chain-two-same", func(in *input, c *certSpec) {
		if len(in.Chain) > 0 {
			in.Chain = append(in.Chain, in.Chain[0])
		}
	}, ""},
	{"chain-concatenated", func(in *input, c *certSpec) {
		if len(in.Chain) > 0 && in.Chain[0].Cert != nil {
			in.Chain[0].Kind = "two"
		}
	}, ""},
	{"chain-junk", func(in *input, c *certSpec) { in.Chain = []rawSpec{{Kind: "junk"}} }, ""},
	{"chain-junk-second", func(in *input, c *certSpec) { in.Chain = append(in.Chain, rawSpec{Kind: "junk"}) }, ""},
	{"tls-key-not-held", func(in *input, c *certSpec) { c.TLSKey = 2; in.HSKey = 0 }, "tls"},
	// F09: the peer proves its own key A and merely names the dialler's target E in the URI
	{"F09-uri-names-target", func(in *input, c *certSpec) { c.URIs = []uriSpec{uriOf(kE)}; in.Expected = kE }, "dial"},
	{"F09-uri-names-target-among-several", func(in *input, c *certSpec) {
		c.URIs = []uriSpec{uriOf(kA), uriOf(kE)}
		in.Expected = kE
	}, "dial"},
	{"dial-other-target-old-style", func(in *input, c *certSpec) { c.URIs = nil; in.Expected = kE }, "dial"},
	{"dial-other-target", func(in *input, c *certSpec) { in.Expected = kE }, "dial"},
	// relay: the proof is the honest holder's, obtained for this very nonce
	{"relay", func(in *input, c *certSpec) {
		c.CN = nm("new", kE)
		c.URIs = []uriSpec{uriOf(kE)}
		c.Sig = sigSpec{Kind: "sig", Signer: kE, Nonce: "cur", How: "oracle"}
		in.Expected = kE
	}, ""},
	{"relay-old-style", func(in *input, c *certSpec) {
		c.CN = nm("new", kE)
		c.URIs = nil
		c.Sig = sigSpec{Kind: "sig", Signer: kE, Nonce: "cur", How: "oracle"}
		in.Expected = kE
	}, ""},
	// a second identity message, naming another key, in the middle of an established link
	{"second-identity-other-key", func(in *input, c *certSpec) { in.Reident = kE + 1; in.Msgs = 3 }, "tls"},
	{"second-identity-held-key", func(in *input, c *certSpec) { in.Reident = kB + 1; in.Msgs = 3 }, "tls"},
	// TLS session resumption (C08-N1, fixed in /repo: every such case must end in a full handshake): after one honest handshake with its own key the
	// peer reconnects offering the session ticket; what it would present in a full
	// handshake varies (nothing at all / garbled proof / honest), as does the identity
	{"resume-same-honest-fallback", func(in *input, c *certSpec) { in.Resume = "same" }, "accept-tls"},
	{"resume-same-no-certificate", func(in *input, c *certSpec) { in.Resume = "same"; in.Chain = nil }, "accept-tls"},
	{"resume-same-garbled-proof", func(in *input, c *certSpec) { in.Resume = "same"; c.Sig.Kind = "garbage" }, "accept-tls"},
	{"resume-same-identity-other-key", func(in *input, c *certSpec) {
		in.Resume = "same"
		in.Ident = identSpec{Kind: "other", Key: kE}
	}, "accept-tls"},
	{"resume-same-other-certificate", func(in *input, c *certSpec) {
		in.Resume = "same"
		*c = *honestSpec(kB, 1)
		in.HSKey = 1
	}, "accept-tls"},
	{"resume-restart-honest-fallback", func(in *input, c *certSpec) { in.Resume = "restart" }, "accept-tls"},
	{"resume-restart-no-certificate", func(in *input, c *certSpec) { in.Resume = "restart"; in.Chain = nil }, "accept-tls"},
	{"resume-restart-garbled-proof", func(in *input, c *certSpec) { in.Resume = "restart"; c.Sig.Kind = "garbage" }, "accept-tls"},
	// malformed onet-pubkey URIs (name no key at all): must be refused like any URI
	// that does not name the expected key -- also when everything else is missing
	{"uri-malformed-no-colon", func(in *input, c *certSpec) { c.URIs = []uriSpec{rawURI("nobody")} }, ""},
	{"uri-malformed-empty", func(in *input, c *certSpec) { c.URIs = []uriSpec{rawURI("")} }, ""},
	{"uri-malformed-empty-key", func(in *input, c *certSpec) { c.URIs = []uriSpec{rawURI(":")} }, ""},
	{"uri-malformed-not-hex", func(in *input, c *certSpec) { c.URIs = []uriSpec{rawURI(":Zzz-not-hex")} }, ""},
	{"uri-malformed-truncated-key", func(in *input, c *certSpec) { c.URIs = []uriSpec{rawURI(":Z0102")} }, ""},
	{"uri-malformed-then-good", func(in *input, c *certSpec) { c.URIs = []uriSpec{rawURI("nobody"), uriOf(kA)} }, ""},
	{"uri-malformed-no-proof-unheld-target", func(in *input, c *certSpec) {
		// a server holding no server key at all, dialled as E
		c.CN = nm("new", kE)
		c.URIs = []uriSpec{rawURI("nobody")}
		c.Sig.Kind = "none"
		in.Expected = kE
	}, ""},
	{"uri-malformed-own-proof-other-target", func(in *input, c *certSpec) {
		c.URIs = []uriSpec{rawURI("nobody")}
		in.Expected = kE
	}, "dial"},
	// history: the honest server of key E connected genuinely before (and left / stays);
	// then the peer proves its own key A and announces E
	{"prior-victim-left-identity-victim", func(in *input, c *certSpec) {
		in.Prior = []int{kE}
		in.Ident = identSpec{Kind: "other", Key: kE}
	}, "accept-tls"},
	{"prior-victim-stays-identity-victim", func(in *input, c *certSpec) {
		in.Prior = []int{kE}
		in.PriorStays = true
		in.Ident = identSpec{Kind: "other", Key: kE}
	}, "accept-tls"},
	{"prior-victim-left-honest", func(in *input, c *certSpec) { in.Prior = []int{kE} }, "accept-tls"},
	{"prior-victim-left-uri-victim-identity-victim", func(in *input, c *certSpec) {
		in.Prior = []int{kE}
		c.URIs = []uriSpec{uriOf(kE)}
		in.Ident = identSpec{Kind: "other", Key: kE}
	}, "accept-tls"},
	// identity message after the handshake
	{"identity-other-key", func(in *input, c *certSpec) { in.Ident = identSpec{Kind: "other", Key: kB} }, "accept-tls"},
	{"identity-honest-key", func(in *input, c *certSpec) { in.Ident = identSpec{Kind: "other", Key: kE} }, "accept-tls"},
	{"identity-wrong-type", func(in *input, c *certSpec) { in.Ident = identSpec{Kind: "wrongtype"} }, "accept-tls"},
	// the certificate NAMES another key in its URIs (proving only the CN key) and the
	// identity message claims that named key: the identity must be compared with the
	// key PROVEN in the handshake (CN + verified signature), whatever the URIs say
	{"uri-victim-identity-victim", func(in *input, c *certSpec) {
		c.URIs = []uriSpec{uriOf(kE)}
		in.Ident = identSpec{Kind: "other", Key: kE}
	}, "accept-tls"},
	{"uri-victim-then-own-identity-victim", func(in *input, c *certSpec) {
		c.URIs = []uriSpec{uriOf(kE), uriOf(kA)}
		in.Ident = identSpec{Kind: "other", Key: kE}
	}, "accept-tls"},
	{"uri-own-then-victim-identity-victim", func(in *input, c *certSpec) {
		c.URIs = []uriSpec{uriOf(kA), uriOf(kE)}
		in.Ident = identSpec{Kind: "other", Key: kE}
	}, "accept-tls"},
	{"uri-other-held-identity-other-held", func(in *input, c *certSpec) {
		c.URIs = []uriSpec{uriOf(kB)}
		in.Ident = identSpec{Kind: "other", Key: kB}
	}, "accept-tls"},
	{"uri-victim-identity-own", func(in *input, c *certSpec) { c.URIs = []uriSpec{uriOf(kE)} }, "accept-tls"},
	{"no-uri-identity-victim", func(in *input, c *certSpec) {
		c.URIs = nil
		in.Ident = identSpec{Kind: "other", Key: kE}
	}, "accept-tls"},
	{"uri-victim-only-cn-empty-identity-victim", func(in *input, c *certSpec) {
		c.CN = nm("empty", kA)
		c.URIs = []uriSpec{uriOf(kE)}
		in.Ident = identSpec{Kind: "other", Key: kE}
	}, "accept-tls"},
	{"uri-victim-old-cn-identity-victim", func(in *input, c *certSpec) {
		c.CN = nm("old", kA)
		c.URIs = []uriSpec{uriOf(kE)}
		in.Ident = identSpec{Kind: "other", Key: kE}
	}, "accept-tls"},
	{"identity-bad-key", func(in *input, c *certSpec) { in.Ident = identSpec{Kind: "badkey"} }, "accept-tls"},
	// F29: the peer proves its own key, then sends an identity without the public-key field
	{"identity-no-key", func(in *input, c *certSpec) { in.Ident = identSpec{Kind: "nokey"} }, "accept-tls"},
	{"identity-other-key-old-cn", func(in *input, c *certSpec) {
		c.CN = nm("old", kA)
		in.Ident = identSpec{Kind: "other", Key: kB}
	}, "accept-tls"},
}

// u0 is the first URI of the certificate (added when an earlier deviation removed them).
func u0(c *certSpec) *uriSpec {
	if len(c.URIs) == 0 {
		c.URIs = []uriSpec{uriOf(kA)}
	}
	return &c.URIs[0]
}

func rawURI(opaque string) uriSpec {
	return uriSpec{Scheme: "onet-pubkey", Raw: &opaque}
}

func applicable(d deviation, level, role string) bool {
	switch d.only {
	case "dial":
		return role == "dial"
	case "accept":
		return role == "accept"
	case "tls":
		return level == "tls"
	case "accept-tls":
		return level == "tls" && role == "accept"
	}
	return true
}

func deviate(level, suite, role string, d deviation) input {
	in := base(level, suite, role, kA)
	d.apply(&in, in.Chain[0].Cert)
	in.Class = classOf(role, d.name)
	if role == "accept" {
		in.Expected = 0
	}
	return in
}

func classOf(role, name string) string { return role + ":" + name }

var suiteNames = []string{"Ed25519", "bn256.g2"}
var roles = []string{"dial", "accept"}

func corpus() []interface{} {
	var ins []interface{}
	find := func(name string) deviation {
		for _, d := range deviations {
			if d.name == name {
				return d
			}
		}
		panic(name)
	}
	for _, s := range suiteNames {
		// F09 witness (Tls.f09_witness) on the verifier and over a real handshake
		ins = append(ins, deviate("unit", s, "dial", find("F09-uri-names-target")))
		ins = append(ins, deviate("tls", s, "dial", find("F09-uri-names-target")))
		// relay witness (Tls.relay_witness), both roles
		for _, r := range roles {
			ins = append(ins, deviate("unit", s, r, find("relay")))
			ins = append(ins, deviate("tls", s, r, find("relay")))
		}
		// F29 witness (Tls.crash_refuted)
		ins = append(ins, deviate("tls", s, "accept", find("identity-no-key")))
		// C08-N1 regression (TlsProofs.previous_variant_resumption_refuted; fixed in /repo): ticket alone, no certificate
		ins = append(ins, deviate("tls", s, "accept", find("resume-same-no-certificate")))
		// shared-verifier witness (TlsProofs.shared_verifier_refuted; /repo keeps the verifier per dial)
		ins = append(ins, concInput(s, "1.3", concCases[0]))
		// honest handshakes
		for _, r := range roles {
			ins = append(ins, base("unit", s, r, kA))
			ins = append(ins, base("tls", s, r, kA))
		}
	}
	return ins
}

func randName(rng *rand.Rand) nameSpec {
	styles := []string{"new", "new", "new", "upper", "old", "junk", "hexjunk", "empty"}
	return nm(styles[rng.Intn(len(styles))], rng.Intn(nKeys-1)+1)
}

// mutate applies n random field changes to the honest input.
func mutate(rng *rand.Rand, in *input, n int) {
	for i := 0; i < n; i++ {
		if len(in.Chain) == 0 || in.Chain[0].Cert == nil {
			return
		}
		c := in.Chain[0].Cert
		switch rng.Intn(15) {
		case 0:
			c.CN = randName(rng)
		case 1:
			k := rng.Intn(4)
			c.URIs = nil
			for j := 0; j < k; j++ {
				u := uriSpec{Scheme: "onet-pubkey", Name: randName(rng)}
				if rng.Intn(6) == 0 {
					u.Scheme = "other"
				}
				if rng.Intn(6) == 0 {
					u.Svc = "svc"
				}
				if rng.Intn(6) == 0 {
					u = rawURI([]string{"nobody", "", ":", ":Zzz-not-hex", ":Z0102"}[rng.Intn(5)])
				}
				c.URIs = append(c.URIs, u)
			}
		case 2:
			c.Sig.Kind = []string{"sig", "sig", "sig", "none", "garbage", "empty"}[rng.Intn(6)]
		case 3:
			c.Sig.Signer = []int{kA, kB}[rng.Intn(2)]
			c.Sig.How = "own"
		case 4:
			c.Sig.Nonce = []string{"cur", "cur", "stale", "foreign"}[rng.Intn(4)]
		case 5:
			if rng.Intn(2) == 0 {
				o := randName(rng)
				if o.Style == "empty" {
					o.Style = "new"
				}
				c.Sig.Over = &o
			} else {
				c.Sig.Over = nil
			}
		case 6:
			// the honest holder's proof
			c.Sig = sigSpec{Kind: "sig", Signer: kE, Nonce: []string{"cur", "stale"}[rng.Intn(2)], How: "oracle"}
		case 7:
			switch rng.Intn(3) {
			case 0:
				c.NotBefore, c.NotAfter = -7200, -30-rng.Intn(1000)
			case 1:
				c.NotBefore, c.NotAfter = 30+rng.Intn(1000), 7200
			default:
				c.NotBefore, c.NotAfter = -300, 7200
			}
		case 8:
			c.Signer = []string{"self", "otherkey", "ca"}[rng.Intn(3)]
		case 9:
			c.EKU = []string{"both", "server", "client", "any", "none"}[rng.Intn(5)]
		case 10:
			c.Crit = rng.Intn(3) == 0
		case 11:
			in.Expected = rng.Intn(nKeys-1) + 1
		case 12:
			switch rng.Intn(5) {
			case 0:
				in.Chain = append(in.Chain, rawSpec{Kind: "one", Cert: honestSpec(kB, 1)})
			case 1:
				in.Chain[0].Kind = "two"
			case 2:
				in.Chain = nil
			case 3:
				in.Chain = append([]rawSpec{{Kind: "junk"}}, in.Chain...)
			}
		case 14:
			c.Sig.Bind = []string{"", "pinned", "cert", "other"}[rng.Intn(4)]
		case 13:
			if in.Level == "tls" {
				switch rng.Intn(4) {
				case 0:
					c.TLSKey, in.HSKey = 2, 0
				case 1:
					in.Ident = identSpec{Kind: "other", Key: rng.Intn(nKeys-1) + 1}
				case 2:
					in.Ident = identSpec{Kind: []string{"wrongtype", "badkey", "nokey"}[rng.Intn(3)]}
				case 3:
					in.Reident = rng.Intn(nKeys-1) + 2
				}
				if rng.Intn(3) == 0 {
					// name a key in the URIs and claim exactly that key afterwards
					k := rng.Intn(nKeys-1) + 1
					c.URIs = append([]uriSpec{uriOf(k)}, c.URIs...)
					in.Ident = identSpec{Kind: "other", Key: k}
				}
			}
		}
	}
}

// Two overlapping dials of the honest host (level conc): it dials key Expected
// (observed link) and key A; the peer holds A (and B), answers the dial to A
// honestly and presents the certificate below on the first link.
type concCase struct {
	name     string
	expected int
	apply    func(c *certSpec)
}

var concCases = []concCase{
	// the proof made for the OTHER dial (key A, the other dial's nonce) on the link dialled for E
	{"other-dial-proof", kE, func(c *certSpec) { c.Sig.Nonce = "other" }},
	{"other-dial-proof-old-style", kE, func(c *certSpec) { c.Sig.Nonce = "other"; c.URIs = nil }},
	{"other-dial-proof-uri-names-target", kE, func(c *certSpec) { c.Sig.Nonce = "other"; c.URIs = []uriSpec{uriOf(kE)} }},
	{"other-dial-proof-uri-names-both", kE, func(c *certSpec) { c.Sig.Nonce = "other"; c.URIs = []uriSpec{uriOf(kA), uriOf(kE)} }},
	// the peer's own key over THIS dial's nonce
	{"own-key-this-nonce", kE, func(c *certSpec) {}},
	// right key, but the proof is over the other dial's nonce
	{"target-held-proof-over-other-nonce", kA, func(c *certSpec) { c.Sig.Nonce = "other" }},
	// both dials answered honestly (two different held keys): both links come up
	{"honest-both", kB, func(c *certSpec) { *c = *honestSpec(kB, 0) }},
	{"honest-both-proof-over-other-nonce", kB, func(c *certSpec) { *c = *honestSpec(kB, 0); c.Sig.Nonce = "other" }},
}

func concInput(suite, ver string, cc concCase) input {
	in := base("conc", suite, "dial", kA)
	cc.apply(in.Chain[0].Cert)
	in.Expected = cc.expected
	in.Other = kA
	in.TLSVer = ver
	in.Class = "conc:" + cc.name
	return in
}

func generate(rng *rand.Rand, tier string) []interface{} {
	var ins []interface{}
	for _, s := range suiteNames {
		for _, v := range []string{"1.3", "1.2"} {
			for _, cc := range concCases {
				ins = append(ins, concInput(s, v, cc))
			}
		}
	}
	// 1. every single deviation x suite x role, on the verifier and over real handshakes
	for _, s := range suiteNames {
		for _, r := range roles {
			for i, d := range deviations {
				if applicable(d, "unit", r) {
					ins = append(ins, deviate("unit", s, r, d))
				}
				if applicable(d, "tls", r) {
					in := deviate("tls", s, r, d)
					if tier == "quick" {
						// alternate the protocol version instead of the full product
						if (i+len(s)+len(r))%2 == 0 {
							in.TLSVer = "1.2"
						}
						ins = append(ins, in)
						// the honest router with UnauthOk set (simulation / local test servers)
						inU := clone(in)
						inU.UnauthOk = true
						ins = append(ins, inU)
					} else {
						for _, v := range []string{"1.2", "1.3"} {
							inU := clone(in)
							inU.TLSVer = v
							inU.UnauthOk = true
							ins = append(ins, inU)
						}
						ins = append(ins, in)
						in2 := clone(in)
						in2.TLSVer = "1.2"
						ins = append(ins, in2)
					}
				}
			}
			for _, v := range []string{"1.2", "1.3"} {
				in := base("tls", s, r, kA)
				in.TLSVer = v
				in.Msgs = 3
				ins = append(ins, in)
				inU := clone(in)
				inU.UnauthOk = true
				ins = append(ins, inU)
			}
		}
	}
	// 2. pairs of deviations on the verifier (a dropped check often shows only when
	//    another deviation no longer masks it)
	nd := len(deviations)
	for _, s := range suiteNames {
		for _, r := range roles {
			for i := 0; i < nd; i++ {
				for j := i + 1; j < nd; j++ {
					if tier == "quick" && (i*31+j*17+len(s)+len(r))%2 != 0 {
						continue
					}
					a, b := deviations[i], deviations[j]
					if !applicable(a, "unit", r) || !applicable(b, "unit", r) {
						continue
					}
					in := base("unit", s, r, kA)
					a.apply(&in, in.Chain[0].Cert)
					if len(in.Chain) == 0 || in.Chain[0].Cert == nil {
						continue
					}
					b.apply(&in, in.Chain[0].Cert)
					in.Class = classOf(r, "pair")
					if r == "accept" {
						in.Expected = 0
					}
					ins = append(ins, in)
				}
			}
		}
	}
	// 3. seeded random combinations
	nUnit, nTLS := 2500, 400
	if tier != "quick" {
		nUnit, nTLS = 60000, 6000
	}
	for i := 0; i < nUnit+nTLS; i++ {
		level := "unit"
		if i >= nUnit {
			level = "tls"
		}
		s := suiteNames[rng.Intn(2)]
		r := roles[rng.Intn(2)]
		in := base(level, s, r, kA)
		in.TLSVer = []string{"1.2", "1.3"}[rng.Intn(2)]
		in.Msgs = 1 + rng.Intn(3)
		in.UnauthOk = level == "tls" && rng.Intn(2) == 0
		if level == "tls" && r == "accept" && rng.Intn(8) == 0 {
			in.Resume = []string{"same", "restart"}[rng.Intn(2)]
		}
		if level == "tls" && r == "accept" && rng.Intn(6) == 0 {
			in.Prior = []int{kE}
			in.PriorStays = rng.Intn(2) == 0
		}
		mutate(rng, &in, 1+rng.Intn(4))
		if r == "accept" {
			in.Expected = 0
		}
		in.Class = classOf(r, fmt.Sprintf("random-%s", level))
		ins = append(ins, in)
	}
	return ins
}
