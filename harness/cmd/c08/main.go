// C08 harness: TLS links exist only between peers that proved the keys they
// claim.  Deviating TLS clients and servers (crypto/tls + crypto/x509, own
// certificates) against the honest onet verifier, listener, dialler and
// router of /repo; the abstracted certificate and the observation go to Coq
// (Onet.Corr.C08).
package main

import (
	"encoding/json"
	"flag"
	"fmt"
	"io/ioutil"
	"math/rand"
	"os"
	"path/filepath"
	"sync"

	"go.dedis.ch/onet/v3/log"

	"verifharness/lib"
)

var harness = lib.Harness{
	Prop:   "C08",
	Import: "Onet.Corr.C08",
	Rule: "corpus = the three refutation witnesses (F09 URI/CN split, F28 relay through a running honest holder, F29 identity without key) + honest handshakes; " +
		"every single deviation of the quantifier x {Ed25519, bn256.g2} x {dial, accept}, on the real verifier closure (unit) and over real " +
		"TLS 1.2/1.3 handshakes with a fresh honest onet router per case, with Router.UnauthOk false and true (tls; crash-prone inputs in a child process); pairs of deviations on the " +
		"verifier; malformed onet-pubkey URIs; a genuine earlier connection of the impersonated server (prior); two overlapping dials of the honest host with the first answer held back until the second ClientHello is in (conc); seeded random field mutations of the honest certificate / chain / identity message / mid-link second identity; " +
		"non-trivial = the peer presents at least one certificate; distinct = distinct Coq case term",
	Shard:    400,
	Generate: generate,
	Run:      run,
	Corpus:   corpus,
}

type replayFile struct {
	Property string            `json:"property"`
	Cases    []json.RawMessage `json:"inputs"`
}

// Same command line as lib.Main; cases are independent (own keys, own routers,
// own ports), so they are run by a pool of workers and written in input order.
func main() {
	seed := flag.Int64("seed", 1, "seed")
	tier := flag.String("tier", "quick", "quick|thorough|search")
	out := flag.String("out", "", "output directory")
	replay := flag.String("replay", "", "replay file (json with inputs)")
	workers := flag.Int("workers", 16, "parallel cases")
	one := flag.Bool("one", false, "child mode: one input on stdin, its observation on stdout")
	flag.Parse()
	if *one {
		log.OutputToBuf()
		log.SetDebugVisible(0)
		childMain()
		return
	}
	if *out == "" {
		fmt.Fprintln(os.Stderr, "need -out")
		os.Exit(2)
	}
	os.MkdirAll(*out, 0755)
	old, _ := filepath.Glob(filepath.Join(*out, "cases_*.v"))
	for _, f := range old {
		os.Remove(f)
	}
	// the honest routers log every rejected handshake; keep that off the terminal
	log.OutputToBuf()
	log.SetDebugVisible(0)
	rng := rand.New(rand.NewSource(*seed))
	var inputs []interface{}
	if *replay != "" {
		b, err := ioutil.ReadFile(*replay)
		if err != nil {
			panic(err)
		}
		var rf replayFile
		if err := json.Unmarshal(b, &rf); err != nil {
			panic(err)
		}
		for _, c := range rf.Cases {
			inputs = append(inputs, c)
		}
	} else {
		inputs = append(inputs, corpus()...)
		if *tier != "corpus" {
			inputs = append(inputs, generate(rng, *tier)...)
		}
	}
	results := make([]lib.Case, len(inputs))
	var wg sync.WaitGroup
	next := make(chan int)
	for k := 0; k < *workers; k++ {
		wg.Add(1)
		go func() {
			defer wg.Done()
			for i := range next {
				raw, err := json.Marshal(inputs[i])
				if err != nil {
					panic(err)
				}
				c := run(raw)
				if c.Input == nil {
					c.Input = json.RawMessage(raw)
				}
				results[i] = c
				if i%50 == 0 {
					log.GetStdErr()
					log.GetStdOut()
				}
			}
		}()
	}
	for i := range inputs {
		next <- i
	}
	close(next)
	wg.Wait()
	var cases []lib.Case
	discarded := 0
	for _, c := range results {
		if c.Discard {
			discarded++
			if os.Getenv("VERIF_DEBUG") != "" {
				b, _ := json.Marshal(c.Obs)
				fmt.Fprintln(os.Stderr, "discarded:", c.Class, string(b))
			}
			continue
		}
		cases = append(cases, c)
	}
	// A discarded case is a case nobody looked at.  None is expected on a healthy
	// tree; more than a handful means the scenarios are no longer reached, which
	// must not pass for "nothing found".
	if limit := 3 + len(inputs)/200; discarded > limit {
		fmt.Fprintf(os.Stderr, "C08 harness: %d of %d cases could not be run (limit %d); first reasons:\n", discarded, len(inputs), limit)
		n := 0
		for _, c := range results {
			if c.Discard && n < 10 {
				b, _ := json.Marshal(c.Obs)
				fmt.Fprintln(os.Stderr, "  ", c.Class, string(b))
				n++
			}
		}
		os.Exit(3)
	}
	lib.WriteCases(harness, *out, cases, discarded, *seed, *tier)
}
