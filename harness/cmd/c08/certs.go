// Building deviating certificates (crypto/x509 directly, nothing of onet's
// certificate maker) from a JSON specification, and abstracting the same
// specification to the Coq certificate record of Net/Tls.v.
package main

import (
	"bytes"
	"crypto/ecdsa"
	"crypto/elliptic"
	"crypto/rand"
	"crypto/x509"
	"crypto/x509/pkix"
	"encoding/asn1"
	"encoding/hex"
	"fmt"
	"math/big"
	"net/url"
	"strings"
	"time"

	"go.dedis.ch/kyber/v3"
	"go.dedis.ch/kyber/v3/sign/schnorr"
	"go.dedis.ch/kyber/v3/suites"
	"go.dedis.ch/kyber/v3/util/key"
	"go.dedis.ch/onet/v3/network"

	"verifharness/lib"
)

// Roles of server keys (abstract key numbers of the Coq case):
//
//	0  the honest node under test
//	1  another honest server ("E"): the deviating peer does NOT hold its private key
//	2,3 keys the deviating peer holds ("A", "B")
//	4  a key nobody in the scenario holds
const (
	kHonest = 0
	kE      = 1
	kA      = 2
	kB      = 3
	kNobody = 4
	nKeys   = 5
)

// Roles of TLS (certificate) keys: 0 the peer's own, 1 a second one of the
// peer, 2 a key the peer does not hold (e.g. an honest server's).
const nTLSKeys = 3

type nameSpec struct {
	Style string `json:"style"` // new | upper | old | junk | hexjunk | empty
	Key   int    `json:"key"`
}

type uriSpec struct {
	Scheme string   `json:"scheme"` // onet-pubkey | other
	Svc    string   `json:"svc"`    // "" for the server key
	Name   nameSpec `json:"name"`
	// Raw, if set, is the opaque part verbatim (malformed URIs: "nobody", "", ":", ":Zzz", ":Z0102")
	Raw *string `json:"raw,omitempty"`
}

type sigSpec struct {
	Kind   string    `json:"kind"`   // sig | garbage | empty | none
	Signer int       `json:"signer"` // server key that signs
	Nonce  string    `json:"nonce"`  // cur | stale | foreign
	Over   *nameSpec `json:"over"`   // name covered by the signature (nil = the certificate's CN)
	How    string    `json:"how"`    // own (peer signs with a key it holds) | oracle (taken from an honest holder's certificate for that nonce)
	// Bind: which signed-bytes format an "own" signature uses: "" = the format the
	// code under test uses itself (detected at start), "pinned" = nonce||CN,
	// "cert" = nonce||CN||public key of this certificate, "other" = ... of the
	// peer's second TLS key
	Bind string `json:"bind,omitempty"`
}

type certSpec struct {
	CN        nameSpec  `json:"cn"`
	URIs      []uriSpec `json:"uris"`
	Sig       sigSpec   `json:"sig"`
	TLSKey    int       `json:"tlskey"`
	Signer    string    `json:"signer"`    // self | otherkey (issuer = subject, signed by another key) | ca (issuer differs, signed by that CA's key)
	NotBefore int       `json:"notbefore"` // seconds relative to now
	NotAfter  int       `json:"notafter"`
	EKU       string    `json:"eku"` // both | server | client | any | none
	Crit      bool      `json:"crit"`
}

// rawSpec is one entry of the certificate list the peer sends.
type rawSpec struct {
	Kind string    `json:"kind"` // one | two (two certificates concatenated in one entry) | junk
	Cert *certSpec `json:"cert"`
}

// world holds the concrete keys behind the abstract numbers of one case.
type world struct {
	suite       suites.Suite
	sname       string
	keys        [nKeys]*key.Pair
	tls         [nTLSKeys]*ecdsa.PrivateKey
	ca          *ecdsa.PrivateKey
	nonces      map[string][]byte                              // cur, stale, foreign
	oracle      func(signer int, nonce []byte) ([]byte, error) // returns the honest holder's certificate (DER)
	oracleCache map[string][]byte
	abs         absCtx
	nowBase     time.Time
}

// absCtx: facts learnt while running that the abstraction to Coq needs.
type absCtx struct {
	// the holder's proof covers its certificate key (format of the binding repair)
	OracleBound bool `json:"relayed_proof_bound_to_tls_key,omitempty"`
	// the honest verifier handed out NO nonce for this handshake (empty ServerName /
	// no AcceptableCAs): signatures "over the current nonce" are over the empty
	// string and are abstracted as nonce 3, never as this handshake's nonce 0
	NoNonce bool `json:"verifier_sent_no_nonce,omitempty"`
	// the honest holder could not be made to hand out its proof (it did not dial /
	// did not answer / its proof covers neither known format): the peer presents
	// the certificate WITHOUT the proof it could not get
	OracleFailed bool `json:"relay_failed,omitempty"`
	// level conc: the second dial did not start while the first handshake was held
	// back (a host that serialises its dials): "other" is then just a foreign nonce
	NotInterleaved bool `json:"dials_did_not_overlap,omitempty"`
}

// errHarness marks failures that no implementation under test can cause.
type errHarness struct{ msg string }

func (e errHarness) Error() string { return e.msg }

func isHarnessErr(err error) bool { _, ok := err.(errHarness); return ok }

func (w *world) setCur(n []byte) {
	if len(n) == 0 {
		w.abs.NoNonce = true
		n = []byte{}
	}
	w.nonces["cur"] = n
}

func newWorld(sname string) *world {
	w := &world{suite: suites.MustFind(sname), sname: sname, nonces: map[string][]byte{}, oracleCache: map[string][]byte{}}
	for i := range w.keys {
		w.keys[i] = key.NewKeyPair(w.suite)
	}
	for i := range w.tls {
		w.tls[i] = mustECDSA()
	}
	w.ca = mustECDSA()
	w.nowBase = time.Now()
	return w
}

func mustECDSA() *ecdsa.PrivateKey {
	k, err := ecdsa.GenerateKey(elliptic.P256(), rand.Reader)
	if err != nil {
		panic(err)
	}
	return k
}

// newStyle is the harness's own implementation of the new-style name
// ("Z" + hex of the marshalled point); checked against onet's pubToCN at start.
func newStyle(p kyber.Point) string {
	var b bytes.Buffer
	p.MarshalTo(&b)
	return "Z" + hex.EncodeToString(b.Bytes())
}

func (w *world) name(n nameSpec) string {
	p := w.keys[n.Key].Public
	switch n.Style {
	case "new":
		return newStyle(p)
	case "upper":
		return "Z" + strings.ToUpper(newStyle(p)[1:])
	case "old":
		return p.String()
	case "junk":
		return "Zzz-not-hex"
	case "hexjunk":
		return "Z0102"
	case "empty":
		return ""
	}
	panic("bad name style " + n.Style)
}

var sigOID = network.VerifC08SigOID()

// boundFormat: does the code under test sign nonce||CN||certificate key (the
// binding repair) or nonce||CN (pinned)?  Detected once from a certificate of
// the real certificate maker.
var boundFormat = detectFormat()

func detectFormat() bool {
	for _, sn := range []string{"Ed25519", "bn256.g2"} {
		st := suites.MustFind(sn)
		p := st.Point().Pick(st.RandomStream())
		if newStyle(p) != network.VerifC08PubToCN(p) {
			panic("the harness's name encoding differs from onet's pubToCN for " + sn)
		}
		if q, err := network.VerifC08PubFromCN(st, newStyle(p)); err != nil || !q.Equal(p) {
			panic("pubFromCN does not invert the new-style name for " + sn)
		}
	}
	suite := suites.MustFind("Ed25519")
	kp := key.NewKeyPair(suite)
	si := network.NewServerIdentity(kp.Public, network.NewTLSAddress("127.0.0.1:1"))
	si.SetPrivate(kp.Private)
	nonce := network.VerifC08MkNonce(suite)
	c, err := network.VerifC08HonestCertificate(suite, si, nonce)
	if err != nil {
		panic(err)
	}
	bound, err := proofFormat(suite, kp.Public, nonce, c.Certificate[0])
	if err != nil {
		panic(err)
	}
	return bound
}

// proofFormat extracts the proof from an honest certificate and tells which
// bytes it covers.
func proofFormat(suite suites.Suite, pub kyber.Point, nonce []byte, der []byte) (bool, error) {
	c, err := x509.ParseCertificate(der)
	if err != nil {
		return false, err
	}
	var sig []byte
	for _, x := range c.Extensions {
		if x.Id.Equal(sigOID) {
			sig = x.Value
		}
	}
	if sig == nil {
		return false, fmt.Errorf("honest certificate without the signature extension")
	}
	cn, err := asn1.Marshal(newStyle(pub))
	if err != nil {
		return false, err
	}
	msg := append(append([]byte{}, nonce...), cn...)
	if schnorr.Verify(suite, pub, msg, sig) == nil {
		return false, nil
	}
	if schnorr.Verify(suite, pub, append(msg, c.RawSubjectPublicKeyInfo...), sig) == nil {
		return true, nil
	}
	return false, fmt.Errorf("honest proof covers neither nonce||CN nor nonce||CN||key")
}

func (w *world) spki(tlskey int) []byte {
	b, err := x509.MarshalPKIXPublicKey(w.tls[tlskey].Public())
	if err != nil {
		panic(err)
	}
	return b
}

// bindOf resolves the format of an "own" signature.
func bindOf(s sigSpec) string {
	if s.Bind == "" {
		if boundFormat {
			return "cert"
		}
		return "pinned"
	}
	return s.Bind
}

func (w *world) signature(s sigSpec, cn nameSpec, tlskey int) ([]byte, error) {
	switch s.Kind {
	case "none":
		return nil, nil
	case "empty":
		return []byte{}, nil
	case "garbage":
		b := make([]byte, 64)
		for i := range b {
			b[i] = byte(i*7 + 3)
		}
		return b, nil
	}
	over := cn
	if s.Over != nil {
		over = *s.Over
	}
	nonce := w.nonces[s.Nonce]
	if nonce == nil {
		return nil, errHarness{fmt.Sprintf("no nonce %q", s.Nonce)}
	}
	if s.How == "oracle" {
		// one request per (holder, nonce): the proof can be copied into any number of certificates
		ck := fmt.Sprintf("%d/%x", s.Signer, nonce)
		if sig, ok := w.oracleCache[ck]; ok {
			return sig, nil
		}
		der, err := w.oracle(s.Signer, nonce)
		if err != nil {
			if isHarnessErr(err) {
				return nil, err
			}
			w.abs.OracleFailed = true
			return nil, nil
		}
		bound, err := proofFormat(w.suite, w.keys[s.Signer].Public, nonce, der)
		if err != nil {
			w.abs.OracleFailed = true
			return nil, nil
		}
		w.abs.OracleBound = bound
		sig, err := extractSig(der)
		if err == nil {
			w.oracleCache[ck] = sig
		}
		return sig, err
	}
	der, err := asn1.Marshal(w.name(over))
	if err != nil {
		return nil, err
	}
	msg := append(append([]byte{}, nonce...), der...)
	switch bindOf(s) {
	case "cert":
		msg = append(msg, w.spki(tlskey)...)
	case "other":
		msg = append(msg, w.spki(1)...)
	}
	return schnorr.Sign(w.suite, w.keys[s.Signer].Private, msg)
}

func (w *world) buildCert(cs *certSpec) ([]byte, error) {
	sig, err := w.signature(cs.Sig, cs.CN, cs.TLSKey)
	if err != nil {
		return nil, err
	}
	serial := new(big.Int)
	sb := make([]byte, 16)
	rand.Read(sb)
	sb[0] &= 0x7f
	serial.SetBytes(sb)
	tmpl := &x509.Certificate{
		BasicConstraintsValid: true,
		IsCA:                  false,
		NotBefore:             w.nowBase.Add(time.Duration(cs.NotBefore) * time.Second),
		NotAfter:              w.nowBase.Add(time.Duration(cs.NotAfter) * time.Second),
		SerialNumber:          serial,
		SignatureAlgorithm:    x509.ECDSAWithSHA384,
	}
	if cs.CN.Style != "empty" {
		tmpl.Subject = pkix.Name{CommonName: w.name(cs.CN)}
	} else {
		tmpl.Subject = pkix.Name{Organization: []string{"no common name"}}
	}
	switch cs.EKU {
	case "both":
		tmpl.ExtKeyUsage = []x509.ExtKeyUsage{x509.ExtKeyUsageServerAuth, x509.ExtKeyUsageClientAuth}
	case "server":
		tmpl.ExtKeyUsage = []x509.ExtKeyUsage{x509.ExtKeyUsageServerAuth}
	case "client":
		tmpl.ExtKeyUsage = []x509.ExtKeyUsage{x509.ExtKeyUsageClientAuth}
	case "any":
		tmpl.ExtKeyUsage = []x509.ExtKeyUsage{x509.ExtKeyUsageAny}
	case "none":
	default:
		return nil, fmt.Errorf("bad eku %q", cs.EKU)
	}
	for _, u := range cs.URIs {
		scheme := "onet-pubkey"
		if u.Scheme != "onet-pubkey" {
			scheme = "other-scheme"
		}
		var opaque string
		if u.Raw != nil {
			opaque = *u.Raw // malformed: not "<service>:<name>"
		} else {
			opaque = u.Svc + ":" + w.name(u.Name)
		}
		tmpl.URIs = append(tmpl.URIs, &url.URL{Scheme: scheme, Opaque: opaque})
	}
	if sig != nil {
		tmpl.ExtraExtensions = append(tmpl.ExtraExtensions, pkix.Extension{Id: sigOID, Critical: false, Value: sig})
	}
	if cs.Crit {
		tmpl.ExtraExtensions = append(tmpl.ExtraExtensions, pkix.Extension{Id: asn1.ObjectIdentifier{1, 3, 6, 1, 4, 1, 51281, 9, 9}, Critical: true, Value: []byte{5, 0}})
	}
	pub := w.tls[cs.TLSKey].Public()
	switch cs.Signer {
	case "self":
		return x509.CreateCertificate(rand.Reader, tmpl, tmpl, pub, w.tls[cs.TLSKey])
	case "otherkey":
		return x509.CreateCertificate(rand.Reader, tmpl, tmpl, pub, w.ca)
	case "ca":
		parent := &x509.Certificate{
			Subject:               pkix.Name{CommonName: "some other issuer"},
			SerialNumber:          big.NewInt(7),
			IsCA:                  true,
			BasicConstraintsValid: true,
			KeyUsage:              x509.KeyUsageCertSign,
		}
		return x509.CreateCertificate(rand.Reader, tmpl, parent, pub, w.ca)
	}
	return nil, fmt.Errorf("bad signer %q", cs.Signer)
}

func (w *world) buildChain(raws []rawSpec) ([][]byte, error) {
	var out [][]byte
	for _, r := range raws {
		switch r.Kind {
		case "junk":
			out = append(out, []byte{0x30, 0x03, 0x02, 0x01, 0x01})
		case "one", "two":
			der, err := w.buildCert(r.Cert)
			if err != nil {
				return nil, err
			}
			if r.Kind == "two" {
				der2, err := w.buildCert(r.Cert)
				if err != nil {
					return nil, err
				}
				der = append(append([]byte{}, der...), der2...)
			}
			out = append(out, der)
		default:
			return nil, fmt.Errorf("bad raw kind %q", r.Kind)
		}
	}
	return out, nil
}

// ---- abstraction to Coq --------------------------------------------------

func coqName(n nameSpec) string {
	switch n.Style {
	case "new":
		return fmt.Sprintf("(CNKey SNew %d)", n.Key)
	case "upper":
		return fmt.Sprintf("(CNKey SUpper %d)", n.Key)
	case "old":
		return fmt.Sprintf("(CNKey SOld %d)", n.Key)
	case "junk", "hexjunk":
		return "CNJunk"
	case "empty":
		return "CNEmpty"
	}
	panic("bad name style")
}

func nonceNum(s string, ctx absCtx) int {
	switch s {
	case "cur":
		if ctx.NoNonce {
			return 3
		}
		return 0
	case "stale":
		return 1
	case "foreign":
		return 2
	case "other":
		// the nonce the honest host drew for its OTHER, overlapping dial
		// (Tls.conc_nonce); just some other nonce if the dials did not overlap
		if ctx.NotInterleaved {
			return 2
		}
		return 4
	}
	panic("bad nonce " + s)
}

// abstract number of "the honest holder's certificate key" (no certificate of
// the peer ever carries it)
const honestTLSKey = 3

func coqSig(s sigSpec, cn nameSpec, tlskey int, ctx absCtx) string {
	switch s.Kind {
	case "none":
		return "None"
	case "empty":
		return "(Some SigEmpty)"
	case "garbage":
		return "(Some SigGarbage)"
	}
	over := cn
	if s.Over != nil {
		over = *s.Over
	}
	tk := "None"
	if s.How == "oracle" {
		if ctx.OracleFailed {
			return "None"
		}
		// what an honest holder signs: the nonce it is given and its own new-style name
		// (and, with the binding repair, its own certificate key)
		over = nameSpec{Style: "new", Key: s.Signer}
		if ctx.OracleBound {
			tk = fmt.Sprintf("(Some %d)", honestTLSKey)
		}
	} else {
		switch bindOf(s) {
		case "cert":
			tk = fmt.Sprintf("(Some %d)", tlskey)
		case "other":
			tk = "(Some 1)"
		}
	}
	return fmt.Sprintf("(Some (SigBy %d %d %s %s))", s.Signer, nonceNum(s.Nonce, ctx), coqName(over), tk)
}

func coqCert(c *certSpec, ctx absCtx) string {
	var us []string
	for _, u := range c.URIs {
		if u.Raw != nil {
			// no second colon / nothing after it / not a key: names no key, whatever the service part
			name := "CNJunk"
			if *u.Raw == ":" {
				name = "CNEmpty"
			}
			us = append(us, fmt.Sprintf("URI %s %s %s", lib.Bool(u.Scheme == "onet-pubkey"), lib.Bool(strings.HasPrefix(*u.Raw, ":")), name))
			continue
		}
		us = append(us, fmt.Sprintf("URI %s %s %s", lib.Bool(u.Scheme == "onet-pubkey"), lib.Bool(u.Svc == ""), coqName(u.Name)))
	}
	signer := ""
	switch c.Signer {
	case "self":
		signer = "SgSelf"
	case "otherkey":
		signer = "SgOtherKey"
	case "ca":
		signer = "SgCA"
	}
	eku := c.EKU == "both" || c.EKU == "server" || c.EKU == "any" || c.EKU == "none"
	return fmt.Sprintf("(mkcert %s %s %s %d %s (%d)%%Z (%d)%%Z %s %s)", coqName(c.CN), lib.List(us), coqSig(c.Sig, c.CN, c.TLSKey, ctx),
		c.TLSKey, signer, c.NotBefore, c.NotAfter, lib.Bool(eku), lib.Bool(c.Crit))
}

func coqChain(raws []rawSpec, ctx absCtx) string {
	var rs []string
	for _, r := range raws {
		switch r.Kind {
		case "junk":
			rs = append(rs, "RawJunk")
		case "two":
			rs = append(rs, "RawMany")
		default:
			rs = append(rs, "RawOne "+coqCert(r.Cert, ctx))
		}
	}
	return lib.List(rs)
}
