// C01 harness.
//
// trace cases: a receiving server R that does not know the tree is driven one
// goroutine step at a time (connection goroutines, flush goroutines, the
// response handler), the order being forced with the verif schedule points; a
// snapshot (tree state, parked ids, accepted ids) follows every step. The Coq
// model (Overlay/Delivery.v) runs the same action list.
//
// e2e cases: free-running clusters on the in-memory and the TCP transport,
// several runs over one tree, sends to parents / children / arbitrary nodes;
// only the send log and the receive log are compared.
package main

import (
	"encoding/json"
	"fmt"
	"math/rand"
	"os"
	"sort"
	"strings"
	"sync"
	"sync/atomic"
	"time"

	"github.com/google/uuid"
	"go.dedis.ch/kyber/v3/suites"
	"go.dedis.ch/onet/v3"
	"go.dedis.ch/onet/v3/log"
	"go.dedis.ch/onet/v3/network"

	"verifharness/lib"
)

var suite = suites.MustFind("Ed25519")

const protoName = "VerifC01"
const e2eName = "VerifC01E2E"

// Ping is the traced protocol message.
type Ping struct {
	N    int
	Body []byte
}

func body(n int) []byte { return []byte(fmt.Sprintf("payload-%d-%d", n, n*7919)) }

// ---- harness protocol for the trace cases ---------------------------------------

type counters struct {
	sync.Mutex
	accepted []int                    // ids handed to an instance on R (ProcessProtocolMsg)
	wrong    int                      // handed to the wrong instance or with a changed body
	tokOf    map[int]onet.TokenID     // expected token per id
	insts    map[onet.RoundID]*tproto // instances on R by round
	ctor     map[onet.RoundID]int     // constructor calls on R per round
	ctorGate chan struct{}            // when non-nil, constructors on R wait here
	ctorIn   chan struct{}            // signalled when a constructor arrives at the gate
}

var cnt *counters
var rID network.ServerIdentityID

type tproto struct {
	*onet.TreeNodeInstance
	onR bool
}

func newTProto(n *onet.TreeNodeInstance) (onet.ProtocolInstance, error) {
	p := &tproto{TreeNodeInstance: n}
	p.onR = n.ServerIdentity().ID.Equal(rID)
	if p.onR && cnt != nil {
		cnt.Lock()
		cnt.insts[n.Token().RoundID] = p
		cnt.ctor[n.Token().RoundID]++
		if cnt.ctor[n.Token().RoundID] > 1 {
			cnt.wrong++ // a second instance for one token: messages of the run are split between instances
		}
		gate, in := cnt.ctorGate, cnt.ctorIn
		cnt.Unlock()
		if gate != nil {
			select {
			case in <- struct{}{}:
			default:
			}
			<-gate
		}
	}
	if err := p.RegisterHandler(p.handlePing); err != nil {
		return nil, err
	}
	return p, nil
}

func (p *tproto) Start() error { return nil }

func (p *tproto) ProcessProtocolMsg(msg *onet.ProtocolMsg) {
	if p.onR && cnt != nil {
		if pg, ok := msg.Msg.(*Ping); ok {
			cnt.Lock()
			cnt.accepted = append(cnt.accepted, pg.N)
			if want, ok := cnt.tokOf[pg.N]; !ok || !want.Equal(p.Token().ID()) || string(pg.Body) != string(body(pg.N)) {
				cnt.wrong++
			}
			cnt.Unlock()
		}
	}
	p.TreeNodeInstance.ProcessProtocolMsg(msg)
}

func (p *tproto) handlePing(m struct {
	*onet.TreeNode
	Ping
}) error {
	return nil
}

// ---- trace scenarios ----------------------------------------------------------------

type op struct {
	Op   string `json:"op"` // msg | step | respond | localtree | finish
	Tree int    `json:"tree,omitempty"`
	Run  int    `json:"run,omitempty"`
	Pos  int    `json:"pos,omitempty"`
}

type input struct {
	Kind    string `json:"kind"` // trace | e2e
	Name    string `json:"name"`
	Ops     []op   `json:"ops,omitempty"`
	Random  int    `json:"random,omitempty"` // number of random actions after Ops
	Seed    int64  `json:"seed,omitempty"`
	TCP     bool   `json:"tcp,omitempty"`
	Servers int    `json:"servers,omitempty"`
	Runs    int    `json:"runs,omitempty"`
	BF      int    `json:"bf,omitempty"`
	Big     int    `json:"big,omitempty"` // e2e: every fourth message carries a body of this many bytes (several reads per frame on TCP)
}

type tokKey struct{ tree, run int }

func (k tokKey) idx() int { return k.tree*10 + k.run }

const (
	kMsg = iota
	kFlushStart
	kFlush
)

type th struct {
	kind      int
	tree      int
	id        int    // current message id (kMsg, kFlush with a current call)
	pc        string // lookup hit miss parked notreg regd; "" = no current call (kFlush)
	gate      *lib.Gate
	done      chan struct{}
	remaining []int
}

type world struct {
	lt       *onet.LocalTest
	r, p     *onet.Server
	ovR      *onet.Overlay
	trees    []*onet.Tree
	sched    *lib.Sched
	tokens   map[tokKey]*onet.Token
	pid      onet.ProtocolID
	msgTok   map[int]tokKey
	threads  []*th
	nextID   int
	reqs     []int // outstanding tree requests, newest first (as the model's list)
	spare    map[int]*lib.Gate
	acts     []string
	snaps    []string
	failed   string
	finished map[int]bool
}

const wait = 10 * time.Second

func mkTrees(ro *onet.Roster) []*onet.Tree {
	l := ro.List
	mk := func(order []int, chain bool) *onet.Tree {
		root := onet.NewTreeNode(order[0], l[order[0]])
		a := onet.NewTreeNode(order[1], l[order[1]])
		b := onet.NewTreeNode(order[2], l[order[2]])
		root.AddChild(a)
		if chain {
			a.AddChild(b)
		} else {
			root.AddChild(b)
		}
		return onet.NewTree(ro, root)
	}
	return []*onet.Tree{mk([]int{0, 1, 2}, false), mk([]int{0, 1, 2}, true), mk([]int{0, 2, 1}, true)}
}

func (w *world) token(k tokKey) *onet.Token {
	if t, ok := w.tokens[k]; ok {
		return t
	}
	tr := w.trees[k.tree]
	t := &onet.Token{RosterID: tr.Roster.ID, TreeID: tr.ID, ProtoID: w.pid,
		RoundID: onet.RoundID(uuid.Must(uuid.NewRandom())), TreeNodeID: tr.Root.ID}
	w.tokens[k] = t
	return t
}

func (w *world) matchMsg(id int) func([]interface{}) bool {
	return func(args []interface{}) bool {
		if len(args) < 2 {
			return false
		}
		m, ok := args[1].(*onet.ProtocolMsg)
		if !ok {
			return false
		}
		pg, ok := m.Msg.(*Ping)
		return ok && pg.N == id
	}
}

func (w *world) matchTree(i int) func([]interface{}) bool {
	id := w.trees[i].ID
	return func(args []interface{}) bool {
		if len(args) < 2 {
			return false
		}
		if t, ok := args[1].(*onet.Tree); ok {
			return t.ID.Equal(id)
		}
		return false
	}
}

func (w *world) mcoq(id int) string {
	k := w.msgTok[id]
	return fmt.Sprintf("(%d, (%d, %d))", id, k.idx(), k.tree)
}

func (w *world) snapshot() string {
	var ts, ps, ds []string
	for i, t := range w.trees {
		ts = append(ts, fmt.Sprintf("(%d, %d)", i, w.ovR.VerifTreeState(t.ID)))
	}
	for _, m := range w.ovR.VerifPending() {
		if pg, ok := m.Msg.(*Ping); ok {
			ps = append(ps, fmt.Sprint(pg.N))
		}
	}
	cnt.Lock()
	acc := append([]int(nil), cnt.accepted...)
	cnt.Unlock()
	sort.Ints(acc)
	for _, a := range acc {
		ds = append(ds, fmt.Sprint(a))
	}
	return fmt.Sprintf("(Some (mkSnap %s %s %s))", lib.List(ts), lib.List(ps), lib.List(ds))
}

// emit records model actions; only the last one gets the snapshot
func (w *world) emit(acts ...string) {
	for i, a := range acts {
		w.acts = append(w.acts, a)
		if i == len(acts)-1 {
			w.snaps = append(w.snaps, w.snapshot())
		} else {
			w.snaps = append(w.snaps, "None")
		}
	}
}

func (w *world) armSpare(tree int) {
	if w.spare[tree] == nil {
		w.spare[tree] = w.sched.Block("overlay.flushStart", 1, w.matchTree(tree))
	}
}

// waitAny waits until one of the gates is hit or done is closed; the gates that were
// not hit are disabled. It returns the name of the gate hit, or "" for done.
func (w *world) waitAny(gates map[string]*lib.Gate, done <-chan struct{}) string {
	hit := make(chan string, len(gates)+1)
	stop := make(chan struct{})
	for name, g := range gates {
		go func(name string, g *lib.Gate) {
			ok := make(chan bool, 1)
			go func() { ok <- g.WaitHit(wait) }()
			select {
			case v := <-ok:
				if v {
					hit <- name
				}
			case <-stop:
			}
		}(name, g)
	}
	var res string
	select {
	case res = <-hit:
	case <-done:
		// a gate may have been hit just before the goroutine finished; prefer it
		select {
		case res = <-hit:
		case <-time.After(2 * time.Millisecond):
			res = ""
		}
	case <-time.After(wait + time.Second):
		w.failed = "no progress"
		res = "timeout"
	}
	close(stop)
	for name, g := range gates {
		if name != res {
			g.Release()
		}
	}
	return res
}

func (w *world) insert(pos int, t *th) {
	w.threads = append(w.threads, nil)
	copy(w.threads[pos+1:], w.threads[pos:])
	w.threads[pos] = t
}

func (w *world) remove(pos int) {
	w.threads = append(w.threads[:pos], w.threads[pos+1:]...)
}

// spawned checks whether the step just made started a flush goroutine for the tree
// (it is then held at its first schedule point) and mirrors it after position pos
func (w *world) spawned(tree, pos int) {
	if w.ovR.VerifTreeState(w.trees[tree].ID) != 2 {
		return
	}
	g := w.spare[tree]
	if g == nil {
		return
	}
	if g.WaitHit(400 * time.Millisecond) {
		w.spare[tree] = nil
		w.insert(pos, &th{kind: kFlushStart, tree: tree, gate: g})
	}
}

func (w *world) startMsg(k tokKey) {
	w.nextID++
	id := w.nextID
	w.msgTok[id] = k
	tok := w.token(k)
	cnt.Lock()
	cnt.tokOf[id] = tok.ID()
	cnt.Unlock()
	tr := w.trees[k.tree]
	child := tr.Root.Children[0]
	buf, _ := network.Marshal(&Ping{N: id, Body: body(id)})
	env := &network.Envelope{
		ServerIdentity: child.ServerIdentity,
		MsgType:        onet.ProtocolMsgID,
		Msg: &onet.ProtocolMsg{From: tok.ChangeTreeNodeID(child.ID), To: tok, MsgSlice: buf,
			MsgType: network.MessageType(&Ping{})},
	}
	t := &th{kind: kMsg, tree: k.tree, id: id, pc: "lookup", done: make(chan struct{})}
	gates := map[string]*lib.Gate{
		"hit":  w.sched.Block("overlay.treeHit", 1, w.matchMsg(id)),
		"miss": w.sched.Block("overlay.treeMiss", 1, w.matchMsg(id)),
	}
	go func() {
		w.ovR.Process(env)
		close(t.done)
	}()
	res := w.waitAny(gates, t.done)
	if res != "hit" && res != "miss" {
		w.failed = "message reached neither hit nor miss"
		return
	}
	t.pc, t.gate = res, gates[res]
	w.insert(0, t)
	w.emit("Send "+w.mcoq(id), "Recv "+w.mcoq(id), "Step 0")
}

// nextCall arms the gates for what a flush goroutine does after its current call returned
func (w *world) nextGates(t *th) map[string]*lib.Gate {
	if len(t.remaining) > 0 {
		id := t.remaining[0]
		return map[string]*lib.Gate{
			"nhit":  w.sched.Block("overlay.treeHit", 1, w.matchMsg(id)),
			"nmiss": w.sched.Block("overlay.treeMiss", 1, w.matchMsg(id)),
		}
	}
	return map[string]*lib.Gate{"fdone": w.sched.Block("overlay.flushDone", 1, w.matchTree(t.tree))}
}

// afterReturn mirrors a flush goroutine whose current call has returned and which went
// on to res (next message's lookup result, or the end of the flush)
func (w *world) afterReturn(t *th, pos int, res string, gates map[string]*lib.Gate) []string {
	step := fmt.Sprintf("Step %d", pos)
	switch res {
	case "nhit", "nmiss":
		t.id = t.remaining[0]
		t.remaining = t.remaining[1:]
		t.pc = res[1:]
		t.gate = gates[res]
		return []string{step, step}
	case "fdone":
		gates[res].Release()
		w.remove(pos)
		return []string{step}
	}
	w.failed = "flush goroutine lost (" + res + ")"
	return nil
}

func (w *world) advance(pos int) {
	if pos < 0 || pos >= len(w.threads) {
		w.failed = "no such thread"
		return
	}
	t := w.threads[pos]
	step := fmt.Sprintf("Step %d", pos)
	switch t.kind {
	case kFlushStart:
		pending := w.ovR.VerifPending()
		var mine []int
		for _, m := range pending {
			if pg, ok := m.Msg.(*Ping); ok && m.To.TreeID.Equal(w.trees[t.tree].ID) {
				mine = append(mine, pg.N)
			}
		}
		g := w.sched.Block("overlay.flushTaken", 1, w.matchTree(t.tree))
		t.gate.Release()
		if !g.WaitHit(wait) {
			w.failed = "flush did not take"
			return
		}
		t.kind, t.gate, t.remaining, t.pc = kFlush, g, mine, ""
		w.emit(step)
		return
	case kFlush:
		if t.pc == "" {
			gates := w.nextGates(t)
			t.gate.Release()
			res := w.waitAny(gates, nil)
			acts := w.afterReturn(t, pos, res, gates)
			if w.failed != "" {
				return
			}
			// TFlush l None -> (Some PLookup) -> hit/miss, or TFlush [] None -> gone
			w.emit(acts...)
			return
		}
	}
	// a TransmitMsg call at t.pc, inside a connection goroutine or a flush goroutine
	isFlush := t.kind == kFlush
	cont := map[string]*lib.Gate{}
	mayReturn := false
	switch t.pc {
	case "hit":
		mayReturn = true
	case "miss":
		cont["parked"] = w.sched.Block("overlay.parked", 1, w.matchMsg(t.id))
	case "parked":
		cont["notreg"] = w.sched.Block("overlay.notRegistered", 1, w.matchMsg(t.id))
		mayReturn = true
		w.armSpare(t.tree)
	case "notreg":
		cont["regd"] = w.sched.Block("overlay.registered", 1, w.matchMsg(t.id))
	case "regd":
		mayReturn = true
	}
	var next map[string]*lib.Gate
	if isFlush && mayReturn {
		next = w.nextGates(t)
		for k, g := range next {
			cont[k] = g
		}
	}
	oldpc := t.pc
	t.gate.Release()
	var done <-chan struct{}
	if !isFlush {
		done = t.done
	}
	res := w.waitAny(cont, done)
	if w.failed != "" {
		return
	}
	switch res {
	case "parked", "notreg", "regd":
		t.pc, t.gate = res, cont[res]
		w.emit(step)
		return
	}
	// the call returned
	if oldpc == "regd" {
		w.reqs = append([]int{t.tree}, w.reqs...)
	}
	if !isFlush {
		if res != "" {
			w.failed = "unexpected gate " + res
			return
		}
		w.remove(pos)
		if oldpc == "parked" {
			w.spawned(t.tree, pos)
		}
		w.emit(step)
		return
	}
	// flush goroutine: the call's last step, then what it did next
	acts := []string{step}
	t.pc = ""
	if oldpc == "parked" {
		w.spawned(t.tree, pos+1)
	}
	acts = append(acts, w.afterReturn(t, pos, res, next)...)
	if w.failed != "" {
		return
	}
	w.emit(acts...)
}

func (w *world) respond(tree int) {
	idx := -1
	for j, r := range w.reqs {
		if r == tree {
			idx = j
			break
		}
	}
	if idx < 0 {
		w.failed = "respond without request"
		return
	}
	w.reqs = append(w.reqs[:idx], w.reqs[idx+1:]...)
	tr := w.trees[tree]
	state := w.ovR.VerifTreeState(tr.ID)
	w.armSpare(tree)
	env := &network.Envelope{
		ServerIdentity: tr.Root.Children[0].ServerIdentity,
		MsgType:        onet.ResponseTreeMsgID,
		Msg:            &onet.ResponseTree{TreeMarshal: tr.MakeTreeMarshal(), Roster: tr.Roster},
	}
	w.ovR.Process(env)
	if state == 1 {
		g := w.spare[tree]
		if !g.WaitHit(wait) {
			w.failed = "no flush after the tree arrived"
			return
		}
		w.spare[tree] = nil
		w.insert(0, &th{kind: kFlushStart, tree: tree, gate: g})
	}
	w.emit(fmt.Sprintf("PeerAnswer %d", tree), fmt.Sprintf("RecvResp %d", tree), "Step 0")
}

// localTree makes the tree known on the server: through a bare RegisterTree, or (run = true) by
// creating a local run on it - CreateProtocol registers the instance and then the tree. Either
// way the overlay must start a flush of the messages parked for the tree.
func (w *world) localTree(tree int, run bool) {
	w.armSpare(tree)
	if run {
		if _, err := w.ovR.CreateProtocol(protoName, w.trees[tree], onet.NilServiceID); err != nil {
			w.failed = "local run: " + err.Error()
			return
		}
	} else {
		w.ovR.RegisterTree(w.trees[tree])
	}
	g := w.spare[tree]
	if !g.WaitHit(3 * wait) {
		// no flush was started: the action is recorded (the model starts its flush), the scenario
		// goes on without a flush thread, and what stays parked is judged at the end
		w.spare[tree] = nil
		g.Release()
		w.emit(fmt.Sprintf("LocalTree %d", tree))
		return
	}
	w.spare[tree] = nil
	w.insert(0, &th{kind: kFlushStart, tree: tree, gate: g})
	w.emit(fmt.Sprintf("LocalTree %d", tree))
}

func (w *world) finish(k tokKey) bool {
	tok, ok := w.tokens[k]
	if !ok {
		return false
	}
	cnt.Lock()
	p := cnt.insts[tok.RoundID]
	cnt.Unlock()
	if p == nil || w.finished[k.idx()] {
		return false
	}
	p.Done()
	w.finished[k.idx()] = true
	w.emit(fmt.Sprintf("Finish %d", k.idx()))
	return true
}

// race2 lets two threads that both found the tree hand their messages over concurrently: the
// first is held inside the protocol constructor while the second runs. The transmit lock
// must make the second wait; the model's outcome (both delivered, one instance) is
// independent of the order, so the two model steps are emitted in position order.
func (w *world) race2(a, b int) {
	if a > b {
		a, b = b, a
	}
	if b >= len(w.threads) || a == b {
		w.failed = "race2: no such threads"
		return
	}
	ta, tb := w.threads[a], w.threads[b]
	if ta.kind != kMsg || tb.kind != kMsg || ta.pc != "hit" || tb.pc != "hit" {
		w.failed = "race2: threads not at hit"
		return
	}
	cnt.Lock()
	cnt.ctorGate = make(chan struct{})
	cnt.ctorIn = make(chan struct{}, 4)
	gate, in := cnt.ctorGate, cnt.ctorIn
	cnt.Unlock()
	ta.gate.Release()
	select {
	case <-in: // first thread is inside the constructor
	case <-ta.done: // the instance existed already
	case <-time.After(wait):
	}
	tb.gate.Release()
	// give the second thread the chance to (wrongly) run ahead
	select {
	case <-in:
	case <-tb.done:
	case <-time.After(50 * time.Millisecond):
	}
	cnt.Lock()
	cnt.ctorGate = nil
	cnt.Unlock()
	close(gate)
	for _, t := range []*th{ta, tb} {
		select {
		case <-t.done:
		case <-time.After(wait):
			w.failed = "race2: thread did not return"
			return
		}
	}
	w.remove(b)
	w.remove(a)
	w.emit(fmt.Sprintf("Step %d", a), fmt.Sprintf("Step %d", b-1))
}

func (w *world) exec(o op) {
	switch o.Op {
	case "race2":
		w.race2(o.Pos, o.Run)
	case "msg":
		w.startMsg(tokKey{o.Tree, o.Run})
	case "step":
		w.advance(o.Pos)
	case "respond":
		w.respond(o.Tree)
	case "localtree":
		w.localTree(o.Tree, false)
	case "localrun":
		w.localTree(o.Tree, true)
	case "finish":
		w.finish(tokKey{o.Tree, o.Run})
	}
}

// do executes one scenario step; when it cannot be carried out (the implementation did not get
// where the scenario expects it) what the step recorded is dropped and the scenario ends there:
// the actions and snapshots of the completed steps are still a valid history
func (w *world) do(o op) bool {
	na, ns := len(w.acts), len(w.snaps)
	w.exec(o)
	if w.failed != "" {
		w.acts, w.snaps = w.acts[:na], w.snaps[:ns]
		return false
	}
	return true
}

func runTrace(in input) lib.Case {
	cnt = &counters{tokOf: map[int]onet.TokenID{}, insts: map[onet.RoundID]*tproto{}, ctor: map[onet.RoundID]int{}}
	lt := onet.NewLocalTest(suite)
	lt.Check = onet.CheckNone
	servers := lt.GenServers(3)
	rID = servers[0].ServerIdentity.ID
	roster := lt.GenRosterFromHost(servers...)
	w := &world{lt: lt, r: servers[0], p: servers[1], ovR: servers[0].VerifOverlay(), trees: mkTrees(roster),
		sched: lib.NewSched(), tokens: map[tokKey]*onet.Token{}, pid: onet.ProtocolNameToID(protoName),
		msgTok: map[int]tokKey{}, spare: map[int]*lib.Gate{}, finished: map[int]bool{}}
	onet.SetVerifHook(w.sched.Hook)
	defer func() {
		w.sched.ReleaseAll()
		onet.SetVerifHook(func(string, ...interface{}) {})
		cnt.Lock()
		var ps []*tproto
		for _, p := range cnt.insts {
			ps = append(ps, p)
		}
		cnt.Unlock()
		for _, p := range ps {
			p.Done() // otherwise CloseAll waits seconds for lingering instances
		}
		closeAll(lt)
		cnt = nil
	}()
	var done []op
	for _, o := range in.Ops {
		done = append(done, o)
		if !w.do(o) {
			break
		}
	}
	rng := rand.New(rand.NewSource(in.Seed))
	nmsg := 0
	for n := 0; n < in.Random && w.failed == ""; n++ {
		var o op
		switch c := rng.Intn(10); {
		case c < 3 && nmsg < 6:
			o = op{Op: "msg", Tree: rng.Intn(2), Run: 1 + rng.Intn(2)}
			nmsg++
		case c < 8 && len(w.threads) > 0:
			o = op{Op: "step", Pos: rng.Intn(len(w.threads))}
		case c == 8 && len(w.reqs) > 0:
			o = op{Op: "respond", Tree: w.reqs[rng.Intn(len(w.reqs))]}
		case c == 9 && rng.Intn(4) == 0:
			o = op{Op: []string{"localtree", "localrun"}[rng.Intn(2)], Tree: rng.Intn(2)}
		case c == 9 && rng.Intn(3) == 0:
			o = op{Op: "finish", Tree: rng.Intn(2), Run: 1 + rng.Intn(2)}
		default:
			continue
		}
		w.do(o)
		done = append(done, o)
	}
	// settle: run every goroutine to completion, answer every request
	for guard := 0; w.failed == "" && (len(w.threads) > 0 || len(w.reqs) > 0) && guard < 400; guard++ {
		if len(w.threads) > 0 {
			o := op{Op: "step", Pos: len(w.threads) - 1}
			w.do(o)
			done = append(done, o)
		} else {
			o := op{Op: "respond", Tree: w.reqs[0]}
			w.do(o)
			done = append(done, o)
		}
	}
	settled := w.failed == "" && len(w.threads) == 0 && len(w.reqs) == 0
	class := in.Name
	if w.failed != "" {
		if os.Getenv("VERIF_DEBUG") != "" {
			fmt.Fprintln(os.Stderr, "cut", in.Name, w.failed, w.acts)
		}
		if len(w.acts) == 0 || len(w.snaps) == 0 {
			return lib.Case{Discard: true, Class: in.Name, Obs: w.failed}
		}
		class += "+cut"
	}
	cnt.Lock()
	wrong := cnt.wrong
	cnt.Unlock()
	if wrong > 0 {
		// handed to another instance or body changed: make it visible as an unsent id
		w.snaps[len(w.snaps)-1] = strings.Replace(w.snaps[len(w.snaps)-1], "]))", "; 999999]))", 1)
	}
	coq := fmt.Sprintf("CTrace %s %s %s", lib.List(w.acts), lib.List(w.snaps), lib.Bool(settled))
	obs := map[string]interface{}{"actions": strings.Join(w.acts, "; "), "last": w.snaps[len(w.snaps)-1], "settled": settled}
	if w.failed != "" {
		obs["cut"] = w.failed
	}
	return lib.Case{Coq: coq, Class: class, Input: input{Kind: "trace", Name: in.Name, Ops: done}, Obs: obs,
		Nontrivial: len(w.acts) > 4, Key: strings.Join(w.acts, ";")}
}

// ---- e2e ---------------------------------------------------------------------------

// Go starts the traffic of a run at a node.
type Go struct{ Run int }

// EPing is an e2e protocol message.
type EPing struct {
	ID   int
	Run  int
	Dest int
	Body []byte
}

// EAgg is an e2e message received through an aggregating (slice) handler: the parent gets the
// messages of its children in batches, every message in exactly one batch.
type EAgg struct {
	ID  int
	Run int
}

// ebody is the body of e2e message id: small, or (every fourth message of a "big" case) large enough
// to be read from the socket in several pieces, directly followed by small messages on the same link
func ebody(id int) []byte {
	b := body(id)
	if elog != nil && elog.big > 0 && id%4 == 1 {
		big := make([]byte, elog.big)
		for i := range big {
			big[i] = byte((i*31 + id) % 251)
		}
		copy(big, b)
		return big
	}
	return b
}

type egroup struct {
	id, run, me int // me: roster position of the caller
	how         string
	ks          []int // multicast: the listed nodes' positions
}

type e2eLog struct {
	sync.Mutex
	groups []egroup
	big     int
	corrupt int
	insts []*eproto
	sent [][2]int
	recv [][2]int
	bad  int
	ctr  int64
	seed int64
}

var elog *e2eLog

type eproto struct {
	*onet.TreeNodeInstance
	run int
}

func newEProto(n *onet.TreeNodeInstance) (onet.ProtocolInstance, error) {
	p := &eproto{TreeNodeInstance: n, run: -1}
	if err := p.RegisterHandlers(p.handleGo, p.handleEPing, p.handleEAgg); err != nil {
		return nil, err
	}
	if elog != nil {
		elog.Lock()
		elog.insts = append(elog.insts, p)
		elog.Unlock()
	}
	return p, nil
}

func (p *eproto) Start() error { return nil }

func (p *eproto) nodeIndex(tn *onet.TreeNode) int {
	for i, n := range p.List() {
		if n.ID.Equal(tn.ID) {
			return i
		}
	}
	return -1
}

func (p *eproto) send(run int, to *onet.TreeNode) {
	id := int(atomic.AddInt64(&elog.ctr, 1))
	dest := run*100 + p.nodeIndex(to)
	elog.Lock()
	elog.sent = append(elog.sent, [2]int{id, dest})
	elog.Unlock()
	if err := p.SendTo(to, &EPing{ID: id, Run: run, Dest: dest, Body: ebody(id)}); err != nil {
		elog.Lock()
		elog.bad++
		elog.Unlock()
	}
}

// sendMany sends ONE message to several nodes through the group calls of the API (Broadcast: every
// node of the tree but the caller; Multicast: the listed nodes; SendToParent); every destination
// must get it exactly once.
func (p *eproto) sendMany(run int, how string, tos []*onet.TreeNode) {
	id := int(atomic.AddInt64(&elog.ctr, 1))
	g := egroup{id: id, run: run, me: p.TreeNode().RosterIndex, how: how}
	elog.Lock()
	for _, to := range tos {
		elog.sent = append(elog.sent, [2]int{id, run*100 + p.nodeIndex(to)})
		if how == "multicast" {
			g.ks = append(g.ks, to.RosterIndex)
		}
	}
	sort.Ints(g.ks)
	elog.groups = append(elog.groups, g)
	elog.Unlock()
	msg := &EPing{ID: id, Run: run, Dest: -1, Body: ebody(id)}
	var errs []error
	switch how {
	case "broadcast":
		errs = p.Broadcast(msg)
	case "multicast":
		errs = p.Multicast(msg, tos...)
	case "parent":
		if err := p.SendToParent(msg); err != nil {
			errs = append(errs, err)
		}
	}
	if len(errs) > 0 {
		elog.Lock()
		elog.bad += len(errs)
		elog.Unlock()
	}
}

func (p *eproto) traffic(run int) {
	if err := p.SendToChildren(&Go{Run: run}); err != nil {
		elog.Lock()
		elog.bad++
		elog.Unlock()
	}
	if !p.IsRoot() {
		p.send(run, p.Parent())
		p.sendMany(run, "parent", []*onet.TreeNode{p.Parent()})
	}
	for _, c := range p.Children() {
		p.send(run, c)
	}
	l := p.List()
	me := p.nodeIndex(p.TreeNode())
	var some []*onet.TreeNode
	for j := 0; j < 2; j++ {
		k := (me*7 + run*3 + j*5 + int(elog.seed%11)) % len(l)
		if k != me {
			p.send(run, l[k])
			if len(some) == 0 || !some[0].ID.Equal(l[k].ID) {
				some = append(some, l[k])
			}
		}
	}
	if len(some) > 0 {
		p.sendMany(run, "multicast", some)
	}
	// three rounds of a message type its parent receives through a slice handler
	if !p.IsRoot() {
		for r := 0; r < 3; r++ {
			id := int(atomic.AddInt64(&elog.ctr, 1))
			elog.Lock()
			elog.sent = append(elog.sent, [2]int{id, run*100 + p.nodeIndex(p.Parent())})
			elog.Unlock()
			if err := p.SendToParent(&EAgg{ID: id, Run: run}); err != nil {
				elog.Lock()
				elog.bad++
				elog.Unlock()
			}
		}
	}
	// every node of every run broadcasts once: root, inner nodes and leaves
	var others []*onet.TreeNode
	for i, n := range l {
		if i != me {
			others = append(others, n)
		}
	}
	p.sendMany(run, "broadcast", others)
}

func (p *eproto) handleGo(m struct {
	*onet.TreeNode
	Go
}) error {
	go p.traffic(m.Go.Run)
	return nil
}

func (p *eproto) handleEAgg(ms []struct {
	*onet.TreeNode
	EAgg
}) error {
	elog.Lock()
	for _, m := range ms {
		elog.recv = append(elog.recv, [2]int{m.EAgg.ID, m.EAgg.Run*100 + p.nodeIndex(p.TreeNode())})
	}
	elog.Unlock()
	return nil
}

func (p *eproto) handleEPing(m struct {
	*onet.TreeNode
	EPing
}) error {
	me := m.EPing.Run*100 + p.nodeIndex(p.TreeNode())
	elog.Lock()
	if string(m.EPing.Body) != string(ebody(m.EPing.ID)) {
		// changed content: reported as a message that was never sent (and the sent one as missing)
		elog.corrupt++
		elog.recv = append(elog.recv, [2]int{m.EPing.ID + 1000000, me})
	} else {
		elog.recv = append(elog.recv, [2]int{m.EPing.ID, me})
	}
	elog.Unlock()
	return nil
}

func runE2E(in input) lib.Case {
	elog = &e2eLog{seed: in.Seed, big: in.Big}
	var lt *onet.LocalTest
	if in.TCP {
		lt = onet.NewTCPTest(suite)
	} else {
		lt = onet.NewLocalTest(suite)
	}
	lt.Check = onet.CheckNone
	servers := lt.GenServers(in.Servers)
	roster := lt.GenRosterFromHost(servers...)
	tree := roster.GenerateNaryTree(in.BF)
	defer lt.CloseAll()
	var roots []*eproto
	for r := 0; r < in.Runs; r++ {
		pi, err := lt.CreateProtocol(e2eName, tree)
		if err != nil {
			return lib.Case{Discard: true, Class: in.Name}
		}
		p := pi.(*eproto)
		p.run = r
		roots = append(roots, p)
	}
	var wg sync.WaitGroup
	for r, p := range roots {
		wg.Add(1)
		go func(r int, p *eproto) {
			defer wg.Done()
			p.traffic(r)
		}(r, p)
	}
	wg.Wait()
	// wait until the logs agree and are stable, or 20 s
	deadline := time.Now().Add(20 * time.Second)
	stable := 0
	last := -1
	for time.Now().Before(deadline) {
		elog.Lock()
		ns, nr := len(elog.sent), len(elog.recv)
		elog.Unlock()
		if ns == nr && ns == last {
			stable++
			if stable >= 20 {
				break
			}
		} else {
			stable = 0
		}
		last = ns
		time.Sleep(10 * time.Millisecond)
	}
	elog.Lock()
	sent := append([][2]int(nil), elog.sent...)
	recv := append([][2]int(nil), elog.recv...)
	bad := elog.bad
	insts := append([]*eproto(nil), elog.insts...)
	elog.Unlock()
	for _, p := range insts {
		p.Done()
	}
	class := in.Name
	if bad > 0 {
		// a send reported an error although no server or link failed in this cluster: the case is
		// still judged (a message whose send failed and that did not arrive shows as missing)
		class += "+senderr"
	}
	less := func(s [][2]int) func(i, j int) bool {
		return func(i, j int) bool {
			if s[i][0] != s[j][0] {
				return s[i][0] < s[j][0]
			}
			return s[i][1] < s[j][1]
		}
	}
	sort.Slice(sent, less(sent))
	sort.Slice(recv, less(recv))
	// per group send: who received that message, by roster position (= breadth-first position in
	// the generated n-ary tree)
	list := tree.List()
	elog.Lock()
	groups := append([]egroup(nil), elog.groups...)
	elog.Unlock()
	sort.Slice(groups, func(i, j int) bool { return groups[i].id < groups[j].id })
	var gs []string
	for _, g := range groups {
		var got []int
		for _, r := range recv {
			if r[0] == g.id && r[1]/100 == g.run && r[1]%100 < len(list) {
				got = append(got, list[r[1]%100].RosterIndex)
			}
		}
		sort.Ints(got)
		h := map[string]string{"broadcast": "HBroadcast", "parent": "HParent"}[g.how]
		if g.how == "multicast" {
			h = "(HMulticast " + lib.NatList(g.ks) + ")"
		}
		gs = append(gs, fmt.Sprintf("(%d, %d, %d, %s, %s)", in.BF, len(list), g.me, h, lib.NatList(got)))
	}
	coq := fmt.Sprintf("CE2E %s %s %s", lib.PairList(sent), lib.PairList(recv), lib.List(gs))
	obs := map[string]interface{}{"sent": len(sent), "received": len(recv), "send_errors": bad}
	return lib.Case{Coq: coq, Class: class, Obs: obs, Nontrivial: len(sent) > 3,
		Key: fmt.Sprint(in.Servers, in.Runs, in.BF, in.TCP, in.Seed)}
}

// runStress: a large backlog of parked messages for tree A is flushed while several
// goroutines keep parking messages for tree B; then tree B arrives. Every message for B
// must reach its instance exactly once. (Only the send and the receive log of the B
// messages are compared; nothing is forced.)
func runStress(in input) lib.Case {
	cnt = &counters{tokOf: map[int]onet.TokenID{}, insts: map[onet.RoundID]*tproto{}, ctor: map[onet.RoundID]int{}}
	lt := onet.NewLocalTest(suite)
	lt.Check = onet.CheckNone
	servers := lt.GenServers(3)
	rID = servers[0].ServerIdentity.ID
	roster := lt.GenRosterFromHost(servers...)
	trees := mkTrees(roster)
	ov := servers[0].VerifOverlay()
	sched := lib.NewSched()
	onet.SetVerifHook(sched.Hook)
	defer func() {
		onet.SetVerifHook(func(string, ...interface{}) {})
		cnt.Lock()
		var ps []*tproto
		for _, p := range cnt.insts {
			ps = append(ps, p)
		}
		cnt.Unlock()
		for _, p := range ps {
			p.Done()
		}
		closeAll(lt)
		cnt = nil
	}()
	pid := onet.ProtocolNameToID(protoName)
	mkTok := func(tr *onet.Tree) *onet.Token {
		return &onet.Token{RosterID: tr.Roster.ID, TreeID: tr.ID, ProtoID: pid,
			RoundID: onet.RoundID(uuid.Must(uuid.NewRandom())), TreeNodeID: tr.Root.ID}
	}
	tokA, tokB := mkTok(trees[0]), mkTok(trees[1])
	send := func(tr *onet.Tree, tok *onet.Token, id int) {
		child := tr.Root.Children[0]
		buf, _ := network.Marshal(&Ping{N: id, Body: body(id)})
		ov.Process(&network.Envelope{ServerIdentity: child.ServerIdentity, MsgType: onet.ProtocolMsgID,
			Msg: &onet.ProtocolMsg{From: tok.ChangeTreeNodeID(child.ID), To: tok, MsgSlice: buf, MsgType: network.MessageType(&Ping{})}})
	}
	arrive := func(tr *onet.Tree) {
		ov.Process(&network.Envelope{ServerIdentity: tr.Root.Children[0].ServerIdentity, MsgType: onet.ResponseTreeMsgID,
			Msg: &onet.ResponseTree{TreeMarshal: tr.MakeTreeMarshal(), Roster: tr.Roster}})
	}
	backlog := in.Runs // number of messages parked for tree A
	for i := 0; i < backlog; i++ {
		cnt.Lock()
		cnt.tokOf[1000000+i] = tokA.ID()
		cnt.Unlock()
		send(trees[0], tokA, 1000000+i)
	}
	var mu sync.Mutex
	var sentB []int
	stop := int32(0)
	var wg sync.WaitGroup
	for g := 0; g < in.Servers; g++ {
		wg.Add(1)
		go func(g int) {
			defer wg.Done()
			for j := 0; j < 150 && atomic.LoadInt32(&stop) == 0; j++ {
				id := 1 + g*10000 + j
				cnt.Lock()
				cnt.tokOf[id] = tokB.ID()
				cnt.Unlock()
				mu.Lock()
				sentB = append(sentB, id)
				mu.Unlock()
				send(trees[1], tokB, id)
			}
		}(g)
	}
	fdA := sched.Block("overlay.flushDone", 1, func(args []interface{}) bool {
		t, ok := args[1].(*onet.Tree)
		return ok && t.ID.Equal(trees[0].ID)
	})
	time.Sleep(time.Duration(in.BF) * 100 * time.Microsecond)
	arrive(trees[0])
	okA := fdA.WaitHit(30 * time.Second)
	fdA.Release()
	atomic.StoreInt32(&stop, 1)
	wg.Wait()
	fdB := sched.Block("overlay.flushDone", 1, func(args []interface{}) bool {
		t, ok := args[1].(*onet.Tree)
		return ok && t.ID.Equal(trees[1].ID)
	})
	arrive(trees[1])
	okB := fdB.WaitHit(30 * time.Second)
	fdB.Release()
	flushHung := !okA || !okB // judged below: what was not handed over shows as missing
	// a message of B sent after the tree arrived is delivered directly; wait until the pending list is empty
	deadline := time.Now().Add(10 * time.Second)
	for time.Now().Before(deadline) && len(ov.VerifPending()) > 0 {
		time.Sleep(time.Millisecond)
	}
	cnt.Lock()
	var recvB [][2]int
	nA := 0
	for _, a := range cnt.accepted {
		if a >= 1000000 {
			nA++
		} else {
			recvB = append(recvB, [2]int{a, 1})
		}
	}
	wrong := cnt.wrong
	cnt.Unlock()
	// ids are renumbered densely (Coq nat literals are unary): sent = 1..M
	sort.Ints(sentB)
	dense := map[int]int{}
	var sent [][2]int
	for i, id := range sentB {
		dense[id] = i + 1
		sent = append(sent, [2]int{i + 1, 1})
	}
	for i := range recvB {
		if d, ok := dense[recvB[i][0]]; ok {
			recvB[i][0] = d
		} else {
			recvB[i][0] = len(sentB) + 1 // something nobody sent
		}
	}
	if nA != backlog || wrong > 0 {
		// a lost / misdelivered message of the backlog: an extra sent pair that was never received
		sent = append(sent, [2]int{len(sentB) + 2, 0})
	}
	less := func(s [][2]int) func(i, j int) bool {
		return func(i, j int) bool { return s[i][0] < s[j][0] }
	}
	sort.Slice(sent, less(sent))
	sort.Slice(recvB, less(recvB))
	coq := fmt.Sprintf("CE2E %s %s []", lib.PairList(sent), lib.PairList(recvB))
	obs := map[string]interface{}{"backlog": backlog, "backlog_delivered": nA, "sent_B": len(sentB), "received_B": len(recvB),
		"still_parked": len(ov.VerifPending()), "flush_did_not_finish": flushHung}
	return lib.Case{Coq: coq, Class: in.Name, Obs: obs, Nontrivial: len(sentB) > 3, Key: fmt.Sprint(in.Seed, in.Runs, in.Servers)}
}

// runFlushFail: messages of several runs are parked for a tree the server does not have; some of
// them cannot be handed over when the tree arrives (token naming a node that is not in the tree,
// or a protocol that is not registered on this server: TransmitMsg returns an error in the flush).
// Every other parked message must still reach its instance exactly once.
func runFlushFail(in input) lib.Case {
	cnt = &counters{tokOf: map[int]onet.TokenID{}, insts: map[onet.RoundID]*tproto{}, ctor: map[onet.RoundID]int{}}
	lt := onet.NewLocalTest(suite)
	lt.Check = onet.CheckNone
	servers := lt.GenServers(3)
	rID = servers[0].ServerIdentity.ID
	roster := lt.GenRosterFromHost(servers...)
	trees := mkTrees(roster)
	tr := trees[1]
	ov := servers[0].VerifOverlay()
	sched := lib.NewSched()
	onet.SetVerifHook(sched.Hook)
	defer func() {
		onet.SetVerifHook(func(string, ...interface{}) {})
		cnt.Lock()
		var ps []*tproto
		for _, p := range cnt.insts {
			ps = append(ps, p)
		}
		cnt.Unlock()
		for _, p := range ps {
			p.Done()
		}
		closeAll(lt)
		cnt = nil
	}()
	rng := rand.New(rand.NewSource(in.Seed))
	pid := onet.ProtocolNameToID(protoName)
	nruns := 2 + rng.Intn(3)
	toks := make([]*onet.Token, nruns)
	for r := range toks {
		toks[r] = &onet.Token{RosterID: tr.Roster.ID, TreeID: tr.ID, ProtoID: pid,
			RoundID: onet.RoundID(uuid.Must(uuid.NewRandom())), TreeNodeID: tr.Root.ID}
	}
	child := tr.Root.Children[0]
	process := func(tok *onet.Token, id int) {
		buf, _ := network.Marshal(&Ping{N: id, Body: body(id)})
		ov.Process(&network.Envelope{ServerIdentity: child.ServerIdentity, MsgType: onet.ProtocolMsgID,
			Msg: &onet.ProtocolMsg{From: tok.ChangeTreeNodeID(child.ID), To: tok, MsgSlice: buf, MsgType: network.MessageType(&Ping{})}})
	}
	var sent [][2]int
	n := 4 + rng.Intn(8)
	id := 0
	shape := ""
	for i := 0; i < n; i++ {
		switch k := rng.Intn(4); {
		case k == 0 && i < n-1:
			// a run whose token names a node that is not in the tree
			bad := *toks[rng.Intn(nruns)]
			bad.RoundID = onet.RoundID(uuid.Must(uuid.NewRandom()))
			bad.TreeNodeID = onet.TreeNodeID(uuid.Must(uuid.NewRandom()))
			process(&bad, 900000+i)
			shape += "n"
		case k == 1 && i < n-1:
			// a run of a protocol that this server does not know
			bad := *toks[rng.Intn(nruns)]
			bad.RoundID = onet.RoundID(uuid.Must(uuid.NewRandom()))
			bad.ProtoID = onet.ProtocolNameToID("VerifC01NotRegisteredHere")
			process(&bad, 900000+i)
			shape += "p"
		default:
			id++
			tok := toks[rng.Intn(nruns)]
			cnt.Lock()
			cnt.tokOf[id] = tok.ID()
			cnt.Unlock()
			sent = append(sent, [2]int{id, 1})
			process(tok, id)
			shape += "g"
		}
	}
	fd := sched.Block("overlay.flushDone", 1, func(args []interface{}) bool {
		t, ok := args[1].(*onet.Tree)
		return ok && t.ID.Equal(tr.ID)
	})
	ov.Process(&network.Envelope{ServerIdentity: child.ServerIdentity, MsgType: onet.ResponseTreeMsgID,
		Msg: &onet.ResponseTree{TreeMarshal: tr.MakeTreeMarshal(), Roster: tr.Roster}})
	ok := fd.WaitHit(20 * time.Second)
	fd.Release()
	// a flush that does not finish is judged like any other outcome: what it did not hand over is missing
	time.Sleep(20 * time.Millisecond)
	cnt.Lock()
	var recv [][2]int
	for _, a := range cnt.accepted {
		if a >= 900000 {
			a = id + 1 // an undeliverable message was handed to somebody
		}
		recv = append(recv, [2]int{a, 1})
	}
	if cnt.wrong > 0 {
		recv = append(recv, [2]int{id + 2, 1})
	}
	cnt.Unlock()
	less := func(s [][2]int) func(i, j int) bool {
		return func(i, j int) bool { return s[i][0] < s[j][0] }
	}
	sort.Slice(sent, less(sent))
	sort.Slice(recv, less(recv))
	coq := fmt.Sprintf("CE2E %s %s []", lib.PairList(sent), lib.PairList(recv))
	obs := map[string]interface{}{"parked": shape, "sent": len(sent), "received": len(recv), "still_parked": len(ov.VerifPending()),
		"flush_finished": ok}
	return lib.Case{Coq: coq, Class: in.Name, Obs: obs, Nontrivial: len(sent) > 1, Key: fmt.Sprint(in.Seed)}
}

func run(raw json.RawMessage) lib.Case {
	var in input
	if err := json.Unmarshal(raw, &in); err != nil {
		panic(err)
	}
	if in.Kind == "e2e" {
		return runE2E(in)
	}
	if in.Kind == "flushfail" {
		return runFlushFail(in)
	}
	if in.Kind == "stress" {
		return runStress(in)
	}
	return runTrace(in)
}

// ---- generation ----------------------------------------------------------------------

func m(tree, run int) op  { return op{Op: "msg", Tree: tree, Run: run} }
func s(pos int) op        { return op{Op: "step", Pos: pos} }
func resp(tree int) op    { return op{Op: "respond", Tree: tree} }
func ltree(tree int) op   { return op{Op: "localtree", Tree: tree} }
func lrun(tree int) op    { return op{Op: "localrun", Tree: tree} }
func fin(tree, run int) op { return op{Op: "finish", Tree: tree, Run: run} }

func templates() []input {
	return []input{
		// F01: thread A misses and stalls before parking; B misses, parks, requests; the tree
		// arrives and is flushed; A parks and finds the id registered
		{Kind: "trace", Name: "stranding", Ops: []op{m(0, 1), m(0, 1), s(0), s(0), s(0), s(0), resp(0), s(0), s(0), s(0), s(0), s(0)}},
		{Kind: "trace", Name: "single-miss", Ops: []op{m(0, 1), s(0), s(0), s(0), s(0), resp(0)}},
		{Kind: "trace", Name: "two-parked", Ops: []op{m(0, 1), s(0), m(0, 2), s(0), s(0), s(1), s(1), s(1), resp(0)}},
		{Kind: "trace", Name: "known-tree", Ops: []op{ltree(0), s(0), s(0), m(0, 1), s(0), m(0, 1), m(0, 2), s(1), s(0)}},
		{Kind: "trace", Name: "finished-instance", Ops: []op{ltree(0), s(0), s(0), m(0, 1), s(0), fin(0, 1), m(0, 1), s(0), m(0, 2), s(0)}},
		{Kind: "trace", Name: "two-trees", Ops: []op{m(0, 1), m(1, 1), s(0), s(1), s(0), s(1), s(0), s(1), s(0), s(0), resp(1), resp(0)}},
		{Kind: "trace", Name: "local-tree-flush", Ops: []op{m(0, 1), s(0), s(0), ltree(0), s(1), s(0)}},
		// a local run on the tree (CreateProtocol) while a message for it is parked and its request is out
		{Kind: "trace", Name: "local-run-flush", Ops: []op{m(0, 1), s(0), s(0), s(0), s(0), lrun(0), s(0), s(0), resp(0)}},
		{Kind: "trace", Name: "double-request", Ops: []op{m(0, 1), m(0, 2), s(0), s(1), s(0), s(1), s(0), s(1), s(0), s(0), resp(0), resp(0)}},
		// two first messages of one run handed over concurrently (second arrives while the first is in the constructor)
		{Kind: "trace", Name: "concurrent-first", Ops: []op{ltree(0), s(0), s(0), m(0, 1), m(0, 1), {Op: "race2", Pos: 0, Run: 1}, m(0, 1), s(0)}},
		{Kind: "trace", Name: "park-during-flush", Ops: []op{m(0, 1), s(0), s(0), s(0), s(0), m(0, 2), resp(0), s(0), s(1), s(0)}},
	}
}

func generate(rng *rand.Rand, tier string) []interface{} {
	var ins []interface{}
	nrand, ne2e := 60, 10
	if tier != "quick" {
		nrand, ne2e = 1500, 120
	}
	for _, t := range templates() {
		ins = append(ins, t)
	}
	for i := 0; i < nrand; i++ {
		ins = append(ins, input{Kind: "trace", Name: "random-walk", Random: 15 + rng.Intn(30), Seed: rng.Int63()})
	}
	for i := 0; i < ne2e; i++ {
		tcp := i%2 == 1
		name := "e2e-local"
		if tcp {
			name = "e2e-tcp"
		}
		ins = append(ins, input{Kind: "e2e", Name: name, TCP: tcp, Servers: 3 + rng.Intn(5), Runs: 1 + rng.Intn(4),
			BF: 1 + rng.Intn(3), Seed: rng.Int63()})
	}
	// large messages directly followed by small ones on the same TCP links
	nbig := 2
	if tier != "quick" {
		nbig = 12
	}
	for i := 0; i < nbig; i++ {
		ins = append(ins, input{Kind: "e2e", Name: "e2e-tcp-big", TCP: true, Servers: 3 + rng.Intn(2), Runs: 2 + rng.Intn(2),
			BF: 1 + rng.Intn(2), Big: 200000 + rng.Intn(600000), Seed: rng.Int63()})
	}
	nff := 12
	if tier != "quick" {
		nff = 300
	}
	for i := 0; i < nff; i++ {
		ins = append(ins, input{Kind: "flushfail", Name: "flush-with-undeliverable", Seed: rng.Int63()})
	}
	nstress := 6
	if tier != "quick" {
		nstress = 60
	}
	for i := 0; i < nstress; i++ {
		// Runs = backlog of the other tree, Servers = parking goroutines, BF = delay before the tree arrives
		ins = append(ins, input{Kind: "stress", Name: "stress-park-during-flush", Runs: 5000 + rng.Intn(25000), Servers: 4 + rng.Intn(8),
			BF: rng.Intn(20), Seed: rng.Int63()})
	}
	return ins
}

func corpus() []interface{} {
	return []interface{}{templates()[0]}
}

// closeAll closes the cluster but does not wait for ever: a server whose Close hangs (that is
// C10's subject) must not stall this harness; the cluster is then abandoned.
func closeAll(lt *onet.LocalTest) {
	done := make(chan struct{})
	go func() {
		defer func() { recover() }()
		lt.CloseAll()
		close(done)
	}()
	select {
	case <-done:
	case <-time.After(12 * time.Second):
	}
}

func main() {
	log.SetDebugVisible(0)
	log.OutputToBuf()
	if _, err := onet.GlobalProtocolRegister(protoName, newTProto); err != nil {
		panic(err)
	}
	if _, err := onet.GlobalProtocolRegister(e2eName, newEProto); err != nil {
		panic(err)
	}
	network.RegisterMessages(&Ping{}, &Go{}, &EPing{}, &EAgg{})
	lib.Main(lib.Harness{
		Prop:   "C01",
		Import: "Onet.Corr.C01",
		Rule: "trace cases: hand-written schedules (stranding, single miss, two parked, known tree, finished instance, two trees, local tree, " +
			"double request, park during flush) and seeded random walks over {new message, step any goroutine, answer a tree request, register " +
			"a tree locally, finish an instance}, every goroutine step forced with schedule points and followed by a snapshot, then settled; " +
			"e2e cases: 3-7 servers, 1-4 runs, branching 1-3, in-memory and TCP, sends to parent/children/arbitrary nodes; " +
			"non-trivial = more than 4 model actions (trace) or more than 3 messages (e2e); distinct = distinct action list / parameters",
		Shard:    6,
		Generate: generate,
		Run:      run,
		Corpus:   corpus,
	})
}
