// C16 harness: service storage of onet.Context on the per-server bbolt database.
//
// Real onet servers (created with onet.NewServerTCP, database under a scratch
// CONODE_SERVICE_PATH so that it survives Close) carry seven harness services
// whose names deliberately share prefixes ("Alpha", "AlphaBeta", "Alphaversio",
// ...) and, for the clash scenarios, violate the side condition of the property
// ("Alphaversion", "Alpha_x", "Beta_").  A history is a sequence of Save / Load
// / LoadRaw / SaveVersion / LoadVersion / additional-bucket put / get operations
// issued through the services' contexts -- same keys and bucket names in every
// service -- interleaved with server restarts on the same data directory.  A
// second kind of case runs concurrent savers and loaders.
package main

import (
	"bytes"
	"crypto/sha256"
	"encoding/json"
	"fmt"
	"io/ioutil"
	"math/rand"
	"os"
	"path/filepath"
	"runtime/debug"
	"sort"
	"sync"
	"sync/atomic"

	"go.dedis.ch/kyber/v3/suites"
	"go.dedis.ch/kyber/v3/util/key"
	"go.dedis.ch/onet/v3"
	"go.dedis.ch/onet/v3/log"
	"go.dedis.ch/onet/v3/network"
	bbolt "go.etcd.io/bbolt"

	"verifharness/lib"
)

var suite = suites.MustFind("Ed25519")

// all registered services; a history uses a subset (by index)
var allNames = []string{"Alpha", "Beta", "AlphaBeta", "Alphaversio", "Alph", "Alphaversion", "Alpha_x", "Beta_",
	// lengths 11, 13, 19: not allocation size classes, so a []byte(name) has spare capacity
	"ElevenBytes", "ThirteenBytes", "NineteenBytesName19"}

// names that pairwise satisfy the side condition of the property
var isoPool = []int{0, 1, 2, 3, 4, 8, 9, 10}

// C16Val is the value type saved through Context.Save.
type C16Val struct {
	Data []byte
	N    int64
	// last field, repeated: dropping trailing elements makes the new encoding a strict byte
	// prefix of the old one (an empty list encodes to nothing)
	Tags [][]byte
}

func init() {
	network.RegisterMessage(&C16Val{})
	for _, n := range allNames {
		name := n
		if _, err := onet.RegisterNewService(name, func(c *onet.Context) (onet.Service, error) {
			ctxMu.Lock()
			ctxOf[name] = c
			ctxMu.Unlock()
			return &hsvc{onet.NewServiceProcessor(c)}, nil
		}); err != nil {
			panic(err)
		}
	}
}

type hsvc struct{ *onet.ServiceProcessor }

var ctxMu sync.Mutex
var ctxOf = map[string]*onet.Context{} // contexts of the server that was created last

func ctx(name string) *onet.Context {
	ctxMu.Lock()
	defer ctxMu.Unlock()
	return ctxOf[name]
}

// ---------------------------------------------------------------- input ----

type opIn struct {
	// save load loadraw savever loadver addput addget restart
	// hold: GetAdditionalBucket(bkt), KEEP the returned (db, name) in Slot, Get(key) through it
	// hput / hget: Put / Get through the name kept in Slot (no new GetAdditionalBucket)
	// cadd: one goroutine per entry of Multi does GetAdditionalBucket(entry) and Put(key, raw_i) at once
	Kind string `json:"kind"`
	// keys bbolt refuses: NilKey passes a nil slice; Long > 0 passes Long bytes of value Fill
	// (32768 is the longest key bbolt accepts)
	NilKey bool    `json:"nilkey,omitempty"`
	Long   int     `json:"long,omitempty"`
	Fill   int     `json:"fill,omitempty"`
	Slot   int     `json:"slot,omitempty"`
	Multi  [][]int `json:"multi,omitempty"`
	Svc    int     `json:"svc"` // index into Names
	Key    []int   `json:"key,omitempty"`
	Val    int     `json:"val,omitempty"` // value number (save) ; raw bytes number (addput)
	Ver    int64   `json:"ver,omitempty"`
	Bkt    []int   `json:"bkt,omitempty"`
	Raw    []int   `json:"raw,omitempty"`
}

type input struct {
	Kind  string   `json:"kind"`  // hist conc
	Class string   `json:"class"` // isolated clash
	Names []string `json:"names"`
	Ops   []opIn   `json:"ops,omitempty"`
	// conc
	Writers int     `json:"writers,omitempty"`
	PerW    int     `json:"perw,omitempty"`
	Keys    [][]int `json:"keys,omitempty"`
}

func toBytes(xs []int) []byte {
	b := make([]byte, len(xs))
	for i, x := range xs {
		b[i] = byte(x)
	}
	return b
}

func keyBytes(op opIn) []byte {
	switch {
	case op.NilKey:
		return nil
	case op.Long > 0:
		return bytes.Repeat([]byte{byte(op.Fill)}, op.Long)
	}
	return toBytes(op.Key)
}

// keyLit: Coq literal of the key; long constant keys use the compact [rep fill len]
func keyLit(op opIn) string {
	if op.Long > 0 && !op.NilKey {
		return fmt.Sprintf("(rep %d%%N %d%%N)", op.Fill, op.Long)
	}
	if op.NilKey {
		return "[]%N"
	}
	return bytesLit(op.Key)
}

func toInts(b []byte) []int {
	xs := make([]int, len(b))
	for i, x := range b {
		xs[i] = int(x)
	}
	return xs
}

// value number -> value; sizes vary (empty payload, short, a few hundred bytes)
func mkVal(n int) *C16Val {
	if n >= 1000 { // prefix family: same Data and N, the first n-1000 tags
		v := mkVal(3)
		for i := 0; i < n-1000; i++ {
			v.Tags = append(v.Tags, []byte{byte(97 + i), byte(i)})
		}
		return v
	}
	sz := []int{0, 1, 3, 17, 64, 300}[n%6]
	if n >= 100 { // big values: the bucket leaves bbolt's inline representation, pages get recycled
		sz = 150 + (n%4)*60
	}
	d := make([]byte, sz)
	for i := range d {
		d[i] = byte((n*31 + i*7) % 256)
	}
	return &C16Val{Data: d, N: int64(n)*1000003 - 5}
}

// ---------------------------------------------------------------- server ---

type world struct {
	dir    string
	si     *network.ServerIdentity
	srv    *onet.Server
	closed bool
}

func newWorld() (*world, error) {
	dir, err := ioutil.TempDir("", "c16db")
	if err != nil {
		return nil, err
	}
	os.Setenv("CONODE_SERVICE_PATH", dir)
	kp := key.NewKeyPair(suite)
	si := network.NewServerIdentity(kp.Public, network.NewTCPAddress("127.0.0.1:0"))
	si.SetPrivate(kp.Private)
	w := &world{dir: dir, si: si}
	w.srv = onet.NewServerTCP(w.si, suite)
	return w, nil
}

// oldDbName: the file name older onet versions used (hex of the public key); the current
// name is hex(sha256(public key)) -- see serviceManager.updateDbFileName in service.go.
func (w *world) dbNames() (oldName, newName string) {
	pub, _ := w.si.Public.MarshalBinary()
	h := sha256.Sum256(pub)
	return filepath.Join(w.dir, fmt.Sprintf("%x.db", pub)), filepath.Join(w.dir, fmt.Sprintf("%x.db", h[:]))
}

// restartOld: like restart, but while the server is down the database file is given the
// name an older server version would have left it under; start-up must migrate it.
func (w *world) restartOld() {
	w.srv.Close()
	oldName, newName := w.dbNames()
	if err := os.Rename(newName, oldName); err != nil {
		panic("c16 harness: database file not where service.go says: " + err.Error())
	}
	si := network.NewServerIdentity(w.si.Public, network.NewTCPAddress("127.0.0.1:0"))
	si.SetPrivate(w.si.GetPrivate())
	w.si = si
	w.srv = onet.NewServerTCP(w.si, suite)
}

func (w *world) restart() {
	w.srv.Close()
	si := network.NewServerIdentity(w.si.Public, network.NewTCPAddress("127.0.0.1:0"))
	si.SetPrivate(w.si.GetPrivate())
	w.si = si
	w.srv = onet.NewServerTCP(w.si, suite)
}

func (w *world) closeSrv() {
	if !w.closed {
		w.closed = true
		w.srv.Close()
	}
}

func (w *world) close() {
	w.closeSrv()
	os.RemoveAll(w.dir)
}

// ---------------------------------------------------------------- run ------

type outc struct {
	K   string `json:"k"` // ok err none bytes ver crash
	B   []int  `json:"b,omitempty"`
	Ver int64  `json:"ver,omitempty"`
	Msg string `json:"msg,omitempty"`
}

func bytesLit(b []int) string { return lib.NatList(b) + "%N" }

func (o outc) coq() string {
	switch o.K {
	case "ok":
		return "ROk"
	case "err":
		return "RErr"
	case "none":
		return "RNone"
	case "bytes":
		return "(RBytes " + bytesLit(o.B) + ")"
	case "ver":
		return fmt.Sprintf("(RVer (%d)%%Z)", o.Ver)
	}
	return "RCrash"
}

func doOp(c *onet.Context, op opIn) (o outc) {
	defer func() {
		if r := recover(); r != nil {
			o = outc{K: "crash", Msg: fmt.Sprint(r)}
		}
	}()
	switch op.Kind {
	case "save":
		if err := c.Save(keyBytes(op), mkVal(op.Val)); err != nil {
			return outc{K: "err", Msg: errClass(err)}
		}
		return outc{K: "ok"}
	case "load":
		v, err := c.Load(keyBytes(op))
		if err != nil {
			return outc{K: "err", Msg: errClass(err)}
		}
		if v == nil {
			return outc{K: "none"}
		}
		// report the value as its marshalling (compared with what was stored)
		buf, err := network.Marshal(v)
		if err != nil {
			return outc{K: "err", Msg: "re-marshal: " + errClass(err)}
		}
		return outc{K: "bytes", B: toInts(buf)}
	case "loadraw":
		b, err := c.LoadRaw(keyBytes(op))
		if err != nil {
			return outc{K: "err", Msg: errClass(err)}
		}
		if b == nil {
			return outc{K: "none"}
		}
		return outc{K: "bytes", B: toInts(b)}
	case "savever":
		if err := c.SaveVersion(int(op.Ver)); err != nil {
			return outc{K: "err", Msg: errClass(err)}
		}
		return outc{K: "ok"}
	case "loadver":
		v, err := c.LoadVersion()
		if err != nil {
			return outc{K: "err", Msg: errClass(err)}
		}
		return outc{K: "ver", Ver: int64(v)}
	case "addput":
		db, bn := c.GetAdditionalBucket(toBytes(op.Bkt))
		err := db.Update(func(tx *bbolt.Tx) error {
			return tx.Bucket(bn).Put(keyBytes(op), toBytes(op.Raw))
		})
		if err != nil {
			return outc{K: "err", Msg: errClass(err)}
		}
		return outc{K: "ok"}
	case "addget":
		db, bn := c.GetAdditionalBucket(toBytes(op.Bkt))
		var out []byte
		found := false
		err := db.View(func(tx *bbolt.Tx) error {
			v := tx.Bucket(bn).Get(keyBytes(op))
			if v != nil {
				found = true
				out = append([]byte{}, v...)
			}
			return nil
		})
		if err != nil {
			return outc{K: "err", Msg: errClass(err)}
		}
		if !found {
			return outc{K: "none"}
		}
		return outc{K: "bytes", B: toInts(out)}
	}
	return outc{K: "crash", Msg: "unknown op"}
}

func errClass(err error) string {
	s := err.Error()
	if len(s) > 60 {
		s = s[:60]
	}
	return s
}

func namesLit(names []string) string {
	l := make([]string, len(names))
	for i, n := range names {
		l[i] = bytesLit(toInts([]byte(n)))
	}
	return lib.List(l)
}

func coqOp(op opIn, valBytes map[int][]int) string {
	switch op.Kind {
	case "save":
		return fmt.Sprintf("HOp %d (OSave %s %s)", op.Svc, keyLit(op), bytesLit(valBytes[op.Val]))
	case "load":
		return fmt.Sprintf("HOp %d (OLoad %s)", op.Svc, keyLit(op))
	case "loadraw":
		return fmt.Sprintf("HOp %d (OLoadRaw %s)", op.Svc, keyLit(op))
	case "savever":
		return fmt.Sprintf("HOp %d (OSaveVer (%d)%%Z)", op.Svc, op.Ver)
	case "loadver":
		return fmt.Sprintf("HOp %d OLoadVer", op.Svc)
	case "addput":
		return fmt.Sprintf("HOp %d (OAddPut %s %s %s)", op.Svc, bytesLit(op.Bkt), keyLit(op), bytesLit(op.Raw))
	case "addget":
		return fmt.Sprintf("HOp %d (OAddGet %s %s)", op.Svc, bytesLit(op.Bkt), keyLit(op))
	}
	return "HRestart"
}

func run(raw json.RawMessage) lib.Case {
	var in input
	if err := json.Unmarshal(raw, &in); err != nil {
		panic(err)
	}
	w, err := newWorld()
	if err != nil {
		// only the scratch directory can fail here: a failure of the harness, never a dropped case
		panic("c16 harness: cannot create scratch data directory: " + err.Error())
	}
	defer func() {
		w.close()
		log.OutputToBuf()
		log.GetStdOut()
		log.GetStdErr()
	}()
	if in.Kind == "conc" {
		return runConc(w, &in)
	}
	valBytes := map[int][]int{}
	var dec []string
	for _, op := range in.Ops {
		if op.Kind == "save" {
			if _, ok := valBytes[op.Val]; !ok {
				b, err := network.Marshal(mkVal(op.Val))
				if err != nil {
					panic(err)
				}
				valBytes[op.Val] = toInts(b)
				dec = append(dec, bytesLit(valBytes[op.Val]))
			}
		}
	}
	debug.SetPanicOnFault(true) // a read of an unmapped database page becomes a panic (per goroutine)
	var outs []outc
	var hist []string
	nontrivial := false
	// everything handed to the services is kept and re-compared after every later operation
	type kept struct {
		pos  int
		live func() []byte // reads the value as the service holds it
		snap []byte        // what it was when handed out
		bad  bool
	}
	var keeps []*kept
	changed := []int{}
	verify := func() {
		for _, k := range keeps {
			if k.bad {
				continue
			}
			same := func() (ok bool) {
				defer func() {
					if r := recover(); r != nil {
						ok = false
					}
				}()
				return bytes.Equal(k.live(), k.snap)
			}()
			if !same {
				k.bad = true
				changed = append(changed, k.pos)
			}
		}
	}
	keep := func(pos int, live func() []byte) {
		func() {
			defer func() { recover() }()
			keeps = append(keeps, &kept{pos: pos, live: live, snap: append([]byte{}, live()...)})
		}()
	}
	type slot struct {
		db   *bbolt.DB
		name []byte
		bkt  []int
	}
	slots := map[[2]int]*slot{}
	emit := func(coqop string, o outc) int {
		outs = append(outs, o)
		hist = append(hist, "("+coqop+", "+o.coq()+")")
		if o.K == "bytes" || o.K == "ver" && o.Ver != 0 {
			nontrivial = true
		}
		return len(outs) - 1
	}
	rawPut := func(db *bbolt.DB, bn, k, v []byte) (o outc) {
		defer func() {
			if r := recover(); r != nil {
				o = outc{K: "crash", Msg: fmt.Sprint(r)}
			}
		}()
		if err := db.Update(func(tx *bbolt.Tx) error { return tx.Bucket(bn).Put(k, v) }); err != nil {
			return outc{K: "err", Msg: errClass(err)}
		}
		return outc{K: "ok"}
	}
	rawGet := func(db *bbolt.DB, bn, k []byte) (o outc) {
		defer func() {
			if r := recover(); r != nil {
				o = outc{K: "crash", Msg: fmt.Sprint(r)}
			}
		}()
		var out []byte
		found := false
		if err := db.View(func(tx *bbolt.Tx) error {
			if v := tx.Bucket(bn).Get(k); v != nil {
				found = true
				out = append([]byte{}, v...)
			}
			return nil
		}); err != nil {
			return outc{K: "err", Msg: errClass(err)}
		}
		if !found {
			return outc{K: "none"}
		}
		return outc{K: "bytes", B: toInts(out)}
	}
	broken := false
	for _, op := range in.Ops {
		if broken {
			break
		}
		if op.Kind == "restart" || op.Kind == "oldrestart" {
			slots = map[[2]int]*slot{} // the database handle of the old server is closed
			ro := outc{K: "ok"}
			func() {
				defer func() {
					if r := recover(); r != nil {
						ro = outc{K: "crash", Msg: fmt.Sprint(r)}
					}
				}()
				if op.Kind == "oldrestart" {
					w.restartOld()
				} else {
					w.restart()
				}
			}()
			emit("HRestart", ro)
			verify()
			if ro.K != "ok" {
				// the server did not come back: the history ends here, the crash is the observation
				broken = true
			}
			continue
		}
		c := ctx(in.Names[op.Svc])
		if c == nil {
			// every name in allNames is registered, so a server that started has a context for it;
			// only a replay file with an unknown name gets here: fail loudly, never drop the case
			panic("c16 harness: no service context for " + in.Names[op.Svc])
		}
		sl := slots[[2]int{op.Svc, op.Slot}]
		switch op.Kind {
		case "hold":
			var o outc
			func() {
				defer func() {
					if r := recover(); r != nil {
						o = outc{K: "crash", Msg: fmt.Sprint(r)}
					}
				}()
				db, bn := c.GetAdditionalBucket(toBytes(op.Bkt))
				ns := &slot{db: db, name: bn, bkt: op.Bkt}
				slots[[2]int{op.Svc, op.Slot}] = ns
				o = rawGet(db, bn, keyBytes(op))
			}()
			pos := emit(fmt.Sprintf("HOp %d (OAddGet %s %s)", op.Svc, bytesLit(op.Bkt), keyLit(op)), o)
			if ns := slots[[2]int{op.Svc, op.Slot}]; ns != nil {
				keep(pos, func() []byte { return ns.name })
			}
		case "hput", "hget":
			if sl == nil { // nothing held (any more): an ordinary additional-bucket operation
				k := "addput"
				if op.Kind == "hget" {
					k = "addget"
				}
				op2 := op
				op2.Kind = k
				emit(coqOp(op2, valBytes), doOp(c, op2))
			} else if op.Kind == "hput" {
				emit(fmt.Sprintf("HOp %d (OAddPut %s %s %s)", op.Svc, bytesLit(sl.bkt), keyLit(op), bytesLit(op.Raw)),
					rawPut(sl.db, sl.name, keyBytes(op), toBytes(op.Raw)))
			} else {
				emit(fmt.Sprintf("HOp %d (OAddGet %s %s)", op.Svc, bytesLit(sl.bkt), keyLit(op)),
					rawGet(sl.db, sl.name, keyBytes(op)))
			}
		case "cver":
			// every service of the history saves ITS OWN constant version (Ver + index) from
			// Slot goroutines at once, several times each; saves of one service are
			// idempotent and different services commute: one OSaveVer per service in the model
			nsvc := len(in.Names)
			g := op.Slot
			if g < 1 {
				g = 2
			}
			res := make([]outc, nsvc)
			for i := range res {
				res[i] = outc{K: "ok"}
			}
			var rmu sync.Mutex
			var wg sync.WaitGroup
			var flag int32
			for sv := 0; sv < nsvc; sv++ {
				cs := ctx(in.Names[sv])
				for j := 0; j < g; j++ {
					sv := sv
					wg.Add(1)
					go func() {
						defer wg.Done()
						for atomic.LoadInt32(&flag) == 0 {
						}
						for r := 0; r < 25; r++ {
							o := doOp(cs, opIn{Kind: "savever", Svc: sv, Ver: op.Ver + int64(sv)})
							if o.K != "ok" {
								rmu.Lock()
								res[sv] = o
								rmu.Unlock()
							}
						}
					}()
				}
			}
			atomic.StoreInt32(&flag, 1)
			wg.Wait()
			for sv := 0; sv < nsvc; sv++ {
				emit(fmt.Sprintf("HOp %d (OSaveVer (%d)%%Z)", sv, op.Ver+int64(sv)), res[sv])
			}
		case "cadd":
			res := make([]outc, len(op.Multi))
			var wg sync.WaitGroup
			for i := range op.Multi {
				i := i
				wg.Add(1)
				go func() {
					defer wg.Done()
					res[i] = doOp(c, opIn{Kind: "addput", Svc: op.Svc, Bkt: op.Multi[i], Key: op.Key, Raw: []int{i + 1, op.Svc + 1, 77}})
				}()
			}
			wg.Wait()
			// puts into different buckets commute: reported in index order
			for i := range op.Multi {
				emit(fmt.Sprintf("HOp %d (OAddPut %s %s %s)", op.Svc, bytesLit(op.Multi[i]), keyLit(op), bytesLit([]int{i + 1, op.Svc + 1, 77})), res[i])
			}
		case "load":
			// like doOp, but the decoded value stays with the "service"
			var o outc
			var val *C16Val
			func() {
				defer func() {
					if r := recover(); r != nil {
						o = outc{K: "crash", Msg: fmt.Sprint(r)}
					}
				}()
				v, err := c.Load(keyBytes(op))
				switch {
				case err != nil:
					o = outc{K: "err", Msg: errClass(err)}
				case v == nil:
					o = outc{K: "none"}
				default:
					buf, err := network.Marshal(v)
					if err != nil {
						o = outc{K: "err", Msg: "re-marshal: " + errClass(err)}
					} else {
						o = outc{K: "bytes", B: toInts(buf)}
						val, _ = v.(*C16Val)
					}
				}
			}()
			pos := emit(coqOp(op, valBytes), o)
			if val != nil {
				keep(pos, func() []byte { return val.Data })
			}
		case "loadraw":
			var o outc
			var rawv []byte
			func() {
				defer func() {
					if r := recover(); r != nil {
						o = outc{K: "crash", Msg: fmt.Sprint(r)}
					}
				}()
				b, err := c.LoadRaw(keyBytes(op))
				switch {
				case err != nil:
					o = outc{K: "err", Msg: errClass(err)}
				case b == nil:
					o = outc{K: "none"}
				default:
					o = outc{K: "bytes", B: toInts(b)}
					rawv = b
				}
			}()
			pos := emit(coqOp(op, valBytes), o)
			if rawv != nil {
				keep(pos, func() []byte { return rawv })
			}
		default:
			emit(coqOp(op, valBytes), doOp(c, op))
		}
		verify()
	}
	// the server is closed by the deferred w.close(); look once more afterwards
	w.closeSrv()
	verify()
	sort.Ints(changed)
	coq := fmt.Sprintf("CHist %s %s %s %s", namesLit(in.Names), lib.List(dec), lib.List(hist), lib.NatList(changed))
	// compact observation for evidence / replay files
	small := make([]outc, len(outs))
	for i, o := range outs {
		small[i] = o
		if len(o.B) > 24 {
			small[i].B = o.B[:24]
		}
	}
	return lib.Case{Coq: coq, Class: in.Class, Obs: map[string]interface{}{"answers": small, "changed_after_being_handed_out": changed}, Nontrivial: nontrivial}
}

// runConc: Writers goroutines per (service,key) save distinct values concurrently
// while loaders read; afterwards every key is loaded once more.
func runConc(w *world, in *input) lib.Case {
	type wr struct {
		svc int
		key []int
		val int
	}
	var writes []wr
	n := 0
	for s := range in.Names {
		for _, k := range in.Keys {
			for i := 0; i < in.Writers*in.PerW; i++ {
				writes = append(writes, wr{s, k, n})
				n++
			}
		}
	}
	valBytes := map[int][]int{}
	for _, x := range writes {
		b, _ := network.Marshal(mkVal(x.val))
		valBytes[x.val] = toInts(b)
	}
	type ld struct {
		svc int
		key []int
		o   outc
	}
	var mu sync.Mutex
	var wg sync.WaitGroup
	stop := make(chan struct{})
	crashed := ""
	// writers: split the writes round-robin over Writers goroutines per (svc,key)
	chunks := map[string][]wr{}
	for i, x := range writes {
		id := fmt.Sprintf("%d/%v/%d", x.svc, x.key, i%in.Writers)
		chunks[id] = append(chunks[id], x)
	}
	var chunkIDs []string
	for id := range chunks {
		chunkIDs = append(chunkIDs, id)
	}
	sort.Strings(chunkIDs)
	for _, id := range chunkIDs {
		ch := chunks[id]
		wg.Add(1)
		go func() {
			defer wg.Done()
			for _, x := range ch {
				o := doOp(ctx(in.Names[x.svc]), opIn{Kind: "save", Key: x.key, Val: x.val})
				if o.K != "ok" {
					mu.Lock()
					crashed = "save: " + o.K + " " + o.Msg
					mu.Unlock()
				}
			}
		}()
	}
	var lg sync.WaitGroup
	// one loader thread per (service, key); its answers are kept IN ORDER
	var loaders [][]ld
	for s := range in.Names {
		for _, k := range in.Keys {
			s, k := s, k
			li := len(loaders)
			loaders = append(loaders, nil)
			lg.Add(1)
			go func() {
				defer lg.Done()
				for i := 0; i < 60; i++ {
					select {
					case <-stop:
						return
					default:
					}
					kind := "load"
					if i%2 == 1 {
						kind = "loadraw"
					}
					o := doOp(ctx(in.Names[s]), opIn{Kind: kind, Key: k})
					mu.Lock()
					loaders[li] = append(loaders[li], ld{s, k, o})
					mu.Unlock()
				}
			}()
		}
	}
	wg.Wait()
	close(stop)
	lg.Wait()
	if crashed != "" {
		// a failed save under concurrency is reported as a bogus answer
		loaders[0] = append(loaders[0], ld{0, in.Keys[0], outc{K: "err", Msg: crashed}})
	}
	var after []ld
	for s := range in.Names {
		for _, k := range in.Keys {
			after = append(after, ld{s, k, doOp(ctx(in.Names[s]), opIn{Kind: "load", Key: k})})
			after = append(after, ld{s, k, doOp(ctx(in.Names[s]), opIn{Kind: "loadraw", Key: k})})
		}
	}
	// a key nobody writes, per service
	for s := range in.Names {
		k := []int{250, 251}
		after = append(after, ld{s, k, doOp(ctx(in.Names[s]), opIn{Kind: "load", Key: k})})
	}
	// consecutive repetitions of an answer carry no information: collapsed, order kept
	var dl []string
	nd := 0
	for _, l := range loaders {
		var items []string
		prev := ""
		for _, d := range l {
			t := fmt.Sprintf("(%d, %s, %s)", d.svc, bytesLit(d.key), d.o.coq())
			if t != prev {
				items = append(items, t)
				prev = t
			}
		}
		nd += len(items)
		dl = append(dl, lib.List(items))
	}
	// one list per saver thread, in the order the thread saved
	var wl []string
	for _, id := range chunkIDs {
		var items []string
		for _, x := range chunks[id] {
			items = append(items, fmt.Sprintf("(%d, %s, %s)", x.svc, bytesLit(x.key), bytesLit(valBytes[x.val])))
		}
		wl = append(wl, lib.List(items))
	}
	al := make([]string, len(after))
	obs := []string{}
	for i, a := range after {
		al[i] = fmt.Sprintf("(%d, %s, %s)", a.svc, bytesLit(a.key), a.o.coq())
		obs = append(obs, a.o.K)
	}
	coq := fmt.Sprintf("CConc %s %s %s %s", namesLit(in.Names), lib.List(wl), lib.List(dl), lib.List(al))
	return lib.Case{Coq: coq, Class: in.Class, Obs: map[string]interface{}{"after": obs, "during_answers_in_order": nd}, Nontrivial: true,
		Key: fmt.Sprintf("conc-%d-%d-%d-%d", len(in.Names), len(in.Keys), in.Writers, in.PerW) + fmt.Sprint(obs)}
}

// ---------------------------------------------------------------- generator -

var keyPool = [][]int{{107}, {107, 49}, {100, 98, 86, 101, 114, 115, 105, 111, 110} /* "dbVersion" */, {0}, {255, 0, 1}, {}, {120}}
var bktPool = [][]int{{120} /* "x" */, {}, {98, 107, 116}, {118, 101, 114, 115, 105, 111, 110}, /* "version" */
	{97, 97} /* "aa" */, {98, 98} /* "bb" */, {97}, {98, 49}}

func genHist(rng *rand.Rand, class string, nops int) input {
	var names []string
	switch class {
	case "isolated", "big":
		// names satisfying the side condition: 2-4 of them, various lengths
		perm := rng.Perm(len(isoPool))
		k := 2 + rng.Intn(3)
		if class == "big" {
			k = 2
		}
		for _, i := range perm[:k] {
			names = append(names, allNames[isoPool[i]])
		}
	default: // clash: a base service plus at least one extension of it
		switch rng.Intn(3) {
		case 0:
			names = []string{"Alpha", "Alphaversion"}
		case 1:
			names = []string{"Alpha", "Alpha_x"}
		default:
			names = []string{"Beta", "Beta_"}
		}
		if rng.Intn(2) == 0 {
			names = append(names, "AlphaBeta")
		}
		if rng.Intn(2) == 0 {
			names[0], names[1] = names[1], names[0]
		}
	}
	in := input{Kind: "hist", Class: class, Names: names}
	key := func() []int {
		if rng.Intn(3) == 0 {
			return keyPool[rng.Intn(len(keyPool))]
		}
		return keyPool[rng.Intn(3)] // few keys: overwrites and cross-service collisions are frequent
	}
	valNo := func() int {
		if class == "big" {
			return 100 + rng.Intn(40)
		}
		return rng.Intn(12)
	}
	if class == "big" {
		// fill every service bucket well beyond a quarter page, many keys
		for s := range names {
			for j := 0; j < 8; j++ {
				in.Ops = append(in.Ops, opIn{Kind: "save", Svc: s, Key: []int{102, j}, Val: 100 + rng.Intn(40)})
			}
		}
	}
	// additional-bucket names a service holds on to (since the last restart)
	held := map[int][]int{}
	holdSome := func(s int) {
		n := 2 + rng.Intn(2)
		perm := rng.Perm(len(bktPool))
		for j := 0; j < n; j++ {
			slot := len(held[s])
			held[s] = append(held[s], slot)
			in.Ops = append(in.Ops, opIn{Kind: "hold", Svc: s, Slot: slot, Bkt: bktPool[perm[j]], Key: key()})
		}
	}
	for i := 0; i < nops; i++ {
		s := rng.Intn(len(names))
		r := rng.Intn(112)
		switch {
		case r >= 100 && r < 104: // obtain several bucket names first, use them afterwards
			holdSome(s)
		case r >= 104 && r < 110:
			if len(held[s]) == 0 {
				holdSome(s)
			}
			slot := held[s][rng.Intn(len(held[s]))]
			if rng.Intn(2) == 0 {
				raw := []int{rng.Intn(256), rng.Intn(256), s}
				in.Ops = append(in.Ops, opIn{Kind: "hput", Svc: s, Slot: slot, Key: key(), Raw: raw})
			} else {
				in.Ops = append(in.Ops, opIn{Kind: "hget", Svc: s, Slot: slot, Key: key()})
			}
		case r >= 110: // several buckets requested and written at once, then read back
			perm := rng.Perm(len(bktPool))
			n := 2 + rng.Intn(4)
			var multi [][]int
			for j := 0; j < n; j++ {
				multi = append(multi, bktPool[perm[j]])
			}
			k := []int{99, rng.Intn(3)}
			in.Ops = append(in.Ops, opIn{Kind: "cadd", Svc: s, Multi: multi, Key: k})
			for _, b := range multi {
				in.Ops = append(in.Ops, opIn{Kind: "addget", Svc: s, Bkt: b, Key: k})
			}
		case r < 22:
			in.Ops = append(in.Ops, opIn{Kind: "save", Svc: s, Key: key(), Val: valNo()})
		case r < 40:
			in.Ops = append(in.Ops, opIn{Kind: "load", Svc: s, Key: key()})
		case r < 52:
			in.Ops = append(in.Ops, opIn{Kind: "loadraw", Svc: s, Key: key()})
		case r < 60:
			v := int64(rng.Intn(2000) - 1000)
			switch rng.Intn(8) {
			case 0:
				v = 2147483647
			case 1:
				v = -2147483648
			case 2:
				v = 2147483648 + int64(rng.Intn(5)) // wraps
			case 3:
				v = int64(rng.Int31()) * int64(rng.Intn(70000)) // beyond int32
			case 4, 5:
				v = 0 // back to 0: the last saved version wins, 0 included
			}
			in.Ops = append(in.Ops, opIn{Kind: "savever", Svc: s, Ver: v})
			if v == 0 && rng.Intn(2) == 0 {
				in.Ops = append(in.Ops, opIn{Kind: "loadver", Svc: s})
			}
		case r < 70:
			in.Ops = append(in.Ops, opIn{Kind: "loadver", Svc: s})
		case r < 80:
			raw := make([]int, rng.Intn(7))
			for j := range raw {
				raw[j] = rng.Intn(256)
			}
			in.Ops = append(in.Ops, opIn{Kind: "addput", Svc: s, Bkt: bktPool[rng.Intn(len(bktPool))], Key: key(), Raw: raw})
		case r < 90:
			in.Ops = append(in.Ops, opIn{Kind: "addget", Svc: s, Bkt: bktPool[rng.Intn(len(bktPool))], Key: key()})
		default:
			if rng.Intn(3) == 0 {
				// the data directory as an older server version left it: db under the old file name
				in.Ops = append(in.Ops, opIn{Kind: "oldrestart"})
			} else {
				in.Ops = append(in.Ops, opIn{Kind: "restart"})
			}
			held = map[int][]int{}
		}
	}
	return in
}

// genKeys: the three kinds of key bbolt refuses (empty, nil, longer than 32768 bytes), the
// longest accepted key (32768), each saved and then loaded, followed by a valid save/load
// of a neighbouring key, with a restart in between now and then.
func genKeys(rng *rand.Rand) input {
	perm := rng.Perm(len(isoPool))
	names := []string{allNames[isoPool[perm[0]]], allNames[isoPool[perm[1]]]}
	in := input{Kind: "hist", Class: "keys", Names: names}
	fill := 1 + rng.Intn(200)
	kinds := []opIn{
		{Key: []int{}},            // empty
		{NilKey: true},            // nil
		{Long: 32769, Fill: fill}, // one byte too long
		{Long: 32768, Fill: fill}, // longest accepted
		{Long: 40000 + rng.Intn(30000), Fill: fill + 1},
	}
	neighbours := []opIn{{Key: []int{fill}}, {Long: 32767, Fill: fill}, {Key: []int{0}}, {Long: 32768, Fill: fill + 2}}
	val := 0
	for _, pi := range rng.Perm(len(kinds)) {
		k := kinds[pi]
		s := rng.Intn(2)
		mk := func(kind string) opIn { o := k; o.Kind = kind; o.Svc = s; return o }
		if rng.Intn(2) == 0 { // an older value under a valid neighbour, to catch stale answers
			nb := neighbours[rng.Intn(len(neighbours))]
			nb.Kind, nb.Svc, nb.Val = "save", s, val
			val++
			in.Ops = append(in.Ops, nb)
		}
		sv := mk("save")
		sv.Val = val
		val++
		in.Ops = append(in.Ops, sv, mk("load"), mk("loadraw"))
		if rng.Intn(3) == 0 {
			in.Ops = append(in.Ops, opIn{Kind: "restart"}, mk("load"))
		}
		ap := mk("addput")
		ap.Bkt, ap.Raw = []int{120}, []int{pi, 5}
		ag := mk("addget")
		ag.Bkt = []int{120}
		in.Ops = append(in.Ops, ap, ag)
		// the other service must not see it, and a neighbouring valid key works
		ol := mk("loadraw")
		ol.Svc = 1 - s
		nb := neighbours[rng.Intn(len(neighbours))]
		nbs, nbl := nb, nb
		nbs.Kind, nbs.Svc, nbs.Val = "save", s, val
		val++
		nbl.Kind, nbl.Svc = "load", s
		in.Ops = append(in.Ops, ol, nbs, nbl, mk("load"))
	}
	return in
}

// genVersions: the database version of 2-3 services: saved, saved again (0 after a
// non-zero one included, values that wrap to 0 as int32), read, with restarts; the other
// services' versions must stay what they were (0 on a fresh database).
func genVersions(rng *rand.Rand) input {
	perm := rng.Perm(len(isoPool))
	k := 2 + rng.Intn(2)
	var names []string
	for _, i := range perm[:k] {
		names = append(names, allNames[isoPool[i]])
	}
	in := input{Kind: "hist", Class: "versions", Names: names}
	vers := []int64{0, 0, 0, 1, 3, -1, 7, 2147483647, -2147483648, 4294967296, 4294967299, int64(rng.Intn(100000))}
	all := func() {
		for s := range names {
			in.Ops = append(in.Ops, opIn{Kind: "loadver", Svc: s})
		}
	}
	all()
	n := 6 + rng.Intn(10)
	for i := 0; i < n; i++ {
		s := rng.Intn(k)
		switch r := rng.Intn(10); {
		case r < 5:
			v := vers[rng.Intn(len(vers))]
			if i == 0 {
				v = 1 + int64(rng.Intn(50)) // something non-zero first
			}
			in.Ops = append(in.Ops, opIn{Kind: "savever", Svc: s, Ver: v}, opIn{Kind: "loadver", Svc: s})
		case r < 7:
			in.Ops = append(in.Ops, opIn{Kind: "savever", Svc: s, Ver: 0})
		case r < 8:
			if rng.Intn(2) == 0 {
				in.Ops = append(in.Ops, opIn{Kind: "oldrestart"})
			} else {
				in.Ops = append(in.Ops, opIn{Kind: "restart"})
			}
			all()
		case r < 9:
			// all services save their own constant version concurrently
			in.Ops = append(in.Ops, opIn{Kind: "cver", Ver: int64(1 + rng.Intn(1000)), Slot: 2 + rng.Intn(3)})
			all()
		default:
			in.Ops = append(in.Ops, opIn{Kind: "loadver", Svc: rng.Intn(k)})
		}
	}
	in.Ops = append(in.Ops, opIn{Kind: "restart"})
	all()
	return in
}

func generate(rng *rand.Rand, tier string) []interface{} {
	var ins []interface{}
	nVer := 12
	if tier != "quick" {
		nVer = 150
	}
	for i := 0; i < nVer; i++ {
		ins = append(ins, genVersions(rng))
	}
	nKeys := 8
	if tier != "quick" {
		nKeys = 80
	}
	for i := 0; i < nKeys; i++ {
		ins = append(ins, genKeys(rng))
	}
	nIso, nClash, nConc, nBig, maxOps := 150, 40, 10, 24, 40
	if tier != "quick" {
		nIso, nClash, nConc, nBig, maxOps = 2200, 500, 100, 400, 80
	}
	for i := 0; i < nBig; i++ {
		ins = append(ins, genHist(rng, "big", 10+rng.Intn(20)))
	}
	for i := 0; i < nIso; i++ {
		ins = append(ins, genHist(rng, "isolated", 8+rng.Intn(maxOps-7)))
	}
	for i := 0; i < nClash; i++ {
		ins = append(ins, genHist(rng, "clash", 8+rng.Intn(maxOps-7)))
	}
	for i := 0; i < nConc; i++ {
		perm := rng.Perm(len(isoPool))
		k := 2 + rng.Intn(3)
		var names []string
		for _, j := range perm[:k] {
			names = append(names, allNames[isoPool[j]])
		}
		ins = append(ins, input{Kind: "conc", Class: "concurrent", Names: names,
			Writers: 2 + rng.Intn(3), PerW: 2 + rng.Intn(4), Keys: [][]int{{107}, {107, 49}}[:1+rng.Intn(2)]})
	}
	return ins
}

func corpus() []interface{} {
	k := []int{107}
	dbv := []int{100, 98, 86, 101, 114, 115, 105, 111, 110}
	return []interface{}{
		// the side condition is needed: "Alpha" / "Alphaversion"
		input{Kind: "hist", Class: "clash", Names: []string{"Alpha", "Alphaversion"}, Ops: []opIn{
			{Kind: "loadraw", Svc: 1, Key: dbv},
			{Kind: "savever", Svc: 0, Ver: 7},
			{Kind: "loadraw", Svc: 1, Key: dbv},
			{Kind: "load", Svc: 1, Key: dbv},
			{Kind: "save", Svc: 1, Key: dbv, Val: 3},
			{Kind: "loadver", Svc: 0},
		}},
		input{Kind: "hist", Class: "clash", Names: []string{"Alpha", "Alpha_x"}, Ops: []opIn{
			{Kind: "addput", Svc: 0, Bkt: []int{120}, Key: k, Raw: []int{1, 2, 3}},
			{Kind: "loadraw", Svc: 1, Key: k},
			{Kind: "load", Svc: 1, Key: k},
		}},
		// read-your-writes across a restart, same key in three services
		input{Kind: "hist", Class: "isolated", Names: []string{"Alpha", "AlphaBeta", "Alphaversio"}, Ops: []opIn{
			{Kind: "save", Svc: 0, Key: k, Val: 1},
			{Kind: "save", Svc: 1, Key: k, Val: 2},
			{Kind: "savever", Svc: 0, Ver: 3},
			{Kind: "addput", Svc: 2, Bkt: []int{120}, Key: k, Raw: []int{9}},
			{Kind: "restart"},
			{Kind: "load", Svc: 0, Key: k},
			{Kind: "load", Svc: 1, Key: k},
			{Kind: "load", Svc: 2, Key: k},
			{Kind: "loadver", Svc: 0},
			{Kind: "loadver", Svc: 1},
			{Kind: "addget", Svc: 2, Bkt: []int{120}, Key: k},
			{Kind: "addget", Svc: 0, Bkt: []int{120}, Key: k},
			{Kind: "save", Svc: 0, Key: []int{}, Val: 1},
			{Kind: "load", Svc: 0, Key: []int{}},
		}},
		// one service (11-byte name) holds two additional bucket names at the same time
		input{Kind: "hist", Class: "isolated", Names: []string{"ElevenBytes", "ThirteenBytes"}, Ops: []opIn{
			{Kind: "hold", Svc: 0, Slot: 0, Bkt: []int{97, 97}, Key: k},
			{Kind: "hold", Svc: 0, Slot: 1, Bkt: []int{98, 98}, Key: k},
			{Kind: "hput", Svc: 0, Slot: 0, Key: k, Raw: []int{1}},
			{Kind: "hput", Svc: 0, Slot: 1, Key: k, Raw: []int{2}},
			{Kind: "hget", Svc: 0, Slot: 0, Key: k},
			{Kind: "addget", Svc: 0, Bkt: []int{97, 97}, Key: k},
			{Kind: "addget", Svc: 0, Bkt: []int{98, 98}, Key: k},
			{Kind: "restart"},
			{Kind: "addget", Svc: 0, Bkt: []int{97, 97}, Key: k},
			{Kind: "cadd", Svc: 1, Multi: [][]int{{97}, {98}, {97, 97}, {98, 49}}, Key: k},
			{Kind: "addget", Svc: 1, Bkt: []int{97}, Key: k},
			{Kind: "addget", Svc: 1, Bkt: []int{98}, Key: k},
			{Kind: "addget", Svc: 1, Bkt: []int{97, 97}, Key: k},
			{Kind: "addget", Svc: 1, Bkt: []int{98, 49}, Key: k},
		}},
		// values loaded from a large bucket stay what they were, across later writes and a restart
		bigCorpus(),
		// concurrent SaveVersion of four services, each its own constant
		input{Kind: "hist", Class: "versions", Names: []string{"Alpha", "Beta", "ElevenBytes", "AlphaBeta"}, Ops: []opIn{
			{Kind: "cver", Ver: 11, Slot: 4},
			{Kind: "loadver", Svc: 0}, {Kind: "loadver", Svc: 1}, {Kind: "loadver", Svc: 2}, {Kind: "loadver", Svc: 3},
			{Kind: "cver", Ver: 500, Slot: 4},
			{Kind: "loadver", Svc: 0}, {Kind: "loadver", Svc: 1}, {Kind: "loadver", Svc: 2}, {Kind: "loadver", Svc: 3},
			{Kind: "restart"},
			{Kind: "loadver", Svc: 0}, {Kind: "loadver", Svc: 3},
		}},
		// a data directory left by an older server (db under the old file name): the migration is transparent
		input{Kind: "hist", Class: "isolated", Names: []string{"Alpha", "Beta"}, Ops: []opIn{
			{Kind: "save", Svc: 0, Key: k, Val: 1},
			{Kind: "savever", Svc: 1, Ver: 5},
			{Kind: "oldrestart"},
			{Kind: "load", Svc: 0, Key: k},
			{Kind: "loadver", Svc: 1},
			{Kind: "save", Svc: 0, Key: []int{107, 49}, Val: 2},
			{Kind: "save", Svc: 1, Key: k, Val: 3},
			{Kind: "restart"},
			{Kind: "load", Svc: 0, Key: k},
			{Kind: "load", Svc: 0, Key: []int{107, 49}},
			{Kind: "load", Svc: 1, Key: k},
			{Kind: "oldrestart"},
			{Kind: "load", Svc: 0, Key: []int{107, 49}},
			{Kind: "loadver", Svc: 1},
		}},
		// overwrites whose encoding is a strict prefix / an extension of / equal to the stored
		// one: the later save wins, in the same process and after a restart
		prefixCase(),
		// the last saved version wins, 0 included, also across a restart
		input{Kind: "hist", Class: "versions", Names: []string{"Alpha", "Beta"}, Ops: []opIn{
			{Kind: "loadver", Svc: 0},
			{Kind: "savever", Svc: 0, Ver: 3},
			{Kind: "loadver", Svc: 0},
			{Kind: "savever", Svc: 0, Ver: 0},
			{Kind: "loadver", Svc: 0},
			{Kind: "loadver", Svc: 1},
			{Kind: "restart"},
			{Kind: "loadver", Svc: 0},
			{Kind: "savever", Svc: 1, Ver: 4294967296},
			{Kind: "loadver", Svc: 1},
		}},
		// keys bbolt refuses: Save must not report success and then lose the value
		input{Kind: "hist", Class: "keys", Names: []string{"Alpha", "ElevenBytes"}, Ops: []opIn{
			{Kind: "save", Svc: 0, Key: []int{7}, Val: 1},
			{Kind: "save", Svc: 0, Key: []int{}, Val: 2},
			{Kind: "load", Svc: 0, Key: []int{}},
			{Kind: "save", Svc: 0, NilKey: true, Val: 3},
			{Kind: "loadraw", Svc: 0, NilKey: true},
			{Kind: "save", Svc: 0, Long: 32768, Fill: 7, Val: 4},
			{Kind: "load", Svc: 0, Long: 32768, Fill: 7},
			{Kind: "save", Svc: 0, Long: 32769, Fill: 7, Val: 5},
			{Kind: "load", Svc: 0, Long: 32769, Fill: 7},
			{Kind: "loadraw", Svc: 1, Long: 32768, Fill: 7},
			{Kind: "restart"},
			{Kind: "load", Svc: 0, Long: 32768, Fill: 7},
			{Kind: "load", Svc: 0, Long: 32769, Fill: 7},
			{Kind: "save", Svc: 0, Long: 32767, Fill: 7, Val: 6},
			{Kind: "load", Svc: 0, Long: 32767, Fill: 7},
			{Kind: "load", Svc: 0, Key: []int{7}},
		}},
	}
}

func prefixCase() input {
	k, k2 := []int{112, 102}, []int{112, 103}
	enc := func(n int) []byte {
		b, err := network.Marshal(mkVal(n))
		if err != nil {
			panic(err)
		}
		return b
	}
	for n := 1000; n < 1004; n++ {
		if a, b := enc(n), enc(n+1); len(a) >= len(b) || !bytes.HasPrefix(b, a) {
			panic("c16 harness: value family 1000.. is not a chain of strict byte prefixes")
		}
	}
	in := input{Kind: "hist", Class: "isolated", Names: []string{"Alpha", "Beta"}}
	step := func(svc int, key []int, val int) {
		in.Ops = append(in.Ops, opIn{Kind: "save", Svc: svc, Key: key, Val: val},
			opIn{Kind: "loadraw", Svc: svc, Key: key}, opIn{Kind: "load", Svc: svc, Key: key})
	}
	step(0, k, 1003)
	step(0, k, 1002) // strict prefix of the stored encoding
	step(1, k, 1001)
	step(0, k, 1002) // equal
	step(0, k, 1004) // extension
	step(0, k2, 1004)
	step(0, k2, 1000) // all tags dropped
	step(1, k, 1000)
	in.Ops = append(in.Ops, opIn{Kind: "restart"},
		opIn{Kind: "load", Svc: 0, Key: k}, opIn{Kind: "loadraw", Svc: 0, Key: k2}, opIn{Kind: "load", Svc: 1, Key: k})
	step(0, k, 1001) // prefix of what was stored before the restart
	in.Ops = append(in.Ops, opIn{Kind: "oldrestart"},
		opIn{Kind: "loadraw", Svc: 0, Key: k}, opIn{Kind: "load", Svc: 0, Key: k2}, opIn{Kind: "loadraw", Svc: 1, Key: k})
	return in
}

func bigCorpus() input {
	in := input{Kind: "hist", Class: "big", Names: []string{"Alpha", "Beta"}}
	for s := 0; s < 2; s++ {
		for j := 0; j < 10; j++ {
			in.Ops = append(in.Ops, opIn{Kind: "save", Svc: s, Key: []int{102, j}, Val: 100 + j + s})
		}
	}
	k := []int{102, 3}
	in.Ops = append(in.Ops, opIn{Kind: "load", Svc: 1, Key: k}, opIn{Kind: "loadraw", Svc: 1, Key: k})
	for r := 0; r < 4; r++ {
		in.Ops = append(in.Ops, opIn{Kind: "save", Svc: 0, Key: k, Val: 120 + r}, opIn{Kind: "save", Svc: 1, Key: k, Val: 130 + r},
			opIn{Kind: "load", Svc: 1, Key: k})
	}
	in.Ops = append(in.Ops, opIn{Kind: "loadraw", Svc: 0, Key: k}, opIn{Kind: "restart"}, opIn{Kind: "load", Svc: 0, Key: k})
	return in
}

var _ = bytes.Equal

func main() {
	log.SetDebugVisible(0)
	log.OutputToBuf()
	lib.Main(lib.Harness{
		Prop:   "C16",
		Import: "Onet.Corr.C16",
		Rule: "seeded histories of 8-40 (thorough: 8-80) storage operations by 2-4 services with prefix-sharing names on one real server, " +
			"few shared keys and bucket names, restarts on the same data directory; 'clash' histories use names violating the side condition " +
			"(model comparison only); 'concurrent' cases run 2-4 savers per key and service with concurrent loaders; 'oldrestart' = restart after the database file was given the name older server versions used (start-up must migrate it); 'cver' = all services save their own constant version from 2-4 goroutines each at once; 'versions' histories save the database version repeatedly (0 after a non-zero one, values wrapping to 0) with reads and restarts; 'keys' histories save and load under the keys bbolt refuses (empty, nil, 32769 and more bytes) and the longest accepted key (32768) with valid neighbours; 'big' histories fill buckets " +
			"beyond bbolt's inline size with 150-330 byte values over many keys; service names of 4-19 bytes (incl. 11, 13, 19); services hold several " +
			"additional-bucket names at once and request several concurrently; every value / bucket name handed out is re-compared after every later operation and restart; " +
			"non-trivial = some load returned data; distinct = distinct Coq case term",
		Shard:    15,
		Generate: generate,
		Run:      run,
		Corpus:   corpus,
	})
}
