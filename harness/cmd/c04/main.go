// C04 harness: children's messages of aggregated (slice-registered) types are
// injected into real TreeNodeInstances in every arrival order (fan-out <= 4),
// over several rounds, with several aggregated types in flight, with parent
// and non-aggregated messages in between, and with two instances on one
// server; the batches the protocol's handlers / channels receive are reported
// in order.  After every injected message a fence message is dispatched through
// the same instance, so that "nothing was delivered yet" is an observation and
// not a timing guess.  Scenarios run in the worker sub-processes of package
// nodeh (shared with C02).
package main

import (
	"encoding/json"
	"fmt"
	"math/rand"
	"os"

	"verifharness/cmd/c02/nodeh"
	"verifharness/lib"
)

type input struct {
	nodeh.Scenario
	Class string `json:"class"`
}

var pool *nodeh.Pool

func leaf(s int) nodeh.TreeSpec                         { return nodeh.TreeSpec{Srv: s} }
func nd(s int, ch ...nodeh.TreeSpec) nodeh.TreeSpec { return nodeh.TreeSpec{Srv: s, Ch: ch} }

// star: root 0 with children 1..k (positions = server indices)
func star(k int) nodeh.TreeSpec {
	t := nodeh.TreeSpec{Srv: 0}
	for i := 1; i <= k; i++ {
		t.Ch = append(t.Ch, leaf(i))
	}
	return t
}

// inner: root 0, one child 1 that has children 2..k+1; the instance sits on node 1
func inner(k int) nodeh.TreeSpec {
	mid := nodeh.TreeSpec{Srv: 1}
	for i := 2; i <= k+1; i++ {
		mid.Ch = append(mid.Ch, leaf(i))
	}
	return nd(0, mid)
}

// deep: 0 - 1 - 2 - {3..2+k}: the instance sits on node 2, whose parent (1) is NOT the root
func deep(k int) nodeh.TreeSpec {
	low := nodeh.TreeSpec{Srv: 2}
	for i := 3; i <= k+2; i++ {
		low.Ch = append(low.Ch, leaf(i))
	}
	return nd(0, nd(1, low))
}

// deeper: 0 - 1 - 2 - 3 - {4,5}: the instance sits on node 3 (depth 3)
func deeper() nodeh.TreeSpec { return nd(0, nd(1, nd(2, nd(3, leaf(4), leaf(5))))) }

var kindName = map[int]string{nodeh.TCB1: "channel-agg-cap1", nodeh.TCB2: "channel-agg-cap2",nodeh.TH1: "handler-single", nodeh.THA: "handler-agg", nodeh.TC1: "channel-single",
	nodeh.TCA: "channel-agg", nodeh.THA2: "handler-agg2", nodeh.TCA2: "channel-agg2"}

// builder collects messages; every message is followed by a fence to the same instance.
type builder struct {
	rng     *rand.Rand
	me      []int // node position of each instance
	msgs    []nodeh.Msg
	payload int64
	fence   int64
}

func newBuilder(rng *rand.Rand, me ...int) *builder {
	return &builder{rng: rng, me: me, payload: 1, fence: 200}
}

// send: node position [from] (= its server index in the trees used here) sends type typ to instance inst
func (b *builder) send(inst, from, typ int) {
	route := "process"
	peer := from
	switch b.rng.Intn(6) {
	case 0, 1:
		if from != b.me[inst] {
			route = "conn"
		}
	case 2:
		route, peer = "transmit", nodeh.PeerNone
	}
	b.msgs = append(b.msgs, nodeh.Msg{Inst: inst, From: from, Peer: peer, Wire: -1, Type: typ, Payload: b.payload, Route: route})
	b.payload++
	b.msgs = append(b.msgs, nodeh.Msg{Inst: inst, From: b.me[inst], Peer: nodeh.PeerNone, Wire: -1, Type: nodeh.TFence, Payload: b.fence, Route: "transmit"})
	b.fence++
}

func (b *builder) scenario(tree nodeh.TreeSpec, class string) input {
	return input{Scenario: nodeh.Scenario{Tree: tree, Insts: b.me, Msgs: b.msgs}, Class: class}
}

func perms(xs []int) [][]int {
	if len(xs) <= 1 {
		return [][]int{append([]int{}, xs...)}
	}
	var out [][]int
	for i := range xs {
		rest := append(append([]int{}, xs[:i]...), xs[i+1:]...)
		for _, p := range perms(rest) {
			out = append(out, append([]int{xs[i]}, p...))
		}
	}
	return out
}

func shuffled(rng *rand.Rand, xs []int) []int {
	c := append([]int{}, xs...)
	rng.Shuffle(len(c), func(i, j int) { c[i], c[j] = c[j], c[i] })
	return c
}

func seq(a, b int) []int {
	var r []int
	for i := a; i <= b; i++ {
		r = append(r, i)
	}
	return r
}

// roundsFamily: R consecutive rounds of one aggregated type; orders[r] is the arrival order of round r.
func roundsFamily(rng *rand.Rand, tree nodeh.TreeSpec, me, parent, typ int, orders [][]int, withParent bool, class string) input {
	b := newBuilder(rng, me)
	for _, ord := range orders {
		pp := -1
		if withParent {
			pp = rng.Intn(len(ord) + 1)
		}
		for i, c := range ord {
			if i == pp {
				b.send(0, parent, typ) // the parent's message of the same aggregated type: bypass
			}
			b.send(0, c, typ)
		}
		if pp == len(ord) {
			b.send(0, parent, typ)
		}
	}
	return b.scenario(tree, class)
}

func generate(rng *rand.Rand, tier string) []interface{} {
	var ins []interface{}
	thorough := tier != "quick"
	aggTypes := []int{nodeh.THA, nodeh.TCA}
	// ---- 1. consecutive rounds of one type at the root of a star, all arrival orders
	for k := 1; k <= 4; k++ {
		ch := seq(1, k)
		ps := perms(ch)
		for _, typ := range aggTypes {
			cl := fmt.Sprintf("rounds/fanout-%d/%s", k, kindName[typ])
			for _, p := range ps {
				ins = append(ins, roundsFamily(rng, star(k), 0, -1, typ, [][]int{p}, false, cl))
			}
			// two rounds: the full product for k <= 3, a sample for k = 4
			for _, p1 := range ps {
				for _, p2 := range ps {
					if k == 4 && !thorough && rng.Intn(4) != 0 {
						continue
					}
					ins = append(ins, roundsFamily(rng, star(k), 0, -1, typ, [][]int{p1, p2}, false, cl))
				}
			}
			n3 := 8
			if thorough {
				n3 = 60
			}
			for i := 0; i < n3; i++ {
				ins = append(ins, roundsFamily(rng, star(k), 0, -1, typ,
					[][]int{shuffled(rng, ch), shuffled(rng, ch), shuffled(rng, ch)}, false, cl))
			}
		}
	}
	// fan-out 5 (the whole cluster): sampled orders
	n5 := 12
	if thorough {
		n5 = 120
	}
	for i := 0; i < n5; i++ {
		typ := aggTypes[i%2]
		ch := seq(1, 5)
		ins = append(ins, roundsFamily(rng, star(5), 0, -1, typ, [][]int{shuffled(rng, ch), shuffled(rng, ch)}, false,
			fmt.Sprintf("rounds/fanout-5/%s", kindName[typ])))
	}
	// ---- 2. an inner node: children's rounds with the parent's messages of the same type in between
	for k := 1; k <= 3; k++ {
		ch := seq(2, k+1)
		for _, typ := range aggTypes {
			cl := fmt.Sprintf("rounds+parent/fanout-%d/%s", k, kindName[typ])
			for _, p1 := range perms(ch) {
				ins = append(ins, roundsFamily(rng, inner(k), 1, 0, typ, [][]int{p1}, true, cl))
				ins = append(ins, roundsFamily(rng, inner(k), 1, 0, typ, [][]int{p1, shuffled(rng, ch)}, true, cl))
			}
		}
	}
	// ---- 2b. the same at depth >= 2: the parent is not the root; the aggregated type also travels DOWN the tree
	for k := 1; k <= 3; k++ {
		ch := seq(3, k+2)
		for _, typ := range aggTypes {
			cl := fmt.Sprintf("rounds+parent-deep/fanout-%d/%s", k, kindName[typ])
			for _, p1 := range perms(ch) {
				ins = append(ins, roundsFamily(rng, deep(k), 2, 1, typ, [][]int{p1}, true, cl))
				ins = append(ins, roundsFamily(rng, deep(k), 2, 1, typ, [][]int{p1, shuffled(rng, ch)}, true, cl))
				ins = append(ins, roundsFamily(rng, deep(k), 2, 1, typ, [][]int{shuffled(rng, ch), p1, shuffled(rng, ch)}, true, cl))
			}
		}
	}
	for _, typ := range aggTypes {
		for _, p1 := range perms([]int{4, 5}) {
			ins = append(ins, roundsFamily(rng, deeper(), 3, 2, typ, [][]int{p1, shuffled(rng, []int{4, 5})}, true,
				fmt.Sprintf("rounds+parent-deep/fanout-2/%s", kindName[typ])))
		}
	}
	// ---- 2c. the protocol is BEHIND with reading its aggregated channel: several complete rounds are
	// handed over before the first read (capacity 1, 2 and 100)
	for k := 1; k <= 3; k++ {
		for _, tc := range []struct{ typ, cap int }{{nodeh.TCB1, 1}, {nodeh.TCB2, 2}, {nodeh.TCA, 100}} {
			for rounds := 2; rounds <= 5; rounds++ {
				reps := 2
				if thorough {
					reps = 8
				}
				for rep := 0; rep < reps; rep++ {
					b := newBuilder(rng, 0)
					for r := 0; r < rounds; r++ {
						for _, c := range shuffled(rng, seq(1, k)) {
							route, peer := "process", c
							if rng.Intn(3) == 0 {
								route, peer = "transmit", nodeh.PeerNone
							}
							b.msgs = append(b.msgs, nodeh.Msg{Inst: 0, From: c, Peer: peer, Wire: -1, Type: tc.typ, Payload: b.payload, Route: route})
							b.payload++
						}
					}
					b.msgs = append(b.msgs, nodeh.Msg{Inst: 0, From: 0, Peer: nodeh.PeerNone, Wire: -1, Type: nodeh.TFence, Payload: b.fence, Route: "transmit"})
					in := b.scenario(star(k), fmt.Sprintf("backlog/cap-%d/fanout-%d", tc.cap, k))
					in.Backlog = true
					in.BlockAt = rounds * k
					if rounds > tc.cap {
						in.BlockAt = (tc.cap + 1) * k // the unchanged code waits here, in the channel send, for the reader
					}
					ins = append(ins, in)
				}
			}
		}
	}
	// ---- 2d. the children's FIRST messages arrive at the same time on different connections and race
	// for the creation of the instance (slow protocol constructor); a second, sequential round follows
	nr := 3
	if thorough {
		nr = 20
	}
	for k := 2; k <= 4; k++ {
		for _, typ := range aggTypes {
			for rep := 0; rep < nr; rep++ {
				b := newBuilder(rng, 0)
				for _, c := range shuffled(rng, seq(1, k)) {
					b.msgs = append(b.msgs, nodeh.Msg{Inst: 0, From: c, Peer: c, Wire: -1, Type: typ, Payload: b.payload, Route: "process"})
					b.payload++
				}
				b.msgs = append(b.msgs, nodeh.Msg{Inst: 0, From: 0, Peer: nodeh.PeerNone, Wire: -1, Type: nodeh.TFence, Payload: b.fence, Route: "transmit"})
				b.fence++
				for _, c := range shuffled(rng, seq(1, k)) {
					b.send(0, c, typ)
				}
				in := b.scenario(star(k), fmt.Sprintf("race/fanout-%d/%s", k, kindName[typ]))
				in.Race = k
				ins = append(ins, in)
			}
		}
	}
	// ---- 2e. the aggregating node learns the tree only through its children's answers, and the second
	// answer's tree lookup misses just before the tree arrives (interleaving forced with the overlay's
	// schedule points): the batch must still be delivered
	for _, typ := range aggTypes {
		for _, order := range [][]int{{1, 2}, {2, 1}} {
			for _, more := range []bool{false, true} {
				b := newBuilder(rng, 0)
				for _, c := range order {
					b.msgs = append(b.msgs, nodeh.Msg{Inst: 0, From: c, Peer: c, Wire: -1, Type: typ, Payload: b.payload, Route: "process"})
					b.payload++
				}
				b.msgs = append(b.msgs, nodeh.Msg{Inst: 0, From: 0, Peer: nodeh.PeerNone, Wire: -1, Type: nodeh.TFence, Payload: b.fence, Route: "process"})
				b.fence++
				if more {
					for _, c := range shuffled(rng, []int{1, 2}) {
						b.send(0, c, typ)
					}
				}
				for i := range b.msgs {
					if b.msgs[i].Route == "transmit" {
						b.msgs[i].Route = "process" // no message proxy for an in-process TransmitMsg while the tree may be unknown
					}
				}
				in := b.scenario(star(2), fmt.Sprintf("late-tree-park/fanout-2/%s", kindName[typ]))
				in.LateTree, in.ParkRace = true, true
				ins = append(ins, in)
			}
		}
	}
	// ---- 3. several aggregated types (and single ones) in flight at once
	nm := 150
	if thorough {
		nm = 2500
	}
	for i := 0; i < nm; i++ {
		k := 1 + rng.Intn(4)
		useInner := k <= 3 && rng.Intn(2) == 0
		tree, me, parent, ch := star(k), 0, -1, seq(1, k)
		if useInner {
			tree, me, parent, ch = inner(k), 1, 0, seq(2, k+1)
			if rng.Intn(2) == 0 {
				tree, me, parent, ch = deep(k), 2, 1, seq(3, k+2)
			}
		}
		types := shuffled(rng, []int{nodeh.THA, nodeh.TCA, nodeh.THA2, nodeh.TCA2, nodeh.TCB1, nodeh.TCB2})[:2+rng.Intn(2)]
		// per type: the remaining senders of its rounds, round after round
		type stream struct {
			typ  int
			todo []int
		}
		var streams []*stream
		for _, t := range types {
			s := &stream{typ: t}
			for r := 0; r < 1+rng.Intn(3); r++ {
				s.todo = append(s.todo, shuffled(rng, ch)...)
			}
			streams = append(streams, s)
		}
		b := newBuilder(rng, me)
		for len(streams) > 0 {
			switch r := rng.Intn(10); {
			case r == 0: // a single-type message from a child
				b.send(0, ch[rng.Intn(len(ch))], []int{nodeh.TH1, nodeh.TC1}[rng.Intn(2)])
			case r == 1 && parent >= 0: // anything from the parent
				b.send(0, parent, []int{nodeh.TH1, nodeh.TC1, nodeh.THA, nodeh.TCA, nodeh.THA2, nodeh.TCA2, nodeh.TCB1}[rng.Intn(7)])
			default:
				j := rng.Intn(len(streams))
				s := streams[j]
				b.send(0, s.todo[0], s.typ)
				s.todo = s.todo[1:]
				if len(s.todo) == 0 {
					streams = append(streams[:j], streams[j+1:]...)
				}
			}
		}
		ins = append(ins, b.scenario(tree, fmt.Sprintf("multi-type/fanout-%d", k)))
	}
	// ---- 4. two instances (two runs) on the same node, interleaved
	ni := 120
	if thorough {
		ni = 1500
	}
	for i := 0; i < ni; i++ {
		k := 1 + rng.Intn(4)
		typ := []int{nodeh.THA, nodeh.TCA}[rng.Intn(2)]
		typ2 := typ
		if rng.Intn(3) == 0 {
			typ2 = []int{nodeh.THA, nodeh.TCA, nodeh.THA2}[rng.Intn(3)]
		}
		ch := seq(1, k)
		b := newBuilder(rng, 0, 0)
		todo := [][]int{nil, nil}
		for inst := 0; inst < 2; inst++ {
			for r := 0; r < 1+rng.Intn(2); r++ {
				todo[inst] = append(todo[inst], shuffled(rng, ch)...)
			}
		}
		for len(todo[0])+len(todo[1]) > 0 {
			inst := rng.Intn(2)
			if len(todo[inst]) == 0 {
				inst = 1 - inst
			}
			t := typ
			if inst == 1 {
				t = typ2
			}
			b.send(inst, todo[inst][0], t)
			todo[inst] = todo[inst][1:]
		}
		ins = append(ins, b.scenario(star(k), fmt.Sprintf("two-instances/fanout-%d/%s", k, kindName[typ])))
	}
	// ---- 5. outside the property's hypothesis (model correspondence only)
	no := 100
	if thorough {
		no = 1000
	}
	for i := 0; i < no; i++ {
		k := 2 + rng.Intn(3)
		typ := aggTypes[rng.Intn(2)]
		if rng.Intn(2) == 0 {
			// not round-separated: children answer at their own pace
			b := newBuilder(rng, 0)
			var all []int
			for r := 0; r < 2+rng.Intn(2); r++ {
				all = append(all, seq(1, k)...)
			}
			for _, c := range shuffled(rng, all) {
				b.send(0, c, typ)
			}
			ins = append(ins, b.scenario(star(k), fmt.Sprintf("unseparated/fanout-%d/%s", k, kindName[typ])))
		} else {
			// tree members that are not children (descendants of a child) send the aggregated type too
			// positions: 1 child, 2 and 3 its descendants, 4 and 5 children
			t := nd(0, nd(1, nd(2, leaf(5))), leaf(3), leaf(4))
			b := newBuilder(rng, 0)
			for _, c := range shuffled(rng, []int{1, 2, 3, 4, 5}) {
				b.send(0, c, typ)
			}
			ins = append(ins, b.scenario(t, fmt.Sprintf("nonchild/%s", kindName[typ])))
		}
	}
	// ---- 6. one forged message of the type (a child's server claiming to be ANOTHER child, or the
	// outsider claiming to be a child) among the children's genuine answers: it fails the sender check
	np := 40
	if thorough {
		np = 400
	}
	for i := 0; i < np; i++ {
		k := 2 + rng.Intn(3)
		typ := aggTypes[rng.Intn(2)]
		b := newBuilder(rng, 0)
		victim := 1 + rng.Intn(k)
		liar := 1 + rng.Intn(k)
		for liar == victim {
			liar = 1 + rng.Intn(k)
		}
		if rng.Intn(4) == 0 {
			liar = nodeh.Outsider
		}
		order := shuffled(rng, seq(1, k))
		at := rng.Intn(k) // the forged message arrives before the at-th genuine one
		for j, c := range order {
			if j == at {
				route := "process"
				if rng.Intn(2) == 0 {
					route = "conn"
				}
				b.msgs = append(b.msgs, nodeh.Msg{Inst: 0, From: victim, Peer: liar, Wire: victim, Type: typ, Payload: b.payload, Route: route})
				b.payload++
				b.msgs = append(b.msgs, nodeh.Msg{Inst: 0, From: 0, Peer: nodeh.PeerNone, Wire: -1, Type: nodeh.TFence, Payload: b.fence, Route: "transmit"})
				b.fence++
			}
			b.send(0, c, typ)
		}
		ins = append(ins, b.scenario(star(k), fmt.Sprintf("poisoned/fanout-%d/%s", k, kindName[typ])))
	}
	return ins
}

func corpus() []interface{} {
	rng := rand.New(rand.NewSource(7))
	return []interface{}{
		// the shape of TestTreeNodeMsgAggregation: 3 nodes, one type, one order
		roundsFamily(rng, star(2), 0, -1, nodeh.TCA, [][]int{{1, 2}}, false, "rounds/fanout-2/channel-agg"),
		// Node/AggregateProofs.v separated_example / unseparated_example
		roundsFamily(rng, star(2), 0, -1, nodeh.THA, [][]int{{1, 2}, {2, 1}}, false, "rounds/fanout-2/handler-agg"),
		// Node/C04CheckProofs.v rounds_mix_refuted: child 1 is one round ahead
		roundsFamily(rng, star(2), 0, -1, nodeh.THA, [][]int{{1, 1}, {2, 2}}, false, "unseparated/fanout-2/handler-agg"),
		// nonchild_refuted: a grandchild (position 4) sends the aggregated type
		func() input {
			b := newBuilder(rng, 0)
			for _, c := range []int{1, 4, 2, 3} {
				b.send(0, c, nodeh.THA)
			}
			return b.scenario(nd(0, leaf(1), leaf(2), nd(3, leaf(4))), "nonchild/handler-agg")
		}(),
		// poisoned_refuted: server 2 claims to be child 1; then both children answer
		func() input {
			b := newBuilder(rng, 0)
			b.msgs = append(b.msgs, nodeh.Msg{Inst: 0, From: 1, Peer: 2, Wire: 1, Type: nodeh.THA, Payload: 50, Route: "conn"},
				nodeh.Msg{Inst: 0, From: 0, Peer: nodeh.PeerNone, Wire: -1, Type: nodeh.TFence, Payload: 190, Route: "transmit"})
			b.send(0, 2, nodeh.THA)
			b.send(0, 1, nodeh.THA)
			return b.scenario(star(2), "poisoned/fanout-2/handler-agg")
		}(),
	}
}

func run(raw json.RawMessage) lib.Case {
	var in input
	if err := json.Unmarshal(raw, &in); err != nil {
		panic(err)
	}
	for _, m := range in.Msgs {
		if m.Payload < 0 || m.Payload > 4000 {
			return lib.Case{Discard: true}
		}
	}
	res := pool.Run(&in.Scenario)
	if in.Race > 1 && in.Race <= len(in.Msgs) && len(res.FromIDs) == len(in.Msgs) {
		// the acceptance order of the concurrent messages is what the batch shows (arrival order);
		// without a batch the listed order stands
		pos := map[int64]int{}
		for i := 0; i < in.Race; i++ {
			pos[in.Msgs[i].Payload] = i
		}
		for _, d := range res.Deliveries {
			if !d.Agg || len(d.Elems) != in.Race {
				continue
			}
			var order []int
			seen := map[int]bool{}
			for _, e := range d.Elems {
				if i, ok := pos[e.Payload]; ok && !seen[i] {
					order = append(order, i)
					seen[i] = true
				}
			}
			if len(order) == in.Race {
				msgs := append([]nodeh.Msg{}, in.Msgs...)
				ids := append([]int{}, res.FromIDs...)
				for j, i := range order {
					in.Msgs[j], res.FromIDs[j] = msgs[i], ids[i]
				}
			}
			break
		}
	}
	// only a malformed scenario (a generator / replay-file error the implementation cannot cause) is dropped
	if res.Status == "error" || len(res.Nodes) == 0 || len(res.FromIDs) != len(in.Msgs) {
		fmt.Fprintln(os.Stderr, "discarded scenario:", res.Status, res.Detail)
		return lib.Case{Discard: true}
	}
	class := in.Class
	if class == "" {
		class = "replay"
	}
	// the only scenarios the checker does not judge: a server hosting two nodes (repeated node ids)
	seen := map[int]bool{}
	for _, n := range res.Nodes {
		if seen[n.ID] {
			class = "unjudged-repeated-ids/" + class
			break
		}
		seen[n.ID] = true
	}
	type obsT struct {
		Deliveries []nodeh.Delivery `json:"deliveries"`
		Status     string           `json:"status"`
		Detail     string           `json:"detail,omitempty"`
	}
	// non-trivial: at least one aggregated batch was due or delivered
	nontrivial := false
	for _, d := range res.Deliveries {
		if d.Agg {
			nontrivial = true
		}
	}
	return lib.Case{Coq: nodeh.CoqCase(&in.Scenario, &res), Class: class,
		Obs: obsT{res.Deliveries, res.Status, res.Detail}, Nontrivial: nontrivial}
}

func main() {
	if len(os.Args) > 1 && os.Args[1] == "-nodeh-child" {
		nodeh.ChildMain()
		return
	}
	pool = nodeh.NewPool(3)
	defer pool.Close()
	lib.Main(lib.Harness{
		Prop:   "C04",
		Import: "Onet.Corr.C04",
		Rule: "all arrival orders of the children's messages for fan-out 1..4 (1 round; 2 rounds: full product up to fan-out 3, sampled for 4; 3 rounds sampled), " +
			"fan-out 5 sampled; handler and channel registrations; an inner node (depth 1, and depth 2-3 where the parent is not the root) with the parent's messages of the same aggregated type in between; aggregated channels of capacity 1, 2 and 100 with 2-5 complete rounds handed over BEFORE the protocol reads (the unchanged code waits in the channel send); 2-3 aggregated types plus single types in flight; " +
			"a node that learns the tree through its children's answers, the second answer's lookup missing just before the tree arrives (forced with the overlay's schedule points); the children's first messages handed over concurrently while the protocol constructor is slow (race for the creation of the instance; acceptance order read off the batch); two instances on one node interleaved; seeded scenarios outside the hypotheses of the theorems, judged by the literal reading of the text: children pipelining rounds (class unseparated), tree members that are not children sending the type (nonchild), a forged child message among the genuine ones (poisoned) -- the pinned code deviates there (known findings); every scenario is judged except trees with repeated node ids (class prefix unjudged-repeated-ids, none generated); " +
			"a fence message through the same instance after every injected message; non-trivial = an aggregated batch was delivered",
		Shard:    120,
		Generate: generate,
		Run:      run,
		Corpus:   corpus,
	})
}
