package main

// A peer that dies SILENTLY: it neither closes nor resets its sockets, it just stops. The only thing
// that tells the survivor is the read deadline of its receive loop (network/tcp.go). The mute peer is a
// plain net.Listener that accepts and then does nothing; the TCP time-out is shortened through
// network.VerifSetTimeout for the duration of the case.
//   fresh   : S dials the mute peer and sends; nothing ever comes back on that connection
//   used    : a real peer router answers once on the connection S dialled, then both sides stay idle
//             (control: the idle time-out of a connection that has carried traffic)
//   ident   : somebody connects to S and dies before its identity arrives

import (
	"fmt"
	"io"
	"net"
	"sync"
	"sync/atomic"
	"time"

	"go.dedis.ch/onet/v3/network"

	"verifharness/lib"
)

const muteTimeout = 300 * time.Millisecond
const muteWait = 25 * muteTimeout // "within the configured time-outs", generous for a loaded machine

type muteListener struct {
	ln    net.Listener
	mu    sync.Mutex
	conns []net.Conn
}

func newMute() (*muteListener, error) {
	ln, err := net.Listen("tcp", "127.0.0.1:0")
	if err != nil {
		return nil, err
	}
	m := &muteListener{ln: ln}
	go func() {
		for {
			c, err := ln.Accept()
			if err != nil {
				return
			}
			m.mu.Lock()
			m.conns = append(m.conns, c) // kept open, never read, never written
			m.mu.Unlock()
		}
	}()
	return m, nil
}

func (m *muteListener) close() {
	m.ln.Close()
	m.mu.Lock()
	for _, c := range m.conns {
		c.Close()
	}
	m.mu.Unlock()
}

func runMute(in input) lib.Case {
	old := network.VerifSetTimeout(muteTimeout)
	defer network.VerifSetTimeout(old)
	stage := in.Label
	np := 1
	if stage == "used" {
		np = 2
	}
	w, err := newRworld(true, np, in.NH, 0)
	if err != nil {
		if w != nil {
			w.cleanup()
		}
		return lib.Case{Discard: true}
	}
	defer w.cleanup()

	if stage == "ident" {
		c, err := net.Dial("tcp", w.S.ServerIdentity.Address.NetworkAddress())
		if err != nil {
			return lib.Case{Discard: true}
		}
		defer c.Close()
		c.SetReadDeadline(time.Now().Add(muteWait))
		buf := make([]byte, 1)
		_, rerr := c.Read(buf)
		ne, isNet := rerr.(net.Error)
		gaveUp := rerr == io.EOF || (rerr != nil && !(isNet && ne.Timeout()))
		return lib.Case{Coq: fmt.Sprintf("CMuteIdent %s", lib.Bool(gaveUp)), Class: "mute:ident", Nontrivial: true,
			Obs: map[string]interface{}{"read_on_the_silent_connection": fmt.Sprint(rerr), "survivor_closed_it": gaveUp}}
	}

	target := 0 // the peer that goes silent
	var mute *muteListener
	if stage == "fresh" {
		mute, err = newMute()
		if err != nil {
			return lib.Case{Discard: true}
		}
		defer mute.close()
		// peer 0 of the world is re-addressed to the mute listener (its router is stopped first)
		pe := w.peers[0]
		boundedDo(5*time.Second, func() { pe.routers[0].Stop() })
		pe.up = false
		pe.si = network.NewServerIdentity(kp(7).Public, network.NewTCPAddress(mute.ln.Addr().String()))
	}
	w.markSent(1, 2, 3)
	r, to := w.send(target, []int{1})
	if r != 1 {
		return cutCase("mute:"+stage, "first Send to a peer that accepts connections", to, r)
	}
	if stage == "used" {
		// the peer answers once over the connection S dialled; afterwards nobody says anything
		pe := w.peers[0]
		w.waitDelivered(0, 0, 1)
		before := atomic.LoadInt32(&w.disp)
		boundedDo(5*time.Second, func() { pe.routers[0].Send(w.S.ServerIdentity, &TMsg{ID: 2}) })
		waitUntil(func() bool { return atomic.LoadInt32(&w.disp) > before }, 5*time.Second)
	}
	told := func() int {
		w.mu.Lock()
		defer w.mu.Unlock()
		n := 0
		for h := range w.calls {
			n += w.calls[h][target]
		}
		return n
	}
	waitUntil(func() bool { return told() >= in.NH && w.tabCount(target) == 0 }, muteWait)
	calls := told()
	w.mu.Lock()
	other := 0
	for h := range w.calls {
		for p := range w.calls[h] {
			if p != target {
				other += w.calls[h][p]
			}
		}
	}
	w.mu.Unlock()
	removed := w.tabCount(target) == 0
	// now nothing listens there any more: a new Send must say so
	if mute != nil {
		mute.close()
	} else {
		pe := w.peers[0]
		boundedDo(5*time.Second, func() { pe.routers[0].Stop() })
		pe.up = false
		waitUntil(func() bool { return w.tabCount(target) == 0 }, 5*time.Second)
		removed = removed && w.tabCount(target) == 0
	}
	r2, to2 := w.send(target, []int{3})
	if to2 {
		return cutCase("mute:"+stage, "Send towards the dead peer did not return", true, nil)
	}
	coq := fmt.Sprintf("CMute %s %d %d %d %s %s", lib.Bool(stage == "fresh"), in.NH, calls, other, lib.Bool(removed), lib.Bool(r2 == 2))
	return lib.Case{Coq: coq, Class: "mute:" + stage, Nontrivial: true,
		Obs: map[string]interface{}{"stage": stage, "timeout_ms": int(muteTimeout / time.Millisecond), "handlers": in.NH,
			"handler_calls_naming_the_silent_peer": calls, "handler_calls_naming_others": other,
			"connection_removed": removed, "send_after_the_listener_closed_reports_error": r2 == 2}}
}
