package main

// Scripted transport: the REAL network.Router of the surviving server S runs over a
// Host implemented here. Every dial result, write result and Receive result is chosen
// by the harness, so a peer can be made to fail at any point of connection set-up,
// identity exchange and message transfer, and the router's connection table, error
// handler calls and deliveries are observed exactly (connection numbers included).

import (
	"fmt"
	"sort"
	"sync"
	"sync/atomic"
	"time"

	"go.dedis.ch/kyber/v3/util/key"
	"go.dedis.ch/onet/v3/network"
	"golang.org/x/xerrors"

	"verifharness/lib"
)

// TMsg is the payload of every router-level test message.
type TMsg struct {
	ID int
}

var tmsgType = network.RegisterMessage(&TMsg{})

type item struct {
	env *network.Envelope
	err error
}

type fconn struct {
	n      *fnet
	id     int
	peer   int
	zombie bool // kept open by a peer that shut down: writes succeed, nobody reads
	inbox  chan item
	recv   int32 // calls of Receive
	pushed int32 // items handed to Receive
	mu     sync.Mutex
	alive  bool
	closed bool
}

func (c *fconn) Send(msg network.Message) (uint64, error) {
	c.mu.Lock()
	closed, alive := c.closed, c.alive
	c.mu.Unlock()
	if closed {
		return 0, xerrors.Errorf("sending: %w", network.ErrClosed)
	}
	if alive {
		if m, ok := msg.(*TMsg); ok {
			c.n.mu.Lock()
			if !c.zombie {
				c.n.delivered = append(c.n.delivered, [2]int{m.ID, c.id})
			}
			c.n.mu.Unlock()
		}
		return 8, nil
	}
	if c.n.tcp && atomic.LoadInt32(&c.n.bufMode) == 1 {
		return 8, nil // the kernel took the bytes; nobody will read them
	}
	return 0, xerrors.Errorf("sending: %w", network.ErrClosed)
}

func (c *fconn) Receive() (*network.Envelope, error) {
	atomic.AddInt32(&c.recv, 1)
	select {
	case it := <-c.inbox:
		return it.env, it.err
	case <-c.n.done:
		return nil, xerrors.Errorf("end of case: %w", network.ErrClosed)
	}
}

func (c *fconn) push(it item) {
	atomic.AddInt32(&c.pushed, 1)
	c.inbox <- it
}

// idle: the owner of the connection sits in Receive with nothing to read
func (c *fconn) idle() bool {
	return atomic.LoadInt32(&c.recv) == atomic.LoadInt32(&c.pushed)+1
}

func (c *fconn) Close() error {
	c.mu.Lock()
	defer c.mu.Unlock()
	if c.closed {
		return xerrors.Errorf("closing: %w", network.ErrClosed)
	}
	c.closed = true
	return nil
}

func (c *fconn) Type() network.ConnType  { return network.Local }
func (c *fconn) Remote() network.Address { return c.n.peers[c.peer].Address }
func (c *fconn) Local() network.Address  { return c.n.self.Address }
func (c *fconn) Tx() uint64              { return 0 }
func (c *fconn) Rx() uint64              { return 0 }

type fhost struct {
	n         *fnet
	mu        sync.Mutex
	listening bool
	quit      chan struct{}
	once      sync.Once
}

func (h *fhost) Listen(fn func(network.Conn)) error {
	h.mu.Lock()
	h.n.listenFn = fn
	h.listening = true
	h.mu.Unlock()
	<-h.quit
	return nil
}

func (h *fhost) Stop() error {
	h.once.Do(func() { close(h.quit) })
	h.mu.Lock()
	h.listening = false
	h.mu.Unlock()
	return nil
}

func (h *fhost) Address() network.Address { return h.n.self.Address }
func (h *fhost) Listening() bool {
	h.mu.Lock()
	defer h.mu.Unlock()
	return h.listening
}

func (h *fhost) Connect(si *network.ServerIdentity) (network.Conn, error) {
	n := h.n
	n.mu.Lock()
	defer n.mu.Unlock()
	p := n.peerIndexLocked(si.GetID())
	if p < 0 || !n.up[p] {
		return nil, xerrors.New("scripted host: nothing listens there")
	}
	return n.newConnLocked(p, true), nil
}

type fnet struct {
	mu        sync.Mutex
	tcp       bool
	bufMode   int32
	self      *network.ServerIdentity
	peers     []*network.ServerIdentity
	up        []bool
	inc       []int
	conns     []*fconn
	listenFn  func(network.Conn)
	delivered [][2]int
	disp      [][2]int
	calls     [][2]int
	msgConn   map[int]int
	done      chan struct{}
	finished  bool

	armed      int // handler that blocks at its next call (-1 none)
	blocked    int // connection whose loop is inside the blocking handler (-1 none)
	lastErrCon int
	blockedHit chan struct{}
	release    chan struct{}

	S      *network.Router
	host   *fhost
	sched  *lib.Sched
	closed bool
	stopCh chan struct{}

	heldGate *lib.Gate
	heldDone chan error

	hsend     int // 0: handlers only read their router; 1: handler 0 also sends; 2: ... through a goroutine
	abandoned bool
	reent     chan reentReq
}

// reentReq is handed by a handler over an unbuffered channel to a goroutine that sends.
type reentReq struct {
	si   *network.ServerIdentity
	id   int
	done chan struct{}
}

func (n *fnet) peerIndexLocked(id network.ServerIdentityID) int {
	for i, p := range n.peers {
		if p.GetID().Equal(id) {
			return i
		}
	}
	return -1
}

func (n *fnet) newConnLocked(p int, alive bool) *fconn {
	c := &fconn{n: n, id: len(n.conns), peer: p, inbox: make(chan item, 64), alive: alive}
	n.conns = append(n.conns, c)
	return c
}

var keyCache []*key.Pair

func kp(i int) *key.Pair {
	for len(keyCache) <= i {
		keyCache = append(keyCache, key.NewKeyPair(suite))
	}
	return keyCache[i]
}

func newFnet(tcp bool, np, nh int, hsend ...int) *fnet {
	n := &fnet{tcp: tcp, done: make(chan struct{}), armed: -1, blocked: -1, lastErrCon: -1,
		msgConn: map[int]int{}, blockedHit: make(chan struct{}, 4), release: make(chan struct{})}
	n.self = network.NewServerIdentity(kp(0).Public, network.NewLocalAddress("127.0.0.1:3000"))
	for i := 0; i < np; i++ {
		n.peers = append(n.peers, network.NewServerIdentity(kp(i+1).Public,
			network.NewLocalAddress(fmt.Sprintf("127.0.0.1:%d", 3001+i))))
		n.up = append(n.up, true)
		n.inc = append(n.inc, 0)
	}
	if len(hsend) > 0 {
		n.hsend = hsend[0]
	}
	n.reent = make(chan reentReq)
	go func() {
		for {
			select {
			case rq := <-n.reent:
				n.S.Send(rq.si, &TMsg{ID: rq.id})
				close(rq.done)
			case <-n.done:
				return
			}
		}
	}()
	n.host = &fhost{n: n, quit: make(chan struct{})}
	n.S = network.NewRouter(n.self, n.host)
	n.S.UnauthOk = true
	n.S.Quiet = true
	for h := 0; h < nh; h++ {
		h := h
		n.S.AddErrorHandler(func(si *network.ServerIdentity) { n.onHandler(h, si) })
	}
	n.S.RegisterProcessorFunc(tmsgType, func(env *network.Envelope) error {
		m := env.Msg.(*TMsg)
		n.mu.Lock()
		if !n.finished {
			n.disp = append(n.disp, [2]int{n.msgConn[m.ID], m.ID})
		}
		n.mu.Unlock()
		return nil
	})
	n.sched = lib.NewSched()
	network.SetVerifHook(n.sched.Hook)
	go n.S.Start()
	waitUntil(func() bool { return n.host.Listening() }, 5*time.Second)
	return n
}

func (n *fnet) onHandler(h int, si *network.ServerIdentity) {
	n.mu.Lock()
	if n.finished {
		n.mu.Unlock()
		return
	}
	n.calls = append(n.calls, [2]int{h, n.peerIndexLocked(si.GetID())})
	ncalls := len(n.calls)
	block := n.armed == h
	var rel chan struct{}
	if block {
		n.armed = -1
		n.blocked = n.lastErrCon
		rel = n.release
	}
	n.mu.Unlock()
	reentrant(n.S, si, h, n.hsend, 4000+ncalls, n.reent)
	if block {
		n.blockedHit <- struct{}{}
		<-rel
	}
}

// reentrant is what every error handler of the harness does with its OWN router: a handler is
// application code and may use the router it is registered on.
func reentrant(r *network.Router, si *network.ServerIdentity, h, mode, id int, ch chan reentReq) {
	_ = r.Closed()
	_ = r.Tx()
	_ = r.Rx()
	if h != 0 {
		return
	}
	switch mode {
	case 1:
		r.Send(si, &TMsg{ID: id})
	case 2:
		rq := reentReq{si, id, make(chan struct{})}
		ch <- rq
		<-rq.done
	}
}

func waitUntil(cond func() bool, d time.Duration) bool {
	deadline := time.Now().Add(d)
	for {
		if cond() {
			return true
		}
		wedgedMu.Lock()
		anyWedged := len(wedged) > 0
		wedgedMu.Unlock()
		if anyWedged && time.Until(deadline) > 2*time.Second {
			deadline = time.Now().Add(2 * time.Second)
		}
		if time.Now().After(deadline) {
			return false
		}
		time.Sleep(100 * time.Microsecond)
	}
}

// wedged routers: once a query of a router's table did not return within a second, the router's
// mutex is held for good; every later query answers at once and the scenario is abandoned
var wedgedMu sync.Mutex
var wedged = map[*network.Router]bool{}

// wedgedKinds counts abandoned scenarios per kind; after three, the remaining scenarios of that
// kind are not run (each would only sit out its deadlines)
var wedgedKinds = map[string]int{}

func isWedged(r *network.Router) bool {
	wedgedMu.Lock()
	defer wedgedMu.Unlock()
	return wedged[r]
}

func connListBounded(r *network.Router, id network.ServerIdentityID) ([]network.Conn, bool) {
	if isWedged(r) {
		return nil, false
	}
	res := make(chan []network.Conn, 1)
	go func() { res <- r.VerifConnList(id) }()
	select {
	case l := <-res:
		return l, true
	case <-time.After(1500 * time.Millisecond):
		wedgedMu.Lock()
		wedged[r] = true
		wedgedMu.Unlock()
		return nil, false
	}
}

func (n *fnet) inTable(c *fconn) bool {
	l, _ := connListBounded(n.S, n.peers[c.peer].GetID())
	for _, x := range l {
		if x == network.Conn(c) {
			return true
		}
	}
	return false
}

func errOfClass(e string) error {
	var base error
	switch e {
	case "ETimeout":
		base = network.ErrTimeout
	case "EClosed":
		base = network.ErrClosed
	case "EEOF":
		base = network.ErrEOF
	case "EUnknown":
		base = network.ErrUnknown
	case "ECanceled":
		base = network.ErrCanceled
	case "ETooBig":
		// as tcp.go receiveRawProd reports a frame above MaxPacketSize
		return xerrors.Errorf("receiving: %w", xerrors.Errorf("%v sends too big packet: %v>%v: %w", "peer", 5000, 1000, network.ErrTooBig))
	default:
		return xerrors.New("unmarshaling: not a registered message")
	}
	return xerrors.Errorf("receiving: %w", xerrors.Errorf("buffer read: %w", base))
}

const opDeadline = 10 * time.Second

type opj struct {
	K      string `json:"k"`
	P      int    `json:"p,omitempty"`
	C      int    `json:"c,omitempty"`
	H      int    `json:"h,omitempty"`
	E      string `json:"e,omitempty"`
	M      []int  `json:"m,omitempty"`
	Buf    bool   `json:"buf,omitempty"`
	Closes bool   `json:"closes,omitempty"`
	Seen   bool   `json:"seen,omitempty"` // filled in by the real-transport runner
}

func (o opj) coq() string {
	switch o.K {
	case "send":
		return fmt.Sprintf("OSend %d %s %s", o.P, lib.NatList(o.M), lib.Bool(o.Buf))
	case "sendhold":
		return fmt.Sprintf("OSendHold %d %s %s", o.P, lib.NatList(o.M), lib.Bool(o.Buf))
	case "resume":
		return fmt.Sprintf("OResume %s", lib.Bool(o.Buf))
	case "peersend":
		return fmt.Sprintf("OPeerSend %d %d", o.P, o.M[0])
	case "incoming":
		return fmt.Sprintf("OIncoming %d", o.P)
	case "incomingfail":
		return fmt.Sprintf("OIncomingFail %d", o.P)
	case "crash":
		return fmt.Sprintf("OCrash %d", o.P)
	case "crashsending":
		return fmt.Sprintf("OCrashSending %d %s", o.P, lib.Bool(o.Seen))
	case "abandoneddial":
		return fmt.Sprintf("OAbandonedDial %d %s", o.P, lib.Bool(o.Closes))
	case "restart":
		return fmt.Sprintf("ORestart %d", o.P)
	case "stopold":
		return fmt.Sprintf("OStopOld %d", o.P)
	case "recverr":
		return fmt.Sprintf("ORecvErr %d %s", o.C, o.E)
	case "recvmsg":
		return fmt.Sprintf("ORecvMsg %d %d", o.C, o.M[0])
	case "hold":
		return fmt.Sprintf("OHold %d", o.H)
	case "release":
		return "ORelease"
	case "close":
		return "OCloseRouter"
	}
	panic("bad op " + o.K)
}

type sendRes struct {
	err error
}

func tmsgs(ids []int) []network.Message {
	out := make([]network.Message, len(ids))
	for i, id := range ids {
		out[i] = &TMsg{ID: id}
	}
	return out
}

// exec runs one operation; returns (send result: 0 none, 1 ok, 2 err), skipped, timed out.
func (n *fnet) exec(o opj) (int, bool, bool) {
	switch o.K {
	case "send":
		if o.Buf {
			atomic.StoreInt32(&n.bufMode, 1)
			defer atomic.StoreInt32(&n.bufMode, 0)
		}
		done := make(chan error, 1)
		go func() {
			_, err := n.S.Send(n.peers[o.P], tmsgs(o.M)...)
			done <- err
		}()
		select {
		case err := <-done:
			if err != nil {
				return 2, false, false
			}
			return 1, false, false
		case <-time.After(opDeadline):
			return 0, false, true
		}
	case "sendhold":
		if n.heldGate != nil {
			return 0, true, false
		}
		if o.Buf {
			atomic.StoreInt32(&n.bufMode, 1)
			defer atomic.StoreInt32(&n.bufMode, 0)
		}
		S := n.S
		g := n.sched.Block("router.connected", 1, func(args []interface{}) bool {
			r, ok := args[0].(*network.Router)
			return ok && r == S
		})
		done := make(chan error, 1)
		go func() {
			_, err := n.S.Send(n.peers[o.P], tmsgs(o.M)...)
			done <- err
		}()
		deadline := time.Now().Add(opDeadline)
		for {
			select {
			case err := <-done:
				g.Release()
				if err != nil {
					return 2, false, false
				}
				return 1, false, false
			default:
			}
			if g.WaitHit(200 * time.Microsecond) {
				n.heldGate, n.heldDone = g, done
				return 0, false, false
			}
			if time.Now().After(deadline) {
				g.Release()
				return 0, false, true
			}
		}
	case "resume":
		if n.heldGate == nil {
			return 0, true, false
		}
		if o.Buf {
			atomic.StoreInt32(&n.bufMode, 1)
			defer atomic.StoreInt32(&n.bufMode, 0)
		}
		g, done := n.heldGate, n.heldDone
		n.heldGate, n.heldDone = nil, nil
		g.Release()
		select {
		case err := <-done:
			if err != nil {
				return 2, false, false
			}
			return 1, false, false
		case <-time.After(opDeadline):
			return 0, false, true
		}
	case "incoming", "incomingfail", "abandoneddial":
		n.mu.Lock()
		if (o.K == "incoming" && !n.up[o.P]) || (o.K == "abandoneddial" && n.up[o.P]) {
			n.mu.Unlock()
			return 0, true, false
		}
		c := n.newConnLocked(o.P, o.K == "incoming" || (o.K == "abandoneddial" && !o.Closes))
		c.zombie = o.K == "abandoneddial" && !o.Closes
		fn := n.listenFn
		n.mu.Unlock()
		if o.K != "incomingfail" {
			c.push(item{env: &network.Envelope{MsgType: network.ServerIdentityType, Msg: n.peers[o.P]}})
		} else {
			c.push(item{err: xerrors.Errorf("receiving: %w", network.ErrEOF)})
		}
		ret := make(chan struct{})
		go func() { fn(c); close(ret) }()
		select {
		case <-ret:
		case <-time.After(opDeadline):
			return 0, false, true
		}
		return 0, false, false
	case "crash":
		n.mu.Lock()
		n.up[o.P] = false
		for _, c := range n.conns {
			if c.peer == o.P && !c.zombie { // nobody is left to close an abandoned connection
				c.mu.Lock()
				c.alive = false
				c.mu.Unlock()
			}
		}
		n.mu.Unlock()
		return 0, false, false
	case "restart":
		n.mu.Lock()
		defer n.mu.Unlock()
		if n.up[o.P] {
			return 0, true, false
		}
		n.up[o.P] = true
		n.inc[o.P]++
		return 0, false, false
	case "recverr", "recvmsg":
		n.mu.Lock()
		if o.C >= len(n.conns) {
			n.mu.Unlock()
			return 0, true, false
		}
		c := n.conns[o.C]
		blocked := n.blocked
		n.mu.Unlock()
		if !n.inTable(c) || blocked == c.id {
			return 0, true, false
		}
		if !waitUntil(c.idle, opDeadline) {
			return 0, false, true
		}
		if o.K == "recvmsg" {
			n.mu.Lock()
			n.msgConn[o.M[0]] = c.id
			nd := len(n.disp)
			n.mu.Unlock()
			c.push(item{env: &network.Envelope{MsgType: tmsgType, Msg: &TMsg{ID: o.M[0]}}})
			var ok bool
			if n.closed {
				ok = waitUntil(func() bool { return !n.inTable(c) }, opDeadline)
			} else {
				ok = waitUntil(func() bool {
					n.mu.Lock()
					defer n.mu.Unlock()
					return len(n.disp) > nd
				}, opDeadline) && waitUntil(c.idle, opDeadline)
			}
			return 0, false, !ok
		}
		n.mu.Lock()
		n.lastErrCon = c.id
		n.mu.Unlock()
		c.push(item{err: errOfClass(o.E)})
		// the loop either leaves (connection removed), blocks inside the armed handler, or
		// calls Receive again
		ok := waitUntil(func() bool {
			select {
			case <-n.blockedHit:
				return true
			default:
			}
			return !n.inTable(c) || c.idle()
		}, opDeadline)
		return 0, false, !ok
	case "hold":
		n.mu.Lock()
		defer n.mu.Unlock()
		if n.armed >= 0 || n.blocked >= 0 {
			return 0, true, false
		}
		n.armed = o.H
		return 0, false, false
	case "release":
		n.mu.Lock()
		b := n.blocked
		n.armed, n.blocked = -1, -1
		rel := n.release
		n.release = make(chan struct{})
		n.mu.Unlock()
		close(rel)
		if b >= 0 {
			c := n.conns[b]
			ok := waitUntil(func() bool { return !n.inTable(c) }, opDeadline)
			return 0, false, !ok
		}
		return 0, false, false
	case "close":
		if n.closed {
			return 0, true, false
		}
		n.closed = true
		before := n.sched.Count("router.closedSet")
		n.stopCh = make(chan struct{})
		go func() { n.S.Stop(); close(n.stopCh) }()
		ok := waitUntil(func() bool { return n.sched.Count("router.closedSet") > before }, opDeadline)
		return 0, false, !ok
	}
	panic("bad op " + o.K)
}

func (n *fnet) snapshot(res int, skip, timeout bool) (string, map[string]interface{}) {
	tabs := make([]string, len(n.peers))
	tabsH := make([][]int, len(n.peers))
	for p := range n.peers {
		tabs[p], tabsH[p] = "[]", []int{}
	}
	got := make(chan struct{})
	go func() {
		defer close(got)
		for p, si := range n.peers {
			ids := []int{}
			l, _ := connListBounded(n.S, si.GetID())
			for _, c := range l {
				if fc, ok := c.(*fconn); ok {
					ids = append(ids, fc.id)
				}
			}
			tabs[p] = lib.NatList(ids)
			tabsH[p] = ids
		}
	}()
	select {
	case <-got:
	case <-time.After(opDeadline):
		timeout = true // even reading the table blocks
		<-time.After(time.Millisecond)
	}
	n.mu.Lock()
	calls := append([][2]int(nil), n.calls...)
	deliv := append([][2]int(nil), n.delivered...)
	disp := append([][2]int(nil), n.disp...)
	closed := []int{}
	for _, c := range n.conns {
		c.mu.Lock()
		if c.closed {
			closed = append(closed, c.id)
		}
		c.mu.Unlock()
	}
	n.mu.Unlock()
	sort.Ints(closed)
	r := "None"
	if res == 1 {
		r = "(Some true)"
	} else if res == 2 {
		r = "(Some false)"
	}
	coq := fmt.Sprintf("mkSnap %s %s %s %s %s %s %s %s", r, lib.Bool(skip), lib.Bool(timeout),
		lib.List(tabs), lib.PairList(calls), lib.PairList(deliv), lib.PairList(disp), lib.NatList(closed))
	return coq, map[string]interface{}{"res": res, "skip": skip, "timeout": timeout, "table": tabsH,
		"calls": len(calls), "delivered": len(deliv), "closed": closed}
}

func (n *fnet) cleanup() {
	if n.abandoned {
		// an operation did not return: the router is wedged; leave its goroutines behind
		n.mu.Lock()
		n.finished = true
		n.mu.Unlock()
		n.sched.ReleaseAll()
		close(n.done)
		network.SetVerifHook(func(string, ...interface{}) {})
		return
	}
	n.mu.Lock()
	n.finished = true
	rel := n.release
	n.release = make(chan struct{})
	n.mu.Unlock()
	close(rel)
	n.sched.ReleaseAll()
	close(n.done)
	if n.stopCh == nil {
		n.stopCh = make(chan struct{})
		go func() { n.S.Stop(); close(n.stopCh) }()
	}
	select {
	case <-n.stopCh:
	case <-time.After(5 * time.Second):
	}
	if n.heldDone != nil {
		select {
		case <-n.heldDone:
		case <-time.After(2 * time.Second):
		}
	}
	network.SetVerifHook(func(string, ...interface{}) {})
}

func classOfScript(in input) string {
	kinds := map[string]bool{}
	for _, o := range in.Ops {
		kinds[o.K] = true
	}
	cl := "script"
	if in.TCP {
		cl += "-tcp"
	} else {
		cl += "-mem"
	}
	if kinds["sendhold"] {
		cl += "-setup"
	}
	if kinds["hold"] {
		cl += "-handlerhold"
	}
	if kinds["close"] {
		cl += "-close"
	}
	if kinds["abandoneddial"] {
		cl += "-abandoned"
	}
	if in.HSend > 0 {
		cl += "-handlersends"
	}
	if in.Label != "" {
		cl += ":" + in.Label
	}
	return cl
}

func runScript(in input) lib.Case {
	if wedgedKinds["script"] >= 3 {
		return lib.Case{Discard: true}
	}
	n := newFnet(in.TCP, in.NP, in.NH, in.HSend)
	defer n.cleanup()
	var ops, snaps []string
	var hobs []map[string]interface{}
	sends, errs := 0, 0
	for _, o := range in.Ops {
		res, skip, to := n.exec(o)
		if isWedged(n.S) {
			to = true
		}
		s, h := n.snapshot(res, skip, to)
		ops = append(ops, o.coq())
		snaps = append(snaps, s)
		h["op"] = o.coq()
		hobs = append(hobs, h)
		if res > 0 {
			sends++
		}
		if res == 2 {
			errs++
		}
		if to {
			// "did not return" is the observation; nothing more can be learnt from a wedged router
			n.abandoned = true
			wedgedKinds["script"]++
			break
		}
	}
	coq := fmt.Sprintf("CScript %s %s %d %d %s %s", lib.Bool(in.TCP), lib.Bool(in.HSend > 0), in.NP, in.NH, lib.List(ops), lib.List(snaps))
	if len(hobs) > 12 {
		hobs = hobs[len(hobs)-12:]
	}
	return lib.Case{Coq: coq, Class: classOfScript(in), Obs: map[string]interface{}{"sends": sends, "send_errors": errs, "last_ops": hobs},
		Nontrivial: sends > 0 && len(in.Ops) > 3}
}
