package main

// onet servers (NewLocalTest / NewTCPTest): the send entry points offered to services and
// protocols with some destinations closed, and protocol runs with a victim killed at a
// schedule point while canary runs go on among the survivors.

import (
	"bytes"
	"context"
	"encoding/json"
	"fmt"
	"math/rand"
	"os"
	"os/exec"
	"sort"
	"strings"
	"sync"
	"sync/atomic"
	"time"

	"go.dedis.ch/onet/v3"
	"go.dedis.ch/onet/v3/network"

	"verifharness/lib"
)

const protoName = "VerifC09"
const svcName = "VerifC09Svc"

// Cmd makes the receiving node create (and register) its instance.
type Cmd struct{ Case int }

// Data is the payload of the entry-point cases.
type Data struct{ ID int }

// RawMsg is sent outside any protocol (Router.Send, Context.SendRaw).
type RawMsg struct{ ID int }

// Announce travels down the tree, Reply up.
type Announce struct{ Run int }

// Reply carries the number of nodes of the sender's subtree that answered.
type Reply struct {
	Run   int
	Count int
}

var rawMsgType network.MessageTypeID

type registry struct {
	sync.Mutex
	idx       map[network.ServerIdentityID]int
	inst      map[[2]int]*proto // (case, server) -> instance
	delivered map[int]map[int]bool
	runDone   map[int]int // run -> count at the root
	hooks     map[string]func(p *proto)
	all       []*proto
	cfgSeen   map[int]string
	sendsBeg  int64
	sendsEnd  int64
}

var reg = &registry{}

func (r *registry) reset(servers []*onet.Server) {
	r.Lock()
	defer r.Unlock()
	r.idx = map[network.ServerIdentityID]int{}
	for i, s := range servers {
		r.idx[s.ServerIdentity.GetID()] = i
	}
	r.inst = map[[2]int]*proto{}
	r.delivered = map[int]map[int]bool{}
	r.runDone = map[int]int{}
	r.hooks = map[string]func(p *proto){}
	r.cfgSeen = map[int]string{}
	atomic.StoreInt64(&r.sendsBeg, 0)
	atomic.StoreInt64(&r.sendsEnd, 0)
}

func (r *registry) index(si *network.ServerIdentity) int {
	r.Lock()
	defer r.Unlock()
	if i, ok := r.idx[si.GetID()]; ok {
		return i
	}
	return -1
}

func (r *registry) deliver(id, server int) {
	r.Lock()
	defer r.Unlock()
	if r.delivered[id] == nil {
		r.delivered[id] = map[int]bool{}
	}
	r.delivered[id][server] = true
}

func (r *registry) deliveredTo(id int) []int {
	r.Lock()
	defer r.Unlock()
	var out []int
	for s := range r.delivered[id] {
		out = append(out, s)
	}
	sort.Ints(out)
	return out
}

func (r *registry) hook(name string, p *proto) {
	r.Lock()
	f := r.hooks[name]
	r.Unlock()
	if f != nil {
		f(p)
	}
}

type proto struct {
	*onet.TreeNodeInstance
	me     int
	mu     sync.Mutex
	run    int
	expect int // -1 until the announce went out
	got    int
	sum    int
	fin    bool
}

func newProto(n *onet.TreeNodeInstance) (onet.ProtocolInstance, error) {
	p := &proto{TreeNodeInstance: n, me: reg.index(n.ServerIdentity()), run: -1, expect: -1}
	if err := p.RegisterHandlers(p.handleCmd, p.handleData, p.handleAnnounce, p.handleReply); err != nil {
		return nil, err
	}
	reg.Lock()
	reg.all = append(reg.all, p)
	reg.Unlock()
	return p, nil
}

func (p *proto) Start() error { return nil }

func (p *proto) handleCmd(m struct {
	*onet.TreeNode
	Cmd
}) error {
	reg.Lock()
	reg.inst[[2]int{m.Cmd.Case, p.me}] = p
	reg.Unlock()
	return nil
}

func (p *proto) handleData(m struct {
	*onet.TreeNode
	Data
}) error {
	reg.deliver(m.Data.ID, p.me)
	return nil
}

// counted wraps a send of the protocol so that "every send returned" is observable.
func counted(f func()) {
	atomic.AddInt64(&reg.sendsBeg, 1)
	f()
	atomic.AddInt64(&reg.sendsEnd, 1)
}

func (p *proto) finish() {
	p.mu.Lock()
	if p.fin {
		p.mu.Unlock()
		return
	}
	p.fin = true
	run, sum := p.run, p.sum
	p.mu.Unlock()
	if p.IsRoot() {
		reg.Lock()
		reg.runDone[run] = sum + 1
		reg.Unlock()
	} else {
		reg.hook("reply", p)
		counted(func() { p.SendToParent(&Reply{Run: run, Count: sum + 1}) })
	}
	p.Done()
}

func (p *proto) announce(run int) {
	p.mu.Lock()
	p.run = run
	p.mu.Unlock()
	if p.IsLeaf() {
		p.finish()
		return
	}
	var errs []error
	counted(func() { errs = p.SendToChildrenInParallel(&Announce{Run: run}) })
	p.mu.Lock()
	p.expect = len(p.Children()) - len(errs)
	ready := p.got >= p.expect
	p.mu.Unlock()
	if ready {
		p.finish()
	}
}

func (p *proto) handleAnnounce(m struct {
	*onet.TreeNode
	Announce
}) error {
	reg.hook("announce", p)
	p.announce(m.Announce.Run)
	return nil
}

func (p *proto) handleReply(m struct {
	*onet.TreeNode
	Reply
}) error {
	p.mu.Lock()
	p.got++
	p.sum += m.Reply.Count
	ready := p.expect >= 0 && p.got >= p.expect
	p.mu.Unlock()
	if ready {
		p.finish()
	}
	return nil
}

type c09svc struct {
	*onet.ServiceProcessor
}

// NewProtocol records the configuration that arrives with the first message of a run and lets
// onet instantiate the protocol.
func (s *c09svc) NewProtocol(tn *onet.TreeNodeInstance, conf *onet.GenericConfig) (onet.ProtocolInstance, error) {
	me := reg.index(tn.ServerIdentity())
	reg.Lock()
	if reg.cfgSeen == nil {
		reg.cfgSeen = map[int]string{}
	}
	if conf != nil {
		reg.cfgSeen[me] = string(conf.Data)
	} else if _, ok := reg.cfgSeen[me]; !ok {
		reg.cfgSeen[me] = ""
	}
	reg.Unlock()
	return nil, nil
}

func registerOnetLevel() {
	if _, err := onet.GlobalProtocolRegister(protoName, newProto); err != nil {
		panic(err)
	}
	network.RegisterMessages(&Cmd{}, &Data{}, &Announce{}, &Reply{})
	rawMsgType = network.RegisterMessage(&RawMsg{})
	if _, err := onet.RegisterNewService(svcName, func(c *onet.Context) (onet.Service, error) {
		return &c09svc{onet.NewServiceProcessor(c)}, nil
	}); err != nil {
		panic(err)
	}
}

// ---- clusters -------------------------------------------------------------------

type cluster struct {
	key      string
	tcp      bool
	lt       *onet.LocalTest
	servers  []*onet.Server
	roster   *onet.Roster
	tree     *onet.Tree
	nodes    []*onet.TreeNode // by server index
	up       []bool
	nextID   int
	caseNo   int
	selfInst *proto
}

func (c *cluster) close() {
	// finish every instance of this harness, otherwise CloseAll waits 6 s for them
	reg.Lock()
	all := reg.all
	reg.all = nil
	reg.Unlock()
	for _, p := range all {
		func() {
			defer func() { recover() }()
			p.mu.Lock()
			fin := p.fin
			p.fin = true
			p.mu.Unlock()
			if !fin {
				p.Done()
			}
		}()
	}
	done := make(chan struct{})
	go func() { c.lt.CloseAll(); close(done) }()
	select {
	case <-done:
	case <-time.After(10 * time.Second):
	}
}

func newCluster(tcp bool, n, bf int) *cluster {
	c := &cluster{tcp: tcp}
	if tcp {
		c.lt = onet.NewTCPTest(suite)
		network.SetTCPDialTimeout(300 * time.Millisecond)
	} else {
		c.lt = onet.NewLocalTest(suite)
	}
	c.lt.Check = onet.CheckNone
	c.servers = c.lt.GenServers(n)
	reg.reset(c.servers)
	c.roster = c.lt.GenRosterFromHost(c.servers...)
	c.tree = c.roster.GenerateNaryTreeWithRoot(bf, c.servers[0].ServerIdentity)
	c.nodes = make([]*onet.TreeNode, n)
	for _, tn := range c.tree.List() {
		c.nodes[reg.index(tn.ServerIdentity)] = tn
	}
	c.up = make([]bool, n)
	for i := range c.up {
		c.up[i] = true
		s := c.servers[i]
		i := i
		s.RegisterProcessorFunc(rawMsgType, func(env *network.Envelope) error {
			reg.deliver(env.Msg.(*RawMsg).ID, i)
			return nil
		})
	}
	c.nextID = 1000
	return c
}

func (c *cluster) kill(i int) {
	if !c.up[i] {
		return
	}
	done := make(chan struct{})
	go func() { c.servers[i].Close(); close(done) }()
	select {
	case <-done:
	case <-time.After(10 * time.Second):
	}
	c.up[i] = false
}

// instanceAt returns a protocol instance on server self for a fresh protocol run (the root
// creates it and tells self to create its own).
func (c *cluster) instanceAt(self int) *proto {
	c.caseNo++
	pi, err := c.lt.CreateProtocol(protoName, c.tree)
	if err != nil {
		return nil
	}
	root := pi.(*proto)
	if self == 0 {
		return root
	}
	if err := root.SendTo(c.nodes[self], &Cmd{Case: c.caseNo}); err != nil {
		return nil
	}
	var p *proto
	waitUntil(func() bool {
		reg.Lock()
		defer reg.Unlock()
		p = reg.inst[[2]int{c.caseNo, self}]
		return p != nil
	}, 5*time.Second)
	return p
}

var entryCluster *cluster

func tm(what string, t *time.Time) {
	if os.Getenv("C09_TIMING") != "" {
		fmt.Fprintln(os.Stderr, "   ", what, time.Since(*t))
	}
	*t = time.Now()
}

func entryKey(in input) string {
	return fmt.Sprintf("%v/%v/%v/%d", in.TCP, in.Down, in.Warm, in.Self)
}

var entryNames = map[string]string{"routersend": "ERouterSend", "sendraw": "ESendRaw", "treenodesend": "ETreeNodeSend",
	"sendto": "ESendTo", "sendtoparent": "ESendToParent", "sendtochildren": "ESendToChildren",
	"sendparallel": "ESendParallel", "multicast": "EMulticast", "broadcast": "EBroadcast"}

const entryServers = 5

func runEntry(in input) lib.Case {
	if wedgedKinds["entry"] >= 2 {
		return lib.Case{Discard: true}
	}
	t0 := time.Now()
	defer func() {
		if os.Getenv("C09_TIMING") != "" {
			fmt.Fprintln(os.Stderr, "entry", in.Entry, in.TCP, in.Down, time.Since(t0))
		}
	}()
	key := entryKey(in)
	if entryCluster == nil || entryCluster.key != key {
		tk := time.Now()
		if entryCluster != nil {
			entryCluster.close()
		}
		tm("close previous", &tk)
		c := newCluster(in.TCP, entryServers, 2)
		tm("new cluster", &tk)
		defer tm("instance+warm+kill+settle", &tk)
		c.key = key
		entryCluster = c
		c.selfInst = c.instanceAt(in.Self)
		if c.selfInst == nil {
			// all servers are alive at this point: the root could not reach the node
			entryCluster = nil
			return cutCase("entry:"+in.Entry, "creating the instance on a live node (root.SendTo + tree propagation)", false, nil)
		}
		if in.Warm {
			// connections from self to everybody exist before the failure
			for i := range c.servers {
				if i != in.Self {
					c.servers[in.Self].Send(c.servers[i].ServerIdentity, &RawMsg{ID: 1})
				}
			}
			waitUntil(func() bool { return len(reg.deliveredTo(1)) == entryServers-1 }, 3*time.Second)
		}
		for _, d := range in.Down {
			c.kill(d)
		}
		// the failure is noticed: no registered connection to a dead server is left at self
		selfRouter := c.servers[in.Self].Router
		waitUntil(func() bool {
			for _, d := range in.Down {
				l, ok := connListBounded(selfRouter, c.servers[d].ServerIdentity.GetID())
				if !ok || len(l) > 0 {
					return false
				}
			}
			return true
		}, 5*time.Second)
	}
	c := entryCluster
	p := c.selfInst
	if p == nil {
		return cutCase("entry:"+in.Entry, "no instance on the live node", false, nil)
	}
	c.nextID++
	id := c.nextID
	var dests []int
	errs := 0
	one := func(err error) {
		if err != nil {
			errs = 1
		}
	}
	self := c.servers[in.Self]
	done := make(chan struct{})
	go func() {
		defer close(done)
		switch in.Entry {
		case "routersend":
			dests = in.Dests[:1]
			_, err := self.Send(c.servers[dests[0]].ServerIdentity, &RawMsg{ID: id})
			one(err)
		case "sendraw":
			dests = in.Dests[:1]
			svc := self.Service(svcName).(*c09svc)
			one(svc.SendRaw(c.servers[dests[0]].ServerIdentity, &RawMsg{ID: id}))
		case "treenodesend":
			dests = in.Dests[:1]
			_, err := p.VerifSendToTreeNode(c.nodes[dests[0]], &Data{ID: id})
			one(err)
		case "sendto":
			dests = in.Dests[:1]
			one(p.SendTo(c.nodes[dests[0]], &Data{ID: id}))
		case "sendtoparent":
			if par := p.Parent(); par != nil {
				dests = []int{reg.index(par.ServerIdentity)}
			}
			one(p.SendToParent(&Data{ID: id}))
		case "sendtochildren":
			for _, ch := range p.Children() {
				dests = append(dests, reg.index(ch.ServerIdentity))
			}
			one(p.SendToChildren(&Data{ID: id}))
		case "sendparallel":
			for _, ch := range p.Children() {
				dests = append(dests, reg.index(ch.ServerIdentity))
			}
			errs = len(p.SendToChildrenInParallel(&Data{ID: id}))
		case "multicast":
			dests = in.Dests
			var nodes []*onet.TreeNode
			for _, d := range dests {
				nodes = append(nodes, c.nodes[d])
			}
			errs = len(p.Multicast(&Data{ID: id}, nodes...))
		case "broadcast":
			for _, tn := range p.List() {
				dests = append(dests, reg.index(tn.ServerIdentity))
			}
			errs = len(p.Broadcast(&Data{ID: id}))
		}
	}()
	returned := true
	select {
	case <-done:
	case <-time.After(15 * time.Second):
		returned = false
	}
	if !returned {
		entryCluster = nil // wedged: abandon it instead of waiting for its CloseAll
		wedgedKinds["entry"]++
		return lib.Case{Coq: "CCluster 1 1 false true true true true", Class: "entry:" + in.Entry + "-blocked", Nontrivial: true,
			Obs: "the entry point did not return within 15 s"}
	}
	// every live destination that can still get the message gets it
	upDests := 0
	for _, d := range dests {
		if c.up[d] && d != in.Self {
			upDests++
		}
	}
	last, lastChange := -1, time.Now()
	waitUntil(func() bool {
		n := len(reg.deliveredTo(id))
		if n != last {
			last, lastChange = n, time.Now()
		}
		return n >= upDests || time.Since(lastChange) > 400*time.Millisecond
	}, 3*time.Second)
	deliv := reg.deliveredTo(id)
	var ups []int
	for i, u := range c.up {
		if u {
			ups = append(ups, i)
		}
	}
	nd := 0
	for _, d := range dests {
		if !c.up[d] {
			nd++
		}
	}
	cl := fmt.Sprintf("entry:%s", in.Entry)
	if nd > 0 {
		cl += "-down"
	} else {
		cl += "-allup"
	}
	coq := fmt.Sprintf("CEntry %s %d %s %s %d %s", entryNames[in.Entry], in.Self, lib.NatList(dests), lib.NatList(ups), errs, lib.NatList(deliv))
	return lib.Case{Coq: coq, Class: cl, Nontrivial: nd > 0,
		Obs: map[string]interface{}{"entry": in.Entry, "self": in.Self, "destinations": dests, "servers_up": ups,
			"errors_reported": errs, "delivered_to": deliv, "tcp": in.TCP, "warm": in.Warm}}
}

var allEntries = []string{"routersend", "sendraw", "treenodesend", "sendto", "sendtoparent", "sendtochildren", "sendparallel", "multicast", "broadcast"}

// one cluster configuration -> all nine entry points on it
func entryGroup(rng *rand.Rand, tcp bool, self int, down []int, warm bool) []interface{} {
	var ins []interface{}
	others := []int{}
	for i := 0; i < entryServers; i++ {
		if i != self {
			others = append(others, i)
		}
	}
	isDown := func(d int) bool {
		for _, x := range down {
			if x == d {
				return true
			}
		}
		return false
	}
	pick := func(wantDown bool) int {
		var cands []int
		for _, o := range others {
			if isDown(o) == wantDown {
				cands = append(cands, o)
			}
		}
		if len(cands) == 0 {
			return others[rng.Intn(len(others))]
		}
		return cands[rng.Intn(len(cands))]
	}
	for _, e := range allEntries {
		in := input{Kind: "entry", Entry: e, TCP: tcp, Self: self, Down: down, Warm: warm}
		switch e {
		case "routersend", "sendraw", "treenodesend", "sendto":
			in.Dests = []int{pick(true)}
			ins = append(ins, in)
			in2 := in
			in2.Dests = []int{pick(false)}
			ins = append(ins, in2)
			continue
		case "multicast":
			perm := rng.Perm(len(others))
			k := 1 + rng.Intn(len(others))
			for _, j := range perm[:k] {
				in.Dests = append(in.Dests, others[j])
			}
		}
		ins = append(ins, in)
	}
	return ins
}

func corpusEntry() []interface{} {
	rng := rand.New(rand.NewSource(9))
	// the F10 witness first: SendRaw towards a closed server (in-memory transport, no connection before)
	ins := []interface{}{input{Kind: "entry", Entry: "sendraw", TCP: false, Self: 0, Down: []int{2}, Dests: []int{2}}}
	ins = append(ins, entryGroup(rng, false, 0, []int{2}, false)...)
	return ins
}

func genEntry(rng *rand.Rand, tier string) []interface{} {
	groups := 3
	if tier != "quick" {
		groups = 24
	}
	var ins []interface{}
	for g := 0; g < groups; g++ {
		self := rng.Intn(2) // root, or the inner node 1 (parent 0, children 3 and 4)
		var down []int
		for i := 0; i < entryServers; i++ {
			if i != self && rng.Intn(3) == 0 {
				down = append(down, i)
			}
		}
		if len(down) == 0 {
			down = []int{(self + 1 + rng.Intn(entryServers-1)) % entryServers}
		}
		tcp := g%4 != 3 // a failed dial costs 0.5 s on the in-memory transport
		ins = append(ins, entryGroup(rng, tcp, self, down, rng.Intn(2) == 0)...)
	}
	return ins
}

// ---- cluster scenarios (sub-process) ----------------------------------------------

type clusterOut struct {
	Reached      bool   `json:"reached"`
	Canaries     int    `json:"canaries"`
	CanariesDone int    `json:"canaries_done"`
	Returned     bool   `json:"sends_returned"`
	Told         bool   `json:"handlers_told"`
	AfterRestart bool   `json:"after_restart_ok"`
	HadConn      []int  `json:"survivors_connected_to_victim"`
	ToldWho      []int  `json:"survivors_told"`
	FailedRun    int    `json:"failing_run_count"`
	Zombie       []int  `json:"survivors_keeping_a_connection_to_the_dead_victim"`
	Note         string `json:"note,omitempty"`
}

var clusterMoments = []string{"before", "treemiss", "instance", "announce", "childannounce", "reply", "treereq", "treereqlost"}

func genCluster(rng *rand.Rand, tier string) []interface{} {
	n := 4
	if tier != "quick" {
		n = 40
	}
	var ins []interface{}
	for i := 0; i < n; i++ {
		servers := 5 + rng.Intn(3)
		in := input{Kind: "cluster", TCP: i%3 != 2, Servers: servers, BF: 2, Moment: clusterMoments[rng.Intn(len(clusterMoments))]}
		// inner nodes of the binary tree are 1 and 2 (children 3,4 / 5,6); leaves from 3
		if in.Moment == "childannounce" || in.Moment == "treereq" || in.Moment == "treereqlost" {
			in.Victim = 1
		} else {
			in.Victim = 1 + rng.Intn(servers-1)
		}
		ins = append(ins, in)
	}
	registerPending(ins)
	return ins
}

func corpusCluster() []interface{} {
	ins := []interface{}{
		input{Kind: "cluster", TCP: true, Servers: 5, BF: 2, Victim: 1, Moment: "childannounce"},
		input{Kind: "cluster", TCP: false, Servers: 5, BF: 2, Victim: 1, Moment: "treemiss"},
		input{Kind: "cluster", TCP: true, Servers: 6, BF: 2, Victim: 3, Moment: "instance"},
		input{Kind: "cluster", TCP: true, Servers: 5, BF: 2, Victim: 2, Moment: "reply"},
		// the peer dies between its first message on a tree the survivor does not know and the
		// survivor's tree request; after its restart it runs a protocol on the same tree
		input{Kind: "cluster", TCP: false, Servers: 4, BF: 3, Victim: 1, Moment: "treereq"},
		input{Kind: "cluster", TCP: true, Servers: 4, BF: 3, Victim: 1, Moment: "treereq"},
		// ... and the variant in which the request does go out, but to an incarnation that cannot answer it
		input{Kind: "cluster", TCP: true, Servers: 4, BF: 3, Victim: 1, Moment: "treereqlost"},
	}
	registerPending(ins)
	return ins
}

// cluster children are started together (at most 4 at a time) when the first result is needed
var pending []json.RawMessage
var pendingRes = map[string]chan []byte{}
var pendingOnce sync.Once

func registerPending(ins []interface{}) {
	for _, in := range ins {
		raw, _ := json.Marshal(in)
		pending = append(pending, raw)
	}
}

// a cluster scenario gets 150 s; one that is still running then is blocked, which is an observation
const childDeadline = 75 * time.Second

func runChild(raw []byte) []byte {
	ctx, cancel := context.WithTimeout(context.Background(), childDeadline)
	defer cancel()
	cmd := exec.CommandContext(ctx, os.Args[0], "-c09child", string(raw))
	var stderr bytes.Buffer
	cmd.Stderr = &stderr
	out, err := cmd.Output()
	if ctx.Err() != nil {
		return []byte(`{"blocked":true}`)
	}
	if err != nil {
		tail := stderr.String()
		if i := strings.Index(tail, "panic:"); i >= 0 {
			tail = tail[i:]
		} else if i := strings.Index(tail, "fatal error:"); i >= 0 {
			tail = tail[i:]
		}
		if len(tail) > 1800 {
			tail = tail[:1800]
		}
		return []byte(fmt.Sprintf(`{"crashed":true,"exit":%q,"stderr":%q}`, err.Error(), tail))
	}
	return out
}

func childResult(raw []byte) []byte {
	pendingOnce.Do(func() {
		sem := make(chan struct{}, 6)
		for _, p := range pending {
			p := p
			if _, dup := pendingRes[string(p)]; dup {
				continue
			}
			ch := make(chan []byte, 1)
			pendingRes[string(p)] = ch
			go func() {
				sem <- struct{}{}
				ch <- runChild(p)
				<-sem
			}()
		}
	})
	if ch, ok := pendingRes[string(raw)]; ok {
		res := <-ch
		ch <- res
		return res
	}
	return runChild(raw)
}

func runClusterParent(in input, raw json.RawMessage) lib.Case {
	b, _ := json.Marshal(in)
	res := childResult(b)
	var probe map[string]interface{}
	alive := true
	var out clusterOut
	// the child prints one JSON line at the end; anything else means it died
	blocked := false
	if err := json.Unmarshal(lastLine(res), &probe); err == nil && probe["blocked"] == true {
		blocked = true
		out.Reached = true
	} else if err != nil || probe["crashed"] == true {
		alive = false
	} else {
		json.Unmarshal(lastLine(res), &out)
	}
	unreached := alive && !blocked && !out.Reached
	if unreached {
		// every server was alive and the run over the full tree had been started: the protocol message
		// that should have brought the scenario to its moment did not get there within 20 s. The
		// prefix (canaries so far) is evaluated and the run that did not progress counts as not finished.
		out.Canaries++
		out.Returned, out.Told, out.AfterRestart = true, true, true
	}
	tr := "mem"
	if in.TCP {
		tr = "tcp"
	}
	cl := fmt.Sprintf("cluster-%s:%s", tr, in.Moment)
	if blocked {
		cl += "+blocked"
	}
	if len(out.Zombie) > 0 {
		cl += "+abandoned"
	}
	if unreached {
		cl += "+unreached"
	}
	coq := fmt.Sprintf("CCluster %d %d %s %s %s %s %s", out.Canaries, out.CanariesDone, lib.Bool(out.Returned), lib.Bool(alive),
		lib.Bool(out.Told), lib.Bool(len(out.Zombie) == 0), lib.Bool(out.AfterRestart))
	if (in.Moment == "treereq" || in.Moment == "treereqlost") && alive && !blocked && !unreached {
		coq = fmt.Sprintf("CTreeReq %s %d %d %s %s %s", lib.Bool(in.Moment == "treereqlost"), out.Canaries, out.CanariesDone,
			lib.Bool(out.Returned), lib.Bool(alive), lib.Bool(out.AfterRestart))
	}
	var obs interface{} = out
	if blocked {
		obs = map[string]interface{}{"scenario_did_not_finish_within_s": int(childDeadline / time.Second)}
	}
	if !alive {
		s := string(res)
		if len(s) > 1500 {
			s = s[len(s)-1500:]
		}
		obs = map[string]interface{}{"servers_process_died": true, "output_tail": s}
	}
	return lib.Case{Coq: coq, Class: cl, Obs: obs, Nontrivial: true}
}

func lastLine(b []byte) []byte {
	end := len(b)
	for end > 0 && (b[end-1] == '\n' || b[end-1] == ' ') {
		end--
	}
	start := end
	for start > 0 && b[start-1] != '\n' {
		start--
	}
	return b[start:end]
}

func clusterChild(arg string) {
	var in input
	if err := json.Unmarshal([]byte(arg), &in); err != nil {
		panic(err)
	}
	registerOnetLevel()
	out := clusterScenario(in)
	b, _ := json.Marshal(out)
	fmt.Println(string(b))
}

func startRun(c *cluster, tree *onet.Tree, run int) bool {
	pi, err := c.lt.CreateProtocol(protoName, tree)
	if err != nil {
		return false
	}
	p := pi.(*proto)
	go p.announce(run)
	return true
}

func runCount(run int) (int, bool) {
	reg.Lock()
	defer reg.Unlock()
	n, ok := reg.runDone[run]
	return n, ok
}

func waitRun(run, want int, d time.Duration) bool {
	return waitUntil(func() bool { n, ok := runCount(run); return ok && n == want }, d)
}

func clusterScenario(in input) clusterOut {
	var out clusterOut
	sched := lib.NewSched()
	onet.SetVerifHook(sched.Hook)
	network.SetVerifHook(sched.Hook)
	c := newCluster(in.TCP, in.Servers, in.BF)
	defer c.close()
	n := in.Servers
	v := in.Victim
	victim := c.servers[v]
	// canary tree: the survivors only
	var surv []*onet.Server
	for i, s := range c.servers {
		if i != v {
			surv = append(surv, s)
		}
	}
	canRoster := c.lt.GenRosterFromHost(surv...)
	canTree := canRoster.GenerateNaryTreeWithRoot(in.BF, c.servers[0].ServerIdentity)
	// error handlers of the survivors
	var toldMu sync.Mutex
	told := map[int]bool{}
	for i, s := range c.servers {
		if i == v {
			continue
		}
		i := i
		rt := s.Router
		s.Router.AddErrorHandler(func(si *network.ServerIdentity) {
			_ = rt.Closed() // a handler may use its own router
			_ = rt.Tx()
			if reg.index(si) == v {
				toldMu.Lock()
				told[i] = true
				toldMu.Unlock()
			}
		})
	}
	canary := func(run int) {
		out.Canaries++
		if startRun(c, canTree, run) && waitRun(run, n-1, 12*time.Second) {
			out.CanariesDone++
		}
	}
	// 1. before the failure: a canary run and a run over the full tree
	canary(1)
	if in.Moment != "treemiss" { // there the victim must not know the tree yet
		out.Canaries++
		if startRun(c, c.tree, 2) && waitRun(2, n, 12*time.Second) {
			out.CanariesDone++
		}
	}

	// 2. the failing run: the victim is held at the chosen moment and closed there
	hit := make(chan struct{}, 1)
	hold := make(chan struct{})
	var gate *lib.Gate
	failTree := c.tree
	traceMark := 0
	wantAfter := n
	var pair *onet.Roster
	treeReq := in.Moment == "treereq" || in.Moment == "treereqlost"
	vov := victim.VerifOverlay()
	switch in.Moment {
	case "before":
	case "treemiss", "instance":
		point := map[string]string{"treemiss": "overlay.treeMiss", "instance": "overlay.instanceCreated"}[in.Moment]
		gate = sched.Block(point, 1, func(args []interface{}) bool {
			o, ok := args[0].(*onet.Overlay)
			return ok && o == vov
		})
	case "treereq", "treereqlost":
		// the failing run is rooted at the victim; a survivor that does not know the tree is held
		// after it marked the tree as requested and before the request goes out
		// (a two-node tree: with more nodes other survivors can be caught with an unanswered request
		// of their own when the victim dies, which is finding C09-N2 and not this scenario)
		pair = c.lt.GenRosterFromHost(victim, c.servers[0])
		failTree = pair.GenerateNaryTreeWithRoot(in.BF, victim.ServerIdentity)
		wantAfter = 2
		traceMark = len(sched.Trace())
		gate = sched.Block("overlay.registered", 1, func(args []interface{}) bool {
			o, ok := args[0].(*onet.Overlay)
			return ok && o != vov
		})
	case "announce", "reply":
		reg.Lock()
		reg.hooks[in.Moment] = func(p *proto) {
			if p.me == v {
				select {
				case hit <- struct{}{}:
					<-hold
				default:
				}
			}
		}
		reg.Unlock()
	case "childannounce":
		reg.Lock()
		reg.hooks["announce"] = func(p *proto) {
			par := p.Parent()
			if par != nil && reg.index(par.ServerIdentity) == v {
				select {
				case hit <- struct{}{}:
					<-hold
				default:
				}
			}
		}
		reg.Unlock()
	}
	if in.Moment != "before" {
		if !startRun(c, failTree, 3) {
			return out
		}
		reached := false
		if gate != nil {
			reached = gate.WaitHit(20 * time.Second)
		} else {
			select {
			case <-hit:
				reached = true
			case <-time.After(20 * time.Second):
			}
		}
		if !reached {
			close(hold)
			sched.ReleaseAll()
			out.Note = "moment not reached"
			return out
		}
	}
	out.Reached = true
	for i, s := range c.servers {
		if i != v && s.Router.VerifConnections()[victim.ServerIdentity.GetID()] > 0 {
			out.HadConn = append(out.HadConn, i)
		}
	}
	canDone := make(chan struct{})
	go func() { canary(4); close(canDone) }()
	// close the victim; the goroutine held inside it is released once the router is closing
	before := sched.Count("router.closedSet")
	closed := make(chan struct{})
	go func() { victim.Close(); close(closed) }()
	waitUntil(func() bool { return sched.Count("router.closedSet") > before }, 5*time.Second)
	close(hold)
	if gate != nil && !treeReq {
		gate.Release()
	}
	select {
	case <-closed:
	case <-time.After(15 * time.Second):
	}
	var heldOv *onet.Overlay
	if treeReq {
		for _, e := range sched.Trace()[traceMark:] {
			if e.Point == "overlay.registered" && len(e.Args) > 0 {
				if o, ok := e.Args[0].(*onet.Overlay); ok && o != vov {
					heldOv = o
					break
				}
			}
		}
	}
	if gate != nil && in.Moment == "treereq" {
		// the survivor's request goes out only now: nothing listens at the victim any more;
		// wait until that send has failed (the tree is no longer marked as requested)
		gate.Release()
		if heldOv != nil {
			waitUntil(func() bool { return heldOv.VerifTreeState(failTree.ID) != 1 }, 4*time.Second)
		}
	}
	c.up[v] = false
	if in.Moment == "before" {
		startRun(c, c.tree, 3)
	}
	<-canDone
	// the failing run may or may not finish; give it a moment, do not judge it
	waitUntil(func() bool { _, ok := runCount(3); return ok }, 1500*time.Millisecond)
	out.FailedRun, _ = runCount(3)
	// 3. survivors that had a connection to the victim are told
	heldIdx := -1
	if in.Moment == "treereqlost" && heldOv != nil {
		// that survivor's receive loop is the goroutine this scenario still holds: it cannot notice yet
		heldIdx = reg.index(heldOv.ServerIdentity())
	}
	out.Told = waitUntil(func() bool {
		toldMu.Lock()
		defer toldMu.Unlock()
		for _, i := range out.HadConn {
			if !told[i] && i != heldIdx {
				return false
			}
		}
		return true
	}, 5*time.Second)
	toldMu.Lock()
	for i := range told {
		out.ToldWho = append(out.ToldWho, i)
	}
	toldMu.Unlock()
	sort.Ints(out.ToldWho)
	// 4. every send of the protocol returned
	out.Returned = waitUntil(func() bool {
		return atomic.LoadInt64(&reg.sendsBeg) == atomic.LoadInt64(&reg.sendsEnd)
	}, 10*time.Second)
	if out.CanariesDone < out.Canaries || !out.Returned {
		// the survivors are blocked: that is the observation; do not sit out the remaining deadlines
		// (closing wedged servers would block as well)
		out.Note = "survivors blocked after the failure; scenario cut short"
		b, _ := json.Marshal(out)
		fmt.Println(string(b))
		os.Exit(0)
	}
	// survivors that still hold a registered connection to the closed victim: the victim dialled
	// them while shutting down and dropped the connection without closing it
	time.Sleep(300 * time.Millisecond)
	for i, s := range c.servers {
		if i != v && i != heldIdx && s.Router.VerifConnections()[victim.ServerIdentity.GetID()] > 0 {
			out.Zombie = append(out.Zombie, i)
		}
	}
	// 5. restart, full run, canary
	reg.Lock()
	reg.hooks = map[string]func(p *proto){}
	reg.Unlock()
	nv := c.lt.VerifRestart(victim)
	c.servers[v] = nv
	c.up[v] = true
	i := v
	nv.RegisterProcessorFunc(rawMsgType, func(env *network.Envelope) error {
		reg.deliver(env.Msg.(*RawMsg).ID, i)
		return nil
	})
	if in.Moment == "treereqlost" {
		// the held request goes out now, to the new incarnation, which has never heard of the tree
		before := 0
		if heldOv != nil {
			before = len(heldOv.VerifPending())
		}
		gate.Release()
		time.Sleep(300 * time.Millisecond)
		_ = before
	}
	fresh := c.roster.GenerateNaryTreeWithRoot(in.BF, c.servers[0].ServerIdentity)
	if treeReq {
		// the same tree (same id) as the run that failed, rooted at the restarted peer
		fresh = pair.GenerateNaryTreeWithRoot(in.BF, nv.ServerIdentity)
	}
	out.AfterRestart = startRun(c, fresh, 5) && waitRun(5, wantAfter, 12*time.Second)
	if !out.AfterRestart {
		// one more try: the first run after a restart may meet a connection whose death was not yet noticed (TCP)
		out.AfterRestart = startRun(c, fresh, 6) && waitRun(6, wantAfter, 12*time.Second)
	}
	canary(7)
	return out
}

// runConfig: the configuration set with SetConfig must travel with the first message that reaches
// a node; the victim is down for the first SendTo and back for the second.
func runConfig(in input) lib.Case {
	if entryCluster != nil {
		entryCluster.close()
		entryCluster = nil
	}
	c := newCluster(in.TCP, 3, 2)
	defer c.close()
	svc := c.servers[0].Service(svcName).(*c09svc)
	pi, err := svc.CreateProtocol(protoName, c.tree)
	if err != nil {
		return cutCase("config", "CreateProtocol on a live server", true, err.Error())
	}
	root := pi.(*proto)
	if err := root.SetConfig(&onet.GenericConfig{Data: []byte("cfg")}); err != nil {
		return cutCase("config", "SetConfig", true, err.Error())
	}
	victim, control := 1, 2
	firstFailed := false
	if in.Warm { // "warm" here: the victim is down during the first send
		c.kill(victim)
		firstFailed = root.SendTo(c.nodes[victim], &Data{ID: 1}) != nil
		nv := c.lt.VerifRestart(c.servers[victim])
		c.servers[victim] = nv
		c.up[victim] = true
	}
	root.SendTo(c.nodes[victim], &Data{ID: 2})
	root.SendTo(c.nodes[control], &Data{ID: 3})
	waitUntil(func() bool { return len(reg.deliveredTo(2)) == 1 && len(reg.deliveredTo(3)) == 1 }, 5*time.Second)
	vmsg := len(reg.deliveredTo(2)) == 1
	reg.Lock()
	vcfg := reg.cfgSeen[victim] == "cfg"
	ccfg := reg.cfgSeen[control] == "cfg"
	reg.Unlock()
	tr := "mem"
	if in.TCP {
		tr = "tcp"
	}
	cl := "config-" + tr
	if firstFailed {
		cl += "-firstfailed"
	}
	coq := fmt.Sprintf("CConfig %s %s %s %s", lib.Bool(firstFailed), lib.Bool(vmsg), lib.Bool(vcfg), lib.Bool(ccfg))
	return lib.Case{Coq: coq, Class: cl, Nontrivial: firstFailed,
		Obs: map[string]interface{}{"first_send_failed": firstFailed, "message_reached_restarted_node": vmsg,
			"configuration_reached_restarted_node": vcfg, "configuration_reached_control_node": ccfg}}
}
