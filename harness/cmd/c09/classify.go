package main

// Error translation (tcp.go handleError) and classification (router.go handleConn):
// real error values -- taken from the standard library and from real sockets, plus
// synthetic errors built from a feature vector -- go through network.VerifHandleError,
// and the translated error, wrapped as TCPConn.Receive wraps it, is returned by the
// Receive of a scripted connection of a real Router.

import (
	"context"
	"errors"
	"fmt"
	"io"
	"net"
	"os"
	"strings"
	"syscall"
	"time"

	"go.dedis.ch/onet/v3/network"
	"golang.org/x/xerrors"

	"verifharness/lib"
)

type synthNetErr struct {
	msg     string
	timeout bool
}

func (e *synthNetErr) Error() string   { return e.msg }
func (e *synthNetErr) Timeout() bool   { return e.timeout }
func (e *synthNetErr) Temporary() bool { return false }

// feature order: use-of-closed, broken-pipe, canceled, EOF, net.Error, Timeout()
func synthErr(f []bool) error {
	parts := []string{"read tcp 127.0.0.1:1->127.0.0.1:2:"}
	if f[0] {
		parts = append(parts, "use of closed network connection")
	}
	if f[1] {
		parts = append(parts, "write: broken pipe")
	}
	if f[2] {
		parts = append(parts, "operation was canceled")
	}
	if f[3] {
		parts = append(parts, "unexpected EOF")
	}
	if len(parts) == 1 {
		parts = append(parts, "no route to host")
	}
	msg := strings.Join(parts, " ")
	if f[4] {
		return &synthNetErr{msg, f[5]}
	}
	return errors.New(msg)
}

// featuresOf states what handleError can see in an error (the textual criteria of tcp.go).
func featuresOf(err error) []bool {
	s := err.Error()
	ne, isNet := err.(net.Error)
	return []bool{
		strings.Contains(s, "use of closed"),
		strings.Contains(s, "broken pipe"),
		strings.Contains(s, "canceled"),
		err == io.EOF || strings.Contains(s, "EOF"),
		isNet,
		isNet && ne.Timeout(),
	}
}

// socketErr produces error values from real TCP sockets.
func socketErr(kind string) error {
	ln, err := net.Listen("tcp", "127.0.0.1:0")
	if err != nil {
		return nil
	}
	defer ln.Close()
	acc := make(chan net.Conn, 1)
	go func() {
		c, err := ln.Accept()
		if err == nil {
			acc <- c
		}
	}()
	c, err := net.Dial("tcp", ln.Addr().String())
	if err != nil {
		return nil
	}
	defer c.Close()
	var srv net.Conn
	select {
	case srv = <-acc:
	case <-time.After(2 * time.Second):
		return nil
	}
	defer srv.Close()
	buf := make([]byte, 4)
	switch kind {
	case "sock-eof": // peer closed: read returns io.EOF
		srv.Close()
		_, err = c.Read(buf)
	case "sock-closed-local": // read on a connection closed on this side
		c.Close()
		_, err = c.Read(buf)
	case "sock-deadline": // silent peer, read deadline passes
		c.SetReadDeadline(time.Now().Add(5 * time.Millisecond))
		_, err = c.Read(buf)
	case "sock-reset": // peer aborts with unread data: read returns ECONNRESET
		c.Write([]byte("unread"))
		time.Sleep(20 * time.Millisecond)
		if tc, ok := srv.(*net.TCPConn); ok {
			tc.SetLinger(0)
		}
		srv.Close()
		time.Sleep(20 * time.Millisecond)
		_, err = c.Read(buf)
	case "sock-epipe": // writing after the peer reset the connection
		if tc, ok := srv.(*net.TCPConn); ok {
			tc.SetLinger(0)
		}
		srv.Close()
		time.Sleep(20 * time.Millisecond)
		for i := 0; i < 5 && err == nil; i++ {
			_, err = c.Write([]byte("xxxx"))
			time.Sleep(5 * time.Millisecond)
		}
	}
	return err
}

func namedErr(name string) error {
	switch name {
	case "io.EOF":
		return io.EOF
	case "io.ErrUnexpectedEOF":
		return io.ErrUnexpectedEOF
	case "op-closed":
		return &net.OpError{Op: "read", Net: "tcp", Err: net.ErrClosed}
	case "op-epipe":
		return &net.OpError{Op: "write", Net: "tcp", Err: os.NewSyscallError("write", syscall.EPIPE)}
	case "op-econnreset":
		return &net.OpError{Op: "read", Net: "tcp", Err: os.NewSyscallError("read", syscall.ECONNRESET)}
	case "op-deadline":
		return &net.OpError{Op: "read", Net: "tcp", Err: os.ErrDeadlineExceeded}
	case "ctx-canceled":
		return context.Canceled
	case "op-canceled":
		return &net.OpError{Op: "dial", Net: "tcp", Err: errors.New("operation was canceled")}
	case "tls-bad-certificate":
		return &net.OpError{Op: "remote error", Err: errors.New("tls: bad certificate")}
	case "plain":
		return errors.New("boom")
	case "dns-timeout":
		return &net.DNSError{Err: "i/o timeout", Name: "x", IsTimeout: true}
	case "ehostunreach":
		return &net.OpError{Op: "read", Net: "tcp", Err: os.NewSyscallError("read", syscall.EHOSTUNREACH)}
	case "etimedout":
		return &net.OpError{Op: "read", Net: "tcp", Err: os.NewSyscallError("read", syscall.ETIMEDOUT)}
	}
	if strings.HasPrefix(name, "sock-") {
		return socketErr(name)
	}
	return nil
}

// errors that mean "the peer is gone"
var lostNames = map[string]bool{"io.EOF": true, "io.ErrUnexpectedEOF": true, "op-closed": true, "op-epipe": true,
	"op-econnreset": true, "op-deadline": true, "ehostunreach": true, "etimedout": true,
	"sock-eof": true, "sock-closed-local": true, "sock-deadline": true, "sock-reset": true, "sock-epipe": true}

func corpusClassify() []interface{} {
	var ins []interface{}
	for _, n := range []string{"io.EOF", "io.ErrUnexpectedEOF", "op-closed", "op-epipe", "op-econnreset", "op-deadline",
		"ctx-canceled", "op-canceled", "tls-bad-certificate", "plain", "dns-timeout", "ehostunreach", "etimedout",
		"sock-eof", "sock-closed-local", "sock-deadline", "sock-reset", "sock-epipe"} {
		ins = append(ins, input{Kind: "classify", Err: n, NH: 2, Lost: lostNames[n]})
	}
	// errors that reach handleConn without passing through handleError
	for _, c := range []string{"ETooBig", "EOther", "ECanceled", "ETimeout", "EUnknown"} {
		ins = append(ins, input{Kind: "classify", Err: "direct:" + c, NH: 2})
	}
	// a real oversize frame on a real TCP connection
	ins = append(ins, input{Kind: "classify", Err: "tcp-oversize", NH: 2})
	return ins
}

func clsName(err error) string {
	switch err {
	case network.ErrClosed:
		return "EClosed"
	case network.ErrCanceled:
		return "ECanceled"
	case network.ErrEOF:
		return "EEOF"
	case network.ErrUnknown:
		return "EUnknown"
	case network.ErrTimeout:
		return "ETimeout"
	case network.ErrTooBig:
		return "ETooBig"
	}
	return "EOther"
}

// BigC09 is a message whose frame can be made larger than MaxPacketSize.
type BigC09 struct {
	Pad []byte
}

var bigC09Type = network.RegisterMessage(&BigC09{})

// runOversize: S and a peer on real TCP; the frame limit is lowered; the peer sends one frame above
// it. S's receive loop must see ErrTooBig, tell its handlers and drop the connection; a following
// small message of the peer arrives over a new connection.
func runOversize(in input) lib.Case {
	old := network.MaxPacketSize
	network.MaxPacketSize = 1000
	defer func() { network.MaxPacketSize = old }()
	w, err := newRworld(true, 1, in.NH, 0)
	if err != nil {
		if w != nil {
			w.cleanup()
		}
		return lib.Case{Discard: true}
	}
	defer w.cleanup()
	pr := w.peers[0].routers[0]
	w.markSent(1, 2)
	if r, to := w.send(0, []int{1}); r != 1 {
		return cutCase("classify:tcp-oversize", "Send to a live TCP peer (set-up)", to, r)
	}
	w.waitDelivered(0, 0, 1)
	before := w.tabCount(0)
	// The frame is written on the peer's end of THAT connection (Conn.Send), not through the peer's
	// Router.Send: if S drops the connection while the 5000 bytes are still being written, Router.Send
	// would dial again and resend, S would drop a second connection and tell its handlers a second time
	// (seen under machine load). One connection, one oversize frame, one drop.
	pl, ok := connListBounded(pr, w.S.ServerIdentity.GetID())
	if !ok || len(pl) == 0 {
		return cutCase("classify:tcp-oversize", "the live TCP peer has no connection with S after a delivered message", false, len(pl))
	}
	boundedDo(10*time.Second, func() { pl[0].Send(&BigC09{Pad: make([]byte, 5000)}) })
	left := waitUntil(func() bool { return w.tabCount(0) < before }, 10*time.Second)
	w.mu.Lock()
	calls := 0
	for h := range w.calls {
		calls += w.calls[h][0]
	}
	w.mu.Unlock()
	coq := fmt.Sprintf("CClassDirect ETooBig false %d %s %d", in.NH, lib.Bool(left), calls)
	return lib.Case{Coq: coq, Class: "classify:tcp-oversize", Nontrivial: true,
		Obs: map[string]interface{}{"connections_before": before, "connections_after": w.tabCount(0), "loop_left": left, "handler_calls": calls,
			"identities_received_by_S": w.identitiesAtS()}}
}

func runClassify(in input) lib.Case {
	if wedgedKinds["classify"] >= 3 {
		return lib.Case{Discard: true}
	}
	if in.Err == "tcp-oversize" {
		return runOversize(in)
	}
	var raw error
	feat := in.Feat
	direct := strings.HasPrefix(in.Err, "direct:")
	if direct {
		raw = errOfClass(strings.TrimPrefix(in.Err, "direct:"))
	} else if in.Err == "synthetic" {
		raw = synthErr(feat)
	} else {
		raw = namedErr(in.Err)
		if raw == nil {
			return lib.Case{Discard: true}
		}
	}
	// the features are always read off the value itself (for synthetic errors this equals the request)
	feat = featuresOf(raw)
	cls := network.VerifHandleError(raw)
	if direct {
		cls = nil
	}

	n := newFnet(false, 1, in.NH)
	defer n.cleanup()
	if r, _, to := n.exec(opj{K: "send", P: 0, M: []int{1}}); r != 1 {
		// the set-up Send towards a live scripted peer failed or did not return
		return cutCase("classify:"+in.Err, "Send to a live peer (set-up)", to, r)
	}
	c := n.conns[0]
	waitUntil(c.idle, 5*time.Second)
	if direct {
		c.push(item{err: raw})
	} else {
		c.push(item{err: xerrors.Errorf("receiving: %w", xerrors.Errorf("buffer read: %w", cls))})
	}
	waitUntil(func() bool { return !n.inTable(c) || c.idle() }, opDeadline)
	left := !n.inTable(c)
	if isWedged(n.S) {
		// the receive loop sits inside a handler holding the router's mutex
		n.abandoned = true
		wedgedKinds["classify"]++
		return lib.Case{Coq: "CCluster 1 1 false true true true true", Class: "classify:" + in.Err + "+blocked", Nontrivial: true,
			Obs: "after the error the router did not answer any more (table query blocked)"}
	}
	n.mu.Lock()
	calls := len(n.calls)
	n.mu.Unlock()
	fs := make([]string, 6)
	for i := range fs {
		fs[i] = lib.Bool(feat[i])
	}
	coq := fmt.Sprintf("CClassify (mkRaw %s) %s %d %s %s %d", strings.Join(fs, " "), lib.Bool(in.Lost), in.NH,
		clsName(cls), lib.Bool(left), calls)
	if direct {
		coq = fmt.Sprintf("CClassDirect %s %s %d %s %d", strings.TrimPrefix(in.Err, "direct:"), lib.Bool(in.Lost), in.NH, lib.Bool(left), calls)
	}
	class := "classify:" + in.Err
	return lib.Case{Coq: coq, Class: class, Nontrivial: true,
		Obs: map[string]interface{}{"error": raw.Error(), "features": feat, "translated": clsName(cls), "loop_left": left, "handler_calls": calls}}
}
