package main

// Routers on the real transports (in-memory LocalManager, TCP on loopback). S is the
// surviving router under observation; the peers are routers that are stopped and
// re-created (same key, same address). After every operation the harness waits for
// quiescence (deaths noticed, messages arrived) under a deadline, so that the counts
// it reports are a deterministic function of the operations.

import (
	"fmt"
	"sync"
	"sync/atomic"
	"time"

	"go.dedis.ch/onet/v3/network"

	"verifharness/lib"
)

type rpeer struct {
	si      *network.ServerIdentity
	routers []*network.Router
	counts  []*int32
	up      bool
	zombies int // connections this peer may have abandoned at S while stopping
}

type rworld struct {
	tcp   bool
	lm    *network.LocalManager
	S     *network.Router
	peers []*rpeer
	sched *lib.Sched

	mu         sync.Mutex
	calls      [][]int // [handler][peer]
	disp       int32
	armed      int
	blockedOn  int // peer whose connection loop sits in the blocking handler (-1 none)
	blockedHit chan struct{}
	release    chan struct{}
	finished   bool
	closed     bool

	heldGate *lib.Gate
	heldDone chan error
	heldPeer int
	heldMsgs int

	sentIDs   map[int]bool // identifiers handed to some Send
	seenIDs   map[int]bool // identifiers that arrived somewhere
	corrupt   int          // arrivals with an identifier nobody sent, or a second arrival of one
	connInc   map[network.Conn]int
	heldConn  network.Conn
	busy      int // error handlers that are running and not (yet) parked in the blocking gate
	hsend     int
	ncalls    int
	abandoned bool
	reent     chan reentReq
	done      chan struct{}
}

var realPort = 4000

func (w *rworld) newRouter(si *network.ServerIdentity, first bool) (*network.Router, error) {
	var h network.Host
	if w.tcp {
		th, err := network.NewTCPHost(si, suite)
		if err != nil {
			return nil, err
		}
		if first {
			si.Address = network.NewTCPAddress("127.0.0.1:" + th.Address().Port())
		}
		h = th
	} else {
		lh, err := network.NewLocalHostWithManager(w.lm, si.Address, suite)
		if err != nil {
			return nil, err
		}
		h = lh
	}
	r := network.NewRouter(si, h)
	r.UnauthOk = true
	r.Quiet = true
	return r, nil
}

func (w *rworld) markSent(ids ...int) {
	w.mu.Lock()
	for _, id := range ids {
		w.sentIDs[id] = true
	}
	w.mu.Unlock()
}

// arrived keeps 'arrived' apart from 'arrived intact and once'
func (w *rworld) arrived(env *network.Envelope) {
	m, ok := env.Msg.(*TMsg)
	w.mu.Lock()
	if !ok || !w.sentIDs[m.ID] || w.seenIDs[m.ID] {
		w.corrupt++
	} else {
		w.seenIDs[m.ID] = true
	}
	w.mu.Unlock()
}

func (w *rworld) newIdentity(k int) *network.ServerIdentity {
	if w.tcp {
		return network.NewServerIdentity(kp(k).Public, network.NewTCPAddress("127.0.0.1:0"))
	}
	realPort++
	return network.NewServerIdentity(kp(k).Public, network.NewLocalAddress(fmt.Sprintf("127.0.0.1:%d", realPort)))
}

func (w *rworld) startPeer(p *rpeer, first bool) error {
	r, err := w.newRouter(p.si, first)
	if err != nil {
		return err
	}
	cnt := new(int32)
	r.RegisterProcessorFunc(tmsgType, func(env *network.Envelope) error {
		w.arrived(env)
		if m, ok := env.Msg.(*TMsg); ok && m.ID >= 1000000 {
			return nil // sent by a re-entrant handler: its arrival is not synchronised with the operations
		}
		atomic.AddInt32(cnt, 1)
		return nil
	})
	go r.Start()
	if !waitUntil(r.Listening, 5*time.Second) {
		return fmt.Errorf("peer does not listen")
	}
	p.routers = append(p.routers, r)
	p.counts = append(p.counts, cnt)
	p.up = true
	return nil
}

func newRworld(tcp bool, np, nh, hsend int) (*rworld, error) {
	w := &rworld{tcp: tcp, hsend: hsend, sentIDs: map[int]bool{}, seenIDs: map[int]bool{}, connInc: map[network.Conn]int{}, reent: make(chan reentReq), done: make(chan struct{}), armed: -1, blockedOn: -1, blockedHit: make(chan struct{}, 4), release: make(chan struct{})}
	if !tcp {
		w.lm = network.NewLocalManager()
	}
	si := w.newIdentity(0)
	S, err := w.newRouter(si, true)
	if err != nil {
		return nil, err
	}
	w.S = S
	w.calls = make([][]int, nh)
	for h := 0; h < nh; h++ {
		h := h
		w.calls[h] = make([]int, np)
		S.AddErrorHandler(func(si *network.ServerIdentity) { w.onHandler(h, si) })
	}
	S.RegisterProcessorFunc(tmsgType, func(env *network.Envelope) error {
		w.arrived(env)
		atomic.AddInt32(&w.disp, 1)
		return nil
	})
	go func() {
		for {
			select {
			case rq := <-w.reent:
				w.S.Send(rq.si, &TMsg{ID: rq.id})
				close(rq.done)
			case <-w.done:
				return
			}
		}
	}()
	w.sched = lib.NewSched()
	network.SetVerifHook(w.sched.Hook)
	go S.Start()
	if !waitUntil(S.Listening, 5*time.Second) {
		return nil, fmt.Errorf("S does not listen")
	}
	for i := 0; i < np; i++ {
		p := &rpeer{si: w.newIdentity(i + 1)}
		if err := w.startPeer(p, true); err != nil {
			return nil, err
		}
		w.peers = append(w.peers, p)
	}
	return w, nil
}

func (w *rworld) peerIndex(si *network.ServerIdentity) int {
	for i, p := range w.peers {
		if p.si.GetID().Equal(si.GetID()) {
			return i
		}
	}
	return -1
}

func (w *rworld) onHandler(h int, si *network.ServerIdentity) {
	w.mu.Lock()
	if w.finished {
		w.mu.Unlock()
		return
	}
	p := w.peerIndex(si)
	if p >= 0 {
		w.calls[h][p]++
	}
	w.ncalls++
	ncalls := w.ncalls
	w.busy++
	block := w.armed == h
	var rel chan struct{}
	if block {
		w.armed = -1
		w.blockedOn = p
		rel = w.release
	}
	w.mu.Unlock()
	w.markSent(1000000 + ncalls)
	// the re-entrant part (it may dial the lost peer for a while) belongs to the handler call: the
	// scenario is not at rest before it is over
	reentrant(w.S, si, h, w.hsend, 1000000+ncalls, w.reent)
	w.mu.Lock()
	w.busy--
	w.mu.Unlock()
	if block {
		w.blockedHit <- struct{}{}
		<-rel
	}
}

// identitiesAtS counts the connections accepted by S whose identity message arrived.
func (w *rworld) identitiesAtS() int {
	n := 0
	for _, e := range w.sched.Trace() {
		if e.Point == "router.identityReceived" && len(e.Args) > 0 {
			if r, ok := e.Args[0].(*network.Router); ok && r == w.S {
				n++
			}
		}
	}
	return n
}

func (w *rworld) tabCount(p int) int {
	l, ok := connListBounded(w.S, w.peers[p].si.GetID())
	if !ok {
		return 1 << 20 // unknown: the router does not answer
	}
	return len(l)
}

const settleDeadline = 15 * time.Second

// settle waits until S has noticed every death: a peer that is down (or any peer once S is
// closed) has no registered connection left, except the one whose loop is blocked in a handler.
// tag remembers, for every connection registered at S, the incarnation of the peer it was made with
// (-1: the peer was already down when the connection appeared).
func (w *rworld) tag() {
	for _, pe := range w.peers {
		l, ok := connListBounded(w.S, pe.si.GetID())
		if !ok {
			return
		}
		w.mu.Lock()
		for _, c := range l {
			if _, seen := w.connInc[c]; !seen {
				if pe.up {
					w.connInc[c] = len(pe.routers)
				} else {
					w.connInc[c] = -1
				}
			}
		}
		w.mu.Unlock()
	}
}

// deadConns counts the registered connections of S with p whose far end is gone: made with an
// earlier incarnation, or the peer is down, or S itself is closed.
func (w *rworld) deadConns(p int) (int, bool) {
	pe := w.peers[p]
	l, ok := connListBounded(w.S, pe.si.GetID())
	if !ok {
		return 0, false
	}
	w.mu.Lock()
	defer w.mu.Unlock()
	n := 0
	for _, c := range l {
		inc, seen := w.connInc[c]
		if w.closed || !pe.up || (seen && inc != len(pe.routers)) {
			n++
		}
	}
	return n, true
}

// settle waits until S has noticed every death: no handler call is in progress, and no registered
// connection whose far end is gone is left, except the one whose loop is parked in the blocking
// handler. (Which connections are dead is known from the operations, not from timing.)
func (w *rworld) settle() bool {
	w.tag()
	ok := true
	for p, pe := range w.peers {
		p := p
		pe := pe
		last, lastChange := -1, time.Now()
		ok = waitUntil(func() bool {
			w.tag()
			w.mu.Lock()
			want := 0
			if w.blockedOn == p {
				want = 1
			}
			armed := w.armed
			busy := w.busy
			w.mu.Unlock()
			if busy > 0 {
				return false
			}
			dead, answered := w.deadConns(p)
			if !answered {
				return false
			}
			if armed >= 0 && dead > want {
				// a handler is armed: the first loop to arrive will park there and keep its entry
				return false
			}
			if dead > want {
				return false
			}
			if pe.zombies == 0 || pe.up {
				return true
			}
			// the last dial of a stopping peer reaches S on its own time: wait until the table of
			// that peer has not changed for a while
			n := w.tabCount(p)
			if n != last {
				last, lastChange = n, time.Now()
			}
			window := 250 * time.Millisecond
			if w.hsend > 0 {
				window = 900 * time.Millisecond
			}
			return time.Since(lastChange) > window
		}, settleDeadline) && ok
	}
	return ok
}

func (w *rworld) send(p int, ids []int) (int, bool) {
	w.markSent(ids...)
	done := make(chan error, 1)
	go func() {
		_, err := w.S.Send(w.peers[p].si, tmsgs(ids)...)
		done <- err
	}()
	select {
	case err := <-done:
		if err != nil {
			return 2, false
		}
		return 1, false
	case <-time.After(12 * time.Second):
		return 0, true
	}
}

func (w *rworld) waitDelivered(p int, before int32, k int) {
	pe := w.peers[p]
	if !pe.up {
		return
	}
	cnt := pe.counts[len(pe.counts)-1]
	waitUntil(func() bool { return atomic.LoadInt32(cnt) >= before+int32(k) }, 10*time.Second)
}

func (w *rworld) curCount(p int) int32 {
	pe := w.peers[p]
	return atomic.LoadInt32(pe.counts[len(pe.counts)-1])
}

func (w *rworld) exec(o *opj) (int, bool, bool) {
	switch o.K {
	case "send":
		before := w.curCount(o.P)
		r, to := w.send(o.P, o.M)
		if r == 1 {
			w.waitDelivered(o.P, before, len(o.M))
		}
		return r, false, to || !w.settle()
	case "sendhold":
		if w.heldGate != nil {
			return 0, true, false
		}
		S := w.S
		g := w.sched.Block("router.connected", 1, func(args []interface{}) bool {
			r, ok := args[0].(*network.Router)
			if ok && r == S && len(args) > 2 {
				if c, isConn := args[2].(network.Conn); isConn {
					w.mu.Lock()
					w.heldConn = c
					w.mu.Unlock()
				}
			}
			return ok && r == S
		})
		before := w.curCount(o.P)
		w.markSent(o.M...)
		peerConns := func() int {
			pe := w.peers[o.P]
			if !pe.up {
				return 0
			}
			l, _ := connListBounded(pe.routers[len(pe.routers)-1], w.S.ServerIdentity.GetID())
			return len(l)
		}
		peerBefore := peerConns()
		done := make(chan error, 1)
		go func() {
			_, err := w.S.Send(w.peers[o.P].si, tmsgs(o.M)...)
			done <- err
		}()
		deadline := time.Now().Add(12 * time.Second)
		for {
			select {
			case err := <-done:
				g.Release()
				r := 1
				if err != nil {
					r = 2
				} else {
					w.waitDelivered(o.P, before, len(o.M))
				}
				return r, false, !w.settle()
			default:
			}
			if g.WaitHit(200 * time.Microsecond) {
				w.heldGate, w.heldDone, w.heldPeer, w.heldMsgs = g, done, o.P, len(o.M)
				// the identity has been sent: the far end registers the connection while S is held. Wait
				// for that, so that a crash of the peer during the hold finds the connection in its table
				// (otherwise the peer's Stop does not know it yet and S's write after the resume is accepted)
				w.mu.Lock()
				if w.heldConn != nil {
					w.connInc[w.heldConn] = len(w.peers[o.P].routers) // made with the incarnation that is up now
				}
				w.mu.Unlock()
				ok := waitUntil(func() bool { return peerConns() > peerBefore }, 15*time.Second)
				return 0, false, !ok
			}
			if time.Now().After(deadline) {
				g.Release()
				return 0, false, true
			}
		}
	case "resume":
		if w.heldGate == nil {
			return 0, true, false
		}
		g, done := w.heldGate, w.heldDone
		w.heldGate, w.heldDone = nil, nil
		before := w.curCount(w.heldPeer)
		g.Release()
		select {
		case err := <-done:
			r := 1
			if err != nil {
				r = 2
			} else {
				w.waitDelivered(w.heldPeer, before, w.heldMsgs)
			}
			return r, false, !w.settle()
		case <-time.After(12 * time.Second):
			return 0, false, true
		}
	case "peersend":
		pe := w.peers[o.P]
		if !pe.up || (w.heldGate != nil && w.heldPeer == o.P) {
			// (while a Send to p is held before registerConnection, p's router would use that
			// half-registered connection and the message would wait for the launch)
			return 0, true, false
		}
		before := atomic.LoadInt32(&w.disp)
		w.markSent(o.M[0])
		pr := pe.routers[len(pe.routers)-1]
		done := make(chan error, 1)
		go func() {
			_, err := pr.Send(w.S.ServerIdentity, &TMsg{ID: o.M[0]})
			done <- err
		}()
		select {
		case <-done:
		case <-time.After(12 * time.Second):
			return 0, false, true
		}
		waitUntil(func() bool { return atomic.LoadInt32(&w.disp) > before }, 10*time.Second)
		return 0, false, !w.settle()
	case "crash":
		pe := w.peers[o.P]
		if pe.up {
			pr := pe.routers[len(pe.routers)-1]
			done := make(chan struct{})
			go func() { pr.Stop(); close(done) }()
			select {
			case <-done:
			case <-time.After(10 * time.Second):
				return 0, false, true
			}
			pe.up = false
		}
		return 0, false, !w.settle()
	case "crashsending":
		pe := w.peers[o.P]
		if !pe.up {
			return 0, true, false
		}
		pr := pe.routers[len(pe.routers)-1]
		g := w.sched.Block("router.closedSet", 1, func(args []interface{}) bool {
			r, ok := args[0].(*network.Router)
			return ok && r == pr
		})
		idBefore := w.identitiesAtS()
		stopped := make(chan struct{})
		go func() { pr.Stop(); close(stopped) }()
		if !g.WaitHit(10 * time.Second) {
			g.Release()
			return 0, false, true
		}
		// the router is closed (flag set, connections closed); one of its goroutines still sends
		sent := make(chan struct{})
		w.markSent(2000000 + len(pe.routers))
		go func() { pr.Send(w.S.ServerIdentity, &TMsg{ID: 2000000 + len(pe.routers)}); close(sent) }()
		select {
		case <-sent:
		case <-time.After(10 * time.Second):
		}
		g.Release()
		select {
		case <-stopped:
		case <-time.After(10 * time.Second):
			return 0, false, true
		}
		pe.up = false
		pe.zombies++
		ok := w.settle()
		// did the identity of that last dial reach S before the connection went away? (with the
		// repaired router the stopping peer closes the connection at once: both orders happen)
		o.Seen = w.identitiesAtS() > idBefore
		return 0, false, !ok
	case "stopold":
		// Stop is called once more on an incarnation of p that has been stopped already
		pe := w.peers[o.P]
		n := len(pe.routers)
		if pe.up {
			n--
		}
		if n == 0 {
			return 0, true, false
		}
		old := pe.routers[n-1]
		if !boundedDo(10*time.Second, func() { old.Stop() }) {
			return 0, false, true
		}
		return 0, false, !w.settle()
	case "restart":
		pe := w.peers[o.P]
		if pe.up {
			return 0, true, false
		}
		if err := w.startPeer(pe, false); err != nil {
			return 0, false, true
		}
		return 0, false, false
	case "hold":
		w.mu.Lock()
		defer w.mu.Unlock()
		if w.armed >= 0 || w.blockedOn >= 0 {
			return 0, true, false
		}
		w.armed = o.H
		return 0, false, false
	case "release":
		w.mu.Lock()
		b := w.blockedOn
		w.armed, w.blockedOn = -1, -1
		rel := w.release
		w.release = make(chan struct{})
		w.mu.Unlock()
		ok := true
		if b >= 0 {
			// the blocked loop goes on: remaining handlers, Close, removeConnection
			n0 := w.tabCount(b)
			close(rel)
			ok = waitUntil(func() bool { return w.tabCount(b) < n0 }, settleDeadline)
		} else {
			close(rel)
		}
		return 0, false, !w.settle() || !ok
	case "close":
		if w.closed {
			return 0, true, false
		}
		w.closed = true
		done := make(chan struct{})
		go func() { w.S.Stop(); close(done) }()
		// Stop waits for every receive loop, also for one blocked in a handler
		select {
		case <-done:
		case <-time.After(300 * time.Millisecond):
		}
		return 0, false, !w.settle()
	}
	return 0, true, false
}

func (w *rworld) snapshot(res int, skip, timeout bool) (string, map[string]interface{}) {
	np := len(w.peers)
	tab := make([]int, np)
	deliv := make([]string, np)
	delivH := make([][]int, np)
	got := make(chan struct{})
	go func() {
		defer close(got)
		for p := range w.peers {
			if n := w.tabCount(p); n < 1<<20 {
				tab[p] = n
			}
		}
	}()
	select {
	case <-got:
	case <-time.After(5 * time.Second):
		timeout = true
	}
	for p, pe := range w.peers {
		var d []int
		for _, c := range pe.counts {
			d = append(d, int(atomic.LoadInt32(c)))
		}
		deliv[p] = lib.NatList(d)
		delivH[p] = d
	}
	w.mu.Lock()
	calls := make([]string, len(w.calls))
	callsH := make([][]int, len(w.calls))
	for h := range w.calls {
		callsH[h] = append([]int(nil), w.calls[h]...)
		calls[h] = lib.NatList(w.calls[h])
	}
	w.mu.Unlock()
	r := "None"
	if res == 1 {
		r = "(Some true)"
	} else if res == 2 {
		r = "(Some false)"
	}
	disp := int(atomic.LoadInt32(&w.disp))
	w.mu.Lock()
	corrupt := w.corrupt
	w.mu.Unlock()
	coq := fmt.Sprintf("mkCSnap %s %s %s %s %s %s %d %d", r, lib.Bool(skip), lib.Bool(timeout), lib.NatList(tab),
		lib.List(calls), lib.List(deliv), disp, corrupt)
	return coq, map[string]interface{}{"res": res, "skip": skip, "timeout": timeout, "table": tab, "calls": callsH,
		"delivered": delivH, "dispatched": disp, "arrived_with_unknown_or_repeated_id": corrupt}
}

func (w *rworld) cleanup() {
	close(w.done)
	if w.abandoned {
		w.mu.Lock()
		w.finished = true
		w.mu.Unlock()
		w.sched.ReleaseAll()
		network.SetVerifHook(func(string, ...interface{}) {})
		return
	}
	w.mu.Lock()
	w.finished = true
	rel := w.release
	w.release = make(chan struct{})
	w.mu.Unlock()
	close(rel)
	w.sched.ReleaseAll()
	var wg sync.WaitGroup
	stop := func(r *network.Router) {
		wg.Add(1)
		go func() { defer wg.Done(); r.Stop() }()
	}
	if !w.closed {
		stop(w.S)
	}
	for _, pe := range w.peers {
		if pe.up {
			stop(pe.routers[len(pe.routers)-1])
		}
	}
	done := make(chan struct{})
	go func() { wg.Wait(); close(done) }()
	select {
	case <-done:
	case <-time.After(5 * time.Second):
	}
	network.SetVerifHook(func(string, ...interface{}) {})
}

func runReal(in input) lib.Case {
	if wedgedKinds["real"] >= 3 {
		return lib.Case{Discard: true}
	}
	w, err := newRworld(in.TCP, in.NP, in.NH, in.HSend)
	if err != nil {
		if w != nil {
			w.cleanup()
		}
		return lib.Case{Discard: true}
	}
	defer w.cleanup()
	var ops, snaps []string
	var hobs []map[string]interface{}
	sends := 0
	for i := range in.Ops {
		o := &in.Ops[i]
		res, skip, to := w.exec(o)
		if isWedged(w.S) {
			to = true
		}
		s, h := w.snapshot(res, skip, to)
		ops = append(ops, o.coq())
		snaps = append(snaps, s)
		h["op"] = o.coq()
		hobs = append(hobs, h)
		if res > 0 {
			sends++
		}
		if to {
			w.abandoned = true
			wedgedKinds["real"]++
			break
		}
	}
	coq := fmt.Sprintf("CReal %s %s %d %d %s %s", lib.Bool(in.TCP), lib.Bool(in.HSend > 0), in.NP, in.NH, lib.List(ops), lib.List(snaps))
	cl := "real-mem"
	if in.TCP {
		cl = "real-tcp"
	}
	kinds := map[string]bool{}
	for _, o := range in.Ops {
		kinds[o.K] = true
	}
	if kinds["sendhold"] {
		cl += "-setup"
	}
	if kinds["hold"] {
		cl += "-handlerhold"
	}
	if kinds["close"] {
		cl += "-close"
	}
	if kinds["crashsending"] {
		cl += "-closingsend"
	}
	if in.HSend > 0 {
		cl += "-handlersends"
	}
	if in.Label != "" {
		cl += ":" + in.Label
	}
	if len(hobs) > 12 {
		hobs = hobs[len(hobs)-12:]
	}
	return lib.Case{Coq: coq, Class: cl, Obs: map[string]interface{}{"sends": sends, "last_ops": hobs}, Nontrivial: sends > 0}
}
