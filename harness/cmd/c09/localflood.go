package main

// In-memory transport under back-pressure: the victim's dispatcher is busy with one message
// while the survivor keeps sending, so the victim-side queues of the connection fill
// (network/local.go: incomingQueue and outgoingQueue of LocalMaxBuffer = 200 packets each, one
// packet in the hand of the forwarding goroutine). Then the victim is stopped. Observed, each
// under its own deadline: whether Stop got through closing its connections, whether every Send
// of the survivor returned, whether a later Send towards the stopped peer returns, and whether
// the survivor can still talk to a third router of the same LocalManager.

import (
	"fmt"
	"sync/atomic"
	"time"

	"go.dedis.ch/onet/v3/network"

	"verifharness/lib"
)

func boundedDo(d time.Duration, f func()) bool {
	done := make(chan struct{})
	go func() { f(); close(done) }()
	select {
	case <-done:
		return true
	case <-time.After(d):
		return false
	}
}

func runLocalFlood(in input) lib.Case {
	if wedgedKinds["localflood"] >= 3 {
		return lib.Case{Discard: true}
	}
	k := in.NP // number of messages sent towards the victim before it is stopped
	w := &rworld{tcp: false, armed: -1, blockedOn: -1, blockedHit: make(chan struct{}, 4),
		release: make(chan struct{}), reent: make(chan reentReq), done: make(chan struct{})}
	w.lm = network.NewLocalManager()
	mk := func(i int) *network.Router {
		r, err := w.newRouter(w.newIdentity(i), true)
		if err != nil {
			return nil
		}
		return r
	}
	S, V, C := mk(0), mk(1), mk(2)
	if S == nil || V == nil || C == nil {
		return lib.Case{Discard: true}
	}
	sched := lib.NewSched()
	network.SetVerifHook(sched.Hook)
	defer network.SetVerifHook(func(string, ...interface{}) {})
	entered := make(chan struct{}, 1)
	gate := make(chan struct{})
	var first int32
	V.RegisterProcessorFunc(tmsgType, func(env *network.Envelope) error {
		if atomic.AddInt32(&first, 1) == 1 {
			entered <- struct{}{}
			<-gate // the victim's dispatcher is busy with this message
		}
		return nil
	})
	var canary int32
	C.RegisterProcessorFunc(tmsgType, func(env *network.Envelope) error {
		atomic.AddInt32(&canary, 1)
		return nil
	})
	for _, r := range []*network.Router{S, V, C} {
		go r.Start()
	}
	if !waitUntil(func() bool { return S.Listening() && V.Listening() && C.Listening() }, 5*time.Second) {
		return lib.Case{Discard: true}
	}
	var err0 error
	if !boundedDo(10*time.Second, func() { _, err0 = S.Send(V.ServerIdentity, &TMsg{ID: 0}) }) {
		wedgedKinds["localflood"]++
		return cutCase("localflood", "first Send to the live victim did not return", true, nil)
	}
	if err0 != nil {
		return cutCase("localflood", "first Send to the live victim failed", false, err0.Error())
	}
	select {
	case <-entered:
	case <-time.After(10 * time.Second):
		return cutCase("localflood", "first message did not reach the live victim's processor", false, nil)
	}
	// the flood: k-1 more messages; a Send that finds the queues full waits
	var sent int32
	floodDone := make(chan struct{})
	go func() {
		for i := 1; i < k; i++ {
			if _, err := S.Send(V.ServerIdentity, &TMsg{ID: i}); err != nil {
				break // the peer is gone: the Send returned, which is all that matters here
			}
			atomic.AddInt32(&sent, 1)
		}
		close(floodDone)
	}()
	select {
	case <-floodDone:
	case <-time.After(1500 * time.Millisecond):
	}
	// wait until the victim-side connection is in its resting state: the forwarding goroutine has
	// moved everything it can (outgoing queue full or incoming queue empty). Observed through the
	// queue lengths of that connection; the state is reached on any implementation that forwards,
	// so running into the deadline is itself reported below (the case is then evaluated as it is).
	rest := func() bool {
		l, ok := connListBounded(V, S.ServerIdentity.GetID())
		if !ok || len(l) == 0 {
			return false
		}
		in, out := network.VerifLocalQueues(l[0])
		want := k - 1
		if want > 2*network.LocalMaxBuffer+1 {
			want = 2*network.LocalMaxBuffer + 1
		}
		switch {
		case want <= network.LocalMaxBuffer:
			return in == 0 && out == want
		default:
			return out == network.LocalMaxBuffer && in == want-network.LocalMaxBuffer-1
		}
	}
	rested := waitUntil(rest, 10*time.Second)
	absorbed := atomic.LoadInt32(&sent) + 1
	// stop the victim; router.closedSet is reached when Stop has closed all its connections
	VR := V
	g := sched.Block("router.closedSet", 1, func(args []interface{}) bool {
		r, ok := args[0].(*network.Router)
		return ok && r == VR
	})
	stopped := make(chan struct{})
	go func() { V.Stop(); close(stopped) }()
	closedReached := g.WaitHit(6 * time.Second)
	g.Release()
	// while the victim's dispatcher is still busy: can the survivor go on?
	postReturned := boundedDo(6*time.Second, func() { S.Send(V.ServerIdentity, &TMsg{ID: k + 1}) })
	canaryOK := boundedDo(6*time.Second, func() { S.Send(C.ServerIdentity, &TMsg{ID: k + 2}) }) &&
		waitUntil(func() bool { return atomic.LoadInt32(&canary) == 1 }, 6*time.Second)
	sendsReturned := false
	select {
	case <-floodDone:
		sendsReturned = true
	case <-time.After(4 * time.Second):
	}
	close(gate) // the busy dispatcher returns
	stopReturned := false
	if closedReached {
		select {
		case <-stopped:
			stopReturned = true
		case <-time.After(8 * time.Second):
		}
	}
	clean := closedReached && stopReturned && sendsReturned && postReturned && canaryOK
	if clean {
		boundedDo(3*time.Second, func() { S.Stop() })
		boundedDo(3*time.Second, func() { C.Stop() })
	} else {
		wedgedKinds["localflood"]++ // the manager is wedged: leave everything behind
	}
	cl := "localflood"
	switch {
	case k >= 403:
		cl += "-inputfull"
	case k >= 202:
		cl += "-forwarderfull"
	default:
		cl += "-room"
	}
	coq := fmt.Sprintf("CLocalFlood %d %s %s %s %s %s", k, lib.Bool(closedReached), lib.Bool(stopReturned), lib.Bool(sendsReturned),
		lib.Bool(postReturned), lib.Bool(canaryOK))
	return lib.Case{Coq: coq, Class: cl, Nontrivial: k >= 202,
		Obs: map[string]interface{}{"messages_sent_before_stop": k, "sends_that_returned_before_stop": absorbed,
			"victim_side_queues_at_rest": rested, "stop_closed_its_connections": closedReached, "stop_returned": stopReturned, "all_sends_returned": sendsReturned,
			"send_to_stopped_peer_returned": postReturned, "send_to_third_router_delivered": canaryOK}}
}
