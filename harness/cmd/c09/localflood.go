package main

// In-memory transport under back-pressure: the victim's dispatcher is busy with one message
// while the survivor keeps sending, so the victim-side queues of the connection fill
// (network/local.go: incomingQueue and outgoingQueue of LocalMaxBuffer = 200 packets each, one
// packet in the hand of the forwarding goroutine). Then the victim is stopped. Observed, each
// under its own deadline: whether Stop got through closing its connections, whether every Send
// of the survivor returned, whether a later Send towards the stopped peer returns, and whether
// the survivor can still talk to a third router of the same LocalManager.

import (
	"fmt"
	"sync/atomic"
	"time"

	"go.dedis.ch/onet/v3/network"

	"verifharness/lib"
)

func boundedDo(d time.Duration, f func()) bool {
	done := make(chan struct{})
	go func() { f(); close(done) }()
	select {
	case <-done:
		return true
	case <-time.After(d):
		return false
	}
}

func runLocalFlood(in input) lib.Case {
	if wedgedKinds["localflood"] >= 3 {
		return lib.Case{Discard: true}
	}
	k := in.NP // number of messages sent towards the victim before it is stopped
	w := &rworld{tcp: false, armed: -1, blockedOn: -1, blockedHit: make(chan struct{}, 4),
		release: make(chan struct{}), reent: make(chan reentReq), done: make(chan struct{})}
	w.lm = network.NewLocalManager()
	mk := func(i int) *network.Router {
		r, err := w.newRouter(w.newIdentity(i), true)
		if err != nil {
			return nil
		}
		return r
	}
	S, V, C := mk(0), mk(1), mk(2)
	if S == nil || V == nil || C == nil {
		return lib.Case{Discard: true}
	}
	sched := lib.NewSched()
	network.SetVerifHook(sched.Hook)
	defer network.SetVerifHook(func(string, ...interface{}) {})
	entered := make(chan struct{}, 1)
	gate := make(chan struct{})
	var first int32
	V.RegisterProcessorFunc(tmsgType, func(env *network.Envelope) error {
		if atomic.AddInt32(&first, 1) == 1 {
			entered <- struct{}{}
			<-gate // the victim's dispatcher is busy with this message
		}
		return nil
	})
	var canary int32
	C.RegisterProcessorFunc(tmsgType, func(env *network.Envelope) error {
		atomic.AddInt32(&canary, 1)
		return nil
	})
	for _, r := range []*network.Router{S, V, C} {
		go r.Start()
	}
	if !waitUntil(func() bool { return S.Listening() && V.Listening() && C.Listening() }, 5*time.Second) {
		return lib.Case{Discard: true}
	}
	if _, err := S.Send(V.ServerIdentity, &TMsg{ID: 0}); err != nil {
		return lib.Case{Discard: true}
	}
	select {
	case <-entered:
	case <-time.After(5 * time.Second):
		return lib.Case{Discard: true}
	}
	// the flood: k-1 more messages; a Send that finds the queues full waits
	var sent int32
	floodDone := make(chan struct{})
	go func() {
		for i := 1; i < k; i++ {
			if _, err := S.Send(V.ServerIdentity, &TMsg{ID: i}); err != nil {
				break // the peer is gone: the Send returned, which is all that matters here
			}
			atomic.AddInt32(&sent, 1)
		}
		close(floodDone)
	}()
	select {
	case <-floodDone:
	case <-time.After(1500 * time.Millisecond):
	}
	// the forwarding goroutine of the victim-side connection moves the packets on its own time; there
	// is no schedule point in local.go to wait on, so give it room to reach its resting state
	// (all queues as full as they get) before the victim is stopped
	time.Sleep(400 * time.Millisecond)
	absorbed := atomic.LoadInt32(&sent) + 1
	// stop the victim; router.closedSet is reached when Stop has closed all its connections
	VR := V
	g := sched.Block("router.closedSet", 1, func(args []interface{}) bool {
		r, ok := args[0].(*network.Router)
		return ok && r == VR
	})
	stopped := make(chan struct{})
	go func() { V.Stop(); close(stopped) }()
	closedReached := g.WaitHit(2500 * time.Millisecond)
	g.Release()
	// while the victim's dispatcher is still busy: can the survivor go on?
	postReturned := boundedDo(2*time.Second, func() { S.Send(V.ServerIdentity, &TMsg{ID: k + 1}) })
	canaryOK := boundedDo(2*time.Second, func() { S.Send(C.ServerIdentity, &TMsg{ID: k + 2}) }) &&
		waitUntil(func() bool { return atomic.LoadInt32(&canary) == 1 }, 3*time.Second)
	sendsReturned := false
	select {
	case <-floodDone:
		sendsReturned = true
	case <-time.After(1 * time.Second):
	}
	close(gate) // the busy dispatcher returns
	stopReturned := false
	if closedReached {
		select {
		case <-stopped:
			stopReturned = true
		case <-time.After(3 * time.Second):
		}
	}
	clean := closedReached && stopReturned && sendsReturned && postReturned && canaryOK
	if clean {
		boundedDo(3*time.Second, func() { S.Stop() })
		boundedDo(3*time.Second, func() { C.Stop() })
	} else {
		wedgedKinds["localflood"]++ // the manager is wedged: leave everything behind
	}
	cl := "localflood"
	switch {
	case k >= 403:
		cl += "-inputfull"
	case k >= 202:
		cl += "-forwarderfull"
	default:
		cl += "-room"
	}
	coq := fmt.Sprintf("CLocalFlood %d %s %s %s %s %s", k, lib.Bool(closedReached), lib.Bool(stopReturned), lib.Bool(sendsReturned),
		lib.Bool(postReturned), lib.Bool(canaryOK))
	return lib.Case{Coq: coq, Class: cl, Nontrivial: k >= 202,
		Obs: map[string]interface{}{"messages_sent_before_stop": k, "sends_that_returned_before_stop": absorbed,
			"stop_closed_its_connections": closedReached, "stop_returned": stopReturned, "all_sends_returned": sendsReturned,
			"send_to_stopped_peer_returned": postReturned, "send_to_third_router_delivered": canaryOK}}
}
