// C09 harness: peer failures are contained, reported to senders, and recoverable.
//
//	script   the real Router over a scripted Host (script.go): exact snapshots
//	real     routers on the in-memory and TCP transports, peers stopped / restarted (real.go)
//	classify real error values through handleError and handleConn (classify.go)
//	entry    every send entry point of onet servers with destinations down (onetlevel.go)
//	cluster  protocol runs with a victim killed at a schedule point, canaries, restart;
//	         executed in a sub-process so that a crash of the servers is an observation
package main

import (
	"encoding/json"
	"fmt"
	"math/rand"
	"os"
	"strings"

	"go.dedis.ch/kyber/v3/suites"
	"go.dedis.ch/onet/v3/log"

	"verifharness/lib"
)

var suite = suites.MustFind("Ed25519")

type input struct {
	Kind  string `json:"kind"`
	Label string `json:"label,omitempty"`
	TCP   bool   `json:"tcp,omitempty"`
	NP    int    `json:"np,omitempty"`
	NH    int    `json:"nh,omitempty"`
	Ops   []opj  `json:"ops,omitempty"`
	HSend int    `json:"hsend,omitempty"` // 1: error handler 0 sends to the lost peer; 2: through a goroutine
	// classify
	Err  string `json:"err,omitempty"`
	Feat []bool `json:"feat,omitempty"`
	Lost bool   `json:"lost,omitempty"`
	// entry
	Entry string `json:"entry,omitempty"`
	Self  int    `json:"self,omitempty"`
	Down  []int  `json:"down,omitempty"`
	Dests []int  `json:"dests,omitempty"`
	Warm  bool   `json:"warm,omitempty"`
	// cluster
	Servers int    `json:"servers,omitempty"`
	Victim  int    `json:"victim,omitempty"`
	Moment  string `json:"moment,omitempty"`
	BF      int    `json:"bf,omitempty"`
}

func run(raw json.RawMessage) (c lib.Case) {
	var in input
	if err := json.Unmarshal(raw, &in); err != nil {
		panic(err)
	}
	switch in.Kind {
	case "script":
		return runScript(in)
	case "real":
		return runReal(in)
	case "classify":
		return runClassify(in)
	case "entry":
		return runEntry(in)
	case "config":
		return runConfig(in)
	case "localflood":
		return runLocalFlood(in)
	case "mute":
		return runMute(in)
	case "cluster":
		return runClusterParent(in, raw)
	}
	panic("unknown kind " + in.Kind)
}

// cutCase reports a scenario that could not be carried to its end because a step that involves
// only LIVE servers failed or did not happen within its deadline. Such a step is an observation
// (a send to a live peer failed / was not delivered: clause 4; something did not return: clause 5),
// never a reason to drop the input.
func cutCase(class, what string, blocked bool, obs interface{}) lib.Case {
	coq := "CCluster 1 1 true true true true false" // clause 4
	if blocked {
		coq = "CCluster 1 0 true true true true true" // clause 5
	}
	return lib.Case{Coq: coq, Class: class + "+cut", Nontrivial: true,
		Obs: map[string]interface{}{"scenario_cut_at": what, "observed": obs}}
}

// ---- generators ---------------------------------------------------------------

var fatalClasses = []string{"ETimeout", "EClosed", "EEOF", "EUnknown", "ETooBig"}
var otherClasses = []string{"ECanceled", "EOther"}

// genOps draws a mostly-valid operation sequence; a small abstract state (who is up,
// whether a send is held, whether the router is closed) keeps most operations applicable,
// the rest are skipped identically by implementation and model.
func genOps(rng *rand.Rand, np, nh, n int, scripted, tcp bool) []opj {
	var ops []opj
	up := make([]bool, np)
	for i := range up {
		up[i] = true
	}
	held, holding, closed := false, false, false
	heldPeer := -1
	conns := 0
	next := 100
	msgs := func() []int {
		k := 1 + rng.Intn(3)
		out := make([]int, k)
		for i := range out {
			out[i] = next
			next++
		}
		return out
	}
	for len(ops) < n {
		p := rng.Intn(np)
		buf := tcp && scripted && rng.Intn(4) == 0
		x := rng.Intn(100)
		if closed {
			// after the router was closed only sends (and scripted receive events) follow
			if scripted && x < 40 {
				ops = append(ops, opj{K: "recverr", C: rng.Intn(conns + 1), E: fatalClasses[rng.Intn(len(fatalClasses))]})
			} else {
				ops = append(ops, opj{K: "send", P: p, M: msgs(), Buf: buf})
			}
			continue
		}
		switch {
		case x < 30:
			ops = append(ops, opj{K: "send", P: p, M: msgs(), Buf: buf})
			conns++
		case x < 40:
			if !scripted && up[p] && rng.Intn(4) == 0 {
				ops = append(ops, opj{K: "crashsending", P: p})
			} else if scripted && !up[p] && rng.Intn(3) == 0 {
				ops = append(ops, opj{K: "abandoneddial", P: p, Closes: rng.Intn(2) == 0})
				conns++
			} else {
				ops = append(ops, opj{K: "crash", P: p})
			}
			up[p] = false
		case x < 52:
			// prefer restarting somebody who is down
			for q := 0; q < np; q++ {
				if !up[(p+q)%np] {
					p = (p + q) % np
					break
				}
			}
			ops = append(ops, opj{K: "restart", P: p})
			up[p] = true
			if !scripted && rng.Intn(2) == 0 {
				ops = append(ops, opj{K: "stopold", P: p})
			}
		case x < 70:
			if scripted {
				e := fatalClasses[rng.Intn(len(fatalClasses))]
				if rng.Intn(5) == 0 {
					e = otherClasses[rng.Intn(2)]
				}
				ops = append(ops, opj{K: "recverr", C: rng.Intn(conns + 1), E: e})
			} else if up[p] && p != heldPeer {
				ops = append(ops, opj{K: "peersend", P: p, M: []int{next}})
				next++
				conns++
			}
		case x < 78:
			if scripted {
				if rng.Intn(5) == 0 {
					ops = append(ops, opj{K: "incomingfail", P: p})
				} else {
					ops = append(ops, opj{K: "incoming", P: p})
				}
				conns++
			} else if up[p] && p != heldPeer {
				ops = append(ops, opj{K: "peersend", P: p, M: []int{next}})
				next++
				conns++
			}
		case x < 82:
			if scripted {
				ops = append(ops, opj{K: "recvmsg", C: rng.Intn(conns + 1), M: []int{next}})
				next++
			}
		case x < 87:
			if nh > 0 && !holding {
				ops = append(ops, opj{K: "hold", H: rng.Intn(nh)})
				holding = true
			}
		case x < 91:
			if holding {
				ops = append(ops, opj{K: "release"})
				holding = false
			}
		case x < 95:
			if !held {
				ops = append(ops, opj{K: "sendhold", P: p, M: msgs(), Buf: buf})
				held = true
				heldPeer = p
				conns++
			}
		case x < 99:
			if held {
				ops = append(ops, opj{K: "resume", Buf: buf})
				held = false
				heldPeer = -1
			}
		default:
			if len(ops) > n*2/3 {
				ops = append(ops, opj{K: "close"})
				closed = true
			}
		}
	}
	if held {
		ops = append(ops, opj{K: "resume"})
	}
	if holding {
		ops = append(ops, opj{K: "release"})
	}
	return ops
}

func generate(rng *rand.Rand, tier string) []interface{} {
	nScript, nReal, nCls := 500, 10, 40
	if tier != "quick" {
		nScript, nReal, nCls = 3000, 120, 400
	}
	var ins []interface{}
	for i := 0; i < nScript; i++ {
		np, nh := 1+rng.Intn(3), rng.Intn(4)
		tcp := rng.Intn(2) == 0
		hs := 0
		if nh > 0 && i%3 == 0 {
			hs = 1 + rng.Intn(2)
		}
		ins = append(ins, input{Kind: "script", TCP: tcp, NP: np, NH: nh, HSend: hs,
			Ops: genOps(rng, np, nh, 8+rng.Intn(30), true, tcp)})
	}
	for i := 0; i < nCls; i++ {
		f := make([]bool, 6)
		for k := range f {
			f[k] = rng.Intn(3) == 0
		}
		if !f[4] {
			f[5] = false // Timeout() exists on net.Error only
		}
		ins = append(ins, input{Kind: "classify", Err: "synthetic", Feat: f, NH: rng.Intn(3)})
	}
	for i := 0; i < nReal; i++ {
		np, nh := 2+rng.Intn(2), 1+rng.Intn(2)
		tcp := i%2 == 1
		n := 8 + rng.Intn(10)
		if !tcp {
			n = 6 + rng.Intn(6) // a failed dial costs 0.5 s of retries on the in-memory transport
		}
		ins = append(ins, input{Kind: "real", TCP: tcp, NP: np, NH: nh, HSend: (i / 2) % 3, Ops: genOps(rng, np, nh, n, false, tcp)})
	}
	nFlood := 0 // the corpus already holds one case of each class
	if tier != "quick" {
		nFlood = 12
	}
	for i := 0; i < nFlood; i++ {
		k := []int{20 + rng.Intn(170), 230 + rng.Intn(150), 430 + rng.Intn(70)}[rng.Intn(3)]
		ins = append(ins, input{Kind: "localflood", NP: k})
	}
	ins = append(ins, genEntry(rng, tier)...)
	ins = append(ins, genCluster(rng, tier)...)
	return filterKinds(ins)
}

// C09_KINDS=script,real,... restricts the kinds that run (development aid)
func filterKinds(ins []interface{}) []interface{} {
	want := os.Getenv("C09_KINDS")
	if want == "" {
		return ins
	}
	var out []interface{}
	for _, x := range ins {
		if in, ok := x.(input); ok && strings.Contains(want, in.Kind) {
			out = append(out, x)
		}
	}
	return out
}

func corpus() []interface{} {
	var ins []interface{}
	// F10: the service-facing raw send towards a server that was closed
	ins = append(ins, corpusEntry()...)
	// refutation witnesses / regression histories of the router model
	ins = append(ins,
		// the reconnect of a multi-message Send: every message after a failed one goes to the dead
		// connection again and opens one more connection
		input{Kind: "script", Label: "shadowed-reconnect", TCP: false, NP: 1, NH: 1, Ops: []opj{
			{K: "send", P: 0, M: []int{1}}, {K: "crash", P: 0}, {K: "restart", P: 0},
			{K: "send", P: 0, M: []int{2, 3, 4}}, {K: "recverr", C: 0, E: "EClosed"}, {K: "send", P: 0, M: []int{5}}}},
		// stale entry first in the slice while its handler is still being called
		input{Kind: "script", Label: "stale-while-notifying", TCP: true, NP: 2, NH: 2, Ops: []opj{
			{K: "send", P: 1, M: []int{1}}, {K: "incoming", P: 1}, {K: "crash", P: 1}, {K: "hold", H: 0},
			{K: "recverr", C: 0, E: "EEOF"}, {K: "send", P: 1, M: []int{2}, Buf: true}, {K: "send", P: 1, M: []int{3}},
			{K: "restart", P: 1}, {K: "send", P: 1, M: []int{4}}, {K: "release"}, {K: "recverr", C: 1, E: "EUnknown"},
			{K: "send", P: 1, M: []int{5, 6}}, {K: "send", P: 0, M: []int{7}}}},
		// peer dies between the identity send and registerConnection
		input{Kind: "script", Label: "crash-during-setup", TCP: false, NP: 1, NH: 1, Ops: []opj{
			{K: "sendhold", P: 0, M: []int{1, 2}}, {K: "crash", P: 0}, {K: "resume"}, {K: "recverr", C: 0, E: "EClosed"},
			{K: "restart", P: 0}, {K: "send", P: 0, M: []int{3}}}},
		// swap-remove order: three connections, the first one goes
		input{Kind: "script", Label: "swap-remove", TCP: false, NP: 1, NH: 0, Ops: []opj{
			{K: "send", P: 0, M: []int{1}}, {K: "incoming", P: 0}, {K: "incoming", P: 0}, {K: "recverr", C: 0, E: "ETimeout"},
			{K: "send", P: 0, M: []int{2}}, {K: "recverr", C: 2, E: "EOther"}, {K: "recverr", C: 2, E: "ECanceled"},
			{K: "recverr", C: 2, E: "EUnknown"}, {K: "send", P: 0, M: []int{3}}}},
		input{Kind: "script", Label: "close-then-traffic", TCP: true, NP: 2, NH: 1, Ops: []opj{
			{K: "send", P: 0, M: []int{1}}, {K: "incoming", P: 1}, {K: "sendhold", P: 1, M: []int{2}}, {K: "close"},
			{K: "resume"}, {K: "recvmsg", C: 0, M: []int{3}}, {K: "recverr", C: 1, E: "EClosed"}, {K: "send", P: 0, M: []int{4}}}},
		input{Kind: "real", Label: "kill-restart", TCP: false, NP: 2, NH: 2, Ops: []opj{
			{K: "send", P: 0, M: []int{1, 2}}, {K: "send", P: 1, M: []int{3}}, {K: "peersend", P: 0, M: []int{4}},
			{K: "crash", P: 0}, {K: "send", P: 0, M: []int{5}}, {K: "send", P: 1, M: []int{6}},
			{K: "restart", P: 0}, {K: "send", P: 0, M: []int{7, 8}}, {K: "peersend", P: 0, M: []int{9}}}},
		input{Kind: "real", Label: "kill-restart", TCP: true, NP: 2, NH: 2, Ops: []opj{
			{K: "send", P: 0, M: []int{1, 2}}, {K: "send", P: 1, M: []int{3}}, {K: "peersend", P: 0, M: []int{4}},
			{K: "crash", P: 0}, {K: "send", P: 0, M: []int{5}}, {K: "send", P: 1, M: []int{6}},
			{K: "restart", P: 0}, {K: "send", P: 0, M: []int{7, 8}}, {K: "peersend", P: 0, M: []int{9}},
			{K: "crash", P: 0}, {K: "restart", P: 0}, {K: "crash", P: 0}, {K: "restart", P: 0}, {K: "send", P: 0, M: []int{10}}}},
		// F11 seen from the survivor: the stopping peer still dials, its registration is refused, the
		// connection is dropped without being closed; S keeps it, and after the restart S's sends
		// are swallowed by it
		input{Kind: "real", Label: "zombie", TCP: false, NP: 2, NH: 1, Ops: []opj{
			{K: "send", P: 0, M: []int{1}}, {K: "crashsending", P: 0}, {K: "send", P: 0, M: []int{2}}, {K: "send", P: 1, M: []int{3}},
			{K: "restart", P: 0}, {K: "send", P: 0, M: []int{4}}, {K: "send", P: 0, M: []int{5, 6}}}},
		input{Kind: "real", Label: "zombie", TCP: true, NP: 2, NH: 1, Ops: []opj{
			{K: "send", P: 0, M: []int{1}}, {K: "crashsending", P: 0}, {K: "send", P: 1, M: []int{3}},
			{K: "restart", P: 0}, {K: "send", P: 0, M: []int{4}}, {K: "send", P: 0, M: []int{5, 6}}}},
		input{Kind: "script", Label: "abandoned-connection", TCP: false, NP: 1, NH: 1, Ops: []opj{
			{K: "send", P: 0, M: []int{1}}, {K: "crash", P: 0}, {K: "abandoneddial", P: 0}, {K: "recverr", C: 0, E: "EClosed"},
			{K: "send", P: 0, M: []int{2}}, {K: "restart", P: 0}, {K: "send", P: 0, M: []int{3}},
			{K: "recverr", C: 1, E: "ETimeout"}, {K: "send", P: 0, M: []int{4}}}},
		// re-entrant error handlers: they read their router, send to the lost peer (directly / through
		// a goroutine they hand the identity to)
		input{Kind: "script", Label: "reentrant-handler", TCP: false, NP: 2, NH: 2, HSend: 1, Ops: []opj{
			{K: "send", P: 0, M: []int{1}}, {K: "send", P: 1, M: []int{2}}, {K: "recverr", C: 0, E: "ETimeout"},
			{K: "crash", P: 1}, {K: "recverr", C: 1, E: "EEOF"}, {K: "send", P: 0, M: []int{3}}, {K: "send", P: 1, M: []int{4}}}},
		input{Kind: "script", Label: "reentrant-handler", TCP: true, NP: 1, NH: 1, HSend: 2, Ops: []opj{
			{K: "send", P: 0, M: []int{1}}, {K: "crash", P: 0}, {K: "recverr", C: 0, E: "EUnknown"}, {K: "restart", P: 0},
			{K: "send", P: 0, M: []int{2}}}},
		input{Kind: "real", Label: "reentrant-handler", TCP: false, NP: 2, NH: 2, HSend: 1, Ops: []opj{
			{K: "send", P: 0, M: []int{1}}, {K: "send", P: 1, M: []int{2}}, {K: "crash", P: 0}, {K: "send", P: 1, M: []int{3}},
			{K: "restart", P: 0}, {K: "send", P: 0, M: []int{4}}}},
		input{Kind: "real", Label: "reentrant-handler", TCP: true, NP: 2, NH: 2, HSend: 2, Ops: []opj{
			{K: "send", P: 0, M: []int{1}}, {K: "send", P: 1, M: []int{2}}, {K: "peersend", P: 0, M: []int{5}}, {K: "crash", P: 0},
			{K: "send", P: 1, M: []int{3}}, {K: "restart", P: 0}, {K: "send", P: 0, M: []int{4}}}},
		// C09-G: the old incarnation is stopped once more after its successor listens on the same address;
		// a survivor without a connection to the peer must still reach it
		input{Kind: "real", Label: "old-incarnation-stopped-again", TCP: false, NP: 2, NH: 1, Ops: []opj{
			{K: "send", P: 0, M: []int{1}}, {K: "crash", P: 0}, {K: "stopold", P: 0}, {K: "restart", P: 0}, {K: "stopold", P: 0},
			{K: "send", P: 0, M: []int{2}}, {K: "peersend", P: 0, M: []int{3}}, {K: "crash", P: 0}, {K: "restart", P: 0},
			{K: "stopold", P: 0}, {K: "send", P: 0, M: []int{4, 5}}, {K: "send", P: 1, M: []int{6}}}},
		input{Kind: "real", Label: "old-incarnation-stopped-again", TCP: true, NP: 1, NH: 1, Ops: []opj{
			{K: "send", P: 0, M: []int{1}}, {K: "crash", P: 0}, {K: "restart", P: 0}, {K: "stopold", P: 0},
			{K: "send", P: 0, M: []int{2}}}},
		// C09-H: several Sends meet the same dead TCP connection object while its receive loop is still
		// busy notifying (first write after the FIN is taken by the kernel, the following ones fail)
		input{Kind: "real", Label: "repeated-writes-to-a-dead-connection", TCP: true, NP: 2, NH: 1, Ops: []opj{
			{K: "send", P: 0, M: []int{1}}, {K: "hold", H: 0}, {K: "crash", P: 0}, {K: "send", P: 0, M: []int{2}},
			{K: "send", P: 0, M: []int{3}}, {K: "send", P: 0, M: []int{4, 5, 6}}, {K: "send", P: 1, M: []int{7}},
			{K: "restart", P: 0}, {K: "send", P: 0, M: []int{8, 9}}, {K: "release"}, {K: "send", P: 0, M: []int{10}}}},
		input{Kind: "real", Label: "crash-during-setup", TCP: false, NP: 1, NH: 1, Ops: []opj{
			{K: "sendhold", P: 0, M: []int{1}}, {K: "crash", P: 0}, {K: "resume"}, {K: "restart", P: 0}, {K: "send", P: 0, M: []int{2}}}},
		input{Kind: "real", Label: "crash-during-setup", TCP: true, NP: 1, NH: 1, Ops: []opj{
			{K: "sendhold", P: 0, M: []int{1}}, {K: "crash", P: 0}, {K: "resume"}, {K: "restart", P: 0}, {K: "send", P: 0, M: []int{2}}}},
		input{Kind: "real", Label: "stale-while-notifying", TCP: false, NP: 2, NH: 2, Ops: []opj{
			{K: "send", P: 0, M: []int{1}}, {K: "hold", H: 1}, {K: "crash", P: 0}, {K: "send", P: 0, M: []int{2}},
			{K: "send", P: 1, M: []int{3}}, {K: "restart", P: 0}, {K: "send", P: 0, M: []int{4}}, {K: "release"},
			{K: "send", P: 0, M: []int{5}}}},
		input{Kind: "real", Label: "stale-while-notifying", TCP: true, NP: 2, NH: 2, Ops: []opj{
			{K: "send", P: 0, M: []int{1}}, {K: "hold", H: 1}, {K: "crash", P: 0}, {K: "send", P: 0, M: []int{2}},
			{K: "send", P: 1, M: []int{3}}, {K: "restart", P: 0}, {K: "release"}, {K: "send", P: 0, M: []int{5}}}},
	)
	ins = append(ins, corpusClassify()...)
	ins = append(ins,
		input{Kind: "config", TCP: false, Warm: true}, input{Kind: "config", TCP: true, Warm: true},
		input{Kind: "config", TCP: true, Warm: false})
	// in-memory transport under back-pressure (C09-N3): the queues of the victim's connection are
	// full when it is stopped (np = messages sent; the thresholds are 202 and 403)
	// a silently dead peer: only the read deadline tells the survivor (seeded change C09-F)
	ins = append(ins, input{Kind: "mute", Label: "fresh", NH: 2}, input{Kind: "mute", Label: "used", NH: 1},
		input{Kind: "mute", Label: "ident"})
	ins = append(ins, input{Kind: "localflood", NP: 150}, input{Kind: "localflood", NP: 300}, input{Kind: "localflood", NP: 450})
	ins = append(ins, corpusCluster()...)
	return filterKinds(ins)
}

func main() {
	log.SetDebugVisible(0)
	log.OutputToBuf()
	if lvl := os.Getenv("C09_DEBUG"); lvl != "" {
		log.OutputToOs()
		log.SetDebugVisible(int(lvl[0] - '0'))
	}
	if len(os.Args) > 1 && os.Args[1] == "-c09child" {
		clusterChild(os.Args[2])
		return
	}
	registerOnetLevel()
	lib.Main(lib.Harness{
		Prop:   "C09",
		Import: "Onet.Corr.C09",
		Rule: "script: random operation sequences (send 1-3 messages, send held before registerConnection, peer crash / restart, " +
			"Receive errors of every class on chosen connections, incoming connections with and without identity, messages, " +
			"blocking error handler, router close) on the real Router over a scripted Host, 1-3 peers, 0-3 handlers, both write " +
			"semantics (dead peer refuses / kernel buffers); real: the same operations on in-memory and TCP routers with peers " +
			"stopped and restarted; classify: stdlib / socket error values and synthetic feature combinations; entry: nine send " +
			"entry points x destinations down; cluster: victim killed at overlay schedule points with canary runs (sub-process). " +
			"non-trivial = at least one send returned; distinct = distinct Coq term",
		Shard:    24,
		Generate: generate,
		Run:      run,
		Corpus:   corpus,
	})
	_ = fmt.Sprint
}
