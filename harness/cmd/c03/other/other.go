// Package other holds a message type whose BARE name equals that of a type of
// the harness's main package: only the package qualifier tells them apart.
package other

// Blob has the same name as main.Blob and another layout.
type Blob struct {
	N    int64
	Note string
}
