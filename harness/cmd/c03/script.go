package main

import (
	"bytes"
	"errors"
	"io"
	"net"
	"runtime"
	"sync"
	"time"

	"go.dedis.ch/onet/v3/network"
)

// scriptConn is a net.Conn whose Read hands out a byte stream in exactly the
// given segments: one Read returns a non-empty prefix of the current segment
// (at most len(p) bytes) and never crosses a segment boundary -- any way TCP
// may deliver the stream. Writes are captured.
type scriptConn struct {
	mu         sync.Mutex
	segs       [][]byte
	eof        bool // after the data: io.EOF (true) or block until Close (false)
	closed     bool
	byHarness  bool
	blockedOne sync.Once
	blocked    chan struct{} // closed when a Read finds no data left (eof == false)
	doneOne    sync.Once
	done       chan struct{} // closed by Close
	consumed   int
	reads      int
	wrote      bytes.Buffer
	yield      bool // let other goroutines run after every Write (concurrent senders)
	failAt     int  // >= 0: the Write call that crosses this offset writes up to it and fails (once)
	failed     bool
	stallAt    int // >= 0: the Read that finds this many bytes consumed returns a timeout (once): the peer stalled there
	stallDone  bool
}

// readTimeout is what a net.Conn returns when the read deadline passes.
type readTimeout struct{}

func (readTimeout) Error() string   { return "read tcp 127.0.0.1:1->127.0.0.1:2: i/o timeout" }
func (readTimeout) Timeout() bool   { return true }
func (readTimeout) Temporary() bool { return true }

var _ net.Error = readTimeout{}

// writeTimeout is what a net.Conn returns when the write deadline passes
// after part of the buffer has gone out.
type writeTimeout struct{}

func (writeTimeout) Error() string   { return "write tcp 127.0.0.1:1->127.0.0.1:2: i/o timeout" }
func (writeTimeout) Timeout() bool   { return true }
func (writeTimeout) Temporary() bool { return true }

var _ net.Error = writeTimeout{}

func newScriptConn(segs [][]byte, eof bool) *scriptConn {
	cp := make([][]byte, len(segs))
	for i, s := range segs {
		cp[i] = append([]byte{}, s...)
	}
	return &scriptConn{segs: cp, eof: eof, blocked: make(chan struct{}), done: make(chan struct{}), failAt: -1, stallAt: -1}
}

func (c *scriptConn) Read(p []byte) (int, error) {
	for {
		c.mu.Lock()
		if c.closed {
			c.mu.Unlock()
			return 0, errors.New("read: use of closed network connection")
		}
		if c.stallAt >= 0 && !c.stallDone && c.consumed == c.stallAt {
			c.stallDone = true
			c.mu.Unlock()
			return 0, readTimeout{}
		}
		for len(c.segs) > 0 && len(c.segs[0]) == 0 {
			c.segs = c.segs[1:]
		}
		if len(c.segs) > 0 {
			n := copy(p, c.segs[0])
			c.segs[0] = c.segs[0][n:]
			c.consumed += n
			c.reads++
			c.mu.Unlock()
			return n, nil
		}
		if c.eof {
			c.mu.Unlock()
			return 0, io.EOF
		}
		c.mu.Unlock()
		c.blockedOne.Do(func() { close(c.blocked) })
		<-c.done
	}
}

func (c *scriptConn) Write(p []byte) (int, error) {
	c.mu.Lock()
	defer c.mu.Unlock()
	if c.closed {
		return 0, errors.New("write: use of closed network connection")
	}
	if at := c.wrote.Len(); c.failAt >= 0 && !c.failed && c.failAt >= at && c.failAt < at+len(p) {
		// the injected failure: part of p goes out, then the deadline passes.
		// The next Write works again (Send sets a fresh deadline every time).
		c.failed = true
		c.wrote.Write(p[:c.failAt-at])
		return c.failAt - at, writeTimeout{}
	}
	c.wrote.Write(p)
	if c.yield {
		c.mu.Unlock()
		runtime.Gosched()
		c.mu.Lock()
	}
	return len(p), nil
}

func (c *scriptConn) Close() error {
	c.mu.Lock()
	already := c.closed
	c.closed = true
	c.mu.Unlock()
	c.doneOne.Do(func() { close(c.done) })
	if already {
		return errors.New("close: use of closed network connection")
	}
	return nil
}

func (c *scriptConn) harnessClose() {
	c.mu.Lock()
	if !c.closed {
		c.byHarness = true
	}
	c.mu.Unlock()
	c.Close()
}

type scriptAddr string

func (a scriptAddr) Network() string { return "tcp" }
func (a scriptAddr) String() string  { return string(a) }

func (c *scriptConn) LocalAddr() net.Addr                { return scriptAddr("127.0.0.1:1") }
func (c *scriptConn) RemoteAddr() net.Addr               { return scriptAddr("127.0.0.1:2") }
func (c *scriptConn) SetDeadline(t time.Time) error      { return nil }
func (c *scriptConn) SetReadDeadline(t time.Time) error  { return nil }
func (c *scriptConn) SetWriteDeadline(t time.Time) error { return nil }

// nullHost is a network.Host that never listens and never connects; the
// router under test gets its connections through VerifAttach.
type nullHost struct {
	addr network.Address
	quit chan struct{}
	once sync.Once
}

func newNullHost(addr network.Address) *nullHost {
	return &nullHost{addr: addr, quit: make(chan struct{})}
}
func (h *nullHost) Listen(func(network.Conn)) error { <-h.quit; return nil }
func (h *nullHost) Stop() error                     { h.once.Do(func() { close(h.quit) }); return nil }
func (h *nullHost) Address() network.Address        { return h.addr }
func (h *nullHost) Listening() bool                 { return false }
func (h *nullHost) Connect(*network.ServerIdentity) (network.Conn, error) {
	return nil, errors.New("nullHost does not connect")
}
