package main

import (
	"io/ioutil"
	"strconv"
	"strings"
)

// rxQueue returns the number of bytes that have arrived on the local TCP
// socket (localPort <- peerPort) and have not been read by the application yet,
// from /proc/net/tcp{,6}. ok is false when the socket cannot be found (not
// Linux, already closed).
func rxQueue(localPort, peerPort int) (n int, ok bool) {
	for _, f := range []string{"/proc/net/tcp", "/proc/net/tcp6"} {
		b, err := ioutil.ReadFile(f)
		if err != nil {
			continue
		}
		for _, line := range strings.Split(string(b), "\n")[1:] {
			fs := strings.Fields(line)
			if len(fs) < 5 {
				continue
			}
			lp, rp := portOf(fs[1]), portOf(fs[2])
			if lp != localPort || rp != peerPort {
				continue
			}
			q := strings.Split(fs[4], ":")
			if len(q) != 2 {
				continue
			}
			v, err := strconv.ParseInt(q[1], 16, 64)
			if err != nil {
				continue
			}
			return int(v), true
		}
	}
	return 0, false
}

func portOf(addr string) int {
	i := strings.LastIndex(addr, ":")
	if i < 0 {
		return -1
	}
	v, err := strconv.ParseInt(addr[i+1:], 16, 32)
	if err != nil {
		return -1
	}
	return int(v)
}
