// C03 harness: wire integrity of onet's network layer.
//
// Streams of messages / raw frames / garbage are put on the wire by the real
// TCPConn.Send (or written raw), cut into generated segments, and received by
// the real TCPConn.Receive (level conn), the real Router.handleConn on a
// scripted net.Conn (level router) or a real listening Router behind a
// re-chunking loopback TCP proxy (level tcp). network.Unmarshal is fed valid,
// mutated and arbitrary buffers (decode), and LocalRouter pairs exercise the
// in-memory transport (local). Observations go to Coq as Corr.C03 cases.
//
// All implementation code runs in a child process (same binary, argument
// "c03child"): a panic in a router goroutine kills the child, not the run, and
// is reported as the observation of the case that was executing.
package main

import (
	"bufio"
	"encoding/json"
	"fmt"
	"io"
	"math/rand"
	"os"
	"os/exec"
	"strings"
	"time"

	"go.dedis.ch/onet/v3/log"

	"verifharness/lib"
)

type caseOut struct {
	Coq        string      `json:"coq"`
	Class      string      `json:"class"`
	Obs        interface{} `json:"obs"`
	Nontrivial bool        `json:"nontrivial"`
	Key        string      `json:"key"`
	Discard    bool        `json:"discard"`
}

func childMain() {
	log.OutputToBuf()
	registerTypes()
	in := bufio.NewReaderSize(os.Stdin, 1<<20)
	// answers go to fd 3: the libraries under test print to stdout now and then
	out := bufio.NewWriter(os.NewFile(3, "answers"))
	for {
		line, err := in.ReadBytes('\n')
		if len(line) > 0 {
			c := runInput(json.RawMessage(line))
			b, _ := json.Marshal(caseOut{c.Coq, c.Class, c.Obs, c.Nontrivial, c.Key, c.Discard})
			out.Write(b)
			out.WriteByte('\n')
			out.Flush()
		}
		if err != nil {
			return
		}
	}
}

type child struct {
	cmd    *exec.Cmd
	stdin  io.WriteCloser
	stdout *bufio.Reader
	stderr *tailBuf
}

type tailBuf struct{ b []byte }

func (t *tailBuf) Write(p []byte) (int, error) {
	t.b = append(t.b, p...)
	if len(t.b) > 8192 {
		t.b = t.b[len(t.b)-8192:]
	}
	return len(p), nil
}

var theChild *child

func startChild() *child {
	cmd := exec.Command(os.Args[0], "c03child")
	stdin, _ := cmd.StdinPipe()
	pr, pw, err := os.Pipe()
	if err != nil {
		panic(err)
	}
	cmd.ExtraFiles = []*os.File{pw}
	tb := &tailBuf{}
	cmd.Stderr = tb
	if err := cmd.Start(); err != nil {
		panic(err)
	}
	pw.Close()
	return &child{cmd, stdin, bufio.NewReaderSize(pr, 1<<20), tb}
}

var timing = map[string]time.Duration{}

func run(raw json.RawMessage) lib.Case {
	t0 := time.Now()
	c := run1(raw)
	timing[c.Class] += time.Since(t0)
	return c
}

func run1(raw json.RawMessage) lib.Case {
	var probe struct {
		Fresh bool `json:"fresh"`
	}
	if json.Unmarshal(raw, &probe) == nil && probe.Fresh && theChild != nil {
		// this scenario depends on what the process has done before: start a new one
		theChild.stdin.Close()
		theChild.cmd.Wait()
		theChild = nil
	}
	if theChild == nil {
		theChild = startChild()
	}
	c := theChild
	line := append(append([]byte{}, raw...), '\n')
	_, werr := c.stdin.Write(line)
	var resp []byte
	var rerr error
	if werr == nil {
		resp, rerr = c.stdout.ReadBytes('\n')
	}
	if werr != nil || rerr != nil {
		// the implementation killed the process: that IS the observation
		c.stdin.Close()
		c.cmd.Wait()
		theChild = nil
		var in Input
		json.Unmarshal(raw, &in)
		msg := string(c.stderr.b)
		if i := strings.Index(msg, "panic:"); i >= 0 {
			msg = msg[i:]
		}
		if len(msg) > 1500 {
			msg = msg[:1500]
		}
		lvl := in.Level
		if lvl == "" {
			lvl = in.Kind
		}
		return lib.Case{Coq: "CDecode [] 0 DOPanic true true", Class: lvl + "-" + in.Tag + "-process-died",
			Obs: map[string]interface{}{"crash": "the process running the implementation died", "stderr": msg}, Nontrivial: true}
	}
	var co caseOut
	if err := json.Unmarshal(resp, &co); err != nil {
		panic(fmt.Sprintf("bad child answer: %v: %s", err, resp))
	}
	return lib.Case{Coq: co.Coq, Class: co.Class, Obs: co.Obs, Nontrivial: co.Nontrivial, Key: co.Key, Discard: co.Discard}
}

func main() {
	if len(os.Args) > 1 && os.Args[1] == "c03child" {
		childMain()
		return
	}
	registerTypes() // the generator measures wire lengths with Marshal
	log.OutputToBuf()
	lib.Main(lib.Harness{
		Prop:   "C03",
		Import: "Onet.Corr.C03",
		Rule: "streams (valid messages of generated shapes incl. Ed25519/bn256 points and scalars, near-limit and over-limit bodies, " +
			"refused frames, garbage) x segmentations (all segmentations of 9-10 byte streams, every single cut, every k bytes, random cuts) " +
			"x levels (TCPConn.Receive loop, Router.handleConn on a scripted net.Conn, two Routers over loopback TCP behind a re-chunking proxy); " +
			"decoder fuzz (valid, mutated, arbitrary buffers into network.Unmarshal); LocalRouter pairs. " +
			"non-trivial = more than a bare header on the wire / a non-empty buffer; distinct = distinct (level, wire bytes, segmentation) or buffer",
		Shard:    90,
		Generate: func(rng *rand.Rand, tier string) []interface{} { return generate(rng, tier) },
		Run:      run,
		Corpus:   corpus,
	})
	if theChild != nil {
		theChild.stdin.Close()
		theChild.cmd.Wait()
	}
	if os.Getenv("C03_TIMING") != "" {
		for k, v := range timing {
			fmt.Fprintf(os.Stderr, "%8.2fs %s\n", v.Seconds(), k)
		}
	}
}
