package main

import (
	"fmt"
	"math/rand"

	"go.dedis.ch/kyber/v3"
	"go.dedis.ch/kyber/v3/pairing/bn256"
	"go.dedis.ch/kyber/v3/suites"
	"go.dedis.ch/kyber/v3/util/random"
	"go.dedis.ch/onet/v3/network"
)

type Inner struct {
	A    int64
	B    []byte
	S    string
	F    float64
	U    uint64
	I32  int32
	Flag bool
	I    int
}
type Nested struct {
	Head  Inner
	Opt   *Inner
	List  []Inner
	Nums  []int64
	Unums []uint32
	Names []string
	Blobs [][]byte
	Deep  *Nested
}
type Crypto struct {
	P   kyber.Point
	S   kyber.Scalar
	Ps  []kyber.Point
	Ss  []kyber.Scalar
}
type Empty struct{}
type Blob struct{ Data []byte }

func main() {
	ed := suites.MustFind("Ed25519")
	for _, m := range []interface{}{&Inner{}, &Nested{}, &Crypto{}, &Empty{}, &Blob{}} {
		network.RegisterMessage(m)
	}
	rng := rand.New(rand.NewSource(1))
	st := random.New(rng)
	bn := bn256.NewSuite()
	vals := []interface{}{
		&Inner{A: -5, B: []byte{1, 2}, S: "hi", F: 1.5, U: 1<<64 - 1, I32: -7, Flag: true, I: -1 << 62},
		&Inner{},
		&Nested{Head: Inner{A: 1}, Opt: &Inner{S: "x"}, List: []Inner{{A: 2}, {}}, Nums: []int64{-1, 1 << 62}, Unums: []uint32{0, 1 << 31}, Names: []string{"a", ""}, Blobs: [][]byte{{1}, {}}, Deep: &Nested{Nums: []int64{3}}},
		&Nested{},
		&Crypto{P: ed.Point().Pick(st), S: ed.Scalar().Pick(st), Ps: []kyber.Point{ed.Point().Pick(st), bn.G1().Point().Pick(st)}, Ss: []kyber.Scalar{bn.G1().Scalar().Pick(st)}},
		&Crypto{P: bn.G1().Point().Pick(st), S: bn.G2().Scalar().Pick(st)},
		&Crypto{P: bn.G2().Point().Pick(st), S: ed.Scalar().Pick(st)},
		&Crypto{P: bn.GT().Point().Pick(st), S: ed.Scalar().Pick(st)},
		&Crypto{},
		&Empty{},
		&Blob{},
		&Blob{Data: make([]byte, 3)},
	}
	for _, v := range vals {
		b, err := network.Marshal(v)
		if err != nil {
			fmt.Printf("%T marshal err %v\n", v, err)
			continue
		}
		id, w, err := network.Unmarshal(b, ed)
		if err != nil {
			fmt.Printf("%T len %d unmarshal err %v\n", v, len(b), err)
			continue
		}
		b2, err := network.Marshal(w)
		fmt.Printf("%T len %d id %x same=%v err=%v\n   %+v\n   %+v\n", v, len(b), id[:4], string(b) == string(b2), err, v, w)
	}
}
