package main

import (
	"encoding/binary"
	"encoding/json"
	"fmt"
	"net"
	"runtime"
	"strings"
	"sync"
	"sync/atomic"
	"time"

	"go.dedis.ch/onet/v3/log"
	"go.dedis.ch/onet/v3/network"
	"golang.org/x/xerrors"

	"verifharness/lib"
)

// Input is one generated scenario (JSON in replay files).
type Input struct {
	Kind    string       `json:"kind"` // stream | decode | local
	Tag     string       `json:"tag"`  // input class given by the generator
	Level   string       `json:"level,omitempty"`
	Limit   uint32       `json:"limit,omitempty"` // network.MaxPacketSize for this case
	Items   []ItemSpec   `json:"items,omitempty"`
	Cuts    []int        `json:"cuts,omitempty"`     // segment lengths (rest = last segment)
	Every   int          `json:"every,omitempty"`    // or: segments of this many bytes
	NoIdent bool         `json:"no_ident,omitempty"` // tcp: bytes written straight to the listening router
	Payload *PayloadSpec `json:"payload,omitempty"`  // decode
	Senders [][]ValSpec  `json:"senders,omitempty"`  // conc: one list of values per sending goroutine
	Suite   string       `json:"suite,omitempty"`    // conn / router / decode: suite of the connections (default Ed25519; P256 has untagged points)
	Steps   []Input      `json:"steps,omitempty"`    // seq: cases run one after the other in ONE process, reported as one case
	Fresh   bool         `json:"fresh,omitempty"`    // run in a process that has not touched the implementation before
	Backlog int          `json:"backlog,omitempty"`  // local: this many numbered messages while the receiver's handler is busy
	Stall   *int         `json:"stall,omitempty"`    // stream (router): the peer stalls after this many segments for longer than the read timeout, then continues
	FailAt  *int         `json:"fail_at,omitempty"`  // stream (conn, router): the sender's Write crossing this wire offset fails part-way
}

// ItemSpec is one thing put on the wire.
type ItemSpec struct {
	Kind    string       `json:"kind"`              // msg | frame | raw
	Val     *ValSpec     `json:"val,omitempty"`     // msg: sent with the real Send
	Payload *PayloadSpec `json:"payload,omitempty"` // frame: size ++ payload, written raw
	Raw     []PartSpec   `json:"raw,omitempty"`     // raw bytes
}

type sentItem struct {
	coq   string      // IMsg k | IFrame k | IRaw ...
	k     int         // pool index (-1 for raw)
	value interface{} // the value a receiver should end up with (nil if none)
	kind  string
	bytes []byte // what goes on the wire when written raw
}

type delivered struct {
	id  network.MessageTypeID
	msg interface{}
}

type streamObs struct {
	wire      []byte
	sends     []bool
	evs       []string
	evsHuman  []string
	delivered []delivered
	closed    bool
	crash     string
	discard   string
	stalled   bool
	reads     int
	hung      string // the receiver neither finished nor waits for input
	sendOnly  string // the receiving side could not be set up: only the sending side is evaluated
	shortSend bool   // a Send reported more bytes than reached the wire
}

var (
	logMu      sync.Mutex
	currentLog *[]delivered
)

// pauseGate, when set, makes the processor hold on to the message it is handed
// (a busy handler): the receiving router reads nothing more until it is closed.
var pauseGate chan struct{}

func recordProc(env *network.Envelope) error {
	logMu.Lock()
	if currentLog != nil {
		*currentLog = append(*currentLog, delivered{env.MsgType, env.Msg})
	}
	gate := pauseGate
	logMu.Unlock()
	if gate != nil {
		<-gate
	}
	return nil
}

func registerProcs(r *network.Router) {
	for id := range idToType {
		r.RegisterProcessorFunc(id, recordProc)
	}
}

func fatalClass(err error) bool {
	return xerrors.Is(err, network.ErrTimeout) || xerrors.Is(err, network.ErrClosed) ||
		xerrors.Is(err, network.ErrEOF) || xerrors.Is(err, network.ErrUnknown)
}

func cutSegments(wire []byte, cuts []int, every int) [][]byte {
	var segs [][]byte
	rest := wire
	if every > 0 {
		for len(rest) > 0 {
			n := every
			if n > len(rest) {
				n = len(rest)
			}
			segs = append(segs, rest[:n])
			rest = rest[n:]
		}
		return segs
	}
	for _, c := range cuts {
		if c > len(rest) {
			c = len(rest)
		}
		segs = append(segs, rest[:c])
		rest = rest[c:]
	}
	return append(segs, rest)
}

// hangDeadline: how long the implementation gets for something that involves
// no waiting at all (the scripted connection never blocks a Read while data is
// left, never blocks a Write). Generous for a loaded machine; after two hangs
// in one run the rest of the run does not wait a minute per case any more.
var hangs int

func hangDeadline() time.Duration {
	if hangs >= 2 {
		return 5 * time.Second
	}
	return 60 * time.Second
}

// guarded runs f (implementation code that must return without waiting for
// anybody) and reports whether it did within the deadline. A call that does
// not return is an observation; its goroutine is left behind.
func guarded(f func()) (returned bool) {
	done := make(chan struct{})
	go func() {
		defer close(done)
		f()
	}()
	select {
	case <-done:
		return true
	case <-time.After(hangDeadline()):
		hangs++
		return false
	}
}

// ---- sending side on a capturing connection (levels conn and router) ---------

func sendCaptured(items []sentItem, failAt int) (wire []byte, sends []bool, crash string, hung string) {
	cap := newScriptConn(nil, true)
	cap.failAt = failAt
	sc := network.VerifNewTCPConn(cap, curSuite)
	var mu sync.Mutex
	returned := guarded(func() {
		defer func() {
			if r := recover(); r != nil {
				mu.Lock()
				crash = fmt.Sprint("panic in Send: ", r)
				mu.Unlock()
			}
		}()
		for _, it := range items {
			switch it.kind {
			case "msg":
				_, err := sc.Send(it.value)
				mu.Lock()
				sends = append(sends, err == nil)
				mu.Unlock()
			default:
				cap.Write(it.bytes)
			}
		}
	})
	mu.Lock()
	defer mu.Unlock()
	if !returned {
		hung = "a Send on a connection that never blocks did not return"
	}
	cap.mu.Lock()
	wire = append([]byte{}, cap.wrote.Bytes()...)
	cap.mu.Unlock()
	return wire, append([]bool{}, sends...), crash, hung
}

// ---- level conn: TCPConn.Receive in a loop -----------------------------------

func receiveConn(segs [][]byte, pl *pool) streamObs {
	var mu sync.Mutex
	var o streamObs
	returned := guarded(func() {
		r := receiveConnLoop(segs, pl, &mu, &o)
		mu.Lock()
		r.evs, r.evsHuman, r.delivered = o.evs, o.evsHuman, o.delivered
		o = r
		mu.Unlock()
	})
	mu.Lock()
	defer mu.Unlock()
	if !returned {
		o.hung = "a Receive on a connection that never blocks did not return"
	}
	out := o
	out.evs = append([]string{}, o.evs...)
	out.evsHuman = append([]string{}, o.evsHuman...)
	out.delivered = append([]delivered{}, o.delivered...)
	return out
}

// receiveConnLoop appends what it observes to shared (under mu) as it goes, so
// that a call that never returns leaves the prefix behind; the returned value
// carries the fields set at the end.
func receiveConnLoop(segs [][]byte, pl *pool, mu *sync.Mutex, shared *streamObs) (o streamObs) {
	sconn := newScriptConn(segs, true)
	rc := network.VerifNewTCPConn(sconn, curSuite)
	defer func() {
		if r := recover(); r != nil {
			o.crash = fmt.Sprint("panic in Receive: ", r)
		}
	}()
	add := func(ev, human string, d *delivered) {
		mu.Lock()
		shared.evs = append(shared.evs, ev)
		shared.evsHuman = append(shared.evsHuman, human)
		if d != nil {
			shared.delivered = append(shared.delivered, *d)
		}
		mu.Unlock()
	}
	for i := 0; i < 1000000; i++ {
		env, err := rc.Receive()
		switch {
		case err == nil && env != nil:
			mu.Lock()
			k := pl.valueIndex(env.Msg)
			mu.Unlock()
			add(fmt.Sprintf("CMsg %d %d%%N", k, env.Size), fmt.Sprintf("msg(%d bytes)", env.Size), &delivered{env.MsgType, env.Msg})
		case env != nil:
			add(fmt.Sprintf("CBad %d%%N", env.Size), fmt.Sprintf("bad(%d bytes: %s)", env.Size, errClass(err)), nil)
		case fatalClass(err):
			add("CEnd", "end", nil)
			o.reads = sconn.reads
			return o
		case xerrors.Is(err, network.ErrTooBig):
			add("CTooBig", "refused-without-reading(too big)", nil)
			o.closed = true
			o.reads = sconn.reads
			return o
		default:
			// an error of no known class is its own observation, never a stand-in for an expected one
			add("COther", "error of unknown class: "+err.Error(), nil)
			o.reads = sconn.reads
			return o
		}
	}
	o.hung = "the Receive loop did not end after 1000000 calls"
	return o
}

func errClass(err error) string {
	s := err.Error()
	for _, k := range []string{"too big", "not registered", "decoding", "buffer read"} {
		if strings.Contains(s, k) {
			return k
		}
	}
	return "other"
}

// ---- level router: Router.handleConn on the scripted connection -----------------

var (
	routerB     *network.Router
	routerBHost *nullHost
)

func theRouter() *network.Router {
	if routerB == nil {
		sid := genIdentity(900001)
		routerBHost = newNullHost(sid.Address)
		routerB = network.NewRouter(sid, routerBHost)
		routerB.UnauthOk = true
		routerB.Quiet = true
		registerProcs(routerB)
	}
	return routerB
}

var attachSeq int64

func receiveRouter(segs [][]byte) (o streamObs) { return receiveRouterStall(segs, -1) }

func receiveRouterStall(segs [][]byte, stall int) (o streamObs) {
	b := theRouter()
	var dl []delivered
	logMu.Lock()
	currentLog = &dl
	logMu.Unlock()
	sconn := newScriptConn(segs, false)
	if stall >= 0 {
		sconn.stallAt = 0
		for i := 0; i < stall && i < len(segs); i++ {
			sconn.stallAt += len(segs[i])
		}
	}
	rc := network.VerifNewTCPConn(sconn, curSuite)
	attachSeq++
	remote := genIdentity(800000 + attachSeq%50)
	if err := b.VerifAttach(remote, rc); err != nil {
		logMu.Lock()
		currentLog = nil
		logMu.Unlock()
		o.sendOnly = "the router refused the connection: " + err.Error()
		return o
	}
	select {
	case <-sconn.blocked:
		o.closed = false
	case <-sconn.done:
		o.closed = true
	case <-time.After(hangDeadline()):
		// not a reason to drop the case: what was dispatched so far is the observation
		hangs++
		o.hung = "handleConn neither consumed the stream nor closed the connection within the deadline"
	}
	logMu.Lock()
	currentLog = nil
	o.delivered = append([]delivered{}, dl...)
	logMu.Unlock()
	sconn.harnessClose()
	// wait for handleConn to leave (it unregisters the connection last)
	for i := 0; i < 4000; i++ {
		if b.VerifConnections()[remote.GetID()] == 0 {
			break
		}
		time.Sleep(500 * time.Microsecond)
	}
	o.reads = sconn.reads
	return o
}

// ---- level tcp: two routers over loopback through the re-chunking proxy ----------

type proxyBuf struct {
	mu   sync.Mutex
	cond *sync.Cond
	buf  []byte
}

func (p *proxyBuf) add(b []byte) {
	p.mu.Lock()
	p.buf = append(p.buf, b...)
	p.cond.Broadcast()
	p.mu.Unlock()
}

func (p *proxyBuf) waitLen(n int, d time.Duration) bool {
	deadline := time.Now().Add(d)
	p.mu.Lock()
	defer p.mu.Unlock()
	for len(p.buf) < n {
		if time.Now().After(deadline) {
			return false
		}
		p.mu.Unlock()
		time.Sleep(200 * time.Microsecond)
		p.mu.Lock()
	}
	return true
}

func runTCP(in *Input, items []sentItem, pl *pool, identIdx *int, coqItems *[]string) (o streamObs) {
	var dl []delivered
	logMu.Lock()
	currentLog = &dl
	logMu.Unlock()
	defer func() {
		logMu.Lock()
		currentLog = nil
		logMu.Unlock()
	}()

	sidB := network.NewServerIdentity(genIdentity(900002).Public, network.NewTCPAddress("127.0.0.1:0"))
	hostB, err := network.NewTCPHost(sidB, ed25519)
	if err != nil {
		o.discard = "listen: " + err.Error()
		return o
	}
	addrB := hostB.Address()
	B := network.NewRouter(sidB, hostB)
	B.UnauthOk = true
	B.Quiet = true
	registerProcs(B)
	go B.Start()
	for i := 0; i < 2000 && !B.Listening(); i++ {
		time.Sleep(200 * time.Microsecond)
	}
	defer B.Stop()

	ln, err := net.Listen("tcp", "127.0.0.1:0")
	if err != nil {
		o.discard = "proxy listen: " + err.Error()
		return o
	}
	defer ln.Close()
	pb := &proxyBuf{}
	pb.cond = sync.NewCond(&pb.mu)
	upCh := make(chan net.Conn, 1)
	go func() {
		up, err := ln.Accept()
		if err != nil {
			return
		}
		upCh <- up
		buf := make([]byte, 65536)
		for {
			n, err := up.Read(buf)
			if n > 0 {
				pb.add(buf[:n])
			}
			if err != nil {
				return
			}
		}
	}()

	var A *network.Router
	var up net.Conn
	expect := 0
	if !in.NoIdent {
		sidA := network.NewServerIdentity(genIdentity(900003).Public, network.NewTCPAddress("127.0.0.1:0"))
		hostA, err := network.NewTCPHost(sidA, ed25519)
		if err != nil {
			o.discard = "listen A: " + err.Error()
			return o
		}
		A = network.NewRouter(sidA, hostA)
		A.UnauthOk = true
		A.Quiet = true
		defer A.Stop()
	}
	siBviaProxy := network.NewServerIdentity(sidB.Public, network.NewTCPAddress(ln.Addr().String()))
	first := true
	for _, it := range items {
		switch {
		case it.kind == "msg" && A != nil:
			if first {
				// the identity goes out in front of the first message
				idb, err := canonical(A.ServerIdentity)
				if err != nil {
					o.discard = "the oracle encoder has no encoding for the identity"
					return o
				}
				*identIdx = pl.add(idb)
				*coqItems = append(*coqItems, fmt.Sprintf("IMsg %d", *identIdx))
				first = false
			}
			n, err := A.Send(siBviaProxy, it.value)
			o.sends = append(o.sends, err == nil)
			expect += int(n)
			if !pb.waitLen(expect, 20*time.Second) {
				// Send reported more than reached the wire: go on with what is there
				o.shortSend = true
				pb.mu.Lock()
				expect = len(pb.buf)
				pb.mu.Unlock()
			}
		default:
			pb.add(it.bytes)
			expect += len(it.bytes)
		}
		*coqItems = append(*coqItems, it.coq)
	}
	pb.mu.Lock()
	o.wire = append([]byte{}, pb.buf...)
	pb.mu.Unlock()

	down, err := net.Dial("tcp", addrB.NetworkAddress())
	if err != nil {
		o.sendOnly = "cannot reach the listening router: " + err.Error()
		return o
	}
	closedByB := make(chan struct{})
	go func() {
		b := make([]byte, 16)
		for {
			if _, err := down.Read(b); err != nil {
				close(closedByB)
				return
			}
		}
	}()
	segs := cutSegments(o.wire, in.Cuts, in.Every)
	for i, s := range segs {
		if len(s) == 0 {
			continue
		}
		if _, err := down.Write(s); err != nil {
			break // B has closed: observed below
		}
		// a pause lets the receiver drain the segment before the next one is
		// written (best effort; long streams only yield)
		if i+1 < len(segs) {
			if i < 150 {
				time.Sleep(60 * time.Microsecond)
			} else {
				runtime.Gosched()
			}
		}
	}
	// the last legitimate message of every generated stream is a sentinel
	wantSentinel := -1
	for i := len(items) - 1; i >= 0; i-- {
		if s, ok := items[i].value.(*Sentinel); ok {
			wantSentinel = int(s.Seq)
			break
		}
	}
	sentinelSeen := func() bool {
		logMu.Lock()
		defer logMu.Unlock()
		for _, d := range dl {
			if s, ok := d.msg.(*Sentinel); ok && int(s.Seq) == wantSentinel {
				return true
			}
		}
		return false
	}
	// The stream is over when the closing sentinel has arrived or B has dropped
	// the connection. Otherwise B is out of step and waits for bytes that will
	// never come: that is declared only after B has READ everything that was
	// written (its socket's receive queue is empty) and nothing has happened for
	// a while -- or, where /proc/net/tcp is not available, after 1.5 s.
	bPort := portOfAddr(addrB.NetworkAddress())
	myPort := portOfAddr(down.LocalAddr().String())
	start := time.Now()
	var idleSince time.Time
	lastCount := -1
wait:
	for {
		select {
		case <-closedByB:
			o.closed = true
			break wait
		default:
		}
		if wantSentinel >= 0 && sentinelSeen() {
			break
		}
		logMu.Lock()
		cnt := len(dl)
		logMu.Unlock()
		q, ok := rxQueue(bPort, myPort)
		now := time.Now()
		switch {
		case !ok && now.Sub(start) > 4*time.Second:
			o.stalled = true
			break wait
		case ok && q == 0 && cnt == lastCount:
			if idleSince.IsZero() {
				idleSince = now
			} else if now.Sub(idleSince) > 150*time.Millisecond {
				o.stalled = true
				break wait
			}
		default:
			idleSince = time.Time{}
		}
		lastCount = cnt
		if now.Sub(start) > hangDeadline() {
			// bytes are still unread after the deadline: the receiver is wedged
			hangs++
			o.hung = "the receiving router left bytes unread until the deadline"
			break
		}
		time.Sleep(time.Millisecond)
	}
	if !o.closed {
		// give a close that is already on its way the chance to be seen
		select {
		case <-closedByB:
			o.closed = true
		case <-time.After(2 * time.Millisecond):
		}
	}
	down.Close()
	select {
	case up = <-upCh:
		up.Close()
	default:
	}
	logMu.Lock()
	o.delivered = append([]delivered{}, dl...)
	logMu.Unlock()
	return o
}

// ---- one stream case ------------------------------------------------------------

func runStream(in *Input) lib.Case {
	pl := &pool{}
	network.MaxPacketSize = network.Size(in.Limit)
	defer func() { network.MaxPacketSize = network.Size(10 * 1024 * 1024) }()

	var items []sentItem
	for _, is := range in.Items {
		switch is.Kind {
		case "msg":
			v := genValue(is.Val, &pl.ctx)
			// what a correct sender puts in the frame: from the encoding library
			// directly, never from the Marshal under test
			mb, err := canonical(v)
			if err != nil {
				return lib.Case{Discard: true, Obs: "generated value has no encoding: " + err.Error()}
			}
			k := pl.addValue(v, mb)
			items = append(items, sentItem{coq: fmt.Sprintf("IMsg %d", k), k: k, value: v, kind: "msg", bytes: frameOf(mb)})
		case "frame":
			b := buildPayload(is.Payload, &pl.ctx)
			k := pl.add(b)
			var val interface{}
			if pl.dres[k] >= 0 {
				val = pl.vals[k]
			}
			items = append(items, sentItem{coq: fmt.Sprintf("IFrame %d", k), k: k, value: val, kind: "frame", bytes: frameOf(b)})
		case "raw":
			b := buildParts(is.Raw, &pl.ctx)
			items = append(items, sentItem{k: -1, kind: "raw", bytes: b})
		}
	}
	// the class names the defect-relevant structure of the stream as it really is
	tag := in.Tag
	firstOver := -1
	for i, it := range items {
		if it.k >= 0 && len(pl.entries[it.k]) > int(in.Limit) {
			firstOver = i
			break
		}
	}
	if firstOver >= 0 {
		followed := false
		for _, it := range items[firstOver+1:] {
			if it.k >= 0 && it.value != nil && len(pl.entries[it.k]) <= int(in.Limit) {
				followed = true
			}
		}
		switch {
		case followed && !strings.HasPrefix(tag, "oversize-followed"):
			tag = "oversize-followed-" + tag
		case !followed && strings.HasPrefix(tag, "oversize-followed"):
			tag = "oversize-last"
		}
	}
	var o streamObs
	var coqItems []string
	identIdx := -1
	lv := "LConn"
	switch in.Level {
	case "conn", "router":
		failAt := -1
		if in.FailAt != nil {
			failAt = *in.FailAt
		}
		wire, sends, crash, sendHung := sendCaptured(items, failAt)
		if failAt >= 0 {
			// Behind a part-written frame the receiver cuts the stream at other
			// places than the sender did. The codec table must know the buffers it
			// will then ask the decoder about: every buffer a plain length-prefix
			// walk over the wire finds gets its oracle verdict (table entries only;
			// what the receiver does with them is the model's business).
			for rest := wire; len(rest) >= 4; {
				n := int(binary.BigEndian.Uint32(rest))
				if n > len(rest)-4 || n > 1<<20 {
					break
				}
				pl.add(rest[4 : 4+n])
				rest = rest[4+n:]
			}
			// the class says what the history really was
			firstFail := -1
			for i, ok := range sends {
				if !ok {
					firstFail = i
					break
				}
			}
			switch {
			case firstFail < 0:
				tag = "write-failure-not-reached"
			case firstFail == len(sends)-1:
				tag = "write-fails-last"
			default:
				tag = "write-fails-then-send"
			}
		}
		var segs [][]byte
		if crash == "" && sendHung == "" {
			segs = cutSegments(wire, in.Cuts, in.Every)
			if in.Level == "conn" {
				o = receiveConn(segs, pl)
			} else {
				lv = "LRouter"
				if in.Stall != nil {
					o = receiveRouterStall(segs, *in.Stall)
				} else {
					o = receiveRouter(segs)
				}
			}
		} else {
			o.crash, o.hung = crash, sendHung
		}
		o.wire, o.sends = wire, sends
	case "tcp":
		lv = "LTcp"
		o = runTCP(in, items, pl, &identIdx, &coqItems)
	}
	if o.discard != "" {
		// only reached before anything was observed (a listener of the harness could not be opened)
		return lib.Case{Discard: true, Obs: o.discard}
	}
	if o.sendOnly != "" {
		lv = "LSend"
		tag += "+send-only"
	}
	if o.hung != "" {
		tag += "+hung"
	}
	if in.Level == "tcp" && in.NoIdent {
		// bytes written straight to the listening router: the identity, if any, was written raw
		for i, e := range pl.entries {
			if len(e) >= 16 && string(e[:16]) == string(network.ServerIdentityType[:]) && identIdx < 0 {
				identIdx = i
			}
		}
	}
	// delivered values -> pool indices, and Go-level equality with what was sent
	var dIdx []int
	for _, d := range o.delivered {
		dIdx = append(dIdx, pl.valueIndex(d.msg))
	}
	valeq, tyeq := true, true
	used := make([]bool, len(items))
	for i, d := range o.delivered {
		if want, ok := harnessIDOf(d.msg); !ok || want != d.id {
			tyeq = false
		}
		for j, it := range items {
			if used[j] || it.k < 0 || it.value == nil || pl.dres[it.k] != dIdx[i] {
				continue
			}
			used[j] = true
			if !valuesEqual(it.value, d.msg) {
				valeq = false
			}
			break
		}
	}
	// raw items refer to pool entries where they can: encode them last
	ch := &chunker{fills: pl.ctx.fills}
	poolCoq := pl.coq(ch)
	chw := &chunker{fills: pl.ctx.fills, pool: pl.entries}
	if in.Level != "tcp" {
		for _, it := range items {
			coqItems = append(coqItems, it.coq)
		}
	}
	ri := 0
	for i, c := range coqItems {
		if c != "" {
			continue
		}
		for ri < len(items) && items[ri].kind != "raw" {
			ri++
		}
		if ri < len(items) {
			coqItems[i] = "IRaw " + chw.encode(items[ri].bytes)
			ri++
		} else {
			coqItems[i] = "IRaw []"
		}
	}
	cuts := "Cuts " + nList(in.Cuts)
	if in.Every > 0 {
		cuts = fmt.Sprintf("Every %d%%N", in.Every)
	}
	ident := "None"
	if identIdx >= 0 {
		ident = fmt.Sprintf("(Some %d)", identIdx)
	}
	failCoq := "None"
	if in.FailAt != nil && in.Level != "tcp" {
		failCoq = fmt.Sprintf("(Some %d%%N)", *in.FailAt)
	}
	coq := fmt.Sprintf("CStream %s %d%%N %s\n    %s\n    [%s]\n    %s (%s) %s %s\n    [%s] %s %s %s %s %s %s",
		lv, in.Limit, ident, poolCoq, strings.Join(coqItems, "; "), failCoq, cuts, chw.encode(o.wire), boolList(o.sends),
		strings.Join(o.evs, "; "), natList(dIdx), coqBool(o.closed), coqBool(valeq), coqBool(tyeq),
		coqBool(o.crash != ""), coqBool(o.hung != ""))
	if in.Stall != nil && lv == "LRouter" {
		coq = fmt.Sprintf("CStall %d%%N\n    %s\n    [%s]\n    (%s) %d\n    %s %s %s %s",
			in.Limit, poolCoq, strings.Join(coqItems, "; "), cuts, *in.Stall,
			natList(dIdx), coqBool(o.closed), coqBool(o.crash != ""), coqBool(o.hung != ""))
	}
	obs := map[string]interface{}{
		"wire_bytes":    len(o.wire),
		"segments":      len(cutSegments(o.wire, in.Cuts, in.Every)),
		"sends_ok":      o.sends,
		"delivered":     describeDelivered(o.delivered),
		"closed_by_rcv": o.closed,
		"values_equal":  valeq,
		"types_match":   tyeq,
	}
	if o.hung != "" {
		obs["hung"] = o.hung
	}
	if o.sendOnly != "" {
		obs["send_only"] = o.sendOnly
	}
	if o.shortSend {
		obs["short_send"] = "a Send reported more bytes than reached the wire within 20 s"
	}
	if in.Level == "conn" {
		obs["receive_results"] = o.evsHuman
	}
	if o.reads > 0 {
		obs["read_calls"] = o.reads
	}
	if in.Stall != nil {
		obs["stall"] = fmt.Sprintf("the receiver's Read returned a timeout after segment %d (the peer stalled for longer than the read timeout), the remaining segments followed", *in.Stall)
	}
	if o.stalled {
		obs["stalled"] = "the receiver has read every byte; neither the closing sentinel arrived nor was the connection closed"
	}
	if o.crash != "" {
		obs["crash"] = o.crash
	}
	return lib.Case{Coq: coq, Class: in.Level + "-" + tag, Obs: obs,
		Nontrivial: len(o.wire) > 4, Key: fmt.Sprintf("%s|%x|%v|%d|%v", in.Level, o.wire, in.Cuts, in.Every, in.Stall != nil)}
}

func describeDelivered(ds []delivered) []string {
	var out []string
	for i, d := range ds {
		if i >= 12 {
			out = append(out, fmt.Sprintf("... %d more", len(ds)-i))
			break
		}
		s := fmt.Sprintf("%T", d.msg)
		switch m := d.msg.(type) {
		case *Blob:
			s += fmt.Sprintf("(%d bytes)", len(m.Data))
		case *Sentinel:
			s += fmt.Sprintf("(%d)", m.Seq)
		}
		out = append(out, s)
	}
	return out
}

// ---- decoder cases ----------------------------------------------------------------

func runDecode(in *Input) lib.Case {
	pl := &pool{}
	var orig interface{}
	if in.Payload.Val != nil && len(in.Payload.Mut) == 0 {
		orig = genValue(in.Payload.Val, &genCtx{})
	}
	b := buildPayload(in.Payload, &pl.ctx)
	k := -1
	if orig != nil {
		k = pl.addValue(orig, b)
	} else {
		k = pl.add(b)
	}
	obsCoq, human, valeq, tyeq := "DOError", "error", true, true
	returned := guarded(func() {
		defer func() {
			if r := recover(); r != nil {
				obsCoq, human = "DOPanic", fmt.Sprint("panic: ", r)
			}
		}()
		id, msg, err := network.Unmarshal(append([]byte{}, b...), curSuite)
		if err != nil {
			human = "error (" + errClass(err) + ")"
			return
		}
		j := pl.valueIndex(msg)
		obsCoq, human = fmt.Sprintf("(DOValue %d)", j), fmt.Sprintf("value %T", msg)
		if want, ok := harnessIDOf(msg); !ok || want != id {
			tyeq = false
		}
		if orig != nil && !valuesEqual(orig, msg) {
			valeq = false
		}
		if orig == nil && pl.dres[k] >= 0 && !valuesEqual(pl.vals[k], msg) {
			valeq = false
		}
	})
	if !returned {
		// neither a value nor an error: reported as what it is, compared as "no proper outcome"
		return lib.Case{Coq: fmt.Sprintf("CDecode %s %d DOPanic true true", pl.coq(&chunker{fills: pl.ctx.fills}), k),
			Class: "decode-" + in.Tag + "+hung",
			Obs:   map[string]interface{}{"input": shortHex(b), "result": "Unmarshal did not return"}, Nontrivial: true, Key: fmt.Sprintf("d|%x|hung", b)}
	}
	ch := &chunker{fills: pl.ctx.fills}
	coq := fmt.Sprintf("CDecode %s %d %s %s %s", pl.coq(ch), k, obsCoq, coqBool(valeq), coqBool(tyeq))
	return lib.Case{Coq: coq, Class: "decode-" + in.Tag,
		Obs:        map[string]interface{}{"input": shortHex(b), "result": human, "values_equal": valeq, "types_match": tyeq},
		Nontrivial: len(b) > 0, Key: fmt.Sprintf("d|%x", b)}
}

// ---- in-memory transport ------------------------------------------------------------

func runLocal(in *Input) (c lib.Case) {
	pl := &pool{}
	lm := network.NewLocalManager()
	defer lm.Stop()
	sidA, sidB := genIdentity(900011), genIdentity(900012)
	sidA = network.NewServerIdentity(sidA.Public, network.NewLocalAddress("127.0.0.1:2011"))
	sidB = network.NewServerIdentity(sidB.Public, network.NewLocalAddress("127.0.0.1:2012"))
	A, err := network.NewLocalRouterWithManager(lm, sidA, ed25519)
	if err != nil {
		return lib.Case{Discard: true}
	}
	B, err := network.NewLocalRouterWithManager(lm, sidB, ed25519)
	if err != nil {
		return lib.Case{Discard: true}
	}
	A.Quiet, B.Quiet = true, true
	registerProcs(B)
	var dl []delivered
	logMu.Lock()
	currentLog = &dl
	logMu.Unlock()
	go B.Start()
	for i := 0; i < 2000 && !B.Listening(); i++ {
		time.Sleep(200 * time.Microsecond)
	}
	var idx []int
	var vals []interface{}
	var sends []bool
	want := 0
	items := in.Items
	if in.Backlog > 0 {
		// numbered messages; the handler of the first one stays busy, so the two
		// queues of the connection (2 x LocalMaxBuffer) fill up and the sender has
		// to wait for room; then the handler lets go and everything drains
		items = nil
		for i := 0; i < in.Backlog; i++ {
			items = append(items, sentinel(1+i%97)) // numbered modulo 97: neighbours within 96 places are distinct, and the codec table of the Coq case stays small
		}
		gate := make(chan struct{})
		logMu.Lock()
		pauseGate = gate
		logMu.Unlock()
		var sent int64
		go func() {
			// open the gate once the sender is through or has not moved for 150 ms
			// (it waits for room), at the latest after 10 s; when exactly does not
			// matter for what a FIFO connection delivers
			last, still := int64(-1), 0
			for t := 0; t < 2000; t++ {
				time.Sleep(5 * time.Millisecond)
				n := atomic.LoadInt64(&sent)
				if n >= int64(in.Backlog) {
					break
				}
				if n == last {
					still++
					if still >= 30 {
						break
					}
				} else {
					last, still = n, 0
				}
			}
			logMu.Lock()
			pauseGate = nil
			logMu.Unlock()
			close(gate)
		}()
		sentCounter = &sent
	} else {
		sentCounter = nil
	}
	for _, is := range items {
		v := genValue(is.Val, &pl.ctx)
		mb, err := canonical(v)
		if err != nil {
			panic("generated value has no encoding: " + err.Error())
		}
		idx = append(idx, pl.add(mb))
		vals = append(vals, v)
		_, err = A.Send(sidB, v)
		sends = append(sends, err == nil)
		if err == nil {
			want++
		}
		if sentCounter != nil {
			atomic.AddInt64(sentCounter, 1)
		}
	}
	// the queue is drained by B's handleConn; the last message is a sentinel
	// (a message that never arrives is an observation: after the deadline the
	// case is evaluated with what did arrive)
	deadline := time.Now().Add(30 * time.Second)
	for {
		logMu.Lock()
		n := len(dl)
		logMu.Unlock()
		if n >= want || time.Now().After(deadline) {
			break
		}
		time.Sleep(200 * time.Microsecond)
	}
	time.Sleep(5 * time.Millisecond) // anything beyond the expected count shows up here
	logMu.Lock()
	currentLog = nil
	got := append([]delivered{}, dl...)
	logMu.Unlock()
	A.Stop()
	B.Stop()
	var dIdx []int
	valeq, tyeq := true, true
	usedL := make([]bool, len(vals))
	for _, d := range got {
		j := pl.valueIndex(d.msg)
		dIdx = append(dIdx, j)
		if wantID, ok := harnessIDOf(d.msg); !ok || wantID != d.id {
			tyeq = false
		}
		for i := range vals {
			if !usedL[i] && pl.dres[idx[i]] == j {
				usedL[i] = true
				if !valuesEqual(vals[i], d.msg) {
					valeq = false
				}
				break
			}
		}
	}
	ch := &chunker{fills: pl.ctx.fills}
	coq := fmt.Sprintf("CLocal %s %s %s %s %s %s false", pl.coq(ch), natList(idx), boolList(sends), natList(dIdx), coqBool(valeq), coqBool(tyeq))
	if len(sends) > 40 {
		ok := 0
		for _, b := range sends {
			if b {
				ok++
			}
		}
		return lib.Case{Coq: coq, Class: "local-" + in.Tag,
			Obs: map[string]interface{}{"sent": len(idx), "sends_returned_nil": ok, "delivered_count": len(got),
				"first_out_of_place": firstOutOfPlace(idx, dIdx), "values_equal": valeq, "types_match": tyeq},
			Nontrivial: true, Key: fmt.Sprintf("l|backlog|%d|%v", len(idx), dIdx)}
	}
	return lib.Case{Coq: coq, Class: "local-" + in.Tag,
		Obs: map[string]interface{}{"sent": len(idx), "sends_ok": sends, "delivered": describeDelivered(got),
			"values_equal": valeq, "types_match": tyeq},
		Nontrivial: len(idx) > 0, Key: fmt.Sprintf("l|%v|%s", idx, coq)}
}

var sentCounter *int64

// firstOutOfPlace: position of the first delivery that is not the message sent
// at that position (-1: none).
func firstOutOfPlace(sent, got []int) int {
	for i := range got {
		if i >= len(sent) || sent[i] != got[i] {
			return i
		}
	}
	if len(got) < len(sent) {
		return len(got)
	}
	return -1
}

// ---- several goroutines sending on one connection -----------------------------------

func runConc(in *Input) lib.Case {
	pl := &pool{}
	type sent struct {
		v interface{}
		k int
	}
	var all [][]sent
	var idx [][]int
	total := 0
	for _, s := range in.Senders {
		var row []sent
		var irow []int
		for i := range s {
			v := genValue(&s[i], &pl.ctx)
			mb, err := canonical(v)
			if err != nil {
				return lib.Case{Discard: true, Obs: "generated value has no encoding: " + err.Error()}
			}
			k := pl.add(mb)
			row = append(row, sent{v, k})
			irow = append(irow, k)
			total++
		}
		all = append(all, row)
		idx = append(idx, irow)
	}
	sendsBy := make([][]bool, len(all))
	var got []delivered
	var wireSeen []byte
	crash, note := "", ""
	openerFailed := false
	switch in.Level {
	case "conn":
		cap := newScriptConn(nil, true)
		cap.yield = true
		sc := network.VerifNewTCPConn(cap, ed25519)
		var wg sync.WaitGroup
		for g := range all {
			wg.Add(1)
			go func(g int) {
				defer wg.Done()
				for _, m := range all[g] {
					_, err := sc.Send(m.v)
					sendsBy[g] = append(sendsBy[g], err == nil)
				}
			}(g)
		}
		wg.Wait()
		wireSeen = append([]byte{}, cap.wrote.Bytes()...)
		o := receiveConn(cutSegments(wireSeen, nil, 997), pl)
		got, crash = o.delivered, o.crash
		if o.hung != "" {
			note = o.hung
		}
	case "tcp":
		var dl []delivered
		logMu.Lock()
		currentLog = &dl
		logMu.Unlock()
		sidB := network.NewServerIdentity(genIdentity(900002).Public, network.NewTCPAddress("127.0.0.1:0"))
		hostB, err := network.NewTCPHost(sidB, ed25519)
		if err != nil {
			return lib.Case{Discard: true, Obs: "listen: " + err.Error()} // nothing observed yet
		}
		sidB = network.NewServerIdentity(sidB.Public, hostB.Address())
		B := network.NewRouter(sidB, hostB)
		B.UnauthOk, B.Quiet = true, true
		registerProcs(B)
		go B.Start()
		for i := 0; i < 2000 && !B.Listening(); i++ {
			time.Sleep(200 * time.Microsecond)
		}
		sidA := network.NewServerIdentity(genIdentity(900003).Public, network.NewTCPAddress("127.0.0.1:0"))
		hostA, err := network.NewTCPHost(sidA, ed25519)
		if err != nil {
			B.Stop()
			return lib.Case{Discard: true, Obs: "listen: " + err.Error()} // nothing observed yet
		}
		A := network.NewRouter(sidA, hostA)
		A.UnauthOk, A.Quiet = true, true
		// open the connection first: concurrent first Sends would each connect
		if _, err := A.Send(sidB, &Sentinel{Seq: 424242}); err != nil {
			// a Send that fails on a fresh connection to a listening router IS the
			// observation: the case is evaluated with nothing delivered
			openerFailed = true
			note = "the Send that opens the connection failed: " + err.Error()
		}
		var wg sync.WaitGroup
		for g := range all {
			if openerFailed {
				break
			}
			wg.Add(1)
			go func(g int) {
				defer wg.Done()
				for _, m := range all[g] {
					_, err := A.Send(sidB, m.v)
					sendsBy[g] = append(sendsBy[g], err == nil)
				}
			}(g)
		}
		wg.Wait()
		deadline := time.Now().Add(30 * time.Second)
		if openerFailed {
			deadline = time.Now()
		}
		for {
			logMu.Lock()
			n := len(dl)
			logMu.Unlock()
			if n >= total+1 || time.Now().After(deadline) {
				break
			}
			time.Sleep(300 * time.Microsecond)
		}
		time.Sleep(5 * time.Millisecond)
		logMu.Lock()
		currentLog = nil
		openerSeen := false
		for _, d := range dl {
			// the opener is expected exactly once, in front; a second copy stays in the log
			if s, ok := d.msg.(*Sentinel); ok && s.Seq == 424242 && !openerSeen && len(got) == 0 {
				openerSeen = true
				continue
			}
			got = append(got, d)
		}
		logMu.Unlock()
		if !openerSeen && !openerFailed {
			note = "the message that opened the connection was not the first delivery"
			// the loss of the opener must not be hidden by stripping it: a stand-in that
			// no sender sent makes the delivered list differ from every merge
			sid, _ := harnessIDOf(&Sentinel{})
			got = append([]delivered{{sid, &Sentinel{Seq: 424243}}}, got...)
		}
		A.Stop()
		B.Stop()
	}
	var sends []bool
	if openerFailed {
		sends = append(sends, false)
	}
	for _, r := range sendsBy {
		sends = append(sends, r...)
	}
	var dIdx []int
	valeq, tyeq := true, true
	used := map[[2]int]bool{}
	for _, d := range got {
		j := pl.valueIndex(d.msg)
		dIdx = append(dIdx, j)
		if want, ok := harnessIDOf(d.msg); !ok || want != d.id {
			tyeq = false
		}
		for g := range all {
			for i, m := range all[g] {
				if !used[[2]int{g, i}] && pl.dres[m.k] == j {
					used[[2]int{g, i}] = true
					if !valuesEqual(m.v, d.msg) {
						valeq = false
					}
					goto next
				}
			}
		}
	next:
	}
	var rows []string
	for _, r := range idx {
		rows = append(rows, natList(r))
	}
	ch := &chunker{fills: pl.ctx.fills}
	owire := "None"
	if in.Level == "conn" {
		chw := &chunker{fills: pl.ctx.fills, pool: pl.entries}
		owire = "(Some " + chw.encode(wireSeen) + ")"
	}
	coq := fmt.Sprintf("CConc %s [%s] %s %d%%N %s %s %s %s %s", pl.coq(ch), strings.Join(rows, "; "), boolList(sends),
		uint32(network.MaxPacketSize), owire, natList(dIdx), coqBool(valeq), coqBool(tyeq), coqBool(crash != ""))
	obs := map[string]interface{}{"senders": len(all), "sent": total, "sends_ok": sends, "delivered": describeDelivered(got),
		"values_equal": valeq, "types_match": tyeq}
	if crash != "" {
		obs["crash"] = crash
	}
	if note != "" {
		obs["note"] = note
	}
	return lib.Case{Coq: coq, Class: in.Level + "-" + in.Tag, Obs: obs, Nontrivial: total > 1, Key: coq}
}

// ---- a sequence of cases in one process (decoding with several suites in a given order) ----

func runSeq(in *Input) lib.Case {
	var coqs []string
	var obs []interface{}
	for i := range in.Steps {
		st := in.Steps[i]
		curSuite = suiteByName(st.Suite)
		var c lib.Case
		switch st.Kind {
		case "stream":
			c = runStream(&st)
		case "decode":
			c = runDecode(&st)
		default:
			panic("seq: unsupported step kind " + st.Kind)
		}
		if c.Discard {
			return lib.Case{Discard: true, Obs: c.Obs}
		}
		coqs = append(coqs, "("+c.Coq+")")
		obs = append(obs, map[string]interface{}{"step": i, "suite": st.Suite, "class": c.Class, "obs": c.Obs})
	}
	return lib.Case{Coq: "CSeq [" + strings.Join(coqs, ";\n    ") + "]", Class: "seq-" + in.Tag, Obs: obs, Nontrivial: true,
		Key: "seq|" + in.Tag + "|" + strings.Join(coqs, "|")}
}

// ---- the type ids of the registered message types ------------------------------------------

func runTypeIDs(in *Input) lib.Case {
	ch := &chunker{}
	var ids, names []string
	for i, id := range registeredIDs {
		ids = append(ids, ch.encode(id))
		names = append(names, regTypes[i].typ.String())
	}
	obs := map[string]interface{}{"types": names}
	if len(idCollisions) > 0 {
		obs["same_id"] = idCollisions
	}
	return lib.Case{Coq: "CTypeIds [" + strings.Join(ids, "; ") + "]", Class: "typeids-" + in.Tag, Obs: obs, Nontrivial: true, Key: "typeids"}
}

func runInput(raw json.RawMessage) lib.Case {
	var in Input
	if err := json.Unmarshal(raw, &in); err != nil {
		panic(err)
	}
	defer func() {
		log.GetStdOut()
		log.GetStdErr()
	}()
	curSuite = suiteByName(in.Suite)
	defer func() { curSuite = ed25519 }()
	switch in.Kind {
	case "seq":
		return runSeq(&in)
	case "typeids":
		return runTypeIDs(&in)
	case "stream":
		return runStream(&in)
	case "decode":
		return runDecode(&in)
	case "local":
		return runLocal(&in)
	case "conc":
		return runConc(&in)
	}
	panic("unknown input kind " + in.Kind)
}

func portOfAddr(a string) int {
	_, p, err := net.SplitHostPort(a)
	if err != nil {
		return -1
	}
	n := 0
	for _, c := range p {
		if c < '0' || c > '9' {
			return -1
		}
		n = n*10 + int(c-'0')
	}
	return n
}
