package main

import (
	"bytes"
	"encoding/binary"
	"fmt"
	"sort"
	"strings"
)

// lcgFill is the filler of Base/BytesC03.v (lcg_fill): same recurrence, same byte.
func lcgFill(seed uint64, n int) []byte {
	out := make([]byte, n)
	s := seed
	for i := 0; i < n; i++ {
		s = (141*s + 28411) & 65535
		out[i] = byte(s >> 8)
	}
	return out
}

func be32(n uint32) []byte {
	var b [4]byte
	binary.BigEndian.PutUint32(b[:], n)
	return b[:]
}

func frameOf(p []byte) []byte { return append(be32(uint32(len(p))), p...) }

// fill describes a filler the generator used, so that the chunk encoder can
// write it as (G seed n) instead of n literals.
type fill struct {
	Seed uint64
	N    int
}

// chunker turns byte strings into the chunk notation of Base/BytesC03.v.
type chunker struct {
	fills []fill
	pool  [][]byte // when non-nil, occurrences of pool entries become (P k)
}

func litChunk(b []byte) string {
	var sb strings.Builder
	sb.WriteString("L [")
	for i, x := range b {
		if i > 0 {
			sb.WriteByte(';')
		}
		fmt.Fprintf(&sb, "x%02x", x)
	}
	sb.WriteString("]")
	return sb.String()
}

type span struct {
	from, to int
	coq      string
}

// encode returns a Coq term of type (list chunk) whose expansion is exactly b.
func (c *chunker) encode(b []byte) string {
	var spans []span
	taken := func(from, to int) bool {
		for _, s := range spans {
			if from < s.to && s.from < to {
				return true
			}
		}
		return false
	}
	// pool references, longest entries first
	if c.pool != nil {
		idx := make([]int, len(c.pool))
		for i := range idx {
			idx[i] = i
		}
		sort.SliceStable(idx, func(a, b int) bool { return len(c.pool[idx[a]]) > len(c.pool[idx[b]]) })
		for _, k := range idx {
			p := c.pool[k]
			if len(p) < 8 {
				continue
			}
			off := 0
			for {
				i := bytes.Index(b[off:], p)
				if i < 0 {
					break
				}
				i += off
				if !taken(i, i+len(p)) {
					spans = append(spans, span{i, i + len(p), fmt.Sprintf("P %d", k)})
				}
				off = i + 1
			}
		}
	}
	// generated fillers (also prefixes of them, e.g. after a truncation)
	for _, f := range c.fills {
		if f.N < 24 {
			continue
		}
		full := lcgFill(f.Seed, f.N)
		off := 0
		for {
			i := bytes.Index(b[off:], full[:16])
			if i < 0 {
				break
			}
			i += off
			n := 0
			for i+n < len(b) && n < len(full) && b[i+n] == full[n] {
				n++
			}
			if n >= 24 && !taken(i, i+n) {
				spans = append(spans, span{i, i + n, fmt.Sprintf("G %d%%N %d%%N", f.Seed, n)})
			}
			off = i + 16
		}
	}
	// runs of one byte
	for i := 0; i < len(b); {
		j := i
		for j < len(b) && b[j] == b[i] {
			j++
		}
		if j-i >= 24 {
			// trim against taken spans
			if !taken(i, j) {
				spans = append(spans, span{i, j, fmt.Sprintf("R x%02x %d%%N", b[i], j-i)})
			}
		}
		i = j
	}
	sort.Slice(spans, func(a, b int) bool { return spans[a].from < spans[b].from })
	var parts []string
	pos := 0
	for _, s := range spans {
		if s.from < pos {
			continue
		}
		if s.from > pos {
			parts = append(parts, litChunk(b[pos:s.from]))
		}
		parts = append(parts, s.coq)
		pos = s.to
	}
	if pos < len(b) {
		parts = append(parts, litChunk(b[pos:]))
	}
	return "[" + strings.Join(parts, "; ") + "]"
}

func natList(xs []int) string {
	s := make([]string, len(xs))
	for i, x := range xs {
		s[i] = fmt.Sprint(x)
	}
	return "[" + strings.Join(s, "; ") + "]"
}

func nList(xs []int) string {
	if len(xs) == 0 {
		return "[]"
	}
	s := make([]string, len(xs))
	for i, x := range xs {
		s[i] = fmt.Sprint(x)
	}
	return "[" + strings.Join(s, "; ") + "]%N"
}

func boolList(xs []bool) string {
	s := make([]string, len(xs))
	for i, x := range xs {
		if x {
			s[i] = "true"
		} else {
			s[i] = "false"
		}
	}
	return "[" + strings.Join(s, "; ") + "]"
}

func coqBool(b bool) string {
	if b {
		return "true"
	}
	return "false"
}
