package main

import (
	"reflect"

	"bytes"
	"encoding/hex"
	"fmt"
	"go.dedis.ch/protobuf"
	"strings"
)

func unhex(s string) []byte {
	b, err := hex.DecodeString(s)
	if err != nil {
		panic(err)
	}
	return b
}

// PayloadSpec builds one message buffer (type id ++ body) or an arbitrary byte
// string used in its place.
type PayloadSpec struct {
	Val   *ValSpec   `json:"val,omitempty"`   // network.Marshal of this value ...
	Parts []PartSpec `json:"parts,omitempty"` // ... or explicit bytes
	Mut   []MutOp    `json:"mut,omitempty"`   // then these edits, in order
}

// MutOp edits a buffer.
type MutOp struct {
	Op  string `json:"op"` // flip trunc append setid ghostid zerobody
	Pos int    `json:"pos,omitempty"`
	Bit int    `json:"bit,omitempty"`
	N   int    `json:"n,omitempty"`
	Hex string `json:"hex,omitempty"`
}

func buildPayload(ps *PayloadSpec, ctx *genCtx) []byte {
	var b []byte
	if ps.Val != nil {
		v := genValue(ps.Val, ctx)
		mb, err := canonical(v)
		if err != nil {
			panic(fmt.Sprintf("generated value has no encoding: %v", err))
		}
		b = append([]byte{}, mb...)
	} else {
		b = buildParts(ps.Parts, ctx)
	}
	for _, m := range ps.Mut {
		switch m.Op {
		case "flip":
			if len(b) > 0 {
				b[m.Pos%len(b)] ^= 1 << uint(m.Bit%8)
			}
		case "trunc":
			if m.N < len(b) {
				b = b[:m.N]
			}
		case "append":
			b = append(b, unhex(m.Hex)...)
		case "setid":
			id := unhex(m.Hex)
			if len(b) >= 16 && len(id) == 16 {
				copy(b, id)
			}
		case "ghostid":
			if len(b) >= 16 {
				copy(b, ghostID(uint64(m.N)))
			}
		case "zerobody":
			for i := 16; i < len(b); i++ {
				b[i] = 0xff
			}
		}
	}
	return b
}

// pool of message buffers of one case, with the oracle's verdict per entry.
type pool struct {
	ctx     genCtx
	entries [][]byte
	reg     []bool
	dres    []int // >= 0: DVal k; -1: DErr
	vals    []interface{}
}

func (p *pool) find(b []byte) int {
	for i, e := range p.entries {
		if bytes.Equal(e, b) {
			return i
		}
	}
	return -1
}

// add inserts b (if new), asks the oracle about it and makes sure the canonical
// re-encoding of what it decodes to is in the pool as well.
func (p *pool) add(b []byte) int { return p.addDepth(b, 0) }

func (p *pool) addDepth(b []byte, depth int) int {
	if i := p.find(b); i >= 0 {
		return i
	}
	i := len(p.entries)
	p.entries = append(p.entries, append([]byte{}, b...))
	p.reg = append(p.reg, false)
	p.dres = append(p.dres, -1)
	p.vals = append(p.vals, nil)
	reg, val, err := oracle(b)
	p.reg[i] = reg
	if reg && err == nil {
		p.vals[i] = val
		cb, cerr := canonical(val)
		switch {
		case cerr != nil:
			p.dres[i] = -1
		case bytes.Equal(cb, b) || depth > 3:
			p.dres[i] = i
		default:
			p.dres[i] = p.addDepth(cb, depth+1)
		}
	}
	return i
}

// addValue inserts the canonical buffer b of a value v the harness itself
// generated. Its verdict does not go through the id table: v's own type decodes
// b (checked with the library), so b is a valid message of a registered type
// whatever other type may claim the same id.
func (p *pool) addValue(v interface{}, b []byte) int {
	if i := p.find(b); i >= 0 {
		return i
	}
	t := reflect.TypeOf(v)
	if t.Kind() == reflect.Ptr {
		t = t.Elem()
	}
	ptr := reflect.New(t).Interface()
	if err := protobuf.DecodeWithConstructors(b[16:], ptr, ownConstructors(curSuite)); err != nil || !valuesEqual(v, ptr) {
		return p.add(b) // the library itself does not round-trip this value: fall back to the table
	}
	i := len(p.entries)
	p.entries = append(p.entries, append([]byte{}, b...))
	p.reg = append(p.reg, true)
	p.dres = append(p.dres, i)
	p.vals = append(p.vals, ptr)
	return i
}

// valueIndex: pool index of the canonical encoding of a value that came out of
// the implementation.
func (p *pool) valueIndex(v interface{}) int {
	cb, err := canonical(v)
	if err != nil {
		return p.add([]byte("unencodable:" + err.Error()))
	}
	return p.add(cb)
}

func (p *pool) coq(ch *chunker) string {
	var parts []string
	for i, e := range p.entries {
		d := "DErr"
		if p.dres[i] >= 0 {
			d = fmt.Sprintf("(DVal %d)", p.dres[i])
		}
		parts = append(parts, fmt.Sprintf("PE %s %s %s", ch.encode(e), coqBool(p.reg[i]), d))
	}
	return "[" + strings.Join(parts, ";\n     ") + "]"
}

func shortHex(b []byte) string {
	if len(b) <= 48 {
		return hex.EncodeToString(b)
	}
	return fmt.Sprintf("%s..(%d bytes)..%s", hex.EncodeToString(b[:24]), len(b), hex.EncodeToString(b[len(b)-8:]))
}
