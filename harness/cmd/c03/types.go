package main

import (
	"bytes"
	"fmt"
	"math"
	"math/rand"
	"reflect"

	"go.dedis.ch/kyber/v3"
	"go.dedis.ch/kyber/v3/pairing/bn256"
	"go.dedis.ch/kyber/v3/suites"
	"go.dedis.ch/kyber/v3/util/random"
	"go.dedis.ch/onet/v3/network"
	"go.dedis.ch/protobuf"

	"verifharness/cmd/c03/other"
)

// ---- message shapes of the harness ------------------------------------------

// Inner: scalars of every kind the encoding library carries.
type Inner struct {
	A    int64
	B    []byte
	S    string
	F    float64
	U    uint64
	I32  int32
	U32  uint32
	Flag bool
	I    int
}

// Nested: nested structs, slices of structs and scalars, optional pointers,
// a recursive optional pointer.
type Nested struct {
	Head  Inner
	Opt   *Inner
	List  []Inner
	Nums  []int64
	Unums []uint32
	Names []string
	Blobs [][]byte
	Deep  *Nested
}

// Crypto: points and scalars behind the kyber interfaces.
type Crypto struct {
	P  kyber.Point
	S  kyber.Scalar
	Ps []kyber.Point
	Ss []kyber.Scalar
}

// Blob: one byte string (empty, small, near the limit, above it).
type Blob struct{ Data []byte }

// Empty: no fields at all -- the buffer is the bare type id.
type Empty struct{}

// Sentinel closes every stream sent over real TCP.
type Sentinel struct{ Seq uint32 }

// Ghost is never registered: its id is a well-formed but unknown type id.
type Ghost struct{ X uint32 }

var ed25519 = suites.MustFind("Ed25519")
var p256 = suites.MustFind("P256")

// curSuite is the suite of the connections / decoder calls of the case being
// run (Ed25519 unless the input says otherwise).
var curSuite network.Suite = ed25519

func suiteByName(n string) network.Suite {
	if n == "P256" {
		return p256
	}
	return ed25519
}

// ownConstructors: what network.DefaultConstructors is documented to return for
// the suite, built by the harness itself for its oracle.
func ownConstructors(suite network.Suite) protobuf.Constructors {
	c := make(protobuf.Constructors)
	c[pointT] = func() interface{} { return suite.Point() }
	c[scalarT] = func() interface{} { return suite.Scalar() }
	return c
}

// idCollisions lists registered types whose id equals that of a type registered before.
var idCollisions []string
var registeredIDs [][]byte
var pairing = bn256.NewSuite()

type regType struct {
	name string
	typ  reflect.Type
	id   network.MessageTypeID
}

var regTypes []regType
var idToType = map[network.MessageTypeID]reflect.Type{}

func registerTypes() {
	for _, m := range []struct {
		name string
		v    interface{}
	}{
		{"inner", &Inner{}}, {"nested", &Nested{}}, {"crypto", &Crypto{}},
		{"blob", &Blob{}}, {"empty", &Empty{}}, {"sentinel", &Sentinel{}},
		{"otherblob", &other.Blob{}}, // same bare name as Blob, other package
	} {
		id := network.RegisterMessage(m.v)
		t := reflect.TypeOf(m.v).Elem()
		regTypes = append(regTypes, regType{m.name, t, id})
		registeredIDs = append(registeredIDs, append([]byte{}, id[:]...))
		if prev, dup := idToType[id]; dup && prev != t {
			idCollisions = append(idCollisions, fmt.Sprintf("%v and %v share id %x", prev, t, id[:]))
			continue // the table keeps the first: each type's buffers are judged by its own type below
		}
		idToType[id] = t
	}
	idToType[network.ServerIdentityType] = reflect.TypeOf(network.ServerIdentity{})
}

// ghostID is a well-formed 16-byte type id that is certainly not registered.
func ghostID(seed uint64) []byte { return lcgFill(seed^0x5eed, 16) }

// ---- value generator -----------------------------------------------------------

// ValSpec regenerates one Go value deterministically.
type ValSpec struct {
	Type string `json:"type"` // inner nested crypto blob empty sentinel identity
	Seed int64  `json:"seed"`
	Size int    `json:"size"`           // rough size knob (slice lengths, blob length)
	Fill string `json:"fill,omitempty"` // blob only: "lcg" (default) | "zero" | "parts"
	// blob with explicit content (smuggling witnesses)
	Parts []PartSpec `json:"parts,omitempty"`
}

// PartSpec builds bytes: exactly one of the fields is used.
type PartSpec struct {
	Hex   string       `json:"hex,omitempty"`
	Fill  *fill        `json:"fill,omitempty"`
	Rep   *[2]int      `json:"rep,omitempty"`   // [byte, count]
	Frame *PayloadSpec `json:"frame,omitempty"` // size ++ payload
}

type genCtx struct {
	fills []fill
}

func boundedInt64(rng *rand.Rand) int64 {
	// the encoding library is lossless for |v| < 2^62 (zig-zag decoding of
	// larger magnitudes inside packed slices flips the sign): stay inside
	switch rng.Intn(6) {
	case 0:
		return 0
	case 1:
		return int64(rng.Intn(256)) - 128
	case 2:
		return (1 << 62) - 1
	case 3:
		return -(1 << 62) + 1
	default:
		return rng.Int63n(1<<62) - (1 << 61)
	}
}

func genBytes(rng *rand.Rand, ctx *genCtx, max int) []byte {
	n := 0
	switch rng.Intn(4) {
	case 0:
		n = 0
	case 1:
		n = rng.Intn(4)
	default:
		n = rng.Intn(max + 1)
	}
	if n >= 24 {
		seed := uint64(rng.Int63n(1 << 16))
		ctx.fills = append(ctx.fills, fill{seed, n})
		return lcgFill(seed, n)
	}
	b := make([]byte, n)
	rng.Read(b)
	return b
}

func genString(rng *rand.Rand, max int) string {
	n := rng.Intn(max + 1)
	const al = "abcdefghijklmnopqrstuvwxyz0123456789 -_/:äé"
	r := []rune(al)
	out := make([]rune, n)
	for i := range out {
		out[i] = r[rng.Intn(len(r))]
	}
	return string(out)
}

func genInner(rng *rand.Rand, ctx *genCtx, size int) Inner {
	if rng.Intn(8) == 0 {
		return Inner{}
	}
	in := Inner{
		A:    boundedInt64(rng),
		B:    genBytes(rng, ctx, 4+size),
		S:    genString(rng, 2+size/2),
		U:    rng.Uint64(),
		I32:  int32(rng.Uint32()),
		U32:  rng.Uint32(),
		Flag: rng.Intn(2) == 0,
		I:    int(boundedInt64(rng)),
	}
	switch rng.Intn(5) {
	case 0:
		in.F = 0
	case 1:
		in.F = math.Inf(1)
	case 2:
		in.F = -1.5e300
	default:
		in.F = rng.NormFloat64()
	}
	if rng.Intn(4) == 0 {
		in.U = math.MaxUint64
	}
	return in
}

func genNested(rng *rand.Rand, ctx *genCtx, size, depth int) *Nested {
	n := &Nested{Head: genInner(rng, ctx, size)}
	if rng.Intn(2) == 0 {
		in := genInner(rng, ctx, size)
		n.Opt = &in
	}
	for i := rng.Intn(1 + size/4); i > 0; i-- {
		n.List = append(n.List, genInner(rng, ctx, size/2))
	}
	for i := rng.Intn(2 + size/2); i > 0; i-- {
		n.Nums = append(n.Nums, boundedInt64(rng))
	}
	for i := rng.Intn(2 + size/2); i > 0; i-- {
		n.Unums = append(n.Unums, rng.Uint32())
	}
	for i := rng.Intn(1 + size/4); i > 0; i-- {
		n.Names = append(n.Names, genString(rng, 6))
	}
	for i := rng.Intn(1 + size/4); i > 0; i-- {
		n.Blobs = append(n.Blobs, genBytes(rng, ctx, 6))
	}
	if depth > 0 && rng.Intn(3) == 0 {
		n.Deep = genNested(rng, ctx, size/2, depth-1)
	}
	return n
}

func genPoint(rng *rand.Rand) kyber.Point {
	st := random.New(rng)
	switch rng.Intn(5) {
	case 0:
		return pairing.G1().Point().Pick(st)
	case 1:
		return pairing.G2().Point().Pick(st)
	case 2:
		return pairing.GT().Point().Pick(st)
	case 3:
		return ed25519.Point().Null()
	default:
		return ed25519.Point().Pick(st)
	}
}

func genScalar(rng *rand.Rand) kyber.Scalar {
	st := random.New(rng)
	switch rng.Intn(4) {
	case 0:
		return pairing.G1().Scalar().Pick(st)
	case 1:
		return ed25519.Scalar().Zero()
	default:
		return ed25519.Scalar().Pick(st)
	}
}

func genCrypto(rng *rand.Rand, size int) *Crypto {
	c := &Crypto{}
	if rng.Intn(6) != 0 {
		c.P = genPoint(rng)
	}
	if rng.Intn(6) != 0 {
		c.S = genScalar(rng)
	}
	for i := rng.Intn(1 + size/8); i > 0; i-- {
		c.Ps = append(c.Ps, genPoint(rng))
	}
	for i := rng.Intn(1 + size/8); i > 0; i-- {
		c.Ss = append(c.Ss, genScalar(rng))
	}
	return c
}

var identityCache = map[int64]*network.ServerIdentity{}

func genIdentity(seed int64) *network.ServerIdentity {
	if si, ok := identityCache[seed]; ok {
		return si
	}
	rng := rand.New(rand.NewSource(seed ^ 0x1d))
	st := random.New(rng)
	priv := ed25519.Scalar().Pick(st)
	pub := ed25519.Point().Mul(priv, nil)
	si := network.NewServerIdentity(pub, network.NewTCPAddress(fmt.Sprintf("127.0.0.1:%d", 2000+seed%1000)))
	si.SetPrivate(priv)
	si.Description = fmt.Sprintf("verif-%d", seed)
	identityCache[seed] = si
	return si
}

// blobForPayload returns the Data length whose Marshal output has exactly n
// bytes (n >= 18): 16 id + 1 key + varint(len) + len.
func blobDataLen(n int) int {
	for l := n - 18; l >= 0 && l >= n-28; l-- {
		if 16+1+uvarintLen(uint64(l))+l == n {
			return l
		}
	}
	return -1
}

func uvarintLen(x uint64) int {
	n := 1
	for x >= 0x80 {
		x >>= 7
		n++
	}
	return n
}

func buildParts(parts []PartSpec, ctx *genCtx) []byte {
	var out []byte
	for _, p := range parts {
		switch {
		case p.Hex != "":
			out = append(out, unhex(p.Hex)...)
		case p.Fill != nil:
			ctx.fills = append(ctx.fills, *p.Fill)
			out = append(out, lcgFill(p.Fill.Seed, p.Fill.N)...)
		case p.Rep != nil:
			out = append(out, bytes.Repeat([]byte{byte(p.Rep[0])}, p.Rep[1])...)
		case p.Frame != nil:
			out = append(out, frameOf(buildPayload(p.Frame, ctx))...)
		}
	}
	return out
}

func genValue(vs *ValSpec, ctx *genCtx) interface{} {
	rng := rand.New(rand.NewSource(vs.Seed))
	switch vs.Type {
	case "inner":
		in := genInner(rng, ctx, vs.Size)
		return &in
	case "nested":
		return genNested(rng, ctx, vs.Size, 2)
	case "crypto":
		return genCrypto(rng, vs.Size)
	case "blob":
		switch vs.Fill {
		case "zero":
			return &Blob{Data: make([]byte, vs.Size)}
		case "parts":
			return &Blob{Data: buildParts(vs.Parts, ctx)}
		}
		if vs.Size >= 24 {
			f := fill{uint64(vs.Seed) % (1 << 16), vs.Size}
			ctx.fills = append(ctx.fills, f)
			return &Blob{Data: lcgFill(f.Seed, f.N)}
		}
		b := make([]byte, vs.Size)
		rng.Read(b)
		return &Blob{Data: b}
	case "otherblob":
		return &other.Blob{N: boundedInt64(rng), Note: genString(rng, 4+vs.Size)}
	case "cryptop256":
		st := random.New(rng)
		c := &Crypto{P: p256.Point().Pick(st), S: p256.Scalar().Pick(st)}
		for i := rng.Intn(3); i > 0; i-- {
			c.Ps = append(c.Ps, p256.Point().Pick(st))
		}
		return c
	case "empty":
		return &Empty{}
	case "sentinel":
		return &Sentinel{Seq: uint32(vs.Seed)}
	case "identity":
		return genIdentity(vs.Seed)
	}
	panic("unknown value type " + vs.Type)
}

// ---- deep equality of message values -------------------------------------------

// valuesEqual: same dynamic type and equal contents; kyber points / scalars by
// Equal, floats by bit pattern, nil and empty slices identified (the encoding
// has one representation for both), unexported fields ignored (never sent).
func valuesEqual(a, b interface{}) bool {
	if a == nil || b == nil {
		return a == nil && b == nil
	}
	va, vb := reflect.ValueOf(a), reflect.ValueOf(b)
	if va.Type() != vb.Type() {
		return false
	}
	return deepEq(va, vb)
}

var pointT = reflect.TypeOf((*kyber.Point)(nil)).Elem()
var scalarT = reflect.TypeOf((*kyber.Scalar)(nil)).Elem()

func deepEq(a, b reflect.Value) bool {
	switch a.Kind() {
	case reflect.Ptr:
		if a.IsNil() || b.IsNil() {
			return a.IsNil() && b.IsNil()
		}
		return deepEq(a.Elem(), b.Elem())
	case reflect.Interface:
		if a.IsNil() || b.IsNil() {
			return a.IsNil() && b.IsNil()
		}
		if a.Type() == pointT {
			pa, pb := a.Interface().(kyber.Point), b.Interface().(kyber.Point)
			if reflect.TypeOf(pa) != reflect.TypeOf(pb) {
				return false
			}
			return pa.Equal(pb)
		}
		if a.Type() == scalarT {
			sa, sb := a.Interface().(kyber.Scalar), b.Interface().(kyber.Scalar)
			if reflect.TypeOf(sa) != reflect.TypeOf(sb) {
				return false
			}
			return sa.Equal(sb)
		}
		if a.Elem().Type() != b.Elem().Type() {
			return false
		}
		return deepEq(a.Elem(), b.Elem())
	case reflect.Struct:
		for i := 0; i < a.NumField(); i++ {
			if a.Type().Field(i).PkgPath != "" {
				continue
			}
			if !deepEq(a.Field(i), b.Field(i)) {
				return false
			}
		}
		return true
	case reflect.Slice, reflect.Array:
		if a.Len() != b.Len() {
			return false
		}
		for i := 0; i < a.Len(); i++ {
			if !deepEq(a.Index(i), b.Index(i)) {
				return false
			}
		}
		return true
	case reflect.Float32, reflect.Float64:
		return math.Float64bits(a.Float()) == math.Float64bits(b.Float())
	case reflect.String:
		return a.String() == b.String()
	case reflect.Bool:
		return a.Bool() == b.Bool()
	case reflect.Int, reflect.Int8, reflect.Int16, reflect.Int32, reflect.Int64:
		return a.Int() == b.Int()
	case reflect.Uint, reflect.Uint8, reflect.Uint16, reflect.Uint32, reflect.Uint64:
		return a.Uint() == b.Uint()
	}
	return reflect.DeepEqual(a.Interface(), b.Interface())
}

// ---- the codec oracle: the protobuf library called directly ----------------------

// canonical returns id ++ protobuf.Encode(v) -- what a sender of v puts in a
// frame -- computed without onet's Marshal.
func canonical(v interface{}) ([]byte, error) {
	t := reflect.TypeOf(v)
	if t.Kind() == reflect.Ptr {
		t = t.Elem()
	}
	var id network.MessageTypeID
	found := false
	for _, r := range regTypes {
		if r.typ == t {
			id, found = r.id, true
		}
	}
	if !found {
		for k, rt := range idToType {
			if rt == t {
				id, found = k, true
			}
		}
	}
	if !found {
		return nil, fmt.Errorf("type %v not known to the harness", t)
	}
	body, err := protobuf.Encode(v)
	if err != nil {
		return nil, err
	}
	return append(append([]byte{}, id[:]...), body...), nil
}

// harnessIDOf: the type id under which the harness registered v's type (taken
// from the harness's own table, not asked of the implementation again).
func harnessIDOf(v interface{}) (network.MessageTypeID, bool) {
	if v == nil {
		return network.MessageTypeID{}, false
	}
	t := reflect.TypeOf(v)
	if t.Kind() == reflect.Ptr {
		t = t.Elem()
	}
	for _, r := range regTypes {
		if r.typ == t {
			return r.id, true
		}
	}
	for k, rt := range idToType {
		if rt == t {
			return k, true
		}
	}
	return network.MessageTypeID{}, false
}

// oracle: is the buffer's id registered, and what does protobuf make of the body.
func oracle(buf []byte) (reg bool, val interface{}, err error) {
	if len(buf) < 16 {
		return false, nil, nil
	}
	var id network.MessageTypeID
	copy(id[:], buf[:16])
	t, ok := idToType[id]
	if !ok {
		return false, nil, nil
	}
	ptr := reflect.New(t).Interface()
	defer func() {
		if r := recover(); r != nil {
			val, err = nil, fmt.Errorf("protobuf panic: %v", r)
		}
	}()
	if e := protobuf.DecodeWithConstructors(buf[16:], ptr, ownConstructors(curSuite)); e != nil {
		return true, nil, e
	}
	return true, ptr, nil
}
