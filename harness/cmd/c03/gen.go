package main

import (
	"encoding/hex"
	"math/rand"
	"strings"
)

const defaultLimit = 10 * 1024 * 1024

func msg(vs *ValSpec) ItemSpec       { return ItemSpec{Kind: "msg", Val: vs} }
func frame(ps *PayloadSpec) ItemSpec { return ItemSpec{Kind: "frame", Payload: ps} }
func rawHex(h string) ItemSpec       { return ItemSpec{Kind: "raw", Raw: []PartSpec{{Hex: h}}} }
func blob(n int, seed int64) *ValSpec {
	return &ValSpec{Type: "blob", Seed: seed, Size: n}
}
func sentinel(seq int) ItemSpec {
	return msg(&ValSpec{Type: "sentinel", Seed: int64(seq)})
}

func randVal(rng *rand.Rand, size int) *ValSpec {
	types := []string{"inner", "nested", "crypto", "blob", "empty", "inner", "nested", "blob"}
	t := types[rng.Intn(len(types))]
	vs := &ValSpec{Type: t, Seed: rng.Int63n(1 << 40), Size: rng.Intn(size + 1)}
	if t == "blob" && rng.Intn(3) == 0 {
		vs.Size = rng.Intn(6)
	}
	return vs
}

// payloadLen measures what Marshal makes of a value (the generator needs
// lengths to place cuts and to hit the limit exactly).
func payloadLen(vs *ValSpec) int {
	b, err := canonical(genValue(vs, &genCtx{}))
	if err != nil {
		panic(err)
	}
	return len(b)
}

func wireLen(items []ItemSpec) int {
	n := 0
	ctx := &genCtx{}
	for _, it := range items {
		switch it.Kind {
		case "msg":
			n += 4 + payloadLen(it.Val)
		case "frame":
			n += 4 + len(buildPayload(it.Payload, ctx))
		case "raw":
			n += len(buildParts(it.Raw, ctx))
		}
	}
	return n
}

// blobOfPayloadLen: a blob whose marshalled buffer has exactly n bytes (n >= 18).
func blobOfPayloadLen(n int, seed int64) *ValSpec {
	l := blobDataLen(n)
	if l < 0 {
		l = blobDataLen(n + 1) // lengths that a varint boundary skips
	}
	return blob(l, seed)
}

type cutStyle struct {
	cuts  []int
	every int
}

func randCuts(rng *rand.Rand, total int) cutStyle {
	switch rng.Intn(7) {
	case 0:
		return cutStyle{}
	case 1:
		return cutStyle{every: 1}
	case 2:
		return cutStyle{every: 2 + rng.Intn(8)}
	case 3:
		if total > 1 {
			return cutStyle{cuts: []int{1 + rng.Intn(total-1)}}
		}
		return cutStyle{}
	default:
		var cuts []int
		left := total
		for left > 0 && len(cuts) < 12 {
			var c int
			switch rng.Intn(4) {
			case 0:
				c = 1 + rng.Intn(4)
			case 1:
				c = 1 + rng.Intn(24)
			default:
				c = 1 + rng.Intn(1+total/3)
			}
			if rng.Intn(15) == 0 {
				c = 0 // an empty segment
			}
			cuts = append(cuts, c)
			left -= c
		}
		return cutStyle{cuts: cuts}
	}
}

func stream(level, tag string, limit int, items []ItemSpec, cs cutStyle) Input {
	return Input{Kind: "stream", Tag: tag, Level: level, Limit: uint32(limit), Items: items, Cuts: cs.cuts, Every: cs.every}
}

func compositions(n int) [][]int {
	// all ways of cutting n bytes into consecutive non-empty segments
	var out [][]int
	for mask := 0; mask < 1<<(uint(n)-1); mask++ {
		var cuts []int
		run := 1
		for i := 0; i < n-1; i++ {
			if mask&(1<<uint(i)) != 0 {
				cuts = append(cuts, run)
				run = 1
			} else {
				run++
			}
		}
		out = append(out, cuts) // the last segment is the remainder
	}
	return out
}

func ghostPayload(seed int, bodyLen int) *PayloadSpec {
	return &PayloadSpec{Parts: []PartSpec{{Hex: hex.EncodeToString(ghostID(uint64(seed)))}, {Fill: &fill{uint64(seed) + 7, bodyLen}}}}
}

// refusedFrame: a frame within the limit that the receiver must refuse.
func refusedFrame(rng *rand.Rand, which int) (ItemSpec, string) {
	seed := rng.Intn(1 << 20)
	switch which % 7 {
	case 0: // unknown type id, some body
		return frame(ghostPayload(seed, rng.Intn(40))), "unknown-type"
	case 1: // registered id, body that does not decode
		return frame(&PayloadSpec{Val: &ValSpec{Type: "nested", Seed: int64(seed), Size: 6}, Mut: []MutOp{{Op: "zerobody"}}}), "bad-body"
	case 2: // a valid buffer cut short
		return frame(&PayloadSpec{Val: &ValSpec{Type: "inner", Seed: int64(seed), Size: 8}, Mut: []MutOp{{Op: "trunc", N: 17 + rng.Intn(12)}}}), "truncated-body"
	case 3: // fewer than 16 bytes
		return frame(&PayloadSpec{Parts: []PartSpec{{Fill: &fill{uint64(seed), 1 + rng.Intn(15)}}}}), "short"
	case 4: // empty frame
		return frame(&PayloadSpec{}), "empty"
	case 5: // valid id of another type in front of a body
		return frame(&PayloadSpec{Val: &ValSpec{Type: "crypto", Seed: int64(seed), Size: 4}, Mut: []MutOp{{Op: "flip", Pos: 3 + rng.Intn(12), Bit: rng.Intn(8)}}}), "id-bit-flip"
	default: // body bit flip (may still decode: then it is simply another valid message)
		return frame(&PayloadSpec{Val: &ValSpec{Type: "inner", Seed: int64(seed), Size: 8}, Mut: []MutOp{{Op: "flip", Pos: 16 + rng.Intn(20), Bit: rng.Intn(8)}}}), "body-bit-flip"
	}
}

func generate(rng *rand.Rand, tier string) []interface{} {
	var ins []interface{}
	add := func(in Input) { ins = append(ins, in) }
	scale := 1
	if tier != "quick" {
		scale = 24
	}

	// ---- A. every segmentation of two tiny streams -----------------------------
	tinyA := []ItemSpec{frame(&PayloadSpec{Parts: []PartSpec{{Hex: "abcd"}}}), frame(&PayloadSpec{})} // 6 + 4 bytes
	for _, cuts := range compositions(10) {
		add(stream("conn", "exhaustive", 64, tinyA, cutStyle{cuts: cuts}))
	}
	if tier != "quick" {
		// 12 bytes: a 3-byte frame, an empty frame, and a header announcing 1 byte that never comes
		tinyC := []ItemSpec{frame(&PayloadSpec{Parts: []PartSpec{{Hex: "0a0b0c"}}}), frame(&PayloadSpec{}), rawHex("00000001")}
		for _, cuts := range compositions(15) {
			if len(cuts)%4 == 0 { // a quarter of the 16384 segmentations
				add(stream("conn", "exhaustive", 64, tinyC, cutStyle{cuts: cuts}))
			}
		}
	}
	tinyB := []ItemSpec{frame(&PayloadSpec{Parts: []PartSpec{{Hex: "7f"}}}), frame(&PayloadSpec{})} // 5 + 4 bytes
	for _, cuts := range compositions(9) {
		add(stream("router", "exhaustive", 64, tinyB, cutStyle{cuts: cuts}))
	}

	// ---- C. every single cut / every k of short valid streams --------------------
	for s := 0; s < 3*scale; s++ {
		items := []ItemSpec{msg(randVal(rng, 6)), msg(randVal(rng, 6))}
		total := wireLen(items)
		level := []string{"conn", "router"}[s%2]
		step := 1
		if total > 90 {
			step = total/90 + 1
		}
		for c := 1; c < total; c += step {
			add(stream(level, "valid-single-cut", defaultLimit, items, cutStyle{cuts: []int{c}}))
		}
		for k := 1; k <= 5; k++ {
			add(stream(level, "valid-every-k", defaultLimit, items, cutStyle{every: k}))
		}
	}

	// ---- B. random valid streams x random cuts ---------------------------------------
	for i := 0; i < 330*scale; i++ {
		level := "conn"
		switch {
		case i%11 == 10:
			level = "tcp"
		case i%2 == 1:
			level = "router"
		}
		n := 1 + rng.Intn(6)
		var items []ItemSpec
		for j := 0; j < n; j++ {
			items = append(items, msg(randVal(rng, 4+rng.Intn(40))))
		}
		limit := defaultLimit
		if rng.Intn(2) == 0 {
			// lowered limit that still admits everything (incl. the identity over tcp)
			max := 320
			for _, it := range items {
				if l := payloadLen(it.Val); l > max {
					max = l
				}
			}
			limit = max + rng.Intn(3)*rng.Intn(50)
		}
		if level == "tcp" {
			items = append(items, sentinel(i))
		}
		add(stream(level, "valid", limit, items, randCuts(rng, wireLen(items))))
	}

	// ---- D. bodies at the limit: limit-1, limit, limit+1 -----------------------------
	for _, limit := range []int{64, 300, 1000, 4096} {
		for d := -1; d <= 1; d++ {
			for li, level := range []string{"conn", "router", "tcp"} {
				if level == "tcp" && limit < 300 {
					continue // the identity exchange itself needs ~170 bytes
				}
				if tier == "quick" && limit == 4096 && level != "router" {
					continue
				}
				items := []ItemSpec{msg(blob(3, 1)), msg(blobOfPayloadLen(limit+d, int64(limit+d))), msg(blob(5, 2)), msg(randVal(rng, 10))}
				tag := "at-limit"
				if payloadLen(items[1].Val) > limit {
					tag = "oversize-followed-edge"
				}
				if level == "tcp" {
					items = append(items, sentinel(limit+d))
				}
				add(stream(level, tag, limit, items, randCuts(rng, wireLen(items)+li)))
			}
		}
	}

	// ---- E. refused frames (within the limit) between valid messages ----------------
	for i := 0; i < 130*scale; i++ {
		level := []string{"conn", "router", "router", "conn", "router", "tcp"}[i%6]
		var items []ItemSpec
		tag := ""
		n := 2 + rng.Intn(4)
		at := rng.Intn(n)
		for j := 0; j < n; j++ {
			if j == at || rng.Intn(6) == 0 {
				it, t := refusedFrame(rng, i+j)
				if tag == "" {
					tag = t
				}
				items = append(items, it)
			} else {
				items = append(items, msg(randVal(rng, 12)))
			}
		}
		if level == "tcp" {
			// the first message opens the connection (identity in front of it)
			items = append([]ItemSpec{msg(blob(2, int64(i)))}, items...)
			items = append(items, sentinel(i))
		}
		add(stream(level, "refused-"+tag, defaultLimit, items, randCuts(rng, wireLen(items))))
	}

	// ---- F. an over-limit message followed by valid traffic ---------------------------
	for i := 0; i < 36*scale; i++ {
		level := []string{"router", "conn", "router", "router", "conn", "router", "router", "conn", "tcp"}[i%9]
		limit := []int{300, 1000, 2048}[rng.Intn(3)]
		over := limit + 1 + rng.Intn(3*limit)
		big := blob(over, int64(rng.Intn(1<<20)))
		if i%3 == 1 {
			big = &ValSpec{Type: "blob", Size: over + (4-(over+16+1+uvarintLen(uint64(over)))%4)%4, Fill: "zero"}
		}
		var items []ItemSpec
		fitting := func() ItemSpec {
			for {
				vs := randVal(rng, 10)
				if payloadLen(vs) <= limit {
					return msg(vs)
				}
			}
		}
		for j := rng.Intn(3); j >= 0; j-- {
			items = append(items, fitting())
		}
		items = append(items, msg(big))
		tag := "oversize-followed"
		nAfter := 1 + rng.Intn(3)
		if level != "tcp" && i%9 == 8 {
			nAfter = 0
			tag = "oversize-last"
		}
		for j := 0; j < nAfter; j++ {
			items = append(items, fitting())
		}
		if level == "tcp" {
			items = append(items, sentinel(i))
		}
		add(stream(level, tag, limit, items, randCuts(rng, wireLen(items))))
	}

	// ---- G. garbage ------------------------------------------------------------------------
	for i := 0; i < 70*scale; i++ {
		level := []string{"conn", "router"}[i%2]
		var items []ItemSpec
		for j := rng.Intn(3); j > 0; j-- {
			items = append(items, msg(randVal(rng, 8)))
		}
		var g ItemSpec
		switch i % 5 {
		case 0: // random bytes
			g = ItemSpec{Kind: "raw", Raw: []PartSpec{{Fill: &fill{uint64(rng.Intn(1 << 16)), 1 + rng.Intn(60)}}}}
		case 1: // a partial header
			g = rawHex([]string{"00", "0000", "000000"}[rng.Intn(3)])
		case 2: // a size within the limit and too little body
			g = rawHex("00000040" + hex.EncodeToString(lcgFill(uint64(i), rng.Intn(40))))
		case 3: // the largest size
			g = rawHex("ffffffff" + hex.EncodeToString(lcgFill(uint64(i), rng.Intn(12))))
		default: // just above the limit
			g = rawHex("00a00001")
		}
		items = append(items, g)
		if rng.Intn(2) == 0 {
			items = append(items, msg(randVal(rng, 8)))
		}
		add(stream(level, "garbage", defaultLimit, items, randCuts(rng, wireLen(items))))
	}
	// garbage straight into a listening router (no identity in front)
	for i := 0; i < 18*scale; i++ {
		var items []ItemSpec
		switch i % 6 {
		case 0:
			items = []ItemSpec{{Kind: "raw", Raw: []PartSpec{{Fill: &fill{uint64(rng.Intn(1 << 16)), 4 + rng.Intn(80)}}}}}
		case 1: // a valid frame that is not an identity
			items = []ItemSpec{frame(&PayloadSpec{Val: randVal(rng, 6)}), frame(&PayloadSpec{Val: &ValSpec{Type: "sentinel", Seed: int64(i)}})}
		case 2: // an identity written raw, then frames
			items = []ItemSpec{frame(&PayloadSpec{Val: &ValSpec{Type: "identity", Seed: 900003}}),
				frame(&PayloadSpec{Val: randVal(rng, 6)}), frame(ghostPayload(i, 9)),
				frame(&PayloadSpec{Val: &ValSpec{Type: "sentinel", Seed: int64(i)}})}
		case 3: // an identity written raw, then mutated frames, then the sentinel
			items = []ItemSpec{frame(&PayloadSpec{Val: &ValSpec{Type: "identity", Seed: 900003}})}
			for j := 0; j < 2+rng.Intn(4); j++ {
				it, _ := refusedFrame(rng, rng.Intn(7))
				items = append(items, it)
				if rng.Intn(2) == 0 {
					items = append(items, frame(&PayloadSpec{Val: randVal(rng, 8)}))
				}
			}
			items = append(items, frame(&PayloadSpec{Val: &ValSpec{Type: "sentinel", Seed: int64(i)}}))
		case 4: // a first frame that never completes: the router keeps waiting
			items = []ItemSpec{rawHex("00000040" + hex.EncodeToString(lcgFill(uint64(i), rng.Intn(40))))}
			if rng.Intn(2) == 0 {
				items = []ItemSpec{rawHex([]string{"00", "0000", "000000"}[rng.Intn(3)])}
			}
		default: // an identity whose body is cut short
			items = []ItemSpec{frame(&PayloadSpec{Val: &ValSpec{Type: "identity", Seed: 900003}, Mut: []MutOp{{Op: "trunc", N: 40}}}),
				frame(&PayloadSpec{Val: &ValSpec{Type: "sentinel", Seed: int64(i)}})}
		}
		in := stream("tcp", "raw-connection", defaultLimit, items, randCuts(rng, wireLen(items)))
		in.NoIdent = true
		add(in)
	}

	// ---- J. a large body under the default limit ---------------------------------------
	bigN := 60000
	if tier != "quick" {
		bigN = 1500000
	}
	add(stream("router", "valid-large", defaultLimit, []ItemSpec{msg(blob(7, 3)), msg(blob(bigN, 77)), msg(randVal(rng, 10))}, cutStyle{every: 1460}))
	add(stream("tcp", "valid-large", defaultLimit, []ItemSpec{msg(blob(7, 3)), msg(blob(bigN/2, 78)), sentinel(1)}, cutStyle{every: 4096}))

	// ---- H. decoder ----------------------------------------------------------------------------
	dec := func(tag string, ps *PayloadSpec) { add(Input{Kind: "decode", Tag: tag, Payload: ps}) }
	for i := 0; i < 170*scale; i++ {
		dec("valid", &PayloadSpec{Val: randVal(rng, 4+rng.Intn(60))})
	}
	dec("valid", &PayloadSpec{Val: &ValSpec{Type: "identity", Seed: 900003}})
	for i := 0; i < 260*scale; i++ {
		vs := randVal(rng, 4+rng.Intn(24))
		l := payloadLen(vs)
		var mut []MutOp
		for k := 1 + rng.Intn(2); k > 0; k-- {
			switch rng.Intn(6) {
			case 0:
				mut = append(mut, MutOp{Op: "flip", Pos: rng.Intn(16), Bit: rng.Intn(8)})
			case 1, 2:
				mut = append(mut, MutOp{Op: "flip", Pos: 16 + rng.Intn(l), Bit: rng.Intn(8)})
			case 3:
				mut = append(mut, MutOp{Op: "trunc", N: rng.Intn(l + 1)})
			case 4:
				mut = append(mut, MutOp{Op: "append", Hex: hex.EncodeToString(lcgFill(uint64(i), 1+rng.Intn(9)))})
			default:
				mut = append(mut, MutOp{Op: "ghostid", N: rng.Intn(1 << 20)})
			}
		}
		dec("mutated", &PayloadSpec{Val: vs, Mut: mut})
	}
	for i := 0; i < 110*scale; i++ {
		n := rng.Intn(70)
		if i%4 == 0 {
			n = rng.Intn(17)
		}
		b := make([]byte, n)
		rng.Read(b)
		dec("arbitrary", &PayloadSpec{Parts: []PartSpec{{Hex: hex.EncodeToString(b)}}})
	}
	for i := 0; i < 40*scale; i++ {
		// a registered id in front of arbitrary bytes
		b := make([]byte, rng.Intn(40))
		rng.Read(b)
		dec("registered-id-arbitrary-body", &PayloadSpec{Val: &ValSpec{Type: []string{"inner", "nested", "crypto", "blob", "empty"}[i%5], Seed: 1},
			Mut: []MutOp{{Op: "trunc", N: 16}, {Op: "append", Hex: hex.EncodeToString(b)}}})
	}

	// ---- I. in-memory transport ---------------------------------------------------------------
	for i := 0; i < 25*scale; i++ {
		var items []ItemSpec
		for j := 1 + rng.Intn(8); j > 0; j-- {
			items = append(items, msg(randVal(rng, 4+rng.Intn(30))))
		}
		ins = append(ins, Input{Kind: "local", Tag: "fifo", Items: items})
	}
	// ---- N. type ids of the registered types (two of them differ only in the package) ------
	ins = append(ins, Input{Kind: "typeids", Tag: "registered"})
	for i := 0; i < 6*scale; i++ {
		// the two namesakes on one connection, and through the decoder
		level := []string{"conn", "router", "tcp"}[i%3]
		items := []ItemSpec{msg(blob(3+rng.Intn(20), int64(i))), msg(&ValSpec{Type: "otherblob", Seed: int64(i), Size: 3}),
			msg(blob(1+rng.Intn(9), int64(i+7))), msg(&ValSpec{Type: "otherblob", Seed: int64(i + 1), Size: 1})}
		if level == "tcp" {
			items = append(items, sentinel(i))
		}
		add(stream(level, "namesake-types", defaultLimit, items, randCuts(rng, wireLen(items))))
		ins = append(ins, Input{Kind: "decode", Tag: "namesake-types", Payload: &PayloadSpec{Val: &ValSpec{Type: "otherblob", Seed: int64(i), Size: 5}}})
	}

	// ---- O. one process decoding with several suites, in both orders -------------------------
	suiteStep := func(suite string, seed int64, level string) Input {
		typ := "crypto"
		if suite == "P256" {
			typ = "cryptop256"
		}
		in := stream(level, "suite-"+suite, defaultLimit,
			[]ItemSpec{msg(&ValSpec{Type: typ, Seed: seed, Size: 8}), msg(blob(4, seed)), msg(&ValSpec{Type: typ, Seed: seed + 1, Size: 8})}, cutStyle{every: 7})
		in.Suite = suite
		return in
	}
	for i, order := range [][]string{{"Ed25519", "P256", "Ed25519"}, {"P256", "Ed25519", "P256"}} {
		var steps []Input
		for j, su := range order {
			steps = append(steps, suiteStep(su, int64(100*i+10*j), []string{"conn", "router"}[j%2]))
			typ := "crypto"
			if su == "P256" {
				typ = "cryptop256"
			}
			steps = append(steps, Input{Kind: "decode", Tag: "suite-" + su, Suite: su, Payload: &PayloadSpec{Val: &ValSpec{Type: typ, Seed: int64(100*i + 10*j + 5), Size: 4}}})
		}
		ins = append(ins, Input{Kind: "seq", Tag: "suites-" + strings.ToLower(order[0]) + "-first", Steps: steps, Fresh: true})
	}

	// ---- M. in-memory connection with a backlog: the receiver's handler is busy ---------
	for _, n := range []int{600, 1200} {
		ins = append(ins, Input{Kind: "local", Tag: "backlog", Backlog: n})
	}

	// ---- L. a Write of the sending side fails part-way (write deadline), sending goes on ----
	for i := 0; i < 40*scale; i++ {
		level := []string{"router", "conn"}[i%2]
		var items []ItemSpec
		for j := 2 + rng.Intn(4); j > 0; j-- {
			items = append(items, msg(randVal(rng, 6+rng.Intn(20))))
		}
		total := wireLen(items)
		at := rng.Intn(total)
		switch i % 5 {
		case 0: // inside the first header
			at = rng.Intn(4)
		case 1: // exactly at a frame boundary
			at = 4 + payloadLen(items[0].Val)
		}
		in := stream(level, "write-fails", defaultLimit, items, randCuts(rng, total))
		in.FailAt = &at
		add(in)
	}

	// ---- K. goroutines sending concurrently on one connection -----------------------------
	for i := 0; i < 9*scale; i++ {
		level := []string{"conn", "conn", "tcp"}[i%3]
		var senders [][]ValSpec
		for g := 0; g < 2+rng.Intn(4); g++ {
			var row []ValSpec
			for m := 0; m < 3+rng.Intn(5); m++ {
				// distinct values: the blob length encodes (goroutine, message)
				n := 40 + 64*(g*8+m) + rng.Intn(32)
				if rng.Intn(3) == 0 {
					n += 3000
				}
				row = append(row, *blob(n, int64(1000*i+100*g+m)))
			}
			senders = append(senders, row)
		}
		ins = append(ins, Input{Kind: "conc", Tag: "concurrent-senders", Level: level, Senders: senders})
	}
	return ins
}

// corpus: the refutation witnesses of F04 (Net/WireProofs.v, desync_refuted /
// smuggle_refuted) replayed on the implementation, and regression inputs.
func corpus() []interface{} {
	five := []ItemSpec{msg(blob(10, 1)), msg(blob(5000, 2)), msg(blob(11, 3)), msg(blob(12, 4)), msg(blob(13, 5))}
	// the refused body ends in a size that swallows exactly the next frame
	next := blob(11, 3) // payload 16+2+11 = 29 bytes, frame 33 bytes
	swallow := &ValSpec{Type: "blob", Fill: "parts", Parts: []PartSpec{{Rep: &[2]int{0, 1209}}, {Hex: "00000021"}}}
	// the refused body carries a complete frame of a message nobody sent
	smuggle := &ValSpec{Type: "blob", Fill: "parts", Parts: []PartSpec{{Rep: &[2]int{0, 1209}}, {Frame: &PayloadSpec{Val: blob(7, 99)}}}}
	var out []interface{}
	// C03-N1 (Net/SendConcProofs.v, failure_then_send_refuted): the first Send's
	// Write fails after 5 bytes of the body, the second Send goes out whole
	for _, level := range []string{"router", "conn"} {
		at := 4 + 5
		in := stream(level, "write-fails", defaultLimit, []ItemSpec{msg(blob(10, 1)), msg(blob(11, 3)), msg(blob(12, 4))}, cutStyle{})
		in.FailAt = &at
		out = append(out, in)
	}
	// a peer that stalls inside a frame body for longer than the read timeout and
	// then continues; the rest of the body is a complete frame of a message
	// nobody sent (frame 1: 4+28 bytes; frame 2: 4 + 16 + 2 + 50 bytes in front of it)
	embed := &ValSpec{Type: "blob", Fill: "parts", Parts: []PartSpec{{Rep: &[2]int{0, 50}}, {Frame: &PayloadSpec{Val: blob(7, 99)}}}}
	for _, cut := range [][]int{{104}, {32}, {34}, {60, 44}} {
		st := len(cut)
		in := stream("router", "stall-inside-frame", defaultLimit, []ItemSpec{msg(blob(10, 1)), msg(embed), msg(blob(12, 4))}, cutStyle{})
		in.Cuts = cut
		in.Stall = &st
		out = append(out, in)
	}
	for _, level := range []string{"router", "tcp"} {
		tail := []ItemSpec{}
		if level == "tcp" {
			tail = []ItemSpec{sentinel(7)}
		}
		out = append(out,
			stream(level, "oversize-followed-five", 1000, append(append([]ItemSpec{}, five...), tail...), cutStyle{}),
			stream(level, "oversize-followed-swallow", 1000, append([]ItemSpec{msg(blob(10, 1)), msg(swallow), msg(next), msg(blob(12, 4))}, tail...), cutStyle{every: 7}),
			stream(level, "oversize-followed-smuggle", 1000, append([]ItemSpec{msg(blob(10, 1)), msg(smuggle), msg(blob(12, 4))}, tail...), cutStyle{every: 5}),
		)
	}
	return out
}
