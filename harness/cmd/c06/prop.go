package main

// Real propagation: a cluster of in-memory servers; the root's server creates
// the tree and starts a protocol; every other server first hears of the tree
// through a protocol message, asks the sender for it (requestTree ->
// handleRequestTree -> handleSendTree), and every node dumps what its instance
// sees: Tree(), Roster(), List().

import (
	"fmt"
	"math/rand"
	"sync"
	"time"

	"go.dedis.ch/onet/v3"
	"go.dedis.ch/onet/v3/network"

	"verifharness/lib"
)

const propName = "VerifC06P"
const histName = "VerifC06H"

// Announce travels from the root to the leaves.
type Announce struct{ N int }

// Ping is the protocol message of the history scenarios.
type Ping struct{ N int }

type viewRec struct {
	tree   string
	links  bool
	roster string
	list   []int
	crash  string
	onRoot bool
}

var prec struct {
	sync.Mutex
	active  bool
	d       *dumper
	views   map[onet.TreeNodeID][]*viewRec // every report of a node, in order
	insts   []*pproto
	rootSrv network.ServerIdentityID
}

type pproto struct {
	*onet.TreeNodeInstance
}

func newPProto(n *onet.TreeNodeInstance) (onet.ProtocolInstance, error) {
	p := &pproto{TreeNodeInstance: n}
	if err := p.RegisterHandler(p.handleAnnounce); err != nil {
		return nil, err
	}
	prec.Lock()
	if prec.active {
		prec.insts = append(prec.insts, p)
	}
	prec.Unlock()
	return p, nil
}

func (p *pproto) Start() error {
	p.record()
	return p.forward()
}

func (p *pproto) handleAnnounce(m struct {
	*onet.TreeNode
	Announce
}) error {
	p.record()
	return p.forward()
}

func (p *pproto) forward() error {
	for _, c := range p.Children() {
		if err := p.SendTo(c, &Announce{N: 1}); err != nil {
			return err
		}
	}
	return nil
}

func (p *pproto) record() {
	v := &viewRec{}
	func() {
		defer func() {
			if e := recover(); e != nil {
				v.crash = fmt.Sprint(e)
			}
		}()
		prec.Lock()
		d := prec.d
		root := prec.rootSrv
		prec.Unlock()
		if d == nil {
			return
		}
		t := p.Tree()
		v.tree, v.links = d.tree(t, true)
		v.roster = d.roster(p.Roster())
		for _, n := range p.List() {
			v.list = append(v.list, d.id(n.ID))
		}
		v.onRoot = p.ServerIdentity().ID.Equal(root)
	}()
	prec.Lock()
	if prec.active {
		prec.views[p.TreeNode().ID] = append(prec.views[p.TreeNode().ID], v)
	}
	prec.Unlock()
}

func registerProtocols() {
	if _, err := onet.GlobalProtocolRegister(propName, newPProto); err != nil {
		panic(err)
	}
	if _, err := onet.GlobalProtocolRegister(histName, newHProto); err != nil {
		panic(err)
	}
	network.RegisterMessages(&Announce{}, &Ping{}, &Marker{})
}

func runPropOnce(in input) (lib.Case, bool) {
	s := suiteOf(in.Suite)
	lt := onet.NewLocalTest(s)
	lt.Check = onet.CheckNone
	servers := lt.GenServers(in.Servers)
	ids := make([]*network.ServerIdentity, len(servers))
	for i, srv := range servers {
		si := *srv.ServerIdentity
		if in.Roster.Svc {
			si.ServiceIdentities = []network.ServiceIdentity{network.ServiceIdentity{Name: svcName, Suite: s.String(), Public: kp(s, 100000+i).Public}}
		}
		ids[i] = &si
	}
	ro := onet.NewRoster(ids)
	d := newDumper()
	d.rosterBare(ro)
	var tree *onet.Tree
	treePanic := ""
	func() {
		defer func() {
			if e := recover(); e != nil {
				treePanic = fmt.Sprint(e)
			}
		}()
		tree = mkTree(ro, in.Tree)
	}()
	if tree == nil || tree.Root == nil {
		lt.CloseAll()
		return setupFailed(in, 2, "building the tree to propagate gave nothing: "+treePanic), true
	}
	senderLit, _ := d.tree(tree, false)
	size := tree.Size()
	prec.Lock()
	prec.active = true
	prec.d = d
	prec.views = map[onet.TreeNodeID][]*viewRec{}
	prec.insts = nil
	prec.rootSrv = tree.Root.ServerIdentity.ID
	prec.Unlock()
	defer func() {
		prec.Lock()
		prec.active = false
		insts := prec.insts
		prec.insts = nil
		prec.Unlock()
		for _, p := range insts {
			func() {
				defer func() { recover() }()
				p.Done()
			}()
		}
		lt.CloseAll()
	}()
	startErr := ""
	func() {
		defer func() {
			if e := recover(); e != nil {
				startErr = fmt.Sprint("panic: ", e)
			}
		}()
		if _, err := lt.StartProtocol(propName, tree); err != nil {
			startErr = err.Error()
		}
	}()
	deadline := time.Now().Add(20 * time.Second)
	if startErr != "" {
		// the protocol could not be started on the tree's own root: nobody will ever report;
		// that is an observation (every view missing), not a reason to drop the case
		deadline = time.Now()
	}
	for time.Now().Before(deadline) {
		prec.Lock()
		n := len(prec.views)
		prec.Unlock()
		if n >= size {
			break
		}
		time.Sleep(2 * time.Millisecond)
	}
	prec.Lock()
	views := prec.views
	prec.views = map[onet.TreeNodeID][]*viewRec{}
	prec.Unlock()
	var lits []string
	missing, crashed := 0, 0
	for _, tn := range tree.List() {
		nid := d.id(tn.ID)
		onRoot := tn.ServerIdentity.ID.Equal(tree.Root.ServerIdentity.ID)
		if len(views[tn.ID]) == 0 {
			missing++
			lits = append(lits, fmt.Sprintf("(mkView %d %s VMissing)", nid, lib.Bool(onRoot)))
		}
		for _, v := range views[tn.ID] { // every report counts: a second, different view of a node is kept
			if v.crash != "" {
				crashed++
				lits = append(lits, fmt.Sprintf("(mkView %d %s VCrash)", nid, lib.Bool(onRoot)))
			} else {
				lits = append(lits, fmt.Sprintf("(mkView %d %s (VOk %s %s %s %s))", nid, lib.Bool(v.onRoot), v.tree, lib.Bool(v.links), v.roster, lib.NatList(v.list)))
			}
		}
	}
	// several nodes may share one node id (ids derived from repeated servers): the same
	// literal is then produced once per such node; identical literals are written once
	seen := map[string]bool{}
	var uniq []string
	for _, l := range lits {
		if !seen[l] {
			seen[l] = true
			uniq = append(uniq, l)
		}
	}
	class := "prop-" + in.Name
	if startErr != "" {
		class += "+start-failed"
	}
	if in.Suite != "" && in.Suite != "Ed25519" {
		class += "@" + in.Suite
	}
	obs := map[string]interface{}{"start_error": startErr, "servers": in.Servers, "nodes": size, "views": len(views), "missing": missing, "crashed": crashed}
	coq := fmt.Sprintf("CProp %s %s", senderLit, lib.List(uniq))
	return lib.Case{Coq: coq, Class: class, Obs: obs, Nontrivial: size > 1,
		Key: fmt.Sprintf("prop|%v|%d|%s|%v", in.Tree, in.Servers, in.Suite, in.Roster.Svc)}, missing == 0 || startErr != ""
}

func runProp(in input) lib.Case {
	c, complete := runPropOnce(in)
	if !complete {
		// a node that did not report within the deadline: try once more before reporting it
		c, _ = runPropOnce(in)
	}
	return c
}

func genProp(rng *rand.Rand, tier string) []interface{} {
	var ins []interface{}
	n := 36
	if tier != "quick" {
		n = 400
	}
	for i := 0; i < n; i++ {
		srv := 2 + rng.Intn(6)
		suite := "Ed25519"
		if i%4 == 3 {
			suite = "bn256.adapter"
		}
		var ts treeSpec
		name := ""
		switch i % 4 {
		case 0: // one node per server, any shape
			name = "distinct"
			perm := rng.Perm(srv)
			ts = treeSpec{Shape: randomShape(rng, srv, i%3), Place: perm}
			if i%8 == 0 && srv > 2 {
				// the root's service made a tree, extended it by hand, and made a tree again
				name = "extended"
				ts.Cut = 1 + rng.Intn(srv-1)
			}
		case 1: // more nodes than servers: servers repeat, explicit node ids
			name = "repeat"
			nodes := srv + 1 + rng.Intn(6)
			place := make([]int, nodes)
			for k := range place {
				place[k] = rng.Intn(srv)
			}
			ts = treeSpec{Shape: randomShape(rng, nodes, i%3), Place: place, NodeIDs: seqInts(nodes)}
		case 2: // the roster's generators
			name = "gen"
			g := []string{"binary", "star", "nary:3", fmt.Sprintf("big:2:%d", srv), fmt.Sprintf("naryroot:2:%d", 1+rng.Intn(srv-1)),
				fmt.Sprintf("naryroot:3:%d", srv-1)}[rng.Intn(6)]
			ts = treeSpec{Gen: g}
		default: // a chain: the tree is learnt from a server that learnt it itself
			name = "chain"
			sh := make([]int, srv)
			for k := 0; k < srv-1; k++ {
				sh[k] = 1
			}
			ts = treeSpec{Shape: sh, Place: rng.Perm(srv)}
		}
		ins = append(ins, input{Kind: "prop", Name: name, Suite: suite, Servers: srv, Tree: ts, Roster: rosterSpec{Svc: i%5 == 0}})
	}
	return ins
}
