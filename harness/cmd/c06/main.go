// C06 harness: "a tree learnt from a peer or rebuilt from its serialised form
// is the same tree".
//
//	round / make / bytes / binary   pure (de)serialisation of tree.go on built trees,
//	                                hand-made descriptions and mutated bytes   (this file)
//	prop                            real propagation in a cluster               (prop.go)
//	hist                            control-message histories through
//	                                Overlay.Process on one real server          (hist.go)
//
// Every Go object is written as a Coq literal of the model types of
// Tree/TreeMarshal.v: UUIDs are interned to small numbers (0 = nil UUID), public
// keys to small numbers ("weights"); a stored aggregate key P of a node is
// reported as the sum of the weights of its subtree after the harness verified
// P = key(node) + sum of the children's stored aggregates (kyber Add / Equal),
// and as -1 when that relation does not hold.
package main

import (
	"bufio"
	"bytes"
	"encoding/json"
	"fmt"
	"io"
	"math/rand"
	"os"
	"os/exec"
	"reflect"
	"strings"
	"sync"
	"time"

	"github.com/google/uuid"
	"go.dedis.ch/kyber/v3"
	_ "go.dedis.ch/kyber/v3/pairing"
	"go.dedis.ch/kyber/v3/suites"
	"go.dedis.ch/kyber/v3/util/key"
	"go.dedis.ch/onet/v3"
	"go.dedis.ch/onet/v3/log"
	"go.dedis.ch/onet/v3/network"

	"verifharness/lib"
)

// ---- inputs ----------------------------------------------------------------------

type rosterSpec struct {
	Members []int    `json:"members"`         // pool indices, may repeat
	Svc     bool     `json:"svc,omitempty"`   // members carry a per-service key
	Forge   [][2]int `json:"forge,omitempty"` // [position, pool index]: that member carries the other server's ID field
}

type treeSpec struct {
	Shape    []int  `json:"shape,omitempty"`    // child counts in pre-order
	Place    []int  `json:"place,omitempty"`    // roster position per node (pre-order)
	Idx      []int  `json:"idx,omitempty"`      // RosterIndex recorded in the node (default = Place)
	NodeIDs  []int  `json:"nodeids,omitempty"`  // explicit node id numbers (default: derived by NewTreeNode)
	Gen      string `json:"gen,omitempty"`      // "nary:N" | "naryroot:N:root" | "big:N:nodes" | "binary" | "star": use the roster's generator
	NoAgg    bool   `json:"noagg,omitempty"`    // assembled by hand, aggregates never computed
	NoRoster bool   `json:"noroster,omitempty"` // Tree.Roster == nil
	Cut      int    `json:"cut,omitempty"`      // > 0: NewTree on the first Cut nodes (pre-order), AddChild for the rest, NewTree again
}

type mutation struct {
	Kind string `json:"kind"` // flip | trunc | splice | zero
	Pos  int    `json:"pos"`
	Val  int    `json:"val"`
}

type input struct {
	Kind    string     `json:"kind"` // round | make | bytes | binary | prop | hist
	Suite   string     `json:"suite,omitempty"`
	Name    string     `json:"name,omitempty"`
	Roster  rosterSpec `json:"roster,omitempty"`
	Tree    treeSpec   `json:"tree,omitempty"`
	Rebuild string     `json:"rebuild,omitempty"` // same | copy | perm | short | other | nil | dup
	Desc    string     `json:"desc,omitempty"`    // make: empty | unknown | wrongroster | extra | nested-ids | ok
	Mut     []mutation `json:"mut,omitempty"`
	// prop
	Servers int `json:"servers,omitempty"`
	// hist
	Ops   []hop `json:"ops,omitempty"`
	World int   `json:"world,omitempty"`
}

func suiteOf(name string) network.Suite {
	if name == "" {
		name = "Ed25519"
	}
	return suites.MustFind(name)
}

// ---- key pool ----------------------------------------------------------------------

var poolMu sync.Mutex
var pools = map[string]map[int]*key.Pair{}

func kp(s network.Suite, i int) *key.Pair {
	poolMu.Lock()
	defer poolMu.Unlock()
	name := s.String()
	if pools[name] == nil {
		pools[name] = map[int]*key.Pair{}
	}
	if pools[name][i] == nil {
		pools[name][i] = key.NewKeyPair(s)
	}
	return pools[name][i]
}

const svcName = "VerifC06Svc"

func poolServer(s network.Suite, i int, svc bool) *network.ServerIdentity {
	addr := network.NewAddress(network.PlainTCP, fmt.Sprintf("10.6.%d.%d:%d", i/250, i%250+1, 7000+i))
	si := network.NewServerIdentity(kp(s, i).Public, addr)
	if svc {
		si.ServiceIdentities = []network.ServiceIdentity{
			network.ServiceIdentity{Name: svcName, Suite: s.String(), Public: kp(s, 100000+i).Public},
		}
	}
	return si
}

func mkRoster(s network.Suite, rs rosterSpec) *onet.Roster {
	ids := make([]*network.ServerIdentity, len(rs.Members))
	for i, m := range rs.Members {
		ids[i] = poolServer(s, m, rs.Svc)
	}
	for _, f := range rs.Forge {
		if f[0] >= 0 && f[0] < len(ids) {
			ids[f[0]].ID = poolServer(s, f[1], false).ID
		}
	}
	return onet.NewRoster(ids)
}

func numUUID(n int) uuid.UUID {
	return uuid.NewSHA1(uuid.NameSpaceURL, []byte(fmt.Sprintf("verif-c06-node-%d", n)))
}

// mkTree builds the sender's tree.
func mkTree(ro *onet.Roster, ts treeSpec) *onet.Tree {
	if ts.Gen != "" {
		var a, b int
		switch {
		case ts.Gen == "binary":
			return ro.GenerateBinaryTree()
		case ts.Gen == "star":
			return ro.GenerateStar()
		case strings.HasPrefix(ts.Gen, "naryroot:"):
			// the generator with an explicit root: member b of the roster
			fmt.Sscanf(ts.Gen, "naryroot:%d:%d", &a, &b)
			return ro.GenerateNaryTreeWithRoot(a, ro.List[b%len(ro.List)])
		case strings.HasPrefix(ts.Gen, "nary:"):
			fmt.Sscanf(ts.Gen, "nary:%d", &a)
			return ro.GenerateNaryTree(a)
		case strings.HasPrefix(ts.Gen, "big:"):
			fmt.Sscanf(ts.Gen, "big:%d:%d", &a, &b)
			return ro.GenerateBigNaryTree(a, b)
		}
		panic("bad gen " + ts.Gen)
	}
	// the nodes in pre-order, with the pre-order position of their parent
	n := len(ts.Shape)
	nodes := make([]*onet.TreeNode, n)
	parent := make([]int, n)
	pos := 0
	var walk func(par int)
	walk = func(par int) {
		k := pos
		pos++
		parent[k] = par
		p := ts.Place[k] % len(ro.List)
		idx := p
		if k < len(ts.Idx) {
			idx = ts.Idx[k]
		}
		nodes[k] = onet.NewTreeNode(idx, ro.List[p])
		if k < len(ts.NodeIDs) {
			nodes[k].ID = onet.TreeNodeID(numUUID(ts.NodeIDs[k]))
		}
		for c := 0; c < ts.Shape[k]; c++ {
			walk(k)
		}
	}
	walk(-1)
	root := nodes[0]
	// children are attached in pre-order, which keeps every node's child order. With Cut > 0
	// the tree is built in two goes, the way a service extends a tree it already used:
	// NewTree on the first Cut nodes (a pre-order prefix is closed under parents), AddChild for
	// the rest, NewTree again on the same root.
	for k := 1; k < n; k++ {
		if ts.Cut > 0 && k == ts.Cut {
			onet.NewTree(ro, root)
		}
		nodes[parent[k]].AddChild(nodes[k])
	}
	t := onet.NewTree(ro, root)
	if ts.NoAgg {
		t = &onet.Tree{ID: t.ID, Roster: ro, Root: root}
		root.Visit(0, func(d int, n *onet.TreeNode) { n.PublicAggregateSubTree = nil })
	}
	if ts.NoRoster {
		t.Roster = nil
	}
	return t
}

// ---- dumping Go objects as Coq literals -----------------------------------------------

type dumper struct {
	mu   sync.Mutex
	ids  map[[16]byte]int
	keys map[string]int
}

func newDumper() *dumper { return &dumper{ids: map[[16]byte]int{}, keys: map[string]int{}} }

func (d *dumper) id(u [16]byte) int {
	if u == [16]byte{} {
		return 0
	}
	d.mu.Lock()
	defer d.mu.Unlock()
	if n, ok := d.ids[u]; ok {
		return n
	}
	n := len(d.ids) + 1
	d.ids[u] = n
	return n
}

func (d *dumper) key(p kyber.Point) int64 {
	if p == nil {
		return -1
	}
	s := p.String()
	d.mu.Lock()
	defer d.mu.Unlock()
	if n, ok := d.keys[s]; ok {
		return int64(n)
	}
	n := len(d.keys) + 1
	d.keys[s] = n
	return int64(n)
}

func zlit(n int64) string { return fmt.Sprintf("(%d)%%Z", n) }

func (d *dumper) srv(si *network.ServerIdentity) string {
	if si == nil {
		return "(mkSrv 0 (-1)%Z [] true)"
	}
	var svc []string
	for _, s := range si.ServiceIdentities {
		svc = append(svc, zlit(d.key(s.Public)))
	}
	return fmt.Sprintf("(mkSrv %d %s %s %s)", d.id(si.ID), zlit(d.key(si.Public)), lib.List(svc), lib.Bool(si.Public == nil))
}

func (d *dumper) rosterBare(ro *onet.Roster) string {
	var l []string
	for _, si := range ro.List {
		l = append(l, d.srv(si))
	}
	return fmt.Sprintf("(mkRo %d %s)", d.id(ro.ID), lib.List(l))
}

func (d *dumper) roster(ro *onet.Roster) string {
	if ro == nil {
		return "None"
	}
	return "(Some " + d.rosterBare(ro) + ")"
}

// node returns the literal, the verified weight of the stored aggregate (-1 = not
// verified) and whether parent links / roster pointers below are consistent.
func (d *dumper) node(tn *onet.TreeNode, ro *onet.Roster, links *bool) (string, int64) {
	var ch []string
	w := d.key(nil)
	var sum kyber.Point
	ok := tn.ServerIdentity != nil && tn.ServerIdentity.Public != nil
	if ok {
		w = d.key(tn.ServerIdentity.Public)
		sum = tn.ServerIdentity.Public.Clone()
	}
	for _, c := range tn.Children {
		if c.Parent != tn {
			*links = false
		}
		s, cw := d.node(c, ro, links)
		ch = append(ch, s)
		if cw < 0 || c.PublicAggregateSubTree == nil {
			ok = false
		}
		if ok {
			sum = sum.Add(sum, c.PublicAggregateSubTree)
			w += cw
		}
	}
	if ro != nil {
		if tn.RosterIndex < 0 || tn.RosterIndex >= len(ro.List) || ro.List[tn.RosterIndex] != tn.ServerIdentity {
			*links = false
		}
	}
	agg := "None"
	res := int64(-1)
	if tn.PublicAggregateSubTree != nil {
		if ok && sum.Equal(tn.PublicAggregateSubTree) {
			res = w
		}
		agg = "(Some " + zlit(res) + ")"
	}
	ridx := tn.RosterIndex
	if ridx < 0 {
		ridx = 999999
	}
	return fmt.Sprintf("(Node %d %s %d %s %s)", d.id(tn.ID), d.srv(tn.ServerIdentity), ridx, agg, lib.List(ch)), res
}

// tree returns the literal of the tree and the pointer-consistency flag
// (root has no parent, children point to their parent, when withPtrs: every node's
// ServerIdentity IS the roster's entry at its RosterIndex).
func (d *dumper) tree(t *onet.Tree, withPtrs bool) (string, bool) {
	links := true
	if t.Root.Parent != nil {
		links = false
	}
	var ro *onet.Roster
	if withPtrs {
		ro = t.Roster
	}
	s, _ := d.node(t.Root, ro, &links)
	return fmt.Sprintf("(mkTree %d %s %s)", d.id(t.ID), d.roster(t.Roster), s), links
}

func (d *dumper) tm(m *onet.TreeMarshal) string {
	if m == nil {
		return "(TM 0 0 0 0 [])"
	}
	var ch []string
	for _, c := range m.Children {
		ch = append(ch, d.tm(c))
	}
	return fmt.Sprintf("(TM %d %d %d %d %s)", d.id(m.TreeNodeID), d.id(m.TreeID), d.id(m.ServerIdentityID), d.id(m.RosterID), lib.List(ch))
}

// ---- running the (de)serialisation ------------------------------------------------------

type rres struct {
	Kind  string // ok | err | crash | broken
	Cls   int    // err: error class; broken: 1 = sender side failed, 2 = nil tree without error
	Tree  string
	Links bool
	GoEq  bool
	Note  string
}

func (r rres) coq() string {
	switch r.Kind {
	case "ok":
		return fmt.Sprintf("(ROk %s %s %s)", r.Tree, lib.Bool(r.Links), lib.Bool(r.GoEq))
	case "err":
		return fmt.Sprintf("(RErr %d)", r.Cls)
	case "broken":
		return fmt.Sprintf("(RBroken %d)", r.Cls)
	}
	return "RCrash"
}

// observe runs f (a rebuild) and canonicalises its result; sender may be nil.
func observe(d *dumper, sender *onet.Tree, givenRo *onet.Roster, f func() (*onet.Tree, error)) (r rres) {
	defer func() {
		if e := recover(); e != nil {
			r = rres{Kind: "crash", Note: fmt.Sprint(e)}
		}
	}()
	t, err := f()
	if se, ok := err.(senderErr); ok {
		// Marshal / BinaryMarshaler failed: not a refusal by the receiver
		return rres{Kind: "broken", Cls: 1, Note: "sender side: " + se.err.Error()}
	}
	if err != nil {
		cls, name := errClass(err)
		return rres{Kind: "err", Cls: cls, Note: name}
	}
	if t == nil {
		return rres{Kind: "broken", Cls: 2, Note: "nil tree without error"}
	}
	s, links := d.tree(t, true)
	if givenRo != nil && t.Roster != givenRo {
		links = false
	}
	eq := false
	if sender != nil {
		func() {
			defer func() { recover() }()
			eq = sender.Equal(t)
		}()
	}
	return rres{Kind: "ok", Tree: s, Links: links, GoEq: eq}
}

// senderErr marks an error of the serialising side.
type senderErr struct{ err error }

func (e senderErr) Error() string { return e.err.Error() }

// errClass maps an error onto the classes of Corr/C06.v (rres). Only the messages of the
// anchored code are recognised; every other message, including those of the codec, is
// class 5 and is expected only where the bytes do not decode to a tree description.
func errClass(err error) (int, string) {
	s := err.Error()
	switch {
	case strings.Contains(s, "Not correct Roster-Id"):
		return 1, "roster-id"
	case strings.Contains(s, "tree description without nodes"):
		return 2, "no-nodes"
	case strings.Contains(s, "didn't find node in roster"):
		return 3, "member"
	case strings.Contains(s, "no Roster given"):
		return 4, "no-roster"
	case strings.Contains(s, "Didn't find TBMstruct"):
		return 6, "outer-type"
	case strings.Contains(s, "roster member without public key"):
		return 7, "member-without-key"
	case strings.Contains(s, "Didn't receive TreeMarshal"):
		return 5, "type"
	}
	return 5, "other: " + s
}

// setupFailed reports a case whose input the implementation could not produce (clause 10).
func setupFailed(in input, why int, what string) lib.Case {
	return lib.Case{Coq: fmt.Sprintf("CSetup %d", why), Class: in.Kind + "-" + in.Name + "+setup-failed", Obs: what, Nontrivial: true,
		Key: fmt.Sprintf("setup|%d|%v|%v|%s", why, in.Tree, in.Roster, in.Name)}
}

// expectWF says whether the construction of the sender's tree demands a well-formed tree
// (NewTree or a generator over a roster of pairwise distinct servers, nothing set by hand).
func expectWF(in input) bool {
	t := in.Tree
	if len(t.Idx) > 0 || t.NoAgg || t.NoRoster || len(in.Roster.Forge) > 0 {
		return false
	}
	seen := map[int]bool{}
	for _, m := range in.Roster.Members {
		if seen[m] {
			return false
		}
		seen[m] = true
	}
	return true
}

func rebuildRoster(s network.Suite, ro *onet.Roster, how string, rs rosterSpec) *onet.Roster {
	switch how {
	case "", "same":
		return ro
	case "copy":
		r2 := mkRoster(s, rs)
		return r2
	case "perm":
		l := append([]*network.ServerIdentity(nil), ro.List...)
		for i, j := 0, len(l)-1; i < j; i, j = i+1, j-1 {
			l[i], l[j] = l[j], l[i]
		}
		r2 := onet.NewRoster(l)
		r2.ID = ro.ID
		return r2
	case "short":
		if len(ro.List) < 2 {
			return ro
		}
		r2 := onet.NewRoster(ro.List[:len(ro.List)-1])
		r2.ID = ro.ID
		return r2
	case "dup":
		// every member twice: ids repeat, the first occurrence is found
		var l []*network.ServerIdentity
		for _, si := range ro.List {
			c := *si
			l = append(l, si, &c)
		}
		r2 := onet.NewRoster(l)
		r2.ID = ro.ID
		return r2
	case "nilid-perm":
		// a roster without id (hand-built, read from a file, or the wire id left empty by a
		// peer) holding the same servers in another order
		l := append([]*network.ServerIdentity(nil), ro.List...)
		for i, j := 0, len(l)-1; i < j; i, j = i+1, j-1 {
			l[i], l[j] = l[j], l[i]
		}
		return &onet.Roster{List: l, Aggregate: ro.Aggregate}
	case "nilid-super":
		// ... or a superset of them, a stranger first
		l := append([]*network.ServerIdentity{poolServer(s, 90002, rs.Svc)}, ro.List...)
		return &onet.Roster{List: l, Aggregate: ro.Aggregate}
	case "nokey":
		// the roster as it comes off the wire when its last member carries no public key
		// (the field is optional): same id, same members
		l := append([]*network.ServerIdentity(nil), ro.List...)
		c := *l[len(l)-1]
		c.Public = nil
		l[len(l)-1] = &c
		return &onet.Roster{ID: ro.ID, List: l, Aggregate: ro.Aggregate}
	case "other":
		ms := append([]int(nil), rs.Members...)
		ms = append(ms, 90000)
		return mkRoster(s, rosterSpec{Members: ms, Svc: rs.Svc})
	case "nil":
		return nil
	}
	panic("bad rebuild " + how)
}

func mutate(buf []byte, ms []mutation) []byte {
	b := append([]byte(nil), buf...)
	for _, m := range ms {
		if len(b) == 0 {
			break
		}
		p := m.Pos % len(b)
		switch m.Kind {
		case "flip":
			b[p] ^= byte(1 << uint(m.Val%8))
		case "zero":
			b[p] = byte(m.Val)
		case "trunc":
			b = b[:p]
		case "splice":
			q := m.Val % len(b)
			if p > q {
				p, q = q, p
			}
			b = append(append([]byte(nil), b[:p]...), b[q:]...)
		}
	}
	return b
}

// decodeTM says what bytes decode to, through the same codec the code uses.
func decodeTM(d *dumper, s network.Suite, buf []byte) (lit string, kind string) {
	defer func() {
		if e := recover(); e != nil {
			lit, kind = "DCrash", "codec-panic"
		}
	}()
	tp, m, err := network.Unmarshal(buf, s)
	if err != nil {
		return "DNone", "undecodable"
	}
	if !tp.Equal(onet.TreeMarshalTypeID) {
		return "DNone", "other-type"
	}
	tm := m.(*onet.TreeMarshal)
	if len(tm.Children) == 0 {
		// mutated bytes that still decode, to a description without root element (F06)
		return "(DSome " + d.tm(tm) + ")", "decodes-rootless"
	}
	return "(DSome " + d.tm(tm) + ")", "decodes"
}

// decodeOuter says what bytes given to BinaryUnmarshaler decode to.
func decodeOuter(d *dumper, s network.Suite, buf []byte) (lit string, kind string) {
	defer func() {
		if e := recover(); e != nil {
			lit, kind = "DCrash", "codec-panic"
		}
	}()
	_, m, err := network.Unmarshal(buf, s)
	if err != nil || m == nil {
		return "DNone", "undecodable"
	}
	v := reflect.ValueOf(m)
	if v.Kind() != reflect.Ptr || v.Elem().Type().Name() != "tbmStruct" {
		return "DNone", "other-type"
	}
	T := v.Elem().FieldByName("T").Bytes()
	ro, _ := v.Elem().FieldByName("Ro").Interface().(*onet.Roster)
	inner, ik := decodeTM(d, s, T)
	if ro == nil {
		ik = "noroster-" + ik
	}
	return fmt.Sprintf("(DSome (%s, %s))", inner, d.roster(ro)), "outer-" + ik
}

// safeBytes turns a panic of a serialiser into an error.
func safeBytes(f func() ([]byte, error)) (b []byte, err error) {
	defer func() {
		if e := recover(); e != nil {
			err = fmt.Errorf("panic: %v", e)
		}
	}()
	return f()
}

func runPure(in input) lib.Case {
	s := suiteOf(in.Suite)
	d := newDumper()
	ro := mkRoster(s, in.Roster)
	if ro == nil {
		return setupFailed(in, 1, "NewRoster returned nil for a non-empty list of servers")
	}
	d.rosterBare(ro) // intern the roster first: numbering is a function of the input
	var sender *onet.Tree
	senderPanic := ""
	func() {
		defer func() {
			if e := recover(); e != nil {
				sender = nil
				senderPanic = fmt.Sprint(e)
			}
		}()
		sender = mkTree(ro, in.Tree)
	}()
	if sender == nil || sender.Root == nil {
		return setupFailed(in, 2, "building the sender's tree gave nothing: "+senderPanic)
	}
	senderLit, _ := d.tree(sender, false)
	ro2 := rebuildRoster(s, ro, in.Rebuild, in.Roster)
	suffix := ""
	if in.Suite != "" && in.Suite != "Ed25519" {
		suffix = "@" + in.Suite
	}
	class := in.Kind + "-" + in.Name
	size := sender.Size()
	obs := map[string]interface{}{"size": size}
	switch in.Kind {
	case "gen":
		// the generator's tree against the model of Tree/TreeGenNary.v
		var n, root int
		switch {
		case strings.HasPrefix(in.Tree.Gen, "naryroot:"):
			fmt.Sscanf(in.Tree.Gen, "naryroot:%d:%d", &n, &root)
			root %= len(ro.List)
		case strings.HasPrefix(in.Tree.Gen, "nary:"):
			fmt.Sscanf(in.Tree.Gen, "nary:%d", &n)
		case in.Tree.Gen == "binary":
			n = 2
		case in.Tree.Gen == "star":
			n = len(ro.List) - 1
		default:
			panic("gen case with " + in.Tree.Gen)
		}
		obs["root"], obs["N"] = root, n
		return lib.Case{Coq: fmt.Sprintf("CGen %d %d %s", n, root, senderLit), Class: "gen-" + in.Name + suffix, Obs: obs, Nontrivial: size > 1,
			Key: fmt.Sprintf("gen|%s|%d|%s|%v", in.Tree.Gen, len(ro.List), in.Suite, in.Roster.Svc)}
	case "round":
		var tmObs *onet.TreeMarshal
		tmCrash := false
		func() {
			defer func() {
				if e := recover(); e != nil {
					tmCrash = true
				}
			}()
			tmObs = sender.MakeTreeMarshal()
		}()
		if tmCrash || tmObs == nil {
			return setupFailed(in, 3, "MakeTreeMarshal panicked or returned nil")
		}
		direct := observe(d, sender, ro2, func() (*onet.Tree, error) { return tmObs.MakeTree(ro2) })
		var buf []byte
		bytesR := observe(d, sender, ro2, func() (*onet.Tree, error) {
			b, err := sender.Marshal()
			if err != nil {
				return nil, senderErr{err}
			}
			buf = b
			return onet.NewTreeFromMarshal(s, b, ro2)
		})
		binR := observe(d, sender, nil, func() (*onet.Tree, error) {
			b, err := sender.BinaryMarshaler()
			if err != nil {
				return nil, senderErr{err}
			}
			t2 := &onet.Tree{}
			if err := t2.BinaryUnmarshaler(s, b); err != nil {
				return nil, err
			}
			return t2, nil
		})
		obs["direct"], obs["bytes"], obs["binary"] = direct.Kind+" "+direct.Note, bytesR.Kind+" "+bytesR.Note, binR.Kind+" "+binR.Note
		obs["bytes_len"] = len(buf)
		coq := fmt.Sprintf("CRound %s %s %s %s %s %s %s", lib.Bool(expectWF(in)), senderLit, d.roster(ro2), d.tm(tmObs), direct.coq(), bytesR.coq(), binR.coq())
		return lib.Case{Coq: coq, Class: class + suffix, Obs: obs, Nontrivial: size > 1,
			Key: fmt.Sprintf("%v|%v|%v|%s|%s", in.Tree, in.Roster, in.Rebuild, in.Suite, in.Name)}
	case "make":
		var tm *onet.TreeMarshal
		func() {
			defer func() { recover() }()
			tm = sender.MakeTreeMarshal()
		}()
		if tm == nil || len(tm.Children) == 0 || tm.Children[0] == nil {
			return setupFailed(in, 3, "MakeTreeMarshal panicked or gave a description without root element")
		}
		switch in.Desc {
		case "empty":
			tm.Children = nil
		case "unknown":
			// the last node of the description names a server that is not in the roster
			n := tm.Children[0]
			for len(n.Children) > 0 {
				n = n.Children[len(n.Children)-1]
			}
			n.ServerIdentityID = poolServer(s, 90001, false).ID
		case "unknown-root":
			tm.Children[0].ServerIdentityID = poolServer(s, 90001, false).ID
		case "wrongroster":
			tm.RosterID = onet.RosterID(numUUID(424242))
		case "nilroster-id":
			tm.RosterID = onet.RosterID(uuid.Nil)
		case "extra":
			junk := &onet.TreeMarshal{TreeNodeID: onet.TreeNodeID(numUUID(77)), ServerIdentityID: poolServer(s, 90001, false).ID}
			tm.Children = append(tm.Children, junk)
		case "nested-ids":
			// inner elements carry tree / roster ids: ignored by the rebuild
			tm.Children[0].TreeID = onet.TreeID(numUUID(5))
			tm.Children[0].RosterID = onet.RosterID(numUUID(6))
		case "dupnode":
			// two nodes of the description share a node id
			if len(tm.Children[0].Children) > 0 {
				tm.Children[0].Children[0].TreeNodeID = tm.Children[0].TreeNodeID
			}
		case "ok":
		default:
			panic("bad desc " + in.Desc)
		}
		r := observe(d, nil, ro2, func() (*onet.Tree, error) { return tm.MakeTree(ro2) })
		obs["result"] = r.Kind + " " + r.Note
		coq := fmt.Sprintf("CMake %s %s %s", d.tm(tm), d.roster(ro2), r.coq())
		return lib.Case{Coq: coq, Class: "make-" + in.Desc + "-" + in.Rebuild + suffix, Obs: obs, Nontrivial: true,
			Key: fmt.Sprintf("%v|%v|%v|%s|%s", in.Tree, in.Roster, in.Rebuild, in.Suite, in.Desc)}
	case "bytes":
		buf, err := safeBytes(sender.Marshal)
		if err != nil {
			return setupFailed(in, 4, "Marshal: "+err.Error())
		}
		b := mutate(buf, in.Mut)
		dec, kind := decodeTM(d, s, b)
		r := observe(d, nil, ro2, func() (*onet.Tree, error) { return onet.NewTreeFromMarshal(s, b, ro2) })
		obs["decode"], obs["result"] = kind, r.Kind+" "+r.Note
		coq := fmt.Sprintf("CBytes %s %s %s", dec, d.roster(ro2), r.coq())
		return lib.Case{Coq: coq, Class: "bytes-" + kind + suffix, Obs: obs, Nontrivial: true, Key: fmt.Sprintf("%x|%s", b, in.Rebuild)}
	case "binary":
		buf, err := safeBytes(sender.BinaryMarshaler)
		if err != nil {
			return setupFailed(in, 5, "BinaryMarshaler: "+err.Error())
		}
		b := mutate(buf, in.Mut)
		dec, kind := decodeOuter(d, s, b)
		r := observe(d, nil, nil, func() (*onet.Tree, error) {
			t2 := &onet.Tree{}
			if err := t2.BinaryUnmarshaler(s, b); err != nil {
				return nil, err
			}
			return t2, nil
		})
		obs["decode"], obs["result"] = kind, r.Kind+" "+r.Note
		coq := fmt.Sprintf("CBinary %s %s", dec, r.coq())
		return lib.Case{Coq: coq, Class: "binary-" + kind + suffix, Obs: obs, Nontrivial: true, Key: fmt.Sprintf("%x", b)}
	}
	panic("bad kind " + in.Kind)
}

func run(raw json.RawMessage) lib.Case {
	var in input
	if err := json.Unmarshal(raw, &in); err != nil {
		panic(err)
	}
	switch in.Kind {
	case "prop", "hist":
		if os.Getenv(childEnv) == "" {
			return viaChild(in, raw)
		}
		if in.Kind == "prop" {
			return runProp(in)
		}
		return runHist(in)
	}
	return runPure(in)
}

// ---- cluster cases run in a child process ----------------------------------------------------
//
// A panic in a goroutine of a server (connection handler, flush goroutine, instance
// dispatcher) cannot be recovered by the harness and ends the process. The propagation and
// history cases therefore run in a child (this binary re-executed, one child for many cases):
// when it dies, the case it was working on is reported as such (clause 11) and a new child
// serves the following cases.

const childEnv = "VERIF_C06_CHILD"

type childProc struct {
	cmd *exec.Cmd
	in  io.WriteCloser
	out *bufio.Reader
}

var child *childProc

func startChild() *childProc {
	cmd := exec.Command(os.Args[0])
	cmd.Env = append(os.Environ(), childEnv+"=1")
	cmd.Stderr = os.Stderr
	in, err := cmd.StdinPipe()
	if err != nil {
		panic(err)
	}
	out, err := cmd.StdoutPipe()
	if err != nil {
		panic(err)
	}
	if err := cmd.Start(); err != nil {
		panic(err)
	}
	return &childProc{cmd: cmd, in: in, out: bufio.NewReaderSize(out, 1<<20)}
}

func viaChild(in input, raw json.RawMessage) lib.Case {
	if child == nil {
		child = startChild()
	}
	c := child
	type answer struct {
		line []byte
		err  error
	}
	ans := make(chan answer, 1)
	go func() {
		if _, err := c.in.Write(append(append([]byte(nil), raw...), '\n')); err != nil {
			ans <- answer{nil, err}
			return
		}
		for {
			l, err := c.out.ReadBytes('\n')
			if err != nil {
				ans <- answer{nil, err}
				return
			}
			if bytes.HasPrefix(l, []byte(casePrefix)) { // anything else on stdout is log output of onet
				ans <- answer{l[len(casePrefix):], nil}
				return
			}
		}
	}()
	var a answer
	select {
	case a = <-ans:
	case <-time.After(2 * time.Minute):
		a = answer{nil, fmt.Errorf("no answer within 2 minutes")}
	}
	if a.err == nil {
		var res lib.Case
		if err := json.Unmarshal(a.line, &res); err == nil {
			return res
		} else {
			a.err = err
		}
	}
	// the child is gone (or wedged): that is the observation for this case
	c.cmd.Process.Kill()
	c.cmd.Wait()
	child = nil
	return lib.Case{Coq: "CSetup 6", Class: in.Kind + "-" + in.Name + "+process-died", Obs: "the process running the servers ended: " + a.err.Error(),
		Nontrivial: true, Key: "died|" + string(raw)}
}

const casePrefix = "C06CASE "

// childLoop serves cases read from stdin, one JSON input per line.
func childLoop() {
	rd := bufio.NewReaderSize(os.Stdin, 1<<20)
	for {
		l, err := rd.ReadBytes('\n')
		if err != nil {
			return
		}
		c := run(json.RawMessage(bytes.TrimSpace(l)))
		b, err := json.Marshal(c)
		if err != nil {
			panic(err)
		}
		os.Stdout.Write(append(append([]byte(casePrefix), b...), '\n'))
		if strings.Contains(c.Class, "+stuck") {
			return // this process holds a wedged server: the next case gets a fresh one
		}
	}
}

// ---- generators -----------------------------------------------------------------------

// all ordered rooted trees with n nodes, as child-count lists in pre-order
func shapes(n int) [][]int {
	// forests(k): all ordered forests with k nodes, each as concatenated pre-order child counts
	memo := map[int][][]int{0: {{}}}
	var forests func(k int) [][]int
	forests = func(k int) [][]int {
		if r, ok := memo[k]; ok {
			return r
		}
		var out [][]int
		// first tree has j nodes (1..k): root + forest of j-1 nodes; the rest is a forest of k-j
		for j := 1; j <= k; j++ {
			for _, sub := range forests(j - 1) {
				// number of trees in sub = root's child count
				cnt := countRoots(sub)
				for _, rest := range forests(k - j) {
					t := append([]int{cnt}, sub...)
					t = append(t, rest...)
					out = append(out, t)
				}
			}
		}
		memo[k] = out
		return out
	}
	var res [][]int
	for _, sub := range forests(n - 1) {
		res = append(res, append([]int{countRoots(sub)}, sub...))
	}
	return res
}

func countRoots(f []int) int {
	cnt, i := 0, 0
	for i < len(f) {
		cnt++
		// skip one tree
		need := 1
		for need > 0 {
			need += f[i] - 1
			i++
		}
	}
	return cnt
}

func randomShape(rng *rand.Rand, n int, style int) []int {
	// parent of node k (creation order), then renumber in pre-order
	par := make([]int, n)
	kids := make([][]int, n)
	for k := 1; k < n; k++ {
		switch style {
		case 0:
			par[k] = rng.Intn(k)
		case 1: // deep
			par[k] = k - 1 - rng.Intn(min(k, 2))
		default: // bushy
			par[k] = rng.Intn(min(k, 3))
		}
		kids[par[k]] = append(kids[par[k]], k)
	}
	var out []int
	var walk func(k int)
	walk = func(k int) {
		out = append(out, len(kids[k]))
		for _, c := range kids[k] {
			walk(c)
		}
	}
	walk(0)
	return out
}

func min(a, b int) int {
	if a < b {
		return a
	}
	return b
}

func seqInts(n int) []int {
	r := make([]int, n)
	for i := range r {
		r[i] = i
	}
	return r
}

func generate(rng *rand.Rand, tier string) []interface{} {
	var ins []interface{}
	quick := tier == "quick"
	maxN := 7
	if quick {
		maxN = 6
	}
	suitesL := []string{"Ed25519", "bn256.adapter"}
	// (1) every ordered rooted tree up to maxN nodes x placements
	for n := 1; n <= maxN; n++ {
		for si, sh := range shapes(n) {
			// distinct servers in order
			ins = append(ins, input{Kind: "round", Name: "distinct", Roster: rosterSpec{Members: seqInts(n)},
				Tree: treeSpec{Shape: sh, Place: seqInts(n)}})
			// shuffled placement over a larger roster, explicit node ids, per-service keys
			perm := rng.Perm(n + 2)
			ins = append(ins, input{Kind: "round", Name: "shuffled-svc", Roster: rosterSpec{Members: seqInts(n + 2), Svc: true},
				Tree: treeSpec{Shape: sh, Place: perm[:n], NodeIDs: seqInts(n)}, Rebuild: "copy"})
			if n >= 2 {
				// servers repeat in the tree (roster smaller than the tree): node ids derived from keys repeat too
				place := make([]int, n)
				for i := range place {
					place[i] = rng.Intn((n + 1) / 2)
				}
				ins = append(ins, input{Kind: "round", Name: "repeat-derived", Roster: rosterSpec{Members: seqInts((n + 1) / 2)},
					Tree: treeSpec{Shape: sh, Place: place}})
			}
			if !quick || si%3 == 0 {
				ins = append(ins, input{Kind: "round", Name: "distinct", Suite: "bn256.adapter", Roster: rosterSpec{Members: seqInts(n), Svc: si%2 == 0},
					Tree: treeSpec{Shape: sh, Place: seqInts(n)}})
			}
		}
	}
	// (2) the roster's own generators
	gens := 30
	if !quick {
		gens = 300
	}
	for i := 0; i < gens; i++ {
		n := 1 + rng.Intn(40)
		var g string
		switch rng.Intn(4) {
		case 0:
			g = "binary"
		case 1:
			g = "star"
		case 2:
			g = fmt.Sprintf("nary:%d", 1+rng.Intn(5))
		default:
			g = fmt.Sprintf("big:%d:%d", 1+rng.Intn(4), 1+rng.Intn(80))
		}
		if (i%4 == 1 || i%4 == 2) && n > 1 {
			// the generator with a root that is not the first member
			g = fmt.Sprintf("naryroot:%d:%d", 1+rng.Intn(4), 1+rng.Intn(n-1))
		}
		name := "gen-" + strings.Split(g, ":")[0]
		ins = append(ins, input{Kind: "round", Name: name, Suite: suitesL[i%2], Roster: rosterSpec{Members: seqInts(n), Svc: i%3 == 0}, Tree: treeSpec{Gen: g}})
	}
	// (2b) the n-ary generator against its model: every root position for small rosters
	maxGenN := 7
	if !quick {
		maxGenN = 12
	}
	for n := 1; n <= maxGenN; n++ {
		for bf := 1; bf <= 3; bf++ {
			for root := 0; root < n; root++ {
				if quick && (n+bf+root)%2 == 1 && root > 1 {
					continue
				}
				ins = append(ins, input{Kind: "gen", Name: "naryroot", Suite: suitesL[(n+root)%2], Roster: rosterSpec{Members: seqInts(n), Svc: root%3 == 2},
					Tree: treeSpec{Gen: fmt.Sprintf("naryroot:%d:%d", bf, root)}})
			}
		}
		ins = append(ins, input{Kind: "gen", Name: "binary", Roster: rosterSpec{Members: seqInts(n)}, Tree: treeSpec{Gen: "binary"}})
		if n > 1 {
			ins = append(ins, input{Kind: "gen", Name: "star", Roster: rosterSpec{Members: seqInts(n)}, Tree: treeSpec{Gen: "star"}})
		}
	}
	// (3) random trees up to 200 nodes
	big := 24
	if !quick {
		big = 400
	}
	for i := 0; i < big; i++ {
		n := 2 + rng.Intn(199)
		if quick && i%3 != 0 {
			n = 2 + rng.Intn(60)
		}
		rn := 1 + rng.Intn(n)
		place := make([]int, n)
		for k := range place {
			place[k] = rng.Intn(rn)
		}
		ts := treeSpec{Shape: randomShape(rng, n, i%3), Place: place, NodeIDs: seqInts(n)}
		ins = append(ins, input{Kind: "round", Name: "random", Suite: suitesL[(i/2)%2], Roster: rosterSpec{Members: seqInts(rn), Svc: i%4 == 0}, Tree: ts,
			Rebuild: []string{"same", "copy"}[i%2]})
	}
	// (4) receivers' rosters that differ, senders' trees that are not what NewTree builds
	odd := 40
	if !quick {
		odd = 400
	}
	rebuilds := []string{"perm", "short", "other", "nil", "dup", "nokey", "nilid-perm", "nilid-super"}
	for i := 0; i < odd; i++ {
		n := 1 + rng.Intn(9)
		sh := randomShape(rng, n, i%3)
		rn := 1 + rng.Intn(n)
		place := make([]int, n)
		for k := range place {
			place[k] = rng.Intn(rn)
		}
		ins = append(ins, input{Kind: "round", Name: "rebuild-" + rebuilds[i%len(rebuilds)], Roster: rosterSpec{Members: seqInts(rn)},
			Tree: treeSpec{Shape: sh, Place: place, NodeIDs: seqInts(n)}, Rebuild: rebuilds[i%len(rebuilds)]})
		if n >= 2 {
			// a tree that was used (NewTree), extended by hand (AddChild) and made into a tree again
			nx := n + rng.Intn(6)
			shx := randomShape(rng, nx, i%3)
			ins = append(ins, input{Kind: "round", Name: "sender-extended", Suite: suitesL[i%2], Roster: rosterSpec{Members: seqInts(nx), Svc: i%4 == 0},
				Tree: treeSpec{Shape: shx, Place: rng.Perm(nx), NodeIDs: seqInts(nx), Cut: 1 + rng.Intn(nx-1)}})
		}
		switch i % 5 {
		case 0: // RosterIndex recorded by hand does not point at the node's server
			idx := make([]int, n)
			for k := range idx {
				idx[k] = rng.Intn(rn + 1)
			}
			ins = append(ins, input{Kind: "round", Name: "sender-wrongidx", Roster: rosterSpec{Members: seqInts(rn)},
				Tree: treeSpec{Shape: sh, Place: place, Idx: idx, NodeIDs: seqInts(n)}})
		case 1: // tree assembled without NewTree
			ins = append(ins, input{Kind: "round", Name: "sender-noagg", Roster: rosterSpec{Members: seqInts(rn)},
				Tree: treeSpec{Shape: sh, Place: place, NodeIDs: seqInts(n), NoAgg: true}})
		case 2: // roster in which a server is listed twice (same ID field) and the node sits on the second copy
			ms := append(seqInts(rn), 0)
			pl := append([]int(nil), place...)
			pl[rng.Intn(n)] = rn
			ins = append(ins, input{Kind: "round", Name: "roster-repeat", Roster: rosterSpec{Members: ms},
				Tree: treeSpec{Shape: sh, Place: pl, NodeIDs: seqInts(n)}})
		case 3: // a member carries another member's ID field (different key)
			if rn >= 2 {
				pl := append([]int(nil), place...)
				pl[rng.Intn(n)] = rn - 1
				ins = append(ins, input{Kind: "round", Name: "roster-forged-id", Roster: rosterSpec{Members: seqInts(rn), Forge: [][2]int{{rn - 1, 0}}},
					Tree: treeSpec{Shape: sh, Place: pl, NodeIDs: seqInts(n)}})
			}
		case 4:
			ins = append(ins, input{Kind: "round", Name: "sender-noroster", Roster: rosterSpec{Members: seqInts(rn)},
				Tree: treeSpec{Shape: sh, Place: place, NodeIDs: seqInts(n), NoRoster: true}})
		}
	}
	// (5) hand-made descriptions
	descs := []string{"empty", "unknown", "unknown-root", "wrongroster", "nilroster-id", "extra", "nested-ids", "dupnode", "ok"}
	reps := 2
	if !quick {
		reps = 20
	}
	for r := 0; r < reps; r++ {
		for _, dsc := range descs {
			for _, rb := range []string{"same", "perm", "short", "dup", "nokey", "nilid-perm", "nilid-super"} {
				n := 1 + rng.Intn(8)
				ins = append(ins, input{Kind: "make", Desc: dsc, Rebuild: rb, Suite: suitesL[r%2], Roster: rosterSpec{Members: seqInts(n)},
					Tree: treeSpec{Shape: randomShape(rng, n, r%3), Place: seqInts(n)}})
			}
		}
	}
	// (6) mutated bytes
	muts := 150
	if !quick {
		muts = 3000
	}
	kinds := []string{"flip", "zero", "trunc", "splice"}
	for i := 0; i < muts; i++ {
		n := 1 + rng.Intn(6)
		var ms []mutation
		for k := 0; k < 1+rng.Intn(3); k++ {
			ms = append(ms, mutation{Kind: kinds[rng.Intn(len(kinds))], Pos: rng.Intn(4096), Val: rng.Intn(256)})
		}
		kind := "bytes"
		if i%2 == 1 {
			kind = "binary"
		}
		ins = append(ins, input{Kind: kind, Mut: ms, Roster: rosterSpec{Members: seqInts(n), Svc: i%5 == 0},
			Tree: treeSpec{Shape: randomShape(rng, n, i%3), Place: seqInts(n), NoRoster: kind == "binary" && i%20 == 1}})
	}
	ins = append(ins, genProp(rng, tier)...)
	ins = append(ins, genHist(rng, tier)...)
	if only := os.Getenv("VERIF_C06_ONLY"); only != "" { // development aid
		var sel []interface{}
		for _, x := range ins {
			if x.(input).Kind == only {
				sel = append(sel, x)
			}
		}
		return sel
	}
	return ins
}

func corpus() []interface{} {
	ins := []interface{}{
		// F06: a description without root element
		input{Kind: "make", Desc: "empty", Rebuild: "same", Roster: rosterSpec{Members: []int{0, 1, 2}},
			Tree: treeSpec{Shape: []int{2, 0, 0}, Place: []int{0, 1, 2}}},
		// binary form of a tree without roster
		input{Kind: "round", Name: "sender-noroster", Roster: rosterSpec{Members: []int{0, 1}},
			Tree: treeSpec{Shape: []int{1, 0}, Place: []int{0, 1}, NoRoster: true}},
		// roster listing one server twice: the node on the second copy comes back on the first
		input{Kind: "round", Name: "roster-repeat", Roster: rosterSpec{Members: []int{0, 1, 0}},
			Tree: treeSpec{Shape: []int{1, 0}, Place: []int{1, 2}, NodeIDs: []int{0, 1}}},
	}
	ins = append(ins, corpusHist()...)
	return ins
}

func main() {
	log.SetDebugVisible(0)
	log.OutputToBuf()
	registerProtocols()
	if os.Getenv(childEnv) != "" {
		childLoop()
		return
	}
	defer func() {
		if child != nil {
			child.in.Close()
			child.cmd.Wait()
		}
	}()
	lib.Main(lib.Harness{
		Prop:   "C06",
		Import: "Onet.Corr.C06",
		Rule: "round trips (MakeTreeMarshal/MakeTree, Marshal/NewTreeFromMarshal, BinaryMarshaler/BinaryUnmarshaler) of every ordered rooted tree " +
			"up to 6 (quick) / 7 nodes x placements, the roster's generators, random trees up to 200 nodes, rosters with/without per-service keys, " +
			"Ed25519 and bn256.adapter; differing receiver rosters and hand-assembled sender trees; hand-made descriptions; mutated bytes; " +
			"real propagation in in-memory clusters (every node dumps Tree()/Roster()/List()); control-message histories through Overlay.Process " +
			"on one real server with a snapshot of tree store, pending descriptions, lock, instances, parked messages and sent messages after every " +
			"operation; non-trivial = tree with more than one node / history with a peer message; distinct = distinct input",
		Shard:    60,
		Generate: generate,
		Run:      run,
		Corpus:   corpus,
	})
}
