package main

// Control-message histories: one real server X is driven through a list of local
// operations and peer messages (Overlay.Process with fabricated envelopes whose
// sender is the real peer P). After every operation the harness records the tree
// store (with the stored trees), the pending descriptions, the pendingTreeLock,
// the live instances, the parked messages, what P received from X, and whether the
// handler returned, panicked or blocked.

import (
	"fmt"
	"math/rand"
	"os"
	"runtime"
	"sort"
	"strings"
	"sync"
	"time"

	"github.com/google/uuid"
	"go.dedis.ch/onet/v3"
	"go.dedis.ch/onet/v3/network"

	"verifharness/lib"
)

// Marker is sent from X to P after every operation: when P has it, P has every
// earlier message of X (one connection, messages handled in order).
type Marker struct{ N int }

type hop struct {
	Op    string `json:"op"` // lreg lcreate ldone lmsg expire preqtree presp ptm preqros pros
	Tree  int    `json:"tree,omitempty"`
	Node  int    `json:"node,omitempty"`  // lmsg: pre-order position of the addressed node, -1 = a node id that is in no tree
	Bogus bool   `json:"bogus,omitempty"` // lmsg: the sender is unreachable, so the tree request cannot be sent
	Ver   int    `json:"ver,omitempty"`
	Desc  int    `json:"desc,omitempty"` // presp / ptm: index into the description table, -1 = nil
	Ros   int    `json:"ros,omitempty"`  // presp / pros / preqros / rtest: index into the roster table, -1 = nil
	K     int    `json:"k,omitempty"`    // rset: which of the responses held between test and store goes on
}

// ---- harness protocol ---------------------------------------------------------------------

var hrec struct {
	sync.Mutex
	active bool
	xID    network.ServerIdentityID
	insts  []*hproto
}

type hproto struct {
	*onet.TreeNodeInstance
	done bool
}

func newHProto(n *onet.TreeNodeInstance) (onet.ProtocolInstance, error) {
	p := &hproto{TreeNodeInstance: n}
	if err := p.RegisterHandler(p.handlePing); err != nil {
		return nil, err
	}
	hrec.Lock()
	if hrec.active && n.Host().ServerIdentity.ID.Equal(hrec.xID) {
		hrec.insts = append(hrec.insts, p)
	}
	hrec.Unlock()
	return p, nil
}

func (p *hproto) Start() error { return nil }

func (p *hproto) handlePing(m struct {
	*onet.TreeNode
	Ping
}) error {
	return nil
}

// ---- P's recorder ---------------------------------------------------------------------------

type recorder struct {
	sync.Mutex
	msgs   []interface{}
	marker int
}

func (r *recorder) Process(env *network.Envelope) {
	r.Lock()
	defer r.Unlock()
	if m, ok := env.Msg.(*Marker); ok {
		r.marker = m.N
		return
	}
	r.msgs = append(r.msgs, env.Msg)
}

func (r *recorder) take() []interface{} {
	r.Lock()
	defer r.Unlock()
	m := r.msgs
	r.msgs = nil
	return m
}

// ---- world -------------------------------------------------------------------------------------

type hworld struct {
	lt      *onet.LocalTest
	x, p    *onet.Server
	ov      *onet.Overlay
	d       *dumper
	sched   *lib.Sched
	rec     *recorder
	trees   []*onet.Tree        // 0..2 honest, 3 = another tree carrying the id of tree 0
	rosters []*onet.Roster      // see mkWorld
	descs   []*onet.TreeMarshal // see mkWorld
	bogus   *network.ServerIdentity
	nmark   int
	usedTM  map[*onet.TreeMarshal]bool // descriptions that were pending when a roster message with their roster id was handled
	fly     []*flying                  // responses held at overlay.treeArriveTested: they passed the test, have not stored yet
	stuck   string                     // the operation did not complete within the (generous) deadlines: an observation
	note    string
}

func mkWorld(in input) *hworld {
	s := suiteOf(in.Suite)
	lt := onet.NewLocalTest(s)
	lt.Check = onet.CheckNone
	servers := lt.GenServers(2)
	w := &hworld{lt: lt, x: servers[0], p: servers[1], ov: servers[0].VerifOverlay(), d: newDumper(), sched: lib.NewSched(), rec: &recorder{}, usedTM: map[*onet.TreeMarshal]bool{}}
	svc := in.World%2 == 1
	srv := func(i int) *network.ServerIdentity { return poolServer(s, 500+i, svc) }
	r0 := onet.NewRoster([]*network.ServerIdentity{srv(0), srv(1), srv(2), srv(3)})
	r1 := onet.NewRoster([]*network.ServerIdentity{srv(2), srv(3), srv(4), srv(5)})
	mk := func(ro *onet.Roster, shape []int) *onet.Tree {
		return mkTree(ro, treeSpec{Shape: shape, Place: seqInts(len(shape))})
	}
	t0 := mk(r0, []int{1, 2, 0, 0}) // r(a(b,c))
	t1 := mk(r0, []int{3, 0, 0, 0}) // star
	t2 := mk(r1, []int{2, 1, 0, 0}) // r(a(b),c) over the other roster
	b0 := mk(r0, []int{2, 1, 0, 0}) // r(a(b),c): other shape, SAME id as t0
	b0.ID = t0.ID
	w.trees = []*onet.Tree{t0, t1, t2, b0}
	rev := func(ro *onet.Roster) *onet.Roster {
		l := append([]*network.ServerIdentity(nil), ro.List...)
		for i, j := 0, len(l)-1; i < j; i, j = i+1, j-1 {
			l[i], l[j] = l[j], l[i]
		}
		r := onet.NewRoster(l)
		r.ID = ro.ID
		return r
	}
	r0short := onet.NewRoster(r0.List[:2])
	r0short.ID = r0.ID
	r1as0 := onet.NewRoster(r1.List)
	r1as0.ID = r0.ID
	keyless := *r0.List[3]
	keyless.Public = nil
	r0nokey := &onet.Roster{ID: r0.ID, List: []*network.ServerIdentity{r0.List[0], r0.List[1], r0.List[2], &keyless}, Aggregate: r0.Aggregate}
	// 0 R0, 1 R1, 2 R0 reversed (same id), 3 R0 cut to two members (same id), 4 empty Roster{}, 5 R1's members under R0's id,
	// 6 R0 whose last member carries no public key (optional on the wire)
	// 7 R0's servers reversed in a roster WITHOUT id
	r0noid := rev(r0)
	r0noid.ID = onet.RosterID(uuid.Nil)
	w.rosters = []*onet.Roster{r0, r1, rev(r0), r0short, {}, r1as0, r0nokey, r0noid}
	d0 := func() *onet.TreeMarshal { return t0.MakeTreeMarshal() }
	empty := d0()
	empty.Children = nil
	unknown := d0()
	unknown.Children[0].Children[0].ServerIdentityID = srv(5).ID
	wrongRo := d0()
	wrongRo.RosterID = r1.ID
	nilID := d0()
	nilID.TreeID = onet.TreeID(uuid.Nil)
	extra := d0()
	extra.Children = append(extra.Children, &onet.TreeMarshal{TreeNodeID: onet.TreeNodeID(numUUID(9)), ServerIdentityID: srv(5).ID})
	t2over0 := t2.MakeTreeMarshal()
	t2over0.RosterID = r0.ID
	// 0 T0, 1 T1, 2 T2, 3 B0 (id of T0, other shape), 4 T0 without root element, 5 T0 with a non-member,
	// 6 T0 naming roster R1, 7 T0 with nil tree id, 8 T0 with a second top-level element, 9 T2 naming roster R0
	w.descs = []*onet.TreeMarshal{d0(), t1.MakeTreeMarshal(), t2.MakeTreeMarshal(), b0.MakeTreeMarshal(), empty, unknown, wrongRo, nilID, extra, t2over0}
	w.bogus = network.NewServerIdentity(kp(s, 700).Public, network.NewAddress(network.Local, "127.0.0.1:1"))
	// fixed numbering: rosters, trees, descriptions in table order
	for _, r := range w.rosters {
		w.d.rosterBare(r)
	}
	for _, t := range w.trees {
		w.d.tree(t, false)
	}
	for _, m := range w.descs {
		w.d.tm(m)
	}
	w.p.RegisterProcessor(w.rec, onet.RequestTreeMsgID, onet.ResponseTreeMsgID, onet.SendTreeMsgID, onet.RequestRosterMsgID, onet.SendRosterMsgID, network.MessageType(&Marker{}))
	onet.SetVerifHook(w.sched.Hook)
	hrec.Lock()
	hrec.active = true
	hrec.xID = w.x.ServerIdentity.ID
	hrec.insts = nil
	hrec.Unlock()
	return w
}

func (w *hworld) close() {
	onet.SetVerifHook(func(string, ...interface{}) {})
	w.sched.ReleaseAll()
	hrec.Lock()
	hrec.active = false
	insts := hrec.insts
	hrec.insts = nil
	hrec.Unlock()
	t0 := time.Now()
	for _, p := range insts {
		if !p.done {
			func() {
				defer func() {
					if e := recover(); e != nil && os.Getenv("VERIF_DEBUG") != "" {
						fmt.Fprintln(os.Stderr, "done panicked:", e)
					}
				}()
				p.Done()
			}()
		}
	}
	t1 := time.Now()
	w.lt.CloseAll()
	if os.Getenv("VERIF_DEBUG") != "" {
		fmt.Fprintln(os.Stderr, "close: insts", len(insts), "done", t1.Sub(t0), "closeall", time.Since(t1))
	}
}

// ---- Coq literals of the operations ----------------------------------------------------------

func (w *hworld) treeLit(i int) string { s, _ := w.d.tree(w.trees[i], false); return s }

func (w *hworld) opLit(o hop, nilFirst bool) string {
	switch o.Op {
	case "lreg":
		return "(LRegister " + w.treeLit(o.Tree) + ")"
	case "lcreate":
		return "(LCreate " + w.treeLit(o.Tree) + ")"
	case "ldone":
		return fmt.Sprintf("(LDone %d)", w.d.id(w.trees[o.Tree].ID))
	case "lmsg":
		return fmt.Sprintf("(LMsg %d %d %s)", w.d.id(w.trees[o.Tree].ID), w.d.id(w.nodeID(o)), lib.Bool(!o.Bogus))
	case "expire":
		return fmt.Sprintf("(Expire %d)", w.d.id(w.trees[o.Tree].ID))
	case "preqtree":
		return fmt.Sprintf("(PRequestTree %d %d)", w.d.id(w.trees[o.Tree].ID), o.Ver)
	case "presp":
		tm := "None"
		if o.Desc >= 0 {
			tm = "(Some " + w.d.tm(w.descs[o.Desc]) + ")"
		}
		ro := "None"
		if o.Ros >= 0 {
			ro = "(Some " + w.d.rosterBare(w.rosters[o.Ros]) + ")"
		}
		return fmt.Sprintf("(PResponseTree %s %s)", tm, ro)
	case "rtest":
		tm := "None"
		if o.Desc >= 0 {
			tm = "(Some " + w.d.tm(w.descs[o.Desc]) + ")"
		}
		ro := "None"
		if o.Ros >= 0 {
			ro = "(Some " + w.d.rosterBare(w.rosters[o.Ros]) + ")"
		}
		return fmt.Sprintf("(RTest %s %s)", tm, ro)
	case "rset":
		return fmt.Sprintf("(RSet %d)", o.K)
	case "ptm":
		return "(PTreeMarshal " + w.d.tm(w.descs[o.Desc]) + " 0)"
	case "preqros":
		return fmt.Sprintf("(PRequestRoster %d %s)", w.d.id(w.rosters[o.Ros].ID), lib.Bool(nilFirst))
	case "pros":
		return "(PRoster " + w.d.rosterBare(w.rosters[o.Ros]) + ")"
	}
	panic("bad op " + o.Op)
}

func (w *hworld) nodeID(o hop) onet.TreeNodeID {
	l := w.trees[o.Tree].List()
	if o.Node < 0 || o.Node >= len(l) {
		return onet.TreeNodeID(numUUID(31337))
	}
	return l[o.Node].ID
}

// ---- executing one operation -------------------------------------------------------------------

func (w *hworld) process(env *network.Envelope) (outcome string) {
	// no handler is running now: a pendingTreeLock that cannot be taken has been
	// left held by a handler that returned (or panicked) earlier
	leaked := !w.ov.VerifLocksFree()["pendingTreeLock"]
	done := make(chan string, 1)
	gid := make(chan string, 1)
	go func() {
		defer func() {
			if e := recover(); e != nil {
				done <- "Crashed"
			}
		}()
		b := make([]byte, 64)
		b = b[:runtime.Stack(b, false)]
		gid <- strings.Fields(string(b))[1]
		w.ov.Process(env)
		done <- "Fine"
	}()
	me := <-gid
	if leaked {
		// the handler either does not need the lock and returns, or waits for it for ever:
		// decided by looking at the goroutine, not at the clock
		deadline := time.Now().Add(20 * time.Second)
		for {
			select {
			case r := <-done:
				return r
			case <-time.After(5 * time.Millisecond):
			}
			if waitsForPendingTreeLock(me) {
				return "Blocked"
			}
			if time.Now().After(deadline) {
				w.stuck = "handler neither returned nor is waiting for pendingTreeLock"
				return "Blocked"
			}
		}
	}
	select {
	case r := <-done:
		return r
	case <-time.After(20 * time.Second):
		w.stuck = "handler did not return although pendingTreeLock was free"
		return "Blocked"
	}
}

// waitsForPendingTreeLock reports whether goroutine gid is parked in Mutex.Lock called
// from addPendingTreeMarshal or checkPendingTreeMarshal.
func waitsForPendingTreeLock(gid string) bool {
	buf := make([]byte, 1<<20)
	n := runtime.Stack(buf, true)
	for _, g := range strings.Split(string(buf[:n]), "\n\n") {
		if !strings.HasPrefix(g, "goroutine "+gid+" ") {
			continue
		}
		if (strings.Contains(g, ").addPendingTreeMarshal") || strings.Contains(g, ").checkPendingTreeMarshal")) &&
			strings.Contains(g, "sync.(*Mutex).Lock") && (strings.Contains(g, "SemacquireMutex") || strings.Contains(g, "[sync.Mutex.Lock")) {
			return true
		}
	}
	return false
}

func (w *hworld) exec(o hop) (outcome string, nilFirst bool) {
	outcome = "Fine"
	from := w.p.ServerIdentity
	switch o.Op {
	case "lreg":
		func() {
			defer func() {
				if e := recover(); e != nil {
					outcome = "Crashed"
				}
			}()
			w.ov.RegisterTree(w.trees[o.Tree])
		}()
	case "lcreate":
		func() {
			defer func() {
				if e := recover(); e != nil {
					outcome = "Crashed"
				}
			}()
			if _, err := w.ov.CreateProtocol(histName, w.trees[o.Tree], onet.NilServiceID); err != nil {
				// the model creates the instance: a refusal is reported like a failed operation
				outcome = "Crashed"
				w.note = "create: " + err.Error()
			}
		}()
	case "ldone":
		id := w.trees[o.Tree].ID
		hrec.Lock()
		var p *hproto
		for _, q := range hrec.insts {
			if !q.done && q.Token().TreeID.Equal(id) {
				p = q
				break
			}
		}
		if p != nil {
			p.done = true
		}
		hrec.Unlock()
		if p != nil {
			p.Done()
		}
	case "lmsg":
		tr := w.trees[o.Tree]
		if o.Bogus {
			from = w.bogus
		}
		tok := &onet.Token{RosterID: tr.Roster.ID, TreeID: tr.ID, ProtoID: onet.ProtocolNameToID(histName),
			RoundID: onet.RoundID(uuid.Must(uuid.NewRandom())), TreeNodeID: w.nodeID(o)}
		buf, _ := network.Marshal(&Ping{N: 1})
		env := &network.Envelope{ServerIdentity: from, MsgType: onet.ProtocolMsgID,
			Msg: &onet.ProtocolMsg{From: tok.ChangeTreeNodeID(tr.Root.ID), To: tok, MsgSlice: buf, MsgType: network.MessageType(&Ping{})}}
		outcome = w.process(env)
	case "expire":
		id := w.trees[o.Tree].ID
		used := false
		for _, t := range w.ov.VerifC06InstanceTokens() {
			if t.TreeID.Equal(id) {
				used = true
			}
		}
		if !used {
			w.ov.VerifForgetTree(id)
		}
	case "preqtree":
		outcome = w.process(&network.Envelope{ServerIdentity: from, MsgType: onet.RequestTreeMsgID,
			Msg: &onet.RequestTree{TreeID: w.trees[o.Tree].ID, Version: uint32(o.Ver)}})
	case "presp":
		rt := &onet.ResponseTree{}
		if o.Desc >= 0 {
			rt.TreeMarshal = cloneTM(w.descs[o.Desc])
		}
		if o.Ros >= 0 {
			rt.Roster = w.rosters[o.Ros]
		}
		outcome = w.process(&network.Envelope{ServerIdentity: from, MsgType: onet.ResponseTreeMsgID, Msg: rt})
	case "rtest":
		// a response whose handler is held between its test and its store (schedule point
		// overlay.treeArriveTested); if the handler returns without reaching the point, the
		// response was dropped or refused
		rt := &onet.ResponseTree{}
		if o.Desc >= 0 {
			rt.TreeMarshal = cloneTM(w.descs[o.Desc])
		}
		if o.Ros >= 0 {
			rt.Roster = w.rosters[o.Ros]
		}
		f := &flying{gate: w.sched.Block(arrivePoint, 1, nil), done: make(chan string, 1)}
		go func() {
			defer func() {
				if e := recover(); e != nil {
					f.done <- "Crashed"
				}
			}()
			w.ov.Process(&network.Envelope{ServerIdentity: from, MsgType: onet.ResponseTreeMsgID, Msg: rt})
			f.done <- "Fine"
		}()
		hit := make(chan bool, 1)
		go func() { hit <- f.gate.WaitHit(30 * time.Second) }()
		select {
		case outcome = <-f.done:
			f.gate.Release()
		case h := <-hit:
			if h {
				w.fly = append(w.fly, f)
			} else {
				w.stuck = "response handler neither returned nor reached the point after its test"
				f.gate.Release()
			}
		}
	case "rset":
		if o.K >= 0 && o.K < len(w.fly) {
			f := w.fly[o.K]
			w.fly = append(w.fly[:o.K:o.K], w.fly[o.K+1:]...)
			f.gate.Release()
			select {
			case outcome = <-f.done:
			case <-time.After(30 * time.Second):
				w.stuck = "held response did not finish its store"
			}
		}
	case "ptm":
		outcome = w.process(&network.Envelope{ServerIdentity: from, MsgType: onet.SendTreeMsgID, Msg: cloneTM(w.descs[o.Desc])})
	case "preqros":
		outcome = w.process(&network.Envelope{ServerIdentity: from, MsgType: onet.RequestRosterMsgID,
			Msg: &onet.RequestRoster{RosterID: w.rosters[o.Ros].ID}})
		nilFirst = outcome == "Crashed"
	case "pros":
		if !w.rosters[o.Ros].ID.IsNil() {
			for _, tm := range w.ov.VerifC06PendingTreeMarshals()[w.rosters[o.Ros].ID] {
				w.usedTM[tm] = true
			}
		}
		outcome = w.process(&network.Envelope{ServerIdentity: from, MsgType: onet.SendRosterMsgID, Msg: w.rosters[o.Ros]})
	default:
		panic("unknown op " + o.Op) // an error of the generator, not of the implementation
	}
	return
}

// A tag names the circumstances (read from the server before the operation) under which
// a known defect shows, and is kept only when the operation then really changed the
// stored tree of that id (or panicked, for the root-less description). Tags become part
// of the case class, so that a finding's signature identifies that history and no other.
type tagCand struct {
	tag    string
	id     onet.TreeID
	before *onet.Tree
	state  int
	crash  bool // kept when the handler panicked
}

func (w *hworld) tagsFor(o hop) []tagCand {
	var tags []tagCand
	cand := func(tag string, id onet.TreeID, crash bool) {
		tags = append(tags, tagCand{tag, id, w.ov.VerifC06Tree(id), w.ov.VerifTreeState(id), crash})
	}
	switch o.Op {
	case "presp", "ptm":
		if o.Desc < 0 {
			return nil
		}
		tm := w.descs[o.Desc]
		st := w.ov.VerifTreeState(tm.TreeID)
		if st == 2 && !tm.TreeID.IsNil() {
			cand("desc-for-present", tm.TreeID, false)
		}
		if len(tm.Children) == 0 && st != 0 {
			cand("empty-desc", tm.TreeID, true)
		}
	case "pros":
		for _, tm := range w.ov.VerifC06PendingTreeMarshals()[w.rosters[o.Ros].ID] {
			switch w.ov.VerifTreeState(tm.TreeID) {
			case 0:
				if w.usedTM[tm] {
					// this very description was already waiting when an earlier roster message with
					// its roster id was handled: it should have been consumed then
					cand("roster-replayed", tm.TreeID, false)
				} else {
					cand("roster-for-absent", tm.TreeID, false)
				}
			case 2:
				cand("roster-for-present", tm.TreeID, false)
			}
			if len(tm.Children) == 0 {
				cand("empty-desc", tm.TreeID, true)
			}
		}
	}
	return tags
}

func (w *hworld) keepTags(cands []tagCand, oc string, tags map[string]bool) {
	for _, c := range cands {
		if c.crash {
			if oc == "Crashed" {
				tags[c.tag] = true
			}
			continue
		}
		if w.ov.VerifTreeState(c.id) != c.state || w.ov.VerifC06Tree(c.id) != c.before {
			tags[c.tag] = true
		}
	}
}

const arrivePoint = "overlay.treeArriveTested"

type flying struct {
	gate *lib.Gate
	done chan string
}

// hasArrivePoint reports whether /repo has the schedule point between the test and the
// store of handleSendTree (proposed_fixes/C06-hook-arrive.diff). Without it the two-section
// scenarios cannot be forced and are not generated.
func hasArrivePoint() bool {
	w := mkWorld(input{Kind: "hist", Name: "probe"})
	defer w.close()
	w.exec(h("lmsg", 0, 1))
	w.quiesce()
	w.exec(h("presp", 0, 0))
	w.quiesce()
	return w.sched.Count(arrivePoint) > 0
}

func cloneTM(m *onet.TreeMarshal) *onet.TreeMarshal {
	c := *m
	c.Children = nil
	for _, ch := range m.Children {
		c.Children = append(c.Children, cloneTM(ch))
	}
	return &c
}

// quiesce waits for the flush goroutines started by RegisterTree and for X's messages to reach P.
func (w *hworld) quiesce() {
	deadline := time.Now().Add(10 * time.Second)
	for w.sched.Count("overlay.flushDone") < w.sched.Count("overlay.treeSet") {
		if time.Now().After(deadline) {
			w.stuck = "flush goroutine did not finish"
			return
		}
		time.Sleep(200 * time.Microsecond)
	}
	w.nmark++
	if _, err := w.x.Send(w.p.ServerIdentity, &Marker{N: w.nmark}); err != nil {
		w.stuck = "marker: " + err.Error()
		return
	}
	for {
		w.rec.Lock()
		m := w.rec.marker
		w.rec.Unlock()
		if m >= w.nmark {
			return
		}
		if time.Now().After(deadline) {
			w.stuck = "marker did not arrive"
			return
		}
		time.Sleep(200 * time.Microsecond)
	}
}

func (w *hworld) outLit(m interface{}) string {
	switch v := m.(type) {
	case *onet.RequestTree:
		return fmt.Sprintf("(ORequestTree %d)", w.d.id(v.TreeID))
	case *onet.ResponseTree:
		return fmt.Sprintf("(OResponseTree %s %s)", w.d.tm(v.TreeMarshal), w.d.roster(v.Roster))
	case *onet.TreeMarshal:
		return "(OTreeMarshal " + w.d.tm(v) + ")"
	case *onet.RequestRoster:
		return fmt.Sprintf("(ORequestRoster %d)", w.d.id(v.RosterID))
	case *onet.Roster:
		if v.ID.IsNil() && len(v.List) == 0 {
			return "(ORoster None)"
		}
		return "(ORoster " + w.d.roster(v) + ")"
	}
	return fmt.Sprintf("(ORequestTree %d)", 999999)
}

// snapshot takes the snapshot on its own goroutine: if the server is wedged on one of the locks
// the accessors need, the operation is reported as not completed with an empty snapshot.
func (w *hworld) snapshot(outcome string) string {
	res := make(chan string, 1)
	go func() { res <- w.snapshot1(outcome) }()
	select {
	case s := <-res:
		return s
	case <-time.After(15 * time.Second):
		w.stuck = "the accessors for the snapshot did not return"
		return "(mkSnap [] [] true [] [] [] Blocked)"
	}
}

func (w *hworld) snapshot1(outcome string) string {
	var store []string
	ids := []onet.TreeID{w.trees[0].ID, w.trees[1].ID, w.trees[2].ID, onet.TreeID(uuid.Nil)} // nothing is ever stored under the nil id
	for _, id := range ids {
		n := w.d.id(id)
		switch w.ov.VerifTreeState(id) {
		case 0:
			store = append(store, fmt.Sprintf("(%d, None)", n))
		case 1:
			store = append(store, fmt.Sprintf("(%d, Some None)", n))
		default:
			t := w.ov.VerifC06Tree(id)
			s, links := w.d.tree(t, true)
			if !links {
				// parent links / roster pointers of the stored tree are inconsistent: there is no
				// field for that in the snapshot, so the tree is reported under an impossible id
				s = strings.Replace(s, "(mkTree ", "(mkTree 999999", 1)
			}
			store = append(store, fmt.Sprintf("(%d, Some (Some %s))", n, s))
		}
	}
	pm := w.ov.VerifC06PendingTreeMarshals()
	type pe struct {
		k int
		s string
	}
	var pes []pe
	for rid, l := range pm {
		var tms []string
		for _, m := range l {
			tms = append(tms, w.d.tm(m))
		}
		pes = append(pes, pe{w.d.id(rid), fmt.Sprintf("(%d, %s)", w.d.id(rid), lib.List(tms))})
	}
	sort.Slice(pes, func(a, b int) bool { return pes[a].k < pes[b].k })
	var pend []string
	for _, e := range pes {
		pend = append(pend, e.s)
	}
	plock := !w.ov.VerifLocksFree()["pendingTreeLock"]
	var insts []int
	for _, t := range w.ov.VerifC06InstanceTokens() {
		insts = append(insts, w.d.id(t.TreeID))
	}
	sort.Ints(insts)
	var parked []string
	for _, m := range w.ov.VerifPending() {
		parked = append(parked, fmt.Sprintf("(%d, %d)", w.d.id(m.To.TreeID), w.d.id(m.To.TreeNodeID)))
	}
	var outs []string
	for _, m := range w.rec.take() {
		outs = append(outs, w.outLit(m))
	}
	return fmt.Sprintf("(mkSnap %s %s %s %s %s %s %s)", lib.List(store), lib.List(pend), lib.Bool(plock), lib.NatList(insts),
		lib.List(parked), lib.List(outs), outcome)
}

func runHist(in input) lib.Case {
	t00 := time.Now()
	w := mkWorld(in)
	if os.Getenv("VERIF_DEBUG") != "" {
		fmt.Fprintln(os.Stderr, "mkWorld", time.Since(t00))
		defer func() { fmt.Fprintln(os.Stderr, "case total", time.Since(t00)) }()
	}
	defer func() {
		if w.stuck == "" {
			w.close()
			return
		}
		// a wedged server may never finish closing; the child process ends after this case
		done := make(chan struct{})
		go func() { w.close(); close(done) }()
		select {
		case <-done:
		case <-time.After(3 * time.Second):
		}
	}()
	var ops, snaps, trace []string
	race := false
	for _, o := range in.Ops {
		if strings.HasPrefix(o.Op, "r") {
			race = true
		}
	}
	peer := false
	tags := map[string]bool{}
	for _, o := range in.Ops {
		cands := w.tagsFor(o)
		oc, nilFirst := w.exec(o)
		if w.stuck == "" {
			w.quiesce()
		}
		if w.stuck != "" {
			// the operation (or its flush / its messages) did not complete: that is what is observed
			oc = "Blocked"
			tags["stuck"] = true
		}
		w.keepTags(cands, oc, tags)
		lit := w.opLit(o, nilFirst)
		if race && !strings.HasPrefix(o.Op, "r") {
			lit = "(RSeq " + lit + ")"
		}
		ops = append(ops, lit)
		snaps = append(snaps, w.snapshot(oc))
		trace = append(trace, o.Op+":"+oc)
		if strings.HasPrefix(o.Op, "p") || strings.HasPrefix(o.Op, "r") {
			peer = true
		}
		if oc != "Fine" {
			break
		}
	}
	class := "hist-" + in.Name
	var tl []string
	for t := range tags {
		tl = append(tl, t)
	}
	sort.Strings(tl)
	for _, t := range tl {
		class += "+" + t
	}
	if in.Suite != "" && in.Suite != "Ed25519" {
		class += "@" + in.Suite
	}
	if w.stuck != "" && os.Getenv("VERIF_DEBUG") != "" {
		fmt.Fprintln(os.Stderr, "hist stuck:", in.Name, w.stuck, trace)
	}
	for _, f := range w.fly { // responses still held at the end of the history go on
		f.gate.Release()
	}
	coq := fmt.Sprintf("CHist %s %s", lib.List(ops), lib.List(snaps))
	if race {
		coq = fmt.Sprintf("CRace %s %s", lib.List(ops), lib.List(snaps))
	}
	last := ""
	if len(snaps) > 0 {
		last = snaps[len(snaps)-1]
		if len(last) > 600 {
			last = last[:600] + "..."
		}
	}
	return lib.Case{Coq: coq, Class: class, Obs: map[string]interface{}{"trace": strings.Join(trace, " "), "last": last, "stuck": w.stuck, "note": w.note},
		Nontrivial: peer, Key: fmt.Sprintf("%v|%d|%s", in.Ops, in.World, in.Suite)}
}

// ---- scenarios -------------------------------------------------------------------------------------

func h(op string, args ...int) hop {
	o := hop{Op: op}
	switch op {
	case "lreg", "lcreate", "ldone", "expire":
		o.Tree = args[0]
	case "lmsg":
		o.Tree, o.Node = args[0], args[1]
	case "preqtree":
		o.Tree, o.Ver = args[0], args[1]
	case "presp", "rtest":
		o.Desc, o.Ros = args[0], args[1]
	case "rset":
		o.K = args[0]
	case "ptm":
		o.Desc = args[0]
	case "preqros", "pros":
		o.Ros = args[0]
	}
	return o
}

func hbogus(tree, node int) hop { return hop{Op: "lmsg", Tree: tree, Node: node, Bogus: true} }

type scen struct {
	name string
	ops  []hop
}

func scenarios() []scen {
	return []scen{
		// the regular way: message for an unknown tree, request, response, instance
		{"solicited", []hop{h("lmsg", 0, 1), h("presp", 0, 0), h("preqtree", 0, 1), h("preqtree", 0, 0)}},
		// nobody asked
		{"unsolicited", []hop{h("presp", 0, 0), h("ptm", 0), h("pros", 0), h("preqtree", 0, 1)}},
		// a response that is sent twice
		{"repeated", []hop{h("lmsg", 0, 1), h("presp", 0, 0), h("presp", 0, 0), h("preqtree", 0, 1)}},
		// the requested id answered with a description of another tree
		{"other-id", []hop{h("lmsg", 0, 1), h("presp", 1, 0), h("lmsg", 1, 0), h("presp", 2, 1), h("presp", 1, 0)}},
		// requested id, but the roster does not fit
		{"roster-mismatch", []hop{h("lmsg", 0, 1), h("presp", 0, 1), h("presp", 6, 0), h("presp", 0, 4), h("presp", 0, -1), h("presp", -1, 0), h("presp", 0, 0)}},
		// requested id, roster with the right id but other members / other order
		{"roster-same-id", []hop{h("lmsg", 0, 1), h("presp", 0, 3), h("presp", 0, 5), h("presp", 0, 2)}},
		// requested id, right roster id, but a member that the tree uses comes without public key
		{"roster-keyless", []hop{h("lmsg", 0, 1), h("presp", 0, 6), h("ptm", 0), h("pros", 6), h("presp", 0, 0)}},
		// requested id, the description's servers in a roster that carries no id
		{"roster-without-id", []hop{h("lmsg", 0, 1), h("presp", 0, 7), h("ptm", 0), h("pros", 7), h("preqtree", 0, 1), h("presp", 0, 0)}},
		// malformed descriptions for a requested id
		{"malformed-unknown-member", []hop{h("lmsg", 0, 1), h("presp", 5, 0), h("presp", 7, 0), h("presp", 9, 0), h("presp", 8, 0)}},
		{"malformed-empty", []hop{h("lmsg", 0, 1), h("presp", 4, 0)}},
		// a tree this server built itself is replaced by what a peer sends under its id
		{"overwrite-local", []hop{h("lreg", 0), h("presp", 3, 0), h("preqtree", 0, 1)}},
		{"overwrite-local-live", []hop{h("lcreate", 0), h("presp", 3, 2), h("lmsg", 0, 2)}},
		// ... or a tree learnt earlier
		{"overwrite-learnt", []hop{h("lmsg", 0, 1), h("presp", 0, 0), h("presp", 3, 0)}},
		// deprecated form: tree description first, roster on request
		{"deprecated", []hop{h("lmsg", 0, 1), h("ptm", 0), h("pros", 0), h("preqtree", 0, 0), h("preqros", 0)}},
		// deprecated form, the roster is known from a live instance
		{"deprecated-known-roster", []hop{h("lcreate", 1), h("lmsg", 0, 1), h("ptm", 0), h("ldone", 1)}},
		// deprecated form: the roster message comes again after the tree was released
		{"deprecated-stale", []hop{h("lmsg", 0, 1), h("ptm", 0), h("pros", 0), h("ldone", 0), h("expire", 0), h("pros", 0)}},
		// deprecated form: the tree arrives by a full response while its bare description waits for the roster;
		// the roster comes after the tree was released
		{"deprecated-late-roster", []hop{h("lmsg", 0, -1), h("ptm", 0), h("presp", 0, 0), h("expire", 0), h("pros", 0)}},
		// deprecated form: a second roster message with other members re-makes the tree
		{"deprecated-remake", []hop{h("lmsg", 0, 1), h("ptm", 0), h("pros", 0), h("pros", 2)}},
		// deprecated form with malformed descriptions
		{"deprecated-malformed", []hop{h("lmsg", 0, 1), h("ptm", 5), h("ptm", 7), h("ptm", 0), h("pros", 3), h("pros", 0)}},
		{"deprecated-empty", []hop{h("lmsg", 0, 1), h("ptm", 4), h("pros", 0)}},
		// a roster nobody waits for leaves pendingTreeLock held; the next description blocks
		{"roster-unexpected", []hop{h("pros", 0), h("lmsg", 0, 1), h("ptm", 0)}},
		{"roster-unexpected-twice", []hop{h("pros", 1), h("pros", 0)}},
		// a roster request while a tree is requested
		{"roster-request", []hop{h("lreg", 1), h("preqros", 0), h("preqros", 1), h("lmsg", 0, 1), h("preqros", 1)}},
		// the request cannot be sent: the id must not stay registered
		{"request-unsent", []hop{hbogus(0, 1), h("presp", 0, 0), h("lmsg", 0, 1), h("presp", 0, 0)}},
		// a message for a node that is not in the learnt tree
		{"foreign-node", []hop{h("lmsg", 0, -1), h("presp", 0, 0), h("lmsg", 0, -1), h("lmsg", 0, 3)}},
		// release and learn again
		{"relearn", []hop{h("lmsg", 0, 1), h("presp", 0, 0), h("ldone", 0), h("expire", 0), h("presp", 0, 0), h("lmsg", 0, 2), h("presp", 0, 0)}},
		// answering requests
		{"answer", []hop{h("preqtree", 0, 1), h("lreg", 0), h("preqtree", 0, 1), h("preqtree", 0, 0), h("lreg", 2), h("preqtree", 2, 1), h("preqros", 1), h("preqros", 0)}},
	}
}

func randomHist(rng *rand.Rand, n int) []hop {
	var ops []hop
	for i := 0; i < n; i++ {
		t := rng.Intn(3)
		switch k := rng.Intn(100); {
		case k < 16:
			ops = append(ops, hop{Op: "lmsg", Tree: t, Node: rng.Intn(5) - 1, Bogus: rng.Intn(8) == 0})
		case k < 22:
			ops = append(ops, h("lreg", rng.Intn(4)))
		case k < 28:
			ops = append(ops, h("lcreate", rng.Intn(4)))
		case k < 34:
			ops = append(ops, h("ldone", t))
		case k < 40:
			ops = append(ops, h("expire", t))
		case k < 48:
			ops = append(ops, h("preqtree", t, rng.Intn(2)))
		case k < 70:
			d, r := rng.Intn(10), rng.Intn(9)-1
			if rng.Intn(3) > 0 { // mostly a fitting pair
				d = []int{0, 1, 2, 3}[rng.Intn(4)]
				r = []int{0, 0, 1, 0}[d]
			}
			if rng.Intn(25) == 0 {
				d = -1
			}
			ops = append(ops, h("presp", d, r))
		case k < 82:
			ops = append(ops, h("ptm", rng.Intn(10)))
		case k < 94:
			ops = append(ops, h("pros", rng.Intn(8)))
		default:
			ops = append(ops, h("preqros", rng.Intn(2)))
		}
	}
	return ops
}

// raceScenarios: the test and the store of handleSendTree are two critical sections
func raceScenarios() []scen {
	return []scen{
		// the solicited response and a second one carrying the same id, another tree: both pass the test
		{"race-two-responses", []hop{h("lmsg", 0, 1), h("rtest", 0, 0), h("rtest", 3, 0), h("rset", 0), h("rset", 0), h("preqtree", 0, 1)}},
		// the same response twice (same content)
		{"race-same-response", []hop{h("lmsg", 0, 1), h("rtest", 0, 0), h("rtest", 0, 0), h("rset", 1), h("rset", 0)}},
		// a local registration of the tree in the window of a response describing another tree
		{"race-local-register", []hop{h("lmsg", 0, 1), h("rtest", 3, 0), h("lreg", 0), h("rset", 0)}},
		// a full response overtakes a held one; the tree is released; the held one stores
		{"race-after-release", []hop{h("lmsg", 0, -1), h("rtest", 0, 0), h("presp", 0, 0), h("expire", 0), h("rset", 0)}},
		// a refused response never reaches the point
		{"race-refused", []hop{h("rtest", 0, 0), h("lmsg", 0, 1), h("rtest", 5, 0), h("rtest", 0, 1), h("rtest", 0, 0), h("rset", 0)}},
	}
}

func genHist(rng *rand.Rand, tier string) []interface{} {
	var ins []interface{}
	if hasArrivePoint() {
		for i, sc := range raceScenarios() {
			ins = append(ins, input{Kind: "hist", Name: sc.name, Ops: sc.ops, World: i})
		}
	}
	reps, rnd := 1, 60
	if tier != "quick" {
		reps, rnd = 6, 1500
	}
	for r := 0; r < reps; r++ {
		for i, sc := range scenarios() {
			suite := "Ed25519"
			if (i+r)%5 == 4 {
				suite = "bn256.adapter"
			}
			ins = append(ins, input{Kind: "hist", Name: sc.name, Ops: sc.ops, World: r + i, Suite: suite})
		}
	}
	scs := scenarios()
	for i := 0; i < rnd; i++ {
		if i%3 == 0 {
			// a named scenario followed by random operations
			sc := scs[rng.Intn(len(scs))]
			ops := append(append([]hop(nil), sc.ops...), randomHist(rng, 3+rng.Intn(5))...)
			ins = append(ins, input{Kind: "hist", Name: sc.name + "+random", Ops: ops, World: i})
		} else {
			ins = append(ins, input{Kind: "hist", Name: "random", Ops: randomHist(rng, 5+rng.Intn(10)), World: i})
		}
	}
	return ins
}

func corpusHist() []interface{} {
	var ins []interface{}
	for _, sc := range scenarios() {
		switch sc.name {
		case "overwrite-local", "overwrite-learnt", "deprecated-stale", "deprecated-late-roster", "deprecated-remake", "malformed-empty", "deprecated-empty":
			ins = append(ins, input{Kind: "hist", Name: sc.name, Ops: sc.ops})
		}
	}
	return ins
}
