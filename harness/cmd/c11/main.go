// C11 harness: drives one real server (X) through a list of model actions,
// forcing their order with the verif schedule points, and snapshots the server
// after each action. The same action list is run by the Coq model
// (Overlay/Done.v) and the projected states are compared.
package main

import (
	"errors"
	"encoding/json"
	"fmt"
	"math/rand"
	"os"
	"strings"
	"sync"
	"time"

	"github.com/google/uuid"
	"go.dedis.ch/kyber/v3/suites"
	"go.dedis.ch/onet/v3"
	"go.dedis.ch/onet/v3/log"
	"go.dedis.ch/onet/v3/network"

	"verifharness/lib"
)

var suite = suites.MustFind("Ed25519")

const protoName = "VerifC11"

// Ping is the only protocol message of the harness protocol.
type Ping struct{ N int }

// ---- harness protocol ---------------------------------------------------------

type counters struct {
	sync.Mutex
	created  map[onet.RoundID]int
	accepted map[onet.RoundID]int
	handled  map[onet.RoundID]int
	insts    map[onet.RoundID]*proto
}

var cnt *counters
var xID network.ServerIdentityID // only instances on X are counted

type proto struct {
	*onet.TreeNodeInstance
	onX bool
}

func newProto(n *onet.TreeNodeInstance) (onet.ProtocolInstance, error) {
	p := &proto{TreeNodeInstance: n}
	p.onX = n.ServerIdentity().ID.Equal(xID)
	if p.onX {
		cnt.Lock()
		r := n.Token().RoundID
		cnt.created[r]++
		cnt.insts[r] = p
		cnt.Unlock()
	}
	if err := p.RegisterHandler(p.handlePing); err != nil {
		return nil, err
	}
	return p, nil
}

func (p *proto) Start() error { return nil }

var shutdownErr bool

// Shutdown is called when the instance is closed; a protocol may report an error from it
func (p *proto) Shutdown() error {
	if shutdownErr && p.onX {
		return errors.New("verif: shutdown reports an error")
	}
	return nil
}

func (p *proto) ProcessProtocolMsg(msg *onet.ProtocolMsg) {
	if os.Getenv("VERIF_DEBUG") != "" {
		fmt.Fprintln(os.Stderr, "    accept on", p.ServerIdentity().Address, time.Now().Format("05.000"))
	}
	if p.onX {
		cnt.Lock()
		cnt.accepted[p.Token().RoundID]++
		cnt.Unlock()
	}
	p.TreeNodeInstance.ProcessProtocolMsg(msg)
}

func (p *proto) handlePing(m struct {
	*onet.TreeNode
	Ping
}) error {
	if os.Getenv("VERIF_DEBUG") != "" {
		fmt.Fprintln(os.Stderr, "    handler on", p.ServerIdentity().Address, time.Now().Format("05.000"))
	}
	if p.onX {
		cnt.Lock()
		cnt.handled[p.Token().RoundID]++
		cnt.Unlock()
	}
	return nil
}

// ---- scenario language ----------------------------------------------------------

// step ops: tree i (LocalTree), run i r (LocalCreate+LocalSet), lookup i r, deliver i r,
// misscheck i, missreg i, arrive i, done i r [long], fire i, tcancel i, tdelete i, req i
type step struct {
	Op   string `json:"op"`
	Tree int    `json:"tree"`
	Run  int    `json:"run,omitempty"`
	Long bool   `json:"long,omitempty"`
	Mid  int    `json:"mid,omitempty"` // run: while the creating thread is held at overlay.treeSet, the run Mid of the same tree declares itself done
}

type input struct {
	Name   string `json:"name"`
	Steps  []step `json:"steps"`
	Drain  bool   `json:"drain"`
	Random int    `json:"random,omitempty"` // number of random steps after Steps
	Seed   int64  `json:"seed,omitempty"`
	// the protocol's Shutdown reports an error (the instance is finished all the same)
	ShutdownErr bool `json:"shutdown_err,omitempty"`
}

type tokKey struct{ tree, run int }

type world struct {
	lt      *onet.LocalTest
	x, p    *onet.Server
	ovX     *onet.Overlay
	ovP     *onet.Overlay
	trees   []*onet.Tree
	sched   *lib.Sched
	tokens  map[tokKey]*onet.Token
	order   []tokKey
	pid     onet.ProtocolID
	inflite map[tokKey]*flight
	missG   map[int]*flight // per tree: the thread on the miss path
	parked  map[int][]tokKey
	spare   map[int]*lib.Gate // per tree: armed gate waiting for the next timer to fire
	armed   map[int]*lib.Gate // per tree: gate at the point where the removal goroutine has read the timeout
	held    []heldTimer       // fired timers held before their locked section, in firing order
	chanOf  map[int]int       // per tree: channel id of the scheduled removal
	next    int
	acts    []string
	snaps   []string
	answers []string
	failed  string
	stale   []int // positions of TimerDelete actions of removals that had been cancelled
	f27     bool // an instance finished while a message thread of the same tree was between lookup and delivery
}

type heldTimer struct {
	ch, tree int
	gate     *lib.Gate
}

type flight struct {
	stage int // miss thread: 0 = held after the lookup, 1 = held before Register
	key  tokKey
	gate *lib.Gate // currently holding gate
	done chan struct{}
	hit  bool
}

func mkTrees(ro *onet.Roster) []*onet.Tree {
	l := ro.List
	mk := func(order []int, chain bool) *onet.Tree {
		root := onet.NewTreeNode(order[0], l[order[0]])
		a := onet.NewTreeNode(order[1], l[order[1]])
		b := onet.NewTreeNode(order[2], l[order[2]])
		root.AddChild(a)
		if chain {
			a.AddChild(b)
		} else {
			root.AddChild(b)
		}
		return onet.NewTree(ro, root)
	}
	return []*onet.Tree{mk([]int{0, 1, 2}, false), mk([]int{0, 1, 2}, true), mk([]int{0, 2, 1}, true)}
}

func (w *world) token(k tokKey) *onet.Token {
	if t, ok := w.tokens[k]; ok {
		return t
	}
	tr := w.trees[k.tree]
	t := &onet.Token{RosterID: tr.Roster.ID, TreeID: tr.ID, ProtoID: w.pid,
		RoundID: onet.RoundID(uuid.Must(uuid.NewRandom())), TreeNodeID: tr.Root.ID}
	w.tokens[k] = t
	w.order = append(w.order, k)
	return t
}

func (w *world) matchTok(t *onet.Token) func([]interface{}) bool {
	id := t.ID()
	return func(args []interface{}) bool {
		if len(args) < 2 {
			return false
		}
		m, ok := args[1].(*onet.ProtocolMsg)
		return ok && m.To != nil && m.To.ID().Equal(id)
	}
}

func (w *world) matchTree(i int) func([]interface{}) bool {
	id := w.trees[i].ID
	return func(args []interface{}) bool {
		if len(args) < 2 {
			return false
		}
		switch v := args[1].(type) {
		case onet.TreeID:
			return v.Equal(id)
		case *onet.Tree:
			return v.ID.Equal(id)
		case *onet.ProtocolMsg:
			return v.To != nil && v.To.TreeID.Equal(id)
		}
		return false
	}
}

const wait = 4 * time.Second

func (w *world) snapshot() string {
	var ts, ps, is, cs, as []string
	for i, t := range w.trees {
		ts = append(ts, fmt.Sprintf("(%d, %d)", i, w.ovX.VerifTreeState(t.ID)))
		ps = append(ps, fmt.Sprintf("(%d, %s)", i, lib.Bool(w.ovX.VerifRemovalPending(t.ID))))
	}
	active, done := w.ovX.VerifInstances()
	code := func(id onet.TokenID) int {
		for _, d := range done {
			if d.Equal(id) {
				return 2
			}
		}
		for _, a := range active {
			if a.Equal(id) {
				return 1
			}
		}
		return 0
	}
	cnt.Lock()
	for _, k := range w.order {
		t := w.tokens[k]
		kk := fmt.Sprintf("(%d, %d)", k.tree, k.run)
		is = append(is, fmt.Sprintf("(%s, %d)", kk, code(t.ID())))
		cs = append(cs, fmt.Sprintf("(%s, %d)", kk, cnt.created[t.RoundID]))
		as = append(as, fmt.Sprintf("(%s, %d)", kk, cnt.accepted[t.RoundID]))
	}
	cnt.Unlock()
	return fmt.Sprintf("(Some (mkSnap %s %s %s %s %s))", lib.List(ts), lib.List(ps), lib.List(is), lib.List(cs), lib.List(as))
}

func (w *world) emit(act string, observe bool) {
	w.acts = append(w.acts, act)
	if observe {
		w.snaps = append(w.snaps, w.snapshot())
	} else {
		w.snaps = append(w.snaps, "None")
	}
}

// settle waits until every accepted message has been through its handler, so that
// no dispatch is pending when the next action changes the tree store
func (w *world) settle() {
	deadline := time.Now().Add(5 * time.Second)
	for time.Now().Before(deadline) {
		ok := true
		cnt.Lock()
		for r, a := range cnt.accepted {
			if cnt.handled[r] < a {
				ok = false
			}
		}
		cnt.Unlock()
		if ok {
			return
		}
		time.Sleep(200 * time.Microsecond)
	}
}

// flushed accounts for the flush goroutine that every RegisterTree starts: it waits
// until the goroutine has re-transmitted the parked messages of the tree and emits
// the corresponding model actions
func (w *world) flushed(i int, fd *lib.Gate) {
	if !fd.WaitHit(wait) {
		w.failed = "flush did not finish"
		fd.Release()
		return
	}
	w.settle()
	// every re-transmitted message for a finished run on an otherwise unused tree cancels the
	// scheduled removal (lookup) and schedules a new one (drop): mirror the model's channel numbers
	rearms := 0
	active, done := w.ovX.VerifInstances()
	used := false
	for _, k := range w.order {
		if k.tree == i {
			for _, a := range active {
				if a.Equal(w.tokens[k].ID()) {
					used = true
				}
			}
		}
	}
	for _, pk := range w.parked[i] {
		w.emit("MsgLookup "+ktext(pk), false)
		w.emit("MsgDeliver "+ktext(pk), false)
		if tok, ok := w.tokens[pk]; ok && !used {
			for _, d := range done {
				if d.Equal(tok.ID()) {
					rearms++
				}
			}
		}
	}
	if rearms > 1 {
		w.next += rearms - 1
	}
	w.parked[i] = nil
	fd.Release()
}

func ktext(k tokKey) string { return fmt.Sprintf("(%d, %d)", k.tree, k.run) }

// noteRemoval mirrors the model's channel numbering: a removal that became
// scheduled during the last action got the next channel id.
func (w *world) noteRemoval(i int, before string, long bool) {
	// [before] / after identify the scheduled removal: a removal that was cancelled and another one
	// scheduled within one action is a new removal as well
	after := w.ovX.VerifRemovalChan(w.trees[i].ID)
	if after != "" && after != before {
		w.chanOf[i] = w.next
		w.next++
		// the removal goroutine reads the store's timeout when it starts: wait for that,
		// so that a later change of the timeout cannot affect this timer
		if g := w.armed[i]; g != nil {
			if !g.WaitHit(wait) {
				w.failed = "removal goroutine did not start"
				return
			}
			g.Release()
			w.armed[i] = nil
		}
		if !long {
			// the timer is short: wait until it has fired and is held before its locked section
			g := w.spare[i]
			if g == nil || !g.WaitHit(wait) {
				w.failed = "timer did not fire"
				return
			}
			w.spare[i] = nil
			w.held = append(w.held, heldTimer{w.chanOf[i], i, g})
			w.emit(fmt.Sprintf("TimerFire %d", w.chanOf[i]), false)
		}
	}
}

// setTimer prepares the tree store for a removal that the next action may schedule
func (w *world) setTimer(i int, long bool) {
	if w.armed[i] == nil {
		w.armed[i] = w.sched.Block("treestorage.timerArmed", 1, w.matchTree(i))
	}
	if long {
		w.ovX.VerifSetTreeTimeout(time.Hour)
		return
	}
	w.ovX.VerifSetTreeTimeout(20 * time.Millisecond)
	if w.spare[i] == nil {
		w.spare[i] = w.sched.Block("treestorage.timerFired", 1, w.matchTree(i))
	}
}

// do executes one scenario step; when the step cannot be carried out (the implementation did not
// get where the scenario expects it) everything the step recorded is dropped and the scenario
// ends there: the actions and snapshots of the steps completed before are still a valid history
func (w *world) do(s step) bool {
	na, ns, nq, nt := len(w.acts), len(w.snaps), len(w.answers), len(w.stale)
	w.exec(s)
	if w.failed != "" {
		w.acts, w.snaps, w.answers, w.stale = w.acts[:na], w.snaps[:ns], w.answers[:nq], w.stale[:nt]
		return false
	}
	return true
}

func (w *world) exec(s step) {
	k := tokKey{s.Tree, s.Run}
	tr := w.trees[s.Tree]
	switch s.Op {
	case "tree":
		fd := w.sched.Block("overlay.flushDone", 1, w.matchTree(s.Tree))
		w.setTimer(s.Tree, s.Long)
		before := w.ovX.VerifRemovalChan(tr.ID)
		w.ovX.RegisterTree(tr)
		w.emit(fmt.Sprintf("LocalTree %d", s.Tree), false)
		w.flushed(s.Tree, fd)
		w.noteRemoval(s.Tree, before, s.Long)
		w.snaps[len(w.snaps)-1] = w.snapshot()
	case "run":
		fd := w.sched.Block("overlay.flushDone", 1, w.matchTree(s.Tree))
		var ts *lib.Gate
		if s.Mid != 0 {
			ts = w.sched.Block("overlay.treeSet", 1, w.matchTree(s.Tree))
		}
		w.setTimer(s.Tree, s.Long)
		before := w.ovX.VerifRemovalChan(tr.ID)
		type res struct {
			pi  onet.ProtocolInstance
			err error
		}
		resc := make(chan res, 1)
		go func() {
			pi, err := w.ovX.CreateProtocol(protoName, tr, onet.NilServiceID)
			resc <- res{pi, err}
		}()
		if ts != nil {
			// the creating thread has entered the instance in the table and stored the tree
			// (in that order, each in its own critical section) and is held before the flush
			if !ts.WaitHit(wait) {
				w.failed = "create did not reach treeSet"
				ts.Release()
				fd.Release()
				return
			}
			w.emit("LocalCreate "+ktext(k), false)
			w.emit("LocalSet "+ktext(k), false)
			w.noteRemoval(s.Tree, before, s.Long)
			if w.failed == "" {
				w.exec(step{Op: "done", Tree: s.Tree, Run: s.Mid, Long: s.Long})
			}
			before = w.ovX.VerifRemovalChan(tr.ID)
			ts.Release()
		}
		var r res
		select {
		case r = <-resc:
		case <-time.After(wait):
			w.failed = "create did not return"
			fd.Release()
			return
		}
		if r.err != nil {
			w.failed = "create: " + r.err.Error()
			fd.Release()
			return
		}
		w.tokens[k] = r.pi.Token()
		w.order = append(w.order, k)
		if ts == nil {
			w.emit("LocalCreate "+ktext(k), false)
			w.emit("LocalSet "+ktext(k), false)
		}
		w.flushed(s.Tree, fd)
		w.noteRemoval(s.Tree, before, s.Long)
		w.snaps[len(w.snaps)-1] = w.snapshot()
	case "lookup":
		tok := w.token(k)
		f := &flight{done: make(chan struct{})}
		gh := w.sched.Block("overlay.treeHit", 1, w.matchTok(tok))
		gm := w.sched.Block("overlay.treeMiss", 1, w.matchTok(tok))
		child := tr.Root.Children[0]
		buf, _ := network.Marshal(&Ping{N: 1})
		env := &network.Envelope{
			ServerIdentity: child.ServerIdentity,
			MsgType:        onet.ProtocolMsgID,
			Msg: &onet.ProtocolMsg{From: tok.ChangeTreeNodeID(child.ID), To: tok, MsgSlice: buf,
				MsgType: network.MessageType(&Ping{})},
		}
		go func() {
			w.ovX.Process(env)
			close(f.done)
		}()
		hitc := make(chan bool, 2)
		go func() { hitc <- gh.WaitHit(wait) }()
		go func() {
			if gm.WaitHit(wait) {
				hitc <- false
			}
		}()
		select {
		case h := <-hitc:
			f.hit = h
			if h {
				f.gate = gh
				gm.Release()
				w.inflite[k] = f
			} else {
				f.gate = gm
				gh.Release()
				w.missG[s.Tree] = f
				f.key = k
			}
		case <-time.After(wait + time.Second):
			w.failed = "lookup reached neither hit nor miss"
			return
		}
		w.emit("MsgLookup "+ktext(k), true)
	case "deliver":
		f := w.inflite[k]
		if f == nil {
			w.failed = "deliver without lookup"
			return
		}
		w.setTimer(s.Tree, s.Long)
		before := w.ovX.VerifRemovalChan(tr.ID)
		f.gate.Release()
		select {
		case <-f.done:
		case <-time.After(wait):
			w.failed = "deliver did not return"
			return
		}
		delete(w.inflite, k)
		w.settle()
		n := len(w.acts)
		w.emit("MsgDeliver "+ktext(k), false)
		w.noteRemoval(s.Tree, before, s.Long)
		w.snaps[n] = w.snapshot()
	case "misscheck":
		f := w.missG[s.Tree]
		if f == nil {
			w.failed = "misscheck without miss"
			return
		}
		g := w.sched.Block("overlay.notRegistered", 1, w.matchTree(s.Tree))
		pk := w.sched.Block("overlay.parked", 1, w.matchTree(s.Tree))
		fd := w.sched.Block("overlay.flushDone", 1, w.matchTree(s.Tree))
		w.setTimer(s.Tree, s.Long)
		before := w.ovX.VerifRemovalChan(tr.ID)
		f.gate.Release()
		if !pk.WaitHit(wait) {
			w.failed = "message was not parked"
			return
		}
		w.parked[s.Tree] = append(w.parked[s.Tree], f.key)
		pk.Release()
		hit := make(chan bool, 1)
		go func() { hit <- g.WaitHit(wait) }()
		returned := false
		select {
		case <-f.done:
			g.Release()
			delete(w.missG, s.Tree)
			returned = true
		case h := <-hit:
			if !h {
				w.failed = "miss thread stuck"
				return
			}
			f.gate = g
			f.stage = 1
		}
		w.emit(fmt.Sprintf("MissCheck %d", s.Tree), false)
		if returned && w.ovX.VerifTreeState(tr.ID) == 2 {
			// the tree is there: the re-check after parking (repair of F01) flushes the parked messages
			w.flushed(s.Tree, fd)
			w.noteRemoval(s.Tree, before, s.Long)
		} else {
			fd.Release()
		}
		w.snaps[len(w.snaps)-1] = w.snapshot()
	case "missreg":
		f := w.missG[s.Tree]
		if f == nil {
			w.failed = "missreg without thread"
			return
		}
		f.gate.Release()
		select {
		case <-f.done:
		case <-time.After(wait):
			w.failed = "miss thread did not return"
			return
		}
		delete(w.missG, s.Tree)
		w.emit(fmt.Sprintf("MissRegister %d", s.Tree), true)
	case "arrive":
		state := w.ovX.VerifTreeState(tr.ID)
		fd := w.sched.Block("overlay.flushDone", 1, w.matchTree(s.Tree))
		w.setTimer(s.Tree, s.Long)
		before := w.ovX.VerifRemovalChan(tr.ID)
		env := &network.Envelope{
			ServerIdentity: tr.Root.Children[0].ServerIdentity,
			MsgType:        onet.ResponseTreeMsgID,
			Msg:            &onet.ResponseTree{TreeMarshal: tr.MakeTreeMarshal(), Roster: tr.Roster},
		}
		w.ovX.Process(env)
		w.emit(fmt.Sprintf("TreeArrive %d", s.Tree), false)
		if state == 1 {
			// requested and missing: stored; the flush goroutine re-transmits every parked message of this tree
			w.flushed(s.Tree, fd)
		} else {
			fd.Release()
		}
		w.noteRemoval(s.Tree, before, s.Long)
		w.snaps[len(w.snaps)-1] = w.snapshot()
	case "done":
		tok := w.tokens[k]
		if tok == nil {
			w.failed = "done of unknown token"
			return
		}
		cnt.Lock()
		p := cnt.insts[tok.RoundID]
		cnt.Unlock()
		if p == nil {
			w.failed = "no instance handle"
			return
		}
		for fk, f := range w.inflite {
			if fk.tree == s.Tree && f.hit {
				w.f27 = true
			}
		}
		w.setTimer(s.Tree, s.Long)
		before := w.ovX.VerifRemovalChan(tr.ID)
		p.Done()
		n := len(w.acts)
		w.emit("Done "+ktext(k), false)
		w.noteRemoval(s.Tree, before, s.Long)
		w.snaps[n] = w.snapshot()
	case "tcancel":
		// the removal's channel was closed while its (long) timer was still armed:
		// the goroutine leaves on its own; nothing to do on the implementation
		w.emit(fmt.Sprintf("TimerCancel %d", w.chanOf[s.Tree]), true)
	case "tdelete":
		// the oldest held timer of this tree runs its locked section
		idx := -1
		for j, h := range w.held {
			if h.tree == s.Tree {
				idx = j
				break
			}
		}
		if idx < 0 {
			w.failed = "tdelete without fired timer"
			return
		}
		h := w.held[idx]
		w.held = append(w.held[:idx], w.held[idx+1:]...)
		if h.ch != w.chanOf[s.Tree] || !w.ovX.VerifRemovalPending(tr.ID) {
			// this removal was cancelled (and possibly a newer one scheduled): its goroutine must change nothing
			w.stale = append(w.stale, len(w.acts))
		}
		td := w.sched.Block("treestorage.timerDone", 1, w.matchTree(s.Tree))
		h.gate.Release()
		if !td.WaitHit(wait) {
			w.failed = "timer goroutine did not finish"
			return
		}
		td.Release()
		w.emit(fmt.Sprintf("TimerDelete %d", h.ch), true)
	case "trydelete":
		// like tdelete, but a scenario step that is only applicable when a fired timer is held
		for _, h := range w.held {
			if h.tree == s.Tree {
				w.exec(step{Op: "tdelete", Tree: s.Tree})
				break
			}
		}
	case "stalefirst":
		// two first messages for one new token on a stored tree. T2 is held right after it has read
		// the instance tables (overlay.instanceLooked; in the code as it is it holds transmitMux
		// there), then T1 is let go: if T1 can complete (it cannot while T2 holds the mutex) the
		// instance it created declares itself done before T2 continues.
		tok := w.token(k)
		child := tr.Root.Children[0]
		send := func() (*flight, *lib.Gate) {
			f := &flight{done: make(chan struct{})}
			gh := w.sched.Block("overlay.treeHit", 1, w.matchTok(tok))
			buf, _ := network.Marshal(&Ping{N: 1})
			env := &network.Envelope{ServerIdentity: child.ServerIdentity, MsgType: onet.ProtocolMsgID,
				Msg: &onet.ProtocolMsg{From: tok.ChangeTreeNodeID(child.ID), To: tok, MsgSlice: buf,
					MsgType: network.MessageType(&Ping{})}}
			go func() {
				w.ovX.Process(env)
				close(f.done)
			}()
			if !gh.WaitHit(wait) {
				w.failed = "stalefirst: no hit"
			}
			return f, gh
		}
		f2, g2 := send()
		if w.failed != "" {
			g2.Release()
			return
		}
		w.emit("MsgLookup "+ktext(k), true)
		gl := w.sched.Block("overlay.instanceLooked", 1, w.matchTok(tok))
		g2.Release()
		if !gl.WaitHit(wait) {
			w.failed = "stalefirst: tables not read"
			gl.Release()
			return
		}
		f1, g1 := send()
		if w.failed != "" {
			g1.Release()
			gl.Release()
			return
		}
		w.emit("MsgLookup "+ktext(k), true)
		w.setTimer(s.Tree, s.Long)
		g1.Release()
		t1first := false
		select {
		case <-f1.done:
			t1first = true
		case <-time.After(300 * time.Millisecond):
		}
		if t1first {
			w.settle()
			w.emit("MsgDeliver "+ktext(k), true)
			cnt.Lock()
			p := cnt.insts[tok.RoundID]
			cnt.Unlock()
			if p != nil {
				w.exec(step{Op: "done", Tree: s.Tree, Run: s.Run, Long: s.Long})
			}
		}
		before := w.ovX.VerifRemovalChan(tr.ID)
		gl.Release()
		for _, f := range []*flight{f2, f1} {
			select {
			case <-f.done:
			case <-time.After(wait):
				w.failed = "stalefirst: message thread did not return"
				return
			}
		}
		w.settle()
		if !t1first {
			// T2 created the instance and delivered, then T1 delivered: observed together
			w.emit("MsgDeliver "+ktext(k), false)
		}
		w.emit("MsgDeliver "+ktext(k), false)
		w.noteRemoval(s.Tree, before, s.Long)
		w.snaps[len(w.snaps)-1] = w.snapshot()
	case "req":
		w.ovP.VerifExpectTree(tr.ID)
		env := &network.Envelope{
			ServerIdentity: w.p.ServerIdentity,
			MsgType:        onet.RequestTreeMsgID,
			Msg:            &onet.RequestTree{TreeID: tr.ID, Version: 1},
		}
		w.ovX.Process(env)
		answered := false
		deadline := time.Now().Add(400 * time.Millisecond)
		for time.Now().Before(deadline) {
			if w.ovP.VerifTreeState(tr.ID) == 2 {
				answered = true
				break
			}
			time.Sleep(2 * time.Millisecond)
		}
		w.ovP.VerifForgetTree(tr.ID)
		w.answers = append(w.answers, fmt.Sprintf("(%d, %s)", s.Tree, lib.Bool(answered)))
		w.emit(fmt.Sprintf("ReqTree %d", s.Tree), true)
	default:
		w.failed = "unknown op " + s.Op
	}
}

func run(raw json.RawMessage) lib.Case {
	var in input
	if err := json.Unmarshal(raw, &in); err != nil {
		panic(err)
	}
	shutdownErr = in.ShutdownErr
	cnt = &counters{created: map[onet.RoundID]int{}, accepted: map[onet.RoundID]int{}, handled: map[onet.RoundID]int{}, insts: map[onet.RoundID]*proto{}}
	lt := onet.NewLocalTest(suite)
	lt.Check = onet.CheckNone
	servers := lt.GenServers(3)
	xID = servers[0].ServerIdentity.ID
	roster := lt.GenRosterFromHost(servers...)
	w := &world{lt: lt, x: servers[0], p: servers[1], ovX: servers[0].VerifOverlay(), ovP: servers[1].VerifOverlay(),
		trees: mkTrees(roster), sched: lib.NewSched(), tokens: map[tokKey]*onet.Token{}, pid: onet.ProtocolNameToID(protoName),
		inflite: map[tokKey]*flight{}, missG: map[int]*flight{}, parked: map[int][]tokKey{}, spare: map[int]*lib.Gate{}, armed: map[int]*lib.Gate{},
		chanOf: map[int]int{}}
	onet.SetVerifHook(w.sched.Hook)
	if os.Getenv("VERIF_DEBUG") != "" {
		w.sched.Record = func(seq int64, point string, args []interface{}) {
			fmt.Fprintln(os.Stderr, "      point", point, time.Now().Format("05.000"))
		}
	}
	defer func() {
		// a held message thread whose tree has been removed (F27) would crash the process when
		// its message reaches the instance: give every tree back before letting the threads go
		onet.SetVerifHook(func(string, ...interface{}) {})
		for _, t := range w.trees {
			w.ovX.RegisterTree(t)
		}
		w.sched.ReleaseAll()
		cnt.Lock()
		var ps []*proto
		for _, p := range cnt.insts {
			ps = append(ps, p)
		}
		cnt.Unlock()
		for _, p := range ps {
			p.Done() // otherwise CloseAll waits seconds for lingering instances
		}
		closeAll(lt)
	}()
	if os.Getenv("VERIF_DEBUG") != "" {
		fmt.Fprintln(os.Stderr, "scenario", in.Name)
	}
	for _, s := range in.Steps {
		if os.Getenv("VERIF_DEBUG") != "" {
			fmt.Fprintln(os.Stderr, "  step", s, time.Now().Format("05.000"))
		}
		if !w.do(s) {
			break
		}
	}
	executed := append([]step(nil), in.Steps...)
	if in.Random > 0 && w.failed == "" {
		executed = append(executed, w.randomWalk(in.Random, in.Seed)...)
	}
	drained := false
	if w.failed == "" && in.Drain {
		// run every held timer to completion
		for len(w.held) > 0 && w.failed == "" {
			w.do(step{Op: "tdelete", Tree: w.held[0].tree})
		}
		drained = w.failed == ""
		// a removal whose (long) timer has not fired is still pending: not drained
		for i := range w.trees {
			if w.ovX.VerifRemovalPending(w.trees[i].ID) {
				drained = false
			}
		}
	}
	cut := w.failed != ""
	if cut {
		if os.Getenv("VERIF_DEBUG") != "" {
			fmt.Fprintln(os.Stderr, "cut:", w.failed, executed)
		}
		if len(w.acts) == 0 {
			return lib.Case{Discard: true, Class: in.Name, Obs: w.failed}
		}
		drained = false
	}
	coq := fmt.Sprintf("mkCase %s %s %s %s %s", lib.List(w.acts), lib.List(w.snaps), lib.List(w.answers), lib.Bool(drained), lib.NatList(w.stale))
	obs := map[string]interface{}{"actions": strings.Join(w.acts, "; "), "answers": strings.Join(w.answers, " "),
		"last": w.snaps[len(w.snaps)-1]}
	class := in.Name
	if in.ShutdownErr {
		class += "+shutdownerr"
	}
	if w.f27 {
		class += "+f27window"
	}
	if cut {
		class += "+cut"
		obs["cut"] = w.failed
	}
	if w.lateArrival() {
		// known finding C11-N2: a tree stored by a response that nothing uses afterwards is never released
		class += "+latearrival"
	}
	return lib.Case{Coq: coq, Class: class, Input: input{Name: in.Name, Steps: executed, Drain: in.Drain, ShutdownErr: in.ShutdownErr}, Obs: obs,
		Nontrivial: len(w.acts) > 3, Key: strings.Join(w.acts, ";")}
}

// lateArrival tells whether some tree is stored at the end, with no removal pending, because a
// tree response stored it and no instance was created on it and no local registration followed
func (w *world) lateArrival() bool {
	for i, tr := range w.trees {
		if w.ovX.VerifTreeState(tr.ID) != 2 || w.ovX.VerifRemovalPending(tr.ID) {
			continue
		}
		last := -1
		for j, a := range w.acts {
			if a == fmt.Sprintf("TreeArrive %d", i) {
				last = j
			}
		}
		if last < 0 {
			continue
		}
		used := false
		for _, a := range w.acts[last+1:] {
			if strings.HasPrefix(a, fmt.Sprintf("LocalSet (%d,", i)) || strings.HasPrefix(a, fmt.Sprintf("MsgDeliver (%d,", i)) ||
				strings.HasPrefix(a, fmt.Sprintf("LocalCreate (%d,", i)) || a == fmt.Sprintf("LocalTree %d", i) {
				used = true
			}
		}
		if !used {
			return true
		}
	}
	return false
}

// randomWalk performs n random applicable steps on trees 0 and 1 and then settles every
// thread it left in flight; it returns the steps performed (for the replay file)
func (w *world) randomWalk(n int, seed int64) []step {
	rng := rand.New(rand.NewSource(seed))
	var done []step
	nextRun := map[int]int{0: 10, 1: 10}
	do := func(s step) {
		w.do(s)
		done = append(done, s)
	}
	activeTokens := func() []tokKey {
		active, _ := w.ovX.VerifInstances()
		var out []tokKey
		for _, k := range w.order {
			id := w.tokens[k].ID()
			for _, a := range active {
				if a.Equal(id) {
					cnt.Lock()
					_, has := cnt.insts[w.tokens[k].RoundID]
					cnt.Unlock()
					if has {
						out = append(out, k)
					}
				}
			}
		}
		return out
	}
	heldTrees := func() []int {
		seen := map[int]bool{}
		var out []int
		for _, h := range w.held {
			if !seen[h.tree] {
				seen[h.tree] = true
				out = append(out, h.tree)
			}
		}
		return out
	}
	for i := 0; i < n && w.failed == ""; i++ {
		t := rng.Intn(2)
		switch c := rng.Intn(20); {
		case c < 4:
			nextRun[t]++
			do(step{Op: "run", Tree: t, Run: nextRun[t], Long: rng.Intn(3) == 0})
		case c < 8:
			// a message for a known token (any state) or for a new remote run
			var k tokKey
			if len(w.order) > 0 && rng.Intn(3) > 0 {
				k = w.order[rng.Intn(len(w.order))]
			} else {
				nextRun[t]++
				k = tokKey{t, nextRun[t]}
			}
			if w.inflite[k] != nil || w.missG[k.tree] != nil {
				continue
			}
			do(step{Op: "lookup", Tree: k.tree, Run: k.run})
		case c < 11:
			for k := range w.inflite {
				if w.ovX.VerifTreeState(w.trees[k.tree].ID) != 2 {
					continue // the tree was removed under the thread (F27): delivering would crash the process
				}
				do(step{Op: "deliver", Tree: k.tree, Run: k.run, Long: rng.Intn(3) == 0})
				break
			}
		case c < 13:
			for tr, f := range w.missG {
				if f.stage == 0 {
					do(step{Op: "misscheck", Tree: tr})
				} else {
					do(step{Op: "missreg", Tree: tr})
				}
				break
			}
		case c < 14:
			if w.ovX.VerifTreeState(w.trees[t].ID) == 1 {
				do(step{Op: "arrive", Tree: t, Long: rng.Intn(3) == 0})
			}
		case c < 17:
			if ks := activeTokens(); len(ks) > 0 {
				k := ks[rng.Intn(len(ks))]
				do(step{Op: "done", Tree: k.tree, Run: k.run, Long: rng.Intn(4) == 0})
			}
		case c < 19:
			if hs := heldTrees(); len(hs) > 0 {
				do(step{Op: "tdelete", Tree: hs[rng.Intn(len(hs))]})
			}
		default:
			do(step{Op: "req", Tree: t})
		}
	}
	// settle what is in flight
	for k := range w.inflite {
		if w.failed == "" && w.ovX.VerifTreeState(w.trees[k.tree].ID) == 2 {
			do(step{Op: "deliver", Tree: k.tree, Run: k.run})
		}
	}
	for tr := range w.missG {
		for guard := 0; w.missG[tr] != nil && w.failed == "" && guard < 3; guard++ {
			if w.missG[tr].stage == 0 {
				do(step{Op: "misscheck", Tree: tr})
			} else {
				do(step{Op: "missreg", Tree: tr})
			}
		}
	}
	for tr := range w.trees {
		if w.failed == "" && w.ovX.VerifTreeState(w.trees[tr].ID) == 1 {
			do(step{Op: "arrive", Tree: tr})
		}
	}
	return done
}


// ---- scenario templates ---------------------------------------------------------

func st(op string, tree int, run ...int) step {
	s := step{Op: op, Tree: tree}
	if len(run) > 0 {
		s.Run = run[0]
	}
	return s
}

func long(s step) step { s.Long = true; return s }

func templates(t int) []input {
	return []input{
		{Name: "basic", Drain: true, Steps: []step{st("run", t, 1), st("lookup", t, 1), st("deliver", t, 1), st("req", t),
			st("done", t, 1), st("req", t), st("tdelete", t), st("req", t)}},
		{Name: "shared-tree", Drain: true, Steps: []step{st("run", t, 1), st("run", t, 2), st("done", t, 1), st("req", t),
			st("lookup", t, 2), st("deliver", t, 2), st("done", t, 2), st("req", t)}},
		{Name: "remote-instance", Drain: true, Steps: []step{st("tree", t), st("lookup", t, 1), st("deliver", t, 1),
			st("lookup", t, 1), st("deliver", t, 1), st("done", t, 1)}},
		{Name: "reuse-in-grace", Drain: true, Steps: []step{st("run", t, 1), long(st("done", t, 1)), st("req", t), st("run", t, 2),
			st("tcancel", t), st("req", t), st("done", t, 2)}},
		{Name: "late-message-in-grace", Drain: true, Steps: []step{st("run", t, 1), long(st("done", t, 1)), st("lookup", t, 1),
			st("tcancel", t), st("deliver", t, 1), st("req", t)}},
		{Name: "late-message-other-live", Drain: true, Steps: []step{st("run", t, 1), st("run", t, 2), st("done", t, 1),
			st("lookup", t, 1), st("deliver", t, 1), st("lookup", t, 2), st("deliver", t, 2), st("done", t, 2)}},
		{Name: "timer-race", Drain: true, Steps: []step{st("run", t, 1), st("done", t, 1), st("run", t, 2), st("tdelete", t),
			st("req", t)}},
		{Name: "lookup-window", Drain: true, Steps: []step{st("run", t, 1), st("lookup", t, 2), st("done", t, 1),
			st("deliver", t, 2), st("tdelete", t), st("req", t)}},
		{Name: "register-overwrite", Drain: true, Steps: []step{st("lookup", t, 1), st("misscheck", t), st("run", t, 2),
			st("missreg", t), st("req", t), st("arrive", t), st("done", t, 2), st("done", t, 1)}},
		{Name: "late-after-release", Drain: true, Steps: []step{st("run", t, 1), st("done", t, 1), st("tdelete", t), st("lookup", t, 1),
			st("misscheck", t), st("missreg", t), st("arrive", t), st("req", t)}},
		{Name: "stale-timer", Drain: true, Steps: []step{st("run", t, 1), st("done", t, 1), st("run", t, 2), st("done", t, 2),
			st("tdelete", t), st("req", t), st("tdelete", t), st("req", t)}},
		{Name: "done-during-create", Drain: true, Steps: []step{st("run", t, 1), {Op: "run", Tree: t, Run: 2, Mid: 1}, st("req", t),
			st("trydelete", t), st("req", t), st("lookup", t, 2), st("deliver", t, 2), st("done", t, 2), st("tdelete", t), st("req", t)}},
		{Name: "two-first-messages", Drain: true, Steps: []step{st("tree", t), st("stalefirst", t, 1), st("req", t),
			st("trydelete", t), st("req", t)}},
		// known finding C11-N2: the request of a parked message's thread is registered only after a local
		// run has served the message and the tree has been released; the response stores it for good
		{Name: "late-response", Drain: true, Steps: []step{st("lookup", t, 1), st("misscheck", t), st("run", t, 2),
			st("done", t, 2), st("done", t, 1), st("tdelete", t), st("missreg", t), st("arrive", t), st("req", t)}},
		{Name: "unsolicited-tree", Drain: true, Steps: []step{st("arrive", t), st("req", t), st("lookup", t, 1), st("misscheck", t),
			st("missreg", t), st("lookup", t, 2), st("misscheck", t), st("arrive", t), st("done", t, 1), st("done", t, 2)}},
	}
}

func generate(rng *rand.Rand, tier string) []interface{} {
	var ins []interface{}
	reps := 3
	if tier != "quick" {
		reps = 40
	}
	for r := 0; r < reps; r++ {
		for _, tpl := range templates(rng.Intn(3)) {
			ins = append(ins, tpl)
		}
		// two templates on different trees, interleaved
		for n := 0; n < 12; n++ {
			ta, tb := templates(0), templates(1+rng.Intn(2))
			a := ta[rng.Intn(len(ta))]
			b := tb[rng.Intn(len(tb))]
			var steps []step
			i, j := 0, 0
			for i < len(a.Steps) || j < len(b.Steps) {
				if j >= len(b.Steps) || (i < len(a.Steps) && rng.Intn(2) == 0) {
					steps = append(steps, a.Steps[i])
					i++
				} else {
					steps = append(steps, b.Steps[j])
					j++
				}
			}
			ins = append(ins, input{Name: a.Name + "+" + b.Name, Drain: true, Steps: steps, ShutdownErr: rng.Intn(3) == 0})
		}
		for n := 0; n < 12; n++ {
			ins = append(ins, input{Name: "random-walk", Drain: true, Random: 10 + rng.Intn(25), Seed: rng.Int63(), ShutdownErr: rng.Intn(3) == 0})
		}
	}
	return ins
}

func corpus() []interface{} {
	var ins []interface{}
	for _, tpl := range templates(0) {
		ins = append(ins, tpl)
	}
	// the same scenarios with a protocol whose Shutdown reports an error
	for _, tpl := range templates(1) {
		tpl.ShutdownErr = true
		ins = append(ins, tpl)
	}
	return ins
}

// closeAll closes the cluster but does not wait for ever: a server whose Close hangs (that is
// C10's subject) must not stall this harness; the cluster is then abandoned.
func closeAll(lt *onet.LocalTest) {
	done := make(chan struct{})
	go func() {
		defer func() { recover() }()
		lt.CloseAll()
		close(done)
	}()
	select {
	case <-done:
	case <-time.After(12 * time.Second):
	}
}

func main() {
	log.SetDebugVisible(0)
	log.OutputToBuf()
	if _, err := onet.GlobalProtocolRegister(protoName, newProto); err != nil {
		panic(err)
	}
	network.RegisterMessages(&Ping{})
	lib.Main(lib.Harness{
		Prop:   "C11",
		Import: "Onet.Corr.C11",
		Rule: "scenario templates (basic, shared tree, remote-created instance, reuse within the grace period, late messages, " +
			"timer race, lookup window, register overwrite, late message after release, unsolicited tree) on one of three trees, plus seeded " +
			"interleavings of two templates on different trees; every action is forced in order with schedule points and followed by a " +
			"snapshot; non-trivial = more than 3 actions; distinct = distinct action list",
		Shard:    6,
		Generate: generate,
		Run:      run,
		Corpus:   corpus,
	})
}
