// C13 harness: identifiers of rosters, trees, tokens, protocol / service names,
// server identities and tree nodes.
//
// An input is a GROUP of objects of one kind.  For every object the harness
// records the id the real code computes (twice in this process, once more by
// another route where one exists, once in a fresh sub-process) and an ORACLE:
// Go's own SHA-256 / uuid.NewSHA1 / uuid.NewMD5 applied to the candidate
// pre-images computed by a straightforward re-implementation here.  Coq runs
// the model with the oracle as its hash function: the model's id is defined
// only if the model's pre-image is one of the candidates, and must equal the
// observed id.  The property itself (equal objects <-> equal ids, pairwise over
// the group) is decided in Coq on the observed ids alone.
package main

import (
	"bytes"
	"context"
	"crypto/sha256"
	"encoding/binary"
	"encoding/hex"
	"encoding/json"
	"fmt"
	"io/ioutil"
	"math/rand"
	"os"
	"os/exec"
	"sort"
	"strings"
	"sync"
	"time"

	"github.com/google/uuid"
	"go.dedis.ch/kyber/v3"
	"go.dedis.ch/kyber/v3/suites"
	"go.dedis.ch/onet/v3"
	"go.dedis.ch/onet/v3/log"
	"go.dedis.ch/onet/v3/network"

	"verifharness/lib"
)

// ---------------------------------------------------------------- inputs

type mem struct {
	K int   `json:"k"` // key id, -1 = nil Public
	S []int `json:"s,omitempty"`
}

type node struct {
	K int    `json:"k"`
	C []node `json:"c,omitempty"`
}

type treeIn struct {
	Ro int  `json:"ro"` // index into Rosters, -1 = nil roster
	T  node `json:"t"`
}

// editIn: swap the elements I and J of the caller's slice, or (Set != nil) overwrite element I
type editIn struct {
	I   int  `json:"i"`
	J   int  `json:"j"`
	Set *mem `json:"set,omitempty"`
}

// aliasObs: what a roster shows after the caller edited the slice it was built from
type aliasObs struct {
	ID      string `json:"id"`
	GetID   string `json:"getid"`
	Members []mem  `json:"members"`
	Search  []int  `json:"search"` // for every ORIGINAL member: where Search finds it (-1: not found)
}

func keyIDOfPoint(in *input, p kyber.Point) int {
	if p == nil {
		return -1
	}
	var buf bytes.Buffer
	if _, err := p.MarshalTo(&buf); err != nil {
		return -2
	}
	h := hex.EncodeToString(buf.Bytes())
	found := -2 // a key that occurs nowhere in the input
	each := func(k int) {
		if k >= 0 && hex.EncodeToString(getKey(k).bin) == h {
			found = k
		}
	}
	for _, r := range in.Rosters {
		for _, m := range r {
			each(m.K)
			for _, s := range m.S {
				each(s)
			}
		}
	}
	for _, es := range in.Edits {
		for _, e := range es {
			if e.Set != nil {
				each(e.Set.K)
				for _, s := range e.Set.S {
					each(s)
				}
			}
		}
	}
	return found
}

func observeAlias(in *input, i int) (o aliasObs) {
	ms := in.Rosters[i]
	o = aliasObs{ID: "crash", GetID: "crash"}
	defer func() {
		if r := recover(); r != nil {
			o.ID = "crash"
		}
	}()
	sis := mkIdentities(ms)
	ro := onet.NewRoster(sis)
	if ro == nil {
		o.ID, o.GetID = "nil", "nil"
		return
	}
	orig := make([]network.ServerIdentityID, len(sis))
	for p, si := range sis {
		orig[p] = si.ID
	}
	// the caller goes on using ITS slice
	if i < len(in.Edits) {
		for _, e := range in.Edits[i] {
			if e.Set != nil {
				sis[e.I] = mkIdentity(*e.Set, 100+e.I)
			} else {
				sis[e.I], sis[e.J] = sis[e.J], sis[e.I]
			}
		}
	}
	o.ID = hex.EncodeToString(ro.ID[:])
	o.GetID = catch(func() string {
		id, err := ro.GetID()
		if err != nil {
			return "err"
		}
		return hex.EncodeToString(id[:])
	})
	for _, si := range ro.List {
		m := mem{K: keyIDOfPoint(in, si.Public)}
		for _, s := range si.ServiceIdentities {
			m.S = append(m.S, keyIDOfPoint(in, s.Public))
		}
		o.Members = append(o.Members, m)
	}
	for _, id := range orig {
		idx, _ := ro.Search(id)
		o.Search = append(o.Search, idx)
	}
	return
}

func aliasJSON(in *input, i int) string {
	b, _ := json.Marshal(observeAlias(in, i))
	return string(b)
}

type deriv struct {
	From int    `json:"from"`
	How  string `json:"how,omitempty"` // "" literal | clone | copy | changenode | clone-first (clone before the first ID())
}

type input struct {
	Kind    string      `json:"kind"` // rosters trees tokens protos services servers nodes
	Label   string      `json:"label"`
	Rosters [][]mem     `json:"rosters,omitempty"`
	Trees   []treeIn    `json:"trees,omitempty"`
	Tokens  [][6]string `json:"tokens,omitempty"` // hex uuids: roster tree proto service round node
	// Derive[i] (optional) says how token i is OBTAINED: built from a literal (How == ""),
	// or derived the way real code does it -- ID() is called on token From, the token is
	// cloned / copied, the fields are set to Tokens[i], and ID() is called on the result.
	Derive []deriv `json:"derive,omitempty"`
	// kind "alias": Edits[i] is what the caller does to the slice it gave to NewRoster
	// for Rosters[i], AFTER NewRoster returned
	Edits [][]editIn `json:"edits,omitempty"`
	Names   []string    `json:"names,omitempty"`  // hex
	Keys    []int       `json:"keys,omitempty"`
}

// ---------------------------------------------------------------- keys

// key id = type*1000 + n ; the key is a deterministic function of its id
var suiteNames = []string{"Ed25519", "P256", "bn256.G1", "bn256.G2"}

type keyInfo struct {
	pub  kyber.Point
	bin  []byte
	str  string
	typ  int
	suit suites.Suite
}

var keyCache = map[int]*keyInfo{}

var keyMu sync.Mutex

func getKey(id int) *keyInfo {
	keyMu.Lock()
	defer keyMu.Unlock()
	if k, ok := keyCache[id]; ok {
		return k
	}
	typ := id / 1000
	s := suites.MustFind(suiteNames[typ])
	sc := s.Scalar().Pick(s.XOF([]byte(fmt.Sprintf("verif-c13-key-%d", id))))
	pub := s.Point().Mul(sc, nil)
	var buf bytes.Buffer
	if _, err := pub.MarshalTo(&buf); err != nil {
		panic(err)
	}
	k := &keyInfo{pub: pub, bin: buf.Bytes(), str: pub.String(), typ: typ, suit: s}
	keyCache[id] = k
	return k
}

func pubOf(id int) kyber.Point {
	if id < 0 {
		return nil
	}
	return getKey(id).pub
}

func mkIdentity(m mem, pos int) *network.ServerIdentity {
	si := network.NewServerIdentity(pubOf(m.K), network.NewAddress(network.PlainTCP, fmt.Sprintf("10.1.0.%d:%d", pos%250+1, 2000+pos)))
	for j, s := range m.S {
		name := fmt.Sprintf("svc%d", j)
		if s < 0 {
			si.ServiceIdentities = append(si.ServiceIdentities, network.ServiceIdentity{Name: name, Suite: "Ed25519"})
		} else {
			k := getKey(s)
			si.ServiceIdentities = append(si.ServiceIdentities, network.NewServiceIdentity(name, k.suit, k.pub, nil))
		}
	}
	return si
}

func mkIdentities(ms []mem) []*network.ServerIdentity {
	out := make([]*network.ServerIdentity, len(ms))
	for i, m := range ms {
		out[i] = mkIdentity(m, i)
	}
	return out
}

// ---------------------------------------------------------------- running the real code

func catch(f func() string) (res string) {
	defer func() {
		if r := recover(); r != nil {
			res = "crash"
		}
	}()
	return f()
}

func newRosterID(ms []mem) string {
	return catch(func() string {
		r := onet.NewRoster(mkIdentities(ms))
		if r == nil {
			return "nil"
		}
		return hex.EncodeToString(r.ID[:])
	})
}

func getRosterID(ms []mem) string {
	return catch(func() string {
		r := &onet.Roster{List: mkIdentities(ms)}
		id, err := r.GetID()
		if err != nil {
			return "err" // a returned error is not a panic: kept apart
		}
		return hex.EncodeToString(id[:])
	})
}

func hasNil(n node) bool {
	if n.K < 0 {
		return true
	}
	for _, c := range n.C {
		if hasNil(c) {
			return true
		}
	}
	return false
}

func mkNode(n node, literal bool, cnt *int) *onet.TreeNode {
	si := network.NewServerIdentity(pubOf(n.K), network.NewAddress(network.PlainTCP, fmt.Sprintf("10.2.0.%d:%d", *cnt%250+1, 3000+*cnt)))
	*cnt++
	var tn *onet.TreeNode
	if literal {
		// NewTreeNode itself dereferences the key; a node without key can only be
		// built as a struct literal
		tn = &onet.TreeNode{ServerIdentity: si, Children: make([]*onet.TreeNode, 0)}
	} else {
		tn = onet.NewTreeNode(0, si)
	}
	for _, c := range n.C {
		ch := mkNode(c, literal, cnt)
		if literal {
			ch.Parent = tn
			tn.Children = append(tn.Children, ch)
		} else {
			tn.AddChild(ch)
		}
	}
	return tn
}

// the roster a tree is built over; its observed id (hex) or "" for nil
func treeRoster(in *input, t treeIn) (*onet.Roster, string) {
	if t.Ro < 0 || t.Ro >= len(in.Rosters) {
		return nil, ""
	}
	var ro *onet.Roster
	func() {
		defer func() { recover() }()
		ro = onet.NewRoster(mkIdentities(in.Rosters[t.Ro]))
	}()
	if ro == nil {
		// a roster that is legal by construction of the input must get an id: "bad"
		// is written as an empty roster id, which the checker reports (clause 10);
		// only for an illegal roster is "no roster" the expected situation
		if rosterLegal(in.Rosters[t.Ro]) {
			return nil, "bad"
		}
		return nil, ""
	}
	return ro, hex.EncodeToString(ro.ID[:])
}

// rosterLegal: non-empty, every key present, all server keys of one point type
func rosterLegal(ms []mem) bool {
	if len(ms) == 0 {
		return false
	}
	for _, m := range ms {
		if m.K < 0 || m.K/1000 != ms[0].K/1000 {
			return false
		}
		for _, s := range m.S {
			if s < 0 {
				return false
			}
		}
	}
	return true
}

func newTreeID(in *input, t treeIn) string {
	ro, _ := treeRoster(in, t)
	return catch(func() string {
		cnt := 0
		root := mkNode(t.T, hasNil(t.T), &cnt)
		tr := onet.NewTree(ro, root)
		return hex.EncodeToString(tr.ID[:])
	})
}

func uuidOf(h string) (u uuid.UUID) {
	b, err := hex.DecodeString(h)
	if err != nil || len(b) != 16 {
		panic("bad uuid in input")
	}
	copy(u[:], b)
	return
}

func tokenID(t [6]string) string {
	return catch(func() string {
		tok := &onet.Token{
			RosterID: onet.RosterID(uuidOf(t[0])), TreeID: onet.TreeID(uuidOf(t[1])),
			ProtoID: onet.ProtocolID(uuidOf(t[2])), ServiceID: onet.ServiceID(uuidOf(t[3])),
			RoundID: onet.RoundID(uuidOf(t[4])), TreeNodeID: onet.TreeNodeID(uuidOf(t[5])),
		}
		id := tok.ID()
		return hex.EncodeToString(id[:])
	})
}

func mkToken(t [6]string) *onet.Token {
	return &onet.Token{
		RosterID: onet.RosterID(uuidOf(t[0])), TreeID: onet.TreeID(uuidOf(t[1])),
		ProtoID: onet.ProtocolID(uuidOf(t[2])), ServiceID: onet.ServiceID(uuidOf(t[3])),
		RoundID: onet.RoundID(uuidOf(t[4])), TreeNodeID: onet.TreeNodeID(uuidOf(t[5])),
	}
}

func setFields(tok *onet.Token, t [6]string) {
	tok.RosterID = onet.RosterID(uuidOf(t[0]))
	tok.TreeID = onet.TreeID(uuidOf(t[1]))
	tok.ProtoID = onet.ProtocolID(uuidOf(t[2]))
	tok.ServiceID = onet.ServiceID(uuidOf(t[3]))
	tok.RoundID = onet.RoundID(uuidOf(t[4]))
	tok.TreeNodeID = onet.TreeNodeID(uuidOf(t[5]))
}

// derivedTokenIDs obtains token t from the token base the way real code does and
// returns the id of the result (asked twice).
func derivedTokenIDs(base, t [6]string, how string) (first, second string) {
	var tok *onet.Token
	first = catch(func() string {
		b := mkToken(base)
		switch how {
		case "clone":
			b.ID()
			tok = b.Clone()
			setFields(tok, t)
		case "copy":
			b.ID()
			c := *b
			tok = &c
			setFields(tok, t)
		case "changenode":
			b.ID()
			tok = b.ChangeTreeNodeID(onet.TreeNodeID(uuidOf(t[5])))
			// the other fields are those of the base: the generator only uses this
			// derivation for tokens that differ from the base in the node field
		case "clone-first":
			tok = b.Clone()
			b.ID()
			setFields(tok, t)
		default:
			panic("unknown derivation " + how)
		}
		id := tok.ID()
		return hex.EncodeToString(id[:])
	})
	second = catch(func() string {
		id := tok.ID()
		return hex.EncodeToString(id[:])
	})
	return
}

func derivOf(in *input, i int) deriv {
	if i < len(in.Derive) {
		return in.Derive[i]
	}
	return deriv{}
}

// tokenIDs: the id of token i of the group, asked twice
func tokenIDs(in *input, i int) (string, string) {
	d := derivOf(in, i)
	if d.How == "" {
		return tokenID(in.Tokens[i]), tokenID(in.Tokens[i])
	}
	return derivedTokenIDs(in.Tokens[d.From], in.Tokens[i], d.How)
}

func unhex(h string) []byte {
	b, err := hex.DecodeString(h)
	if err != nil {
		panic(err)
	}
	return b
}

func protoID(nameHex string) string {
	return catch(func() string {
		id := onet.ProtocolNameToID(string(unhex(nameHex)))
		return hex.EncodeToString(id[:])
	})
}

// serviceID registers the name in the real global factory and removes it again;
// second = the id the factory reports for the name while it is registered.
func serviceID(nameHex string) (first, second string) {
	name := string(unhex(nameHex))
	first = catch(func() string {
		id, err := onet.ServiceFactory.Register(name, nil, nil)
		if err != nil {
			return "err"
		}
		return hex.EncodeToString(id[:])
	})
	second = catch(func() string {
		id := onet.ServiceFactory.ServiceID(name)
		return hex.EncodeToString(id[:])
	})
	onet.ServiceFactory.Unregister(name)
	return
}

func serverID(k int) (first, second string) {
	first = catch(func() string {
		si := network.NewServerIdentity(pubOf(k), network.NewAddress(network.PlainTCP, "10.3.0.1:2000"))
		return hex.EncodeToString(si.ID[:])
	})
	second = catch(func() string {
		si := network.ServerIdentity{Public: pubOf(k)}
		id := si.GetID()
		return hex.EncodeToString(id[:])
	})
	return
}

func nodeID(k int) string {
	return catch(func() string {
		si := network.NewServerIdentity(pubOf(k), network.NewAddress(network.PlainTCP, "10.3.0.1:2000"))
		tn := onet.NewTreeNode(0, si)
		return hex.EncodeToString(tn.ID[:])
	})
}

// firstIDs computes, for every object of the group, the id once (the route
// also taken by the fresh sub-process).
func firstIDs(in *input) []string {
	var out []string
	switch in.Kind {
	case "rosters":
		for _, r := range in.Rosters {
			out = append(out, newRosterID(r))
		}
	case "trees":
		for _, t := range in.Trees {
			out = append(out, newTreeID(in, t))
		}
	case "tokens":
		for i := range in.Tokens {
			f, _ := tokenIDs(in, i)
			out = append(out, f)
		}
	case "protos":
		for _, n := range in.Names {
			out = append(out, protoID(n))
		}
	case "services":
		for _, n := range in.Names {
			f, _ := serviceID(n)
			out = append(out, f)
		}
	case "servers":
		for _, k := range in.Keys {
			f, _ := serverID(k)
			out = append(out, f)
		}
	case "nodes":
		for _, k := range in.Keys {
			out = append(out, nodeID(k))
		}
	case "alias":
		for i := range in.Rosters {
			out = append(out, aliasJSON(in, i))
		}
	default:
		panic("unknown kind " + in.Kind)
	}
	return out
}

func childMain() {
	raw, err := ioutil.ReadAll(os.Stdin)
	if err != nil {
		os.Exit(3)
	}
	var in input
	if err := json.Unmarshal(raw, &in); err != nil {
		os.Exit(3)
	}
	b, _ := json.Marshal(firstIDs(&in))
	os.Stdout.Write(b)
}

// freshProcessIDs computes the ids once more in a new process.  A process that dies,
// hangs (5 minutes) or answers with something else is tried again twice (load); after
// that the failure IS the observation: every id of the group is reported as "err" for
// this run, which no model outcome equals -- the case is evaluated, never discarded.
func freshProcessIDs(raw []byte, n int) []string {
	for attempt := 0; attempt < 3; attempt++ {
		ctx, cancel := context.WithTimeout(context.Background(), 5*time.Minute)
		cmd := exec.CommandContext(ctx, os.Args[0], "-c13child")
		cmd.Stdin = bytes.NewReader(raw)
		var out bytes.Buffer
		cmd.Stdout = &out
		err := cmd.Run()
		cancel()
		var ids []string
		if err == nil && json.Unmarshal(out.Bytes(), &ids) == nil && len(ids) == n {
			return ids
		}
	}
	ids := make([]string, n)
	for i := range ids {
		ids[i] = "err"
	}
	return ids
}

// ---------------------------------------------------------------- oracle: Go's hash functions on candidate pre-images

type orc struct {
	h256 [][2]string
	u    [][2]string
}

func (o *orc) sha(pre []byte) []byte {
	d := sha256.Sum256(pre)
	o.h256 = append(o.h256, [2]string{hex.EncodeToString(pre), hex.EncodeToString(d[:])})
	return d[:]
}

func (o *orc) u5(pre []byte) {
	d := uuid.NewSHA1(uuid.NameSpaceURL, pre)
	o.u = append(o.u, [2]string{hex.EncodeToString(pre), hex.EncodeToString(d[:])})
}

func (o *orc) u3(pre []byte) {
	d := uuid.NewMD5(uuid.NameSpaceURL, pre)
	o.u = append(o.u, [2]string{hex.EncodeToString(pre), hex.EncodeToString(d[:])})
}

const nsURL = "https://dedis.epfl.ch/"

func rosterOracle(ms []mem) (o orc) {
	var pre []byte
	for _, m := range ms {
		if m.K < 0 {
			return orc{}
		}
		pre = append(pre, getKey(m.K).bin...)
		for _, s := range m.S {
			if s < 0 {
				return orc{}
			}
			pre = append(pre, getKey(s).bin...)
		}
	}
	d := o.sha(pre)
	o.u5([]byte(hex.EncodeToString(d)))
	return
}

func streamOf(n node, fixed bool, w *[]byte) {
	*w = append(*w, getKey(n.K).bin...)
	if fixed {
		var nc [4]byte
		binary.LittleEndian.PutUint32(nc[:], uint32(len(n.C)))
		*w = append(*w, nc[:]...)
	} else if len(n.C) == 0 {
		*w = append(*w, 1)
	}
	for _, c := range n.C {
		streamOf(c, fixed, w)
	}
}

func treeOracle(rid string, t node) (o orc) {
	if hasNil(t) || rid == "" || rid == "bad" {
		return orc{}
	}
	u := uuidOf(rid)
	// both candidate streams: the pinned one (leaf marker) and the one of the
	// proposed fix F15 (child count); the Coq side picks by its code_fixed flag
	for _, fixed := range []bool{false, true} {
		var s []byte
		streamOf(t, fixed, &s)
		d := o.sha(s)
		o.u5([]byte(nsURL + "tree/" + u.String() + hex.EncodeToString(d)))
	}
	return
}

func tokenOracle(t [6]string) (o orc) {
	s := nsURL + "token/" + uuidOf(t[0]).String() + uuidOf(t[4]).String() + uuidOf(t[3]).String() +
		uuidOf(t[2]).String() + uuidOf(t[1]).String() + uuidOf(t[5]).String()
	o.u5([]byte(s))
	return
}

// ---------------------------------------------------------------- Coq literals

// lit writes a byte string as the Coq term (B [full 7-byte chunks] n last) of
// Corr/C13.v: primitive 63-bit integers, big-endian, the last one holding n <= 6 bytes.
func lit(b []byte) string {
	var sb strings.Builder
	sb.WriteString("(B [")
	nfull := len(b) / 7
	for i := 0; i < nfull; i++ {
		if i > 0 {
			sb.WriteString(";")
		}
		sb.WriteString("0x")
		sb.WriteString(hex.EncodeToString(b[7*i : 7*i+7]))
	}
	rest := b[7*nfull:]
	last := "0"
	if len(rest) > 0 {
		last = "0x" + hex.EncodeToString(rest)
	}
	fmt.Fprintf(&sb, "]%%uint63 %d %s%%uint63)", len(rest), last)
	return sb.String()
}

func litHex(h string) string { return lit(unhex(h)) }

func coqRes(s string) string {
	switch s {
	case "crash":
		return "OCrash"
	case "nil":
		return "ONil"
	case "err":
		return "OErr"
	}
	return "(OId " + litHex(s) + ")"
}

func coqResList(l []string) string {
	s := make([]string, len(l))
	for i, x := range l {
		s[i] = coqRes(x)
	}
	return lib.List(s)
}

func coqPairs(l [][2]string) string {
	s := make([]string, len(l))
	for i, x := range l {
		s[i] = "(" + litHex(x[0]) + ", " + litHex(x[1]) + ")"
	}
	return lib.List(s)
}

func coqObs(runs, alt []string, o orc) string {
	return fmt.Sprintf("(Obs %s %s %s %s)", coqResList(runs), coqResList(alt), coqPairs(o.h256), coqPairs(o.u))
}

type keyTab struct {
	ids []int
	pos map[int]int
}

func (kt *keyTab) add(id int) {
	if id < 0 {
		return
	}
	if _, ok := kt.pos[id]; !ok {
		kt.pos[id] = -1
		kt.ids = append(kt.ids, id)
	}
}

func (kt *keyTab) finish() {
	sort.Ints(kt.ids)
	for i, id := range kt.ids {
		kt.pos[id] = i
	}
}

func (kt *keyTab) ref(id int) string {
	if id == -2 {
		return "(Some 99999)" // a key that is none of the input's: no table entry, the case does not decode
	}
	if id < 0 {
		return "None"
	}
	return fmt.Sprintf("(Some %d)", kt.pos[id])
}

func (kt *keyTab) coq() string {
	s := make([]string, len(kt.ids))
	for i, id := range kt.ids {
		k := getKey(id)
		s[i] = fmt.Sprintf("(%s, %s, %d)", lit(k.bin), lit([]byte(k.str)), k.typ)
	}
	return lib.List(s)
}

func addNodeKeys(kt *keyTab, n node) {
	kt.add(n.K)
	for _, c := range n.C {
		addNodeKeys(kt, c)
	}
}

func coqRoster(kt *keyTab, ms []mem) string {
	s := make([]string, len(ms))
	for i, m := range ms {
		sv := make([]string, len(m.S))
		for j, x := range m.S {
			sv[j] = kt.ref(x)
		}
		s[i] = "(" + kt.ref(m.K) + ", " + lib.List(sv) + ")"
	}
	return lib.List(s)
}

func coqTree(kt *keyTab, n node) string {
	ch := make([]string, len(n.C))
	for i, c := range n.C {
		ch[i] = coqTree(kt, c)
	}
	return "(IN " + kt.ref(n.K) + " " + lib.List(ch) + ")"
}

// ---------------------------------------------------------------- run

type obsOut struct {
	Objects  int      `json:"objects"`
	Distinct int      `json:"distinct_ids"`
	Crashes  int      `json:"crash_or_nil"`
	Fresh    bool     `json:"fresh_process_ok"`
	First    []string `json:"first_ids"`
	Pair     []string `json:"offending_pair,omitempty"` // two objects and their ids
}

func run(raw json.RawMessage) lib.Case {
	var in input
	if err := json.Unmarshal(raw, &in); err != nil {
		panic(err)
	}
	first := firstIDs(&in)
	n := len(first)
	fresh := freshProcessIDs(raw, n)
	kt := &keyTab{pos: map[int]int{}}
	for _, r := range in.Rosters {
		for _, m := range r {
			kt.add(m.K)
			for _, s := range m.S {
				kt.add(s)
			}
		}
	}
	for _, t := range in.Trees {
		addNodeKeys(kt, t.T)
	}
	for _, k := range in.Keys {
		kt.add(k)
	}
	for _, es := range in.Edits {
		for _, e := range es {
			if e.Set != nil {
				kt.add(e.Set.K)
				for _, s := range e.Set.S {
					kt.add(s)
				}
			}
		}
	}
	kt.finish()

	items := make([]string, n)
	unstable := false // some recomputation differed: the replay keeps the whole group
	switch in.Kind {
	case "rosters":
		var concNew, concGet [][]string
		if in.Label == "concurrent" {
			concNew = concurrentResults(n, 48, 900*time.Millisecond, func(i int) string { return newRosterID(in.Rosters[i]) })
			concGet = concurrentResults(n, 48, 500*time.Millisecond, func(i int) string { return getRosterID(in.Rosters[i]) })
		}
		for i, r := range in.Rosters {
			runs := []string{first[i], newRosterID(r), fresh[i]}
			alt := []string{getRosterID(r)}
			if concNew != nil {
				runs = append(runs, concNew[i]...)
				alt = append(alt, concGet[i]...)
			}
			unstable = unstable || !allSame(runs) || !allSame(append([]string{first[i]}, alt...))
			items[i] = "(" + coqRoster(kt, r) + ", " + coqObs(runs, alt, rosterOracle(r)) + ")"
		}
	case "trees":
		var concTree [][]string
		if in.Label == "concurrent" {
			concTree = concurrentResults(n, 32, 300*time.Millisecond, func(i int) string { return newTreeID(&in, in.Trees[i]) })
		}
		for i, t := range in.Trees {
			_, rid := treeRoster(&in, t)
			runs := []string{first[i], newTreeID(&in, t), fresh[i]}
			if concTree != nil {
				runs = append(runs, concTree[i]...)
			}
			unstable = unstable || !allSame(runs)
			ridc := "None"
			if rid == "bad" {
				ridc = "(Some " + lit(nil) + ")"
			} else if rid != "" {
				ridc = "(Some " + litHex(rid) + ")"
			}
			items[i] = "((" + ridc + ", " + coqTree(kt, t.T) + "), " + coqObs(runs, nil, treeOracle(rid, t.T)) + ")"
		}
	case "tokens":
		var concTok [][]string
		if in.Label == "concurrent" {
			concTok = concurrentResults(n, 32, 200*time.Millisecond, func(i int) string { f, _ := tokenIDs(&in, i); return f })
		}
		for i, t := range in.Tokens {
			again, second := tokenIDs(&in, i)
			runs := []string{first[i], again, second, fresh[i]}
			if concTok != nil {
				runs = append(runs, concTok[i]...)
			}
			unstable = unstable || !allSame(runs)
			items[i] = fmt.Sprintf("((Tok %s %s %s %s %s %s), %s)", litHex(t[0]), litHex(t[1]), litHex(t[2]), litHex(t[3]), litHex(t[4]), litHex(t[5]),
				coqObs(runs, nil, tokenOracle(t)))
		}
	case "protos":
		for i, nm := range in.Names {
			var o orc
			o.u3(append([]byte(nsURL+"protocolname/"), unhex(nm)...))
			runs := []string{first[i], protoID(nm), fresh[i]}
			unstable = unstable || !allSame(runs)
			items[i] = "(" + litHex(nm) + ", " + coqObs(runs, nil, o) + ")"
		}
	case "services":
		for i, nm := range in.Names {
			var o orc
			o.u5(unhex(nm))
			f, s := serviceID(nm)
			runs := []string{first[i], f, s, fresh[i]}
			unstable = unstable || !allSame(runs)
			items[i] = "(" + litHex(nm) + ", " + coqObs(runs, nil, o) + ")"
		}
	case "servers":
		for i, k := range in.Keys {
			var o orc
			if k >= 0 {
				o.u5([]byte(nsURL + "id/" + getKey(k).str))
			}
			f, s := serverID(k)
			runs := []string{first[i], f, s, fresh[i]}
			unstable = unstable || !allSame(runs)
			items[i] = "(" + kt.ref(k) + ", " + coqObs(runs, nil, o) + ")"
		}
	case "nodes":
		for i, k := range in.Keys {
			var o orc
			if k >= 0 {
				o.u5([]byte(getKey(k).str))
			}
			runs := []string{first[i], nodeID(k), fresh[i]}
			unstable = unstable || !allSame(runs)
			items[i] = "(" + kt.ref(k) + ", " + coqObs(runs, nil, o) + ")"
		}
	case "alias":
		for i, r := range in.Rosters {
			o := rosterOracle(r)
			var obsC []string
			for _, js := range []string{first[i], aliasJSON(&in, i), fresh[i]} {
				var a aliasObs
				if err := json.Unmarshal([]byte(js), &a); err != nil {
					a = aliasObs{ID: "err", GetID: "err"} // the fresh process died
				}
				srch := make([]string, len(a.Search))
				for p, x := range a.Search {
					srch[p] = lib.OptNat(x >= 0, x)
				}
				obsC = append(obsC, fmt.Sprintf("(AObs %s %s %s %s %s %s)", coqRes(a.ID), coqRes(a.GetID),
					coqRoster(kt, a.Members), lib.List(srch), coqPairs(o.h256), coqPairs(o.u)))
			}
			var eds []string
			if i < len(in.Edits) {
				for _, e := range in.Edits[i] {
					if e.Set != nil {
						sv := make([]string, len(e.Set.S))
						for j, x := range e.Set.S {
							sv[j] = kt.ref(x)
						}
						eds = append(eds, fmt.Sprintf("(ISet %d (%s, %s))", e.I, kt.ref(e.Set.K), lib.List(sv)))
					} else {
						eds = append(eds, fmt.Sprintf("(ISwap %d %d)", e.I, e.J))
					}
				}
			}
			items[i] = "((" + coqRoster(kt, r) + ", " + lib.List(eds) + "), " + lib.List(obsC) + ")"
		}
	}
	var coq string
	body := "[\n    " + strings.Join(items, ";\n    ") + "]"
	switch in.Kind {
	case "rosters":
		coq = "CRosters " + kt.coq() + " " + body
	case "trees":
		coq = "CTrees " + kt.coq() + " " + body
	case "tokens":
		coq = "CTokens " + body
	case "protos":
		coq = "CProtos " + body
	case "services":
		coq = "CServices " + body
	case "servers":
		coq = "CKeys 0 " + kt.coq() + " " + body
	case "nodes":
		coq = "CKeys 1 " + kt.coq() + " " + body
	case "alias":
		coq = "CAlias " + kt.coq() + " " + body
	}
	distinct := map[string]bool{}
	bad := 0
	for _, f := range first {
		if f == "crash" || f == "nil" || f == "err" {
			bad++
		} else {
			distinct[f] = true
		}
	}
	o := obsOut{Objects: n, Distinct: len(distinct), Crashes: bad, Fresh: true, First: first}
	if len(o.First) > 8 {
		o.First = o.First[:8]
	}
	c := lib.Case{Coq: coq, Class: in.Kind + "-" + in.Label, Obs: o, Nontrivial: n > 1}
	// A group in which two different objects share an id (or two equal objects do
	// not) is reported with the two objects alone as its replay input.
	if in.Kind == "alias" {
		// a roster that did not survive the caller's edits is replayed alone
		for i := range in.Rosters {
			var a aliasObs
			json.Unmarshal([]byte(first[i]), &a)
			want, _ := json.Marshal(in.Rosters[i])
			got, _ := json.Marshal(a.Members)
			if a.ID != a.GetID || string(want) != string(got) {
				sub := input{Kind: in.Kind, Label: in.Label, Rosters: [][]mem{in.Rosters[i]}}
				if i < len(in.Edits) {
					sub.Edits = [][]editIn{in.Edits[i]}
				}
				c.Input = sub
				break
			}
		}
	} else if i, j, ok := offendingPair(&in, first); ok && !unstable {
		c.Input = subGroup(&in, i, j)
		o.Pair = []string{objectKey(&in, i), objectKey(&in, j), first[i], first[j]}
		c.Obs = o
	}
	return c
}

// concurrentResults: G goroutines compute f(i) for all objects over and over for about
// the given time (a work budget, not an oracle); returned are, per object, the DISTINCT
// results seen (a recovered panic is the result "crash").  For a group labelled
// "concurrent" they are appended to the object's recomputation results: the id of an
// object must be the same whoever else is computing ids at that moment.
func concurrentResults(n, goroutines int, budget time.Duration, f func(i int) string) [][]string {
	sets := make([]map[string]bool, n)
	for i := range sets {
		sets[i] = map[string]bool{}
	}
	var mu sync.Mutex
	var wg sync.WaitGroup
	deadline := time.Now().Add(budget)
	for g := 0; g < goroutines; g++ {
		wg.Add(1)
		go func(g int) {
			defer wg.Done()
			local := make([]map[string]bool, n)
			for i := range local {
				local[i] = map[string]bool{}
			}
			for round := 0; round < 3 || time.Now().Before(deadline); round++ {
				for k := 0; k < n; k++ {
					i := (k + g) % n
					local[i][catch(func() string { return f(i) })] = true
				}
			}
			mu.Lock()
			for i := range local {
				for r := range local[i] {
					sets[i][r] = true
				}
			}
			mu.Unlock()
		}(g)
	}
	wg.Wait()
	out := make([][]string, n)
	for i, s := range sets {
		for r := range s {
			out[i] = append(out[i], r)
		}
		sort.Strings(out[i])
	}
	return out
}

func allSame(l []string) bool {
	for _, x := range l {
		if x != l[0] {
			return false
		}
	}
	return true
}

// objectKey is a canonical text of object i of the group (what the id is meant to identify)
func objectKey(in *input, i int) string {
	var v interface{}
	switch in.Kind {
	case "rosters":
		v = in.Rosters[i]
	case "trees":
		_, rid := treeRoster(in, in.Trees[i])
		v = []interface{}{rid, in.Trees[i].T}
	case "tokens":
		v = in.Tokens[i]
	case "protos", "services":
		v = in.Names[i]
	default:
		v = in.Keys[i]
	}
	b, _ := json.Marshal(v)
	return string(b)
}

func offendingPair(in *input, first []string) (int, int, bool) {
	byID := map[string]int{}
	byObj := map[string]int{}
	for i, id := range first {
		if id == "crash" || id == "nil" || id == "err" {
			continue
		}
		k := objectKey(in, i)
		if j, ok := byID[id]; ok && objectKey(in, j) != k {
			return j, i, true
		}
		if j, ok := byObj[k]; ok && first[j] != id {
			return j, i, true
		}
		if _, ok := byID[id]; !ok {
			byID[id] = i
		}
		if _, ok := byObj[k]; !ok {
			byObj[k] = i
		}
	}
	return 0, 0, false
}

func subGroup(in *input, i, j int) input {
	out := input{Kind: in.Kind, Label: in.Label}
	switch in.Kind {
	case "rosters":
		out.Rosters = [][]mem{in.Rosters[i], in.Rosters[j]}
	case "trees":
		out.Rosters = in.Rosters
		out.Trees = []treeIn{in.Trees[i], in.Trees[j]}
	case "tokens":
		// keep the tokens the two are derived from
		idx := []int{i, j}
		pos := map[int]int{i: 0, j: 1}
		for _, k := range []int{i, j} {
			if d := derivOf(in, k); d.How != "" {
				if _, ok := pos[d.From]; !ok {
					pos[d.From] = len(idx)
					idx = append(idx, d.From)
				}
			}
		}
		for _, k := range idx {
			out.Tokens = append(out.Tokens, in.Tokens[k])
			d := derivOf(in, k)
			if d.How != "" {
				d.From = pos[d.From]
			}
			out.Derive = append(out.Derive, d)
		}
	case "protos", "services":
		out.Names = []string{in.Names[i], in.Names[j]}
	default:
		out.Keys = []int{in.Keys[i], in.Keys[j]}
	}
	return out
}

func main() {
	log.SetDebugVisible(0)
	if len(os.Args) > 1 && os.Args[1] == "-c13child" {
		childMain()
		return
	}
	lib.Main(lib.Harness{
		Prop:   "C13",
		Import: "Onet.Corr.C13",
		Rule: "one evaluation = one GROUP of objects of a kind (rosters / trees / tokens / protocol names / service names / server keys / node keys); " +
			"every object's id is computed by the real code 2-3 times in-process and once in a fresh sub-process, and pairwise compared within the group in Coq; " +
			"non-trivial = the group holds more than one object; objects per group are in the samples' obs.objects",
		Shard:    6,
		Generate: generate,
		Run:      run,
		Corpus:   corpus,
	})
}

var _ = rand.Int
