package main

import (
	"encoding/hex"
	"fmt"
	"math/rand"
)

// ---------------------------------------------------------------- tree shapes

// all ordered forests with m nodes (labels filled in later)
func forests(m int) [][]node {
	if m == 0 {
		return [][]node{nil}
	}
	var out [][]node
	for k := 1; k <= m; k++ {
		for _, first := range shapes(k) {
			for _, rest := range forests(m - k) {
				f := append([]node{first}, rest...)
				out = append(out, f)
			}
		}
	}
	return out
}

var shapeMemo = map[int][]node{}

// all ordered rooted trees with n nodes
func shapes(n int) []node {
	if s, ok := shapeMemo[n]; ok {
		return s
	}
	var out []node
	for _, f := range forests(n - 1) {
		out = append(out, node{K: 0, C: f})
	}
	shapeMemo[n] = out
	return out
}

// relabel in pre-order with keys[0], keys[1], ...
func label(s node, keys []int, next *int) node {
	n := node{K: keys[*next%len(keys)]}
	*next++
	for _, c := range s.C {
		n.C = append(n.C, label(c, keys, next))
	}
	return n
}

func labelled(s node, keys []int) node {
	i := 0
	return label(s, keys, &i)
}

func size(n node) int {
	s := 1
	for _, c := range n.C {
		s += size(c)
	}
	return s
}

func randomShape(rng *rand.Rand, n int) node {
	// random recursive tree: node i hangs off a random earlier node
	par := make([]int, n)
	kids := make([][]int, n)
	for i := 1; i < n; i++ {
		par[i] = rng.Intn(i)
		if rng.Intn(3) == 0 {
			par[i] = i - 1 // bias towards depth
		}
		kids[par[i]] = append(kids[par[i]], i)
	}
	var build func(i int) node
	build = func(i int) node {
		nd := node{}
		for _, c := range kids[i] {
			nd.C = append(nd.C, build(c))
		}
		return nd
	}
	return build(0)
}

func cloneNode(n node) node {
	c := node{K: n.K}
	for _, x := range n.C {
		c.C = append(c.C, cloneNode(x))
	}
	return c
}

// pointers to all nodes in pre-order
func nodesOf(n *node, out *[]*node) {
	*out = append(*out, n)
	for i := range n.C {
		nodesOf(&n.C[i], out)
	}
}

// rehang: the last child of some non-root node a with >= 2 children becomes the
// next sibling of a (r(a(b,c)) -> r(a(b),c)): same pre-order, same leaves.
func rehang(rng *rand.Rand, t node) (node, bool) {
	c := cloneNode(t)
	type cand struct {
		parent *node
		idx    int
	}
	var cands []cand
	var walk func(p *node)
	walk = func(p *node) {
		for i := range p.C {
			if len(p.C[i].C) >= 2 {
				cands = append(cands, cand{p, i})
			}
			walk(&p.C[i])
		}
	}
	walk(&c)
	if len(cands) == 0 {
		return c, false
	}
	x := cands[rng.Intn(len(cands))]
	a := &x.parent.C[x.idx]
	moved := a.C[len(a.C)-1]
	a.C = a.C[:len(a.C)-1]
	var nc []node
	nc = append(nc, x.parent.C[:x.idx+1]...)
	nc = append(nc, moved)
	nc = append(nc, x.parent.C[x.idx+1:]...)
	x.parent.C = nc
	return c, true
}

func edKeys(from, n int) []int {
	k := make([]int, n)
	for i := range k {
		k[i] = from + i
	}
	return k
}

func plainRoster(keys []int) []mem {
	r := make([]mem, len(keys))
	for i, k := range keys {
		r[i] = mem{K: k}
	}
	return r
}

func perms(xs []int) [][]int {
	if len(xs) <= 1 {
		return [][]int{append([]int{}, xs...)}
	}
	var out [][]int
	for i := range xs {
		rest := append(append([]int{}, xs[:i]...), xs[i+1:]...)
		for _, p := range perms(rest) {
			out = append(out, append([]int{xs[i]}, p...))
		}
	}
	return out
}

// all injective sequences of length k over xs
func arrangements(xs []int, k int) [][]int {
	if k == 0 {
		return [][]int{nil}
	}
	var out [][]int
	for i := range xs {
		rest := append(append([]int{}, xs[:i]...), xs[i+1:]...)
		for _, p := range arrangements(rest, k-1) {
			out = append(out, append([]int{xs[i]}, p...))
		}
	}
	return out
}

// all sequences of length k over xs
func functions(xs []int, k int) [][]int {
	if k == 0 {
		return [][]int{nil}
	}
	var out [][]int
	for _, x := range xs {
		for _, p := range functions(xs, k-1) {
			out = append(out, append([]int{x}, p...))
		}
	}
	return out
}

// ---------------------------------------------------------------- rosters

// all ways to cut the key sequence into members (first key of a block is the
// server key, the others its service keys): all share one flat key sequence
func splits(keys []int) [][]mem {
	n := len(keys)
	var out [][]mem
	for mask := 0; mask < 1<<uint(n-1); mask++ {
		var r []mem
		cur := mem{K: keys[0]}
		for i := 1; i < n; i++ {
			if mask&(1<<uint(i-1)) != 0 {
				r = append(r, cur)
				cur = mem{K: keys[i]}
			} else {
				cur.S = append(cur.S, keys[i])
			}
		}
		r = append(r, cur)
		out = append(out, r)
	}
	return out
}

func cloneRoster(r []mem) []mem {
	c := make([]mem, len(r))
	for i, m := range r {
		c[i] = mem{K: m.K, S: append([]int{}, m.S...)}
	}
	return c
}

func randomKey(rng *rand.Rand, typ int, used map[int]bool) int {
	for {
		k := typ*1000 + rng.Intn(60)
		if !used[k] {
			used[k] = true
			return k
		}
	}
}

// a random roster with pairwise distinct keys; server keys of type [typ],
// service keys of any type
func randomRoster(rng *rand.Rand, typ, maxMembers int) []mem {
	used := map[int]bool{}
	n := 1 + rng.Intn(maxMembers)
	r := make([]mem, n)
	for i := range r {
		r[i].K = randomKey(rng, typ, used)
		ns := 0
		if rng.Intn(2) == 0 {
			ns = rng.Intn(4)
		}
		for j := 0; j < ns; j++ {
			st := typ
			if rng.Intn(3) == 0 {
				st = rng.Intn(4)
			}
			r[i].S = append(r[i].S, randomKey(rng, st, used))
		}
	}
	return r
}

// neighbours of a roster that are different lists with a different flat key sequence
func rosterNeighbours(rng *rand.Rand, r []mem) [][]mem {
	var out [][]mem
	if len(r) >= 2 {
		c := cloneRoster(r)
		i := rng.Intn(len(c) - 1)
		c[i], c[i+1] = c[i+1], c[i]
		out = append(out, c)
		out = append(out, cloneRoster(r[:len(r)-1]))
		out = append(out, cloneRoster(r[1:]))
	}
	// same multiset of keys, other ownership: a service key moves to a neighbouring
	// member, two members exchange a service key, all service keys move one member on
	for i := 0; i+1 < len(r); i++ {
		if n := len(r[i].S); n >= 1 {
			c := cloneRoster(r) // last service key of i becomes the first of i+1
			c[i+1].S = append([]int{c[i].S[n-1]}, c[i+1].S...)
			c[i].S = c[i].S[:n-1]
			out = append(out, c)
			c = cloneRoster(r) // ... becomes the last of i+1
			c[i+1].S = append(c[i+1].S, c[i].S[n-1])
			c[i].S = c[i].S[:n-1]
			out = append(out, c)
		}
		if len(r[i+1].S) >= 1 {
			c := cloneRoster(r) // first service key of i+1 becomes the last of i
			c[i].S = append(c[i].S, c[i+1].S[0])
			c[i+1].S = c[i+1].S[1:]
			out = append(out, c)
		}
		if len(r[i].S) >= 1 && len(r[i+1].S) >= 1 {
			c := cloneRoster(r)
			c[i].S[0], c[i+1].S[0] = c[i+1].S[0], c[i].S[0]
			out = append(out, c)
		}
	}
	if len(r) >= 2 {
		c := cloneRoster(r)
		for i := range c {
			c[i].S = append([]int{}, r[(i+len(r)-1)%len(r)].S...)
		}
		out = append(out, c)
	}
	for i, m := range r {
		if len(m.S) >= 2 {
			c := cloneRoster(r)
			c[i].S[0], c[i].S[1] = c[i].S[1], c[i].S[0]
			out = append(out, c)
		}
		if len(m.S) >= 1 {
			c := cloneRoster(r)
			c[i].S = c[i].S[:len(c[i].S)-1]
			out = append(out, c)
			// the service key and the server key trade places
			d := cloneRoster(r)
			if d[i].S[0]/1000 == d[i].K/1000 {
				d[i].K, d[i].S[0] = d[i].S[0], d[i].K
				out = append(out, d)
			}
		}
	}
	return out
}

// regroupings: same flat key sequence, other member boundaries (F16)
func rosterRegroup(r []mem) [][]mem {
	var out [][]mem
	for i, m := range r {
		// last service key of member i becomes a member of its own
		if len(m.S) >= 1 && m.S[len(m.S)-1]/1000 == m.K/1000 {
			var c []mem
			c = append(c, cloneRoster(r[:i])...)
			c = append(c, mem{K: m.K, S: append([]int{}, m.S[:len(m.S)-1]...)})
			c = append(c, mem{K: m.S[len(m.S)-1]})
			c = append(c, cloneRoster(r[i+1:])...)
			out = append(out, c)
		}
		// member i+1 (without service keys) becomes the last service key of member i
		if i+1 < len(r) && len(r[i+1].S) == 0 {
			var c []mem
			c = append(c, cloneRoster(r[:i])...)
			c = append(c, mem{K: m.K, S: append(append([]int{}, m.S...), r[i+1].K)})
			c = append(c, cloneRoster(r[i+2:])...)
			out = append(out, c)
		}
	}
	return out
}

// ---------------------------------------------------------------- tokens and names

func randUUID(rng *rand.Rand) string {
	b := make([]byte, 16)
	rng.Read(b)
	return hex.EncodeToString(b)
}

const nilUUID = "00000000000000000000000000000000"

func tokenGroup(rng *rand.Rand) [][6]string {
	var base [6]string
	for i := range base {
		base[i] = randUUID(rng)
	}
	out := [][6]string{base, base}
	for f := 0; f < 6; f++ {
		v := base
		v[f] = randUUID(rng)
		out = append(out, v)
		v = base
		v[f] = nilUUID
		out = append(out, v)
		// one bit flipped
		v = base
		b, _ := hex.DecodeString(base[f])
		b[rng.Intn(16)] ^= 1 << uint(rng.Intn(8))
		v[f] = hex.EncodeToString(b)
		out = append(out, v)
		// bytes rotated (same multiset of bytes)
		v = base
		v[f] = base[f][2:] + base[f][:2]
		out = append(out, v)
	}
	// the values of two fields exchanged
	for a := 0; a < 6; a++ {
		for b := a + 1; b < 6; b++ {
			v := base
			v[a], v[b] = v[b], v[a]
			out = append(out, v)
		}
	}
	// one field unset (nil) as the context, each other field then varied: an id that
	// leaves a field out whenever ANOTHER field is unset shows here
	for n := 0; n < 6; n++ {
		ctx := base
		ctx[n] = nilUUID
		for f := 0; f < 6; f++ {
			if f == n {
				continue
			}
			v := ctx
			v[f] = randUUID(rng)
			out = append(out, v)
			v = ctx
			v[f] = nilUUID
			out = append(out, v)
		}
	}
	// two fields changed, all fields changed, all nil
	v := base
	v[rng.Intn(3)] = randUUID(rng)
	v[3+rng.Intn(3)] = randUUID(rng)
	out = append(out, v)
	for i := range v {
		v[i] = randUUID(rng)
	}
	out = append(out, v)
	out = append(out, [6]string{nilUUID, nilUUID, nilUUID, nilUUID, nilUUID, nilUUID})
	return out
}

// tokens obtained the way real code obtains them: ID() is asked of a token, the token
// is cloned / copied, ONE field of the copy is changed, ID() is asked of the copy --
// next to a freshly built token with the same fields (equal objects: same id) and to
// the token it was derived from (different objects: different ids)
func derivedTokenGroup(rng *rand.Rand) ([][6]string, []deriv) {
	var base [6]string
	for i := range base {
		base[i] = randUUID(rng)
	}
	toks := [][6]string{base}
	ders := []deriv{{}}
	add := func(t [6]string, d deriv) {
		toks = append(toks, t)
		ders = append(ders, d)
	}
	for f := 0; f < 6; f++ {
		for _, how := range []string{"clone", "copy", "clone-first"} {
			v := base
			v[f] = randUUID(rng)
			add(v, deriv{From: 0, How: how})
			add(v, deriv{}) // the same token built from a literal
		}
	}
	v := base
	v[5] = randUUID(rng)
	add(v, deriv{From: 0, How: "changenode"})
	add(v, deriv{})
	// an unmodified clone, a clone of a clone, a field changed and changed back
	add(base, deriv{From: 0, How: "clone"})
	w := base
	w[4] = randUUID(rng)
	add(w, deriv{From: 0, How: "clone"})
	k := len(toks) - 1
	x := w
	x[1] = randUUID(rng)
	add(x, deriv{From: k, How: "clone"})
	add(x, deriv{})
	add(base, deriv{From: k, How: "copy"})
	return toks, ders
}

func rosterKey(r []mem) string {
	s := ""
	for _, m := range r {
		s += fmt.Sprintf("%d%v|", m.K, m.S)
	}
	return s
}

func dedupRosters(rs [][]mem) [][]mem {
	seen := map[string]bool{}
	var out [][]mem
	for _, r := range rs {
		k := rosterKey(r)
		if !seen[k] {
			seen[k] = true
			out = append(out, r)
		}
	}
	return out
}

func nameCorpus(rng *rand.Rand, n int, binary bool) []string {
	seen := map[string]bool{}
	var out []string
	add := func(s string) {
		if !seen[s] {
			seen[s] = true
			out = append(out, hex.EncodeToString([]byte(s)))
		}
	}
	fixed := []string{"", " ", "a", "A", "a ", " a", "aa", "ab", "ba", "a/b", "a/", "/a", "Count", "count", "CoSi", "cosi",
		"Broadcast", "broadcast", "protocolname/", "id/", "token/", "tree/", "https://dedis.epfl.ch/", "https://dedis.epfl.ch/protocolname/a",
		"https://dedis.epfl.ch/id/00", "0", "00", "000", "a\x00", "a\x00b", "ab\x00", "-", "--", "name-with-dash", "name_with_underscore",
		"é", "é", "ｅ", "名前", "\xff\xfe", "\n", "a\n", "very long name " + string(make([]byte, 0))}
	for _, s := range fixed {
		add(s)
	}
	alpha := "abcXYZ019/_-. "
	for len(out) < n {
		l := 1 + rng.Intn(12)
		b := make([]byte, l)
		for i := range b {
			if binary {
				b[i] = byte(rng.Intn(256))
			} else {
				b[i] = alpha[rng.Intn(len(alpha))]
			}
		}
		s := string(b)
		add(s)
		switch rng.Intn(5) {
		case 0:
			add(s + s)
		case 1:
			add(s[:l-1])
		case 2:
			add(s + " ")
		case 3:
			c := []byte(s)
			c[rng.Intn(l)] ^= 0x20
			add(string(c))
		case 4:
			add(nsURL + "protocolname/" + s)
		}
	}
	// equal names must give equal ids: repeat two of them
	out = append(out, out[0], out[len(out)/2])
	return out
}

// ---------------------------------------------------------------- generate

func generate(rng *rand.Rand, tier string) []interface{} {
	quick := tier == "quick"
	var ins []interface{}
	add := func(in input) { ins = append(ins, in) }

	// ---- rosters
	{
		// every ordered selection of 1..4 of four servers
		keys := edKeys(0, 4)
		var rs [][]mem
		for k := 1; k <= 4; k++ {
			for _, a := range arrangements(keys, k) {
				rs = append(rs, plainRoster(a))
			}
		}
		rs = append(rs, plainRoster([]int{0, 1, 2})) // an equal list again
		add(input{Kind: "rosters", Label: "orders", Rosters: rs})
	}
	{
		// growing rosters
		maxN := 12
		if !quick {
			maxN = 60
		}
		var rs [][]mem
		keys := edKeys(0, maxN)
		for n := 1; n <= maxN; n++ {
			rs = append(rs, plainRoster(keys[:n]))
		}
		add(input{Kind: "rosters", Label: "sizes", Rosters: rs})
	}
	{
		// one key sequence cut into members in every possible way (F16), for two orders of the keys
		n := 5
		if !quick {
			n = 7
		}
		keys := edKeys(10, n)
		rs := splits(keys)
		rev := make([]int, n)
		for i := range rev {
			rev[i] = keys[n-1-i]
		}
		rs = append(rs, splits(rev)...)
		add(input{Kind: "rosters", Label: "regroup-all", Rosters: rs})
	}
	{
		// three servers, service keys handed out in every possible way: every order of the
		// service keys, cut into three (possibly empty) consecutive blocks
		nsvc := 3
		if !quick {
			nsvc = 4
		}
		servers := edKeys(20, 3)
		var rs [][]mem
		for _, p := range perms(edKeys(30, nsvc)) {
			for a := 0; a <= nsvc; a++ {
				for b := a; b <= nsvc; b++ {
					rs = append(rs, []mem{
						{K: servers[0], S: append([]int{}, p[:a]...)},
						{K: servers[1], S: append([]int{}, p[a:b]...)},
						{K: servers[2], S: append([]int{}, p[b:]...)}})
				}
			}
		}
		// and with fewer service keys
		for k := 0; k < nsvc; k++ {
			for m := 0; m < 3; m++ {
				r := plainRoster(servers)
				r[m].S = edKeys(30, k)
				rs = append(rs, r)
			}
		}
		add(input{Kind: "rosters", Label: "ownership", Rosters: dedupRosters(rs)})
	}
	nr := 8
	if !quick {
		nr = 40
	}
	for g := 0; g < nr; g++ {
		typ := 0
		if g%4 == 3 {
			typ = 1 + rng.Intn(3)
		}
		maxM := 8
		if !quick {
			maxM = 20
		}
		var rs, rg [][]mem
		for i := 0; i < 6; i++ {
			r := randomRoster(rng, typ, maxM)
			rs = append(rs, r)
			rs = append(rs, rosterNeighbours(rng, r)...)
			rg = append(rg, r)
			rg = append(rg, rosterRegroup(r)...)
		}
		rs = append(rs, cloneRoster(rs[0]))
		add(input{Kind: "rosters", Label: "services", Rosters: rs})
		add(input{Kind: "rosters", Label: "regroup", Rosters: rg})
	}
	add(malformedRosters())
	{
		// ids computed by many goroutines at once (one group each for rosters, trees, tokens)
		var rs [][]mem
		for i := 0; i < 8; i++ {
			rs = append(rs, randomRoster(rng, 0, 10))
		}
		rs = append(rs, plainRoster(edKeys(0, 5)), cloneRoster(rs[0]))
		add(input{Kind: "rosters", Label: "concurrent", Rosters: rs})
		keys := edKeys(0, 6)
		var ts []treeIn
		for _, s := range shapes(4) {
			ts = append(ts, treeIn{Ro: 0, T: labelled(s, keys)})
		}
		add(input{Kind: "trees", Label: "concurrent", Rosters: [][]mem{plainRoster(keys)}, Trees: ts})
		toks, ders := derivedTokenGroup(rng)
		add(input{Kind: "tokens", Label: "concurrent", Tokens: toks[:14], Derive: ders[:14]})
	}
	{
		// rosters whose caller goes on editing the slice it passed to NewRoster
		na := 10
		if !quick {
			na = 60
		}
		var rs [][]mem
		var eds [][]editIn
		for i := 0; i < na; i++ {
			r := randomRoster(rng, 0, 6)
			if i == 0 {
				r = plainRoster(edKeys(0, 3))
			}
			var es []editIn
			n := len(r)
			for k := 0; k < 1+rng.Intn(3); k++ {
				switch {
				case n >= 2 && rng.Intn(2) == 0:
					a := rng.Intn(n)
					b := (a + 1 + rng.Intn(n-1)) % n
					es = append(es, editIn{I: a, J: b})
				default:
					m := mem{K: 900 + rng.Intn(50)}
					if rng.Intn(2) == 0 {
						m.S = []int{950 + rng.Intn(40)}
					}
					es = append(es, editIn{I: rng.Intn(n), Set: &m})
				}
			}
			rs = append(rs, r)
			eds = append(eds, es)
		}
		add(input{Kind: "alias", Label: "caller-edits", Rosters: rs, Edits: eds})
	}

	// ---- trees
	{
		maxN := 8
		if !quick {
			maxN = 9
		}
		keys := edKeys(0, maxN)
		ros := [][]mem{plainRoster(keys)}
		var ts []treeIn
		for n := 1; n <= maxN && n <= 6; n++ {
			for _, s := range shapes(n) {
				ts = append(ts, treeIn{Ro: 0, T: labelled(s, keys)})
			}
		}
		add(input{Kind: "trees", Label: "shapes", Rosters: ros, Trees: ts})
		for n := 7; n <= maxN; n++ {
			ts = nil
			for _, s := range shapes(n) {
				ts = append(ts, treeIn{Ro: 0, T: labelled(s, keys)})
			}
			add(input{Kind: "trees", Label: "shapes", Rosters: ros, Trees: ts})
		}
	}
	{
		// every shape of <= 4 nodes with every placement of four members (no member twice)
		keys := edKeys(0, 4)
		ros := [][]mem{plainRoster(keys)}
		var ts []treeIn
		for n := 1; n <= 4; n++ {
			for _, s := range shapes(n) {
				for _, a := range arrangements(keys, n) {
					ts = append(ts, treeIn{Ro: 0, T: labelled(s, a)})
				}
			}
		}
		add(input{Kind: "trees", Label: "placements", Rosters: ros, Trees: ts})
		// members may sit on several nodes: every map nodes -> {m0, m1}
		ts = nil
		maxF := 4
		if !quick {
			maxF = 5
		}
		for n := 1; n <= maxF; n++ {
			for _, s := range shapes(n) {
				for _, f := range functions(keys[:2], n) {
					ts = append(ts, treeIn{Ro: 0, T: labelled(s, f)})
				}
			}
		}
		add(input{Kind: "trees", Label: "placements-repeat", Rosters: ros, Trees: ts})
		{
			k5 := edKeys(0, 5)
			ros5 := [][]mem{plainRoster(k5)}
			for _, s := range shapes(5) {
				ts = nil
				for _, a := range perms(k5) {
					ts = append(ts, treeIn{Ro: 0, T: labelled(s, a)})
				}
				add(input{Kind: "trees", Label: "placements", Rosters: ros5, Trees: ts})
			}
		}
	}
	nt := 8
	maxSize := 25
	if !quick {
		nt, maxSize = 40, 150
	}
	for g := 0; g < nt; g++ {
		typ := 0
		if g%4 == 3 {
			typ = 1 + rng.Intn(3)
		}
		var ts, th []treeIn
		nk := 8 + rng.Intn(8)
		keys := edKeys(typ*1000, nk)
		ros := [][]mem{plainRoster(keys)}
		for i := 0; i < 8; i++ {
			n := 2 + rng.Intn(maxSize)
			lab := make([]int, n)
			p := rng.Perm(nk)
			for j := range lab {
				if n <= nk {
					lab[j] = keys[p[j]]
				} else {
					lab[j] = keys[rng.Intn(nk)]
				}
			}
			t := labelled(randomShape(rng, n), lab)
			ts = append(ts, treeIn{Ro: 0, T: t})
			th = append(th, treeIn{Ro: 0, T: t})
			// two nodes exchange their members
			var ptrs []*node
			c := cloneNode(t)
			nodesOf(&c, &ptrs)
			a, b := rng.Intn(n), rng.Intn(n)
			if ptrs[a].K != ptrs[b].K {
				ptrs[a].K, ptrs[b].K = ptrs[b].K, ptrs[a].K
				ts = append(ts, treeIn{Ro: 0, T: c})
			}
			// the children of one node in reverse order
			c = cloneNode(t)
			ptrs = nil
			nodesOf(&c, &ptrs)
			for _, q := range ptrs {
				if len(q.C) >= 2 {
					for x, y := 0, len(q.C)-1; x < y; x, y = x+1, y-1 {
						q.C[x], q.C[y] = q.C[y], q.C[x]
					}
					ts = append(ts, treeIn{Ro: 0, T: c})
					break
				}
			}
			// a leaf removed
			c = cloneNode(t)
			ptrs = nil
			nodesOf(&c, &ptrs)
			for _, q := range ptrs {
				if len(q.C) >= 1 && len(q.C[len(q.C)-1].C) == 0 {
					q.C = q.C[:len(q.C)-1]
					ts = append(ts, treeIn{Ro: 0, T: c})
					break
				}
			}
			// same pre-order and leaves, other structure (F15)
			cur := t
			for k := 0; k < 3; k++ {
				r, ok := rehang(rng, cur)
				if !ok {
					break
				}
				th = append(th, treeIn{Ro: 0, T: r})
				cur = r
			}
		}
		ts = append(ts, treeIn{Ro: 0, T: cloneNode(ts[0].T)})
		add(input{Kind: "trees", Label: "random", Rosters: ros, Trees: ts})
		add(input{Kind: "trees", Label: "rehang", Rosters: ros, Trees: th})
	}
	{
		// one tree over several rosters: other order, a service key added, equal content
		keys := edKeys(0, 5)
		ros := [][]mem{plainRoster(keys), plainRoster([]int{1, 0, 2, 3, 4}), plainRoster(keys[:4]),
			{{K: 0, S: []int{20}}, {K: 1}, {K: 2}, {K: 3}, {K: 4}}, plainRoster(keys),
			{{K: 0, S: []int{1}}, {K: 2}, {K: 3}, {K: 4}}}
		var ts []treeIn
		// shapes that differ in their pre-order leaf pattern (no F15 pair among them)
		star := node{C: []node{{}, {}, {}}}
		chain := node{C: []node{{C: []node{{C: []node{{}}}}}}}
		for _, s := range append(append([]node{}, shapes(3)...), star, chain) {
			for r := range ros {
				ts = append(ts, treeIn{Ro: r, T: labelled(s, keys)})
			}
		}
		add(input{Kind: "trees", Label: "rosters", Rosters: ros, Trees: ts})
	}
	add(malformedTrees())

	// ---- tokens
	ng := 5
	if !quick {
		ng = 30
	}
	for g := 0; g < ng; g++ {
		add(input{Kind: "tokens", Label: "fields", Tokens: tokenGroup(rng)})
		toks, ders := derivedTokenGroup(rng)
		add(input{Kind: "tokens", Label: "derived", Tokens: toks, Derive: ders})
	}

	// ---- names
	nn := 70
	if !quick {
		nn = 300
	}
	for _, bin := range []bool{false, true} {
		lab := "text"
		if bin {
			lab = "bytes"
		}
		names := nameCorpus(rng, nn, bin)
		add(input{Kind: "protos", Label: lab, Names: names})
		add(input{Kind: "services", Label: lab, Names: names})
	}

	// ---- server and node ids from keys
	{
		per := 8
		if !quick {
			per = 40
		}
		var ks []int
		for typ := 0; typ < 4; typ++ {
			ks = append(ks, edKeys(typ*1000, per)...)
		}
		ks = append(ks, 0, 1001)
		add(input{Kind: "servers", Label: "keys", Keys: append(append([]int{}, ks...), -1)})
		add(input{Kind: "nodes", Label: "keys", Keys: ks})
	}
	return ins
}

func malformedRosters() input {
	return input{Kind: "rosters", Label: "malformed", Rosters: [][]mem{
		{},                                  // empty: nil
		{{K: -1}},                           // first key nil: nil
		{{K: -1}, {K: 1}},                   // first key nil: nil
		{{K: 0}, {K: -1}},                   // later key nil: panic
		{{K: 0, S: []int{-1}}},              // service key nil: panic
		{{K: 0}, {K: 1, S: []int{2, -1}}},   // service key nil: panic
		{{K: 0}, {K: 1001}},                 // server keys of two point types: panic in the aggregate
		{{K: 2000}, {K: 3000}},              // G1 and G2
		{{K: 0}, {K: 1}},                    // legal
		{{K: 0, S: []int{1001, 2001, 3001}}}, // legal: service keys of other suites
	}}
}

func malformedTrees() input {
	ros := [][]mem{plainRoster(edKeys(0, 3)), {}, {{K: -1}}}
	return input{Kind: "trees", Label: "malformed", Rosters: ros, Trees: []treeIn{
		{Ro: 0, T: node{K: -1}},
		{Ro: 0, T: node{K: 0, C: []node{{K: 1}, {K: -1}}}},
		{Ro: -1, T: node{K: 0, C: []node{{K: 1}}}},
		{Ro: 1, T: node{K: 0}},
		{Ro: 2, T: node{K: 0}},
		{Ro: 0, T: node{K: 0, C: []node{{K: 1001}}}},
		{Ro: 0, T: node{K: 2000, C: []node{{K: 2001, C: []node{{K: 3000}}}}}},
		{Ro: 0, T: node{K: 0, C: []node{{K: 1}}}},
		{Ro: 0, T: node{K: 5, C: []node{{K: 6}}}}, // members outside the roster: legal for NewTree
	}}
}

// corpus: the refutation witnesses of Tree/IdsProofs.v, replayed first
func corpus() []interface{} {
	return []interface{}{
		// F15: r(a(b,c)) and r(a(b),c) over one roster
		input{Kind: "trees", Label: "rehang", Rosters: [][]mem{plainRoster(edKeys(0, 4))}, Trees: []treeIn{
			{Ro: 0, T: node{K: 0, C: []node{{K: 1, C: []node{{K: 2}, {K: 3}}}}}},
			{Ro: 0, T: node{K: 0, C: []node{{K: 1, C: []node{{K: 2}}}, {K: 3}}}},
		}},
		// F16: [A with service key B] and [A, B]
		input{Kind: "rosters", Label: "regroup", Rosters: [][]mem{
			{{K: 0, S: []int{1}}},
			{{K: 0}, {K: 1}},
		}},
		// regression inputs (pass on the pinned code): a service key owned by another member;
		// a token derived from one whose id was already asked for
		input{Kind: "rosters", Label: "ownership", Rosters: [][]mem{
			{{K: 0, S: []int{2}}, {K: 1}},
			{{K: 0}, {K: 1, S: []int{2}}},
		}},
		input{Kind: "tokens", Label: "fields", Tokens: [][6]string{
			{"11111111111111111111111111111111", "22222222222222222222222222222222", "33333333333333333333333333333333",
				nilUUID, "55555555555555555555555555555555", "66666666666666666666666666666666"},
			{"11111111111111111111111111111111", "22222222222222222222222222222222", "88888888888888888888888888888888",
				nilUUID, "55555555555555555555555555555555", "66666666666666666666666666666666"},
		}},
		input{Kind: "alias", Label: "caller-edits", Rosters: [][]mem{plainRoster(edKeys(0, 3))},
			Edits: [][]editIn{{{I: 0, J: 2}}}},
		input{Kind: "tokens", Label: "derived",
			Tokens: [][6]string{
				{"11111111111111111111111111111111", "22222222222222222222222222222222", "33333333333333333333333333333333",
					"44444444444444444444444444444444", "55555555555555555555555555555555", "66666666666666666666666666666666"},
				{"11111111111111111111111111111111", "22222222222222222222222222222222", "33333333333333333333333333333333",
					"44444444444444444444444444444444", "77777777777777777777777777777777", "66666666666666666666666666666666"},
				{"11111111111111111111111111111111", "22222222222222222222222222222222", "33333333333333333333333333333333",
					"44444444444444444444444444444444", "77777777777777777777777777777777", "66666666666666666666666666666666"},
			},
			Derive: []deriv{{}, {From: 0, How: "clone"}, {}}},
	}
}
