// C18 harness: the configuration readers / writers of app/config.go.
//
// An input is an abstract private.toml or group.toml (suites, keys, addresses,
// optional fields, per-service entries, which services are registered).  The
// harness prints it as TOML twice (service entries in the given and in the
// reverse order), lets the REAL readers parse each text many times in this
// process and in fresh sub-processes, writes the first result back with the
// real writers and reads that again.  Because Go randomises map iteration, the
// observation of a case is the SET of distinct results seen.
package main

import (
	"bytes"
	"context"
	"crypto/sha256"
	"encoding/hex"
	"encoding/json"
	"fmt"
	"io/ioutil"
	"os"
	"os/exec"
	"path/filepath"
	"sort"
	"strconv"
	"strings"
	"time"

	"github.com/google/uuid"
	"go.dedis.ch/kyber/v3"
	"go.dedis.ch/kyber/v3/suites"
	"go.dedis.ch/onet/v3"
	"go.dedis.ch/onet/v3/app"
	"go.dedis.ch/onet/v3/log"
	"go.dedis.ch/onet/v3/network"

	"verifharness/lib"
)

// ---------------------------------------------------------------- inputs

type svcIn struct {
	Name    string `json:"name"`
	Suite   string `json:"suite"`             // suite name written in the file
	Key     int    `json:"key"`               // key id (its type decides the real suite)
	BadPub  bool   `json:"badpub,omitempty"`  // public key text does not parse
	Priv    string `json:"priv,omitempty"`    // "" none, "ok", "bad"  (private.toml only)
	RegWith string `json:"reg,omitempty"`     // "" not registered, "nil" registered without suite, else suite name
}

type serverIn struct {
	Addr     string  `json:"addr"`
	Suite    string  `json:"suite"` // "" = omitted (defaults to Ed25519)
	Key      int     `json:"key"`
	BadPub   bool    `json:"badpub,omitempty"`
	BadPriv  bool    `json:"badpriv,omitempty"`
	Desc     *string `json:"desc,omitempty"`
	URL      *string `json:"url,omitempty"`
	TLSKey   string  `json:"tlskey,omitempty"` // private.toml only
	Services []svcIn `json:"services,omitempty"`
}

type input struct {
	Kind    string     `json:"kind"` // group | private | rosterfile
	Label   string     `json:"label"`
	Servers []serverIn `json:"servers"`
	Parses  int        `json:"parses"`
	// rosterfile: the roster's ID field before it is written: "" = as NewRoster derived
	// it, else a hex uuid put there by hand (an id from elsewhere / an older derivation)
	StoredID string `json:"stored_id,omitempty"`
	// RegOrder: the order in which THIS process registers the services with
	// onet.ServiceFactory -- "" as they occur in the input, "reverse", "byname-desc",
	// "rotate".  The registration order is a property of the running binary, not of the
	// file: readers that registered in different orders must agree.  Set by the parent
	// for each sub-process; never part of a generated input.
	RegOrder string `json:"reg_order,omitempty"`
	// Resolver: the host-name resolver of THIS process (network's lookupHost, set through
	// the verif export of the network package): "" the system's, "a" / "b" resolve every
	// name to one fixed (different) address, "fail" resolves nothing.  What a reader
	// returns for a file must not depend on it.  Set by the parent per sub-process.
	Resolver string `json:"resolver,omitempty"`
}

// ---------------------------------------------------------------- keys

var suiteNames = []string{"Ed25519", "P256", "bn256.G1", "bn256.G2"}

func suiteOfType(t int) string { return suiteNames[t] }

type keyInfo struct {
	pub  kyber.Point
	priv kyber.Scalar
	bin  []byte
	str  string
	typ  int
	suit suites.Suite
}

var keyCache = map[int]*keyInfo{}

func getKey(id int) *keyInfo {
	if k, ok := keyCache[id]; ok {
		return k
	}
	typ := id / 1000
	s := suites.MustFind(suiteNames[typ])
	sc := s.Scalar().Pick(s.XOF([]byte(fmt.Sprintf("verif-c13-key-%d", id))))
	pub := s.Point().Mul(sc, nil)
	b, err := pub.MarshalBinary()
	if err != nil {
		panic(err)
	}
	k := &keyInfo{pub: pub, priv: sc, bin: b, str: pub.String(), typ: typ, suit: s}
	keyCache[id] = k
	return k
}

// the suite a written suite name stands for as far as keys are concerned
func keyTypeOfSuite(name string) int {
	switch strings.ToLower(name) {
	case "ed25519", "":
		return 0
	case "p256":
		return 1
	case "bn256.g1":
		return 2
	case "bn256.g2", "bn256.adapter":
		return 3
	}
	return -1
}

// ---------------------------------------------------------------- TOML text

func tq(s string) string {
	var sb strings.Builder
	sb.WriteByte('"')
	for _, r := range s {
		switch {
		case r == '"':
			sb.WriteString("\\\"")
		case r == '\\':
			sb.WriteString("\\\\")
		case r < 0x20 || r == 0x7f:
			fmt.Fprintf(&sb, "\\u%04X", r)
		default:
			sb.WriteRune(r)
		}
	}
	sb.WriteByte('"')
	return sb.String()
}

func pubText(key int, bad bool) string {
	h := hex.EncodeToString(getKey(key).bin)
	if bad {
		return "zz" + h[2:]
	}
	return h
}

func privText(key int, bad bool) string {
	b, _ := getKey(key).priv.MarshalBinary()
	h := hex.EncodeToString(b)
	if bad {
		return "zz" + h[2:]
	}
	return h
}

func order(n int, reverse bool) []int {
	o := make([]int, n)
	for i := range o {
		if reverse {
			o[i] = n - 1 - i
		} else {
			o[i] = i
		}
	}
	return o
}

func groupText(in *input, reverse bool) string {
	var sb strings.Builder
	sb.WriteString("Description = \"generated by the C18 harness\"\n\n")
	for _, s := range in.Servers {
		sb.WriteString("[[servers]]\n")
		fmt.Fprintf(&sb, "  Address = %s\n", tq(s.Addr))
		if s.Suite != "" {
			fmt.Fprintf(&sb, "  Suite = %s\n", tq(s.Suite))
		}
		fmt.Fprintf(&sb, "  Public = %s\n", tq(pubText(s.Key, s.BadPub)))
		if s.Desc != nil {
			fmt.Fprintf(&sb, "  Description = %s\n", tq(*s.Desc))
		}
		if s.URL != nil {
			fmt.Fprintf(&sb, "  URL = %s\n", tq(*s.URL))
		}
		if len(s.Services) > 0 {
			sb.WriteString("  [servers.Services]\n")
			for _, i := range order(len(s.Services), reverse) {
				v := s.Services[i]
				fmt.Fprintf(&sb, "    [servers.Services.%s]\n", tq(v.Name))
				fmt.Fprintf(&sb, "    Suite = %s\n", tq(v.Suite))
				fmt.Fprintf(&sb, "    Public = %s\n", tq(pubText(v.Key, v.BadPub)))
			}
		}
		sb.WriteString("\n")
	}
	return sb.String()
}

func privateText(in *input, reverse bool) string {
	s := in.Servers[0]
	var sb strings.Builder
	if s.Suite != "" {
		fmt.Fprintf(&sb, "Suite = %s\n", tq(s.Suite))
	}
	fmt.Fprintf(&sb, "Public = %s\n", tq(pubText(s.Key, s.BadPub)))
	fmt.Fprintf(&sb, "Private = %s\n", tq(privText(s.Key, s.BadPriv)))
	fmt.Fprintf(&sb, "Address = %s\n", tq(s.Addr))
	sb.WriteString("ListenAddress = \"\"\n")
	if s.Desc != nil {
		fmt.Fprintf(&sb, "Description = %s\n", tq(*s.Desc))
	}
	if s.URL != nil {
		fmt.Fprintf(&sb, "URL = %s\n", tq(*s.URL))
	}
	if s.TLSKey != "" {
		fmt.Fprintf(&sb, "WebSocketTLSCertificate = %s\n", tq("string://cert"))
		fmt.Fprintf(&sb, "WebSocketTLSCertificateKey = %s\n", tq(s.TLSKey))
	}
	if len(s.Services) > 0 {
		sb.WriteString("\n[Services]\n")
		for _, i := range order(len(s.Services), reverse) {
			v := s.Services[i]
			fmt.Fprintf(&sb, "  [Services.%s]\n", tq(v.Name))
			fmt.Fprintf(&sb, "  Suite = %s\n", tq(v.Suite))
			fmt.Fprintf(&sb, "  Public = %s\n", tq(pubText(v.Key, v.BadPub)))
			switch v.Priv {
			case "ok":
				fmt.Fprintf(&sb, "  Private = %s\n", tq(privText(v.Key, false)))
			case "bad":
				fmt.Fprintf(&sb, "  Private = %s\n", tq(privText(v.Key, true)))
			}
		}
	}
	return sb.String()
}

// ---------------------------------------------------------------- registry

// a service that only ever occurs in the PREVIOUS content of a file that is
// overwritten; it is registered so that a leftover entry would show as an identity
const previousService = "zzzzPreviousContent"

func registerAll(in *input) func() {
	type regEntry struct {
		name string
		su   suites.Suite
	}
	regs := []regEntry{{previousService, suites.MustFind("Ed25519")}}
	seen := map[string]bool{}
	for _, s := range in.Servers {
		for _, v := range s.Services {
			if v.RegWith == "" || seen[v.Name] {
				continue
			}
			seen[v.Name] = true
			var su suites.Suite
			if v.RegWith != "nil" {
				su = suites.MustFind(v.RegWith)
			}
			regs = append(regs, regEntry{v.Name, su})
		}
	}
	switch in.RegOrder {
	case "reverse":
		for a, b := 0, len(regs)-1; a < b; a, b = a+1, b-1 {
			regs[a], regs[b] = regs[b], regs[a]
		}
	case "byname-desc":
		sort.Slice(regs, func(a, b int) bool { return regs[a].name > regs[b].name })
	case "rotate":
		if len(regs) > 1 {
			regs = append(regs[1:], regs[0])
		}
	}
	var names []string
	for _, e := range regs {
		if _, err := onet.ServiceFactory.Register(e.name, e.su, nil); err != nil {
			panic(err)
		}
		names = append(names, e.name)
	}
	return func() {
		for _, n := range names {
			onet.ServiceFactory.Unregister(n)
		}
	}
}

// ---------------------------------------------------------------- observations

type sidObs struct {
	Name  string `json:"name"`
	Suite string `json:"suite"`
	Pub   string `json:"pub"`
	Priv  string `json:"priv"` // hex, "zero" or "nil"
}

type idObs struct {
	Pub  string   `json:"pub"`
	Priv string   `json:"priv"` // hex or "nil"
	Addr string   `json:"addr"`
	Desc string   `json:"desc"`
	URL  string   `json:"url"`
	Srv  []sidObs `json:"srv"`
}

type result struct {
	Kind   string  `json:"kind"` // ok err panic
	Ids    []idObs `json:"ids,omitempty"`
	Roster string  `json:"roster,omitempty"` // hex, nil, crash
}

func hexOfPoint(p kyber.Point) string {
	if p == nil {
		return "nil"
	}
	b, err := p.MarshalBinary()
	if err != nil {
		return "err"
	}
	return hex.EncodeToString(b)
}

func hexOfScalar(s kyber.Scalar, zeroAs string) string {
	if s == nil {
		return "nil"
	}
	if zeroAs != "" && s.Equal(s.Clone().Zero()) {
		return zeroAs
	}
	b, err := s.MarshalBinary()
	if err != nil {
		return "err"
	}
	return hex.EncodeToString(b)
}

func observeIdentity(si *network.ServerIdentity) idObs {
	o := idObs{Pub: hexOfPoint(si.Public), Priv: hexOfScalar(si.GetPrivate(), ""), Addr: string(si.Address),
		Desc: si.Description, URL: si.URL, Srv: []sidObs{}}
	for _, s := range si.ServiceIdentities {
		o.Srv = append(o.Srv, sidObs{Name: s.Name, Suite: s.Suite, Pub: hexOfPoint(s.Public), Priv: hexOfScalar(s.GetPrivate(), "zero")})
	}
	return o
}

func rosterIDOf(ids []*network.ServerIdentity) (res string) {
	defer func() {
		if r := recover(); r != nil {
			res = "crash"
		}
	}()
	ro := onet.NewRoster(ids)
	if ro == nil {
		return "nil"
	}
	return hex.EncodeToString(ro.ID[:])
}

func readGroup(text string) (res result, g *app.Group) {
	defer func() {
		if r := recover(); r != nil {
			res, g = result{Kind: "panic"}, nil
		}
	}()
	grp, err := app.ReadGroupDescToml(strings.NewReader(text))
	if err != nil {
		// the generated texts are valid TOML: a refusal of the text itself is kept apart
		// from the refusal of a suite / key
		if strings.HasPrefix(err.Error(), "toml decoding") {
			return result{Kind: "err-toml"}, nil
		}
		return result{Kind: "err"}, nil
	}
	res = result{Kind: "ok", Ids: []idObs{}}
	if grp.Roster == nil && len(grp.Description) > 0 {
		// identities were read but there is no roster: not the empty group
		return result{Kind: "no-roster"}, grp
	}
	if grp.Roster == nil {
		res.Roster = "nil"
		return res, grp
	}
	for _, si := range grp.Roster.List {
		o := observeIdentity(si)
		// the description map must agree with the identity
		if grp.GetDescription(si) != si.Description {
			o.Desc = "MAP-MISMATCH:" + grp.GetDescription(si)
		}
		res.Ids = append(res.Ids, o)
	}
	res.Roster = hex.EncodeToString(grp.Roster.ID[:])
	return res, grp
}

func readPrivate(file string) (res result, hc *app.CothorityConfig) {
	defer func() {
		if r := recover(); r != nil {
			res, hc = result{Kind: "panic"}, nil
		}
	}()
	c, err := app.LoadCothority(file)
	if err != nil {
		return result{Kind: "err-toml"}, nil
	}
	si, err := c.GetServerIdentity()
	if err != nil {
		return result{Kind: "err"}, nil
	}
	return result{Kind: "ok", Ids: []idObs{observeIdentity(si)}, Roster: rosterIDOf([]*network.ServerIdentity{si})}, c
}

type obsSet struct {
	keys  []string
	byKey map[string]result
}

func (s *obsSet) add(r result) {
	b, _ := json.Marshal(r)
	k := string(b)
	if s.byKey == nil {
		s.byKey = map[string]result{}
	}
	if _, ok := s.byKey[k]; !ok {
		s.byKey[k] = r
		s.keys = append(s.keys, k)
	}
}

func (s *obsSet) list() []result {
	sort.Strings(s.keys)
	out := make([]result, len(s.keys))
	for i, k := range s.keys {
		out[i] = s.byKey[k]
	}
	return out
}

type observation struct {
	Parses    []result `json:"parses"`
	RoundTrip []result `json:"roundtrip"`
	Written   bool     `json:"written"` // a first result existed and was written back
}

// parseAll: the parses of one process (both file orders), and the write / re-read
func parseAll(in *input, dir string, n int, withRoundTrip bool) observation {
	unreg := registerAll(in)
	defer unreg()
	var parses, rt obsSet
	texts := []string{}
	for _, rev := range []bool{false, true} {
		if in.Kind == "group" {
			texts = append(texts, groupText(in, rev))
		} else {
			texts = append(texts, privateText(in, rev))
		}
	}
	written := false
	for ti, text := range texts {
		file := filepath.Join(dir, fmt.Sprintf("in%d.toml", ti))
		if err := ioutil.WriteFile(file, []byte(text), 0600); err != nil {
			panic(err)
		}
		for i := 0; i < n; i++ {
			if in.Kind == "group" {
				r, g := readGroup(text)
				parses.add(r)
				if withRoundTrip && !written && r.Kind == "ok" && g.Roster != nil {
					written = true
					out := filepath.Join(dir, "out.toml")
					suite := suites.MustFind(suiteOfType(keyTypeOfSuite(in.Servers[0].Suite)))
					func() {
						defer func() {
							if e := recover(); e != nil {
								rt.add(result{Kind: "panic"})
							}
						}()
						if err := g.Save(suite, out); err != nil {
							rt.add(result{Kind: "err"})
							return
						}
						b, err := ioutil.ReadFile(out)
						if err != nil {
							panic(err)
						}
						for j := 0; j < n; j++ {
							r2, _ := readGroup(string(b))
							rt.add(r2)
						}
						// the same write over a path that already holds a LONGER group
						// definition (the text just written plus one more server) and over a
						// SHORTER one: what is re-read must not depend on what was there before
						extra := getKey(keyTypeOfSuite(in.Servers[0].Suite)*1000 + 998)
						longer := string(b) + "\n[[servers]]\n  Address = \"tcp://10.9.9.9:2000\"\n  Suite = " + tq(suite.String()) +
							"\n  Public = " + tq(hex.EncodeToString(extra.bin)) + "\n  Description = \"previous content\"\n"
						for k, prev := range []string{longer, "# old\n"} {
							out2 := filepath.Join(dir, fmt.Sprintf("out_prev%d.toml", k))
							if err := ioutil.WriteFile(out2, []byte(prev), 0600); err != nil {
								panic(err)
							}
							if err := g.Save(suite, out2); err != nil {
								rt.add(result{Kind: "err"})
								continue
							}
							b2, err := ioutil.ReadFile(out2)
							if err != nil {
								panic(err)
							}
							for j := 0; j < 3; j++ {
								r2, _ := readGroup(string(b2))
								rt.add(r2)
							}
						}
					}()
				}
			} else {
				r, hc := readPrivate(file)
				parses.add(r)
				if withRoundTrip && !written && r.Kind == "ok" {
					written = true
					out := filepath.Join(dir, "out.toml")
					if err := hc.Save(out); err != nil {
						rt.add(result{Kind: "err"})
					} else {
						for j := 0; j < n; j++ {
							r2, _ := readPrivate(out)
							rt.add(r2)
						}
						// the same Save over a path that already holds a LONGER configuration
						// (this one plus one more registered service, saved by the real writer)
						// and over a SHORTER one
						for k := 0; k < 2; k++ {
							out2 := filepath.Join(dir, fmt.Sprintf("out_prev%d.toml", k))
							if k == 0 {
								prev := *hc
								prev.Services = map[string]app.ServiceConfig{}
								for name, sc := range hc.Services {
									prev.Services[name] = sc
								}
								ek := getKey(997)
								prev.Services[previousService] = app.ServiceConfig{Suite: "Ed25519",
									Public: hex.EncodeToString(ek.bin), Private: privText(997, false)}
								if err := prev.Save(out2); err != nil {
									panic(err)
								}
							} else if err := ioutil.WriteFile(out2, []byte("# old\n"), 0600); err != nil {
								panic(err)
							}
							if err := hc.Save(out2); err != nil {
								rt.add(result{Kind: "err"})
								continue
							}
							for j := 0; j < 3; j++ {
								r2, _ := readPrivate(out2)
								rt.add(r2)
							}
						}
					}
				}
			}
		}
	}
	return observation{Parses: parses.list(), RoundTrip: rt.list(), Written: written}
}

// ---------------------------------------------------------------- roster files

// the roster of a rosterfile input (identities with description, URL, service
// identities) and the suite of its server keys
func rosterFileRoster(in *input) (*onet.Roster, suites.Suite) {
	suite := suites.MustFind(suiteOfType(keyTypeOfSuite(in.Servers[0].Suite)))
	var sis []*network.ServerIdentity
	for _, s := range in.Servers {
		si := network.NewServerIdentity(getKey(s.Key).pub, network.Address(s.Addr))
		si.Description = strOr(s.Desc)
		si.URL = strOr(s.URL)
		for _, v := range s.Services {
			k := getKey(v.Key)
			si.ServiceIdentities = append(si.ServiceIdentities, network.NewServiceIdentity(v.Name, suites.MustFind(v.Suite), k.pub, nil))
		}
		sis = append(sis, si)
	}
	ro := onet.NewRoster(sis)
	if in.StoredID != "" {
		b, err := hex.DecodeString(in.StoredID)
		if err != nil || len(b) != 16 {
			panic("bad stored id")
		}
		copy(ro.ID[:], b)
	}
	return ro, suite
}

// rosterFileObs writes the roster with Roster.Toml + WriteTomlConfig and reads it back
// n times with ReadTomlConfig + RosterToml.Roster.  Only ever called in a sub-process:
// both helpers end the process (log.Fatal) on an encoding / decoding problem.
func rosterFileObs(in *input, dir string, n int) observation {
	var reads obsSet
	ro, suite := rosterFileRoster(in)
	file := filepath.Join(dir, "roster.toml")
	onet.WriteTomlConfig(ro.Toml(suite), file)
	for i := 0; i < n; i++ {
		func() {
			defer func() {
				if r := recover(); r != nil {
					reads.add(result{Kind: "panic"})
				}
			}()
			rt := &onet.RosterToml{}
			if err := onet.ReadTomlConfig(rt, file); err != nil {
				reads.add(result{Kind: "err"})
				return
			}
			ro2 := rt.Roster(suite)
			if ro2 == nil {
				reads.add(result{Kind: "no-roster"})
				return
			}
			res := result{Kind: "ok", Ids: []idObs{}, Roster: hex.EncodeToString(ro2.ID[:])}
			for _, si := range ro2.List {
				res.Ids = append(res.Ids, observeIdentity(si))
			}
			reads.add(res)
		}()
	}
	return observation{Parses: reads.list()}
}

func installResolver(kind string) {
	switch kind {
	case "a":
		network.VerifC20SetLookupHost(func(string) ([]string, error) { return []string{"192.0.2.1"}, nil })
	case "b":
		network.VerifC20SetLookupHost(func(string) ([]string, error) { return []string{"198.51.100.7", "192.0.2.1"}, nil })
	case "fail":
		network.VerifC20SetLookupHost(func(h string) ([]string, error) { return nil, fmt.Errorf("no such host %s", h) })
	}
}

func childMain() {
	raw, err := ioutil.ReadAll(os.Stdin)
	if err != nil {
		os.Exit(3)
	}
	var in input
	if err := json.Unmarshal(raw, &in); err != nil {
		os.Exit(3)
	}
	installResolver(in.Resolver)
	dir, err := ioutil.TempDir("", "verif-c18-child")
	if err != nil {
		os.Exit(3)
	}
	defer os.RemoveAll(dir)
	var o observation
	if in.Kind == "rosterfile" {
		o = rosterFileObs(&in, dir, 4)
	} else {
		o = parseAll(&in, dir, 4, false)
	}
	b, _ := json.Marshal(o)
	os.Stdout.Write(b)
}

// freshProcess parses the texts in a new process.  A process that dies, hangs
// (5 minutes) or does not answer properly is tried again twice (load); after that the
// failure IS the observation: the result "died" joins the set of parse results (no
// outcome of the model equals it) -- the case is evaluated, never discarded.
func freshProcess(raw []byte) observation {
	for attempt := 0; attempt < 3; attempt++ {
		ctx, cancel := context.WithTimeout(context.Background(), 5*time.Minute)
		cmd := exec.CommandContext(ctx, os.Args[0], "-c18child")
		cmd.Stdin = bytes.NewReader(raw)
		var out bytes.Buffer
		cmd.Stdout = &out
		err := cmd.Run()
		cancel()
		var o observation
		if err == nil && json.Unmarshal(out.Bytes(), &o) == nil && len(o.Parses) > 0 {
			return o
		}
	}
	return observation{Parses: []result{{Kind: "died"}}}
}

// ---------------------------------------------------------------- Coq literals

func lit(b []byte) string {
	var sb strings.Builder
	sb.WriteString("(B [")
	nfull := len(b) / 7
	for i := 0; i < nfull; i++ {
		if i > 0 {
			sb.WriteString(";")
		}
		sb.WriteString("0x")
		sb.WriteString(hex.EncodeToString(b[7*i : 7*i+7]))
	}
	rest := b[7*nfull:]
	last := "0"
	if len(rest) > 0 {
		last = "0x" + hex.EncodeToString(rest)
	}
	fmt.Fprintf(&sb, "]%%uint63 %d %s%%uint63)", len(rest), last)
	return sb.String()
}

func slit(s string) string { return lit([]byte(s)) }

func hlit(h string) string {
	b, err := hex.DecodeString(h)
	if err != nil {
		panic("bad hex " + h)
	}
	return lit(b)
}

type keyTab struct {
	ids   []int
	pos   map[int]int
	byHex map[string]int
	extra []string // observed keys that are none of the generated ones (hex)
}

func newKeyTab(in *input) *keyTab {
	kt := &keyTab{pos: map[int]int{}, byHex: map[string]int{}}
	seen := map[int]bool{}
	add := func(id int) {
		if !seen[id] {
			seen[id] = true
			kt.ids = append(kt.ids, id)
		}
	}
	for _, s := range in.Servers {
		add(s.Key)
		for _, v := range s.Services {
			add(v.Key)
		}
	}
	sort.Ints(kt.ids)
	for i, id := range kt.ids {
		kt.pos[id] = i
		kt.byHex[hex.EncodeToString(getKey(id).bin)] = i
	}
	return kt
}

func (kt *keyTab) refHex(h string) int {
	if i, ok := kt.byHex[h]; ok {
		return i
	}
	i := len(kt.ids) + len(kt.extra)
	kt.extra = append(kt.extra, h)
	kt.byHex[h] = i
	return i
}

func (kt *keyTab) coq() string {
	var s []string
	for _, id := range kt.ids {
		k := getKey(id)
		s = append(s, fmt.Sprintf("(%s, %s, %d)", lit(k.bin), lit([]byte(k.str)), k.typ))
	}
	for _, h := range kt.extra {
		b, err := hex.DecodeString(h)
		if err != nil {
			b = []byte(h)
		}
		s = append(s, fmt.Sprintf("(%s, %s, %d)", lit(b), lit(nil), 99))
	}
	return lib.List(s)
}

func optLit(present bool, s string) string {
	if !present {
		return "None"
	}
	return "(Some " + s + ")"
}

// coqPrivObs: [none] is the value written as None -- for a server identity "nil" (no
// private key), for a service identity "zero" (the zero scalar the reader puts there).
// The other special value is NOT merged with it: it is written as a marker text that
// no model value equals.
func coqPrivObs(p string, none string) string {
	if p == none {
		return "None"
	}
	b, err := hex.DecodeString(p)
	if err != nil || p == "" {
		return "(Some " + slit("!"+p) + ")"
	}
	return "(Some " + lit(b) + ")"
}

func coqResult(kt *keyTab, r result) string {
	switch r.Kind {
	case "err":
		return "ORErr"
	case "panic":
		return "ORPanic"
	case "died":
		return "(OROther 1)"
	case "err-toml":
		return "(OROther 2)"
	case "no-roster":
		return "(OROther 3)"
	}
	ids := make([]string, len(r.Ids))
	for i, id := range r.Ids {
		srv := make([]string, len(id.Srv))
		for j, s := range id.Srv {
			srv[j] = fmt.Sprintf("(OS %s %s %d %s)", slit(s.Name), slit(s.Suite), kt.refHex(s.Pub), coqPrivObs(s.Priv, "zero"))
		}
		ids[i] = fmt.Sprintf("(OI %d %s %s %s %s %s)", kt.refHex(id.Pub), coqPrivObs(id.Priv, "nil"), slit(id.Addr), slit(id.Desc), slit(id.URL), lib.List(srv))
	}
	ro := "ONil"
	switch r.Roster {
	case "nil":
	case "crash":
		ro = "OCrash"
	default:
		ro = "(OId " + hlit(r.Roster) + ")"
	}
	return "(OROk " + lib.List(ids) + " " + ro + ")"
}

func coqResults(kt *keyTab, rs []result) string {
	s := make([]string, len(rs))
	for i, r := range rs {
		s[i] = coqResult(kt, r)
	}
	return "[\n    " + strings.Join(s, ";\n    ") + "]"
}

// oracle: Go's hash functions on the roster pre-image of every observed result
func oracleOf(rs []result, h256, u *[][2]string, seen map[string]bool) {
	for _, r := range rs {
		if r.Kind != "ok" || len(r.Ids) == 0 {
			continue
		}
		var pre []byte
		ok := true
		for _, id := range r.Ids {
			b, err := hex.DecodeString(id.Pub)
			if err != nil {
				ok = false
				break
			}
			pre = append(pre, b...)
			for _, s := range id.Srv {
				sb, err := hex.DecodeString(s.Pub)
				if err != nil {
					ok = false
					break
				}
				pre = append(pre, sb...)
			}
		}
		if !ok || seen[string(pre)] {
			continue
		}
		seen[string(pre)] = true
		d := sha256.Sum256(pre)
		*h256 = append(*h256, [2]string{hex.EncodeToString(pre), hex.EncodeToString(d[:])})
		hx := hex.EncodeToString(d[:])
		id := uuid.NewSHA1(uuid.NameSpaceURL, []byte(hx))
		*u = append(*u, [2]string{hex.EncodeToString([]byte(hx)), hex.EncodeToString(id[:])})
	}
}

func coqPairs(l [][2]string) string {
	s := make([]string, len(l))
	for i, x := range l {
		s[i] = "(" + hlit(x[0]) + ", " + hlit(x[1]) + ")"
	}
	return lib.List(s)
}

func coqSvc(kt *keyTab, v svcIn, private bool) string {
	pub := "None"
	// the key parses iff the text is intact and the written suite is the key's suite
	// (a suite mismatch with the registered suite panics before any parsing)
	if !v.BadPub {
		pub = fmt.Sprintf("(Some %d)", kt.pos[v.Key])
	}
	priv := "PNone"
	if private {
		switch v.Priv {
		case "ok":
			b, _ := getKey(v.Key).priv.MarshalBinary()
			priv = "(PSome " + lit(b) + ")"
		case "bad":
			priv = "PBad"
		}
	}
	return fmt.Sprintf("(ISvc %s %s %s %s)", slit(v.Name), slit(v.Suite), pub, priv)
}

func coqRegistry(in *input) string {
	var s []string
	seen := map[string]bool{}
	for _, sv := range in.Servers {
		for _, v := range sv.Services {
			if v.RegWith == "" || seen[v.Name] {
				continue
			}
			seen[v.Name] = true
			if v.RegWith == "nil" {
				s = append(s, "("+slit(v.Name)+", None)")
			} else {
				// ServiceFactory.Suite(name).String()
				s = append(s, "("+slit(v.Name)+", Some "+slit(suites.MustFind(v.RegWith).String())+")")
			}
		}
	}
	return lib.List(s)
}

func strOr(p *string) string {
	if p == nil {
		return ""
	}
	return *p
}

// does the server's public key text parse in the suite that will be used?
func serverPub(kt *keyTab, s serverIn) (known bool, pub string) {
	t := keyTypeOfSuite(s.Suite)
	if t < 0 {
		return false, "None"
	}
	if s.BadPub || t != getKey(s.Key).typ {
		return true, "None"
	}
	return true, fmt.Sprintf("(Some %d)", kt.pos[s.Key])
}

func run(raw json.RawMessage) lib.Case {
	var in input
	if err := json.Unmarshal(raw, &in); err != nil {
		panic(err)
	}
	if in.Parses == 0 {
		in.Parses = 25
	}
	if in.Kind == "rosterfile" {
		return runRosterFile(&in, raw)
	}
	dir, err := ioutil.TempDir("", "verif-c18")
	if err != nil {
		return lib.Case{Discard: true}
	}
	defer os.RemoveAll(dir)
	o := parseAll(&in, dir, in.Parses, true)
	var parses obsSet
	for _, r := range o.Parses {
		parses.add(r)
	}
	// fresh processes that registered the services in other orders than this one
	for k, ord := range []string{"reverse", "byname-desc", "rotate"} {
		child := in
		child.RegOrder = ord
		child.Resolver = []string{"a", "b", "fail"}[k]
		craw, _ := json.Marshal(child)
		f := freshProcess(craw)
		for _, r := range f.Parses {
			parses.add(r)
		}
	}
	o.Parses = parses.list()

	kt := newKeyTab(&in)
	parsesC := coqResults(kt, o.Parses)
	rtC := coqResults(kt, o.RoundTrip)
	var h256, u [][2]string
	seen := map[string]bool{}
	oracleOf(o.Parses, &h256, &u, seen)
	oracleOf(o.RoundTrip, &h256, &u, seen)

	var coq string
	if in.Kind == "group" {
		srv := make([]string, len(in.Servers))
		for i, s := range in.Servers {
			known, pub := serverPub(kt, s)
			sv := make([]string, len(s.Services))
			for j, v := range s.Services {
				sv[j] = coqSvc(kt, v, false)
			}
			suiteName := s.Suite
			if suiteName == "" {
				suiteName = "Ed25519"
			}
			srv[i] = fmt.Sprintf("(ISrv %s %s %s %s %s %s %s)", slit(s.Addr), slit(suiteName), lib.Bool(known), pub,
				slit(strOr(s.Desc)), slit(strOr(s.URL)), lib.List(sv))
		}
		ws := suiteOfType(0)
		if len(in.Servers) > 0 && keyTypeOfSuite(in.Servers[0].Suite) >= 0 {
			ws = suites.MustFind(suiteOfType(keyTypeOfSuite(in.Servers[0].Suite))).String()
		}
		coq = fmt.Sprintf("CGroup %s %s %s %s %s\n    %s\n    %s %s", "KT", coqRegistry(&in), lib.List(srv), slit(ws),
			parsesC, rtC, coqPairs(h256), coqPairs(u))
	} else {
		s := in.Servers[0]
		known, pub := serverPub(kt, s)
		priv := "None"
		if !s.BadPriv {
			b, _ := getKey(s.Key).priv.MarshalBinary()
			priv = "(Some " + lit(b) + ")"
		}
		sv := make([]string, len(s.Services))
		for j, v := range s.Services {
			sv[j] = coqSvc(kt, v, true)
		}
		a := network.Address(s.Addr)
		port := "None"
		if p, err := strconv.Atoi(a.Port()); err == nil {
			port = fmt.Sprintf("(Some (%d)%%Z)", p)
		}
		coq = fmt.Sprintf("CPrivate %s %s (ICo %s %s %s %s %s %s %s %s %s %s) %s\n    %s\n    %s %s", "KT", coqRegistry(&in),
			lib.Bool(known), pub, priv, slit(s.Addr), slit(a.Host()), port, slit(strOr(s.Desc)), slit(strOr(s.URL)), slit(s.TLSKey),
			lib.List(sv), parsesC, rtC, coqPairs(h256), coqPairs(u))
	}
	coq = strings.Replace(coq, "KT", kt.coq(), 1)
	small := o
	if len(small.Parses) > 4 {
		small.Parses = small.Parses[:4]
	}
	if len(small.RoundTrip) > 2 {
		small.RoundTrip = small.RoundTrip[:2]
	}
	type obsOut struct {
		DistinctParses    int         `json:"distinct_parse_results"`
		DistinctRoundTrip int         `json:"distinct_roundtrip_results"`
		Sample            observation `json:"sample"`
	}
	return lib.Case{Coq: coq, Class: in.Kind + "-" + in.Label,
		Obs:        obsOut{len(o.Parses), len(o.RoundTrip), small},
		Nontrivial: len(in.Servers) > 0}
}

// runRosterFile: the observation is taken in two fresh processes (the helpers under
// test end the process on some failures; a process that dies is the result "died")
func runRosterFile(in *input, raw []byte) lib.Case {
	var reads obsSet
	for p := 0; p < 2; p++ {
		for _, r := range freshProcess(raw).Parses {
			reads.add(r)
		}
	}
	ro, _ := rosterFileRoster(in)
	kt := newKeyTab(in)
	ids := make([]string, len(in.Servers))
	for i, s := range in.Servers {
		sv := make([]string, len(s.Services))
		for j, v := range s.Services {
			sv[j] = fmt.Sprintf("(OS %s %s %d None)", slit(v.Name), slit(suites.MustFind(v.Suite).String()), kt.pos[v.Key])
		}
		ids[i] = fmt.Sprintf("(OI %d None %s %s %s %s)", kt.pos[s.Key], slit(s.Addr), slit(strOr(s.Desc)), slit(strOr(s.URL)), lib.List(sv))
	}
	rs := reads.list()
	readsC := coqResults(kt, rs)
	coq := fmt.Sprintf("CRosterFile KT %s %s\n    %s", lit(ro.ID[:]), lib.List(ids), readsC)
	coq = strings.Replace(coq, "KT", kt.coq(), 1)
	small := rs
	if len(small) > 3 {
		small = small[:3]
	}
	type obsOut struct {
		Stored   string   `json:"stored_id"`
		Distinct int      `json:"distinct_results"`
		Sample   []result `json:"sample"`
	}
	return lib.Case{Coq: coq, Class: in.Kind + "-" + in.Label,
		Obs: obsOut{hex.EncodeToString(ro.ID[:]), len(rs), small}, Nontrivial: true}
}

func main() {
	log.SetDebugVisible(0)
	if len(os.Args) > 1 && os.Args[1] == "-c18child" {
		childMain()
		return
	}
	lib.Main(lib.Harness{
		Prop:   "C18",
		Import: "Onet.Corr.C18",
		Rule: "one evaluation = one generated private.toml / group.toml: printed with its service entries in two orders, each text parsed `parses` times by the real readers " +
			"in-process and 2 x 4 times in each of three fresh sub-processes that registered the services in other orders (reverse, by name descending, rotated) and run with other host-name resolvers (two fixed answers, one that fails), the first result written back by the real writer to a new path and over a longer and a shorter previous file, and re-read; " +
			"the observation is the set of distinct results; non-trivial = at least one server",
		Shard:    12,
		Generate: generate,
		Run:      run,
		Corpus:   corpus,
	})
}
