package main

import (
	"fmt"
	"math/rand"
)

var svcSuites = []string{"Ed25519", "P256", "bn256.G1", "bn256.G2", "bn256.adapter"}

func sp(s string) *string { return &s }

var addrs = []string{"tcp://10.0.0.1:2000", "tls://10.0.0.2:7770", "local://127.0.0.1:2000", "tls://conode.example.org:443",
	"tcp://[::1]:2002", "tls://[2001:db8::1]:7000", "tcp://10.0.0.1:65535", "tls://10.0.0.3",
	"tls://localhost:7770", "tls://no-such-host.invalid:7770"}

var descs = []string{"a conode", "", "Nikkolasg's server: spreading the love of singing", "quote \" backslash \\ done",
	"unicode: é 名前 ✓", "line\nbreak", "# not a comment", "Description of your server"}

var urls = []string{"https://conode.example.org/path", "http://10.0.0.1:7771", "", "https://[::1]:2003", "https://Conode.Example.ORG/Path?Q=1"}

var svcNames = []string{"Skipchain", "ByzCoin", "Calypso", "a", "b", "c", "svc-1", "svc_2", "Zeta", "alpha", "Alpha", "10",
	"with.dot", "with space", "ünï"}

// a service entry whose key fits the suite it is registered with
func goodSvc(rng *rand.Rand, name string, used map[int]bool, private bool) svcIn {
	su := svcSuites[rng.Intn(len(svcSuites))]
	v := svcIn{Name: name, Suite: su, RegWith: su, Key: freshKey(rng, keyTypeOfSuite(su), used)}
	if private && rng.Intn(4) != 0 {
		v.Priv = "ok"
	}
	return v
}

func freshKey(rng *rand.Rand, typ int, used map[int]bool) int {
	for {
		k := typ*1000 + 100 + rng.Intn(60)
		if !used[k] {
			used[k] = true
			return k
		}
	}
}

func pickNames(rng *rand.Rand, n int) []string {
	p := rng.Perm(len(svcNames))
	out := make([]string, n)
	for i := range out {
		out[i] = svcNames[p[i]]
	}
	return out
}

func randomServer(rng *rand.Rand, typ int, used map[int]bool, nsvc int, private bool) serverIn {
	s := serverIn{Addr: addrs[rng.Intn(len(addrs))], Suite: suiteNames[typ], Key: freshKey(rng, typ, used)}
	if typ == 0 && rng.Intn(3) == 0 {
		s.Suite = "" // the default
	}
	if rng.Intn(5) != 0 {
		s.Desc = sp(descs[rng.Intn(len(descs))])
	}
	if rng.Intn(2) == 0 {
		s.URL = sp(urls[rng.Intn(len(urls))])
	}
	for _, n := range pickNames(rng, nsvc) {
		s.Services = append(s.Services, goodSvc(rng, n, used, private))
	}
	return s
}

// make the registry consistent: one registration per service name across servers
func unifyRegistry(in *input, rng *rand.Rand, used map[int]bool) {
	reg := map[string]string{}
	for si := range in.Servers {
		for vi := range in.Servers[si].Services {
			v := &in.Servers[si].Services[vi]
			if r, ok := reg[v.Name]; ok {
				if v.RegWith != r && r != "" && r != "nil" {
					// same service on another server: same suite, own key
					v.RegWith, v.Suite = r, r
					v.Key = freshKey(rng, keyTypeOfSuite(r), used)
				} else {
					v.RegWith = r
				}
			} else {
				reg[v.Name] = v.RegWith
			}
		}
	}
}

// the Coq side tries every combination of visiting orders of the Services maps:
// keep the product of the factorials small by dropping entries of the last servers
func capOrders(in *input, max int) {
	fact := func(n int) int {
		f := 1
		for i := 2; i <= n; i++ {
			f *= i
		}
		return f
	}
	for {
		p := 1
		for _, s := range in.Servers {
			p *= fact(len(s.Services))
		}
		if p <= max {
			return
		}
		// shorten the longest list that is not the first server's, else the first's
		best := -1
		for i := len(in.Servers) - 1; i >= 1; i-- {
			if len(in.Servers[i].Services) >= 2 && (best < 0 || len(in.Servers[i].Services) > len(in.Servers[best].Services)) {
				best = i
			}
		}
		if best < 0 {
			best = 0
		}
		sv := in.Servers[best].Services
		in.Servers[best].Services = sv[:len(sv)-1]
	}
}

func generate(rng *rand.Rand, tier string) []interface{} {
	quick := tier == "quick"
	var ins []interface{}
	add := func(in input) {
		ins = append(ins, in)
	}
	rounds := 14
	if !quick {
		rounds = 240
	}
	for r := 0; r < rounds; r++ {
		for _, kind := range []string{"group", "private"} {
			private := kind == "private"
			maxServers := 4
			if private {
				maxServers = 1
			}
			mk := func(label string, nsvc func() int, mutate func(in *input, used map[int]bool)) {
				used := map[int]bool{}
				typ := 0
				if rng.Intn(3) == 0 {
					typ = rng.Intn(4)
				}
				in := input{Kind: kind, Label: label}
				n := 1 + rng.Intn(maxServers)
				for i := 0; i < n; i++ {
					in.Servers = append(in.Servers, randomServer(rng, typ, used, nsvc(), private))
				}
				if private && rng.Intn(3) == 0 {
					in.Servers[0].TLSKey = "string://key"
				}
				unifyRegistry(&in, rng, used)
				if mutate != nil {
					mutate(&in, used)
				}
				capOrders(&in, 150)
				add(in)
			}
			mk("no-service", func() int { return 0 }, nil)
			mk("one-service", func() int { return rng.Intn(2) }, func(in *input, _ map[int]bool) {
				if len(in.Servers[0].Services) == 0 {
					in.Servers[0].Services = []svcIn{goodSvc(rng, "Solo", map[int]bool{}, private)}
				}
			})
			mk("multi-service", func() int { return 2 + rng.Intn(3) }, nil)
			mk("ignored-services", func() int { return 1 + rng.Intn(3) }, func(in *input, used map[int]bool) {
				// at most one recognised entry per server remains
				for si := range in.Servers {
					for vi := range in.Servers[si].Services {
						if vi == 0 && rng.Intn(2) == 0 {
							continue
						}
						v := &in.Servers[si].Services[vi]
						v.Name = fmt.Sprintf("%s-x%d-%d", v.Name, si, vi)
						switch rng.Intn(4) {
						case 0:
							v.RegWith = "" // not registered
						case 1:
							v.RegWith = "nil" // registered without suite
						case 2:
							v.BadPub = true
						default:
							if private {
								v.Priv = "bad"
							} else {
								v.BadPub = true
							}
						}
					}
				}
			})
			mk("suite-mismatch", func() int { return 1 + rng.Intn(2) }, func(in *input, _ map[int]bool) {
				s := &in.Servers[rng.Intn(len(in.Servers))]
				v := &s.Services[rng.Intn(len(s.Services))]
				v.Name = v.Name + "-mm"
				for {
					w := svcSuites[rng.Intn(len(svcSuites))]
					if w != v.RegWith {
						v.Suite = w
						break
					}
				}
			})
			mk("malformed", func() int { return rng.Intn(2) }, func(in *input, _ map[int]bool) {
				s := &in.Servers[rng.Intn(len(in.Servers))]
				switch rng.Intn(3) {
				case 0:
					s.BadPub = true
				case 1:
					s.Suite = "NoSuchSuite"
				default:
					if private {
						s.BadPriv = true
					} else {
						s.BadPub = true
					}
				}
			})
		}
	}
	// private: the URL rule with a TLS key
	for _, a := range addrs {
		for _, u := range []*string{nil, sp(""), sp("http://conode.example.org:7771")} {
			add(input{Kind: "private", Label: "no-service", Servers: []serverIn{{Addr: a, Suite: "Ed25519", Key: 7, Desc: sp("tls"), URL: u, TLSKey: "string://key"}}})
		}
	}
	// group: optional fields absent / present
	for _, d := range []*string{nil, sp(""), sp("x")} {
		for _, u := range []*string{nil, sp(""), sp("https://x.example.org")} {
			add(input{Kind: "group", Label: "no-service", Servers: []serverIn{{Addr: addrs[0], Suite: "", Key: 8, Desc: d, URL: u}, {Addr: addrs[1], Suite: "Ed25519", Key: 9, Desc: sp("second")}}})
		}
	}
	add(input{Kind: "group", Label: "malformed", Servers: []serverIn{}})
	// roster files: Roster.Toml + WriteTomlConfig, ReadTomlConfig + RosterToml.Roster
	nrf := 6
	if !quick {
		nrf = 40
	}
	for r := 0; r < nrf; r++ {
		for _, label := range []string{"bare", "bare-handset", "full", "full-handset"} {
			used := map[int]bool{}
			typ := 0
			if rng.Intn(3) == 0 {
				typ = rng.Intn(4)
			}
			in := input{Kind: "rosterfile", Label: label}
			n := 1 + rng.Intn(4)
			for i := 0; i < n; i++ {
				s := serverIn{Addr: addrs[rng.Intn(len(addrs))], Suite: suiteNames[typ], Key: freshKey(rng, typ, used)}
				if label == "full" || label == "full-handset" {
					if i == 0 || rng.Intn(2) == 0 {
						for _, nm := range pickNames(rng, 1+rng.Intn(2)) {
							s.Services = append(s.Services, goodSvc(rng, nm, used, false))
						}
					}
					if rng.Intn(2) == 0 {
						s.Desc = sp(descs[rng.Intn(len(descs))])
					}
					if rng.Intn(3) == 0 {
						s.URL = sp(urls[rng.Intn(len(urls))])
					}
				}
				in.Servers = append(in.Servers, s)
			}
			if label == "bare-handset" || label == "full-handset" {
				b := make([]byte, 16)
				rng.Read(b)
				in.StoredID = fmt.Sprintf("%x", b)
			}
			add(in)
		}
	}
	return ins
}

func corpus() []interface{} {
	return []interface{}{
		// regression (passes on the pinned code): TLS key, no URL, address given by NAME -- the
		// URL is built from the written host name, whatever the reading process resolves it to
		input{Kind: "private", Label: "no-service", Servers: []serverIn{{Addr: "tls://localhost:7770", Suite: "Ed25519", Key: 7,
			Desc: sp("by name"), TLSKey: "string://key"}}},
		// a roster file has no place for per-service keys (format limitation, observation): they are
		// expected NOT to come back; the written ID field must
		input{Kind: "rosterfile", Label: "full", Servers: []serverIn{{
			Addr: "tls://10.0.0.1:7770", Suite: "Ed25519", Key: 1,
			Services: []svcIn{{Name: "Skipchain", Suite: "Ed25519", RegWith: "Ed25519", Key: 101}}}}},
		// regression (passes on the pinned code): an id that is not the derived one survives the file
		input{Kind: "rosterfile", Label: "bare-handset", StoredID: "0123456789abcdef0123456789abcdef", Servers: []serverIn{
			{Addr: "tls://10.0.0.1:7770", Suite: "Ed25519", Key: 1}, {Addr: "tcp://10.0.0.2:2000", Suite: "Ed25519", Key: 2}}},
		// F20: three per-service keys on one server
		input{Kind: "group", Label: "multi-service", Parses: 50, Servers: []serverIn{{
			Addr: "tls://10.0.0.1:7770", Suite: "Ed25519", Key: 1, Desc: sp("three services"),
			Services: []svcIn{
				{Name: "Skipchain", Suite: "Ed25519", RegWith: "Ed25519", Key: 101},
				{Name: "ByzCoin", Suite: "bn256.adapter", RegWith: "bn256.adapter", Key: 3101},
				{Name: "Calypso", Suite: "Ed25519", RegWith: "Ed25519", Key: 102},
			}}}},
		input{Kind: "private", Label: "multi-service", Parses: 50, Servers: []serverIn{{
			Addr: "tls://10.0.0.1:7770", Suite: "Ed25519", Key: 1, Desc: sp("three services"),
			Services: []svcIn{
				{Name: "Skipchain", Suite: "Ed25519", RegWith: "Ed25519", Key: 101, Priv: "ok"},
				{Name: "ByzCoin", Suite: "bn256.adapter", RegWith: "bn256.adapter", Key: 3101, Priv: "ok"},
				{Name: "Calypso", Suite: "Ed25519", RegWith: "Ed25519", Key: 102, Priv: "ok"},
			}}}},
	}
}
