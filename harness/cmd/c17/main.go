// C17 harness: runs histories of set / replace / read operations on the
// valid-peer sets of a REAL filtering server (a bare network.Router on plain
// TCP, TLS or the in-memory transport, or a full onet.Server whose sets are
// driven through the router AND through the contexts of two harness services),
// interleaved with connection attempts and sends by members and non-members:
//
//   - raw connections built by the harness (open, send an identity message whose
//     deprecated ID field may be honest, forged, zero or garbage, send messages),
//   - real peer routers (network.Router.Send -> connect), and in server modes a
//     peer that is itself an onet.Server sending through its service context.
//
// Observables: the dispatch log of the filtering server (which message, attributed
// to which identity), the outcome of each connection attempt as seen by the peer
// (probe dispatched / connection closed by the server), the sorted read-back sets.
// They are written as a Coq term of type Onet.Corr.C17.case.
package main

import (
	"crypto/sha256"
	"encoding/json"
	"fmt"
	"math/rand"
	"os"
	"sort"
	"strings"
	"sync"
	"sync/atomic"
	"time"

	"go.dedis.ch/kyber/v3/suites"
	"go.dedis.ch/kyber/v3/util/key"
	"go.dedis.ch/onet/v3"
	"go.dedis.ch/onet/v3/log"
	"go.dedis.ch/onet/v3/network"

	"verifharness/lib"
)

var suite = suites.MustFind("Ed25519")

// ---------------------------------------------------------------- input ----

type identIn struct {
	Key  int `json:"key"`
	Decl int `json:"decl"` // -1 honest; else canonical id: 0 nil uuid, k+1 id of key k, >=1000 garbage
}

type srcIn struct {
	Svc  int   `json:"svc"` // -1: network.NewPeerSetID(data); >=0: context of service svc .NewPeerSetID(data)
	Data []int `json:"data"`
}

type opIn struct {
	Kind  string    `json:"kind"`            // set get offer junk msg close psend pdrop
	Entry int       `json:"entry,omitempty"` // set/get: 0 router method, 1+svc: context wrapper of service svc
	Src   *srcIn    `json:"src,omitempty"`
	Peers []identIn `json:"peers,omitempty"`
	Ident *identIn  `json:"ident,omitempty"`
	Conn  int       `json:"conn,omitempty"`
	Msg   int       `json:"msg,omitempty"`
	Peer  int       `json:"peer,omitempty"`
	// set: pass a NIL member list (only meaningful with no peers) instead of an empty one
	NilPeers bool `json:"nilpeers,omitempty"`
	// set: this and the following Group-1 set operations (pairwise DIFFERENT set ids) are
	// issued concurrently, released from a barrier, Trials times; in trial t every member
	// list is shifted by Trials-1-t over the key pool, so the last trial sets exactly Peers
	Group  int `json:"group,omitempty"`
	Trials int `json:"trials,omitempty"`
}

type input struct {
	Mode   string `json:"mode"`   // router-tcp router-tls router-local server-tcp server-local
	Flavor string `json:"flavor"` // honest forged stale mixed
	NKeys  int    `json:"nkeys"`
	// in server modes, psend of this peer goes through an onet.Server's service context (-1: none)
	CtxPeer int    `json:"ctxpeer"`
	Ops     []opIn `json:"ops"`
}

// ---------------------------------------------------------------- keys -----

var keyPool []*key.Pair

func kp(i int) *key.Pair {
	for len(keyPool) <= i {
		keyPool = append(keyPool, key.NewKeyPair(suite))
	}
	return keyPool[i]
}

// C17Msg is the message type whose dispatch is logged.
type C17Msg struct {
	Conn int64
	Seq  int64
}

var c17MsgType = network.RegisterMessage(&C17Msg{})

// ---------------------------------------------------------------- services -

var svcNames = []string{"C17SvcA", "C17SvcB"}

type hsvc struct {
	*onet.ServiceProcessor
}

var ctxMu sync.Mutex
var ctxOf = map[string]*onet.Context{} // server id + "/" + service name

func init() {
	for _, n := range svcNames {
		name := n
		_, err := onet.RegisterNewService(name, func(c *onet.Context) (onet.Service, error) {
			ctxMu.Lock()
			ctxOf[c.ServerIdentity().GetID().String()+"/"+name] = c
			ctxMu.Unlock()
			return &hsvc{onet.NewServiceProcessor(c)}, nil
		})
		if err != nil {
			panic(err)
		}
	}
}

func ctxFor(si *network.ServerIdentity, svc int) *onet.Context {
	ctxMu.Lock()
	defer ctxMu.Unlock()
	return ctxOf[si.GetID().String()+"/"+svcNames[svc]]
}

// ---------------------------------------------------------------- world ----

type dispEv struct {
	Conn, Seq int64
	Key       string
	ID        network.ServerIdentityID
}

type world struct {
	mode      string
	transport string // tcp tls local
	// the filtering server
	router *network.Router
	srv    *onet.Server
	lt     *onet.LocalTest
	lm     *network.LocalManager
	si     *network.ServerIdentity

	mu   sync.Mutex
	log  []dispEv
	wake chan struct{}

	nkeys   int
	pubs    []string                   // key index -> Public.String()
	ids     []network.ServerIdentityID // key index -> GetID()
	peerSI  []*network.ServerIdentity
	ctxPeer int
	ctxSrv  *onet.Server

	eff     []opIn // the operations as executed (member lists of the reported trial of a concurrent group)
	trials  int    // concurrent trials run
	raw     map[int]*rawConn
	routers map[int]*network.Router
	closers []func()
}

type rawConn struct {
	c        network.Conn
	eof      chan struct{}
	accepted bool
	closed   bool
}

var portCtr = 0

func (w *world) disp(env *network.Envelope) error {
	m, ok := env.Msg.(*C17Msg)
	if !ok {
		return nil
	}
	ev := dispEv{Conn: m.Conn, Seq: m.Seq}
	if env.ServerIdentity != nil {
		if env.ServerIdentity.Public != nil {
			ev.Key = env.ServerIdentity.Public.String()
		}
		ev.ID = env.ServerIdentity.ID
	}
	w.mu.Lock()
	w.log = append(w.log, ev)
	close(w.wake)
	w.wake = make(chan struct{})
	w.mu.Unlock()
	return nil
}

func (w *world) find(conn, seq int64) (dispEv, bool, chan struct{}) {
	w.mu.Lock()
	defer w.mu.Unlock()
	for _, e := range w.log {
		if e.Conn == conn && e.Seq == seq {
			return e, true, nil
		}
	}
	return dispEv{}, false, w.wake
}

func peerAddr(transport string, k int) network.Address {
	switch transport {
	case "tls":
		return network.NewTLSAddress(fmt.Sprintf("127.0.0.1:%d", 7100+k))
	case "local":
		return network.NewLocalAddress(fmt.Sprintf("127.0.0.1:%d", 7100+k))
	}
	return network.NewTCPAddress(fmt.Sprintf("127.0.0.1:%d", 7100+k))
}

func waitListening(r *network.Router) bool {
	for i := 0; i < 5000; i++ {
		if r.Listening() {
			return true
		}
		time.Sleep(time.Millisecond)
	}
	return false
}

func newWorld(in *input) (w *world, err error) {
	defer func() {
		if r := recover(); r != nil {
			err = fmt.Errorf("setup panic: %v", r)
		}
	}()
	w = &world{mode: in.Mode, nkeys: in.NKeys, wake: make(chan struct{}), raw: map[int]*rawConn{},
		routers: map[int]*network.Router{}, ctxPeer: -1}
	parts := strings.SplitN(in.Mode, "-", 2)
	w.transport = parts[1]
	server := parts[0] == "server"
	if server {
		switch w.transport {
		case "tcp":
			w.lt = onet.NewTCPTest(suite)
			w.lt.Check = onet.CheckNone
			n := 1
			if in.CtxPeer >= 0 {
				n = 2
			}
			srvs := w.lt.GenServers(n)
			w.srv = srvs[0]
			if n == 2 {
				w.ctxSrv = srvs[1]
				w.ctxPeer = in.CtxPeer
			}
		case "local":
			portCtr++
			w.srv = onet.NewLocalServer(suite, 20000+portCtr*10%20000)
			w.closers = append(w.closers, func() { w.srv.Close() })
			if in.CtxPeer >= 0 {
				portCtr++
				w.ctxSrv = onet.NewLocalServer(suite, 20000+portCtr*10%20000)
				w.closers = append(w.closers, func() { w.ctxSrv.Close() })
				w.ctxPeer = in.CtxPeer
			}
		default:
			return nil, fmt.Errorf("bad mode")
		}
		w.router = w.srv.Router
		w.si = w.srv.ServerIdentity
	} else {
		pair := key.NewKeyPair(suite)
		var h network.Host
		switch w.transport {
		case "tcp", "tls":
			addr := network.NewTCPAddress("127.0.0.1:0")
			if w.transport == "tls" {
				addr = network.NewTLSAddress("127.0.0.1:0")
			}
			si := network.NewServerIdentity(pair.Public, addr)
			si.SetPrivate(pair.Private)
			th, err := network.NewTCPHost(si, suite)
			if err != nil {
				return nil, err
			}
			si.Address = network.NewAddress(addr.ConnType(), "127.0.0.1:"+th.Address().Port())
			w.si = si
			h = th
		case "local":
			w.lm = network.NewLocalManager()
			addr := network.NewLocalAddress("127.0.0.1:2000")
			si := network.NewServerIdentity(pair.Public, addr)
			lh, err := network.NewLocalHostWithManager(w.lm, addr, suite)
			if err != nil {
				return nil, err
			}
			w.si = si
			h = lh
		default:
			return nil, fmt.Errorf("bad mode")
		}
		w.router = network.NewRouter(w.si, h)
		w.router.UnauthOk = true
		w.router.Quiet = true
		go w.router.Start()
		if !waitListening(w.router) {
			return nil, fmt.Errorf("router does not listen")
		}
	}
	w.router.RegisterProcessorFunc(c17MsgType, w.disp)
	for k := 0; k < in.NKeys; k++ {
		var si *network.ServerIdentity
		if k == w.ctxPeer {
			si = w.ctxSrv.ServerIdentity
		} else {
			si = network.NewServerIdentity(kp(k).Public, peerAddr(w.transport, k))
			si.SetPrivate(kp(k).Private)
		}
		w.peerSI = append(w.peerSI, si)
		w.pubs = append(w.pubs, si.Public.String())
		w.ids = append(w.ids, si.GetID())
	}
	return w, nil
}

func (w *world) close() {
	for _, rc := range w.raw {
		if !rc.closed {
			rc.c.Close()
		}
	}
	for _, r := range w.routers {
		r.Stop()
	}
	if w.lt != nil {
		w.lt.CloseAll()
	} else if w.srv != nil {
		for _, f := range w.closers {
			f()
		}
	} else {
		w.router.Stop()
		if w.lm != nil {
			w.lm.Stop()
		}
	}
}

// canonical id numbers ---------------------------------------------------

func garbageID(n int) network.ServerIdentityID {
	var id network.ServerIdentityID // a [16]byte
	h := sha256.Sum256([]byte(fmt.Sprintf("c17-garbage-%d", n)))
	copy(id[:], h[:])
	return id
}

func (w *world) idOfCanon(n int) network.ServerIdentityID {
	switch {
	case n == 0:
		return network.ServerIdentityID{}
	case n >= 1 && n <= w.nkeys:
		return w.ids[n-1]
	}
	return garbageID(n)
}

func (w *world) canonOfID(id network.ServerIdentityID) int {
	if id.IsNil() {
		return 0
	}
	for k, x := range w.ids {
		if x.Equal(id) {
			return k + 1
		}
	}
	for n := 1000; n < 1010; n++ {
		if garbageID(n).Equal(id) {
			return n
		}
	}
	return 9999
}

func (w *world) keyOfPub(s string) int {
	for k, x := range w.pubs {
		if x == s {
			return k
		}
	}
	return 9998
}

func (w *world) declOf(i identIn) int {
	if i.Decl < 0 {
		return i.Key + 1
	}
	return i.Decl
}

// an identity as a caller / a dialling peer would hold it: same key and address
// as the peer's real identity, ID field as requested
func (w *world) mkIdent(i identIn) *network.ServerIdentity {
	base := w.peerSI[i.Key]
	si := &network.ServerIdentity{
		Public:      base.Public,
		Address:     base.Address,
		Description: base.Description,
		ID:          w.idOfCanon(w.declOf(i)),
	}
	return si
}

// ---------------------------------------------------------------- run ------

const dispWait = 4 * time.Second

type outc struct {
	Kind string `json:"k"` // unit got accept refuse disp none
	Nil  bool   `json:"nil,omitempty"`
	Set  []int  `json:"set,omitempty"`
	Key  int    `json:"key,omitempty"`
	Decl int    `json:"decl,omitempty"`
	Msg  string `json:"msg,omitempty"`
}

func errClass(err error) string {
	s := err.Error()
	if len(s) > 80 {
		s = s[:80]
	}
	return s
}

func (o outc) coq() string {
	switch o.Kind {
	case "unit":
		return "XUnit"
	case "got":
		if o.Nil {
			return "(XGot None)"
		}
		return "(XGot (Some " + lib.NatList(o.Set) + "))"
	case "accept":
		return "XAccept"
	case "refuse":
		return "XRefuse"
	case "disp":
		return fmt.Sprintf("(XDisp %d %d)", o.Key, o.Decl)
	case "broken":
		return "XBroken"
	}
	return "XNone"
}

func (w *world) peerSetID(s *srcIn) (network.PeerSetID, bool) {
	data := make([]byte, len(s.Data))
	for i, b := range s.Data {
		data[i] = byte(b)
	}
	if s.Svc < 0 {
		return network.NewPeerSetID(data), true
	}
	if w.srv == nil {
		return network.PeerSetID{}, false
	}
	c := ctxFor(w.si, s.Svc)
	if c == nil {
		return network.PeerSetID{}, false
	}
	return c.NewPeerSetID(data), true
}

// waitDisp waits until message (conn,seq) is in the dispatch log, or stop is
// closed, or the deadline passes.
func (w *world) waitDisp(conn, seq int64, stop <-chan struct{}, d time.Duration) (dispEv, bool, bool) {
	deadline := time.After(d)
	for {
		ev, ok, wake := w.find(conn, seq)
		if ok {
			return ev, true, false
		}
		select {
		case <-wake:
		case <-stop:
			// closed by the server: the probe may still have been dispatched just before
			ev, ok, _ := w.find(conn, seq)
			return ev, ok, false
		case <-deadline:
			return dispEv{}, false, true
		}
	}
}

// waitSendOutcome waits for the outcome of a Send of a real router towards the
// filtering server: the message is in the dispatch log (accepted), or the sending
// router holds no connection any more (every connection it opened -- Send may
// retry once -- was closed by the server, i.e. the server has finished with all
// of them), or the deadline passes.
func (w *world) waitSendOutcome(conn, seq int64, r *network.Router) (dispEv, bool, bool) {
	deadline := time.Now().Add(dispWait)
	for {
		if ev, ok, _ := w.find(conn, seq); ok {
			return ev, true, false
		}
		if r.VerifConnCount() == 0 {
			ev, ok, _ := w.find(conn, seq)
			return ev, ok, false
		}
		if time.Now().After(deadline) {
			return dispEv{}, false, true
		}
		time.Sleep(200 * time.Microsecond)
	}
}

func (w *world) openRaw(k int) (network.Conn, error) {
	switch w.transport {
	case "tcp":
		return network.NewTCPConn(w.si.Address, suite)
	case "tls":
		return network.NewTLSConn(w.peerSI[k], w.si, suite)
	}
	var lh *network.LocalHost
	var err error
	if w.lm != nil {
		lh, err = network.NewLocalHostWithManager(w.lm, peerAddr("local", k), suite)
	} else {
		lh, err = network.NewLocalHost(peerAddr("local", k), suite)
	}
	if err != nil {
		return nil, err
	}
	return lh.Connect(w.si)
}

func (w *world) newPeerRouter(p int) (*network.Router, error) {
	si := network.NewServerIdentity(w.peerSI[p].Public, w.peerSI[p].Address)
	si.SetPrivate(w.peerSI[p].GetPrivate())
	var h network.Host
	switch w.transport {
	case "tcp", "tls":
		addr := network.NewTCPAddress("127.0.0.1:0")
		if w.transport == "tls" {
			addr = network.NewTLSAddress("127.0.0.1:0")
		}
		si.Address = addr
		th, err := network.NewTCPHost(si, suite)
		if err != nil {
			return nil, err
		}
		h = th
	default:
		var lh *network.LocalHost
		var err error
		if w.lm != nil {
			lh, err = network.NewLocalHostWithManager(w.lm, si.Address, suite)
		} else {
			lh, err = network.NewLocalHost(si.Address, suite)
		}
		if err != nil {
			return nil, err
		}
		h = lh
	}
	r := network.NewRouter(si, h)
	r.UnauthOk = true
	r.Quiet = true
	return r, nil
}

// mkPeers: the member list handed to SetValidPeers; nil and empty are different inputs
func (w *world) mkPeers(op opIn) []*network.ServerIdentity {
	if op.NilPeers && len(op.Peers) == 0 {
		return nil
	}
	peers := make([]*network.ServerIdentity, len(op.Peers))
	for i, p := range op.Peers {
		peers[i] = w.mkIdent(p)
	}
	return peers
}

// runGroup: ops are set operations on pairwise different set ids.  Trials times they are
// issued concurrently (one goroutine each, spinning on a common flag); after each trial
// the sets are read back; the trials stop at the first trial whose read-back is not what
// was just set (that trial is then the one reported) or after the last one.  Only the
// reported trial appears in the history: the operations of a trial overwrite those of all
// earlier trials, and set operations on different ids commute (c17_sets_on_different_ids_commute),
// so the model runs them in index order.
func (w *world) runGroup(pos int, ops []opIn, trials int) []outc {
	type call struct {
		id  network.PeerSetID
		ctx *onet.Context
	}
	calls := make([]call, len(ops))
	for i, op := range ops {
		id, ok := w.peerSetID(op.Src)
		if !ok {
			panic(harnessBug("no context for a context-derived set id in a concurrent group"))
		}
		calls[i].id = id
		if op.Entry > 0 {
			calls[i].ctx = ctxFor(w.si, op.Entry-1)
			if calls[i].ctx == nil {
				panic(harnessBug("harness service has no context on the filtering server"))
			}
		}
		for j := 0; j < i; j++ {
			if calls[j].id == id {
				panic(harnessBug("concurrent group with a repeated set id"))
			}
		}
	}
	if trials < 1 {
		trials = 1
	}
	var crashed interface{}
	var cmu sync.Mutex
	for t := 0; t < trials; t++ {
		shift := trials - 1 - t
		lists := make([][]*network.ServerIdentity, len(ops))
		want := make([][]int, len(ops))
		for i, op := range ops {
			sh := op
			sh.Peers = make([]identIn, len(op.Peers))
			seen := map[int]bool{}
			for j, p := range op.Peers {
				sh.Peers[j] = p
				if p.Decl < 0 {
					sh.Peers[j].Key = (p.Key + shift) % w.nkeys
				}
				id := w.declOf(sh.Peers[j])
				if !seen[id] {
					seen[id] = true
					want[i] = append(want[i], id)
				}
			}
			sort.Ints(want[i])
			lists[i] = w.mkPeers(sh)
			w.eff[pos+i].Peers = sh.Peers
		}
		var flag int32
		var wg sync.WaitGroup
		for i := range ops {
			i := i
			wg.Add(1)
			go func() {
				defer wg.Done()
				defer func() {
					if r := recover(); r != nil {
						cmu.Lock()
						crashed = r
						cmu.Unlock()
					}
				}()
				for atomic.LoadInt32(&flag) == 0 {
				}
				switch {
				case calls[i].ctx != nil:
					calls[i].ctx.SetValidPeers(calls[i].id, lists[i])
				case w.srv != nil:
					w.srv.SetValidPeers(calls[i].id, lists[i])
				default:
					w.router.SetValidPeers(calls[i].id, lists[i])
				}
			}()
		}
		atomic.StoreInt32(&flag, 1)
		wg.Wait()
		w.trials++
		if crashed != nil {
			break
		}
		// read back (not part of the history: the history reads back with its own get operations)
		dev := false
		for i := range ops {
			got := w.router.GetValidPeers(calls[i].id)
			var g []int
			for _, x := range got {
				g = append(g, w.canonOfID(x))
			}
			sort.Ints(g)
			if got == nil || fmt.Sprint(g) != fmt.Sprint(want[i]) {
				dev = true
			}
		}
		if dev {
			break
		}
	}
	outs := make([]outc, len(ops))
	for i := range outs {
		outs[i] = outc{Kind: "unit"}
	}
	if crashed != nil {
		outs[0] = outc{Kind: "broken", Msg: fmt.Sprint("panic in a concurrent SetValidPeers: ", crashed)}
	}
	return outs
}

func (w *world) dispOut(ev dispEv) outc {
	return outc{Kind: "disp", Key: w.keyOfPub(ev.Key), Decl: w.canonOfID(ev.ID)}
}

type pending struct {
	idx       int
	conn, seq int64
}

// harnessBug is a panic that is the harness's own fault (malformed replay input, a
// service of the harness without context): it is never turned into an observation
// and never into a dropped case -- the process fails loudly.
type harnessBug string

// errDiscard: the only scenario that is dropped: the harness could not create one of
// its OWN peer routers (port binding).  Counted by the driver.
type errDiscard string

// runOps executes the history; returns the per-op outcomes.  A panic of the code under
// test, a connection attempt that is neither served nor closed within the deadline, a
// listener that cannot be reached any more: each is the OBSERVATION "broken" of that
// operation (model: never; checker: clause 9), not a dropped case.
func (w *world) runOps(in *input) (outs []outc, discard string) {
	var late []pending // ops observed "not dispatched": re-checked after the final barrier
	w.eff = append([]opIn{}, in.Ops...)
	for pos := 0; pos < len(in.Ops); pos++ {
		op := in.Ops[pos]
		if op.Kind == "set" && op.Group > 1 {
			k := op.Group
			if pos+k > len(in.Ops) {
				panic(harnessBug("concurrent group longer than the history"))
			}
			for _, g := range in.Ops[pos : pos+k] {
				if g.Kind != "set" {
					panic(harnessBug("concurrent group with a non-set operation"))
				}
			}
			outs = append(outs, w.runGroup(pos, in.Ops[pos:pos+k], op.Trials)...)
			pos += k - 1
			continue
		}
		var o outc
		func() {
			defer func() {
				if r := recover(); r != nil {
					switch x := r.(type) {
					case harnessBug:
						panic(x)
					case errDiscard:
						discard = string(x)
					default:
						o = outc{Kind: "broken", Msg: fmt.Sprint("panic: ", r)}
					}
				}
			}()
			o = w.oneOp(pos, op, &late)
		}()
		if discard != "" {
			return nil, discard
		}
		outs = append(outs, o)
	}
	// final barrier: everything of the peers is closed and the filtering server is
	// stopped (Stop waits for all handling routines), then the log is final.
	func() {
		defer func() {
			if r := recover(); r != nil && len(outs) > 0 {
				outs[len(outs)-1] = outc{Kind: "broken", Msg: fmt.Sprint("panic while stopping the server: ", r)}
			}
		}()
		w.close()
	}()
	for _, p := range late {
		if ev, ok, _ := w.find(p.conn, p.seq); ok && outs[p.idx].Kind == "none" {
			outs[p.idx] = w.dispOut(ev)
		}
	}
	return outs, ""
}

func (w *world) oneOp(pos int, op opIn, latep *[]pending) outc {
	{
		switch op.Kind {
		case "set", "get":
			id, ok := w.peerSetID(op.Src)
			if !ok {
				panic(harnessBug("no context for a context-derived set id (mode " + w.mode + ")"))
			}
			var ctx *onet.Context
			if op.Entry > 0 {
				if w.srv == nil {
					panic(harnessBug("context entry in a router mode"))
				}
				ctx = ctxFor(w.si, op.Entry-1)
				if ctx == nil {
					panic(harnessBug("harness service has no context on the filtering server"))
				}
			}
			if op.Kind == "set" {
				peers := w.mkPeers(op)
				if ctx != nil {
					ctx.SetValidPeers(id, peers)
				} else if w.srv != nil {
					w.srv.SetValidPeers(id, peers)
				} else {
					w.router.SetValidPeers(id, peers)
				}
				return outc{Kind: "unit"}
			} else {
				var got []network.ServerIdentityID
				if ctx != nil {
					got = ctx.GetValidPeers(id)
				} else if w.srv != nil {
					got = w.srv.GetValidPeers(id)
				} else {
					got = w.router.GetValidPeers(id)
				}
				o := outc{Kind: "got", Nil: got == nil, Set: []int{}}
				for _, g := range got {
					o.Set = append(o.Set, w.canonOfID(g))
				}
				sort.Ints(o.Set)
				return o
			}
		case "offer", "junk":
			k := 0
			if op.Ident != nil {
				k = op.Ident.Key
			}
			c, err := w.openRaw(k)
			if err != nil {
				// the listener cannot be reached (any more): an observation, not a dropped case
				return outc{Kind: "broken", Msg: "cannot open a connection to the server: " + errClass(err)}
			}
			rc := &rawConn{c: c, eof: make(chan struct{})}
			w.raw[pos] = rc
			go func() {
				for {
					if _, err := c.Receive(); err != nil {
						close(rc.eof)
						return
					}
				}
			}()
			if op.Kind == "offer" {
				c.Send(w.mkIdent(*op.Ident))
			}
			// probe (for "junk" it is the first message, i.e. not an identity)
			c.Send(&C17Msg{Conn: int64(pos), Seq: -1})
			_, ok, timeout := w.waitDisp(int64(pos), -1, rc.eof, dispWait)
			if timeout {
				return outc{Kind: "broken", Msg: "connection attempt neither served nor closed within the deadline"}
			}
			if ok {
				rc.accepted = true
				return outc{Kind: "accept"}
			} else {
				return outc{Kind: "refuse"}
			}
		case "msg":
			rc := w.raw[op.Conn]
			if rc == nil {
				return outc{Kind: "none"}
			}
			_, err := rc.c.Send(&C17Msg{Conn: int64(op.Conn), Seq: int64(pos)})
			if rc.accepted && !rc.closed && err == nil {
				ev, ok, _ := w.waitDisp(int64(op.Conn), int64(pos), rc.eof, dispWait)
				if ok {
					return w.dispOut(ev)
				}
			}
			*latep = append(*latep, pending{pos, int64(op.Conn), int64(pos)})
			return outc{Kind: "none"}
		case "close":
			if rc := w.raw[op.Conn]; rc != nil && !rc.closed {
				rc.c.Close()
				rc.closed = true
			}
			return outc{Kind: "unit"}
		case "psend":
			p := op.Peer
			conn, seq := int64(-1-p), int64(pos)
			msg := &C17Msg{Conn: conn, Seq: seq}
			if p == w.ctxPeer {
				// through the service context of a real onet.Server
				cx := ctxFor(w.ctxSrv.ServerIdentity, 0)
				if cx == nil {
					panic(harnessBug("harness service has no context on the sending server"))
				}
				cx.SendRaw(w.si, msg)
				ev, ok, timeout := w.waitSendOutcome(conn, seq, w.ctxSrv.Router)
				if ok {
					return w.dispOut(ev)
				}
				if timeout {
					return outc{Kind: "broken", Msg: "context send neither dispatched nor refused within the deadline"}
				}
				*latep = append(*latep, pending{pos, conn, seq})
				return outc{Kind: "none"}
			}
			r := w.routers[p]
			if r == nil {
				var err error
				r, err = w.newPeerRouter(p)
				if err != nil {
					panic(errDiscard("cannot create the harness's own peer router: " + err.Error()))
				}
				w.routers[p] = r
			}
			r.Send(w.si, msg)
			ev, ok, timeout := w.waitSendOutcome(conn, seq, r)
			if ok {
				return w.dispOut(ev)
			}
			if timeout {
				return outc{Kind: "broken", Msg: "peer send neither dispatched nor refused within the deadline"}
			}
			// refused: every connection this router opened (Send may retry once) has been
			// closed by the server and removed from the router's table
			*latep = append(*latep, pending{pos, conn, seq})
			return outc{Kind: "none"}
		case "pdrop":
			if r := w.routers[op.Peer]; r != nil {
				r.Stop()
				delete(w.routers, op.Peer)
			}
			return outc{Kind: "unit"}
		default:
			panic(harnessBug("unknown op " + op.Kind))
		}
	}
}

// ---------------------------------------------------------------- Coq ------

func coqIdent(w *world, i identIn) string {
	return fmt.Sprintf("(mkIdent %d %d)", i.Key, w.declOf(i))
}

func coqSrc(s *srcIn) string {
	if s.Svc < 0 {
		return "(DRaw " + lib.NatList(s.Data) + ")"
	}
	return fmt.Sprintf("(DCtx %d %s)", s.Svc, lib.NatList(s.Data))
}

func coqEntry(e int) string {
	if e == 0 {
		return "ERouter"
	}
	return fmt.Sprintf("(EContext %d)", e-1)
}

func coqOp(w *world, op opIn) string {
	switch op.Kind {
	case "set":
		ps := make([]string, len(op.Peers))
		for i, p := range op.Peers {
			ps[i] = coqIdent(w, p)
		}
		return fmt.Sprintf("OSet %s %s %s", coqEntry(op.Entry), coqSrc(op.Src), lib.List(ps))
	case "get":
		return fmt.Sprintf("OGet %s %s", coqEntry(op.Entry), coqSrc(op.Src))
	case "offer":
		return "OOffer " + coqIdent(w, *op.Ident)
	case "junk":
		return "OOfferJunk"
	case "msg":
		return fmt.Sprintf("OMsg %d %d", op.Conn, op.Msg)
	case "close":
		return fmt.Sprintf("OClose %d", op.Conn)
	case "psend":
		return fmt.Sprintf("OPeerSend %d %d", op.Peer, op.Msg)
	case "pdrop":
		return fmt.Sprintf("OPeerDrop %d", op.Peer)
	}
	return "OOfferJunk"
}

func run(raw json.RawMessage) lib.Case {
	var in input
	if err := json.Unmarshal(raw, &in); err != nil {
		panic(err)
	}
	class := in.Flavor // the mode (transport, router/server) is part of the input
	w, err := newWorld(&in)
	if err != nil {
		if w != nil {
			func() {
				defer func() { recover() }()
				w.close()
			}()
		}
		return lib.Case{Discard: true, Class: class, Obs: err.Error()}
	}
	var outs []outc
	var discard string
	func() {
		defer func() {
			if r := recover(); r != nil {
				// per-operation panics are observations already; what is left is the harness's own
				panic(r)
			}
		}()
		outs, discard = w.runOps(&in)
		if discard != "" {
			w.close()
		}
	}()
	log.OutputToBuf() // LocalTest.CloseAll switches the output back to the OS
	log.GetStdOut()
	log.GetStdErr()
	if discard != "" {
		fmt.Fprintln(os.Stderr, "discarded:", class, discard)
		return lib.Case{Discard: true, Class: class, Obs: discard}
	}
	// set-id classes
	type sc struct {
		src string
		cls int
	}
	var scs []sc
	seenSrc := map[string]bool{}
	classes := map[network.PeerSetID]int{}
	for _, op := range in.Ops {
		if op.Src == nil {
			continue
		}
		s := coqSrc(op.Src)
		if seenSrc[s] {
			continue
		}
		seenSrc[s] = true
		id, _ := w.peerSetID(op.Src)
		if _, ok := classes[id]; !ok {
			classes[id] = len(classes)
		}
		scs = append(scs, sc{s, classes[id]})
	}
	hist := make([]string, len(in.Ops))
	nontrivial := false
	for i, op := range w.eff {
		hist[i] = "(" + coqOp(w, op) + ", " + outs[i].coq() + ")"
		if outs[i].Kind == "refuse" || outs[i].Kind == "disp" {
			nontrivial = true
		}
	}
	sl := make([]string, len(scs))
	for i, s := range scs {
		sl[i] = fmt.Sprintf("(%s, %d)", s.src, s.cls)
	}
	coq := "Case " + lib.List(hist) + " " + lib.List(sl)
	var obs interface{} = outs
	if w.trials > 0 {
		obs = map[string]interface{}{"outcomes": outs, "concurrent_trials_run": w.trials, "operations_as_reported": w.eff}
	}
	return lib.Case{Coq: coq, Class: class, Obs: obs, Nontrivial: nontrivial}
}

// ---------------------------------------------------------------- generator -

var rawDatas = [][]int{
	{}, {0}, {1}, {1, 0}, {2}, {7, 7, 7},
	// 32 and 33 bytes with a common 32-byte prefix: NewPeerSetID truncates
	seqBytes(32), seqBytes(33),
}

func seqBytes(n int) []int {
	b := make([]int, n)
	for i := range b {
		b[i] = i + 1
	}
	return b
}

var ctxDatas = [][]int{{}, {0}, {1}, {1, 0}, {9, 9},
	// "chain ids": 32 bytes and more, sharing a 32-byte prefix -- the whole data and the
	// service id must enter Context.NewPeerSetID
	seqBytes(32), seqBytes(33), seqBytes(48), append(seqBytes(32), 200, 201)}

func genHistory(rng *rand.Rand, mode, flavor string, nops int) input {
	server := strings.HasPrefix(mode, "server")
	nkeys := 2 + rng.Intn(5)
	in := input{Mode: mode, Flavor: flavor, NKeys: nkeys, CtxPeer: -1}
	if server && rng.Intn(2) == 0 {
		in.CtxPeer = nkeys - 1
	}
	// set ids of this history: 1-4
	nsid := 1 + rng.Intn(4)
	var srcs []*srcIn
	for len(srcs) < nsid {
		if server && rng.Intn(2) == 0 {
			srcs = append(srcs, &srcIn{Svc: rng.Intn(2), Data: ctxDatas[rng.Intn(len(ctxDatas))]})
		} else {
			srcs = append(srcs, &srcIn{Svc: -1, Data: rawDatas[rng.Intn(len(rawDatas))]})
		}
	}
	entry := func() int {
		if server {
			return rng.Intn(3)
		}
		return 0
	}
	anySrc := func() *srcIn {
		if rng.Intn(8) == 0 { // an identifier outside the chosen ones (reads of never-set ids)
			if server && rng.Intn(2) == 0 {
				return &srcIn{Svc: rng.Intn(2), Data: ctxDatas[rng.Intn(len(ctxDatas))]}
			}
			return &srcIn{Svc: -1, Data: rawDatas[rng.Intn(len(rawDatas))]}
		}
		return srcs[rng.Intn(len(srcs))]
	}
	honest := func(k int) identIn { return identIn{Key: k, Decl: -1} }
	forgedDecl := func(k int) int {
		switch rng.Intn(6) {
		case 0:
			return 0
		case 1:
			return 1000 + rng.Intn(3)
		default:
			j := rng.Intn(nkeys)
			return j + 1
		}
	}
	var offers []int // positions of offers / junk
	delay := 0
	if rng.Intn(3) == 0 { // a prefix without any set: everyone is accepted
		delay = 1 + rng.Intn(4)
	}
	for pos := 0; pos < nops; pos++ {
		r := rng.Intn(100)
		if pos < delay && r < 30 {
			r = 30 + rng.Intn(70)
		}
		switch {
		case r < 22: // set / replace
			var ps []identIn
			if rng.Intn(6) != 0 { // else: empty set
				for k := 0; k < nkeys; k++ {
					if rng.Intn(3) == 0 {
						ps = append(ps, honest(k))
					}
				}
				if len(ps) > 0 && rng.Intn(5) == 0 { // a repeated member
					ps = append(ps, ps[0])
				}
			}
			if (flavor == "stale" || flavor == "mixed") && len(ps) > 0 && rng.Intn(2) == 0 {
				i := rng.Intn(len(ps))
				ps[i].Decl = forgedDecl(ps[i].Key)
			}
			in.Ops = append(in.Ops, opIn{Kind: "set", Entry: entry(), Src: anySrc(), Peers: ps, NilPeers: len(ps) == 0 && rng.Intn(2) == 0})
		case r < 34:
			in.Ops = append(in.Ops, opIn{Kind: "get", Entry: entry(), Src: anySrc()})
		case r < 56: // raw offer
			k := rng.Intn(nkeys)
			id := honest(k)
			if (flavor == "forged" || flavor == "mixed") && rng.Intn(2) == 0 {
				id.Decl = forgedDecl(k)
			}
			offers = append(offers, pos)
			in.Ops = append(in.Ops, opIn{Kind: "offer", Ident: &id})
		case r < 59:
			offers = append(offers, pos)
			in.Ops = append(in.Ops, opIn{Kind: "junk"})
		case r < 78: // message on an earlier connection
			if len(offers) == 0 {
				in.Ops = append(in.Ops, opIn{Kind: "get", Entry: entry(), Src: anySrc()})
			} else {
				in.Ops = append(in.Ops, opIn{Kind: "msg", Conn: offers[rng.Intn(len(offers))], Msg: pos})
			}
		case r < 83:
			if len(offers) == 0 {
				in.Ops = append(in.Ops, opIn{Kind: "psend", Peer: rng.Intn(nkeys), Msg: pos})
			} else {
				in.Ops = append(in.Ops, opIn{Kind: "close", Conn: offers[rng.Intn(len(offers))]})
			}
		case r < 96:
			in.Ops = append(in.Ops, opIn{Kind: "psend", Peer: rng.Intn(nkeys), Msg: pos})
		default:
			p := rng.Intn(nkeys)
			if p == in.CtxPeer {
				in.Ops = append(in.Ops, opIn{Kind: "psend", Peer: p, Msg: pos})
			} else {
				in.Ops = append(in.Ops, opIn{Kind: "pdrop", Peer: p})
			}
		}
	}
	return in
}

// genEmptyNil: an EMPTY set (given as an empty list or as a nil list -- two different
// inputs) as the first / only / last / replacing set, followed by probes of non-members
// and former members and by read-backs: "no set was ever given" (everybody accepted, nil
// read-back) must not be confused with "one empty set" (nobody accepted, empty read-back).
func genEmptyNil(rng *rand.Rand, mode string, variant int) input {
	server := strings.HasPrefix(mode, "server")
	in := input{Mode: mode, Flavor: "emptyset", NKeys: 3, CtxPeer: -1}
	a := &srcIn{Svc: -1, Data: []int{}}
	b := &srcIn{Svc: -1, Data: []int{2}}
	if server && rng.Intn(2) == 0 {
		a = &srcIn{Svc: rng.Intn(2), Data: []int{1}}
	}
	entry := func() int {
		if server {
			return rng.Intn(3)
		}
		return 0
	}
	h := func(k int) identIn { return identIn{Key: k, Decl: -1} }
	empty := func(src *srcIn) opIn {
		return opIn{Kind: "set", Entry: entry(), Src: src, NilPeers: rng.Intn(3) != 0}
	}
	set := func(src *srcIn, ks ...int) opIn {
		o := opIn{Kind: "set", Entry: entry(), Src: src}
		for _, k := range ks {
			o.Peers = append(o.Peers, h(k))
		}
		return o
	}
	get := func(src *srcIn) opIn { return opIn{Kind: "get", Entry: entry(), Src: src} }
	add := func(ops ...opIn) { in.Ops = append(in.Ops, ops...) }
	offer := func(k int) int {
		id := h(k)
		add(opIn{Kind: "offer", Ident: &id})
		return len(in.Ops) - 1
	}
	msg := func(c int) { add(opIn{Kind: "msg", Conn: c, Msg: len(in.Ops)}) }
	probes := func() {
		for _, k := range rng.Perm(3) {
			if rng.Intn(2) == 0 {
				c := offer(k)
				msg(c)
			} else {
				add(opIn{Kind: "psend", Peer: k, Msg: len(in.Ops)})
			}
		}
	}
	switch variant % 5 {
	case 0: // the empty set is the first and only one
		add(get(a), empty(a))
		probes()
		add(get(a), get(b))
	case 1: // a set is replaced by the empty one, which is then the only one
		add(set(a, 0))
		c := offer(0)
		add(empty(a))
		probes()
		msg(c)
		add(get(a), get(b))
	case 2: // the empty set comes last, beside a populated one
		add(set(a, 0), empty(b))
		probes()
		add(get(b), get(a))
	case 3: // all sets end up empty
		add(empty(a), set(b, 1))
		c := offer(1)
		add(empty(b))
		probes()
		msg(c)
		add(get(a), get(b))
	default: // everybody is in before the first (empty) set, nobody after
		c := offer(2)
		add(opIn{Kind: "psend", Peer: 1, Msg: 1}, get(a), empty(a))
		probes()
		msg(c)
		add(get(a), set(a, 1))
		probes()
		add(empty(a), get(a))
		probes()
	}
	return in
}

// genCtxIDs: set ids derived by Context.NewPeerSetID of BOTH harness services from the
// same data of 32 bytes and more, and from data sharing a 32-byte prefix: every
// (service, data) is a set of its own -- stored, replaced, read back through the
// contexts and the router, and probed with connections.
func genCtxIDs(rng *rand.Rand, mode string) input {
	nkeys := 4
	in := input{Mode: mode, Flavor: "ctxids", NKeys: nkeys, CtxPeer: -1}
	long := [][]int{seqBytes(32), seqBytes(33), seqBytes(48), append(seqBytes(32), 200, 201), seqBytes(64)}
	d1 := long[rng.Intn(len(long))]
	d2 := long[rng.Intn(len(long))]
	ids := []*srcIn{{Svc: 0, Data: d1}, {Svc: 1, Data: d1}, {Svc: 0, Data: d2}, {Svc: 1, Data: d2}, {Svc: -1, Data: d1}}
	for i, k := range rng.Perm(len(ids)) {
		o := opIn{Kind: "set", Entry: rng.Intn(3), Src: ids[k]}
		if i < nkeys { // every id gets its own single member; the last one stays empty
			o.Peers = []identIn{{Key: i, Decl: -1}}
		}
		in.Ops = append(in.Ops, o)
		if rng.Intn(2) == 0 {
			in.Ops = append(in.Ops, opIn{Kind: "get", Entry: rng.Intn(3), Src: ids[rng.Intn(len(ids))]})
		}
	}
	for _, k := range rng.Perm(len(ids)) {
		in.Ops = append(in.Ops, opIn{Kind: "get", Entry: rng.Intn(3), Src: ids[k]})
	}
	// replace one set by the empty one: only ITS member loses access
	victim := ids[rng.Intn(len(ids))]
	in.Ops = append(in.Ops, opIn{Kind: "set", Entry: rng.Intn(3), Src: victim})
	for key := 0; key < nkeys; key++ {
		if rng.Intn(2) == 0 {
			in.Ops = append(in.Ops, opIn{Kind: "offer", Ident: &identIn{Key: key, Decl: -1}})
		} else {
			in.Ops = append(in.Ops, opIn{Kind: "psend", Peer: key, Msg: len(in.Ops)})
		}
	}
	for _, k := range rng.Perm(len(ids)) {
		in.Ops = append(in.Ops, opIn{Kind: "get", Entry: rng.Intn(3), Src: ids[k]})
	}
	return in
}

// genConcurrent: groups of 2-4 SetValidPeers calls on different set ids released from a
// barrier (many trials), each group followed by the read-back of every set and by probes
// with real connections by a member of each set and by a non-member.
func genConcurrent(rng *rand.Rand, mode string, trials int) input {
	server := strings.HasPrefix(mode, "server")
	nkeys := 3 + rng.Intn(3)
	in := input{Mode: mode, Flavor: "concurrent", NKeys: nkeys, CtxPeer: -1}
	ids := []*srcIn{{Svc: -1, Data: []int{3}}, {Svc: -1, Data: []int{4}}, {Svc: -1, Data: []int{5}}, {Svc: -1, Data: []int{6}}}
	if server {
		ids[1] = &srcIn{Svc: 0, Data: []int{9, 9}}
		ids[2] = &srcIn{Svc: 1, Data: []int{9, 9}}
	}
	entry := func() int {
		if server {
			return rng.Intn(3)
		}
		return 0
	}
	if rng.Intn(2) == 0 { // an unrelated set that must survive everything
		in.Ops = append(in.Ops, opIn{Kind: "set", Entry: entry(), Src: &srcIn{Svc: -1, Data: []int{7, 7, 7}}, Peers: []identIn{{Key: 0, Decl: -1}}})
	}
	for g := 0; g < 2; g++ {
		k := 2 + rng.Intn(3)
		perm := rng.Perm(len(ids))
		first := len(in.Ops)
		for i := 0; i < k; i++ {
			var ps []identIn
			for _, key := range rng.Perm(nkeys)[:1+rng.Intn(2)] {
				ps = append(ps, identIn{Key: key, Decl: -1})
			}
			in.Ops = append(in.Ops, opIn{Kind: "set", Entry: entry(), Src: ids[perm[i]], Peers: ps})
		}
		in.Ops[first].Group, in.Ops[first].Trials = k, trials
		for i := 0; i < k; i++ {
			in.Ops = append(in.Ops, opIn{Kind: "get", Entry: entry(), Src: ids[perm[i]]})
		}
		in.Ops = append(in.Ops, opIn{Kind: "get", Src: &srcIn{Svc: -1, Data: []int{7, 7, 7}}})
		// a member of every set of the group, then everybody once
		for i := 0; i < k; i++ {
			m := in.Ops[first+i].Peers[0]
			if rng.Intn(2) == 0 {
				in.Ops = append(in.Ops, opIn{Kind: "offer", Ident: &identIn{Key: m.Key, Decl: -1}})
				in.Ops = append(in.Ops, opIn{Kind: "msg", Conn: len(in.Ops) - 1, Msg: len(in.Ops)})
			} else {
				in.Ops = append(in.Ops, opIn{Kind: "psend", Peer: m.Key, Msg: len(in.Ops)})
				in.Ops = append(in.Ops, opIn{Kind: "pdrop", Peer: m.Key})
			}
		}
		for key := 0; key < nkeys; key++ {
			in.Ops = append(in.Ops, opIn{Kind: "offer", Ident: &identIn{Key: key, Decl: -1}})
		}
	}
	return in
}

func generate(rng *rand.Rand, tier string) []interface{} {
	var ins []interface{}
	modes := []string{"router-tcp", "router-local", "router-tls", "server-tcp", "server-local"}
	nEmpty, nConc, trials := 25, 12, 3000
	if tier != "quick" {
		nEmpty, nConc, trials = 200, 80, 20000
	}
	for i := 0; i < nEmpty; i++ {
		ins = append(ins, genEmptyNil(rng, modes[i%len(modes)], i/len(modes)))
	}
	nCtx := 10
	if tier != "quick" {
		nCtx = 100
	}
	for i := 0; i < nCtx; i++ {
		ins = append(ins, genCtxIDs(rng, []string{"server-tcp", "server-local"}[i%2]))
	}
	for i := 0; i < nConc; i++ {
		ins = append(ins, genConcurrent(rng, modes[i%2*3], trials)) // router-tcp and server-tcp
	}
	type plan struct {
		mode string
		n    int
	}
	plans := []plan{{"router-tcp", 340}, {"router-local", 340}, {"router-tls", 100}, {"server-tcp", 80}, {"server-local", 50}}
	maxOps := 22
	if tier != "quick" {
		plans = []plan{{"router-tcp", 1500}, {"router-local", 1500}, {"router-tls", 400}, {"server-tcp", 350}, {"server-local", 250}}
		maxOps = 40
	}
	flavors := []string{"honest", "honest", "forged", "stale", "mixed"}
	for _, p := range plans {
		for i := 0; i < p.n; i++ {
			ins = append(ins, genHistory(rng, p.mode, flavors[i%len(flavors)], 6+rng.Intn(maxOps-5)))
		}
	}
	return ins
}

func corpus() []interface{} {
	one := &srcIn{Svc: -1, Data: []int{}}
	two := &srcIn{Svc: -1, Data: []int{2}}
	var ins []interface{}
	for _, mode := range []string{"router-tcp", "router-tls", "router-local", "server-tcp"} {
		// F25 witness: the set holds peer 0 only; peer 1 (own key) declares peer 0's id
		ins = append(ins, input{Mode: mode, Flavor: "forged", NKeys: 2, CtxPeer: -1, Ops: []opIn{
			{Kind: "set", Src: one, Peers: []identIn{{Key: 0, Decl: -1}}},
			{Kind: "offer", Ident: &identIn{Key: 1, Decl: -1}},
			{Kind: "offer", Ident: &identIn{Key: 1, Decl: 1}},
			{Kind: "msg", Conn: 2, Msg: 3},
			{Kind: "offer", Ident: &identIn{Key: 0, Decl: -1}},
			{Kind: "msg", Conn: 4, Msg: 5},
			{Kind: "get", Src: one},
		}})
	}
	// F25, setter side: a member given with a stale (zero) ID field is locked out,
	// and whoever declares the zero id gets in
	ins = append(ins, input{Mode: "router-tcp", Flavor: "stale", NKeys: 2, CtxPeer: -1, Ops: []opIn{
		{Kind: "set", Src: one, Peers: []identIn{{Key: 0, Decl: 0}}},
		{Kind: "offer", Ident: &identIn{Key: 0, Decl: -1}},
		{Kind: "psend", Peer: 0, Msg: 2},
		{Kind: "get", Src: one},
	}})
	// two services, the same 32-byte data: two different sets (Context.NewPeerSetID)
	ins = append(ins, input{Mode: "server-tcp", Flavor: "ctxids", NKeys: 2, CtxPeer: -1, Ops: []opIn{
		{Kind: "set", Entry: 1, Src: &srcIn{Svc: 0, Data: seqBytes(32)}, Peers: []identIn{{Key: 0, Decl: -1}}},
		{Kind: "set", Entry: 2, Src: &srcIn{Svc: 1, Data: seqBytes(32)}, Peers: []identIn{{Key: 1, Decl: -1}}},
		{Kind: "set", Entry: 1, Src: &srcIn{Svc: 0, Data: seqBytes(33)}},
		{Kind: "get", Entry: 1, Src: &srcIn{Svc: 0, Data: seqBytes(32)}},
		{Kind: "get", Entry: 2, Src: &srcIn{Svc: 1, Data: seqBytes(32)}},
		{Kind: "get", Src: &srcIn{Svc: 0, Data: seqBytes(33)}},
		{Kind: "offer", Ident: &identIn{Key: 0, Decl: -1}},
		{Kind: "psend", Peer: 1, Msg: 7},
	}})
	// a NIL member list as the only set: nobody is valid, the read-back is empty (not nil)
	ins = append(ins, input{Mode: "router-tcp", Flavor: "emptyset", NKeys: 2, CtxPeer: -1, Ops: []opIn{
		{Kind: "get", Src: one},
		{Kind: "set", Src: one, NilPeers: true},
		{Kind: "offer", Ident: &identIn{Key: 0, Decl: -1}},
		{Kind: "msg", Conn: 2, Msg: 3},
		{Kind: "psend", Peer: 1, Msg: 4},
		{Kind: "get", Src: one},
		{Kind: "get", Src: two},
	}})
	// independence of sets under replacement (regression shape, no defect)
	ins = append(ins, input{Mode: "router-tcp", Flavor: "honest", NKeys: 3, CtxPeer: -1, Ops: []opIn{
		{Kind: "offer", Ident: &identIn{Key: 2, Decl: -1}},
		{Kind: "set", Src: one, Peers: []identIn{{Key: 0, Decl: -1}}},
		{Kind: "set", Src: two, Peers: []identIn{{Key: 1, Decl: -1}}},
		{Kind: "set", Src: one, Peers: []identIn{}},
		{Kind: "psend", Peer: 1, Msg: 4},
		{Kind: "psend", Peer: 0, Msg: 5},
		{Kind: "msg", Conn: 0, Msg: 6},
		{Kind: "get", Src: one},
		{Kind: "get", Src: two},
		{Kind: "offer", Ident: &identIn{Key: 2, Decl: -1}},
	}})
	return ins
}

func main() {
	log.SetDebugVisible(0)
	log.OutputToBuf()
	network.SetTCPDialTimeout(5 * time.Second)
	lib.Main(lib.Harness{
		Prop:   "C17",
		Import: "Onet.Corr.C17",
		Rule: "seeded histories (6-22 ops quick, 6-40 thorough) over 1-4 set ids (raw ids incl. zero-padding/truncation twins, context-derived ids of two services), " +
			"2-6 peers, on bare routers (tcp, tls, in-memory) and on onet servers driven through the router and the service contexts; " +
			"flavours honest / forged declared id / stale id given to set / mixed; 'ctxids': ids derived by Context.NewPeerSetID of both services from the same data of 32-64 bytes and from data sharing a 32-byte prefix, each stored / replaced / read back / probed; 'emptyset': empty and NIL member lists as first / only / last / replacing set with probes and read-backs; " +
			"'concurrent': groups of 2-4 SetValidPeers on different ids released from a barrier, 3000 (thorough 20000) trials per group with changing member lists, the trial reported is the first whose read-back deviates or the last, then read-backs and connection probes; non-trivial = at least one refusal or dispatch observed; distinct = distinct Coq case term",
		Shard:    60,
		Generate: generate,
		Run:      run,
		Corpus:   corpus,
	})
}
