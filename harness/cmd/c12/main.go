// C12 harness: runs the roster's tree generators of /repo and reports each
// result in breadth-first order as (roster index, parent position) pairs,
// plus the implementation-side consistency facts the Coq checker needs.
package main

import (
	"encoding/json"
	"fmt"
	"math/rand"

	"go.dedis.ch/kyber/v3/suites"
	"go.dedis.ch/kyber/v3/util/key"
	"go.dedis.ch/onet/v3"
	"go.dedis.ch/onet/v3/network"

	"verifharness/lib"
)

var suite = suites.MustFind("Ed25519")

type input struct {
	Kind  string `json:"kind"` // nary | binary | star | big | ltbig | lttree | sim
	Hosts []int  `json:"hosts"`
	N     int    `json:"N"`
	Nodes int    `json:"nodes"`
	Root  int    `json:"root"` // -1 nil, -2 foreign, >=0 roster index
	// the root is handed over as a separate identity value (same key and address, another
	// pointer), as after decoding a message
	RootCopy bool `json:"root_copy,omitempty"`
	// sim: CreateTree was called before on the same configuration with these parameters
	PrevN     int `json:"prev_N,omitempty"`
	PrevNodes int `json:"prev_nodes,omitempty"`
}

var keyPool []*key.Pair

func kp(i int) *key.Pair {
	for len(keyPool) <= i {
		keyPool = append(keyPool, key.NewKeyPair(suite))
	}
	return keyPool[i]
}

func mkRoster(hosts []int) *onet.Roster {
	ids := make([]*network.ServerIdentity, len(hosts))
	for i, h := range hosts {
		addr := network.NewAddress(network.PlainTCP, fmt.Sprintf("10.0.%d.%d:%d", h/250, h%250+1, 2000+i))
		ids[i] = network.NewServerIdentity(kp(i).Public, addr)
	}
	return onet.NewRoster(ids)
}

type obs struct {
	Crash   string   `json:"crash,omitempty"`
	Nil     bool     `json:"nil,omitempty"`
	Nodes   [][2]int `json:"nodes,omitempty"`
	IDs     []int    `json:"ids,omitempty"`
	LinksOK bool     `json:"links_ok"`
	RidxOK  bool     `json:"ridx_ok"`
}

func observe(ro *onet.Roster, gen func() *onet.Tree) (o obs) {
	defer func() {
		if r := recover(); r != nil {
			o = obs{Crash: fmt.Sprint(r)}
		}
	}()
	t := gen()
	if t == nil {
		return obs{Nil: true, LinksOK: true, RidxOK: true}
	}
	o.LinksOK, o.RidxOK = true, true
	if t.Root.Parent != nil {
		o.LinksOK = false
	}
	type qe struct {
		n   *onet.TreeNode
		par int
	}
	queue := []qe{{t.Root, 0}}
	idclass := map[onet.TreeNodeID]int{}
	for k := 0; k < len(queue); k++ {
		e := queue[k]
		o.Nodes = append(o.Nodes, [2]int{e.n.RosterIndex, e.par})
		if _, ok := idclass[e.n.ID]; !ok {
			idclass[e.n.ID] = len(idclass)
		}
		o.IDs = append(o.IDs, idclass[e.n.ID])
		if e.n.RosterIndex < 0 || e.n.RosterIndex >= len(ro.List) || !ro.List[e.n.RosterIndex].Equal(e.n.ServerIdentity) {
			o.RidxOK = false
		}
		for _, c := range e.n.Children {
			if c.Parent != e.n {
				o.LinksOK = false
			}
			queue = append(queue, qe{c, k})
		}
		if len(queue) > 200000 {
			panic("runaway tree")
		}
	}
	if t.Roster != ro {
		o.RidxOK = false
	}
	return o
}

func run(raw json.RawMessage) lib.Case {
	var in input
	if err := json.Unmarshal(raw, &in); err != nil {
		panic(err)
	}
	ro := mkRoster(in.Hosts)
	n := len(in.Hosts)
	var o obs
	var rootArg string
	switch in.Root {
	case -1:
		rootArg = "RNil"
	case -2:
		rootArg = "RForeign"
	default:
		rootArg = fmt.Sprintf("(RIdx %d)", in.Root)
	}
	var rootSI *network.ServerIdentity
	if in.Root == -2 {
		rootSI = network.NewServerIdentity(kp(100000).Public, network.NewAddress(network.PlainTCP, "10.9.9.9:2000"))
	} else if in.Root >= 0 {
		if in.Root < n {
			rootSI = ro.List[in.Root]
			if in.RootCopy {
				rootSI = network.NewServerIdentity(rootSI.Public, rootSI.Address)
			}
		} else {
			// an index beyond the roster: a member of a larger roster that is not in this one
			rootSI = network.NewServerIdentity(kp(in.Root).Public, network.NewAddress(network.PlainTCP, "10.9.9.8:2000"))
		}
	}
	class := in.Kind
	switch in.Kind {
	case "nary":
		o = observe(ro, func() *onet.Tree { return ro.GenerateNaryTreeWithRoot(in.N, rootSI) })
		if in.RootCopy {
			class = "nary-rootcopy"
		}
	case "binary":
		o = observe(ro, func() *onet.Tree { return ro.GenerateBinaryTree() })
	case "star":
		o = observe(ro, func() *onet.Tree { return ro.GenerateStar() })
	case "ltbig", "lttree":
		// the test helpers of local.go that wrap the generators: they build their own roster
		// (n servers on one host)
		lt := onet.NewLocalTest(suite)
		var lro *onet.Roster
		var lo obs
		func() {
			defer func() {
				if r := recover(); r != nil {
					lo = obs{Crash: fmt.Sprint(r)}
				}
			}()
			var tr *onet.Tree
			if in.Kind == "ltbig" {
				_, lro, tr = lt.GenBigTree(in.Nodes, n, in.N, false)
			} else {
				_, lro, tr = lt.GenTree(n, false)
			}
			lo = observe(lro, func() *onet.Tree { return tr })
		}()
		lt.CloseAll()
		o = lo
		class = in.Kind
		if in.Kind == "ltbig" {
			class += bigSuffix(in.Nodes, n)
		}
	case "sim":
		// simulation.go: SimulationBFTree.CreateTree on a given roster
		sim := &onet.SimulationBFTree{Hosts: in.Nodes, BF: in.N}
		sc := &onet.SimulationConfig{Roster: ro}
		o = observe(ro, func() *onet.Tree {
			if in.PrevN > 0 {
				// the same configuration went through CreateTree before, with other parameters
				prev := &onet.SimulationBFTree{Hosts: in.PrevNodes, BF: in.PrevN}
				if err := prev.CreateTree(sc); err != nil {
					return nil
				}
			}
			if err := sim.CreateTree(sc); err != nil {
				return nil
			}
			return sc.Tree
		})
		class = "sim" + bigSuffix(in.Nodes, n)
		if in.PrevN > 0 {
			class = "sim-again" + bigSuffix(in.Nodes, n)
		}
	case "big":
		o = observe(ro, func() *onet.Tree { return ro.GenerateBigNaryTree(in.N, in.Nodes) })
		if in.Nodes == n {
			class = "big-useall"
		} else if in.Nodes > n {
			class = "big-repeat"
		} else {
			class = "big-subset"
		}
	}
	var res string
	switch {
	case o.Crash != "":
		res = "GCrash"
		class += "-crash"
	case o.Nil:
		res = "GNone"
		class += "-nil"
	default:
		res = "(GTree " + lib.PairList(o.Nodes) + ")"
	}
	var coq string
	switch in.Kind {
	case "nary":
		coq = fmt.Sprintf("CNary %d %d %s %s %s %s %s", n, in.N, rootArg, res, lib.NatList(o.IDs), lib.Bool(o.LinksOK), lib.Bool(o.RidxOK))
	case "binary":
		coq = fmt.Sprintf("CBinary %d %s %s %s %s", n, res, lib.NatList(o.IDs), lib.Bool(o.LinksOK), lib.Bool(o.RidxOK))
	case "star":
		coq = fmt.Sprintf("CStar %d %s %s %s %s", n, res, lib.NatList(o.IDs), lib.Bool(o.LinksOK), lib.Bool(o.RidxOK))
	case "big":
		coq = fmt.Sprintf("CBig %s %d %d %s %s %s %s", lib.NatList(in.Hosts), in.N, in.Nodes, res, lib.NatList(o.IDs), lib.Bool(o.LinksOK), lib.Bool(o.RidxOK))
	case "sim":
		coq = fmt.Sprintf("CSim %s %d %d %s %s %s %s", lib.NatList(in.Hosts), in.N, in.Nodes, res, lib.NatList(o.IDs), lib.Bool(o.LinksOK), lib.Bool(o.RidxOK))
	case "ltbig":
		coq = fmt.Sprintf("CLtBig %d %d %d %s %s %s %s", in.Nodes, n, in.N, res, lib.NatList(o.IDs), lib.Bool(o.LinksOK), lib.Bool(o.RidxOK))
	case "lttree":
		coq = fmt.Sprintf("CLtTree %d %s %s %s %s", n, res, lib.NatList(o.IDs), lib.Bool(o.LinksOK), lib.Bool(o.RidxOK))
	}
	small := o
	if len(small.Nodes) > 40 {
		small.Nodes = small.Nodes[:40]
		small.IDs = small.IDs[:40]
	}
	return lib.Case{Coq: coq, Class: class, Obs: small, Nontrivial: len(o.Nodes) > 1}
}

func bigSuffix(nodes, n int) string {
	if nodes == n {
		return "-useall"
	} else if nodes > n {
		return "-repeat"
	}
	return "-subset"
}

func hostPattern(rng *rand.Rand, n, pat int) []int {
	h := make([]int, n)
	for i := range h {
		switch pat {
		case 0: // all distinct
			h[i] = i
		case 1: // all on one host
			h[i] = 0
		case 2: // pairs
			h[i] = i / 2
		default: // random few hosts
			h[i] = rng.Intn(1 + n/2)
		}
	}
	return h
}

func generate(rng *rand.Rand, tier string) []interface{} {
	var ins []interface{}
	maxN, maxBF, maxNodes := 9, 4, 20
	if tier != "quick" {
		maxN, maxBF, maxNodes = 12, 5, 30
	}
	// exhaustive small part
	for n := 1; n <= maxN; n++ {
		for bf := 1; bf <= maxBF; bf++ {
			for root := -1; root < n; root++ {
				ins = append(ins, input{Kind: "nary", Hosts: hostPattern(rng, n, 0), N: bf, Root: root})
				if root >= 0 {
					ins = append(ins, input{Kind: "nary", Hosts: hostPattern(rng, n, 0), N: bf, Root: root, RootCopy: true})
				}
			}
			for pat := 0; pat < 4; pat++ {
				for nodes := 1; nodes <= maxNodes; nodes++ {
					if tier == "quick" && pat == 3 && nodes%2 == 0 {
						continue
					}
					ins = append(ins, input{Kind: "big", Hosts: hostPattern(rng, n, pat), N: bf, Nodes: nodes})
				}
			}
		}
		ins = append(ins, input{Kind: "binary", Hosts: hostPattern(rng, n, 0)})
		ins = append(ins, input{Kind: "star", Hosts: hostPattern(rng, n, 0)})
		ins = append(ins, input{Kind: "nary", Hosts: hostPattern(rng, n, 0), N: 2, Root: -2})
		ins = append(ins, input{Kind: "nary", Hosts: hostPattern(rng, n, 0), N: 2, Root: n + 3})
		ins = append(ins, input{Kind: "nary", Hosts: hostPattern(rng, n, 0), N: 0, Root: -1})
	}
	// the host-avoiding search of the big generator: every placement of the members on two hosts
	// (first member on host 0, by symmetry) with as many nodes as members, and samples on three hosts
	maxTwo := 10
	if tier != "quick" {
		maxTwo = 12
	}
	for n := 2; n <= maxTwo; n++ {
		for pat := 0; pat < 1<<uint(n-1); pat++ {
			h := make([]int, n)
			for i := 1; i < n; i++ {
				h[i] = (pat >> uint(i-1)) & 1
			}
			for bf := 1; bf <= 3; bf++ {
				ins = append(ins, input{Kind: "big", Hosts: h, N: bf, Nodes: n})
			}
		}
	}
	three := 150
	if tier != "quick" {
		three = 3000
	}
	for i := 0; i < three; i++ {
		n := 5 + rng.Intn(12)
		h := make([]int, n)
		for j := range h {
			h[j] = rng.Intn(3)
		}
		nodes := n
		if rng.Intn(4) == 0 {
			nodes = 1 + rng.Intn(2*n)
		}
		ins = append(ins, input{Kind: "big", Hosts: h, N: 1 + rng.Intn(4), Nodes: nodes})
	}
	// the wrappers of local.go and simulation.go around the generators
	wr := 30
	if tier != "quick" {
		wr = 300
	}
	for i := 0; i < wr; i++ {
		n := 1 + rng.Intn(6)
		switch i % 3 {
		case 0:
			nodes := n
			if rng.Intn(2) == 0 {
				nodes = 1 + rng.Intn(14)
			}
			ins = append(ins, input{Kind: "ltbig", Hosts: make([]int, n), N: 1 + rng.Intn(3), Nodes: nodes})
		case 1:
			ins = append(ins, input{Kind: "lttree", Hosts: make([]int, n)})
		default:
			n = 1 + rng.Intn(12)
			nodes := n
			if rng.Intn(2) == 0 {
				nodes = 1 + rng.Intn(2*n)
			}
			in := input{Kind: "sim", Hosts: hostPattern(rng, n, rng.Intn(4)), N: 1 + rng.Intn(4), Nodes: nodes}
			if rng.Intn(2) == 0 {
				in.PrevN, in.PrevNodes = 1+rng.Intn(4), 1+rng.Intn(2*n)
			}
			ins = append(ins, in)
		}
	}
	// sampled large part
	samples := 60
	maxBig := 300
	if tier != "quick" {
		samples, maxBig = 500, 700
	}
	for i := 0; i < samples; i++ {
		n := 1 + rng.Intn(60)
		bf := 1 + rng.Intn(8)
		switch rng.Intn(3) {
		case 0:
			ins = append(ins, input{Kind: "nary", Hosts: hostPattern(rng, n, 0), N: bf, Root: rng.Intn(n+1) - 1})
		case 1:
			ins = append(ins, input{Kind: "big", Hosts: hostPattern(rng, n, rng.Intn(4)), N: bf, Nodes: n})
		default:
			ins = append(ins, input{Kind: "big", Hosts: hostPattern(rng, n, rng.Intn(4)), N: bf, Nodes: 1 + rng.Intn(maxBig)})
		}
	}
	return ins
}

func corpus() []interface{} {
	return []interface{}{
		// F14: 7 nodes over 3 servers
		input{Kind: "big", Hosts: []int{0, 1, 2}, N: 2, Nodes: 7},
	}
}

func main() {
	lib.Main(lib.Harness{
		Prop:   "C12",
		Import: "Onet.Corr.C12",
		Rule: "exhaustive over roster size x branching factor x root (n-ary) and x host pattern x node count (big), " +
			"every two-host placement of up to 10 (thorough 12) members with nodes = members, samples on three hosts, " +
			"plus seeded samples of larger sizes; non-trivial = the generated tree has more than one node; distinct = distinct Coq case term",
		Shard:    300,
		Generate: generate,
		Run:      run,
		Corpus:   corpus,
	})
}
